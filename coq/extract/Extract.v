(* Extraction of the model runner: ExtrOcamlBasic only, numbers stay the
   extracted inductive types (positive / N / Z / nat). *)
From Coq Require Import Extraction ExtrOcamlBasic.
From DSD Require Import Base.Val Model.Dispatch.
Extraction Language OCaml.
Extraction "model.ml" dispatch.
