(* Model runner: one request per line  "<op-string-val> <arg-val>"  -> one result line.
   Value text format (tokens separated by single spaces):
     N | T | F | #<int> | "<cp>,<cp>,... | ( v ... ) | ~<m>,<e> | { "<kind> v ... }      *)
open Model

let rec pos_of_int n = if n = 1 then XH else if n land 1 = 0 then XO (pos_of_int (n lsr 1)) else XI (pos_of_int (n lsr 1))
let n_of_int n = if n = 0 then N0 else Npos (pos_of_int n)
let z_of_int n = if n = 0 then Z0 else if n > 0 then Zpos (pos_of_int n) else Zneg (pos_of_int (-n))
let rec int_of_pos = function XH -> 1 | XO p -> 2 * int_of_pos p | XI p -> 2 * int_of_pos p + 1
let int_of_n = function N0 -> 0 | Npos p -> int_of_pos p
(* values read as ints fit in 62 bits (int_of_string fails otherwise); float mantissas (53 bits) too *)
let int_of_z = function Z0 -> 0 | Zpos p -> int_of_pos p | Zneg p -> - (int_of_pos p)
(* exact decimal printing of a Z of any size: numbers of at most 61 bits through OCaml ints,
   larger ones by doubling a little-endian list of decimal digits *)
let rec bits_of_pos = function XH -> 1 | XO p | XI p -> 1 + bits_of_pos p
let rec dec_double ds carry = match ds with
  | [] -> if carry = 0 then [] else [carry]
  | d :: r -> let v = 2 * d + carry in (v mod 10) :: dec_double r (v / 10)
let rec dec_of_pos = function XH -> [1] | XO p -> dec_double (dec_of_pos p) 0 | XI p -> dec_double (dec_of_pos p) 1
let string_of_pos p =
  if bits_of_pos p <= 61 then string_of_int (int_of_pos p)
  else String.concat "" (List.rev_map string_of_int (dec_of_pos p))
let string_of_z = function Z0 -> "0" | Zpos p -> string_of_pos p | Zneg p -> "-" ^ string_of_pos p

let parse_str tok =
  let body = String.sub tok 1 (String.length tok - 1) in
  if body = "" then [] else List.map (fun s -> n_of_int (int_of_string s)) (String.split_on_char ',' body)

let rec parse toks = match toks with
  | [] -> failwith "eof"
  | t :: rest ->
    (match t.[0] with
     | 'N' -> (VNone, rest)
     | 'T' -> (VBool true, rest)
     | 'F' -> (VBool false, rest)
     | '#' -> (VInt (z_of_int (int_of_string (String.sub t 1 (String.length t - 1)))), rest)
     | '"' -> (VStr (parse_str t), rest)
     | '~' -> (match String.split_on_char ',' (String.sub t 1 (String.length t - 1)) with
               | [m; e] -> (VFloat (z_of_int (int_of_string m), z_of_int (int_of_string e)), rest)
               | _ -> failwith "float")
     | '(' -> let (l, rest') = parse_list rest ")" in (VList l, rest')
     | '{' -> (match parse rest with
               | (VStr k, rest') -> let (l, rest'') = parse_list rest' "}" in (VErr (k, l), rest'')
               | _ -> failwith "err kind")
     | _ -> failwith ("token " ^ t))
and parse_list toks close = match toks with
  | t :: rest when t = close -> ([], rest)
  | _ -> let (v, rest) = parse toks in let (l, rest') = parse_list rest close in (v :: l, rest')

let buf = Buffer.create 65536
let add s = Buffer.add_string buf s
let rec print v = match v with
  | VNone -> add "N"
  | VBool true -> add "T"
  | VBool false -> add "F"
  | VInt z -> add "#"; add (string_of_z z)
  | VStr s -> add "\""; add (String.concat "," (List.map (fun c -> string_of_int (int_of_n c)) s))
  | VFloat (m, e) -> add "~"; add (string_of_int (int_of_z m)); add ","; add (string_of_int (int_of_z e))
  | VList l -> add "("; List.iter (fun x -> add " "; print x) l; add " )"
  | VErr (k, l) -> add "{ "; print (VStr k); List.iter (fun x -> add " "; print x) l; add " }"

let () =
  (try
    while true do
      let line = input_line stdin in
      if line <> "" then begin
        Buffer.clear buf;
        (try
          let toks = List.filter (fun s -> s <> "") (String.split_on_char ' ' line) in
          match parse toks with
          | (VStr op, rest) -> let (a, _) = parse rest in print (dispatch op a)
          | _ -> add "{ \"66,97,100,76,105,110,101 }"
        with Stack_overflow -> add "{ \"83,116,97,99,107 }"
           | Failure _ | Invalid_argument _ | Not_found -> add "{ \"66,97,100,76,105,110,101 }");
        print_string (Buffer.contents buf); print_newline ()
      end
    done
  with End_of_file -> ())
