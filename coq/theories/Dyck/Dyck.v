(* Dyck trees (first-child / next-sibling) and well-formed symbol strings. *)
From Coq Require Import List Arith Lia Bool NArith.
From DSD Require Import Base.Str Base.Errors Model.ComplexUtils.
Import ListNotations.

Inductive dyck := DNil | DU (r : dyck) | DB (r : dyck) | DP (i r : dyck).

Fixpoint render (d : dyck) : list sym :=
  match d with
  | DNil => []
  | DU r => SD :: render r
  | DB r => SB :: render r
  | DP i r => SO :: render i ++ SC :: render r
  end.

Fixpoint wfb_aux (s : list sym) (depth : nat) : bool :=
  match s with
  | [] => depth =? 0
  | SO :: r => wfb_aux r (S depth)
  | SC :: r => match depth with 0 => false | S k => wfb_aux r k end
  | SD :: r | SB :: r => wfb_aux r depth
  | SX :: _ => false
  end.
Definition wfb s := wfb_aux s 0.

Lemma wfb_render_app d : forall t k, wfb_aux (render d ++ t) k = wfb_aux t k.
Proof.
  induction d as [|r IH|r IH|i IHi r IHr]; intros t k; cbn [render app wfb_aux]; auto.
  rewrite <- app_assoc. rewrite IHi. cbn [app wfb_aux]. apply IHr.
Qed.

Lemma wfb_render d : wfb (render d) = true.
Proof. unfold wfb. rewrite <- (app_nil_r (render d)), wfb_render_app. reflexivity. Qed.

Lemma wfb_decompose : forall n s k, length s <= n -> wfb_aux s k = true ->
  exists d rest, s = render d ++ rest /\
    match k with 0 => rest = [] | S k' => exists rest', rest = SC :: rest' /\ wfb_aux rest' k' = true end.
Proof.
  induction n as [|n IH]; intros s k Hlen Hwf.
  - destruct s; [|cbn in Hlen; lia]. cbn in Hwf. apply Nat.eqb_eq in Hwf. subst k.
    exists DNil, []. auto.
  - destruct s as [|c r].
    + cbn in Hwf. apply Nat.eqb_eq in Hwf. subst k. exists DNil, []. auto.
    + cbn in Hlen. destruct c; cbn [wfb_aux] in Hwf.
      * (* SO *) destruct (IH r (S k) ltac:(lia) Hwf) as (i & rest & Hr & rest' & Hrest & Hwf').
        assert (Hl : length rest' <= n).
        { subst r rest. rewrite app_length in Hlen. cbn in Hlen. lia. }
        destruct (IH rest' k Hl Hwf') as (d2 & rest2 & Hr2 & Hk).
        exists (DP i d2), rest2. split; [|exact Hk].
        subst r rest rest'. cbn [render app]. rewrite <- app_assoc. reflexivity.
      * (* SC *) destruct k as [|k']; [discriminate|].
        exists DNil, (SC :: r). split; [reflexivity|]. exists r. auto.
      * destruct (IH r k ltac:(lia) Hwf) as (d & rest & Hr & Hk).
        exists (DU d), rest. split; [subst r; reflexivity | exact Hk].
      * destruct (IH r k ltac:(lia) Hwf) as (d & rest & Hr & Hk).
        exists (DB d), rest. split; [subst r; reflexivity | exact Hk].
      * discriminate.
Qed.

Theorem wfb_iff_render s : wfb s = true <-> exists d, render d = s.
Proof.
  split.
  - intros H. destruct (wfb_decompose (length s) s 0 (le_n _) H) as (d & rest & Hs & Hr).
    subst rest. rewrite app_nil_r in Hs. eauto.
  - intros [d <-]. apply wfb_render.
Qed.
