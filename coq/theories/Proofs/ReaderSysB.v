(* Reader model, C14: a consistent system is never refused.
   Part 3: one new object filed under its name keeps the session invariant; reading one statement
   when read_pil_line and the if/elif chain succeed. *)
From Coq Require Import List NArith ZArith Bool Arith Lia.
From DSD Require Import Base.Str Base.Errors Model.ComplexUtils Model.RegStr Model.ReaderStr Model.PyNum
  Model.Peg Model.Kernel Model.DispatchKernel Model.Heap Model.Registry Model.Reader Model.ReaderShape Model.ReaderConsistent
  Proofs.RegHeap Proofs.RegInv Proofs.RegCalls Proofs.RegExt Proofs.ReaderBasic Proofs.ReaderStmt Proofs.ReaderHeap
  Proofs.ReaderInv Proofs.ReaderHoare Proofs.ReaderNoFault Proofs.ReaderThms Proofs.ReaderBuilds Proofs.ReaderKernel
  Proofs.ReaderMore Proofs.ReaderSys Proofs.ReaderSysA.
From DSD Require Model.Iupac.
Import ListNotations.

Section Add.
  Variable ct : ctable.
  Variables cd cs cc cm cr : nat.
  Hypothesis CO : cfg_okb ct cd cs cc cm cr = true.
  Notation G := (g cd cs cc cm cr).
  Notation cls_of := (cls_of cd cs cc cm cr).
  Notation Core := (Core cd cs cc cm cr ct).

  Notation BuiltRxn := (BuiltRxn cr).

  Let SO : slots_ok ct cd cs cc cm cr := co_slots ct cd cs cc cm cr CO.

  Lemma cls_of_lt k : cls_of k < length ct.
  Proof.
    destruct SO as [_ F]. rewrite Forall_forall in F. apply F. destruct k; cbn; tauto.
  Qed.

  Lemma cls_of_inj k k' : cls_of k = cls_of k' -> k = k'.
  Proof.
    pose proof (slots_neq ct cd cs cc cm cr SO) as D.
    destruct k, k'; cbn; intros E; try reflexivity; exfalso; first [tauto | symmetry in E; tauto].
  Qed.

  Lemma attr_get_set {V} i j (v : V) l : attr_get j (attr_set i v l) = if Nat.eqb j i then Some v else attr_get j l.
  Proof. reflexivity. Qed.

  (* one new object of a dictionary kind, held and filed under its name *)
  Lemma core_add prev prev' r acc k nm key extra ch d sq' cn' rt' :
    Core prev r acc -> k <> KindR ->
    Fresh (r_st r) (cls_of k) nm key extra ->
    (forall x, In x ch -> is_live (heap (r_st r)) x = true) ->
    ObjOK (new_obj (cls_of k) nm key extra ch d) ->
    (k = KindD -> exists l, d = DDom l) ->
    (forall k' n, In n (declared k' prev) -> In n (declared k' prev')) ->
    In nm (declared k prev') ->
    (forall x l, In (x, l) (decl_doms prev') ->
       starred x = false /\ nonempty x = true /\ (0 <= l)%Z /\ str_eqb x sPlus = false) ->
    (forall ri, In (SRxn ri) prev -> In (SRxn ri) prev') ->
    (forall j, j <> length (heap (r_st r)) ->
       attr_get j sq' = attr_get j (r_seq r) /\ attr_get j cn' = attr_get j (r_conc r) /\
       attr_get j rt' = attr_get j (r_rate r)) ->
    let i := length (heap (r_st r)) in
    let r' := mkR (hold (mk_new (r_st r) (cls_of k) nm key extra ch d) i) sq' cn' rt' in
    let acc' := with_dict k acc (dset nm i (dict_of k acc)) in
    (forall n0 names sst, In (n0, (names, sst)) (decl_cplx prev') ->
       In (n0, (names, sst)) (decl_cplx prev) \/
       (Later r acc r' acc' -> exists conc, BuiltCplx cc r' acc' n0 names sst conc)) ->
    Core prev' r' acc' /\ Later r acc r' acc'.
  Proof.
    intros C Hk F Hch HO HD Hdecl Hnm Hd' Hrx Hattr i r' acc' Hcx.
    destruct C as [Csok Cattr Cheld Cdom Creg CrR Ckeys Cdecl CkR Ccplx Crot].
    pose proof (proj1 Csok) as I0. pose proof (ok_len _ _ (proj1 I0)) as Lc.
    assert (Hfresh : dlookup nm (dict_of k acc) = None).
    { rewrite <- (Creg k Hk). exact (proj1 F). }
    assert (L : Later r acc r' acc').
    { constructor.
      - exists [new_obj (cls_of k) nm key extra ch d]. reflexivity.
      - intros k' n j H. subst acc'. destruct (kind_eqb k k') eqn:E.
        + assert (k = k') by (destruct k, k'; cbn in E; congruence). subst k'.
          rewrite dict_with_same by exact Hk. apply dlookup_dset_keep; assumption.
        + rewrite dict_with_other; [exact H|]. intros ->. destruct k'; discriminate.
      - intros j H. subst acc'. rewrite det_with. exact H.
      - intros j H. subst acc'. rewrite con_with. exact H.
      - intros j H. cbn [r_seq r']. apply Hattr. fold i. lia.
      - intros j H. cbn [r_conc r']. apply Hattr. fold i. lia.
      - intros j H. cbn [r_rate r']. apply Hattr. fold i. lia.
      - subst acc'. apply other_with. }
    split; [|exact L]. constructor.
    - cbn [r_st r']. apply sok_mk_new; [exact Csok | apply cls_of_lt | exact F | exact Hch | exact HO].
    - intros j Hj. cbn [r_st r' hold heap] in Hj. rewrite heap_mk_new in Hj. cbn [length] in Hj. fold i in Hj.
      cbn [r_seq r_conc r_rate r'].
      destruct (Hattr j) as [A1 [A2 A3]]; [fold i; lia|]. rewrite A1, A2, A3. apply Cattr. fold i. lia.
    - intros j Hj. cbn [r_st r' hold roots]. rewrite roots_mk_new. apply in_or_app.
      apply acc_ids_with in Hj. destruct Hj as [->|Hj]; [right; left; reflexivity | left; apply Cheld; exact Hj].
    - intros j o Hj Hc. cbn [r_st r' hold heap] in Hj. rewrite heap_mk_new in Hj.
      destruct (Nat.eq_dec j (length (heap (r_st r)))) as [->|Dj].
      + rewrite hget_new in Hj. injection Hj as <-. cbn in Hc. change cd with (cls_of KindD) in Hc.
        apply cls_of_inj in Hc. cbn. apply HD. exact Hc.
      + rewrite hget_old in Hj by exact Dj. eapply Cdom; eauto.
    - intros k' Hk' n. cbn [r_st r']. change (cget (hold ?s ?j) ?c) with (cget s c).
      destruct (kind_eqb k k') eqn:E.
      + assert (k = k') by (destruct k, k'; cbn in E; congruence). subst k'.
        rewrite names_mk_new by (rewrite Lc; apply cls_of_lt). subst acc'. rewrite dict_with_same by exact Hk.
        rewrite dlookup_dset. fold i. destruct (str_eqb n nm); [reflexivity | apply Creg; exact Hk].
      + assert (Dk : k <> k') by (intros ->; destruct k'; discriminate).
        rewrite cget_mk_new_other by (intros Ec; apply cls_of_inj in Ec; contradiction).
        subst acc'. rewrite dict_with_other by exact Dk. apply Creg. exact Hk'.
    - intros n j. cbn [r_st r']. change (cget (hold ?s ?j) ?c) with (cget s c).
      rewrite cget_mk_new_other.
      + subst acc'. rewrite det_with, con_with. apply CrR.
      + change cr with (cls_of KindR). intros Ec. apply cls_of_inj in Ec. contradiction.
    - intros k' n Hn. destruct (kind_eqb k k') eqn:E.
      + assert (k = k') by (destruct k, k'; cbn in E; congruence). subst k'.
        subst acc'. rewrite dict_with_same in Hn by exact Hk. apply dset_keys in Hn.
        destruct Hn as [->|Hn]; [exact Hnm | apply Hdecl; apply Ckeys; exact Hn].
      + assert (Dk : k <> k') by (intros ->; destruct k'; discriminate).
        subst acc'. rewrite dict_with_other in Hn by exact Dk. apply Hdecl. apply Ckeys. exact Hn.
    - exact Hd'.
    - intros j Hj. subst acc'. rewrite det_with, con_with in Hj. destruct (CkR j Hj) as [ri [H1 H2]].
      exists ri. split; [apply Hrx; exact H1 | eapply builtrxn_later; eauto].
    - intros n0 names sst Hin. destruct (Hcx n0 names sst Hin) as [Ho|Hn]; [|apply Hn; exact L].
      destruct (Ccplx n0 names sst Ho) as [conc Hb]. exists conc. eapply builtcplx_later; eauto.
    - intros n0 i0 o0 Hd Ho k0 Hk0. cbn [r_st r' hold heap] in Ho. rewrite heap_mk_new in Ho.
      cbn [r_st r']. change (cget (hold ?s ?j) ?c) with (cget s c).
      destruct (kind_eqb k KindC) eqn:E.
      + assert (k = KindC) by (destruct k; cbn in E; congruence). subst k. cbn [ReaderSysA.cls_of] in *.
        subst acc'. cbn [with_dict with_complexes po_complexes dict_of] in Hd. rewrite dlookup_dset in Hd.
        rewrite canon_mk_new by (rewrite Lc; apply (cls_of_lt KindC)).
        destruct (str_eqb n0 nm) eqn:En.
        * injection Hd as <-. fold i in Ho. unfold i in Ho. rewrite hget_new in Ho. injection Ho as <-.
          cbn [o_keys new_obj] in Hk0.
          assert (Ex : existsb (key_eqb k0) (key :: extra) = true).
          { apply existsb_exists. exists k0. split; [exact Hk0 | apply key_eqb_iff; reflexivity]. }
          rewrite Ex. reflexivity.
        * assert (Hlt : i0 < length (heap (r_st r))) by
            (destruct (reg_live ct _ _ n0 i0 I0 (cls_of_lt KindC) (eq_trans (Creg KindC ltac:(discriminate) n0) Hd)) as [ox [Hox _]];
             eapply hget_lt; eauto).
          rewrite hget_old in Ho by lia.
          pose proof (Crot n0 i0 o0 Hd Ho k0 Hk0) as Hold.
          destruct (existsb (key_eqb k0) (key :: extra)) eqn:Ex; [|exact Hold]. exfalso.
          apply existsb_exists in Ex. destruct Ex as [k1 [Hk1 Ek]]. apply key_eqb_iff in Ek. subst k1.
          destruct F as [_ [F2 F3]]. cbn [ReaderSysA.cls_of] in F2, F3. destruct Hk1 as [<-|Hk1]; [congruence | rewrite (F3 _ Hk1) in Hold; discriminate].
      + assert (Dk : k <> KindC) by (intros ->; discriminate).
        rewrite cget_mk_new_other by (change cc with (cls_of KindC); intros Ec; apply cls_of_inj in Ec; contradiction).
        subst acc'. change (po_complexes (with_dict k acc (dset nm i (dict_of k acc)))) with (dict_of KindC (with_dict k acc (dset nm i (dict_of k acc)))) in Hd.
        rewrite dict_with_other in Hd by exact Dk. cbn [dict_of] in Hd.
        assert (Hlt : i0 < length (heap (r_st r))) by
          (destruct (reg_live ct _ _ n0 i0 I0 (cls_of_lt KindC) (eq_trans (Creg KindC ltac:(discriminate) n0) Hd)) as [ox [Hox _]];
           eapply hget_lt; eauto).
        rewrite hget_old in Ho by lia. exact (Crot n0 i0 o0 Hd Ho k0 Hk0).
  Qed.
End Add.

Section Step.
  Variable ct : ctable.
  Variables cd cs cc cm cr : nat.
  Hypothesis CO : cfg_okb ct cd cs cc cm cr = true.
  (* the five classes are the library classes: no user __init__ that raises *)
  Hypothesis PL : forall c, In c [cd; cs; cc; cm; cr] -> exists ci, nth_error ct c = Some ci /\ c_fail ci = FNone.
  Notation G := (g cd cs cc cm cr).
  Notation cls_of := (cls_of cd cs cc cm cr).
  Notation Core := (Core cd cs cc cm cr ct).
  Notation SInv := (SInv cd cs cc cm cr ct).
  Notation Built := (Built cd cs cc cm cr).
  Notation dobj := (dobj cd).

  Let SO : slots_ok ct cd cs cc cm cr := co_slots ct cd cs cc cm cr CO.

  Lemma with_st_id r : with_st r (r_st r) = r.
  Proof. destruct r; reflexivity. Qed.

  (* one round of the document loop, when the line is read and filed *)
  Lemma read_one_ok line s acc r r1 o r2 res :
    decode line = Ok s -> exec_stmt ct G line s r = (r1, Ok o) -> file_obj ct G o acc r1 = (r2, Ok res) ->
    read_one ct G None (TList line) acc r =
      (with_st r2 (collect (cut_roots (r_st r2) (length (roots (r_st r))) (snd res))), Ok (fst res)).
  Proof.
    intros Hd He Hf. unfold read_one. cbn [t_list ignored]. rewrite !bind_lift_Ok.
    rewrite (bind_ok nroots _ r r (length (roots (r_st r))) eq_refl).
    assert (E : read_pil_line ct G line r = (r1, Ok o)).
    { rewrite (read_pil_line_decode ct G line s (g_full cd cs cc cm cr) Hd). exact He. }
    rewrite (bind_ok _ _ _ _ _ E), (bind_ok _ _ _ _ _ Hf). reflexivity.
  Qed.

  (* a key of the domain registry belongs to a registered name *)
  Lemma dom_key_unreg prev r acc n l :
    Core prev r acc -> nlookup n (cs_names (cget (r_st r) cd)) = None ->
    klookup (KDom n l) (cs_canon (cget (r_st r) cd)) = None.
  Proof.
    intros C Hn. destruct (klookup (KDom n l) (cs_canon (cget (r_st r) cd))) as [j|] eqn:E; [|reflexivity]. exfalso.
    pose proof (proj1 (si_sok _ _ _ _ _ _ _ _ _ C)) as I.
    destruct (kreg_live ct _ cd _ j I (cls_of_lt ct cd cs cc cm cr CO KindD) E) as [o [Ho [Hl [Hc Hk]]]].
    destruct (si_dom _ _ _ _ _ _ _ _ _ C j o Ho Hc) as [l0 Hd].
    destruct (ok_obj _ _ (proj1 I) j o (conj Ho Hl)) as [_ [_ [_ OO]]]. unfold ObjOK in OO. rewrite Hd in OO.
    destruct OO as [K1 K2]. rewrite K2, K1 in Hk. destruct Hk as [Hk|[]]. injection Hk as Hk _.
    destruct (live_reg ct _ j o I Ho Hl) as [N1 _]. rewrite Hc, Hk in N1. congruence.
  Qed.

  Lemma star_neq x : star x <> x.
  Proof. unfold star. intros E. apply (f_equal (@length _)) in E. rewrite app_length in E. cbn in E. lia. Qed.

  (* Domain(x, length = l) for a new name *)
  Lemma domain_new_exact r x l :
    SOK ct (r_st r) -> starred x = false -> nonempty x = true ->
    nlookup x (cs_names (cget (r_st r) cd)) = None -> nlookup (star x) (cs_names (cget (r_st r) cd)) = None ->
    klookup (KDom x l) (cs_canon (cget (r_st r) cd)) = None ->
    domain_new ct G x l r =
      (with_st r (hold (mk_new (r_st r) cd x (KDom x l) [] [] (DDom l)) (length (heap (r_st r)))),
       Ok (length (heap (r_st r)))).
  Proof.
    intros OK Hs Hne Hn Hc Hk. destruct (PL cd) as [ci [Hci Hf]]; [cbn; auto|].
    unfold domain_new. cbn [gD g slot]. rewrite bind_ret. unfold call. change dom_fuel with (S (S (S 5))).
    destruct (dom_create_unstarred ct cd ci Hci 5 (r_st r) x l (proj1 OK) Hs Hne Hn Hc Hk) as [st1 [E1 E2]].
    assert (Es : st1 = r_st r).
    { destruct E1 as [->| ->]; [reflexivity|]. rewrite (collect_id ct _ OK). apply (collect_id ct _ OK). }
    subst st1. rewrite E2, (create_new ct _ cd ci _ _ _ _ _ Hci Hf). reflexivity.
  Qed.

  (* ~d for a domain d = x whose complement does not exist yet *)
  Lemma invert_exact r i x l :
    SOK ct (r_st r) -> hget (heap (r_st r)) i = Some (dobj x l) ->
    starred x = false -> nonempty x = true -> (0 <= l)%Z ->
    nlookup x (cs_names (cget (r_st r) cd)) = Some i -> nlookup (star x) (cs_names (cget (r_st r) cd)) = None ->
    klookup (KDom (star x) l) (cs_canon (cget (r_st r) cd)) = None ->
    invert ct i r =
      (with_st r (hold (mk_new (r_st r) cd (star x) (KDom (star x) l) [] [] (DDom l)) (length (heap (r_st r)))),
       Ok (length (heap (r_st r)))).
  Proof.
    intros OK Hi Hs Hne Hl Hn Hc Hk. destruct (PL cd) as [ci [Hci Hf]]; [cbn; auto|].
    unfold invert, call, dom_complement. rewrite Hi. cbn [o_data dobj new_obj o_cls o_name].
    rewrite (cname_unstarred' x Hs). change dom_fuel with (S (S 6)).
    assert (Hol : obj_length (heap (r_st r)) i = Ok l).
    { unfold obj_length. rewrite Hi. reflexivity. }
    destruct (dom_create_complement ct cd ci Hci 6 (r_st r) x l i (proj1 OK) Hs Hne Hn Hol Hc Hk) as [st1 [E1 E2]].
    assert (Es : st1 = r_st r) by (destruct E1 as [->| ->]; [reflexivity | apply (collect_id ct _ OK)]).
    subst st1. unfold star. rewrite E2, (create_new ct _ cd ci _ _ _ _ _ Hci Hf). reflexivity.
  Qed.
End Step.
