(* no_skipped_text: whatever a successful run of a node consumes is a concatenation of
   matched terminals (literals, words, white runs, line ends, comments) and of blanks
   skipped by some node's preParse - the interpreter cannot silently drop text. *)
From Coq Require Import List NArith Bool Arith Lia.
From DSD Require Import Base.Str Model.Peg Proofs.PegMono Proofs.PegShape.
Import ListNotations.

Definition rest (p : pos) : pstr := match p with At r => r | Past => [] end.

Section Cover.
  Variable g : list node.
  Variable full : pstr.

  Inductive piece : pstr -> Prop :=
  | pc_ws nd u : In nd g -> nskip nd = true -> forallb (fun c => memc c (nws nd)) u = true -> piece u
  | pc_lit nd s : In nd g -> nkind nd = KLit s -> piece s
  | pc_word nd init body wmin wmax w : In nd g -> nkind nd = KWord init body wmin wmax -> word_ok init body w -> piece w
  | pc_white nd cs wmin wmax w : In nd g -> nkind nd = KWhite cs wmin wmax -> word_ok cs cs w -> piece w
  | pc_nl nd : In nd g -> nkind nd = KLineEnd -> piece [NL]
  | pc_comment nd a : In nd g -> nkind nd = KComment -> forallb (fun c => negb (N.eqb c NL)) a = true -> piece (HASH :: a).
  Definition pieces (u : pstr) : Prop := exists us, u = concat us /\ Forall piece us.
  Definition cov (p p' : pos) : Prop := exists u, rest p = u ++ rest p' /\ pieces u.

  Lemma pieces_nil : pieces [].
  Proof. exists []. split; [reflexivity|constructor]. Qed.
  Lemma pieces_one u : piece u -> pieces u.
  Proof. intros H. exists [u]. cbn. rewrite app_nil_r. split; [reflexivity|repeat constructor; exact H]. Qed.
  Lemma pieces_app u v : pieces u -> pieces v -> pieces (u ++ v).
  Proof.
    intros (us & -> & Hu) (vs & -> & Hv). exists (us ++ vs). rewrite concat_app. split; [reflexivity|].
    apply Forall_app. split; assumption.
  Qed.
  Lemma cov_refl p : cov p p.
  Proof. exists []. split; [reflexivity|exact pieces_nil]. Qed.
  Lemma cov_trans p q r : cov p q -> cov q r -> cov p r.
  Proof.
    intros (u & Eu & Hu) (v & Ev & Hv). exists (u ++ v). rewrite Eu, Ev, app_assoc. split; [reflexivity|apply pieces_app; assumption].
  Qed.
  Lemma cov_piece r u r' : r = u ++ r' -> piece u -> cov (At r) (At r').
  Proof. intros -> H. exists u. split; [reflexivity|apply pieces_one; exact H]. Qed.

  (* ---- strings ---- *)
  Lemma skip_ws_split ws s : exists b, s = b ++ skip_ws ws s /\ forallb (fun c => memc c ws) b = true.
  Proof.
    induction s as [|c s (b & E & Hb)]; [exists []; split; reflexivity|]. cbn.
    destruct (memc c ws) eqn:Ec; [|exists []; split; reflexivity].
    exists (c :: b). cbn. rewrite Ec, Hb. split; [f_equal; exact E|reflexivity].
  Qed.
  Lemma starts_with_split s : forall r r', starts_with s r = Some r' -> r = s ++ r'.
  Proof.
    induction s as [|c s IH]; intros r r' H; cbn in *; [injection H as ->; reflexivity|].
    destruct r as [|d r]; [discriminate|]. destruct (N.eqb c d) eqn:E; [|discriminate]. apply N.eqb_eq in E. subst d.
    cbn. f_equal. exact (IH r r' H).
  Qed.
  Lemma span_split cs lim s : s = fst (span cs lim s) ++ snd (span cs lim s).
  Proof.
    revert lim. induction s as [|c s IH]; intros lim; cbn; [reflexivity|].
    destruct lim as [[|m]|]; cbn; try reflexivity.
    - destruct (memc c cs); cbn; [|reflexivity]. specialize (IH (Some m)). cbn [option_map pred] in *.
      destruct (span cs (Some m) s); cbn in *. f_equal. exact IH.
    - destruct (memc c cs); cbn; [|reflexivity]. specialize (IH None). cbn [option_map] in *.
      destruct (span cs None s); cbn in *. f_equal. exact IH.
  Qed.
  Lemma run_token_split init body wmin wmax chk s p t :
    run_token init body wmin wmax chk s = POk p t -> exists w b, p = At b /\ s = w ++ b /\ word_ok init body w.
  Proof.
    unfold run_token. destruct s as [|c r]; [discriminate|]. destruct (memc c init) eqn:Ec; [|discriminate].
    pose proof (span_split body (match wmax with 0 => None | S m => Some m end) r) as Hsp.
    pose proof (span_all body (match wmax with 0 => None | S m => Some m end) r) as Hall.
    destruct (span body _ r) as [a b]. cbn [fst snd] in *. destruct (_ <? _); [discriminate|]. destruct (_ && _ && _); [discriminate|].
    intros H. injection H as <- _. exists (c :: a), b. split; [reflexivity|]. split; [cbn; f_equal; exact Hsp|]. split; assumption.
  Qed.
  Lemma upto_nl_split s : s = fst (upto_nl s) ++ snd (upto_nl s) /\ forallb (fun c => negb (N.eqb c NL)) (fst (upto_nl s)) = true.
  Proof.
    induction s as [|c s [E H]]; cbn; [split; reflexivity|]. destruct (N.eqb c NL) eqn:Ec; cbn; [split; reflexivity|].
    destruct (upto_nl s) as [a b]. cbn in *. rewrite Ec, H. split; [f_equal; exact E|reflexivity].
  Qed.

  Section Open.
    Variable P : nat -> bool -> pos -> pres.
    Hypothesis HP : forall i cp p p' t, P i cp p = POk p' t -> cov p p'.

    Lemma ign_inner_cov n : forall ig p fd p' fd', ign_inner P n ig p fd = Some (p', fd') -> cov p p'.
    Proof.
      induction n as [|n IH]; intros ig p fd p' fd' H; cbn in H; [discriminate|].
      destruct (P ig true p) as [q t| |] eqn:E; [|injection H as <- _; apply cov_refl|discriminate].
      eapply cov_trans; [exact (HP _ _ _ _ _ E)|exact (IH _ _ _ _ _ H)].
    Qed.
    Lemma ign_pass_cov n igs : forall p fd p' fd', ign_pass P n igs p fd = Some (p', fd') -> cov p p'.
    Proof.
      induction igs as [|ig r IH]; intros p fd p' fd' H; cbn in H; [injection H as <- _; apply cov_refl|].
      destruct (ign_inner P n ig p fd) as [[q f']|] eqn:E; [|discriminate].
      eapply cov_trans; [exact (ign_inner_cov _ _ _ _ _ _ E)|exact (IH _ _ _ _ H)].
    Qed.
    Lemma ign_outer_cov n : forall igs p p', ign_outer P n igs p = Some p' -> cov p p'.
    Proof.
      induction n as [|n IH]; intros igs p p' H; cbn in H; [discriminate|].
      destruct (ign_pass P n igs p false) as [[q fd]|] eqn:E; [|discriminate].
      apply ign_pass_cov in E. destruct (loc_eqb q p); [injection H as <-; exact E|].
      destruct fd; [eapply cov_trans; [exact E|exact (IH _ _ _ H)]|injection H as <-; exact E].
    Qed.
    Lemma skip_ign_cov n igs p p' : skip_ign P n igs p = Some p' -> cov p p'.
    Proof. destruct igs; cbn; [intros H; injection H as <-; apply cov_refl|apply ign_outer_cov]. Qed.
    Lemma pre_parse_cov n nd p p' : In nd g -> pre_parse P n nd p = Some p' -> cov p p'.
    Proof.
      intros Hin. unfold pre_parse. destruct (skip_ign P n (nign nd) p) as [p1|] eqn:E; [|discriminate].
      apply skip_ign_cov in E. intros H. injection H as <-. eapply cov_trans; [exact E|].
      destruct (nskip nd) eqn:Hs; [|apply cov_refl]. destruct p1 as [r|]; [|apply cov_refl]. cbn.
      destruct (skip_ws_split (nws nd) r) as (b & Eb & Hb). eapply cov_piece; [exact Eb|]. exact (pc_ws nd b Hin Hs Hb).
    Qed.
    Lemma seq_rest_cov ks : forall p acc p' t, seq_rest P ks p acc = POk p' t -> cov p p'.
    Proof.
      induction ks as [|k r IH]; intros p acc p' t H; cbn in H; [injection H as <- _; apply cov_refl|].
      destruct (P k true p) as [q tk| |] eqn:E; try discriminate.
      eapply cov_trans; [exact (HP _ _ _ _ _ E)|exact (IH _ _ _ _ H)].
    Qed.
    Lemma first_of_cov ks : forall p p' t, first_of P ks p = POk p' t -> cov p p'.
    Proof.
      induction ks as [|k r IH]; intros p p' t H; cbn in H; [discriminate|].
      destruct (P k true p) as [q tk| |] eqn:E; try discriminate.
      - injection H as <- _. exact (HP _ _ _ _ _ E).
      - exact (IH _ _ _ H).
    Qed.
    Lemma many_loop_cov n : forall igs k p acc p' t, many_loop P n igs k p acc = POk p' t -> cov p p'.
    Proof.
      induction n as [|n IH]; intros igs k p acc p' t H; cbn in H; [discriminate|].
      destruct (skip_ign P n igs p) as [p1|] eqn:Es; [|discriminate]. apply skip_ign_cov in Es.
      destruct (P k true p1) as [q tk| |] eqn:E; [|injection H as <- _; apply cov_refl|discriminate].
      eapply cov_trans; [exact Es|]. eapply cov_trans; [exact (HP _ _ _ _ _ E)|exact (IH _ _ _ _ _ _ H)].
    Qed.
    Lemma impl_cov n nd p p' t : In nd g -> impl P full n nd p = POk p' t -> cov p p'.
    Proof.
      intros Hin. unfold impl. destruct (nkind nd) eqn:Ek.
      - destruct (nkids nd) as [|k0 ks]; [discriminate|].
        destruct (P k0 false p) as [q tk| |] eqn:E; try discriminate.
        intros H. eapply cov_trans; [exact (HP _ _ _ _ _ E)|exact (seq_rest_cov _ _ _ _ _ H)].
      - apply first_of_cov.
      - destruct (nkids nd) as [|k ks]; [discriminate|].
        destruct (P k false p) as [q tk| |] eqn:E; try discriminate.
        + intros H. injection H as <- _. exact (HP _ _ _ _ _ E).
        + intros H. injection H as <- _. apply cov_refl.
      - destruct (nkids nd) as [|k ks]; [discriminate|].
        destruct (P k true p) as [q tk| |] eqn:E; try discriminate.
        + intros H. eapply cov_trans; [exact (HP _ _ _ _ _ E)|exact (many_loop_cov _ _ _ _ _ _ _ H)].
        + destruct atleast1; [discriminate|]. intros H. injection H as <- _. apply cov_refl.
      - destruct (nkids nd) as [|k ks]; [discriminate|]. apply HP.
      - destruct (nkids nd) as [|k ks]; [discriminate|]. apply HP.
      - destruct (nkids nd) as [|k ks]; [discriminate|]. apply HP.
      - destruct (nkids nd) as [|k ks]; [discriminate|]. apply HP.
      - destruct p as [r|]; [|discriminate]. destruct (starts_with s r) as [r'|] eqn:E; [|discriminate].
        intros H. injection H as <- _. apply starts_with_split in E. eapply cov_piece; [exact E|exact (pc_lit nd s Hin Ek)].
      - destruct p as [r|]; [|discriminate]. intros H. apply run_token_split in H as (w & b & -> & -> & Hw).
        eapply cov_piece; [reflexivity|exact (pc_word nd _ _ _ _ w Hin Ek Hw)].
      - destruct p as [r|]; [|discriminate]. intros H. apply run_token_split in H as (w & b & -> & -> & Hw).
        eapply cov_piece; [reflexivity|exact (pc_white nd _ _ _ w Hin Ek Hw)].
      - destruct p as [[|c r]|]; try discriminate.
        + intros H. injection H as <- _. exists []. split; [reflexivity|exact pieces_nil].
        + destruct (N.eqb c NL) eqn:Ec; [|discriminate]. apply N.eqb_eq in Ec. subst c. intros H. injection H as <- _.
          eapply (cov_piece _ [NL]); [reflexivity|exact (pc_nl nd Hin Ek)].
      - destruct (loc_eqb p (At full)).
        + intros H. injection H as <- _. apply cov_refl.
        + destruct (pre_parse P n nd (At full)) as [q|]; [|discriminate]. destruct (loc_eqb p q); [|discriminate].
          intros H. injection H as <- _. apply cov_refl.
      - destruct p as [[|c r]|]; try discriminate; intros H; injection H as <- _; exists []; (split; [reflexivity|exact pieces_nil]).
      - destruct p as [[|c r]|]; try discriminate. destruct (N.eqb c HASH) eqn:Ec; [|discriminate]. apply N.eqb_eq in Ec. subst c.
        destruct (upto_nl_split r) as [Er Ha]. destruct (upto_nl r) as [a b]. cbn [fst snd] in *.
        intros H. injection H as <- _. eapply (cov_piece _ (HASH :: a)); [cbn; f_equal; exact Er|exact (pc_comment nd a Hin Ek Ha)].
    Qed.
  End Open.

  Theorem parse_cov : forall f i cp p p' t, parse g full f i cp p = POk p' t -> cov p p'.
  Proof.
    induction f as [|f IH]; intros i cp p p' t H; [discriminate|].
    rewrite parse_S in H. destruct (nth_error g i) as [nd|] eqn:En; [|discriminate].
    pose proof (nth_error_In _ _ En) as Hin.
    destruct (if cp && ncallpre nd then pre_parse (parse g full f) f nd p else Some p) as [p1|] eqn:Ep; [|discriminate].
    assert (Hp1 : cov p p1).
    { destruct (cp && ncallpre nd); [exact (pre_parse_cov _ IH _ _ _ _ Hin Ep)|injection Ep as <-; apply cov_refl]. }
    destruct (impl (parse g full f) full f nd p1) as [p2 toks| |] eqn:Ei; try discriminate.
    injection H as <- _. eapply cov_trans; [exact Hp1|exact (impl_cov _ IH _ _ _ _ _ Hin Ei)].
  Qed.
End Cover.

(* a root  And [...; StringEnd]  only succeeds at the end of the input *)
Definition ends_with_string_end (G : grammar) : bool :=
  match nth_error (gnodes G) (groot G) with
  | Some nd =>
      match nkind nd, rev (nkids nd) with
      | KAnd, k :: _ :: _ =>
          match nth_error (gnodes G) k with
          | Some ndk => match nkind ndk with KStringEnd => true | _ => false end
          | None => false
          end
      | _, _ => false
      end
  | None => false
  end.
Lemma seq_rest_last P : forall ks k p acc p' t, seq_rest P (ks ++ [k]) p acc = POk p' t ->
  exists q a, P k true q = POk p' a.
Proof.
  induction ks as [|k0 r IH]; intros k p acc p' t H; cbn in H.
  - destruct (P k true p) as [q a| |] eqn:E; try discriminate. injection H as <- _. exists p, a. exact E.
  - destruct (P k0 true p) as [q a| |]; try discriminate. exact (IH _ _ _ _ _ H).
Qed.
Theorem root_reaches_end G fuel text p toks : ends_with_string_end G = true ->
  parse_string_fuel G fuel text = POk p toks -> p = Past.
Proof.
  unfold ends_with_string_end, parse_string_fuel. intros HG H.
  apply parse_ok_inv in H as (f1 & nd & p1 & t0 & -> & En & Ep & Ei & ->). rewrite En in HG.
  destruct (nkind nd) eqn:Ek; try discriminate. destruct (rev (nkids nd)) as [|k [|k' r]] eqn:Er; try discriminate.
  destruct (nth_error (gnodes G) k) as [ndk|] eqn:Enk; [|discriminate]. destruct (nkind ndk) eqn:Ekk; try discriminate.
  apply (f_equal (@rev _)) in Er. rewrite rev_involutive in Er. cbn in Er.
  unfold impl in Ei. rewrite Ek in Ei. destruct (nkids nd) as [|k0 ks] eqn:Ekids.
  - destruct (rev r ++ [k']); discriminate.
  - destruct (parse _ _ f1 k0 false p1) as [q a| |]; try discriminate.
    assert (Hks : exists ks', ks = ks' ++ [k]).
    { destruct (rev r ++ [k']) as [|x l] eqn:E; [destruct (rev r); discriminate|]. cbn in Er. injection Er as -> ->. eexists. reflexivity. }
    destruct Hks as (ks' & ->). apply seq_rest_last in Ei as (q' & a' & Hk).
    apply parse_ok_inv in Hk as (f2 & ndk' & p2 & t2 & -> & Enk' & _ & Hi & _). rewrite Enk in Enk'. injection Enk' as <-.
    unfold impl in Hi. rewrite Ekk in Hi. destruct p2 as [[|c s]|]; try discriminate; injection Hi as <- _; reflexivity.
Qed.

(* for a grammar whose root ends in StringEnd the whole (tab-expanded) text is covered *)
Theorem no_skipped_text_total G fuel text p toks : ends_with_string_end G = true ->
  parse_string_fuel G fuel text = POk p toks -> pieces (gnodes G) (expandtabs text).
Proof.
  intros HG H. pose proof (root_reaches_end G fuel text p toks HG H) as ->.
  destruct (parse_cov _ _ _ _ _ _ _ _ H) as (u & Eu & Hu). cbn [rest] in Eu. rewrite app_nil_r in Eu. rewrite Eu. exact Hu.
Qed.

(* for a grammar whose root ends in StringEnd the whole (tab-expanded) text is covered *)
Theorem no_skipped_text G fuel text p toks :
  parse_string_fuel G fuel text = POk p toks -> exists u, expandtabs text = u ++ rest p /\ pieces (gnodes G) u.
Proof. intros H. exact (parse_cov _ _ _ _ _ _ _ _ H). Qed.
