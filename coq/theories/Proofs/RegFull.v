(* The remaining full statements of C01: the exact counter law is proved; the name-only law
   for domains is proved for names with an unstarred base and refuted beyond. *)
From Coq Require Import List NArith ZArith Bool Arith Lia.
From DSD Require Import Base.Str Base.Errors Model.ComplexUtils Model.RegStr Model.Heap Model.Registry
  Proofs.RegHeap Proofs.RegInv Proofs.RegCalls Proofs.RegExt Proofs.RegC04 Proofs.RegStep Proofs.RegIds Proofs.RegIds2
  Proofs.RegExamples Proofs.RegC02.
Import ListNotations.

Ltac dis := let H := fresh in intros H; cbv beta iota delta [fst snd] in H; discriminate H.

Theorem counters_full_proved : counters_full.
Proof.
  intros ct st o c _ _. destruct (counters_exact ct st o c) as [E|[z [Ez [E Cn]]]]; [left; exact E|].
  right. exists z. split; [exact Ez|]. split; [exact E|].
  destruct (snd (step ct st o)) as [| id | k e | |]; cbn in Cn; try discriminate.
  - left. eauto.
  - right. apply str_eqb_iff in Cn. subst k. eauto.
Qed.

(* ---- name-only requests for domains ---- *)
Lemma dom_call_S f ct c st name len prefix dtype :
  dom_call (S f) ct c st name len prefix dtype
  = dom_body (fun st' n l => dom_call f ct c st' (Some n) l None None) ct c st name len prefix dtype.
Proof. reflexivity. Qed.

Theorem name_only_domain ct st dst c n st' id :
  Good ct st -> base_unstarred n ->
  step ct st (ODomain dst c (Some n) None None None) = (st', Created id) ->
  starred n = true /\
  exists p op l oo, live_obj (heap st) p op /\ o_cls op = c /\ o_name op = cname_of n /\ o_data op = DDom l /\
                    hget (heap st') id = Some oo /\ o_data oo = DDom l /\ o_name oo = n /\ o_cls oo = c.
Proof.
  intros G Hb E. pose proof G as [I C D]. cbn [step] in E.
  destruct (kind_is ct c KindD) eqn:EK; [|discriminate]. apply kind_is_class_kind in EK.
  destruct (class_kind_nth _ _ _ EK) as [ci Eci].
  assert (Hret : snd (dom_call dom_fuel ct c st (Some n) None None None) = CRet id true).
  { revert E. unfold finish. destruct (snd (dom_call dom_fuel ct c st (Some n) None None None)) as [i [|]|k e]; try discriminate.
    intros H. injection H as _ <-. reflexivity. }
  assert (Est : st' = collect (set_root (fst (dom_call dom_fuel ct c st (Some n) None None None)) dst (Some id))).
  { revert E. unfold finish. rewrite Hret. intros H. injection H as <-. reflexivity. }
  clear E. revert Hret Est. unfold dom_fuel. rewrite (dom_call_S 7).
  pose proof (recspec_fuel ct c 7 EK) as RS. set (rec := fun st' n l => dom_call 7 ct c st' (Some n) l None None) in *.
  unfold dom_body. rewrite Eci. cbn [resolve_name]. rewrite dom_len1_none.
  destruct (negb (nonempty n)); [dis|]. unfold dom_nested.
  destruct (starred n) eqn:ES.
  2:{ cbn [fst snd]. unfold dom_finish. cbn [option_map]. destruct (sing_lookup (cget st c) n None); dis. }
  assert (Hcn : starred (cname_of n) = false) by (destruct Hb as [Hb|Hb]; congruence).
  pose proof (rs_unst _ _ _ RS st (cname_of n) Hcn) as Eun.
  pose proof (rs_ret _ _ _ RS st (cname_of n) None) as Rt.
  destruct (rec st (cname_of n) None) as [s1 r1]. cbn [fst snd] in *. subst s1.
  destruct r1 as [o b|k e].
  - destruct (Rt o b I C D eq_refl) as [ob [Ho [Ec [En _]]]].
    destruct (obj_length (heap st) o) as [l|k] eqn:EL; [|dis].
    apply obj_len_ok in EL. destruct EL as [ob' [Hg Ed]].
    assert (ob' = ob) by (destruct Ho as [Ho _]; congruence). subst ob'.
    cbn [fst snd]. unfold dom_finish. cbn [option_map].
    destruct (sing_lookup (cget (collect st) c) n (Some (KDom n l))) eqn:ELk; try dis.
    intros Hret Est. split; [reflexivity|].
    pose proof (RegC02.create_ret _ _ _ _ _ _ _ _ _ _ Hret) as Hnew.
    exists o, ob, l. eexists. split; [exact Ho|]. split; [exact Ec|]. split; [exact En|]. split; [exact Ed|].
    rewrite Est, heap_collect, hget_sweep. cbn [set_root heap]. rewrite Hnew. cbn [option_map].
    split; [reflexivity|]. destruct (kept _ _ id); cbn; auto.
  - destruct (is_singleton_err k); cbn [fst snd]; [|dis].
    unfold dom_finish. cbn [option_map]. destruct (sing_lookup (cget (collect st) c) n None); dis.
Qed.

(* beyond names with an unstarred base the statement fails: 'a**' is created from a live 'a'
   through a temporary 'a*' (replayed on the implementation: DomainS('a', 5); DomainS('a**')) *)
Theorem name_only_domain_full_refuted : ~ name_only_domain_full.
Proof.
  intros H.
  set (st := run ctD (init ctD 2) [ODomain 0 0 (Some nA) (Some 5%Z) None None]).
  assert (G : Good ctD st).
  { apply good_run; apply good_init. }
  destruct (H ctD st 1 0 nAss (fst (step ctD st (ODomain 1 0 (Some nAss) None None None))) 2 G) as [_ (p & op & l & oo & Hl & _ & En & _)].
  - vm_compute. reflexivity.
  - (* the only live object of st is 'a', whose name is not 'a*' *)
    destruct Hl as [Hg _]. vm_compute in En.
    destruct p as [|[|p]]; vm_compute in Hg; try discriminate. injection Hg as <-. vm_compute in En. discriminate.
Qed.
