(* Non-vacuity examples for the registry theorems (concrete histories evaluated by
   vm_compute) and the two statements the faithful model refutes. *)
From Coq Require Import List NArith ZArith Bool Arith Lia.
From DSD Require Import Base.Str Base.Errors Model.ComplexUtils Model.RegStr Model.Heap Model.Registry
  Proofs.RegHeap Proofs.RegInv Proofs.RegCalls Proofs.RegExt Proofs.RegC04 Proofs.RegStep Proofs.RegC01
  Proofs.RegC04b Proofs.RegC05 Proofs.RegC15.
Import ListNotations.

(* DomainS, ComplexS, StrandS, MacrostateS, ReactionS, a DomainS subclass without own ID,
   a ComplexS subclass failing after super().__init__ *)
Definition ctZ : ctable :=
  [ mkCinfo KindD None 8 5 15 [100%N] (Some 1%Z) FNone;
    mkCinfo KindC None 0 0 0 [99%N] (Some 1%Z) FNone;
    mkCinfo KindS (Some 1) 0 0 0 [115%N] (Some 1%Z) FNone;
    mkCinfo KindM None 0 0 0 [] None FNone;
    mkCinfo KindR None 0 0 0 [] None FNone;
    mkCinfo KindD (Some 0) 8 5 15 [100%N] None FNone;
    mkCinfo KindC (Some 1) 0 0 0 [99%N] None FAfter ].

Definition nA : pstr := [97%N].
Definition nAs : pstr := [97%N; 42%N].
Definition nAss : pstr := [97%N; 42%N; 42%N].
Definition nX : pstr := [88%N].
Definition dot : chr := 46%N.


(* ---- the refuted statement (C04) ---- *)
Definition ctD : ctable := [ mkCinfo KindD None 8 5 15 [100%N] (Some 1%Z) FNone ].

(* x** created first, then x* with another length: identifiers('x*') looks at 'x' only *)
Definition CompOK_any_base (st : state) : Prop :=
  forall i j oi oj li lj,
    live_obj (heap st) i oi -> live_obj (heap st) j oj -> o_cls oi = o_cls oj ->
    o_data oi = DDom li -> o_data oj = DDom lj -> o_name oj = o_name oi ++ [cStar] -> li = lj.

Theorem CompOK_refuted_for_double_star :
  exists ops, ~ CompOK_any_base (run ctD (init ctD 2) ops).
Proof.
  exists [ODomain 0 0 (Some nAss) (Some 7%Z) None None; ODomain 1 0 (Some nAs) (Some 5%Z) None None].
  intros C. assert (E : (5 = 7)%Z); [|discriminate].
  eapply (C 1 0); try (vm_compute; split; reflexivity); vm_compute; reflexivity.
Qed.

(* ---- non-vacuity ---- *)
(* C04: x and x* live together (equal lengths), ~x found, conflicting length refused *)
Example ex_compok :
  let st := run ctD (init ctD 3) [ODomain 0 0 (Some nA) (Some 5%Z) None None; OComplement 1 0] in
  Good ctD st /\
  (exists oi oj, live_obj (heap st) 0 oi /\ live_obj (heap st) 1 oj /\ o_name oj = o_name oi ++ [cStar] /\
                 o_data oi = DDom 5 /\ o_data oj = DDom 5) /\
  snd (step ctD st (ODomain 2 0 (Some nAs) (Some 9%Z) None None)) = Raised eSingleton None /\
  snd (step ctD st (OComplement 2 1)) = Returned 0.
Proof.
  cbn zeta. split; [apply good_run; apply good_init|].
  split; [eexists; eexists; vm_compute; repeat split; reflexivity|]. split; vm_compute; reflexivity.
Qed.

(* C04 after the repair of `elif length and` / len(): a length of 0 is a length (the former witness
   DomainS('a*', 5); DomainS('a', 0) is refused, a(0) and a*(0) live together), and ~d of a domain of
   negative length is created instead of raising ValueError *)
Example ex_zero_and_negative_lengths :
  let st := run ctD (init ctD 3) [ODomain 0 0 (Some nAs) (Some 5%Z) None None] in
  snd (step ctD st (ODomain 1 0 (Some nA) (Some 0%Z) None None)) = Raised eSingleton None /\
  (let s0 := run ctD (init ctD 3) [ODomain 0 0 (Some nA) (Some 0%Z) None None; OComplement 1 0] in
   exists oi oj, live_obj (heap s0) 0 oi /\ live_obj (heap s0) 1 oj /\ o_name oj = o_name oi ++ [cStar] /\
                 o_data oi = DDom 0 /\ o_data oj = DDom 0) /\
  (let sn := run ctD (init ctD 3) [ODomain 0 0 (Some nA) (Some (-3)%Z) None None] in
   snd (step ctD sn (OComplement 1 0)) = Created 1).
Proof.
  cbn zeta. split; [vm_compute; reflexivity|]. split; [|vm_compute; reflexivity].
  eexists; eexists; vm_compute; repeat split; reflexivity.
Qed.

(* C01: a conflict with `existing`; a consistent request returns the object; name-only look-up *)
Definition hist1 : list op :=
  [ ODomain 0 0 (Some nA) (Some 5%Z) None None;
    OComplex 1 1 (Some [USlot 0; UPlus; USlot 0]) (Some [dot; cP; dot]) (Some nX) None;
    OMacro 2 3 (Some [1]) None;
    OReaction 3 4 (Some ([1], [1])) (Some nX) None ].

Example ex_conflict :
  let st := run ctZ (init ctZ 5) hist1 in
  Inv ctZ st /\ Collected st /\
  snd (step ctZ st (OComplex 4 1 (Some [USlot 0; UPlus; USlot 0]) (Some [dot; cP; dot]) None None))
    = Raised eSingleton (Some 1) /\
  snd (step ctZ st (OComplex 4 1 (Some [USlot 0; UPlus; USlot 0]) (Some [dot; cP; dot]) (Some nX) None)) = Returned 1 /\
  snd (step ctZ st (OComplex 4 1 None None (Some nX) None)) = Returned 1 /\
  snd (step ctZ st (OMacro 4 3 None (Some nX))) = Returned 2 /\
  snd (step ctZ st (OComplex 4 1 (Some [USlot 0]) (Some [dot]) (Some nX) None)) = Raised eSingleton None.
Proof.
  cbn zeta. destruct (inv_collected_run ctZ (init ctZ 5) hist1 (inv_init _ _) (collected_init _ _)) as [I C].
  split; [exact I|]. split; [exact C|]. repeat split; vm_compute; reflexivity.
Qed.

(* C05: containment keeps alive, the last drop releases everything, the name can be redefined *)
Example ex_release :
  let st := run ctZ (init ctZ 5) hist1 in
  let st1 := run ctZ st [ODrop 0; ODrop 1; ODrop 2] in
  let st2 := run ctZ st1 [ODrop 3] in
  map o_live (heap st1) = [true; false; true; true] /\   (* the macrostate is not held by the reaction *)
  map o_live (heap st2) = [false; false; false; false] /\
  map (fun cs => (cs_names cs, cs_canon cs)) (classes st2) = repeat ([], []) 7 /\
  snd (step ctZ st2 (ODomain 0 0 (Some nA) (Some 9%Z) None None)) = Created 4.
Proof. vm_compute. repeat split; reflexivity. Qed.

(* C15: same name in the base class and in the subclass, independent registries; inherited ID;
   a constructor failing after super().__init__ leaves no object and no key, only the counter moved *)
Example ex_subclasses :
  let st := run ctZ (init ctZ 4) [ODomain 0 0 (Some nA) (Some 5%Z) None None; ODomain 1 5 (Some nA) (Some 9%Z) None None] in
  map o_live (heap st) = [true; true] /\
  snd (step ctZ st (ODomain 2 5 (Some nA) (Some 5%Z) None None)) = Raised eSingleton None /\
  snd (step ctZ st (ODomain 2 0 None (Some 5%Z) None None)) = Created 2 /\
  class_id ctZ (fst (step ctZ st (ODomain 2 0 None (Some 5%Z) None None))) 5 = Some 2%Z /\
  (let r := step ctZ st (OComplex 2 6 (Some [USlot 0; UPlus; USlot 1]) (Some [dot; cP; dot]) None None) in
   snd r = Raised eUserFail None /\ cs_canon (cget (fst r) 6) = [] /\ cs_names (cget (fst r) 6) = [] /\
   cs_id (cget (fst r) 6) = Some 2%Z /\ map o_live (heap (fst r)) = [false; true; true]).
Proof. vm_compute. repeat split; reflexivity. Qed.

(* ------------------------------------------------------------------ *)
(* full statements that are not (yet) proved; the proved parts are named next to each *)

(* C01 name_only for domains at the level of whole operations (proved parts: lookup_name_only for every class,
   dom_request_result / invert_spec for requests with a length, nested_spec for the injected length) *)
Definition name_only_domain_full : Prop :=
  forall ct st dst c n st' id, Good ct st ->
    step ct st (ODomain dst c (Some n) None None None) = (st', Created id) ->
    starred n = true /\
    exists p op l oo, live_obj (heap st) p op /\ o_cls op = c /\ o_name op = cname_of n /\ o_data op = DDom l /\
                      hget (heap st') id = Some oo /\ o_data oo = DDom l.

(* C01 (e): counters move only by successful automatic naming or by a user constructor failing after
   super().__init__ (proved part: frame_step — counters of every other class are untouched;
   step_raised_junk — registries untouched on every refusal) *)
Definition counters_full : Prop :=
  forall ct st o c, Inv ct st -> Collected st ->
    cs_id (cget (fst (step ct st o)) c) = cs_id (cget st c) \/
    (exists z, class_id ct st c = Some z /\ cs_id (cget (fst (step ct st o)) c) = Some (z + 1)%Z /\
               ((exists id, snd (step ct st o) = Created id) \/ exists e, snd (step ct st o) = Raised eUserFail e)).

(* the fuel of the DomainS recursion suffices for names with at most 5 trailing stars *)
Definition no_fuel_exhaustion_full : Prop :=
  forall ct c st name len prefix dtype k e,
    (forall n, name = Some n -> length n <= 5 + length (cname_of (cname_of (cname_of (cname_of (cname_of n)))))) ->
    snd (dom_call dom_fuel ct c st name len prefix dtype) = CErr k e -> k <> eFuel.

(* C05: release followed by a redefinition with other parameters, as one statement about operations
   (proved parts: release, redefine_after_release, ex_release) *)
Definition release_redefine_full : Prop :=
  forall ct st slot c ci n l l' i ob, Good ct st ->
    get_root st slot = Some i -> live_obj (heap st) i ob -> o_cls ob = c -> o_name ob = n -> o_data ob = DDom l ->
    nth_error ct c = Some ci -> c_fail ci = FNone ->
    ~ Reach (heap st) (root_ids (roots (set_root st slot None))) i ->
    (forall j oj, live_obj (heap st) j oj -> o_cls oj = c -> o_name oj <> cname_of n) ->
    exists id, snd (step ct (fst (step ct st (ODrop slot))) (ODomain slot c (Some n) (Some l') None None)) = Created id.
