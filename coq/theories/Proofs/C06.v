(* C06: dot-bracket / pair-table / strand-table conversions (character level). *)
From Coq Require Import List Arith Lia Bool NArith.
From DSD Require Import Base.Str Base.Errors Model.ComplexUtils Dyck.Dyck
  Proofs.Mpt Proofs.Acc Proofs.Db Proofs.Assoc.
Import ListNotations.

(* ---- well-formedness stated directly on characters (independent of the code) ---- *)
Fixpoint wfc_aux (brk : chr) (ign : list chr) (s : list chr) (depth : nat) : bool :=
  match s with
  | [] => depth =? 0
  | c :: r =>
      if N.eqb c brk then wfc_aux brk ign r depth
      else if N.eqb c cO then wfc_aux brk ign r (S depth)
      else if N.eqb c cC then match depth with 0 => false | S k => wfc_aux brk ign r k end
      else if existsb (N.eqb c) ign then wfc_aux brk ign r depth
      else false
  end.
Definition wfc brk ign s := wfc_aux brk ign s 0.

Lemma wfc_classify brk ign s : forall k, wfc_aux brk ign s k = wfb_aux (map (classify brk ign) s) k.
Proof.
  induction s as [|c r IH]; intros k; cbn [wfc_aux map wfb_aux]; [reflexivity|].
  unfold classify.
  destruct (N.eqb c brk); [apply IH|].
  destruct (N.eqb c cO); [apply IH|].
  destruct (N.eqb c cC); [destruct k; [reflexivity|apply IH]|].
  destruct (existsb (N.eqb c) ign); [apply IH|reflexivity].
Qed.

Definition dot_ignored (ign : list chr) : Prop := existsb (N.eqb cD) ign = true.

Theorem mpt_accepts_iff_wf brk ign s :
  dot_ignored ign ->
  ((exists t, make_pair_table brk ign s = Ok t) <-> wfc brk ign s = true).
Proof.
  intros Hd. unfold make_pair_table, wfc. rewrite Hd. cbn [negb].
  rewrite wfc_classify. fold (wfb (map (classify brk ign) s)).
  rewrite <- mpt_syms_accepts.
  destruct (mpt_syms (map (classify brk ign) s)) as [t|].
  - split; eauto.
  - split; intros [t H]; discriminate.
Qed.

Theorem mpt_rejects_with_sse brk ign s :
  dot_ignored ign -> wfc brk ign s = false -> make_pair_table brk ign s = Err eSSE.
Proof.
  intros Hd Hw. destruct (make_pair_table brk ign s) as [t|k] eqn:E.
  - assert (H : wfc brk ign s = true) by (apply (mpt_accepts_iff_wf brk ign s Hd); eauto). congruence.
  - unfold make_pair_table in E. rewrite Hd in E. cbn [negb] in E.
    destruct (mpt_syms _); [discriminate|]. injection E as <-. reflexivity.
Qed.

(* every accepted string is the rendering of a tree and the result is that tree's table *)
Lemma mpt_ok_tree brk ign s t :
  make_pair_table brk ign s = Ok t ->
  exists d, map (classify brk ign) s = render d /\ t = tab_of d.
Proof.
  unfold make_pair_table. destruct (negb _); [discriminate|].
  destruct (mpt_syms (map (classify brk ign) s)) as [t'|] eqn:E; [|discriminate].
  intros H; injection H as <-.
  assert (Hw : wfb (map (classify brk ign) s) = true) by (apply mpt_syms_accepts; eauto).
  apply wfb_iff_render in Hw. destruct Hw as [d Hd]. exists d. split; [symmetry; exact Hd|].
  rewrite <- Hd, mpt_syms_render in E. injection E as <-. reflexivity.
Qed.

(* ---- the pairing is a symmetric, irreflexive, properly nested involution ---- *)
Lemma aents_irrefl d : forall p a b, In (a, Some b) (aents d p) -> a <> b.
Proof.
  induction d as [|r IH|r IH|i IHi r IHr]; intros p a b H.
  - contradiction.
  - unfold aents in *. cbn [ents assoc] in *. destruct H as [H|H]; [discriminate|].
    eapply (IH (fst p, S (snd p))), H.
  - unfold aents in *. cbn [ents assoc] in *. eapply (IH (S (fst p), 0)), H.
  - rewrite aents_DP in H. cbn zeta in H. set (q := adv i (fst p, S (snd p))) in *.
    pose proof (adv_ge i (fst p, S (snd p))) as G. fold q in G.
    assert (Hpq : p <> q).
    { intros E. rewrite <- E in G. unfold le_loc in G. cbn [fst snd] in G. lia. }
    destruct H as [H|H]; [injection H as <- <-; exact Hpq|].
    apply in_app_or in H. destruct H as [H|[H|H]].
    + eapply IHi, H.
    + injection H as <- <-. congruence.
    + eapply IHr, H.
Qed.

Theorem mpt_symmetric brk ign s t a b :
  make_pair_table brk ign s = Ok t ->
  get t a = Some (Some b) -> get t b = Some (Some a) /\ a <> b.
Proof.
  intros H G. apply mpt_ok_tree in H. destruct H as (d & _ & ->).
  apply get_tab_of_In in G. split.
  - apply get_tab_of_In. apply (aents_sym d (0, 0)), G.
  - apply (aents_irrefl d (0, 0)), G.
Qed.

Theorem mpt_nested brk ign s t a b c e :
  make_pair_table brk ign s = Ok t ->
  get t a = Some (Some b) -> get t c = Some (Some e) ->
  lt_loc a b -> lt_loc c e -> lt_loc a c -> lt_loc c b -> lt_loc e b.
Proof.
  intros H G1 G2. apply mpt_ok_tree in H. destruct H as (d & _ & ->).
  apply get_tab_of_In in G1. apply get_tab_of_In in G2.
  apply (aents_nested d (0, 0)); assumption.
Qed.

(* ---- exact round trip through pair_table_to_dot_bracket ---- *)
Definition unsym (brk : chr) (x : sym) : chr :=
  match x with SO => cO | SC => cC | SD => cD | SB => brk | SX => cD end.

Lemma db_row_map brk si r : forall di, db_row si di r = map (unsym brk) (row_syms si di r).
Proof.
  induction r as [|e r IH]; intros di; cbn [db_row row_syms map]; [reflexivity|].
  f_equal; [|apply IH]. unfold db_char, sym_at. destruct e as [p|]; [|reflexivity].
  destruct (loc_ltb (si, di) p); reflexivity.
Qed.

Lemma db_rows_map brk t : forall si out,
  db_rows brk si (map (unsym brk) out) t = map (unsym brk) (db_aux si t out).
Proof.
  induction t as [|r t IH]; intros si out; cbn [db_rows db_aux]; [reflexivity|].
  rewrite (db_row_map brk). rewrite <- IH. f_equal.
  unfold sep. destruct out; cbn [map app]; [reflexivity|].
  rewrite !map_app. reflexivity.
Qed.

Lemma ptdb_map brk t : pair_table_to_dot_bracket brk t = map (unsym brk) (pt_to_db t).
Proof. unfold pair_table_to_dot_bracket, pt_to_db. apply (db_rows_map brk t 0 []). Qed.

(* the structure alphabet: brackets, dot and the strand break, the break being a
   character of its own *)
Definition brk_ok (brk : chr) : Prop := brk <> cO /\ brk <> cC /\ brk <> cD.
Definition over_alphabet (brk : chr) (s : list chr) : Prop :=
  Forall (fun c => c = cO \/ c = cC \/ c = cD \/ c = brk) s.

Lemma unsym_classify brk ign s :
  brk_ok brk -> dot_ignored ign -> over_alphabet brk s ->
  map (unsym brk) (map (classify brk ign) s) = s.
Proof.
  intros (B1 & B2 & B3) Hd Ha. induction Ha as [|c r Hc _ IH]; cbn [map]; [reflexivity|].
  f_equal; [|exact IH]. unfold classify.
  destruct (N.eqb_spec c brk) as [->|Nb]; [reflexivity|].
  destruct (N.eqb_spec c cO) as [->|No]; [reflexivity|].
  destruct (N.eqb_spec c cC) as [->|Nc]; [reflexivity|].
  destruct Hc as [ -> | [ -> | [ -> | -> ] ] ]; try congruence.
  unfold dot_ignored in Hd. rewrite Hd. reflexivity.
Qed.

Definition no_leading_break (brk : chr) (s : list chr) : Prop :=
  match s with c :: _ => c <> brk | [] => True end.

Theorem db_roundtrip_chars brk ign s :
  brk_ok brk -> dot_ignored ign -> over_alphabet brk s -> no_leading_break brk s ->
  wfc brk ign s = true ->
  exists t, make_pair_table brk ign s = Ok t /\ pair_table_to_dot_bracket brk t = s.
Proof.
  intros Hb Hd Ha Hl Hw.
  destruct (proj2 (mpt_accepts_iff_wf brk ign s Hd) Hw) as [t Ht].
  exists t. split; [exact Ht|].
  destruct (mpt_ok_tree _ _ _ _ Ht) as (d & Hs & ->).
  rewrite ptdb_map, db_roundtrip.
  - rewrite <- Hs. apply unsym_classify; assumption.
  - rewrite <- Hs. destruct s as [|c r]; cbn [map]; [exact I|].
    cbn in Hl. unfold classify. destruct (N.eqb_spec c brk); [contradiction|].
    destruct (N.eqb c cO); [exact I|]. destruct (N.eqb c cC); [exact I|].
    destruct (existsb (N.eqb c) ign); exact I.
Qed.

(* ---- strand tables ---- *)
Section StrandTables.
  Context {A : Type} (eqb : A -> A -> bool) (eqb_eq : forall x y, eqb x y = true <-> x = y).

  Lemma fold_left_join (brk : A) (r : list (list A)) : forall s,
    fold_left (fun a b => a ++ [brk] ++ b) r s = join_with [brk] (s :: r).
  Proof.
    induction r as [|x r IH]; intros s; cbn [fold_left]; [reflexivity|].
    rewrite IH. destruct r as [|y r]; cbn [join_with].
    - reflexivity.
    - rewrite <- !app_assoc. reflexivity.
  Qed.
End StrandTables.

Lemma stts_join (brk : pstr) st :
  st <> [] -> strand_table_to_sequence brk st = Ok (join_with [brk] st).
Proof.
  destruct st as [|s r]; [congruence|]. intros _. cbn [strand_table_to_sequence].
  rewrite fold_left_join. reflexivity.
Qed.

Definition break_free (brk : pstr) (s : list pstr) : Prop := Forall (fun x => x <> brk) s.

Lemma mst_aux_run brk s : break_free brk s -> forall rest cur,
  mst_list_aux brk (s ++ rest) cur = mst_list_aux brk rest (rev s ++ cur).
Proof.
  induction 1 as [|x s Hx _ IH]; intros rest cur; cbn [app rev mst_list_aux]; [reflexivity|].
  destruct (str_eqb x brk) eqn:E; [apply str_eqb_iff in E; contradiction|].
  rewrite IH. rewrite <- app_assoc. reflexivity.
Qed.

(* make_strand_table (list form) inverts strand_table_to_sequence *)
Theorem strand_table_of_sequence brk st :
  st <> [] -> Forall (fun s => s <> [] /\ break_free brk s) st ->
  exists sq, strand_table_to_sequence brk st = Ok sq /\ make_strand_table_list brk sq = st.
Proof.
  intros Hne Hall. exists (join_with [brk] st). split; [apply stts_join, Hne|].
  unfold make_strand_table_list. clear Hne.
  induction Hall as [|s r [Hs Hbf] Hr IH]; [reflexivity|].
  cbn [join_with]. destruct r as [|s2 r].
  - rewrite <- (app_nil_r s) at 1. rewrite mst_aux_run by exact Hbf. cbn [mst_list_aux].
    rewrite app_nil_r. destruct (rev s) eqn:E.
    + apply (f_equal (@rev _)) in E. rewrite rev_involutive in E. cbn in E. contradiction.
    + rewrite <- E, rev_involutive. reflexivity.
  - rewrite mst_aux_run by exact Hbf. cbn [app mst_list_aux].
    rewrite (proj2 (str_eqb_iff brk brk) eq_refl). rewrite app_nil_r.
    destruct (rev s) eqn:E.
    + apply (f_equal (@rev _)) in E. rewrite rev_involutive in E. cbn in E. contradiction.
    + rewrite <- E, rev_involutive. f_equal. exact IH.
Qed.

(* and strand_table_to_sequence inverts make_strand_table on sequences whose
   strands are non-empty *)
Fixpoint nonempty_strands (brk : pstr) (sq : list pstr) (at_start : bool) : bool :=
  match sq with
  | [] => negb at_start
  | x :: r => if str_eqb x brk then negb at_start && nonempty_strands brk r true
              else nonempty_strands brk r false
  end.

Lemma join_with_cons2 {A} (b : list A) s s2 r :
  join_with b (s :: s2 :: r) = s ++ b ++ join_with b (s2 :: r).
Proof. reflexivity. Qed.

Lemma mst_aux_join brk sq : forall cur,
  nonempty_strands brk sq (match cur with [] => true | _ => false end) = true ->
  join_with [brk] (mst_list_aux brk sq cur) = rev cur ++ sq.
Proof.
  induction sq as [|x r IH]; intros cur H; cbn [nonempty_strands mst_list_aux] in *.
  - destruct cur; [discriminate|]. cbn [join_with]. rewrite app_nil_r. reflexivity.
  - destruct (str_eqb x brk) eqn:E.
    + apply str_eqb_iff in E. subst x. destruct cur as [|c cur]; [discriminate|].
      cbn [negb andb] in H. specialize (IH [] H). cbn [rev app] in IH.
      destruct (mst_list_aux brk r []) as [|s2 rest] eqn:E2.
      * (* impossible: r starts a non-empty strand *)
        destruct r as [|y r']; [discriminate|]. cbn [nonempty_strands] in H.
        destruct (str_eqb y brk); [discriminate|]. cbn in IH. discriminate.
      * rewrite join_with_cons2, IH. cbn [rev]. rewrite <- !app_assoc. reflexivity.
    + specialize (IH (x :: cur) H). rewrite IH. cbn [rev]. rewrite <- app_assoc. reflexivity.
Qed.

Theorem sequence_of_strand_table brk sq :
  nonempty_strands brk sq true = true ->
  strand_table_to_sequence brk (make_strand_table_list brk sq) = Ok sq.
Proof.
  intros H. unfold make_strand_table_list.
  pose proof (mst_aux_join brk sq [] H) as J. cbn [rev app] in J.
  destruct (mst_list_aux brk sq []) as [|s r] eqn:E.
  - destruct sq; [discriminate|]. cbn in J. discriminate.
  - rewrite stts_join by discriminate. rewrite J. reflexivity.
Qed.

(* string form: str.split / str.join are exact inverses, for every string *)
Lemma split_aux_nonnil brk s : forall cur, split_aux brk s cur <> [].
Proof.
  induction s as [|x r IH]; intros cur; cbn [split_aux]; [discriminate|].
  destruct (N.eqb x brk); [discriminate|apply IH].
Qed.

Lemma split_aux_join brk s : forall cur,
  join_with [brk] (split_aux brk s cur) = rev cur ++ s.
Proof.
  induction s as [|x r IH]; intros cur; cbn [split_aux].
  - cbn [join_with]. rewrite app_nil_r. reflexivity.
  - destruct (N.eqb_spec x brk) as [->|Hx].
    + destruct (split_aux brk r []) as [|s2 rest] eqn:E.
      * exfalso. exact (split_aux_nonnil _ _ _ E).
      * rewrite join_with_cons2, <- E, IH. reflexivity.
    + rewrite IH. cbn [rev]. rewrite <- app_assoc. reflexivity.
Qed.

Theorem join_split_str brk s : join_with [brk] (make_strand_table_str brk s) = s.
Proof. unfold make_strand_table_str. apply (split_aux_join brk s []). Qed.

Lemma split_aux_run brk s : Forall (fun x => x <> brk) s -> forall rest cur,
  split_aux brk (s ++ rest) cur = split_aux brk rest (rev s ++ cur).
Proof.
  induction 1 as [|x s Hx _ IH]; intros rest cur; cbn [app rev split_aux]; [reflexivity|].
  destruct (N.eqb_spec x brk); [contradiction|]. rewrite IH, <- app_assoc. reflexivity.
Qed.

Theorem split_join_str brk st :
  st <> [] -> Forall (Forall (fun x => x <> brk)) st ->
  make_strand_table_str brk (join_with [brk] st) = st.
Proof.
  intros Hne Hall. unfold make_strand_table_str.
  destruct st as [|s r]; [congruence|]. clear Hne.
  revert s Hall. induction r as [|s2 r IH]; intros s Hall; inversion Hall as [|? ? Hs Hr]; subst.
  - cbn [join_with]. rewrite <- (app_nil_r s) at 1. rewrite split_aux_run by exact Hs.
    cbn [split_aux]. rewrite app_nil_r, rev_involutive. reflexivity.
  - rewrite join_with_cons2. rewrite split_aux_run by exact Hs. cbn [app split_aux].
    rewrite N.eqb_refl, app_nil_r, rev_involutive. f_equal. apply IH. exact Hr.
Qed.

(* ---- non-vacuity: concrete instances meeting the hypotheses ---- *)
Example ex_roundtrip :
  let s := [cO; cD; cP; cO; cC; cC; cP; cD] in   (* "(.+())+." *)
  brk_ok cP /\ dot_ignored [cD] /\ over_alphabet cP s /\ no_leading_break cP s /\
  wfc cP [cD] s = true /\
  make_pair_table cP [cD] s
    = Ok [[Some (1, 2); None]; [Some (1, 1); Some (1, 0); Some (0, 0)]; [None]].
Proof.
  cbn zeta. split; [repeat split; discriminate|]. split; [reflexivity|].
  split; [unfold over_alphabet; repeat constructor; tauto|].
  split; [discriminate|]. split; reflexivity.
Qed.

(* ---- shape: one row per strand, one entry per position ---- *)
Fixpoint rowlens (l : list sym) (cur : nat) : list nat :=
  match l with
  | [] => [cur]
  | SB :: r => cur :: rowlens r 0
  | _ :: r => rowlens r (S cur)
  end.

Fixpoint elens (es : list entry) (cur : nat) : list nat :=
  match es with
  | [] => [cur]
  | EB :: r => cur :: elens r 0
  | EP _ :: r => elens r (S cur)
  end.

Lemma appE_lens es : forall pc,
  map (@length _) (fst (appE pc es) ++ [snd (appE pc es)])
  = map (@length _) (fst pc) ++ elens es (length (snd pc)).
Proof.
  induction es as [|[|v] r IH]; intros pc; cbn [appE elens].
  - rewrite map_app. reflexivity.
  - rewrite IH. cbn [fst snd length]. rewrite map_app, <- app_assoc. reflexivity.
  - rewrite IH. cbn [fst snd]. rewrite app_length. cbn [length]. rewrite Nat.add_1_r. reflexivity.
Qed.

Lemma elens_esyms es : forall p cur, elens es cur = rowlens (esyms es p) cur.
Proof.
  induction es as [|[|v] r IH]; intros p cur; cbn [elens esyms rowlens].
  - reflexivity.
  - f_equal. apply IH.
  - unfold sym_at. destruct v as [q|]; [destruct (loc_ltb p q)|]; cbn [rowlens]; apply IH.
Qed.

Lemma tab_of_shape d : map (@length _) (tab_of d) = rowlens (render d) 0.
Proof.
  unfold tab_of. cbn zeta. rewrite appE_lens. cbn [fst snd map app length].
  rewrite (elens_esyms _ (0, 0)), esyms_ents. reflexivity.
Qed.

Lemma split_aux_lens brk ign s : forall cur,
  map (@length _) (split_aux brk s cur) = rowlens (map (classify brk ign) s) (length cur).
Proof.
  induction s as [|c r IH]; intros cur; cbn [split_aux map rowlens].
  - cbn. rewrite rev_length. reflexivity.
  - unfold classify at 1. destruct (N.eqb c brk).
    + cbn [map rowlens]. rewrite rev_length. f_equal. apply (IH []).
    + rewrite (IH (c :: cur)). cbn [length].
      destruct (N.eqb c cO); [reflexivity|]. destruct (N.eqb c cC); [reflexivity|].
      destruct (existsb (N.eqb c) ign); reflexivity.
Qed.

Theorem mpt_shape brk ign s t :
  make_pair_table brk ign s = Ok t ->
  map (@length _) t = map (@length _) (make_strand_table_str brk s).
Proof.
  intros H. destruct (mpt_ok_tree _ _ _ _ H) as (d & Hs & ->).
  rewrite tab_of_shape, <- Hs. unfold make_strand_table_str.
  rewrite (split_aux_lens brk ign s []). reflexivity.
Qed.
