(* C13: round trip of the macrostate statement
     (state | macrostate) NAME = [ NAME (, NAME)* ]
   for all names, list lengths and layouts. *)
From Coq Require Import List NArith Bool Arith Lia.
From DSD Require Import Base.Str Base.Val Model.Peg Model.DispatchPeg Proofs.PegMono Proofs.PegRules Proofs.PegStd
  Proofs.PegDoc Proofs.PegKw Proofs.C13Doc Proofs.PilLex.
From DSDGen Require Import PilGrammar.
Import ListNotations.

Ltac norm_text := repeat (rewrite <- app_assoc || rewrite <- app_comm_cons).
(* a keyword-led alternative fails at its keyword *)
Ltac kwfail i j a l Hb :=
  eapply (evals_kw_alt_fail G _ pil_c WS pil_comment_ok i j a l); [lk|lk|lk|lk|];
  rewrite spre_blanks_stop by (try exact Hb; reflexivity); reflexivity.

(* the kernel-complex alternative (identifier '=' ...) fails on `word blanks identifier...` *)
Lemma cplx_alt_fails full x k0 ks r :
  spre x = k0 :: ks ++ r -> memc k0 idch = true -> all_in idch ks -> nohead idch r -> nohead [61%N] (spre r) ->
  evals G full 202 true (At x) PFail.
Proof.
  intros Hx H0 Hks Hr Hr'.
  eapply evals_node_fail; [lk|apply (pre_premise G full pil_c WS pil_comment_ok); repeat split|].
  unfold pre_pos. cbn [andb ncallpre]. rewrite Hx.
  eapply impls_wrap; [reflexivity|reflexivity|].
  eapply evals_node_fail; [lk|cbn; reflexivity|].
  eapply impls_and; [reflexivity|reflexivity| |].
  - apply (ev_ident full false _ k0 ks r eq_refl H0 Hks Hr).
  - apply seqs_fail.
    eapply evals_eq; [apply (evals_slit G full pil_c WS pil_comment_ok 204 205 true true true); lk|].
    cbn [andb]. unfold lit_res. pose proof (starts_with_nohead 61%N [] _ Hr') as Es.
    unfold chr, pstr in *. rewrite Es. reflexivity.
Qed.

Inductive mskw := KwState | KwMacrostate.
Definition mskw_text (k : mskw) : pstr :=
  match k with
  | KwState => [115; 116; 97; 116; 101]%N
  | KwMacrostate => [109; 97; 99; 114; 111; 115; 116; 97; 116; 101]%N
  end.
Definition tag_ms : pstr :=
  [114; 101; 115; 116; 105; 110; 103; 45; 109; 97; 99; 114; 111; 115; 116; 97; 116; 101]%N.  (* resting-macrostate *)

Record ms_stmt := mkMs { ms_kw : mskw; ms_n0 : chr; ms_ns : pstr; ms_m0 : chr; ms_ms0 : pstr; ms_more : list member }.
Record ms_layout := mkMsLayout { ms_b1 : pstr; ms_b2 : pstr; ms_b3 : pstr; ms_b4 : pstr; ms_b5 : pstr }.
Definition ms_stmt_ok (s : ms_stmt) : Prop :=
  memc (ms_n0 s) idch = true /\ all_in idch (ms_ns s) /\
  memc (ms_m0 s) idch = true /\ all_in idch (ms_ms0 s) /\ Forall member_ok (ms_more s).
(* the keyword is separated from the name (otherwise `statex = ...` is a kernel complex) *)
Definition ms_layout_ok (y : ms_layout) : Prop :=
  blanks WS (ms_b1 y) /\ ms_b1 y <> [] /\ blanks WS (ms_b2 y) /\ blanks WS (ms_b3 y) /\
  blanks WS (ms_b4 y) /\ blanks WS (ms_b5 y).

Definition ms_render (s : ms_stmt) (y : ms_layout) : pstr :=
  mskw_text (ms_kw s) ++ ms_b1 y ++ (ms_n0 s :: ms_ns s) ++ ms_b2 y ++ 61%N :: ms_b3 y ++ 91%N :: ms_b4 y ++
  (ms_m0 s :: ms_ms0 s) ++ members_text 44%N (ms_more s) (ms_b5 y ++ [93%N]).
Definition ms_tree (s : ms_stmt) : tok :=
  TList [TStr tag_ms; TStr (ms_n0 s :: ms_ns s);
         TList (TStr (ms_m0 s :: ms_ms0 s) :: map (fun m => TStr (m_name m)) (ms_more s))].

Lemma members_text_app d ms r k : members_text d ms r ++ k = members_text d ms (r ++ k).
Proof. induction ms as [|m ms IH]; cbn [members_text]; [reflexivity|]. norm_text. rewrite IH. reflexivity. Qed.

Definition ms_tail_text (s : ms_stmt) (y : ms_layout) (Ek : pstr) : pstr :=
  ms_b1 y ++ ms_n0 s :: ms_ns s ++ ms_b2 y ++ 61%N :: ms_b3 y ++ 91%N :: ms_b4 y ++
  ms_m0 s :: ms_ms0 s ++ members_text 44%N (ms_more s) (ms_b5 y ++ 93%N :: Ek).

(* the part after the keyword, for either alternative *)
Lemma seqs_ms_tail full e1 l1 e2 l2 gr dl an zm an2 sc lit e3 l3 m sl le cpm s y E k :
  nth_error G e1 = Some (mkNode KSuppress [l1] true WS [pil_c] true []) ->
  nth_error G l1 = Some (mkNode (KLit [61%N]) [] true WS [pil_c] true []) ->
  nth_error G e2 = Some (mkNode KSuppress [l2] true WS [pil_c] true []) ->
  nth_error G l2 = Some (mkNode (KLit [91%N]) [] true WS [pil_c] true []) ->
  nth_error G gr = Some (mkNode KGroup [dl] true WS [pil_c] true []) ->
  nth_error G dl = Some (mkNode KPass [an] true WS [pil_c] true []) ->
  nth_error G an = Some (mkNode KAnd [61; zm] true WS [pil_c] true []) ->
  nth_error G zm = Some (mkNode (KMany false) [an2] true WS [pil_c] true []) ->
  nth_error G an2 = Some (mkNode KAnd [sc; 61] true WS [pil_c] true []) ->
  nth_error G sc = Some (mkNode KSuppress [lit] true WS [pil_c] true []) ->
  nth_error G lit = Some (mkNode (KLit [44%N]) [] true WS [pil_c] true []) ->
  nth_error G e3 = Some (mkNode KSuppress [l3] true WS [pil_c] true []) ->
  nth_error G l3 = Some (mkNode (KLit [93%N]) [] true WS [pil_c] true []) ->
  nth_error G m = Some (mkNode (KMany true) [sl] true WS [pil_c] cpm []) ->
  nth_error G sl = Some (mkNode KSuppress [le] true WS [pil_c] true []) ->
  (exists cpl, nth_error G le = Some (mkNode KLineEnd [] true WS [pil_c] cpl [])) ->
  ms_stmt_ok s -> ms_layout_ok y -> stmt_end E k ->
  seqs G full [61; e1; e2; gr; e3; m] (At (ms_tail_text s y (E ++ k))) []
    (POk (after WS k) [TStr (ms_n0 s :: ms_ns s);
                       TList (TStr (ms_m0 s :: ms_ms0 s) :: map (fun m => TStr (m_name m)) (ms_more s))]).
Proof.
  intros He1 Hl1 He2 Hl2 Hgr Hdl Han Hzm Han2 Hsc Hlit He3 Hl3 Hm Hsl Hle
    (H0 & Hns & Hm0 & Hms0 & Hmore) (Hb1 & Hb1ne & Hb2 & Hb3 & Hb4 & Hb5) Hk.
  unfold ms_tail_text.
  eapply seqs_cons.
  { apply (ev_ident full true _ (ms_n0 s) (ms_ns s)); [|exact H0|exact Hns|].
    - apply spre_blanks_stop; [exact Hb1|apply idch_stop; exact H0].
    - apply nohead_blanks; [vm_compute; reflexivity|exact Hb2|reflexivity]. }
  eapply seqs_cons.
  { eapply evals_eq; [apply (evals_slit G full pil_c WS pil_comment_ok e1 l1 true true true _ _ He1 Hl1)|].
    cbn [andb]. rewrite spre_blanks_stop by (try exact Hb2; reflexivity).
    unfold lit_res. cbn [starts_with]. rewrite N.eqb_refl. reflexivity. }
  eapply seqs_cons.
  { eapply evals_eq; [apply (evals_slit G full pil_c WS pil_comment_ok e2 l2 true true true _ _ He2 Hl2)|].
    cbn [andb]. rewrite spre_blanks_stop by (try exact Hb3; reflexivity).
    unfold lit_res. cbn [starts_with]. rewrite N.eqb_refl. reflexivity. }
  eapply seqs_cons.
  { eapply evals_eq.
    - eapply evals_node_ok; [exact Hgr|apply (pre_premise G full pil_c WS pil_comment_ok); repeat split|].
      unfold pre_pos. cbn [andb ncallpre].
      eapply impls_wrap; [reflexivity|reflexivity|].
      apply (ev_delimited dl an zm an2 sc lit 44%N Hdl Han Hzm Han2 Hsc Hlit eq_refl eq_refl
               full false _ (ms_m0 s) (ms_ms0 s) (ms_more s) (ms_b5 y ++ 93%N :: E ++ k)).
      + cbn beta iota. apply spre_blanks_stop; [exact Hb4|apply idch_stop; exact Hm0].
      + exact Hm0.
      + exact Hms0.
      + exact Hmore.
      + split.
        * apply nohead_blanks; [vm_compute; reflexivity|exact Hb5|reflexivity].
        * rewrite spre_blanks_stop by (try exact Hb5; reflexivity). reflexivity.
    - reflexivity. }
  eapply seqs_cons.
  { eapply evals_eq; [apply (evals_slit G full pil_c WS pil_comment_ok e3 l3 true true true _ _ He3 Hl3)|].
    cbn [andb]. rewrite spre_zpos. rewrite spre_blanks_stop by (try exact Hb5; reflexivity).
    unfold lit_res. cbn [starts_with]. rewrite N.eqb_refl. reflexivity. }
  eapply seqs_cons; [|apply seqs_nil].
  apply (ev_end full m sl le cpm); assumption.
Qed.

Theorem roundtrip_macrostate s y :
  ms_stmt_ok s -> ms_layout_ok y -> pil_body_ok (ms_render s y) [ms_tree s].
Proof.
  intros Hs Hy full b E k Hb Hk. unfold ms_render. norm_text. rewrite members_text_app. norm_text.
  fold (ms_tail_text s y (E ++ k)).
  pose proof Hs as (H0 & Hns & Hm0 & Hms0 & Hmore).
  pose proof Hy as (Hb1 & Hb1ne & Hb2 & Hb3 & Hb4 & Hb5).
  assert (Hsep : nohead idch (ms_tail_text s y (E ++ k))).
  { unfold ms_tail_text. destruct (ms_b1 y) as [|w b1]; [congruence|]. cbn.
    unfold blanks in Hb1. cbn in Hb1. apply andb_prop in Hb1 as [Hw _].
    apply negb_true_iff. apply (memc_forallb WS (fun w => negb (memc w idch)) w); [vm_compute; reflexivity|exact Hw]. }
  assert (Hnoeq : nohead [61%N] (spre (ms_tail_text s y (E ++ k)))).
  { unfold ms_tail_text. rewrite spre_blanks_stop; [|exact Hb1|apply idch_stop; exact H0].
    cbn. destruct (N.eqb_spec (ms_n0 s) 61%N) as [e|]; [|reflexivity]. rewrite e in H0. discriminate. }
  eapply evals_eq.
  - eapply evals_node_ok; [lk|cbn; reflexivity|]. apply impls_first; [reflexivity|]. cbn [nkids].
    destruct (ms_kw s) eqn:Ekw; cbn [mskw_text app].
    + eapply firsts_miss; [kwfail 9 10 11 12 Hb|].
      eapply firsts_miss; [kwfail 30 31 32 33 Hb|].
      eapply firsts_miss; [kwfail 41 42 43 44 Hb|].
      eapply firsts_miss; [kwfail 49 50 51 52 Hb|].
      eapply firsts_miss; [kwfail 57 58 59 60 Hb|].
      eapply firsts_miss; [kwfail 71 72 73 74 Hb|].
      eapply firsts_miss; [kwfail 84 85 86 87 Hb|].
      eapply firsts_miss; [kwfail 101 102 103 104 Hb|].
      eapply firsts_miss; [kwfail 115 116 117 118 Hb|].
      eapply firsts_miss; [kwfail 189 190 191 192 Hb|].
      eapply firsts_miss.
      { apply (cplx_alt_fails full _ 115%N [116; 97; 116; 101]%N (ms_tail_text s y (E ++ k))).
        - rewrite spre_blanks_stop by (try exact Hb; reflexivity). reflexivity.
        - reflexivity.
        - reflexivity.
        - exact Hsep.
        - exact Hnoeq. }
      apply firsts_hit.
      eapply (evals_kw_alt_ok G full pil_c WS pil_comment_ok 263 264 265 266); [lk|lk|lk|lk| |].
      { rewrite spre_blanks_stop by (try exact Hb; reflexivity). cbn. reflexivity. }
      apply (seqs_ms_tail full 267 268 269 270 271 272 273 274 275 276 277 278 279 280 281 282 true s y E k);
        try lk; try (eexists; lk); assumption.
    + eapply firsts_miss; [kwfail 9 10 11 12 Hb|].
      eapply firsts_miss; [kwfail 30 31 32 33 Hb|].
      eapply firsts_miss; [kwfail 41 42 43 44 Hb|].
      eapply firsts_miss; [kwfail 49 50 51 52 Hb|].
      eapply firsts_miss; [kwfail 57 58 59 60 Hb|].
      eapply firsts_miss; [kwfail 71 72 73 74 Hb|].
      eapply firsts_miss; [kwfail 84 85 86 87 Hb|].
      eapply firsts_miss; [kwfail 101 102 103 104 Hb|].
      eapply firsts_miss; [kwfail 115 116 117 118 Hb|].
      eapply firsts_miss; [kwfail 189 190 191 192 Hb|].
      eapply firsts_miss.
      { apply (cplx_alt_fails full _ 109%N [97; 99; 114; 111; 115; 116; 97; 116; 101]%N (ms_tail_text s y (E ++ k))).
        - rewrite spre_blanks_stop by (try exact Hb; reflexivity). reflexivity.
        - reflexivity.
        - reflexivity.
        - exact Hsep.
        - exact Hnoeq. }
      eapply firsts_miss; [kwfail 263 264 265 266 Hb|].
      apply firsts_hit.
      eapply (evals_kw_alt_ok G full pil_c WS pil_comment_ok 283 284 285 286); [lk|lk|lk|lk| |].
      { rewrite spre_blanks_stop by (try exact Hb; reflexivity). cbn. reflexivity. }
      apply (seqs_ms_tail full 287 288 289 290 291 292 293 294 295 296 297 298 299 300 301 302 true s y E k);
        try lk; try (eexists; lk); assumption.
  - unfold ms_tree. destruct (ms_kw s); reflexivity.
Qed.

Theorem roundtrip_macrostate_parse s y b E :
  ms_stmt_ok s -> ms_layout_ok y -> blanks WS b -> stmt_end E [] ->
  no_tab (b ++ ms_render s y ++ E) ->
  exists f0, forall f, f0 <= f -> parse_pil_fuel f (b ++ ms_render s y ++ E) = vals [ms_tree s].
Proof.
  intros Hs Hy Hb HE Hnt. apply pil_statement_parse; try assumption.
  - unfold ms_render. destruct (ms_kw s); cbn; repeat split; reflexivity.
  - apply roundtrip_macrostate; assumption.
Qed.

(* non-vacuity: `macrostate e4 = [e4 , e5,f]` without final newline *)
Example ms_example :
  let s := mkMs KwMacrostate 101%N [52%N] 101%N [52%N]
             [mkMember [32%N] [32%N] 101%N [53%N]; mkMember [] [] 102%N []] in
  let y := mkMsLayout [32%N] [32%N] [32%N] [] [] in
  ms_stmt_ok s /\ ms_layout_ok y /\ stmt_end [] [] /\
  parse_pil (ms_render s y) = vals [ms_tree s].
Proof.
  cbn zeta. split; [|split; [|split]].
  - cbn. repeat split; try reflexivity. repeat constructor.
  - cbn. repeat split; try reflexivity. discriminate.
  - right. split; reflexivity.
  - vm_compute. reflexivity.
Qed.
