(* C09 at object level on the registry machine: what an unnamed (automatically named)
   request for a well-formed complex does, and ComplexS.split() built from such requests. *)
From Coq Require Import List NArith ZArith Bool Arith Lia Permutation.
From DSD Require Import Base.Str Base.Errors Base.Sort Model.ComplexUtils Model.Rotation Model.Compare Model.Canon
  Proofs.C10 Proofs.RotTree Proofs.RotOnce Proofs.RotOrbit Proofs.RotStrands Proofs.RotGen Proofs.C02.
From DSD Require Import Model.RegStr Model.Heap Model.Registry Model.RegSplit
  Proofs.RegHeap Proofs.RegInv Proofs.RegCalls Proofs.RegExt Proofs.RegC04 Proofs.RegStep Proofs.RegC02.
Import ListNotations.

(* ------------------------------------------------------------------ *)
(* a request whose representation is registered                         *)

Theorem request_registered ct st c ci i es ss name prefix nm :
  goodNE (map fst es, ss) -> nth_error ct c = Some ci ->
  klookup (KCplx (map fst es, ss)) (cs_canon (cget st c)) = Some i ->
  resolve_name ct st c ci name prefix = Ok nm ->
  cplx_call ct c st (Some es) (Some ss) name prefix = (st, answer (cget st c) nm i).
Proof.
  intros GN Eci Kb En. unfold cplx_call. rewrite Eci, En.
  pose proof (aligned_len _ (proj1 GN)) as AL. cbn [fst snd] in AL. rewrite map_length in AL.
  match goal with |- context [negb ?b] => replace b with true by (symmetry; exact AL) end. cbn [negb].
  pose proof (n_strands_nstr _ GN) as NS. cbn [fst snd] in NS. unfold n_strands in NS. rewrite NS.
  unfold nstr at 1. cbn [Nat.eqb]. change (S (length (filter isP ss))) with (nstr ss).
  unfold nstr at 1. rewrite (rot_loop_exit0 _ _ (map fst es, ss) i [] Kb). cbn [min_ckey].
  pose proof (sing_lookup_bound (cget st c) nm (KCplx (map fst es, ss)) i Kb) as A.
  destruct (sing_lookup (cget st c) nm (Some (KCplx (map fst es, ss)))) eqn:EL; cbn in A; try (rewrite <- A; reflexivity).
  exfalso. apply sing_fresh in EL. destruct EL as [_ EL]. congruence.
Qed.

(* ------------------------------------------------------------------ *)
(* if one rotation of a well-formed request is registered, the request itself is *)

Lemma iter_back x k : good x -> Nat.iter (nstr (snd x) * k - k + k) rotT x = x.
Proof.
  intros G. assert (k <= nstr (snd x) * k) by (unfold nstr; nia).
  replace (nstr (snd x) * k - k + k) with (k * nstr (snd x)) by nia.
  rewrite (iter_rotT_mod _ _ G). rewrite Nat.mod_mul by (unfold nstr; lia). reflexivity.
Qed.

Lemma nstr_iter k x : good x -> nstr (snd (Nat.iter k rotT x)) = nstr (snd x).
Proof.
  intros G. induction k as [|k IH]; [reflexivity|]. rewrite iter_S.
  rewrite nstr_rotT by (apply iter_rotT_good, G). exact IH.
Qed.

Theorem rotation_registered_all ct st c y k i :
  Inv ct st -> ROK st -> DOK ct st -> class_kind ct c = Some KindC -> goodNE y ->
  klookup (KCplx (Nat.iter k rotT y)) (cs_canon (cget st c)) = Some i ->
  klookup (KCplx y) (cs_canon (cget st c)) = Some i.
Proof.
  intros I [K C] D Hk GN E. pose proof GN as [G _].
  pose proof (class_kind_lt _ _ _ Hk) as Hc.
  destruct I as [R HO]. apply (alookup_in key_eqb key_eqb_iff) in E.
  destruct (ok_cv _ _ _ (ok_cls _ _ R c Hc) _ _ E) as [o [Hl [Ec Hin]]].
  destruct D as [_ [_ KO]]. pose proof (KO i o Hl) as Kd. rewrite Ec, Hk in Kd. injection Kd as Kd.
  destruct (o_data o) as [| es ss t | | |] eqn:Ed; try discriminate.
  destruct (C i o Hl es ss t Ed) as [GNo [Keys [KeysR _]]]. pose proof GNo as [Go _].
  destruct (KeysR _ Hin) as [k' Ek]. injection Ek as Ek.
  (* y = rotT^m (repr o) *)
  assert (Ey : y = Nat.iter (nstr (snd y) * k - k + k') rotT (map fst es, ss)).
  { rewrite C02.iter_add, <- Ek, <- C02.iter_add. symmetry. apply iter_back. exact G. }
  rewrite <- Ec. rewrite Ey. apply (K i o _ Hl). apply Keys.
Qed.

(* ------------------------------------------------------------------ *)
(* a request none of whose rotations is registered                      *)

Lemma rot_loop_none n : forall e reg x cdict, good x ->
  (forall j, klookup (KCplx (Nat.iter j rotT x)) reg = None) ->
  rot_loop n e reg (fst x) (snd x) cdict
  = Ok (None, dict_of (map (fun j => Nat.iter j rotT x) (seq 0 n)) e cdict).
Proof.
  induction n as [|n IH]; intros e reg x cdict G H; [reflexivity|].
  cbn [rot_loop]. pose proof (H 0) as H0. destruct x as [sq ss]. cbn [fst snd] in *.
  change (Nat.iter 0 rotT (sq, ss)) with (sq, ss) in H0. rewrite H0. destruct (rotT_ok (sq, ss) G) as [E Gy]. unfold once in E. cbn [fst snd] in E. rewrite E. cbn [rbind].
  rewrite (IH (S e) reg (rotT (sq, ss)) _ Gy).
  - rewrite seq_S. cbn [map dict_of Nat.iter]. f_equal. f_equal. f_equal.
    rewrite <- (seq_shift n 0), map_map. apply map_ext. intros j. rewrite iter_succ_r. reflexivity.
  - intros j. rewrite <- iter_succ_r. apply (H (S j)).
Qed.

Theorem request_unregistered ct st c ci es ss name prefix nm :
  goodNE (map fst es, ss) -> nth_error ct c = Some ci ->
  (forall j, klookup (KCplx (Nat.iter j rotT (map fst es, ss))) (cs_canon (cget st c)) = None) ->
  resolve_name ct st c ci name prefix = Ok nm -> nonempty nm = true ->
  exists cn t rots rkeys,
    Canon.identifiers_fresh (map fst es) ss = Ok (cn, t, rots) /\
    (forall key, In key rkeys <-> exists y, key = KCplx y /\ In y rots) /\
    cplx_call ct c st (Some es) (Some ss) name prefix =
      match nlookup nm (cs_names (cget st c)) with
      | Some _ => (st, CErr eSingleton None)
      | None => create ct st c (is_none name) nm (KCplx cn) rkeys (elem_ids es) (DCplx es ss t)
      end.
Proof.
  intros GN Eci Hn En Hne. pose proof GN as [G _].
  pose proof (aligned_len _ G) as AL. cbn [fst snd] in AL. rewrite map_length in AL.
  pose proof (n_strands_nstr _ GN) as NS. cbn [fst snd] in NS. unfold n_strands in NS.
  pose proof (rot_loop_none (nstr ss) 0 (cs_canon (cget st c)) (map fst es, ss) [] G Hn) as RL. cbn [fst snd] in RL.
  set (cdict := dict_of _ 0 []) in RL.
  (* the minimum exists: the dictionary is not empty *)
  assert (Hy : In (map fst es, ss) (map fst cdict)).
  { apply dict_of_keys. left. unfold nstr. rewrite seq_S. cbn [map Nat.iter]. left. reflexivity. }
  destruct (min_ckey cdict) as [cn|] eqn:EM; [|apply min_ckey_none in EM; rewrite EM in Hy; destruct Hy].
  destruct (min_ckey_spec _ _ EM) as [Hcn _].
  destruct (cdict_get cn cdict) as [e|] eqn:EG.
  2:{ exfalso. apply (alookup_none Heap.ckey_eqb ckey_eqb_iff) in EG. exact (EG Hcn). }
  assert (HL : length (map fst es) = length ss) by (apply aligned_length, G).
  assert (EN : n_strands (map fst es) <> 0) by (unfold n_strands; rewrite NS; unfold nstr; lia).
  assert (RL' : rot_loop (n_strands (map fst es)) 0 (cs_canon (cget st c)) (map fst es) ss [] = Ok (None, cdict))
    by (unfold n_strands; rewrite NS; exact RL).
  destruct (loop_is_identifiers_fresh _ _ _ _ _ _ HL EN RL' EM EG) as [rots [IF Keys]].
  exists cn, (wrap (- Z.of_nat e) (Z.of_nat (n_strands (map fst es)))), rots, (map (fun kv => KCplx (fst kv)) cdict).
  split; [exact IF|]. split.
  - intros key. split.
    + intros Hk. apply in_map_iff in Hk. destruct Hk as [[kk vv] [<- Hin]]. exists kk. split; [reflexivity|].
      apply Keys. apply in_map_iff. exists (kk, vv). auto.
    + intros [y [-> Hin]]. apply Keys in Hin. apply in_map_iff in Hin. destruct Hin as [[kk vv] [E Hin]]. cbn in E. subst kk.
      apply in_map_iff. exists (y, vv). auto.
  - unfold cplx_call. rewrite Eci, En.
    match goal with |- context [negb ?b] => replace b with true by (symmetry; exact AL) end. cbn [negb].
    rewrite NS. unfold nstr at 1. cbn [Nat.eqb]. change (S (length (filter isP ss))) with (nstr ss).
    rewrite RL. rewrite EM, EG.
    (* the canonical form is one of the (unregistered) rotations *)
    assert (Kc : klookup (KCplx cn) (cs_canon (cget st c)) = None).
    { apply dict_of_keys in Hcn. destruct Hcn as [Hcn|[]]. apply in_map_iff in Hcn. destruct Hcn as [j [<- _]]. apply Hn. }
    unfold sing_lookup. rewrite Hne, Kc. unfold n_strands. rewrite NS.
    destruct (nlookup nm (cs_names (cget st c))); reflexivity.
Qed.

(* the dichotomy for a well-formed request on a complex class *)
Theorem cplx_request_cases ct st c (y : cplx) :
  Inv ct st -> ROK st -> DOK ct st -> class_kind ct c = Some KindC -> goodNE y ->
  (exists i, klookup (KCplx y) (cs_canon (cget st c)) = Some i) \/
  (forall j, klookup (KCplx (Nat.iter j rotT y)) (cs_canon (cget st c)) = None).
Proof.
  intros I R D Hk GN.
  destruct (klookup (KCplx y) (cs_canon (cget st c))) as [i|] eqn:E; [left; eauto|]. right.
  intros j. destruct (klookup (KCplx (Nat.iter j rotT y)) (cs_canon (cget st c))) as [i|] eqn:Ej; [|reflexivity].
  rewrite (rotation_registered_all ct st c _ j i I R D Hk GN Ej) in E. discriminate.
Qed.
