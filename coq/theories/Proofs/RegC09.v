(* C09 at object level on the registry machine: what an unnamed (automatically named)
   request for a well-formed complex does, and ComplexS.split() built from such requests. *)
From Coq Require Import List NArith ZArith Bool Arith Lia Permutation.
From DSD Require Import Base.Str Base.Errors Base.Sort Model.ComplexUtils Model.Rotation Model.Compare Model.Canon
  Proofs.C10 Proofs.RotTree Proofs.RotOnce Proofs.RotOrbit Proofs.RotStrands Proofs.RotGen Proofs.C02.
From DSD Require Import Model.RegStr Model.Heap Model.Registry Model.RegSplit
  Proofs.RegHeap Proofs.RegInv Proofs.RegCalls Proofs.RegExt Proofs.RegC04 Proofs.RegStep Proofs.RegC02.
Import ListNotations.

(* ------------------------------------------------------------------ *)
(* a request whose representation is registered                         *)

Theorem request_registered ct st c ci i es ss name prefix nm :
  goodNE (map fst es, ss) -> nth_error ct c = Some ci ->
  klookup (KCplx (map fst es, ss)) (cs_canon (cget st c)) = Some i ->
  resolve_name ct st c ci name prefix = Ok nm ->
  cplx_call ct c st (Some es) (Some ss) name prefix = (st, answer (cget st c) nm i).
Proof.
  intros GN Eci Kb En. unfold cplx_call. rewrite Eci, En.
  pose proof (aligned_len _ (proj1 GN)) as AL. cbn [fst snd] in AL. rewrite map_length in AL.
  match goal with |- context [negb ?b] => replace b with true by (symmetry; exact AL) end. cbn [negb].
  pose proof (n_strands_nstr _ GN) as NS. cbn [fst snd] in NS. unfold n_strands in NS. rewrite NS.
  unfold nstr at 1. cbn [Nat.eqb]. change (S (length (filter isP ss))) with (nstr ss).
  unfold nstr at 1. rewrite (rot_loop_exit0 _ _ (map fst es, ss) i [] Kb). cbn [min_ckey].
  pose proof (sing_lookup_bound (cget st c) nm (KCplx (map fst es, ss)) i Kb) as A.
  destruct (sing_lookup (cget st c) nm (Some (KCplx (map fst es, ss)))) eqn:EL; cbn in A; try (rewrite <- A; reflexivity).
  exfalso. apply sing_fresh in EL. destruct EL as [_ EL]. congruence.
Qed.

(* ------------------------------------------------------------------ *)
(* if one rotation of a well-formed request is registered, the request itself is *)

Lemma iter_back x k : good x -> Nat.iter (nstr (snd x) * k - k + k) rotT x = x.
Proof.
  intros G. assert (k <= nstr (snd x) * k) by (unfold nstr; nia).
  replace (nstr (snd x) * k - k + k) with (k * nstr (snd x)) by nia.
  rewrite (iter_rotT_mod _ _ G). rewrite Nat.mod_mul by (unfold nstr; lia). reflexivity.
Qed.

Lemma nstr_iter k x : good x -> nstr (snd (Nat.iter k rotT x)) = nstr (snd x).
Proof.
  intros G. induction k as [|k IH]; [reflexivity|]. rewrite iter_S.
  rewrite nstr_rotT by (apply iter_rotT_good, G). exact IH.
Qed.

Theorem rotation_registered_all ct st c y k i :
  Inv ct st -> ROK st -> DOK ct st -> class_kind ct c = Some KindC -> goodNE y ->
  klookup (KCplx (Nat.iter k rotT y)) (cs_canon (cget st c)) = Some i ->
  klookup (KCplx y) (cs_canon (cget st c)) = Some i.
Proof.
  intros I [K C] D Hk GN E. pose proof GN as [G _].
  pose proof (class_kind_lt _ _ _ Hk) as Hc.
  destruct I as [R HO]. apply (alookup_in key_eqb key_eqb_iff) in E.
  destruct (ok_cv _ _ _ (ok_cls _ _ R c Hc) _ _ E) as [o [Hl [Ec Hin]]].
  destruct D as [_ [_ KO]]. pose proof (KO i o Hl) as Kd. rewrite Ec, Hk in Kd. injection Kd as Kd.
  destruct (o_data o) as [| es ss t | | |] eqn:Ed; try discriminate.
  destruct (C i o Hl es ss t Ed) as [GNo [Keys [KeysR _]]]. pose proof GNo as [Go _].
  destruct (KeysR _ Hin) as [k' Ek]. injection Ek as Ek.
  (* y = rotT^m (repr o) *)
  assert (Ey : y = Nat.iter (nstr (snd y) * k - k + k') rotT (map fst es, ss)).
  { rewrite C02.iter_add, <- Ek, <- C02.iter_add. symmetry. apply iter_back. exact G. }
  rewrite <- Ec. rewrite Ey. apply (K i o _ Hl). apply Keys.
Qed.

(* ------------------------------------------------------------------ *)
(* a request none of whose rotations is registered                      *)

Lemma rot_loop_none n : forall e reg x cdict, good x ->
  (forall j, klookup (KCplx (Nat.iter j rotT x)) reg = None) ->
  rot_loop n e reg (fst x) (snd x) cdict
  = Ok (None, dict_of (map (fun j => Nat.iter j rotT x) (seq 0 n)) e cdict).
Proof.
  induction n as [|n IH]; intros e reg x cdict G H; [reflexivity|].
  cbn [rot_loop]. pose proof (H 0) as H0. destruct x as [sq ss]. cbn [fst snd] in *.
  change (Nat.iter 0 rotT (sq, ss)) with (sq, ss) in H0. rewrite H0. destruct (rotT_ok (sq, ss) G) as [E Gy]. unfold once in E. cbn [fst snd] in E. rewrite E. cbn [rbind].
  rewrite (IH (S e) reg (rotT (sq, ss)) _ Gy).
  - rewrite seq_S. cbn [map dict_of Nat.iter]. f_equal. f_equal. f_equal.
    rewrite <- (seq_shift n 0), map_map. apply map_ext. intros j. rewrite iter_succ_r. reflexivity.
  - intros j. rewrite <- iter_succ_r. apply (H (S j)).
Qed.

Theorem request_unregistered ct st c ci es ss name prefix nm :
  goodNE (map fst es, ss) -> nth_error ct c = Some ci ->
  (forall j, klookup (KCplx (Nat.iter j rotT (map fst es, ss))) (cs_canon (cget st c)) = None) ->
  resolve_name ct st c ci name prefix = Ok nm -> nonempty nm = true ->
  exists cn t rots rkeys,
    Canon.identifiers_fresh (map fst es) ss = Ok (cn, t, rots) /\
    (forall key, In key rkeys <-> exists y, key = KCplx y /\ In y rots) /\
    cplx_call ct c st (Some es) (Some ss) name prefix =
      match nlookup nm (cs_names (cget st c)) with
      | Some _ => (st, CErr eSingleton None)
      | None => create ct st c (is_none name) nm (KCplx cn) rkeys (elem_ids es) (DCplx es ss t)
      end.
Proof.
  intros GN Eci Hn En Hne. pose proof GN as [G _].
  pose proof (aligned_len _ G) as AL. cbn [fst snd] in AL. rewrite map_length in AL.
  pose proof (n_strands_nstr _ GN) as NS. cbn [fst snd] in NS. unfold n_strands in NS.
  pose proof (rot_loop_none (nstr ss) 0 (cs_canon (cget st c)) (map fst es, ss) [] G Hn) as RL. cbn [fst snd] in RL.
  set (cdict := dict_of _ 0 []) in RL.
  (* the minimum exists: the dictionary is not empty *)
  assert (Hy : In (map fst es, ss) (map fst cdict)).
  { apply dict_of_keys. left. unfold nstr. rewrite seq_S. cbn [map Nat.iter]. left. reflexivity. }
  destruct (min_ckey cdict) as [cn|] eqn:EM; [|apply min_ckey_none in EM; rewrite EM in Hy; destruct Hy].
  destruct (min_ckey_spec _ _ EM) as [Hcn _].
  destruct (cdict_get cn cdict) as [e|] eqn:EG.
  2:{ exfalso. apply (alookup_none Heap.ckey_eqb ckey_eqb_iff) in EG. exact (EG Hcn). }
  assert (HL : length (map fst es) = length ss) by (apply aligned_length, G).
  assert (EN : n_strands (map fst es) <> 0) by (unfold n_strands; rewrite NS; unfold nstr; lia).
  assert (RL' : rot_loop (n_strands (map fst es)) 0 (cs_canon (cget st c)) (map fst es) ss [] = Ok (None, cdict))
    by (unfold n_strands; rewrite NS; exact RL).
  destruct (loop_is_identifiers_fresh _ _ _ _ _ _ HL EN RL' EM EG) as [rots [IF Keys]].
  exists cn, (wrap (- Z.of_nat e) (Z.of_nat (n_strands (map fst es)))), rots, (map (fun kv => KCplx (fst kv)) cdict).
  split; [exact IF|]. split.
  - intros key. split.
    + intros Hk. apply in_map_iff in Hk. destruct Hk as [[kk vv] [<- Hin]]. exists kk. split; [reflexivity|].
      apply Keys. apply in_map_iff. exists (kk, vv). auto.
    + intros [y [-> Hin]]. apply Keys in Hin. apply in_map_iff in Hin. destruct Hin as [[kk vv] [E Hin]]. cbn in E. subst kk.
      apply in_map_iff. exists (y, vv). auto.
  - unfold cplx_call. rewrite Eci, En.
    match goal with |- context [negb ?b] => replace b with true by (symmetry; exact AL) end. cbn [negb].
    rewrite NS. unfold nstr at 1. cbn [Nat.eqb]. change (S (length (filter isP ss))) with (nstr ss).
    rewrite RL. rewrite EM, EG.
    (* the canonical form is one of the (unregistered) rotations *)
    assert (Kc : klookup (KCplx cn) (cs_canon (cget st c)) = None).
    { apply dict_of_keys in Hcn. destruct Hcn as [Hcn|[]]. apply in_map_iff in Hcn. destruct Hcn as [j [<- _]]. apply Hn. }
    unfold sing_lookup. rewrite Hne, Kc. unfold n_strands. rewrite NS.
    destruct (nlookup nm (cs_names (cget st c))); reflexivity.
Qed.

(* the dichotomy for a well-formed request on a complex class *)
Theorem cplx_request_cases ct st c (y : cplx) :
  Inv ct st -> ROK st -> DOK ct st -> class_kind ct c = Some KindC -> goodNE y ->
  (exists i, klookup (KCplx y) (cs_canon (cget st c)) = Some i) \/
  (forall j, klookup (KCplx (Nat.iter j rotT y)) (cs_canon (cget st c)) = None).
Proof.
  intros I R D Hk GN.
  destruct (klookup (KCplx y) (cs_canon (cget st c))) as [i|] eqn:E; [left; eauto|]. right.
  intros j. destruct (klookup (KCplx (Nat.iter j rotT y)) (cs_canon (cget st c))) as [i|] eqn:Ej; [|reflexivity].
  rewrite (rotation_registered_all ct st c _ j i I R D Hk GN Ej) in E. discriminate.
Qed.

(* ------------------------------------------------------------------ *)
(* the exact outcome of an automatically named request                  *)

Definition yielded (r : cout) : option nat :=
  match r with
  | CRet id _ => Some id
  | CErr k (Some x) => if is_singleton_err k then Some x else None
  | CErr _ None => None
  end.

(* x is a live complex of class c whose canonical form is the canonical form of y *)
Definition owner_of (st : state) (c : nat) (y : cplx) (x : nat) : Prop :=
  exists o cn, live_obj (heap st) x o /\ o_cls o = c /\ o_key o = KCplx cn /\ canon_T y = Some cn /\
               (exists es ss t, o_data o = DCplx es ss t).

Lemma registered_owner ct st c y i :
  Inv ct st -> ROK st -> DOK ct st -> class_kind ct c = Some KindC -> goodNE y ->
  klookup (KCplx y) (cs_canon (cget st c)) = Some i -> owner_of st c y i.
Proof.
  intros I [K C] D Hk GN E. pose proof (class_kind_lt _ _ _ Hk) as Hc.
  destruct I as [R HO]. apply (alookup_in key_eqb key_eqb_iff) in E.
  destruct (ok_cv _ _ _ (ok_cls _ _ R c Hc) _ _ E) as [o [Hl [Ec Hin]]].
  destruct D as [_ [_ KO]]. pose proof (KO i o Hl) as Kd. rewrite Ec, Hk in Kd. injection Kd as Kd.
  destruct (o_data o) as [| es ss t | | |] eqn:Ed; try discriminate.
  destruct (C i o Hl es ss t Ed) as [GNo [_ [KeysR [[cn [Ek Ecn]] _]]]].
  destruct (KeysR _ Hin) as [k Ey]. injection Ey as ->.
  exists o, cn. split; [exact Hl|]. split; [exact Ec|]. split; [exact Ek|]. split; [|eauto].
  rewrite canon_orbit_invariant by exact GNo. exact Ecn.
Qed.

Theorem unnamed_request_outcome ct st c ci es ss nm :
  Inv ct st -> ROK st -> DOK ct st -> class_kind ct c = Some KindC ->
  nth_error ct c = Some ci -> c_fail ci = FNone ->
  goodNE (map fst es, ss) ->
  resolve_name ct st c ci None None = Ok nm -> nonempty nm = true ->
  let r := cplx_call ct c st (Some es) (Some ss) None None in
  let y := (map fst es, ss) in
  (* it yields the owner of the canonical form (found or created) ... *)
  (forall x, yielded (snd r) = Some x -> owner_of (fst r) c y x) /\
  (* ... or it is refused: SingletonError without `existing`, nothing changed, exactly when the
     automatic name is bound to a live object that is not the owner *)
  (yielded (snd r) = None ->
     snd r = CErr eSingleton None /\ fst r = st /\
     exists j, nlookup nm (cs_names (cget st c)) = Some j /\
               klookup (KCplx y) (cs_canon (cget st c)) <> Some j) /\
  (forall j, nlookup nm (cs_names (cget st c)) = Some j ->
             klookup (KCplx y) (cs_canon (cget st c)) <> Some j -> snd r = CErr eSingleton None).
Proof.
  intros I R D Hk Eci Ef GN En Hne. cbn zeta.
  destruct (cplx_request_cases ct st c (map fst es, ss) I R D Hk GN) as [[i Ei]|Hn].
  - (* registered *)
    rewrite (request_registered ct st c ci i es ss None None nm GN Eci Ei En). cbn [fst snd].
    pose proof (registered_owner ct st c _ i I R D Hk GN Ei) as O.
    unfold answer. rewrite Hne. destruct (nlookup nm (cs_names (cget st c))) as [j|] eqn:EN.
    + destruct (Nat.eqb j i) eqn:Eji.
      * apply Nat.eqb_eq in Eji. subst j. cbn [yielded]. split; [intros x E; injection E as <-; exact O|].
        split; [discriminate|]. intros j E Hj. injection E as <-. congruence.
      * apply Nat.eqb_neq in Eji. cbn [yielded]. split; [discriminate|]. split.
        -- intros _. split; [reflexivity|]. split; [reflexivity|]. exists j. split; [reflexivity|]. congruence.
        -- intros j' E _. reflexivity.
    + cbn [yielded]. rewrite sing_true. split; [intros x E; injection E as <-; exact O|].
      split; [discriminate | intros j E; discriminate].
  - (* no rotation registered *)
    destruct (request_unregistered ct st c ci es ss None None nm GN Eci Hn En Hne) as (cn & t & rots & rkeys & IF & HK & EC).
    rewrite EC. pose proof (Hn 0) as H0. change (Nat.iter 0 rotT (map fst es, ss)) with (map fst es, ss) in H0.
    destruct (nlookup nm (cs_names (cget st c))) as [j|] eqn:EN.
    + cbn [fst snd yielded]. split; [discriminate|]. split.
      * intros _. split; [reflexivity|]. split; [reflexivity|]. exists j. split; [reflexivity|]. congruence.
      * intros j' E _. reflexivity.
    + (* created *)
      assert (ECr : snd (create ct st c (is_none (@None pstr)) nm (KCplx cn) rkeys (elem_ids es) (DCplx es ss t))
                    = CRet (length (heap st)) true).
      { unfold create. rewrite Eci, Ef. unfold alloc. cbn [snd].
        assert (Eh : heap (if is_none (@None pstr) then bump_id ct st c else st) = heap st).
        { cbn [is_none]. unfold bump_id. destruct (class_id ct st c); reflexivity. }
        rewrite Eh. reflexivity. }
      rewrite ECr. cbn [yielded]. split; [|split; [discriminate | intros j E; discriminate]].
      intros x E. injection E as <-. pose proof (create_ret _ _ _ _ _ _ _ _ _ _ ECr) as Hg.
      eexists _, cn. split; [split; [exact Hg | reflexivity]|]. cbn [o_cls o_key o_data].
      split; [reflexivity|]. split; [reflexivity|]. split; [|eauto]. unfold canon_T. cbn [fst snd]. rewrite IF. reflexivity.
Qed.

(* ------------------------------------------------------------------ *)
(* what a call keeps: every object stays where it is, only its liveness can change;
   counters never become undefined                                      *)

Record Keeps (st s : state) : Prop := mkKeeps {
  kp_obj : forall i o, hget (heap st) i = Some o ->
           exists o', hget (heap s) i = Some o' /\ o_cls o' = o_cls o /\ o_key o' = o_key o /\
                      o_data o' = o_data o /\ o_children o' = o_children o /\ o_name o' = o_name o;
  kp_ids : forall b, cs_id (cget s b) = cs_id (cget st b) \/ cs_id (cget s b) <> None;
  kp_roots : roots s = roots st
}.

Lemma keeps_refl st : Keeps st st.
Proof. constructor; auto. intros i o H. exists o. repeat split; auto. Qed.

Lemma keeps_trans st s1 s2 : Keeps st s1 -> Keeps s1 s2 -> Keeps st s2.
Proof.
  intros [A1 A2 A3] [B1 B2 B3]. constructor.
  - intros i o H. destruct (A1 i o H) as [o1 [H1 [E1 [E2 [E3 [E4 E5]]]]]].
    destruct (B1 i o1 H1) as [o2 [H2 [F1 [F2 [F3 [F4 F5]]]]]]. exists o2. repeat split; congruence.
  - intros b. destruct (B2 b) as [E|E]; [rewrite E; apply A2 | right; exact E].
  - congruence.
Qed.

Lemma keeps_collect st : Keeps st (collect st).
Proof.
  constructor; [| intros b; left; rewrite cget_collect; reflexivity | reflexivity].
  intros i o H. rewrite heap_collect, hget_sweep, H. cbn. eexists. split; [reflexivity|].
  destruct (kept _ _ i); repeat split; reflexivity.
Qed.

Lemma keeps_create ct st c auto name k extra children d :
  Keeps st (fst (create ct st c auto name k extra children d)).
Proof.
  unfold create. destruct (nth_error ct c) as [ci|]; [|apply keeps_refl].
  set (st1 := if auto then bump_id ct st c else st).
  assert (K1 : Keeps st st1).
  { unfold st1. destruct auto; [|apply keeps_refl]. unfold bump_id. destruct (class_id ct st c); [|apply keeps_refl].
    constructor; [intros i o H; exists o; repeat split; auto | | reflexivity].
    intros b. unfold set_id. destruct (Nat.eq_dec c b) as [<-|Db]; [|left; rewrite cget_cput_other by exact Db; reflexivity].
    destruct (Nat.lt_ge_cases c (length (classes st))) as [L|L].
    - right. rewrite cget_cput_same by exact L. discriminate.
    - left. unfold cget, cput. cbn. rewrite upd_oob by exact L. reflexivity. }
  assert (Step : forall cs', Keeps st1 (cput (mkState (mkObj c name k (k :: extra) true children d :: heap st1) (classes st1) (roots st1)) c cs') \/ True) by auto.
  assert (KA : forall cs', cs_id cs' = cs_id (cget st1 c) ->
               Keeps st1 (cput (mkState (mkObj c name k (k :: extra) true children d :: heap st1) (classes st1) (roots st1)) c cs')).
  { intros cs' Ei. constructor; [| | reflexivity].
    - intros i o H. exists o. split; [apply hget_old_some; exact H | repeat split; reflexivity].
    - intros b. left. destruct (Nat.eq_dec c b) as [<-|Db]; [|rewrite cget_cput_other by exact Db; reflexivity].
      destruct (Nat.lt_ge_cases c (length (classes st1))) as [L|L].
      + rewrite (cget_cput_same (mkState _ (classes st1) (roots st1))) by exact L. exact Ei.
      + unfold cget, cput. cbn. rewrite upd_oob by exact L. reflexivity. }
  destruct (c_fail ci); [|apply keeps_refl|]; unfold alloc; cbn [fst].
  - eapply keeps_trans; [exact K1|]. unfold register. apply KA. reflexivity.
  - eapply keeps_trans; [exact K1|]. eapply keeps_trans; [|apply keeps_collect]. unfold register_extra. apply KA. reflexivity.
Qed.

Lemma keeps_cplx_call ct c st seq sst name prefix : Keeps st (fst (cplx_call ct c st seq sst name prefix)).
Proof.
  unfold cplx_call. destruct (nth_error ct c); [|apply keeps_refl]. destruct seq as [es|].
  - destruct (resolve_name _ _ _ _ _ _); [|apply keeps_refl]. destruct sst; [|apply keeps_refl].
    destruct (negb _); [apply keeps_refl|]. destruct (Nat.eqb _ 0); [apply keeps_refl|].
    destruct (rot_loop _ _ _ _ _ _) as [[ex cdict]|]; [|apply keeps_refl].
    match goal with |- Keeps _ (fst (match ?y with _ => _ end)) => destruct y as [[cn e]|] end; [|apply keeps_refl].
    destruct (sing_lookup _ _ _); try apply keeps_refl. apply keeps_create.
  - destruct name; [|apply keeps_refl]. destruct (sing_lookup _ _ _); apply keeps_refl.
Qed.

(* a defined counter stays defined *)
Lemma eff_id_keeps ct st s f : (forall b, cs_id (cget s b) = cs_id (cget st b) \/ cs_id (cget s b) <> None) ->
  forall b z, eff_id f ct st b = Some z -> exists z', eff_id f ct s b = Some z'.
Proof.
  intros H. induction f as [|f IH]; intros b z E; [discriminate|]. cbn [eff_id] in *.
  destruct (cs_id (cget s b)) as [z'|] eqn:Es; [eauto|].
  destruct (H b) as [Eb|Eb]; [|congruence]. rewrite Es in Eb. rewrite <- Eb in E.
  destruct (nth_error ct b) as [ci|]; [|discriminate]. destruct (c_parent ci) as [p|]; [|discriminate]. eapply IH; eauto.
Qed.

Lemma class_id_keeps ct st s c z : Keeps st s -> class_id ct st c = Some z -> exists z', class_id ct s c = Some z'.
Proof. intros K. unfold class_id. apply eff_id_keeps. apply (kp_ids _ _ K). Qed.

(* ------------------------------------------------------------------ *)
(* the generator loop                                                   *)

Record LoopInv (ct : ctable) (c i : nat) (X : list nat) (s : state) : Prop := mkLoopInv {
  li_inv : Inv ct s;
  li_rok : ROK s;
  li_dok : DOK ct s;
  li_root : In i (root_ids (roots s));
  li_src : exists o', hget (heap s) i = Some o' /\ forall x, In x X -> In x (o_children o');
  li_id : exists z, class_id ct s c = Some z
}.

Lemma root_ids_app a b : root_ids (a ++ b) = root_ids a ++ root_ids b.
Proof. induction a as [|[x|] r IH]; cbn; [reflexivity | f_equal; exact IH | exact IH]. Qed.

Lemma inv_push_root ct s x : Inv ct s -> is_live (heap s) x = true -> Inv ct (push_root s x).
Proof.
  intros [R [H1 H2 H3]] L. split; [destruct R as [R1 R2 R3]; constructor; assumption|].
  constructor; [|exact H2 | exact H3]. intros sl j Hs. cbn [push_root roots heap] in *.
  destruct (Nat.lt_ge_cases sl (length (roots s))) as [Lt|Ge].
  - rewrite nth_error_app1 in Hs by exact Lt. apply (H1 sl j Hs).
  - rewrite nth_error_app2 in Hs by exact Ge. destruct (sl - length (roots s)) as [|[|n]]; cbn in Hs; try discriminate.
    injection Hs as <-. exact L.
Qed.

Lemma loopinv_children_live ct c i X s : LoopInv ct c i X s -> forall x, In x X -> is_live (heap s) x = true.
Proof.
  intros [I _ _ Hr [o' [Hg Hx]] _] x Hin. apply root_ids_in in Hr. destruct Hr as [sl Hs].
  pose proof (hk_roots _ (proj2 I) sl i Hs) as L. unfold is_live in L. rewrite Hg in L.
  apply (hk_child _ (proj2 I) i o' (conj Hg L) x). apply Hx. exact Hin.
Qed.

Definition KeepsO (st s : state) : Prop :=
  forall i o, hget (heap st) i = Some o ->
    exists o', hget (heap s) i = Some o' /\ o_cls o' = o_cls o /\ o_key o' = o_key o /\
               o_data o' = o_data o /\ o_children o' = o_children o /\ o_name o' = o_name o.

Lemma keepso_of st s : Keeps st s -> KeepsO st s. Proof. intros K i o H. apply (kp_obj _ _ K i o H). Qed.
Lemma keepso_refl st : KeepsO st st. Proof. apply keepso_of, keeps_refl. Qed.
Lemma keepso_trans st s1 s2 : KeepsO st s1 -> KeepsO s1 s2 -> KeepsO st s2.
Proof.
  intros A B i o H. destruct (A i o H) as [o1 [H1 [E1 [E2 [E3 [E4 E5]]]]]].
  destruct (B i o1 H1) as [o2 [H2 [F1 [F2 [F3 [F4 F5]]]]]]. exists o2. repeat split; congruence.
Qed.
Lemma keepso_push s x : KeepsO s (push_root s x). Proof. intros i o H. exists o. repeat split; auto. Qed.

Lemma owner_keeps ct s s' c y x :
  owner_of s c y x -> KeepsO s s' -> Inv ct s' -> In x (root_ids (roots s')) -> owner_of s' c y x.
Proof.
  intros (o & cn & [Hg Hl] & Ec & Ek & Ecn & (es & ss & t & Ed)) K I Hr.
  destruct (K x o Hg) as [o' [Hg' [E1 [E2 [E3 _]]]]].
  apply root_ids_in in Hr. destruct Hr as [sl Hs]. pose proof (hk_roots _ (proj2 I) sl x Hs) as L.
  unfold is_live in L. rewrite Hg' in L.
  exists o', cn. split; [split; assumption|]. split; [congruence|]. split; [congruence|]. split; [exact Ecn|].
  exists es, ss, t. congruence.
Qed.

Definition comp_ok (X : list nat) (p : list (list elem) * tab) (nseq : list elem) : Prop :=
  strand_table_to_sequence ePlus (fst p) = Ok nseq /\
  goodNE (map fst nseq, pair_table_to_dot_bracket cP (snd p)) /\
  forall x, In x (elem_ids nseq) -> In x X.

Definition GoodParts (X : list nat) (parts : list (list (list elem) * tab)) : Prop :=
  Forall (fun p => exists nseq, comp_ok X p nseq) parts.

Definition comp_of (p : list (list elem) * tab) : cplx :=
  (match strand_table_to_sequence ePlus (fst p) with Ok nseq => map fst nseq | Err _ => [] end,
   pair_table_to_dot_bracket cP (snd p)).

(* the class of the object that is split *)
Record ClassGood (ct : ctable) (c : nat) (ci : cinfo) : Prop := mkClassGood {
  cg_kind : class_kind ct c = Some KindC;
  cg_nth : nth_error ct c = Some ci;
  cg_fail : c_fail ci = FNone;
  cg_prefix : nonempty (c_prefix ci) = true
}.

Lemma auto_name ct s c ci z : class_id ct s c = Some z ->
  resolve_name ct s c ci None None = Ok (c_prefix ci ++ z_dec z).
Proof. intros E. unfold resolve_name. rewrite E. reflexivity. Qed.

Lemma nonempty_app {A} (a b : list A) : nonempty a = true -> nonempty (a ++ b) = true.
Proof. destruct a; [discriminate | reflexivity]. Qed.

(* what the refusal of a component means *)
Definition refused_at (ct : ctable) (c : nat) (ci : cinfo) (s : state) (y : cplx) : Prop :=
  exists z j, class_id ct s c = Some z /\
              nlookup (c_prefix ci ++ z_dec z) (cs_names (cget s c)) = Some j /\
              klookup (KCplx y) (cs_canon (cget s c)) <> Some j.

Lemma eff_id_classes ct s s' f : classes s' = classes s -> forall b, eff_id f ct s' b = eff_id f ct s b.
Proof.
  intros E. induction f as [|f IH]; intros b; [reflexivity|]. cbn [eff_id]. unfold cget. rewrite E.
  destruct (cs_id _); [reflexivity|]. destruct (nth_error ct b) as [ci|]; [|reflexivity].
  destruct (c_parent ci); [apply IH | reflexivity].
Qed.

Lemma loop_step ct c ci i X s p nseq :
  ClassGood ct c ci -> LoopInv ct c i X s -> comp_ok X p nseq ->
  let r := cplx_call ct c s (Some nseq) (Some (pair_table_to_dot_bracket cP (snd p))) None None in
  match yielded (snd r) with
  | Some x => LoopInv ct c i X (push_root (fst r) x) /\ owner_of (push_root (fst r) x) c (comp_of p) x /\ Keeps s (fst r)
  | None => snd r = CErr eSingleton None /\ fst r = s /\ refused_at ct c ci s (comp_of p)
  end.
Proof.
  intros [Hk Eci Ef Hp] L [Es [GN Hx]]. cbn zeta.
  pose proof L as [I R D Hr [o' [Hg Hch]] [z Ez]].
  pose proof (auto_name ct s c ci z Ez) as En.
  pose proof (nonempty_app _ (z_dec z) Hp) as Hne.
  assert (Ecomp : comp_of p = (map fst nseq, pair_table_to_dot_bracket cP (snd p))) by (unfold comp_of; rewrite Es; reflexivity).
  destruct (unnamed_request_outcome ct s c ci nseq _ _ I R D Hk Eci Ef GN En Hne) as [Y [N _]].
  set (r := cplx_call ct c s (Some nseq) (Some (pair_table_to_dot_bracket cP (snd p))) None None) in *.
  assert (Hlive : forall es x, Some nseq = Some es -> In x (elem_ids es) -> is_live (heap s) x = true).
  { intros es x E Hin. injection E as <-. apply (loopinv_children_live ct c i X s L). apply Hx. exact Hin. }
  pose proof (callok_cplx_call ct c s (Some nseq) (Some (pair_table_to_dot_bracket cP (snd p))) None None I Hlive) as [I1 Lret].
  fold r in I1, Lret.
  pose proof (keeps_cplx_call ct c s (Some nseq) (Some (pair_table_to_dot_bracket cP (snd p))) None None) as K. fold r in K.
  destruct (yielded (snd r)) as [x|] eqn:EY.
  - destruct (Y x EY) as (o & cn & Hl & Ho).
    assert (Lx : is_live (heap (fst r)) x = true) by (eapply live_obj_is_live; eauto).
    split; [|split; [|exact K]].
    + constructor.
      * apply inv_push_root; assumption.
      * apply (rok_cplx_call ct c s (Some nseq) _ None None I R Hlive). intros es ss E1 E2. injection E1 as <-. injection E2 as <-. exact GN.
      * apply (dok_cplx_call ct c s (Some nseq) _ None None Hk D).
      * cbn [push_root roots]. rewrite root_ids_app. apply in_or_app. left. rewrite (kp_roots _ _ K). exact Hr.
      * cbn [push_root heap]. destruct (kp_obj _ _ K i o' Hg) as [o2 [H2 [_ [_ [_ [E4 _]]]]]]. exists o2. split; [exact H2|].
        intros y Hy. rewrite E4. apply Hch. exact Hy.
      * cbn [push_root]. destruct (class_id_keeps ct s (fst r) c z K Ez) as [z' Ez']. exists z'.
        unfold class_id in *. rewrite (eff_id_classes ct (fst r) (push_root (fst r) x) _ eq_refl). exact Ez'.
    + rewrite Ecomp. exists o, cn. exact (conj Hl Ho).
  - destruct (N EY) as [E1 [E2 [j [Hj Hk']]]]. split; [exact E1|]. split; [exact E2|].
    exists z, j. rewrite Ecomp. auto.
Qed.

Theorem split_loop_sound ct c ci i X : ClassGood ct c ci -> forall parts s acc s' res,
  LoopInv ct c i X s -> GoodParts X parts -> split_loop ct c s parts acc = (s', res) ->
  Inv ct s' /\ ROK s' /\ DOK ct s' /\ KeepsO s s' /\
  match res with
  | Ok ids => exists ys, ids = rev acc ++ ys /\ roots s' = roots s ++ map Some ys /\
                         Forall2 (fun p x => owner_of s' c (comp_of p) x) parts ys
  | Err k => k = eSingleton /\
             exists done p rest ys, parts = done ++ p :: rest /\ roots s' = roots s ++ map Some ys /\
                                    Forall2 (fun p x => owner_of s' c (comp_of p) x) done ys /\
                                    refused_at ct c ci s' (comp_of p)
  end.
Proof.
  intros CG. induction parts as [|p r IH]; intros s acc s' res L GP H; cbn [split_loop] in H.
  - injection H as <- <-. pose proof L as [I R D _ _ _].
    split; [exact I|]. split; [exact R|]. split; [exact D|]. split; [apply keepso_refl|].
    exists []. rewrite !app_nil_r. split; [reflexivity|]. split; [reflexivity | constructor].
  - inversion GP as [|? ? [nseq CO] GP']; subst. destruct p as [stb pt]. pose proof CO as [Es _]. cbn [fst] in Es.
    rewrite Es in H. pose proof (loop_step ct c ci i X s (stb, pt) nseq CG L CO) as LS. cbn zeta in LS. cbn [snd] in *.
    destruct (cplx_call ct c s (Some nseq) (Some (pair_table_to_dot_bracket cP pt)) None None) as [s1 r1] eqn:EC.
    cbn [fst snd] in LS.
    assert (Cont : forall x, yielded r1 = Some x ->
              split_loop ct c (push_root s1 x) r (x :: acc) = (s', res) ->
              Inv ct s' /\ ROK s' /\ DOK ct s' /\ KeepsO s s' /\
              match res with
              | Ok ids => exists ys, ids = rev acc ++ ys /\ roots s' = roots s ++ map Some ys /\
                                     Forall2 (fun p x => owner_of s' c (comp_of p) x) ((stb, pt) :: r) ys
              | Err k => k = eSingleton /\
                         exists done p rest ys, (stb, pt) :: r = done ++ p :: rest /\ roots s' = roots s ++ map Some ys /\
                                                Forall2 (fun p x => owner_of s' c (comp_of p) x) done ys /\
                                                refused_at ct c ci s' (comp_of p)
              end).
    { intros x EY H2. rewrite EY in LS. destruct LS as [L1 [O1 K1]].
      destruct (IH _ _ _ _ L1 GP' H2) as [I' [R' [D' [K' Res]]]].
      assert (KO : KeepsO s s') by (eapply keepso_trans; [apply keepso_of; exact K1 | exact K']).
      assert (Rt : forall ys, roots s' = roots (push_root s1 x) ++ map Some ys -> roots s' = roots s ++ map Some (x :: ys)).
      { intros ys E. rewrite E. cbn [push_root roots map]. rewrite (kp_roots _ _ K1), <- app_assoc. reflexivity. }
      assert (Ox : forall ys, roots s' = roots (push_root s1 x) ++ map Some ys -> owner_of s' c (comp_of (stb, pt)) x).
      { intros ys E. apply (owner_keeps ct (push_root s1 x) s'); auto. rewrite E. cbn [push_root roots].
        rewrite !root_ids_app. apply in_or_app. left. apply in_or_app. right. left. reflexivity. }
      split; [exact I'|]. split; [exact R'|]. split; [exact D'|]. split; [exact KO|]. destruct res as [ids|k].
      - destruct Res as [ys [E1 [E2 F]]]. exists (x :: ys). split; [rewrite E1; cbn [rev]; rewrite <- app_assoc; reflexivity|].
        split; [apply Rt; exact E2|]. constructor; [apply (Ox ys E2) | exact F].
      - destruct Res as [Ek [done [p' [rest [ys [E1 [E2 [F Rf]]]]]]]]. split; [exact Ek|].
        exists ((stb, pt) :: done), p', rest, (x :: ys). split; [rewrite E1; reflexivity|].
        split; [apply Rt; exact E2|]. split; [constructor; [apply (Ox ys E2) | exact F] | exact Rf]. }
    destruct r1 as [id b|k [x|]].
    + apply (Cont id eq_refl H).
    + destruct (is_singleton_err k) eqn:Ek.
      * apply (Cont x); [cbn; rewrite Ek; reflexivity | exact H].
      * exfalso. cbn [yielded] in LS. rewrite Ek in LS. destruct LS as [E _]. injection E as E _. rewrite E, sing_true in Ek. discriminate.
    + cbn [yielded] in LS. destruct LS as [E [Es1 Rf]]. injection E as ->. subst s1. injection H as <- <-.
      pose proof L as [I R D _ _ _]. split; [exact I|]. split; [exact R|]. split; [exact D|]. split; [apply keepso_refl|].
      split; [reflexivity|]. exists [], (stb, pt), r, []. rewrite app_nil_r. split; [reflexivity|]. split; [reflexivity|]. split; [constructor | exact Rf].
Qed.

(* ------------------------------------------------------------------ *)
(* the operation s[dst:] = list(s[src].split())                          *)

Lemma inv_trim ct s n extra : Inv ct s -> roots s = firstn n (roots s) ++ extra -> Inv ct (trim_roots s n).
Proof.
  intros [R [H1 H2 H3]] E. split; [destruct R as [R1 R2 R3]; constructor; assumption|].
  constructor; [|exact H2 | exact H3]. intros sl j Hs. cbn [trim_roots roots heap] in *.
  apply (H1 sl j). rewrite E. rewrite nth_error_app1; [exact Hs|]. apply nth_error_Some. congruence.
Qed.

Lemma inv_store_from ct ids : forall s dst, Inv ct s -> (forall x, In x ids -> is_live (heap s) x = true) ->
  Inv ct (store_from s dst ids).
Proof.
  induction ids as [|x r IH]; intros s dst I L; [exact I|]. cbn [store_from]. apply IH.
  - apply inv_set_root; [exact I|]. intros j E. injection E as <-. apply L. left. reflexivity.
  - intros y Hy. cbn [set_root heap]. apply L. right. exact Hy.
Qed.

Lemma store_from_same ids : forall s dst, heap (store_from s dst ids) = heap s /\ classes (store_from s dst ids) = classes s.
Proof. induction ids as [|x r IH]; intros s dst; [auto|]. cbn [store_from]. destruct (IH (set_root s dst (Some x)) (S dst)) as [A B]. rewrite A, B. auto. Qed.

Lemma rok_same_heap s s' : heap s' = heap s -> classes s' = classes s -> ROK s -> ROK s'.
Proof.
  intros Eh Ec [K C]. split.
  - intros i o k Hl Hk. rewrite Eh in Hl. unfold cget. rewrite Ec. apply (K i o k Hl Hk).
  - intros i o Hl. rewrite Eh in Hl. apply (C i o Hl).
Qed.

Lemma dok_same_heap ct s s' : heap s' = heap s -> DOK ct s -> DOK ct s'.
Proof. intros Eh. apply dok_sub. intros i o H. rewrite Eh in H. exact H. Qed.

Record SplitReady (ct : ctable) (st : state) (src : nat) (i : nat) (ob : obj) (ci : cinfo)
                  (parts : list (list (list elem) * tab)) : Prop := mkSplitReady {
  sr_root : get_root st src = Some i;
  sr_obj : hget (heap st) i = Some ob;
  sr_class : ClassGood ct (o_cls ob) ci;
  sr_id : exists z, class_id ct st (o_cls ob) = Some z;
  sr_parts : exists es ss t ptab, o_data ob = DCplx es ss t /\ make_pair_table cP [cD] ss = Ok ptab /\
                                  split_complex_pt (S (length ptab)) (elem_strands es) ptab = Ok parts;
  sr_good : GoodParts (o_children ob) parts
}.

Lemma forall2_in_r {A B} (P : A -> B -> Prop) l l' y : Forall2 P l l' -> In y l' -> exists x, In x l /\ P x y.
Proof.
  induction 1 as [|a b l l' Hab _ IH]; intros Hy; [destruct Hy|]. destruct Hy as [<-|Hy].
  - exists a. split; [left; reflexivity | exact Hab].
  - destruct (IH Hy) as [x [H1 H2]]. exists x. split; [right; exact H1 | exact H2].
Qed.

Lemma firstn_app_exact {A} (l r : list A) : firstn (length l) (l ++ r) = l.
Proof. rewrite firstn_app, Nat.sub_diag, firstn_all. cbn. apply app_nil_r. Qed.

Theorem split_op_sound ct st dst src i ob ci parts :
  Inv ct st -> ROK st -> DOK ct st -> SplitReady ct st src i ob ci parts ->
  let r := split_op ct st dst src in
  Inv ct (fst r) /\ ROK (fst r) /\ DOK ct (fst r) /\ Collected (fst r) /\
  exists s' ys,
    (* the state when the generator stops: the objects yielded so far are the owners of their components *)
    Inv ct s' /\ roots s' = roots st ++ map Some ys /\ KeepsO st s' /\
    match snd r with
    | Yielded ids =>
        ids = ys /\ Forall2 (fun p x => owner_of s' (o_cls ob) (comp_of p) x) parts ids /\
        fst r = collect (store_from (trim_roots s' (length (roots st))) dst ids)
    | XOut (Raised k e) =>
        k = eSingleton /\ e = None /\
        exists done p rest, parts = done ++ p :: rest /\
                            Forall2 (fun p x => owner_of s' (o_cls ob) (comp_of p) x) done ys /\
                            refused_at ct (o_cls ob) ci s' (comp_of p) /\
                            fst r = collect (trim_roots s' (length (roots st)))
    | XOut _ => False
    end.
Proof.
  intros I R D [Hr Ho CG Hid (es & ss & t & ptab & Ed & Ept & Esp) GP]. cbn zeta.
  unfold split_op. rewrite Hr, Ho, Ed, Ept, Esp.
  assert (L0 : LoopInv ct (o_cls ob) i (o_children ob) st).
  { constructor; auto.
    - apply root_ids_in. unfold get_root in Hr. destruct (nth_error (roots st) src) as [[j|]|] eqn:E; try discriminate.
      injection Hr as <-. exists src. exact E.
    - exists ob. auto. }
  destruct (split_loop ct (o_cls ob) st parts []) as [s' res] eqn:EL.
  destruct (split_loop_sound ct (o_cls ob) ci i (o_children ob) CG parts st [] s' res L0 GP EL) as [I' [R' [D' [K' Res]]]].
  destruct res as [ids|k]; cbn [fst snd].
  - destruct Res as [ys [E1 [E2 F]]]. cbn [rev app] in E1. subst ys.
    assert (Tr : Inv ct (trim_roots s' (length (roots st)))).
    { apply (inv_trim ct s' _ (map Some ids)); [exact I'|]. rewrite E2 at 2. rewrite E2, firstn_app_exact. reflexivity. }
    assert (Lv : forall x, In x ids -> is_live (heap (trim_roots s' (length (roots st)))) x = true).
    { intros x Hx. cbn [trim_roots heap]. destruct (forall2_in_r _ _ _ _ F Hx) as [p [_ (o & cn & Hl & _)]]. eapply live_obj_is_live; eauto. }
    pose proof (inv_store_from ct ids _ dst Tr Lv) as Ist.
    destruct (store_from_same ids (trim_roots s' (length (roots st))) dst) as [Eh Ec].
    split; [apply inv_collect; exact Ist|]. split; [apply rok_collect; apply (rok_same_heap s'); auto|].
    split; [apply dok_collect; apply (dok_same_heap ct s'); auto|]. split; [apply collected_collect; apply (proj2 Ist)|].
    exists s', ids. split; [exact I'|]. split; [exact E2|]. split; [exact K'|]. auto.
  - destruct Res as [Ek [done [p [rest [ys [E1 [E2 [F Rf]]]]]]]].
    assert (Tr : Inv ct (trim_roots s' (length (roots st)))).
    { apply (inv_trim ct s' _ (map Some ys)); [exact I'|]. rewrite E2 at 2. rewrite E2, firstn_app_exact. reflexivity. }
    split; [apply inv_collect; exact Tr|]. split; [apply rok_collect; apply (rok_same_heap s'); auto|].
    split; [apply dok_collect; apply (dok_same_heap ct s'); auto|]. split; [apply collected_collect; apply (proj2 Tr)|].
    exists s', ys. split; [exact I'|]. split; [exact E2|]. split; [exact K'|]. split; [exact Ek|]. split; [reflexivity|].
    exists done, p, rest. auto.
Qed.
