(* Reader model: concrete instances (non-vacuity of the hypotheses of ReaderThms.v) and the
   witness that refutes C15's reader clause in sessions that already hold objects of other
   classes. *)
From Coq Require Import String List NArith ZArith Bool Arith.
From DSD Require Import Base.Str Base.Errors Base.Val Model.ComplexUtils Model.RegStr Model.ReaderStr
  Model.Peg Model.Heap Model.Registry Model.Reader Model.ReaderShape Model.DispatchReader
  Proofs.ReaderInv Proofs.ReaderHoare Proofs.ReaderNoFault Proofs.ReaderThms Proofs.ReaderBuilds.
From DSDGen Require Import ReaderConsts.
Import ListNotations.
Local Open Scope string_scope.

Definition nl : pstr := [10%N].
Definition doc (ls : list string) : pstr := flat_map (fun l => (str l ++ nl)%list) ls.

Definition ex_doc : pstr :=
  doc ["length a = 5"; "sequence b = ACGT"; "strand s = a b*"; "X = a( b + ) s* @i 5 nM"; "state X = [X]";
       "reaction [condensed = 5 /s] X -> X + X"; "reaction X -> X"; "structure Y = s + s : ..+.."].

Definition parsed_ok (text : pstr) : bool :=
  match parse_lines text with Ok lines => forallb line_okb lines | Err _ => false end.

(* every line of the parsed document has the shape the theorems require *)
Example ex_doc_shape : parsed_ok ex_doc = true.
Proof. vm_compute. reflexivity. Qed.

(* ... and it is read: 4 domains, one strand, two complexes, a macrostate, a condensed reaction, and
   the reaction without a rate under `other` *)
Example ex_doc_read :
  match parse_lines ex_doc with
  | Ok lines =>
      match read_pil base_ctable base_g None lines (rinit (init base_ctable 0)) with
      | (_, Ok o) => (List.length (po_domains o), List.length (po_strands o), List.length (po_complexes o),
                      List.length (po_macrostates o), List.length (po_con o), List.length (po_other o)) = (4, 1, 2, 1, 1, 1)
      | _ => False
      end
  | _ => False
  end.
Proof. vm_compute. reflexivity. Qed.

(* refused documents of the right shape: conflicting redeclaration, unknown nucleotide, degenerate complexes *)
Definition outcome_kind (text : pstr) : option pstr :=
  match parse_lines text with
  | Ok lines => match read_pil base_ctable base_g None lines (rinit (init base_ctable 0)) with
                | (_, Ok _) => None
                | (_, Err k) => Some k
                end
  | Err k => Some k
  end.

Example ex_conflict : parsed_ok (doc ["length a = 5"; "length a = 6"]) = true /\
                      outcome_kind (doc ["length a = 5"; "length a = 6"]) = Some eSingleton.
Proof. vm_compute. split; reflexivity. Qed.
Example ex_nucleotide : parsed_ok (doc ["sequence q = ACGX"]) = true /\ outcome_kind (doc ["sequence q = ACGX"]) = Some ePilFormat.
Proof. vm_compute. split; reflexivity. Qed.
Example ex_no_strands : parsed_ok (doc ["X = +"]) = true /\ outcome_kind (doc ["X = +"]) = Some eObjectInit.
Proof. vm_compute. split; reflexivity. Qed.
Example ex_no_strands2 : parsed_ok (doc ["structure S = + : ."]) = true /\ outcome_kind (doc ["structure S = + : ."]) = Some ePilFormat.
Proof. vm_compute. split; reflexivity. Qed.

(* an ignored reaction decodes to SOther *)
Example ex_ignored :
  match parse_lines (doc ["reaction X -> Y"; "reaction [weird = 3 /s] X -> X"]) with
  | Ok [TList l1; TList l2] => decode l1 = Ok SOther /\ decode l2 = Ok SOther
  | _ => False
  end.
Proof. vm_compute. split; reflexivity. Qed.

(* ---- C15, reader clause, outside fresh sessions ----
   A session that already holds a strand built from a domain of a user subclass DomA(DomainS):
       a = DomA('a', 5); s = StrandS([a], 's'); set_io_objects(); read_pil('X = s*')
   The reader resolves s* through the complement of the composite domain, `~a` creates a* in
   the class of a, i.e. DomA: an object produced by the reader that is not an instance of
   exactly the configured class DomainS (it is an instance of a subclass, so the reader's own
   assert isinstance(sd, Domain) passes). *)
Definition zoo_ct : ctable := (base_ctable ++ [mkCinfo KindD (Some 0) 8 5 15 (str "d") None FNone])%list.
Definition zoo_state : state :=
  run zoo_ct (init zoo_ct 2)
      [ODomain 0 5 (Some (str "a")) (Some 5%Z) None None;
       OStrand 1 2 (Some [USlot 0]) (Some (str "s")) None].

Definition created_outside_slots : list (nat * nat * pstr) :=
  match parse_lines (doc ["X = s*"]) with
  | Ok lines =>
      match read_pil zoo_ct base_g None lines (rinit zoo_state) with
      | (r', Ok _) =>
          flat_map (fun i => match hget (heap (r_st r')) i with
                             | Some o => if existsb (Nat.eqb (o_cls o)) base_slots then [] else [(i, o_cls o, o_name o)]
                             | None => []
                             end)
                   (seq (List.length (heap zoo_state)) (List.length (heap (r_st r')) - List.length (heap zoo_state)))
      | _ => []
      end
  | _ => []
  end.

Theorem reader_classes_refuted : created_outside_slots = [(2, 5, str "a*")].
Proof. vm_compute. reflexivity. Qed.

(* ---- reader_builds_domains is not vacuous: a two-declaration document meets its hypotheses ---- *)
Definition ex_dom_doc : pstr := doc ["length a = 5"; "sequence b = ACGT : 4"].
Definition ex_dom_decls : list decl := [(str "a", 5%Z, None); (str "b", 4%Z, Some (str "ACGT"))].

Lemma dom_line_b lt d :
  (match lt with
   | TList line => match decode line with
                   | Ok s => stmt_okb s && match dom_stmt s, d with
                                           | Some (n, l, q), (n', l', q') =>
                                               str_eqb n n' && Z.eqb l l' && opt_eqb str_eqb q q'
                                           | None, _ => false
                                           end
                   | Err _ => false
                   end
   | TStr _ => false
   end) = true -> dom_line lt d.
Proof.
  destruct lt as [x|line]; [discriminate|]. destruct (decode line) as [s|k] eqn:E; [|discriminate].
  rewrite andb_true_iff. intros [H1 H2]. exists line, s. split; [reflexivity|]. split; [exact E|].
  split; [apply stmt_okb_ok; exact H1|].
  destruct (dom_stmt s) as [[[n l] q]|]; [|discriminate]. destruct d as [[n' l'] q'].
  rewrite !andb_true_iff in H2. destruct H2 as [[A B] C]. apply str_eqb_iff in A. apply Z.eqb_eq in B.
  assert (Eq : q = q').
  { destruct q, q'; cbn in C; try discriminate; [apply str_eqb_iff in C; congruence | reflexivity]. }
  subst. reflexivity.
Qed.

Example ex_dom_lines :
  match parse_lines ex_dom_doc with
  | Ok lines => Forall2 dom_line lines ex_dom_decls /\ NoDup (flat_map d_names ex_dom_decls)
  | Err _ => False
  end.
Proof.
  destruct (parse_lines ex_dom_doc) as [lines|k] eqn:E; vm_compute in E; [|discriminate].
  injection E as <-. split.
  - repeat constructor; apply dom_line_b; vm_compute; reflexivity.
  - repeat constructor; cbn; intros H; repeat (destruct H as [H|H]; [discriminate H|]); exact H.
Qed.
