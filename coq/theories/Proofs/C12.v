(* C12: the reader's translation of a parsed kernel pattern is the exact inverse
   of kernel_string, for every kernel tree. *)
From Coq Require Import List NArith Bool Arith Lia.
From DSD Require Import Base.Str Base.Errors Base.Val Model.ComplexUtils Model.Loops Model.Compare
  Model.Canon Model.Views Model.Kernel.
Import ListNotations.

Lemma last_opt_snoc {A} (l : list A) x : last_opt (l ++ [x]) = Some x.
Proof. unfold last_opt. rewrite rev_app_distr. reflexivity. Qed.
Lemma set_last_snoc {A} (l : list A) x v : set_last (l ++ [x]) v = l ++ [v].
Proof. unfold set_last. rewrite rev_app_distr. cbn. rewrite rev_involutive. reflexivity. Qed.

Lemma complement_toggle d : d <> [] -> complement_name d = Ok (toggle d).
Proof.
  intros H. unfold complement_name, toggle. destruct (rev d) as [|c r] eqn:E.
  - apply (f_equal (@rev _)) in E. rewrite rev_involutive in E. cbn in E. contradiction.
  - reflexivity.
Qed.

(* the nested loop of resolve_tok is resolve_list *)
Lemma resolve_inner l : forall a,
  (fix go (l : list ktok) (a : list pstr * list chr) : res (list pstr * list chr) :=
     match l with
     | [] => Ok a
     | t :: r => dor a1 <- resolve_tok t a; go r a1
     end) l a = resolve_list l a.
Proof. induction l as [|t r IH]; intros a; cbn; [reflexivity|]. destruct (resolve_tok t a); cbn; auto. Qed.

Lemma resolve_list_app l1 : forall l2 a,
  resolve_list (l1 ++ l2) a = dor a1 <- resolve_list l1 a; resolve_list l2 a1.
Proof.
  induction l1 as [|t r IH]; intros l2 a; cbn [app resolve_list rbind]; [reflexivity|].
  destruct (resolve_tok t a); cbn [rbind]; auto.
Qed.

Lemma name_ok_facts d : name_ok d = true -> str_eqb d sPlus = false /\ d <> [].
Proof.
  unfold name_ok. rewrite andb_true_iff, negb_true_iff. intros [H1 H2]. split; [exact H1|].
  destruct d; [discriminate|discriminate].
Qed.

Theorem resolve_to_tokens t : names_ok t = true -> forall acc,
  resolve_list (to_tokens t) acc
  = Ok (fst acc ++ fst (flatten t), snd acc ++ snd (flatten t)).
Proof.
  induction t as [|d r IH|r IH|d i IHi r IHr]; intros Hn acc; cbn [to_tokens flatten resolve_list fst snd].
  - rewrite !app_nil_r. destruct acc; reflexivity.
  - cbn [names_ok] in Hn. apply andb_true_iff in Hn. destruct Hn as [Hd Hr].
    destruct (name_ok_facts d Hd) as [Hp _]. cbn [resolve_tok]. rewrite Hp. cbn [rbind].
    rewrite (IH Hr). cbn [fst snd]. rewrite <- !app_assoc. reflexivity.
  - cbn [names_ok] in Hn. cbn [resolve_tok].
    rewrite (proj2 (str_eqb_iff sPlus sPlus) eq_refl). cbn [rbind].
    rewrite (IH Hn). cbn [fst snd]. rewrite <- !app_assoc. reflexivity.
  - cbn [names_ok] in Hn. rewrite !andb_true_iff in Hn. destruct Hn as [[Hd Hi] Hr].
    destruct (name_ok_facts d Hd) as [Hp Hne]. cbn [resolve_tok]. rewrite Hp. cbn [rbind fst snd].
    rewrite !last_opt_snoc, set_last_snoc. rewrite resolve_inner.
    rewrite (IHi Hi ([], [])). cbn [rbind fst snd app].
    rewrite (complement_toggle d Hne). cbn [rbind].
    rewrite (IHr Hr). cbn [fst snd]. f_equal. f_equal; rewrite <- !app_assoc; cbn [app]; reflexivity.
Qed.

Theorem resolve_inverts_tree t : names_ok t = true ->
  resolve_kernel_loops (to_tokens t) = Ok (flatten t).
Proof. intros H. unfold resolve_kernel_loops. rewrite (resolve_to_tokens t H). destruct (flatten t); reflexivity. Qed.

(* kernel_string writes exactly the token texts of the tree, separated by blanks *)
Lemma flatten_lengths t : length (fst (flatten t)) = length (snd (flatten t)).
Proof.
  induction t as [|d r IH|r IH|d i IHi r IHr]; cbn [flatten fst snd length]; auto.
  rewrite !app_length. cbn [length]. lia.
Qed.

Lemma kernel_tokens_app s1 t1 s2 t2 : length s1 = length t1 ->
  kernel_tokens (s1 ++ s2) (t1 ++ t2) = kernel_tokens s1 t1 ++ kernel_tokens s2 t2.
Proof.
  revert t1. induction s1 as [|x s1 IH]; intros [|y t1] H; try discriminate; cbn; [reflexivity|].
  f_equal. apply IH. cbn in H. lia.
Qed.

Lemma kernel_tokens_tree t : names_ok t = true ->
  kernel_tokens (fst (flatten t)) (snd (flatten t)) = tree_texts t.
Proof.
  induction t as [|d r IH|r IH|d i IHi r IHr]; intros Hn; cbn [flatten fst snd tree_texts kernel_tokens names_ok] in *.
  - reflexivity.
  - apply andb_true_iff in Hn. destruct Hn as [_ Hr]. rewrite (IH Hr). reflexivity.
  - rewrite (IH Hn). reflexivity.
  - rewrite !andb_true_iff in Hn. destruct Hn as [[_ Hi] Hr].
    f_equal. rewrite kernel_tokens_app by apply flatten_lengths.
    rewrite (IHi Hi). cbn [kernel_tokens]. rewrite (IHr Hr). reflexivity.
Qed.

Theorem kernel_string_of_tree t : names_ok t = true ->
  kernel_string (fst (flatten t)) (snd (flatten t)) = Ok (join_names [32%N] (tree_texts t)).
Proof.
  intros Hn. unfold kernel_string. rewrite flatten_lengths, Nat.ltb_irrefl.
  rewrite (kernel_tokens_tree t Hn). reflexivity.
Qed.

(* non-vacuity: a( b + ) c* *)
Example ex_tree :
  let t := KP [97%N] (KD [98%N] (KB KNil)) (KD [99%N; 42%N] KNil) in
  names_ok t = true /\
  flatten t = ([[97%N]; [98%N]; sPlus; [97%N; 42%N]; [99%N; 42%N]], [cO; cD; cP; cC; cD]) /\
  resolve_kernel_loops (to_tokens t) = Ok (flatten t).
Proof. cbn zeta. repeat split; vm_compute; reflexivity. Qed.
