(* The rotation generators with an explicit turn count (any Python int).

   rotate_complex_pt(stab, ptab, turns=t) yields max(t, 0) elements.  At
   recursion level c = t, t-1, ..., 1 the tables are rotated unless c = n
   (n = len(ptab)) -- the test `turns != len(ptab)` that makes turns=None start
   with the current rotation is applied at EVERY level.  The k-th element
   (k = 0, 1, ...) therefore carries `rcount t n k` forced steps:
       t <  n :  k + 1                      (starts with the once-rotated tables)
       t >= n :  k + 1 for k < t - n,  k for k >= t - n
                                            (elements t-n-1 and t-n are equal)
   In particular t = n gives k steps (the turns=None enumeration), and the naive
   reading "the k-th element is the k-fold rotation" is refuted for t <> n
   (ex_pt_turns_not_kfold).  Everything is periodic in the step count with
   period n.  ComplexS.rotate(turns=t) / rotate_pt(turns=t) yield max(t, 1)
   elements, the k-th being the k-fold rotate_complex_once. *)
From Coq Require Import List Arith ZArith Lia Bool NArith.
From DSD Require Import Base.Str Base.Errors Model.ComplexUtils Model.Rotation Model.Canon Dyck.Dyck
  Proofs.Mpt Proofs.Acc Proofs.Db Proofs.Assoc Proofs.C06 Proofs.RotLoc Proofs.RotScan
  Proofs.RotTree Proofs.RotPairs Proofs.RotOnce Proofs.RotOrbit Proofs.RotStrands Proofs.RotGen.
Import ListNotations.

(* number of forced steps carried by the k-th element for turn count t, n strands *)
Definition rcount (t n k : nat) : nat :=
  if (n <=? t) && (t - n <=? k) then k else S k.

(* the strand index shift back to ComplexS.rotate's direction: j steps of
   rotate_complex_pt = (n - j mod n) mod n applications of rotate_complex_once *)
Definition inv (n j : nat) : nat := (n - j mod n) mod n.

(* ---- the pure list statement (any tables) ---- *)
Lemma iter_add {A} (f : A -> A) a b x : Nat.iter (a + b) f x = Nat.iter a f (Nat.iter b f x).
Proof. induction a as [|a IH]; [reflexivity|]. cbn [Nat.add]. rewrite !iter_S, IH. reflexivity. Qed.

Lemma stepP_length sp : length (snd (stepP sp)) = length (snd sp).
Proof. unfold stepP. apply rotate_pt_step_length. Qed.

Theorem rotate_complex_pt_turns_many t : forall (st : list (list pstr)) pt, 1 < length pt ->
  rotate_complex_pt t st pt
  = map (fun k => Nat.iter (rcount t (length pt) k) stepP (st, pt)) (seq 0 t).
Proof.
  induction t as [|t IH]; intros st pt H; [reflexivity|].
  cbn [rotate_complex_pt]. rewrite (proj2 (Nat.ltb_lt 1 (length pt)) H). cbn [andb].
  rewrite seq_S. cbn [map].
  destruct (Nat.eqb_spec (S t) (length pt)) as [E|E]; cbn [negb].
  - (* this level is not rotated *)
    rewrite IH by exact H. f_equal.
    + unfold rcount. rewrite <- E, Nat.leb_refl, Nat.sub_diag. reflexivity.
    + rewrite <- (seq_shift t 0), map_map. apply map_ext_in. intros k Hk. apply in_seq in Hk.
      unfold rcount. rewrite <- E.
      replace (S t <=? t) with false by (symmetry; apply Nat.leb_gt; lia).
      rewrite Nat.leb_refl, Nat.sub_diag. cbn [andb Nat.leb]. reflexivity.
  - destruct (rotate_pt_step st pt) as [s1 p1] eqn:E1.
    assert (L : length p1 = length pt).
    { pose proof (rotate_pt_step_length st pt) as L. rewrite E1 in L. exact L. }
    assert (S1 : stepP (st, pt) = (s1, p1)) by (unfold stepP; cbn [fst snd]; exact E1).
    rewrite IH by lia. rewrite L. f_equal.
    + unfold rcount. destruct (length pt <=? S t) eqn:C; cbn [andb].
      * apply Nat.leb_le in C. replace (S t - length pt <=? 0) with false by (symmetry; apply Nat.leb_gt; lia).
        cbn. symmetry. exact S1.
      * cbn. symmetry. exact S1.
    + rewrite <- (seq_shift t 0), map_map. apply map_ext_in. intros k Hk. apply in_seq in Hk.
      assert (R : rcount (S t) (length pt) (S k) = S (rcount t (length pt) k)).
      { unfold rcount. destruct (Nat.leb_spec (length pt) (S t)) as [C|C]; cbn [andb].
        - assert (C' : length pt <= t) by lia.
          rewrite (proj2 (Nat.leb_le _ _) C'). cbn [andb].
          replace (S t - length pt) with (S (t - length pt)) by lia. cbn [Nat.leb].
          destruct (t - length pt <=? k); reflexivity.
        - replace (length pt <=? t) with false by (symmetry; apply Nat.leb_gt; lia). reflexivity. }
      rewrite R, iter_succ_r. f_equal. symmetry. exact S1.
Qed.

Theorem rotate_complex_pt_turns_single t : forall (st : list (list pstr)) pt, length pt <= 1 ->
  rotate_complex_pt t st pt = map (fun _ => (st, pt)) (seq 0 t).
Proof.
  induction t as [|t IH]; intros st pt H; [reflexivity|].
  cbn [rotate_complex_pt]. replace (1 <? length pt) with false by (symmetry; apply Nat.ltb_ge; lia).
  cbn [andb]. rewrite IH by exact H. rewrite seq_S. cbn [map]. f_equal.
  rewrite <- (seq_shift t 0), map_map. reflexivity.
Qed.

Lemma rotate_complex_pt_turns_length t : forall (st : list (list pstr)) pt,
  length (rotate_complex_pt t st pt) = t.
Proof.
  intros st pt. destruct (Nat.le_gt_cases (length pt) 1) as [H|H].
  - rewrite rotate_complex_pt_turns_single by exact H. rewrite map_length, seq_length. reflexivity.
  - rewrite rotate_complex_pt_turns_many by exact H. rewrite map_length, seq_length. reflexivity.
Qed.

(* ---- on complexes ---- *)
Lemma inv_period n j : inv n (j + n) = inv n j.
Proof.
  unfold inv. destruct n as [|n]; [reflexivity|].
  replace (j + S n) with (j + 1 * S n) by lia. rewrite Nat.mod_add by lia. reflexivity.
Qed.

Lemma iter_rotT_period x k : good x -> Nat.iter (k + nstr (snd x)) rotT x = Nat.iter k rotT x.
Proof. intros G. rewrite iter_add, rotT_orbit by exact G. reflexivity. Qed.

Lemma iter_rotT_mod x k : good x -> Nat.iter k rotT x = Nat.iter (k mod nstr (snd x)) rotT x.
Proof.
  intros G. pose proof (rot_iter_mod k x G) as M. rewrite !rot_iter_rotT in M by exact G.
  injection M as M. exact M.
Qed.

Lemma stepP_full x : goodNE x -> Nat.iter (nstr (snd x)) stepP (tabs x) = tabs x.
Proof. intros GN. rewrite iter_stepP_tabs by (exact GN || lia). rewrite Nat.sub_diag. reflexivity. Qed.

Lemma stepP_multiple x q : goodNE x -> Nat.iter (nstr (snd x) * q) stepP (tabs x) = tabs x.
Proof.
  intros GN. induction q as [|q IH]; [rewrite Nat.mul_0_r; reflexivity|].
  replace (nstr (snd x) * S q) with (nstr (snd x) + nstr (snd x) * q) by lia.
  rewrite iter_add, IH. apply stepP_full, GN.
Qed.

(* j forced steps of the pt family = inv n j applications of rotate_complex_once *)
Theorem iter_stepP_any x j : goodNE x ->
  Nat.iter j stepP (tabs x) = tabs (Nat.iter (inv (nstr (snd x)) j) rotT x).
Proof.
  intros GN. pose proof GN as [G _]. set (n := nstr (snd x)).
  assert (Hn : n <> 0) by (unfold n, nstr; lia).
  replace (Nat.iter j stepP (tabs x)) with (Nat.iter (j mod n + n * (j / n)) stepP (tabs x))
    by (f_equal; symmetry; rewrite Nat.add_comm; apply Nat.div_mod; exact Hn).
  rewrite iter_add. unfold n at 2. rewrite stepP_multiple by exact GN.
  assert (Hm : j mod n <= n) by (pose proof (Nat.mod_upper_bound j n Hn); lia).
  unfold n at 1. rewrite iter_stepP_tabs by (exact GN || exact Hm). fold n.
  unfold inv. fold n. symmetry. f_equal. symmetry. apply iter_rotT_mod, G.
Qed.

Lemma tabs_length x : good x -> length (snd (tabs x)) = nstr (snd x).
Proof. intros [_ Hw]. cbn [tabs snd]. apply tabT_length, Hw. Qed.

(* (1) rotate_complex_pt with an explicit count *)
Theorem rotate_complex_pt_turns_spec x (t : nat) : goodNE x ->
  let n := nstr (snd x) in
  rotate_complex_pt t (fst (tabs x)) (snd (tabs x))
  = map (fun k => tabs (Nat.iter (inv n (rcount t n k)) rotT x)) (seq 0 t).
Proof.
  intros GN n. pose proof GN as [G _]. pose proof (tabs_length x G) as L. fold n in L.
  destruct (Nat.le_gt_cases n 1) as [H|H].
  - rewrite rotate_complex_pt_turns_single by (rewrite L; exact H).
    apply map_ext. intros k.
    assert (n = 1) by (unfold n, nstr in *; lia).
    assert (I0 : inv n (rcount t n k) = 0) by (unfold inv; rewrite H0; apply Nat.mod_1_r).
    rewrite I0. change (Nat.iter 0 rotT x) with x. symmetry. apply surjective_pairing.
  - rewrite rotate_complex_pt_turns_many by (rewrite L; exact H). rewrite L.
    apply map_ext. intros k.
    match goal with |- Nat.iter ?j stepP ?p = _ =>
      assert (EP : p = tabs x) by (destruct (tabs x); reflexivity); rewrite EP; clear EP end.
    apply iter_stepP_any, GN.
Qed.

Theorem rotate_complex_pt_turns_Z x (turns : option Z) : goodNE x ->
  let n := nstr (snd x) in
  let t := match turns with None => n | Some z => Z.to_nat z end in
  rotate_complex_pt_turns turns (fst (tabs x)) (snd (tabs x))
  = map (fun k => tabs (Nat.iter (inv n (rcount t n k)) rotT x)) (seq 0 t).
Proof.
  intros GN n t. unfold rotate_complex_pt_turns. pose proof GN as [G _].
  rewrite (tabs_length x G). fold n. apply (rotate_complex_pt_turns_spec x t GN).
Qed.

(* the regimes of rcount *)
Lemma rcount_below t n k : t < n -> rcount t n k = S k.
Proof. intros H. unfold rcount. replace (n <=? t) with false by (symmetry; apply Nat.leb_gt; lia). reflexivity. Qed.
Lemma rcount_exact n k : rcount n n k = k.
Proof. unfold rcount. rewrite Nat.leb_refl, Nat.sub_diag. reflexivity. Qed.
Lemma rcount_above_early t n k : n <= t -> k < t - n -> rcount t n k = S k.
Proof.
  intros H1 H2. unfold rcount. rewrite (proj2 (Nat.leb_le _ _) H1).
  replace (t - n <=? k) with false by (symmetry; apply Nat.leb_gt; lia). reflexivity.
Qed.
Lemma rcount_above_late t n k : n <= t -> t - n <= k -> rcount t n k = k.
Proof. intros H1 H2. unfold rcount. rewrite (proj2 (Nat.leb_le _ _) H1), (proj2 (Nat.leb_le _ _) H2). reflexivity. Qed.

Lemma inv_back n k : k < n -> inv n k = back n k.
Proof. intros H. unfold inv, back. rewrite (Nat.mod_small k n H). reflexivity. Qed.

(* (3) the explicit count n is the turns=None enumeration *)
Theorem rotate_complex_pt_turns_n x : goodNE x ->
  rotate_complex_pt_turns (Some (Z.of_nat (nstr (snd x)))) (fst (tabs x)) (snd (tabs x))
  = rotate_complex_pt_turns None (fst (tabs x)) (snd (tabs x)).
Proof.
  intros GN. unfold rotate_complex_pt_turns. rewrite Nat2Z.id.
  rewrite (tabs_length x (proj1 GN)). reflexivity.
Qed.

(* ---- rotate_complex_db with an explicit count ---- *)
Lemma rotate_complex_db_turns_None sq sst : rotate_complex_db_turns sq sst None = rotate_complex_db sq sst.
Proof.
  unfold rotate_complex_db_turns, rotate_complex_db, rotate_complex_pt_turns.
  destruct (make_pair_table cP [cD] sst) as [pt|k]; cbn [rbind]; [|reflexivity].
  destruct (negb _); [reflexivity|].
  generalize (rotate_complex_pt (length pt) (make_strand_table_list sPlus sq) pt). intros l.
  induction l as [|[st p] r IH]; [reflexivity|]. cbn [db_convert]. rewrite IH. reflexivity.
Qed.

Lemma db_convert_tabs ys : Forall goodNE ys -> db_convert (map tabs ys) = Ok ys.
Proof.
  induction 1 as [|y ys Gy _ IH]; [reflexivity|]. cbn [map].
  destruct (tabs y) as [st pt] eqn:Et. cbn [db_convert].
  assert (E1 : strand_table_to_sequence sPlus st = Ok (fst y)).
  { pose proof (stts_tabs y Gy) as H. rewrite Et in H. exact H. }
  assert (E2 : pair_table_to_dot_bracket cP pt = snd y).
  { pose proof (ptdb_tabT y Gy) as H. unfold tabs in Et. injection Et as _ <-. exact H. }
  rewrite E1. cbn [rbind]. rewrite IH. cbn [rbind]. rewrite E2. destruct y; reflexivity.
Qed.

Theorem rotate_complex_db_turns_spec sq sst (turns : option Z) : goodNE (sq, sst) ->
  let n := nstr sst in
  let t := match turns with None => n | Some z => Z.to_nat z end in
  rotate_complex_db_turns sq sst turns
  = Ok (map (fun k => Nat.iter (inv n (rcount t n k)) rotT (sq, sst)) (seq 0 t)).
Proof.
  intros GN n t. pose proof GN as [[Ha Hw] N]. cbn [fst snd] in Ha, Hw, N.
  unfold rotate_complex_db_turns. rewrite (tabT_ok _ Hw). cbn [rbind].
  assert (Sh : forallb (fun xy => Nat.eqb (length (fst xy)) (length (snd xy)))
                 (combine (make_strand_table_list sPlus sq) (tabT sst)) = true).
  { apply forallb_lengths. rewrite mst_splitS by exact N.
    destruct (wf_rc sst Hw) as [d ->]. rewrite tabT_rc. apply tab_shape, Ha. }
  rewrite Sh. cbn [negb].
  pose proof (rotate_complex_pt_turns_Z (sq, sst) turns GN) as R. cbn zeta in R. cbn [tabs fst snd] in R.
  fold n in R. fold t in R. rewrite R. rewrite <- map_map. apply db_convert_tabs.
  apply Forall_forall. intros y Hy. apply in_map_iff in Hy. destruct Hy as (k & <- & _).
  apply iter_rotT_goodNE, GN.
Qed.

Theorem rotate_complex_db_turns_n sq sst : goodNE (sq, sst) ->
  rotate_complex_db_turns sq sst (Some (Z.of_nat (nstr sst))) = rotate_complex_db sq sst.
Proof.
  intros GN. rewrite <- rotate_complex_db_turns_None.
  rewrite !rotate_complex_db_turns_spec by exact GN. cbn zeta. rewrite Nat2Z.id. reflexivity.
Qed.

(* ---- (2) ComplexS.rotate(turns) / rotate_pt(turns) ---- *)
Definition obj_count (t : Z) : nat := S (Z.to_nat (t - 1)).    (* max(t, 1) *)

Theorem obj_rotate_turns_spec sq sst (t : Z) : goodNE (sq, sst) ->
  obj_rotate sq sst (Some t) = Ok (map (fun k => Nat.iter k rotT (sq, sst)) (seq 0 (obj_count t))).
Proof.
  intros [G _]. unfold obj_rotate, turns_of, obj_count. rewrite rot_chain_spec by exact G.
  cbn [rbind]. rewrite seq_S. reflexivity.
Qed.

Theorem obj_rotate_pt_turns_spec sq sst (t : Z) : goodNE (sq, sst) ->
  obj_rotate_pt sq sst (Some t)
  = Ok (map (fun k => tabs (Nat.iter k rotT (sq, sst))) (seq 0 (obj_count t))).
Proof. intros [G _]. unfold obj_rotate_pt, turns_of, obj_count. apply rot_pt_chain_spec, G. Qed.

Theorem obj_rotate_turns_n sq sst : goodNE (sq, sst) ->
  obj_rotate sq sst (Some (Z.of_nat (nstr sst))) = obj_rotate sq sst None /\
  obj_rotate_pt sq sst (Some (Z.of_nat (nstr sst))) = obj_rotate_pt sq sst None.
Proof.
  intros GN. pose proof (size_nstr (sq, sst) GN) as SZ. cbn [fst snd] in SZ.
  unfold obj_rotate, obj_rotate_pt, turns_of. rewrite SZ. split; reflexivity.
Qed.

(* periodicity of the object family: the k-th element only depends on k mod n *)
Theorem obj_rotate_periodic x k : good x ->
  Nat.iter (k + nstr (snd x)) rotT x = Nat.iter k rotT x /\
  Nat.iter k rotT x = Nat.iter (k mod nstr (snd x)) rotT x.
Proof. intros G. split; [apply iter_rotT_period, G|apply iter_rotT_mod, G]. Qed.

(* the C02/C03 object record of Model/Canon.v computes the same generator *)
Lemma rot_list_chain k : forall x, rot_list k x = rot_chain k x.
Proof.
  induction k as [|k IH]; intros x; [reflexivity|]. cbn [rot_list rot_chain]. unfold rot1.
  destruct (rotate_complex_once (fst x) (snd x)) as [y|e]; cbn [rbind]; [|reflexivity].
  rewrite IH. reflexivity.
Qed.

Theorem cobj_rotate_spec o (t : nat) : goodNE (o_seq o, o_struct o) ->
  cobj_rotate o t = Ok (map (fun k => Nat.iter k rotT (o_seq o, o_struct o)) (seq 0 (S (t - 1)))).
Proof.
  intros [G _]. unfold cobj_rotate. rewrite rot_list_chain, rot_chain_spec by exact G.
  cbn [rbind]. rewrite seq_S. reflexivity.
Qed.

(* ---- non-vacuity and the refutation of the naive reading ---- *)
Definition ex_x : cplx :=
  ([[97%N]; [98%N]; sPlus; [99%N]; [100%N]; [101%N]; [102%N]; sPlus; [103%N]; [104%N]],
   [cO; cO; cP; cO; cC; cC; cD; cP; cC; cD]).                       (* "((+()).+)." , n = 3 *)

Lemma ex_x_goodNE : goodNE ex_x.
Proof. split; [split; reflexivity|]. unfold NE. cbn. repeat constructor; discriminate. Qed.

(* turns = 1 on three strands: one element, and it is NOT the current rotation (k = 0
   would be the 0-fold rotation) but the once-rotated tables *)
Example ex_pt_turns_not_kfold :
  goodNE ex_x /\ nstr (snd ex_x) = 3 /\
  rotate_complex_pt 1 (fst (tabs ex_x)) (snd (tabs ex_x)) = [stepP (tabs ex_x)] /\
  stepP (tabs ex_x) <> tabs ex_x /\
  stepP (tabs ex_x) = tabs (Nat.iter 2 rotT ex_x).
Proof.
  split; [exact ex_x_goodNE|]. split; [reflexivity|]. split; [reflexivity|].
  split; [vm_compute; discriminate|vm_compute; reflexivity].
Qed.

(* turns = n + 2 = 5: five elements with 1, 2, 2, 3, 4 forced steps -- the
   elements at k = 1 and k = 2 coincide (the level turns = n is not rotated) *)
Example ex_pt_turns_duplicate :
  map (rcount 5 3) (seq 0 5) = [1; 2; 2; 3; 4] /\
  (exists l, rotate_complex_pt 5 (fst (tabs ex_x)) (snd (tabs ex_x)) = l /\ length l = 5 /\
             nth_error l 1 = nth_error l 2 /\ nth_error l 0 <> nth_error l 1 /\
             nth_error l 4 = nth_error l 0) /\
  (exists l, rotate_complex_db_turns (fst ex_x) (snd ex_x) (Some 5%Z) = Ok l /\ length l = 5 /\
             nth_error l 1 = nth_error l 2 /\ nth_error l 3 = Some ex_x).
Proof.
  split; [reflexivity|]. split.
  - eexists. split; [reflexivity|]. split; [reflexivity|]. split; [reflexivity|].
    split; [vm_compute; discriminate|vm_compute; reflexivity].
  - eexists. split; [vm_compute; reflexivity|]. repeat split.
Qed.

(* turns <= 0: the utility generators yield nothing, ComplexS.rotate still yields
   the current representation *)
Example ex_turns_nonpositive :
  rotate_complex_db_turns (fst ex_x) (snd ex_x) (Some (-2)%Z) = Ok [] /\
  rotate_complex_db_turns (fst ex_x) (snd ex_x) (Some 0%Z) = Ok [] /\
  rotate_complex_pt_turns (Some (-1)%Z) (fst (tabs ex_x)) (snd (tabs ex_x)) = [] /\
  obj_rotate (fst ex_x) (snd ex_x) (Some 0%Z) = Ok [ex_x] /\
  obj_rotate (fst ex_x) (snd ex_x) (Some (-3)%Z) = Ok [ex_x] /\
  obj_count 0 = 1 /\ obj_count (-3) = 1 /\ obj_count 4 = 4.
Proof. repeat split. Qed.

(* explicit count 4 > n = 3 on the object: four elements, the last equals the first *)
Example ex_obj_turns :
  exists l, obj_rotate (fst ex_x) (snd ex_x) (Some 4%Z) = Ok l /\ length l = 4 /\
            nth_error l 0 = Some ex_x /\ nth_error l 3 = Some ex_x /\ nth_error l 1 <> Some ex_x.
Proof. eexists. split; [vm_compute; reflexivity|]. repeat split. discriminate. Qed.
