(* PEG interpreter: more fuel never changes a result other than PFuel.
   Consequence: "evaluates to r with sufficient fuel" is a functional relation
   (the result is a function of the table, the text and the position only). *)
From Coq Require Import List NArith Bool Arith Lia.
From DSD Require Import Base.Str Model.Peg.
Import ListNotations.

Definition le_res (a b : pres) : Prop := a = PFuel \/ a = b.
Definition le_opt {A} (a b : option A) : Prop := a = None \/ a = b.
Definition le_P (P Q : nat -> bool -> pos -> pres) : Prop := forall i cp p, le_res (P i cp p) (Q i cp p).

Lemma le_res_refl a : le_res a a. Proof. right; reflexivity. Qed.
Lemma le_opt_refl {A} (a : option A) : le_opt a a. Proof. right; reflexivity. Qed.
Lemma le_res_fuel b : le_res PFuel b. Proof. left; reflexivity. Qed.
Lemma le_opt_none {A} (b : option A) : le_opt None b. Proof. left; reflexivity. Qed.
#[export] Hint Resolve le_res_refl le_opt_refl le_res_fuel le_opt_none : peg.

Section Mono.
  Variables P Q : nat -> bool -> pos -> pres.
  Hypothesis HPQ : le_P P Q.

  Ltac useP i cp p :=
    let E := fresh "E" in
    destruct (HPQ i cp p) as [E|E]; rewrite E; [auto with peg|].

  Lemma ign_inner_mono n : forall m ig p fd, n <= m ->
    le_opt (ign_inner P n ig p fd) (ign_inner Q m ig p fd).
  Proof.
    induction n as [|n IH]; intros m ig p fd Hm; cbn [ign_inner]; [auto with peg|].
    destruct m as [|m]; [lia|]. cbn [ign_inner].
    useP ig true p. destruct (Q ig true p); auto with peg. apply IH. lia.
  Qed.

  Lemma ign_pass_mono n m igs : n <= m -> forall p fd,
    le_opt (ign_pass P n igs p fd) (ign_pass Q m igs p fd).
  Proof.
    intros Hm. induction igs as [|ig r IH]; intros p fd; cbn [ign_pass]; [auto with peg|].
    destruct (ign_inner_mono n m ig p fd Hm) as [E|E]; rewrite E; [auto with peg|].
    destruct (ign_inner Q m ig p fd) as [[p' fd']|]; auto with peg.
  Qed.

  Lemma ign_outer_mono n : forall m igs p, n <= m ->
    le_opt (ign_outer P n igs p) (ign_outer Q m igs p).
  Proof.
    induction n as [|n IH]; intros m igs p Hm; cbn [ign_outer]; [auto with peg|].
    destruct m as [|m]; [lia|]. cbn [ign_outer].
    destruct (ign_pass_mono n m igs ltac:(lia) p false) as [E|E]; rewrite E; [auto with peg|].
    destruct (ign_pass Q m igs p false) as [[p' fd']|]; auto with peg.
    destruct (loc_eqb p' p); auto with peg. destruct fd'; auto with peg. apply IH. lia.
  Qed.

  Lemma skip_ign_mono n m igs p : n <= m -> le_opt (skip_ign P n igs p) (skip_ign Q m igs p).
  Proof. intros Hm. destruct igs; cbn [skip_ign]; auto with peg. apply ign_outer_mono. exact Hm. Qed.

  Lemma pre_parse_mono n m nd p : n <= m -> le_opt (pre_parse P n nd p) (pre_parse Q m nd p).
  Proof.
    intros Hm. unfold pre_parse.
    destruct (skip_ign_mono n m (nign nd) p Hm) as [E|E]; rewrite E; auto with peg.
  Qed.

  Lemma seq_rest_mono ks : forall p acc, le_res (seq_rest P ks p acc) (seq_rest Q ks p acc).
  Proof.
    induction ks as [|k r IH]; intros p acc; cbn [seq_rest]; [auto with peg|].
    useP k true p. destruct (Q k true p); auto with peg.
  Qed.

  Lemma first_of_mono ks p : le_res (first_of P ks p) (first_of Q ks p).
  Proof.
    induction ks as [|k r IH]; cbn [first_of]; [auto with peg|].
    useP k true p. destruct (Q k true p); auto with peg.
  Qed.

  Lemma many_loop_mono n : forall m igs k p acc, n <= m ->
    le_res (many_loop P n igs k p acc) (many_loop Q m igs k p acc).
  Proof.
    induction n as [|n IH]; intros m igs k p acc Hm; cbn [many_loop]; [auto with peg|].
    destruct m as [|m]; [lia|]. cbn [many_loop].
    destruct (skip_ign_mono n m igs p ltac:(lia)) as [E|E]; rewrite E; [auto with peg|].
    destruct (skip_ign Q m igs p) as [p1|]; [|auto with peg].
    useP k true p1. destruct (Q k true p1); auto with peg. apply IH. lia.
  Qed.

  Lemma impl_mono full n m nd p : n <= m -> le_res (impl P full n nd p) (impl Q full m nd p).
  Proof.
    intros Hm. unfold impl. destruct (nkind nd); auto with peg.
    - destruct (nkids nd) as [|k0 ks]; auto with peg.
      useP k0 false p. destruct (Q k0 false p); auto with peg. apply seq_rest_mono.
    - apply first_of_mono.
    - destruct (nkids nd) as [|k ks]; auto with peg.
      useP k false p. destruct (Q k false p); auto with peg.
    - destruct (nkids nd) as [|k ks]; auto with peg.
      useP k true p. destruct (Q k true p); auto with peg. apply many_loop_mono. exact Hm.
    - destruct (nkids nd) as [|k ks]; auto with peg.
    - destruct (nkids nd) as [|k ks]; auto with peg.
    - destruct (nkids nd) as [|k ks]; auto with peg.
    - destruct (nkids nd) as [|k ks]; auto with peg.
    - destruct (loc_eqb p (At full)); auto with peg.
      destruct (pre_parse_mono n m nd (At full) Hm) as [E|E]; rewrite E; auto with peg.
  Qed.
End Mono.

Lemma parse_S g full f i cp p :
  parse g full (S f) i cp p =
  match nth_error g i with
  | None => PFail
  | Some nd =>
      match (if cp && ncallpre nd then pre_parse (parse g full f) f nd p else Some p) with
      | None => PFuel
      | Some p1 =>
          match impl (parse g full f) full f nd p1 with
          | POk p2 toks => POk p2 (add_tags (ntags nd) (post (nkind nd) toks))
          | r => r
          end
      end
  end.
Proof. reflexivity. Qed.

Lemma parse_mono_step g full f : le_P (parse g full f) (parse g full (S f)).
Proof.
  induction f as [|f IH]; intros i cp p; [left; reflexivity|].
  rewrite (parse_S g full f i cp p), (parse_S g full (S f) i cp p). destruct (nth_error g i) as [nd|]; [|auto with peg].
  destruct (cp && ncallpre nd).
  - destruct (pre_parse_mono _ _ IH f (S f) nd p ltac:(lia)) as [E|E]; rewrite E; [auto with peg|].
    destruct (pre_parse (parse g full (S f)) (S f) nd p) as [p1|]; [|auto with peg].
    destruct (impl_mono _ _ IH full f (S f) nd p1 ltac:(lia)) as [E'|E']; rewrite E'; cbv beta iota; auto with peg.
  - destruct (impl_mono _ _ IH full f (S f) nd p ltac:(lia)) as [E'|E']; rewrite E'; cbv beta iota; auto with peg.
Qed.

Lemma parse_mono g full f f' : f <= f' -> le_P (parse g full f) (parse g full f').
Proof.
  induction 1 as [|f' _ IH]; intros i cp p; [auto with peg|].
  destruct (IH i cp p) as [E|E]; [left; exact E|]. rewrite E. apply parse_mono_step.
Qed.

(* the form used everywhere: a definite result survives any amount of extra fuel *)
Lemma parse_more_fuel g full f f' i cp p r :
  parse g full f i cp p = r -> r <> PFuel -> f <= f' -> parse g full f' i cp p = r.
Proof.
  intros H Hr Hf. destruct (parse_mono g full f f' Hf i cp p) as [E|E]; congruence.
Qed.

(* ---- "evaluates to r": for all sufficiently large fuel ---- *)
Definition evals g full i cp p r : Prop :=
  exists f0, forall f, f0 <= f -> parse g full f i cp p = r.

Lemma evals_of_run g full f i cp p r :
  parse g full f i cp p = r -> r <> PFuel -> evals g full i cp p r.
Proof. intros H Hr. exists f. intros f' Hf. eapply parse_more_fuel; eauto. Qed.

Lemma evals_functional g full i cp p r r' :
  evals g full i cp p r -> evals g full i cp p r' -> r = r'.
Proof.
  intros [a Ha] [b Hb]. rewrite <- (Ha (Nat.max a b)), <- (Hb (Nat.max a b)); [reflexivity|lia|lia].
Qed.

Lemma evals_not_fuel_agrees g full i cp p r f :
  evals g full i cp p r -> parse g full f i cp p = PFuel \/ parse g full f i cp p = r.
Proof.
  intros [a Ha]. destruct (parse_mono g full f (Nat.max a f) ltac:(lia) i cp p) as [E|E]; [left; exact E|].
  right. rewrite E. apply Ha. lia.
Qed.
