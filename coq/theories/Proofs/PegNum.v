(* Numbers of both grammars:  gorf = num_sci | num_flt,
     num_flt = Combine(DIGITS [. DIGITS]),  num_sci = Combine(DIGITS [. DIGITS] e [+|-] DIGITS)
   as derived rules, generic in the table (node indices are parameters). *)
From Coq Require Import List NArith Bool Arith Lia.
From DSD Require Import Base.Str Model.Peg Proofs.PegMono Proofs.PegRules Proofs.PegStd Proofs.PegDoc Proofs.PegKw.
Import ListNotations.

Record gnum := mkGnum {
  g_i0 : chr; g_is : pstr;                      (* integer part, non-empty *)
  g_frac : option (chr * pstr);                 (* . DIGITS *)
  g_exp : option (option chr * chr * pstr) }.   (* e [+|-] DIGITS *)
Definition frac_text (f : option (chr * pstr)) : pstr :=
  match f with Some (f0, fs) => 46%N :: f0 :: fs | None => [] end.
Definition sign_text (s : option chr) : pstr := match s with Some c => [c] | None => [] end.
Definition exp_text (e : option (option chr * chr * pstr)) : pstr :=
  match e with Some (sg, e0, es) => 101%N :: sign_text sg ++ e0 :: es | None => [] end.
Definition gnum_text (n : gnum) : pstr := g_i0 n :: g_is n ++ frac_text (g_frac n) ++ exp_text (g_exp n).
Definition gnum_ok (digit : list chr) (n : gnum) : Prop :=
  memc (g_i0 n) digit = true /\ all_in digit (g_is n) /\
  match g_frac n with Some (f0, fs) => memc f0 digit = true /\ all_in digit fs | None => True end /\
  match g_exp n with
  | Some (sg, e0, es) => memc e0 digit = true /\ all_in digit es /\
                         match sg with Some s => s = 43%N \/ s = 45%N | None => True end
  | None => True
  end.
(* what follows a number: no digit, no '.', no 'e' *)
Definition num_follow (digit : list chr) (r : pstr) : Prop := nohead (46%N :: 101%N :: digit) r.
Lemma num_follow_elim digit r : num_follow digit r -> nohead digit r /\ nohead [46%N] r /\ nohead [101%N] r.
Proof.
  unfold num_follow. destruct r as [|d r]; [repeat split|]. cbn.
  intros H. apply orb_false_iff in H as [H1 H]. apply orb_false_iff in H as [H2 H3]. rewrite H1, H2. repeat split; assumption.
Qed.

Lemma starts_with_nohead1 d s r : nohead [d] r -> starts_with (d :: s) r = None.
Proof.
  destruct r as [|e r]; [reflexivity|]. cbn. intros H. rewrite N.eqb_sym.
  destruct (N.eqb e d); [discriminate|reflexivity].
Qed.
Lemma memc_neq cs d e : memc d cs = true -> memc e cs = false -> N.eqb d e = false.
Proof. intros H1 H2. destruct (N.eqb_spec d e) as [->|]; [congruence|reflexivity]. Qed.

Section Num.
  Variable g : list node.
  Variable full : pstr.
  Variable c : nat.
  Variable WS : list chr.
  Hypothesis Hc : comment_ok g c WS = true.
  Variable digit : list chr.
  Hypothesis Hd_dot : memc 46%N digit = false.
  Hypothesis Hd_e : memc 101%N digit = false.
  Hypothesis Hd_minus : memc 45%N digit = false.
  Hypothesis Hd_plus : memc 43%N digit = false.
  Notation evals := (evals g full).
  Ltac nt := repeat (rewrite <- app_assoc || rewrite <- app_comm_cons).
  Ltac nt_in H := repeat (rewrite <- app_assoc in H || rewrite <- app_comm_cons in H).
  Ltac rwa E := let H := fresh "Ea" in pose proof E as H; unfold chr, pstr in *; rewrite H; clear H.

  Definition plainW (i : nat) : Prop := nth_error g i = Some (mkNode (KWord digit digit 1 0) [] false WS [] true []).
  Definition plainL (i : nat) (s : pstr) : Prop := nth_error g i = Some (mkNode (KLit s) [] false WS [] true []).

  Lemma ev_plain_lit i d x : plainL i [d] -> evals i true (At (d :: x)) (POk (At x) [TStr [d]]).
  Proof.
    intros Hl. eapply evals_eq; [apply (evals_lit_plain g full c WS Hc i true true [d] _ Hl)|].
    unfold lit_res. cbn [starts_with]. rewrite N.eqb_refl. reflexivity.
  Qed.
  Lemma ev_plain_lit_f i d x : plainL i [d] -> evals i false (At (d :: x)) (POk (At x) [TStr [d]]).
  Proof.
    intros Hl. eapply evals_eq; [apply (evals_lit_plain g full c WS Hc i false true [d] _ Hl)|].
    unfold lit_res. cbn [starts_with]. rewrite N.eqb_refl. reflexivity.
  Qed.
  Lemma ev_plain_lit_fail i cp d x : plainL i [d] -> nohead [d] x -> evals i cp (At x) PFail.
  Proof.
    intros Hl Hx. eapply evals_eq; [apply (evals_lit_plain g full c WS Hc i cp true [d] _ Hl)|].
    unfold lit_res. rwa (starts_with_nohead1 d [] x Hx). reflexivity.
  Qed.

  (* Opt [And [ '.' ; DIGITS ]] *)
  Definition frac_toks (f : option (chr * pstr)) : list tok :=
    match f with Some (f0, fs) => [TStr [46%N]; TStr (f0 :: fs)] | None => [] end.
  Lemma ev_fracopt o a dt w f rest :
    nth_error g o = Some (mkNode KOpt [a] false WS [] true []) ->
    nth_error g a = Some (mkNode KAnd [dt; w] false WS [] true []) ->
    plainL dt [46%N] -> plainW w ->
    match f with Some (f0, fs) => memc f0 digit = true /\ all_in digit fs /\ nohead digit rest | None => nohead [46%N] rest end ->
    evals o true (At (frac_text f ++ rest)) (POk (At rest) (frac_toks f)).
  Proof.
    intros Ho Ha Hdt Hw Hf. destruct f as [[f0 fs]|]; cbn [frac_text frac_toks app].
    - destruct Hf as (H0 & Hs & Hr). eapply evals_eq.
      + eapply evals_node_ok; [exact Ho|apply (pre_premise_plain g full c WS Hc); split; reflexivity|].
        eapply impls_opt_some; [reflexivity|reflexivity|].
        eapply evals_node_ok; [exact Ha|cbn; reflexivity|].
        eapply impls_and; [reflexivity|reflexivity|apply ev_plain_lit_f; exact Hdt|].
        eapply seqs_cons; [|apply seqs_nil].
        apply (evals_word_plain g full c WS Hc w true true digit digit f0 fs rest Hw H0 Hs Hr).
      + reflexivity.
    - eapply evals_eq.
      + eapply evals_node_ok; [exact Ho|apply (pre_premise_plain g full c WS Hc); split; reflexivity|].
        eapply impls_opt_none; [reflexivity|reflexivity|].
        eapply evals_node_fail; [exact Ha|cbn; reflexivity|].
        eapply impls_and_fail; [reflexivity|reflexivity|].
        apply (ev_plain_lit_fail dt false 46%N rest Hdt Hf).
      + reflexivity.
  Qed.

  (* Opt [ '-' | '+' ] *)
  Lemma ev_signopt o m mi pl sg (e0 : chr) rest :
    nth_error g o = Some (mkNode KOpt [m] false WS [] false []) ->
    nth_error g m = Some (mkNode KFirst [mi; pl] false WS [] false []) ->
    plainL mi [45%N] -> plainL pl [43%N] ->
    match sg with Some s => s = 43%N \/ s = 45%N | None => True end -> memc e0 digit = true ->
    evals o true (At (sign_text sg ++ e0 :: rest)) (POk (At (e0 :: rest)) (match sg with Some s => [TStr [s]] | None => [] end)).
  Proof.
    intros Ho Hm Hmi Hpl Hsg He0.
    assert (Hf : firsts g full [mi; pl] (At (sign_text sg ++ e0 :: rest))
                   (match sg with Some s => POk (At (e0 :: rest)) [TStr [s]] | None => PFail end)).
    { destruct sg as [s|]; cbn [sign_text app].
      - destruct Hsg as [-> | ->].
        + eapply firsts_miss; [apply (ev_plain_lit_fail mi true 45%N _ Hmi); reflexivity|].
          apply firsts_hit. apply ev_plain_lit. exact Hpl.
        + apply firsts_hit. apply ev_plain_lit. exact Hmi.
      - eapply firsts_miss; [apply (ev_plain_lit_fail mi true 45%N _ Hmi)|].
        { cbn. rewrite (memc_neq digit e0 45%N He0 Hd_minus). reflexivity. }
        eapply firsts_miss; [apply (ev_plain_lit_fail pl true 43%N _ Hpl)|apply firsts_nil].
        cbn. rewrite (memc_neq digit e0 43%N He0 Hd_plus). reflexivity. }
    destruct sg as [s|].
    - eapply evals_eq.
      + eapply evals_node_ok; [exact Ho|cbn; reflexivity|].
        eapply impls_opt_some; [reflexivity|reflexivity|].
        eapply evals_node_ok; [exact Hm|cbn; reflexivity|]. apply impls_first; [reflexivity|exact Hf].
      + reflexivity.
    - eapply evals_eq.
      + eapply evals_node_ok; [exact Ho|cbn; reflexivity|].
        eapply impls_opt_none; [reflexivity|reflexivity|].
        eapply evals_node_fail; [exact Hm|cbn; reflexivity|]. apply impls_first; [reflexivity|exact Hf].
      + reflexivity.
  Qed.

  (* ---- the two alternatives ---- *)
  Variables sci sa w1 o1 a1 d1 w2 el os sm mi pl w3 : nat.
  Variables flt fa fw1 fo fa3 fd fw2 : nat.
  Hypothesis Hsci : nth_error g sci = Some (mkNode (KCombine []) [sa] true WS [c] true []).
  Hypothesis Hsa : nth_error g sa = Some (mkNode KAnd [w1; o1; el; os; w3] false WS [] true []).
  Hypothesis Hw1 : plainW w1.
  Hypothesis Ho1 : nth_error g o1 = Some (mkNode KOpt [a1] false WS [] true []).
  Hypothesis Ha1 : nth_error g a1 = Some (mkNode KAnd [d1; w2] false WS [] true []).
  Hypothesis Hd1 : plainL d1 [46%N].
  Hypothesis Hw2 : plainW w2.
  Hypothesis Hel : plainL el [101%N].
  Hypothesis Hos : nth_error g os = Some (mkNode KOpt [sm] false WS [] false []).
  Hypothesis Hsm : nth_error g sm = Some (mkNode KFirst [mi; pl] false WS [] false []).
  Hypothesis Hmi : plainL mi [45%N].
  Hypothesis Hpl : plainL pl [43%N].
  Hypothesis Hw3 : plainW w3.
  Hypothesis Hflt : nth_error g flt = Some (mkNode (KCombine []) [fa] true WS [c] true []).
  Hypothesis Hfa : nth_error g fa = Some (mkNode KAnd [fw1; fo] false WS [] true []).
  Hypothesis Hfw1 : plainW fw1.
  Hypothesis Hfo : nth_error g fo = Some (mkNode KOpt [fa3] false WS [] true []).
  Hypothesis Hfa3 : nth_error g fa3 = Some (mkNode KAnd [fd; fw2] false WS [] true []).
  Hypothesis Hfd : plainL fd [46%N].
  Hypothesis Hfw2 : plainW fw2.

  Lemma frac_premise n r : gnum_ok digit n -> (g_exp n = None -> nohead digit r /\ nohead [46%N] r) ->
    match g_frac n with
    | Some (f0, fs) => memc f0 digit = true /\ all_in digit fs /\ nohead digit (exp_text (g_exp n) ++ r)
    | None => nohead [46%N] (exp_text (g_exp n) ++ r)
    end.
  Proof.
    intros (_ & _ & Hf & He) Hr. destruct (g_frac n) as [[f0 fs]|].
    - destruct Hf as (H0 & Hs). repeat split; try assumption.
      destruct (g_exp n) as [[[sg e0] es]|]; cbn [exp_text app]; [exact Hd_e|apply Hr; reflexivity].
    - destruct (g_exp n) as [[[sg e0] es]|]; cbn [exp_text app]; [reflexivity|apply Hr; reflexivity].
  Qed.
  Lemma int_follow n r : (g_exp n = None -> nohead digit r) ->
    nohead digit (frac_text (g_frac n) ++ exp_text (g_exp n) ++ r).
  Proof.
    intros Hr. destruct (g_frac n) as [[f0 fs]|]; cbn [frac_text app]; [exact Hd_dot|].
    destruct (g_exp n) as [[[sg e0] es]|]; cbn [exp_text app]; [exact Hd_e|apply Hr; reflexivity].
  Qed.

  Lemma join_concat l : join_strs [] l = concat l.
  Proof.
    induction l as [|s l IH]; [reflexivity|]. destruct l as [|t l]; [cbn; rewrite app_nil_r; reflexivity|].
    change (join_strs [] (s :: t :: l)) with (s ++ [] ++ join_strs [] (t :: l)). rewrite IH. reflexivity.
  Qed.

  (* scientific form *)
  Lemma ev_sci (cp : bool) (x : pstr) n sg e0 es r :
    (if cp then std_pre WS x else x) = gnum_text n ++ r -> gnum_ok digit n -> g_exp n = Some (sg, e0, es) ->
    nohead digit r ->
    evals sci cp (At x) (POk (At r) [TStr (gnum_text n)]).
  Proof.
    intros Hx Hn He Hr. pose proof Hn as (H0 & Hs & Hf & Hee). rewrite He in Hee. destruct Hee as (He0 & Hes & Hsg).
    pose proof (frac_premise n r Hn ltac:(intros E; congruence)) as Hfp.
    pose proof (int_follow n r ltac:(intros E; congruence)) as Hif.
    unfold gnum_text in *. rewrite He in *. cbn [exp_text] in *. nt_in Hif. nt_in Hfp.
    eapply evals_eq.
    - eapply evals_node_ok; [exact Hsci|apply (pre_premise g full c WS Hc); repeat split|].
      unfold pre_pos. cbn [ncallpre]. rewrite andb_true_r, Hx. nt.
      eapply impls_wrap; [reflexivity|reflexivity|].
      eapply evals_node_ok; [exact Hsa|cbn; reflexivity|].
      eapply impls_and; [reflexivity|reflexivity| |].
      + apply (evals_word_plain g full c WS Hc w1 false true digit digit (g_i0 n) (g_is n) _ Hw1 H0 Hs Hif).
      + eapply seqs_cons; [apply (ev_fracopt o1 a1 d1 w2 (g_frac n) _ Ho1 Ha1 Hd1 Hw2 Hfp)|].
        eapply seqs_cons; [apply (ev_plain_lit el 101%N _ Hel)|].
        eapply seqs_cons; [apply (ev_signopt os sm mi pl sg e0 (es ++ r) Hos Hsm Hmi Hpl Hsg He0)|].
        eapply seqs_cons; [|apply seqs_nil].
        apply (evals_word_plain g full c WS Hc w3 true true digit digit e0 es r Hw3 He0 Hes Hr).
    - cbn [finish post nkind ntags add_tags fold_left]. unfold flat_strs. rewrite join_concat.
      destruct (g_frac n) as [[f0 fs]|], sg as [s|]; cbn; rewrite ?app_nil_r; repeat (rewrite <- app_assoc; cbn [app]); reflexivity.
  Qed.
  (* ... refuses a number without exponent *)
  Lemma ev_sci_fail (cp : bool) (x : pstr) n r :
    (if cp then std_pre WS x else x) = gnum_text n ++ r -> gnum_ok digit n -> g_exp n = None ->
    num_follow digit r -> evals sci cp (At x) PFail.
  Proof.
    intros Hx Hn He Hr. apply num_follow_elim in Hr as (Hr1 & Hr2 & Hr3). pose proof Hn as (H0 & Hs & Hf & _).
    pose proof (frac_premise n r Hn ltac:(intros _; split; assumption)) as Hfp.
    pose proof (int_follow n r ltac:(intros _; assumption)) as Hif.
    unfold gnum_text in *. rewrite He in *. cbn [exp_text app] in *. nt_in Hif. nt_in Hfp.
    eapply evals_node_fail; [exact Hsci|apply (pre_premise g full c WS Hc); repeat split|].
    unfold pre_pos. cbn [ncallpre]. rewrite andb_true_r, Hx. nt. cbn [app].
    eapply impls_wrap; [reflexivity|reflexivity|].
    eapply evals_node_fail; [exact Hsa|cbn; reflexivity|].
    eapply impls_and; [reflexivity|reflexivity| |].
    - apply (evals_word_plain g full c WS Hc w1 false true digit digit (g_i0 n) (g_is n) _ Hw1 H0 Hs Hif).
    - eapply seqs_cons; [apply (ev_fracopt o1 a1 d1 w2 (g_frac n) _ Ho1 Ha1 Hd1 Hw2 Hfp)|].
      apply seqs_fail. apply (ev_plain_lit_fail el true 101%N r Hel Hr3).
  Qed.
  (* decimal / integer form *)
  Lemma ev_flt (cp : bool) (x : pstr) n r :
    (if cp then std_pre WS x else x) = gnum_text n ++ r -> gnum_ok digit n -> g_exp n = None ->
    nohead digit r -> nohead [46%N] r ->
    evals flt cp (At x) (POk (At r) [TStr (gnum_text n)]).
  Proof.
    intros Hx Hn He Hr1 Hr2. pose proof Hn as (H0 & Hs & Hf & _).
    pose proof (frac_premise n r Hn ltac:(intros _; split; assumption)) as Hfp.
    pose proof (int_follow n r ltac:(intros _; assumption)) as Hif.
    unfold gnum_text in *. rewrite He in *. cbn [exp_text app] in *. nt_in Hif. nt_in Hfp.
    eapply evals_eq.
    - eapply evals_node_ok; [exact Hflt|apply (pre_premise g full c WS Hc); repeat split|].
      unfold pre_pos. cbn [ncallpre]. rewrite andb_true_r, Hx. nt. cbn [app].
      eapply impls_wrap; [reflexivity|reflexivity|].
      eapply evals_node_ok; [exact Hfa|cbn; reflexivity|].
      eapply impls_and; [reflexivity|reflexivity| |].
      + apply (evals_word_plain g full c WS Hc fw1 false true digit digit (g_i0 n) (g_is n) _ Hfw1 H0 Hs Hif).
      + eapply seqs_cons; [|apply seqs_nil].
        apply (ev_fracopt fo fa3 fd fw2 (g_frac n) _ Hfo Hfa3 Hfd Hfw2 Hfp).
    - cbn [finish post nkind ntags add_tags fold_left]. unfold flat_strs. rewrite join_concat.
      destruct (g_frac n) as [[f0 fs]|]; cbn; rewrite ?app_nil_r; repeat (rewrite <- app_assoc; cbn [app]); reflexivity.
  Qed.

  (* gorf = num_sci | num_flt : any choice node whose first two alternatives are these *)
  Lemma firsts_gorf more (x : pstr) n r :
    std_pre WS x = gnum_text n ++ r -> gnum_ok digit n -> num_follow digit r ->
    firsts g full (sci :: flt :: more) (At x) (POk (At r) [TStr (gnum_text n)]).
  Proof.
    intros Hx Hn Hr. pose proof (num_follow_elim digit r Hr) as (Hr1 & Hr2 & Hr3).
    destruct (g_exp n) as [[[sg e0] es]|] eqn:He.
    - apply firsts_hit. apply (ev_sci true x n sg e0 es r Hx Hn He Hr1).
    - eapply firsts_miss; [apply (ev_sci_fail true x n r Hx Hn He Hr)|].
      apply firsts_hit. apply (ev_flt true x n r Hx Hn He Hr1 Hr2).
  Qed.
  (* neither alternative accepts a text that does not start with a digit *)
  Lemma firsts_gorf_fail (x : pstr) : nohead digit (std_pre WS x) ->
    evals sci true (At x) PFail /\ evals flt true (At x) PFail.
  Proof.
    intros Hx. split.
    - eapply evals_node_fail; [exact Hsci|apply (pre_premise g full c WS Hc); repeat split|].
      unfold pre_pos. cbn [andb ncallpre].
      eapply impls_wrap; [reflexivity|reflexivity|].
      eapply evals_node_fail; [exact Hsa|cbn; reflexivity|].
      eapply impls_and_fail; [reflexivity|reflexivity|].
      apply (evals_word_plain_fail g full c WS Hc w1 false true digit digit 1 0 _ Hw1 Hx).
    - eapply evals_node_fail; [exact Hflt|apply (pre_premise g full c WS Hc); repeat split|].
      unfold pre_pos. cbn [andb ncallpre].
      eapply impls_wrap; [reflexivity|reflexivity|].
      eapply evals_node_fail; [exact Hfa|cbn; reflexivity|].
      eapply impls_and_fail; [reflexivity|reflexivity|].
      apply (evals_word_plain_fail g full c WS Hc fw1 false true digit digit 1 0 _ Hfw1 Hx).
  Qed.
End Num.
