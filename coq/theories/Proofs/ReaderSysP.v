(* Reader model, C14: reading in a session that already holds objects.
   Part 1: taking references to held objects keeps the session invariant; re-declared domains and strands
   are found (the registered singletons, not copies). *)
From Coq Require Import List NArith ZArith Bool Arith Lia Permutation.
From DSD Require Import Base.Str Base.Errors Model.ComplexUtils Model.RegStr Model.ReaderStr Model.PyNum
  Model.Peg Model.Kernel Model.DispatchKernel Model.Heap Model.Registry Model.Reader Model.ReaderShape Model.ReaderConsistent
  Proofs.RegHeap Proofs.RegInv Proofs.RegCalls Proofs.RegExt Proofs.ReaderBasic Proofs.ReaderStmt Proofs.ReaderHeap
  Proofs.ReaderInv Proofs.ReaderHoare Proofs.ReaderNoFault Proofs.ReaderThms Proofs.ReaderBuilds Proofs.ReaderKernel
  Proofs.ReaderMore Proofs.ReaderSys Proofs.ReaderSysA Proofs.ReaderSysB Proofs.ReaderSysC Proofs.ReaderSysD
  Proofs.ReaderSysE Proofs.ReaderSysF Proofs.ReaderSysS Proofs.ReaderSysX Proofs.ReaderSysY.
From DSD Require Model.Iupac.
Import ListNotations.

Section Found.
  Variable ct : ctable.
  Variables cd cs cc cm cr : nat.
  Hypothesis CO : cfg_okb ct cd cs cc cm cr = true.
  Hypothesis PL : forall c, In c [cd; cs; cc; cm; cr] -> exists ci, nth_error ct c = Some ci /\ c_fail ci = FNone.
  Notation G := (g cd cs cc cm cr).
  Notation cls_of := (cls_of cd cs cc cm cr).
  Notation Core := (Core cd cs cc cm cr ct).
  Notation SInv := (SInv cd cs cc cm cr ct).
  Notation Built := (Built cd cs cc cm cr).
  Notation dobj := (dobj cd).
  Notation DomReg := (DomReg cd).

  (* ---- references to live objects and rewritten attributes keep the invariant ---- *)
  Lemma sinv_refs world r acc keep sq' cn' rt' :
    SInv world r acc ->
    (forall i, In i keep -> is_live (heap (r_st r)) i = true) ->
    (forall j, attr_get j sq' = attr_get j (r_seq r)) -> (forall j, attr_get j cn' = attr_get j (r_conc r)) ->
    (forall j, attr_get j rt' = attr_get j (r_rate r)) ->
    let r' := mkR (holds (r_st r) keep) sq' cn' rt' in
    SInv world r' acc /\ Later r acc r' acc.
  Proof.
    intros [C B] Hl A1 A2 A3 r'.
    assert (L : Later r acc r' acc).
    { constructor; auto. exists []. reflexivity. }
    split; [|exact L]. split.
    - destruct C as [Csok Cattr Cheld Cdom Creg CrR Ckeys Cdecl CkR Ccplx Crot]. constructor.
      + apply sok_holds; assumption.
      + intros i Hi. cbn [r_seq r_conc r_rate r']. rewrite A1, A2, A3. apply Cattr. exact Hi.
      + intros i Hi. cbn [r_st r']. unfold holds, with_roots. cbn [roots]. apply in_or_app. left. apply Cheld. exact Hi.
      + exact Cdom.
      + exact Creg.
      + exact CrR.
      + exact Ckeys.
      + exact Cdecl.
      + intros j Hj. destruct (CkR j Hj) as [ri [H1 H2]]. exists ri. split; [exact H1 | eapply builtrxn_later; eauto].
      + intros n names sst Hin. destruct (Ccplx n names sst Hin) as [conc Hb]. exists conc. eapply builtcplx_later; eauto.
      + exact Crot.
    - intros s Hs. eapply built_later; [exact L | apply B; exact Hs].
  Qed.

  (* ---- s.add(obj) in general ---- *)
  Lemma set_add_sub st i l j : In j (set_add st i l) -> j = i \/ In j l.
  Proof.
    unfold set_add. destruct (existsb _ l); [auto|]. intros H. apply in_app_or in H. destruct H as [H|[H|[]]]; auto.
  Qed.

  Lemma set_add_in st i oi l :
    Inv ct st -> hget (heap st) i = Some oi -> o_live oi = true ->
    (forall j, In j l -> exists oj, hget (heap st) j = Some oj /\ o_live oj = true /\ o_cls oj = o_cls oi) ->
    forall j, In j (set_add st i l) <-> j = i \/ In j l.
  Proof.
    intros I Hi Li Hl j. split; [apply set_add_sub|]. unfold set_add. rewrite Hi.
    destruct (existsb _ l) eqn:E.
    - intros [->|H]; [|exact H]. apply existsb_exists in E. destruct E as [j [Hj E]].
      destruct (Hl j Hj) as [oj [Ho [Lj Cj]]]. rewrite Ho in E. apply orb_true_iff in E. destruct E as [E|E].
      + apply Nat.eqb_eq in E. subst j. exact Hj.
      + apply key_eqb_iff in E.
        destruct (live_reg ct st i oi I Hi Li) as [_ K1]. destruct (live_reg ct st j oj I Ho Lj) as [_ K2].
        rewrite Cj, <- E in K2. rewrite K1 in K2. injection K2 as <-. exact Hj.
    - intros [->|H]; apply in_or_app; [right; left; reflexivity | left; exact H].
  Qed.

  (* ---- the if/elif chain for an object that exists already ---- *)
  Lemma file_obj_at k i nm acc r o :
    In k [KindS; KindC; KindM] ->
    hget (heap (r_st r)) i = Some o -> o_cls o = cls_of k -> o_name o = nm ->
    file_obj ct G (RObj i) acc r = (r, Ok (apply_delta (FKind k nm i) acc, [i])).
  Proof.
    intros Hk Ho Hc Hn.
    assert (On : oname (r_st r) i = nm) by (unfold oname, obj_name; rewrite Ho; exact Hn).
    assert (Cl : ClsAt i (cls_of k) r) by (unfold ClsAt, cls_at; rewrite Ho; cbn; rewrite Hc; reflexivity).
    destruct Hk as [<-|[<-|[<-|[]]]].
    - rewrite (file_obj_strand ct cd cs cc cm cr i acc r), On; [reflexivity| |].
      + unfold isinst. rewrite Ho, Hc. cbn [ReaderSysA.cls_of]. destruct (co_io ct cd cs cc cm cr CO) as [E _]. exact E.
      + unfold isinst. rewrite Ho, Hc. apply subclass_refl.
    - rewrite (file_obj_cplx ct cd cs cc cm cr CO i acc r Cl), On. reflexivity.
    - rewrite (file_obj_mac ct cd cs cc cm cr CO i acc r Cl), On. reflexivity.
  Qed.

  (* one round of the loop that only takes references: the state afterwards *)
  Lemma read_one_found line s accR r r1 i (keep temps : list nat) res sq' cn' rt' :
    decode line = Ok s -> SOK ct (r_st r) ->
    (forall x, In x (temps ++ keep) -> is_live (heap (r_st r)) x = true) ->
    exec_stmt ct G line s r = (r1, Ok (RObj i)) ->
    r1 = mkR (holds (r_st r) temps) sq' cn' rt' ->
    (forall r2, r2 = r1 -> exists rest, file_obj ct G (RObj i) accR r2 = (mkR (holds (r_st r) (temps ++ rest)) sq' cn' rt', Ok (res, keep))) ->
    read_one ct G None (TList line) accR r = (mkR (holds (r_st r) keep) sq' cn' rt', Ok res).
  Proof.
    intros Hd OK Hl Ex -> Hf. destruct (Hf _ eq_refl) as [rest Ef].
    rewrite (read_one_ok ct cd cs cc cm cr line s accR r _ (RObj i) _ _ Hd Ex Ef). cbn [fst snd r_st with_st].
    assert (Ec : cut_roots (holds (r_st r) (temps ++ rest)) (length (roots (r_st r))) keep = holds (r_st r) keep).
    { unfold cut_roots, holds, with_roots. cbn [heap classes roots]. rewrite firstn_roots. reflexivity. }
    rewrite Ec, (collect_id ct _ (sok_holds ct _ keep OK (fun x Hx => Hl x (in_or_app _ _ _ (or_intror Hx))))). reflexivity.
  Qed.

  (* ---- a declared domain: its two objects and what the registries answer ---- *)
  Lemma dom_pair_reg world r acc x l :
    SInv world r acc -> In (x, l) (decl_doms world) ->
    exists a b, DomPairReg cd (r_st r) x l a b /\ dlookup x (po_domains acc) = Some a /\
                dlookup (star x) (po_domains acc) = Some b.
  Proof.
    intros SI Hx. pose proof SI as [C B].
    destruct (dom_pair ct cd cs cc cm cr world r acc x l SI Hx) as [a [b [H1 [H2 [H3 H4]]]]].
    destruct (si_decl _ _ _ _ _ _ _ _ _ C x l Hx) as [Us [Ne [Hl _]]].
    pose proof (si_reg _ _ _ _ _ _ _ _ _ C KindD ltac:(discriminate)) as RegD. cbn [cls_of ReaderSysA.cls_of dict_of] in RegD.
    pose proof (proj1 (si_sok _ _ _ _ _ _ _ _ _ C)) as I.
    exists a, b. split; [|auto].
    split; [exact Us|]. split; [exact Ne|]. split; [exact Hl|]. split; [exact H3|]. split; [exact H4|].
    split; [rewrite RegD; exact H1|]. split; [rewrite RegD; exact H2|].
    destruct (live_reg ct _ a _ I H3 eq_refl) as [_ K1]. destruct (live_reg ct _ b _ I H4 eq_refl) as [_ K2].
    split; [exact K1 | exact K2].
  Qed.

  (* the statement re-declares the domain x with the description the world has *)
  Definition dom_found (world : list stmt) (s : stmt) (x : pstr) (l : Z) (osq : option pstr) : Prop :=
    (s = SDl x l /\ osq = None /\ In (x, l) (decl_doms world)) \/
    (exists sq chk chk0, s = SSl x sq chk /\ l = Z.of_nat (length sq) /\ osq = Some sq /\ In (SSl x sq chk0) world /\
       match chk with Some n => Z.eqb n (Z.of_nat (length sq)) = true | None => True end).

  Theorem found_dom world r acc line s x l osq :
    SInv world r acc -> decode line = Ok s -> dom_found world s x l osq ->
    exists a b sq', dlookup x (po_domains acc) = Some a /\ dlookup (star x) (po_domains acc) = Some b /\
      (forall j, attr_get j sq' = attr_get j (r_seq r)) /\
      (forall i, In i [a; b] -> is_live (heap (r_st r)) i = true) /\
      forall accR, read_one ct G None (TList line) accR r =
        (mkR (holds (r_st r) [a; b]) sq' (r_conc r) (r_rate r), Ok (apply_delta (FDom x a b) accR)).
  Proof.
    intros SI Hdec Hf. pose proof SI as [C B]. pose proof (si_sok _ _ _ _ _ _ _ _ _ C) as OK.
    set (st := r_st r).
    assert (Hin : In (x, l) (decl_doms world)).
    { destruct Hf as [[_ [_ H]]|[sq [chk [chk0 [_ [-> [_ [H _]]]]]]]]; [exact H|]. apply decl_doms_in. right. eauto. }
    destruct (dom_pair_reg world r acc x l SI Hin) as [a [b [P [Da Db]]]]. fold st in P.
    pose proof P as [Us [Ne [Hl [Ha [Hb [Na [Nb [Ka Kb]]]]]]]].
    destruct (PL cd) as [ci [Hci Hfl]]; [cbn; auto|].
    assert (La : is_live (heap st) a = true) by (unfold is_live; rewrite Ha; reflexivity).
    assert (Lb : is_live (heap st) b = true) by (unfold is_live; rewrite Hb; reflexivity).
    (* the sequences of the two objects, as the world describes them *)
    assert (Hattr : (attr_get a (r_seq r) = None /\ attr_get b (r_seq r) = None /\ osq = None) \/
                    (exists sq sq2, attr_get a (r_seq r) = Some sq /\ attr_get b (r_seq r) = Some sq2 /\ (osq = Some sq \/ osq = None))).
    { destruct Hf as [[_ [-> H]]|[sq [chk [chk0 [_ [_ [-> [H _]]]]]]]].
      - apply decl_doms_in in H. destruct H as [H|[sq [chk [H _]]]].
        + destruct (B _ H) as [i [j [D1 [D2 [_ [_ [A1 A2]]]]]]]. rewrite Da in D1. rewrite Db in D2.
          injection D1 as <-. injection D2 as <-. left. auto.
        + destruct (B _ H) as [i [j [sq2 [D1 [D2 [_ [_ [_ [A1 A2]]]]]]]]]. rewrite Da in D1. rewrite Db in D2.
          injection D1 as <-. injection D2 as <-. right. exists sq, sq2. auto.
      - destruct (B _ H) as [i [j [sq2 [D1 [D2 [_ [_ [_ [A1 A2]]]]]]]]]. rewrite Da in D1. rewrite Db in D2.
        injection D1 as <-. injection D2 as <-. right. exists sq, sq2. auto. }
    set (sq' := match osq with Some sq => attr_set a sq (r_seq r) | None => r_seq r end).
    assert (Asq : forall j, attr_get j sq' = attr_get j (r_seq r)).
    { intros j. subst sq'. destruct osq as [sq|]; [|reflexivity]. rewrite attr_get_set.
      destruct (Nat.eqb j a) eqn:E; [|reflexivity]. apply Nat.eqb_eq in E. subst j.
      destruct Hattr as [[_ [_ H]]|[sq1 [sq2 [H1 [_ [H|H]]]]]]; try discriminate. injection H as <-. symmetry. exact H1. }
    exists a, b, sq'. split; [exact Da|]. split; [exact Db|]. split; [exact Asq|].
    split; [intros i [<-|[<-|[]]]; assumption|].
    intros accR.
    (* read_pil_line *)
    assert (E1 : domain_new ct G x l r = (with_st r (hold st a), Ok a)).
    { unfold domain_new. cbn [gD g slot]. rewrite bind_ret. unfold call. change dom_fuel with (S (S (S 5))).
      fold st. rewrite (dom_found_unstarred ct cd 5 st x l a b OK P ci Hci). reflexivity. }
    set (r1 := mkR (holds st [a]) sq' (r_conc r) (r_rate r)).
    assert (Ex : exec_stmt ct G line s r = (r1, Ok (RObj a))).
    { destruct Hf as [[-> [-> _]]|[sq [chk [chk0 [-> [-> [-> [_ Hchk]]]]]]]]; cbn [exec_stmt].
      - rewrite (bind_ok _ _ _ _ _ E1). reflexivity.
      - assert (Ec : forall r0, (match chk with
                                 | Some n => if Z.eqb n (Z.of_nat (length sq)) then ret tt else fail ePilFormat
                                 | None => ret tt
                                 end) r0 = (r0, Ok tt)).
        { intros r0. destruct chk as [n|]; [rewrite Hchk|]; reflexivity. }
        rewrite (bind_ok _ _ _ _ _ (Ec r)), (bind_ok _ _ _ _ _ E1). reflexivity. }
    apply (read_one_found line s accR r r1 a [a; b] [a] _ sq' (r_conc r) (r_rate r) Hdec OK); [| exact Ex | reflexivity |].
    { intros y Hy. cbn in Hy. destruct Hy as [<-|[<-|[<-|[]]]]; assumption. }
    intros r2 ->. exists [b].
    assert (OK1 : SOK ct (r_st r1)) by (apply sok_holds; [exact OK | intros y [<-|[]]; exact La]).
    assert (Hinst : isinst ct (r_st r1) a cd = true).
    { unfold isinst. change (heap (r_st r1)) with (heap st). rewrite Ha. apply subclass_refl. }
    assert (Einv : invert ct a r1 = (with_st r1 (hold (r_st r1) b), Ok b)).
    { apply (invert_found ct cd cs cc cm cr PL r1 a b OK1). exists x, l, a, b. split; [exact P | left; auto]. }
    pose proof (file_obj_dom ct cd cs cc cm cr a accR r1 _ b Hinst Einv) as Ef. cbv zeta in Ef.
    assert (On1 : oname (r_st r1) a = x) by (unfold oname, obj_name; change (heap (r_st r1)) with (heap st); rewrite Ha; reflexivity).
    assert (On2 : oname (r_st (with_st r1 (hold (r_st r1) b))) b = star x).
    { unfold oname, obj_name. change (heap (r_st (with_st r1 (hold (r_st r1) b)))) with (heap st). rewrite Hb. reflexivity. }
    rewrite On1, On2 in Ef. rewrite Ef. change (r_seq (with_st r1 (hold (r_st r1) b))) with sq'. rewrite !Asq.
    assert (Estate : with_st r1 (hold (r_st r1) b) = mkR (holds st ([a] ++ [b])) sq' (r_conc r) (r_rate r)).
    { unfold r1, with_st, holds, with_roots, hold. cbn [r_st r_seq r_conc r_rate heap classes roots map app].
      rewrite <- app_assoc. reflexivity. }
    destruct Hattr as [[A1 [A2 _]]|[sq1 [sq2 [A1 [A2 _]]]]]; rewrite A1, ?A2, Estate; reflexivity.
  Qed.

  (* ---- a declared strand ---- *)
  Theorem found_strand world r acc line n ds :
    SInv world r acc -> decode line = Ok (SComp n ds) -> In (SComp n ds) world ->
    exists i, dlookup n (po_strands acc) = Some i /\ is_live (heap (r_st r)) i = true /\
      forall accR, read_one ct G None (TList line) accR r =
        (mkR (holds (r_st r) [i]) (r_seq r) (r_conc r) (r_rate r), Ok (apply_delta (FKind KindS n i) accR)).
  Proof.
    intros SI Hdec Hin. pose proof SI as [C B]. pose proof (si_sok _ _ _ _ _ _ _ _ _ C) as OK. pose proof (proj1 OK) as I.
    set (st := r_st r).
    destruct (B _ Hin) as [i [ids [D1 [Hne [Hust [D2 D3]]]]]]. fold st in D3.
    assert (Li : is_live (heap st) i = true) by (unfold is_live; rewrite D3; reflexivity).
    exists i. split; [exact D1|]. split; [exact Li|]. intros accR.
    (* the domains *)
    assert (F : Forall2 (fun d j => dlookup d (po_domains acc) = Some j /\
                   (exists l, hget (heap st) j = Some (dobj d l)) /\ DomReg st d j) ds ids).
    { eapply Forall2_impl'; [|exact D2]. cbn. intros d j Hd.
      assert (Hdecl : In d (declared KindD world)).
      { apply (si_keys _ _ _ _ _ _ _ _ _ C KindD). eapply dlookup_in_keys; eauto. }
      destruct (dom_lookup_facts ct cd cs cc cm cr world r acc d SI Hdecl) as [j' [l [H1 [H2 H3]]]].
      rewrite Hd in H1. injection H1 as <-. eauto. }
    assert (Len : length ds = length ids) by (eapply forall2_length; eauto).
    assert (F1 : Forall2 (DomReg (r_st r)) ds ids) by (eapply Forall2_impl'; [|exact F]; cbn; tauto).
    destruct (mapM_lookup ct (domain_by_name ct G) DomReg (domreg_hold cd) (dbn_exact ct cd cs cc cm cr PL) ds ids r OK F1) as [Em Lv].
    fold st in Em.
    pose (es := (combine ds (map Some ids) : list elem)).
    assert (Ees : map (elem_of (holds st ids)) ids = es).
    { unfold es. clear -F. induction F as [|d j ds ids [_ [[l Hj] _]] F IH]; [reflexivity|].
      cbn [map combine]. f_equal; [|exact IH]. unfold elem_of, oname, obj_name.
      change (heap (holds st (j :: ids))) with (heap st). rewrite Hj. reflexivity. }
    assert (Hf1 : map fst es = ds) by (apply map_fst_combine; rewrite map_length; exact Len).
    assert (Hst : map (fun _ : elem => Registry.cStar) es = map (fun _ : pstr => Registry.cStar) ds).
    { rewrite <- Hf1. rewrite map_map. reflexivity. }
    pose proof (si_reg _ _ _ _ _ _ _ _ _ C KindS ltac:(discriminate)) as RegS. cbn [cls_of ReaderSysA.cls_of dict_of] in RegS.
    destruct (live_reg ct st i _ I D3 eq_refl) as [N1 K1]. cbn [o_name o_key o_cls strand_obj new_obj] in N1, K1.
    destruct (PL cs) as [ci [Hci Hfl]]; [cbn; auto|].
    assert (Ec : strand_call ct cs (holds st ids) (Some es) (Some n) None = (holds st ids, CRet i false)).
    { unfold strand_call. rewrite Hci.
      assert (Ep : existsb is_plus es = false).
      { destruct (existsb is_plus es) eqn:E; [|reflexivity]. apply existsb_exists in E. destruct E as [[e1 e2] [He Hp]].
        unfold es in He. apply in_combine_r in He. apply in_map_iff in He. destruct He as [j [<- _]]. discriminate. }
      rewrite Ep. cbn [resolve_name]. cbv zeta. rewrite Hf1, Hst. unfold sing_lookup.
      change (cget (holds st ids) cs) with (cget st cs). rewrite Hne, N1, K1, Nat.eqb_refl. reflexivity. }
    set (r1 := mkR (holds st (ids ++ [i])) (r_seq r) (r_conc r) (r_rate r)).
    assert (Ex : exec_stmt ct G line (SComp n ds) r = (r1, Ok (RObj i))).
    { cbn [exec_stmt]. rewrite (bind_ok _ _ _ _ _ Em). cbn [gS g slot]. rewrite bind_ret.
      rewrite (bind_ok get_state _ _ _ _ eq_refl). cbn [r_st with_st]. rewrite Ees.
      unfold bind at 1. unfold call. cbn [r_st with_st]. rewrite Ec. unfold r1. rewrite hold_holds. reflexivity. }
    apply (read_one_found line (SComp n ds) accR r r1 i [i] (ids ++ [i]) _ (r_seq r) (r_conc r) (r_rate r) Hdec OK);
      [| exact Ex | reflexivity |].
    { intros y Hy. rewrite !in_app_iff in Hy. destruct Hy as [[Hy|[<-|[]]]|[<-|[]]]; [apply Lv; exact Hy | exact Li | exact Li]. }
    intros r2 ->. exists []. rewrite app_nil_r.
    apply (file_obj_at KindS i n accR r1 _ ltac:(cbn; auto) D3); reflexivity.
  Qed.
End Found.
