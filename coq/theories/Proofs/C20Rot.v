(* C20: the rotation distance the legacy complex records (`DSD_Complex.rotations`, the analogue of
   `ComplexS.turns`): `rotations` turns of the canonical form give back the presented representation. *)
From Coq Require Import List Arith ZArith Lia Bool NArith.
From DSD Require Import Base.Str Base.Errors Base.Val Base.Sort Model.ComplexUtils Model.Rotation Model.Compare
  Model.Canon Model.Iupac Model.Legacy
  Proofs.C10 Proofs.RotTree Proofs.RotOnce Proofs.RotOrbit Proofs.RotStrands Proofs.RotGen Proofs.C02 Proofs.C03 Proofs.C17 Proofs.C20.
Import ListNotations.

Lemma first_index_In k vs e : first_index k vs = Some e -> In (k, e) vs.
Proof.
  induction vs as [|[k' e'] r IH]; cbn [first_index]; [discriminate|].
  destruct (ckey_eqb k k') eqn:E.
  - apply ckey_eqb_eq in E. subst k'. intros H. injection H as ->. left. reflexivity.
  - intros H. right. apply IH, H.
Qed.

Lemma good_iter x j : good x -> good (Nat.iter j rotT x).
Proof. intros G. induction j as [|j IH]; cbn [Nat.iter]; [exact G|]. apply rotT_ok, IH. Qed.

(* every variant recorded with index i is the i-th rotation of the presented complex x0 *)
Lemma legacy_loop_idx f : forall e x vs x0, good x0 -> 1 <= e -> x = Nat.iter (e - 1) rotT x0 ->
  (forall k i, In (k, i) vs -> k = Nat.iter i rotT x0 /\ 1 <= i < e) ->
  forall vs', legacy_loop f e x [] vs = inl (Ok vs') ->
  forall k i, In (k, i) vs' -> k = Nat.iter i rotT x0 /\ 1 <= i < e + f.
Proof.
  induction f as [|f IH]; intros e x vs x0 G0 He Hx Hvs vs'; cbn [legacy_loop].
  - intros H. injection H as <-. intros k i Hin. apply in_rev in Hin.
    destruct (Hvs k i Hin) as [H1 H2]. split; [exact H1|lia].
  - assert (G : good x) by (rewrite Hx; apply good_iter, G0).
    rewrite (legacy_rot1_good x G).
    assert (Hy : rotT x = Nat.iter (S e - 1) rotT x0).
    { rewrite Hx. replace (S e - 1) with (S (e - 1)) by lia. reflexivity. }
    destruct (first_index (rotT x) vs) as [e0|] eqn:F.
    + intros H k i Hin.
      destruct (IH (S e) (rotT x) vs x0 G0 ltac:(lia) Hy
                   ltac:(intros k' i' H'; destruct (Hvs k' i' H') as [A B]; split; [exact A|lia])
                   vs' H k i Hin) as [A B].
      split; [exact A|lia].
    + intros H k i Hin.
      assert (Hvs' : forall k' i', In (k', i') ((rotT x, e) :: vs) -> k' = Nat.iter i' rotT x0 /\ 1 <= i' < S e).
      { intros k' i' [H'|H'].
        - injection H' as <- <-. split; [|lia]. rewrite Hy. f_equal. lia.
        - destruct (Hvs k' i' H') as [A B]. split; [exact A|lia]. }
      destruct (IH (S e) (rotT x) ((rotT x, e) :: vs) x0 G0 ltac:(lia) Hy Hvs' vs' H k i Hin) as [A B].
      split; [exact A|lia].
Qed.

Theorem legacy_rotations_spec x : goodNE x -> forall c r,
  legacy_canonical (fst x) (snd x) [] = LOk c r ->
  Nat.iter r rotT c = x /\ r < nstr (snd x).
Proof.
  intros GN c r. pose proof GN as [G N]. unfold legacy_canonical. rewrite (aligned_len x G). cbn [negb].
  rewrite (n_strands_nstr x GN). set (n := nstr (snd x)).
  assert (Hn : n <> 0) by (unfold n, nstr; lia).
  destruct x as [sq st]. cbn [fst snd] in *.
  assert (Hnn : n = nstr st) by reflexivity. clearbody n.
  destruct (legacy_loop_keys n 1 (sq, st) [] G) as (vs & E & K). rewrite E.
  destruct (min_key (map fst vs)) as [c'|] eqn:M; [|discriminate].
  destruct (first_index c' vs) as [e|] eqn:F; [|discriminate].
  intros H. injection H as <- <-.
  apply first_index_In in F.
  destruct (legacy_loop_idx n 1 (sq, st) [] (sq, st) G (le_n 1) eq_refl
              ltac:(intros k i []) vs E c' e F) as [Hc He].
  assert (Le : (e <=? n) = true) by (apply Nat.leb_le; lia). rewrite Le.
  split.
  - rewrite Hc, <- iter_add. replace (n - e + e) with n by lia.
    rewrite Hnn. apply (rotT_orbit (sq, st) G).
  - lia.
Qed.

(* together with the canonical-form theorem: legacy `rotations` and current `turns` denote the same
   representation of the same canonical form *)
Theorem legacy_rotations_vs_turns x : goodNE x ->
  exists c r, legacy_canonical (fst x) (snd x) [] = LOk c r /\ canon_T x = Some c /\
              Nat.iter r rotT c = x /\ r < nstr (snd x).
Proof.
  intros GN. destruct (legacy_canonical_form_eq x GN) as (c & r & E & C).
  exists c, r. split; [exact E|]. split; [exact C|]. exact (legacy_rotations_spec x GN c r E).
Qed.

(* not vacuous: a three-strand complex presented in a non-canonical rotation *)
Example ex_legacy_rotations :
  let b := [98%N] in let a := [97%N] in let c := [99%N] in let p := [43%N] in
  legacy_canonical [b; p; c; p; a] [46; 43; 46; 43; 46]%N [] =
    LOk ([a; p; b; p; c], [46; 43; 46; 43; 46]%N) 1.
Proof. vm_compute. reflexivity. Qed.

(* ---- the rotation distance reported with a duplicate ---- *)
Lemma legacy_loop_dup_idx f : forall e x vs x0 ca, good x0 -> 1 <= e -> x = Nat.iter (e - 1) rotT x0 ->
  forall i e', legacy_loop f e x [ca] vs = inr (i, e') ->
  i = 0 /\ Nat.iter e' rotT x0 = ca /\ e <= e' < e + f.
Proof.
  induction f as [|f IH]; intros e x vs x0 ca G0 He Hx i e'; cbn [legacy_loop]; [discriminate|].
  assert (G : good x) by (rewrite Hx; apply good_iter, G0).
  rewrite (legacy_rot1_good x G).
  assert (Hy : rotT x = Nat.iter (S e - 1) rotT x0).
  { rewrite Hx. replace (S e - 1) with (S (e - 1)) by lia. reflexivity. }
  destruct (first_index (rotT x) vs) as [e0|] eqn:F.
  - intros H. destruct (IH (S e) (rotT x) vs x0 ca G0 ltac:(lia) Hy i e' H) as (A & B & C).
    split; [exact A|]. split; [exact B|lia].
  - destruct (ckey_eqb (rotT x) ca) eqn:E.
    + intros H. injection H as <- <-. split; [reflexivity|]. split; [|lia].
      apply ckey_eqb_eq in E. rewrite <- E, Hy. f_equal. lia.
    + intros H. destruct (IH (S e) (rotT x) ((rotT x, e) :: vs) x0 ca G0 ltac:(lia) Hy i e' H) as (A & B & C).
      split; [exact A|]. split; [exact B|lia].
Qed.

Lemma wrap_small d n : (0 < n)%Z -> (- n < d < n)%Z -> wrap d n = if (d <? 0)%Z then (d + n)%Z else d.
Proof.
  intros Hn Hd. rewrite (wrap_mod d n Hn). destruct (d <? 0)%Z eqn:E.
  - apply Z.ltb_lt in E. replace d with ((d + n) + (-1) * n)%Z at 1 by ring.
    rewrite Z_mod_plus_full. apply Z.mod_small. lia.
  - apply Z.ltb_ge in E. apply Z.mod_small. lia.
Qed.

(* with A registered (canonical form ca, A = ra turns of ca), a request B reported as its duplicate at variant e:
   the registered object is the one reported (index 0), and the reported distance (size - e) - ra, wrapped the way
   rotate_pairtable_loc wraps it, is the number of turns that leads from A's representation to B's *)
Theorem legacy_dup_rotations A B ca ra i e : goodNE A -> goodNE B ->
  legacy_canonical (fst A) (snd A) [] = LOk ca ra ->
  legacy_canonical (fst B) (snd B) [ca] = LDup i e ->
  let n := nstr (snd B) in
  i = 0 /\ 1 <= e <= n /\ nstr (snd A) = n /\
  B = Nat.iter (Z.to_nat (wrap (Z.of_nat (n - e) - Z.of_nat ra) (Z.of_nat n))) rotT A.
Proof.
  intros GA GB HA HB n.
  destruct (legacy_rotations_spec A GA ca ra HA) as [HAc Hra].
  pose proof GB as [G N]. revert HB. unfold legacy_canonical. rewrite (aligned_len B G). cbn [negb].
  rewrite (n_strands_nstr B GB). fold n.
  assert (Hn : n <> 0) by (unfold n, nstr; lia).
  assert (HBeq : (fst B, snd B) = B) by (destruct B; reflexivity). rewrite HBeq.
  destruct (legacy_loop n 1 B [ca] []) as [[vs|k]|[i0 e0]] eqn:L.
  - destruct (min_key (map fst vs)) as [c|]; [|intros H; discriminate H].
    destruct (first_index c vs); intros H; discriminate H.
  - intros H; discriminate H.
  - intros H. injection H as <- <-.
    destruct (legacy_loop_dup_idx n 1 B [] B ca G (le_n 1) eq_refl i0 e0 L) as (Hi & Hc & He).
    assert (Gc : good ca) by (rewrite <- Hc; apply good_iter, G).
    assert (Nc : nstr (snd ca) = n) by (rewrite <- Hc; apply nstr_iter_rotT, G).
    assert (NA : nstr (snd A) = n) by (rewrite <- HAc, nstr_iter_rotT by exact Gc; exact Nc).
    split; [exact Hi|]. split; [lia|]. split; [exact NA|].
    assert (HBc : B = Nat.iter (n - e0) rotT ca).
    { rewrite <- Hc, <- iter_add. replace (n - e0 + e0) with n by lia. symmetry. apply (rotT_orbit B G). }
    rewrite wrap_small by lia.
    rewrite <- HAc at 1. rewrite <- iter_add.
    destruct (Z.of_nat (n - e0) - Z.of_nat ra <? 0)%Z eqn:E.
    + apply Z.ltb_lt in E.
      replace (Z.to_nat (Z.of_nat (n - e0) - Z.of_nat ra + Z.of_nat n) + ra) with ((n - e0) + n) by lia.
      assert (Orb : Nat.iter n rotT ca = ca) by (rewrite <- Nc; apply (rotT_orbit ca Gc)).
      rewrite iter_add, Orb. exact HBc.
    + apply Z.ltb_ge in E.
      replace (Z.to_nat (Z.of_nat (n - e0) - Z.of_nat ra) + ra) with (n - e0) by lia. exact HBc.
Qed.

Example ex_legacy_dup_rotations :
  let b := [98%N] in let a := [97%N] in let c := [99%N] in let p := [43%N] in
  let dots := [46; 43; 46; 43; 46]%N in
  legacy_canonical [b; p; c; p; a] dots [] = LOk ([a; p; b; p; c], dots) 1 /\
  legacy_canonical [c; p; a; p; b] dots [([a; p; b; p; c], dots)] = LDup 0 1 /\
  wrap (Z.of_nat (3 - 1) - 1) 3 = 1%Z /\
  rotT ([b; p; c; p; a], dots) = ([c; p; a; p; b], dots).
Proof. vm_compute. repeat split; reflexivity. Qed.
