(* C20: the rotation distance the legacy complex records (`DSD_Complex.rotations`, the analogue of
   `ComplexS.turns`): `rotations` turns of the canonical form give back the presented representation. *)
From Coq Require Import List Arith ZArith Lia Bool NArith.
From DSD Require Import Base.Str Base.Errors Base.Val Base.Sort Model.ComplexUtils Model.Rotation Model.Compare
  Model.Canon Model.Iupac Model.Legacy
  Proofs.C10 Proofs.RotTree Proofs.RotOnce Proofs.RotOrbit Proofs.RotStrands Proofs.RotGen Proofs.C02 Proofs.C17 Proofs.C20.
Import ListNotations.

Lemma first_index_In k vs e : first_index k vs = Some e -> In (k, e) vs.
Proof.
  induction vs as [|[k' e'] r IH]; cbn [first_index]; [discriminate|].
  destruct (ckey_eqb k k') eqn:E.
  - apply ckey_eqb_eq in E. subst k'. intros H. injection H as ->. left. reflexivity.
  - intros H. right. apply IH, H.
Qed.

Lemma good_iter x j : good x -> good (Nat.iter j rotT x).
Proof. intros G. induction j as [|j IH]; cbn [Nat.iter]; [exact G|]. apply rotT_ok, IH. Qed.

(* every variant recorded with index i is the i-th rotation of the presented complex x0 *)
Lemma legacy_loop_idx f : forall e x vs x0, good x0 -> 1 <= e -> x = Nat.iter (e - 1) rotT x0 ->
  (forall k i, In (k, i) vs -> k = Nat.iter i rotT x0 /\ 1 <= i < e) ->
  forall vs', legacy_loop f e x [] vs = inl (Ok vs') ->
  forall k i, In (k, i) vs' -> k = Nat.iter i rotT x0 /\ 1 <= i < e + f.
Proof.
  induction f as [|f IH]; intros e x vs x0 G0 He Hx Hvs vs'; cbn [legacy_loop].
  - intros H. injection H as <-. intros k i Hin. apply in_rev in Hin.
    destruct (Hvs k i Hin) as [H1 H2]. split; [exact H1|lia].
  - assert (G : good x) by (rewrite Hx; apply good_iter, G0).
    rewrite (legacy_rot1_good x G).
    assert (Hy : rotT x = Nat.iter (S e - 1) rotT x0).
    { rewrite Hx. replace (S e - 1) with (S (e - 1)) by lia. reflexivity. }
    destruct (first_index (rotT x) vs) as [e0|] eqn:F.
    + intros H k i Hin.
      destruct (IH (S e) (rotT x) vs x0 G0 ltac:(lia) Hy
                   ltac:(intros k' i' H'; destruct (Hvs k' i' H') as [A B]; split; [exact A|lia])
                   vs' H k i Hin) as [A B].
      split; [exact A|lia].
    + intros H k i Hin.
      assert (Hvs' : forall k' i', In (k', i') ((rotT x, e) :: vs) -> k' = Nat.iter i' rotT x0 /\ 1 <= i' < S e).
      { intros k' i' [H'|H'].
        - injection H' as <- <-. split; [|lia]. rewrite Hy. f_equal. lia.
        - destruct (Hvs k' i' H') as [A B]. split; [exact A|lia]. }
      destruct (IH (S e) (rotT x) ((rotT x, e) :: vs) x0 G0 ltac:(lia) Hy Hvs' vs' H k i Hin) as [A B].
      split; [exact A|lia].
Qed.

Theorem legacy_rotations_spec x : goodNE x -> forall c r,
  legacy_canonical (fst x) (snd x) [] = LOk c r ->
  Nat.iter r rotT c = x /\ r < nstr (snd x).
Proof.
  intros GN c r. pose proof GN as [G N]. unfold legacy_canonical. rewrite (aligned_len x G). cbn [negb].
  rewrite (n_strands_nstr x GN). set (n := nstr (snd x)).
  assert (Hn : n <> 0) by (unfold n, nstr; lia).
  destruct x as [sq st]. cbn [fst snd] in *.
  assert (Hnn : n = nstr st) by reflexivity. clearbody n.
  destruct (legacy_loop_keys n 1 (sq, st) [] G) as (vs & E & K). rewrite E.
  destruct (min_key (map fst vs)) as [c'|] eqn:M; [|discriminate].
  destruct (first_index c' vs) as [e|] eqn:F; [|discriminate].
  intros H. injection H as <- <-.
  apply first_index_In in F.
  destruct (legacy_loop_idx n 1 (sq, st) [] (sq, st) G (le_n 1) eq_refl
              ltac:(intros k i []) vs E c' e F) as [Hc He].
  assert (Le : (e <=? n) = true) by (apply Nat.leb_le; lia). rewrite Le.
  split.
  - rewrite Hc, <- iter_add. replace (n - e + e) with n by lia.
    rewrite Hnn. apply (rotT_orbit (sq, st) G).
  - lia.
Qed.

(* together with the canonical-form theorem: legacy `rotations` and current `turns` denote the same
   representation of the same canonical form *)
Theorem legacy_rotations_vs_turns x : goodNE x ->
  exists c r, legacy_canonical (fst x) (snd x) [] = LOk c r /\ canon_T x = Some c /\
              Nat.iter r rotT c = x /\ r < nstr (snd x).
Proof.
  intros GN. destruct (legacy_canonical_form_eq x GN) as (c & r & E & C).
  exists c, r. split; [exact E|]. split; [exact C|]. exact (legacy_rotations_spec x GN c r E).
Qed.

(* not vacuous: a three-strand complex presented in a non-canonical rotation *)
Example ex_legacy_rotations :
  let b := [98%N] in let a := [97%N] in let c := [99%N] in let p := [43%N] in
  legacy_canonical [b; p; c; p; a] [46; 43; 46; 43; 46]%N [] =
    LOk ([a; p; b; p; c], [46; 43; 46; 43; 46]%N) 1.
Proof. vm_compute. reflexivity. Qed.
