(* C09: split_complex_pt on the table of an arbitrary tree (all well-formed
   structures): the parts, their strands and their pairs. *)
From Coq Require Import List Arith Lia Bool NArith Permutation Sorted.
From DSD Require Import Base.Str Base.Errors Model.ComplexUtils Dyck.Dyck
  Proofs.Mpt Proofs.Db Proofs.Assoc Proofs.Loops Proofs.LoopsConn Proofs.Split
  Proofs.SplitCut Proofs.SplitStep.
Import ListNotations.

(* ------------------------------------------------------------------ *)
(* a part of a table                                                    *)

(* pt is the table T restricted to the strands `sub` (original indices, in the
   order of the part): same shape, unpaired stays unpaired, every pair of a
   strand of the part stays inside the part and is re-indexed; in particular no
   pair is lost and none is introduced *)
Definition part_ok (T : tab) (sub : list nat) (pt : tab) : Prop :=
  length pt = length sub /\
  forall r c, r < length sub ->
    match get T (nth r sub 0, c) with
    | None => get pt (r, c) = None
    | Some None => get pt (r, c) = Some None
    | Some (Some x) =>
        exists r', r' < length sub /\ fst x = nth r' sub 0 /\ get pt (r, c) = Some (Some (r', snd x))
    end.

(* ------------------------------------------------------------------ *)
(* reading tables                                                       *)

Lemma get_map g (T : tab) a : get (map (map (option_map g)) T) a = option_map (option_map g) (get T a).
Proof.
  unfold get, tab, row in *. rewrite nth_error_map. destruct (nth_error T (fst a)) as [r|]; [|reflexivity].
  cbn [option_map]. rewrite nth_error_map. destruct (nth_error r (snd a)); reflexivity.
Qed.

Lemma nth_error_skipn {A} (l : list A) : forall i r, nth_error (skipn i l) r = nth_error l (i + r).
Proof.
  induction l as [|x l IH]; intros i r.
  - rewrite skipn_nil. destruct r, i; reflexivity.
  - destruct i as [|i]; [reflexivity|]. cbn [skipn Nat.add nth_error]. apply IH.
Qed.

Lemma nth_error_firstn' {A} (l : list A) : forall n r, r < n -> nth_error (firstn n l) r = nth_error l r.
Proof.
  induction l as [|x l IH]; intros n r H.
  - rewrite firstn_nil. reflexivity.
  - destruct n as [|n]; [lia|]. destruct r as [|r]; [reflexivity|]. cbn [firstn nth_error]. apply IH. lia.
Qed.

Lemma get_slice (T : tab) i j r c : r < j - i -> get (slice T i j) (r, c) = get T (i + r, c).
Proof.
  intros H. unfold get, slice. cbn [fst snd].
  rewrite nth_error_firstn' by exact H. rewrite nth_error_skipn. reflexivity.
Qed.

Definition oix (n i j : nat) : list nat := seq 0 i ++ seq (S j) (n - S j).

Lemma oix_length n i j : i <= S j -> S j <= n -> length (oix n i j) = n - (S j - i).
Proof. intros. unfold oix. rewrite app_length, !seq_length. lia. Qed.

Lemma oix_nth n i j u : i <= S j -> S j <= n -> u < n - (S j - i) ->
  nth u (oix n i j) 0 = if u <? i then u else S j + (u - i).
Proof.
  intros Hi Hj Hu. unfold oix. destruct (u <? i) eqn:E.
  - apply Nat.ltb_lt in E. rewrite app_nth1 by (rewrite seq_length; exact E). apply seq_nth. exact E.
  - apply Nat.ltb_ge in E. rewrite app_nth2 by (rewrite seq_length; exact E). rewrite seq_length.
    apply seq_nth. lia.
Qed.

Lemma get_outer (T : tab) i j u c :
  i <= S j -> S j <= length T -> u < length T - (S j - i) ->
  get (firstn i T ++ skipn (S j) T) (u, c) = get T (nth u (oix (length T) i j) 0, c).
Proof.
  intros Hi Hj Hu. rewrite oix_nth by assumption. unfold get. cbn [fst snd].
  assert (Lf : length (firstn i T) = i) by (rewrite firstn_length; lia).
  destruct (u <? i) eqn:E.
  - apply Nat.ltb_lt in E. rewrite nth_error_app1 by lia. rewrite nth_error_firstn' by exact E. reflexivity.
  - apply Nat.ltb_ge in E. rewrite nth_error_app2 by lia. rewrite Lf, nth_error_skipn. reflexivity.
Qed.

(* tree tables: entries in range, symmetric *)
Lemma tree_get_range d a b : get (tab_of d) a = Some (Some b) -> fst a <= nbreaks d /\ fst b <= nbreaks d.
Proof.
  intros H. apply get_tab_of_In in H. apply (aents_strands d (0, 0)) in H. cbn [fst] in H. lia.
Qed.

Lemma tree_get_sym d a b : get (tab_of d) a = Some (Some b) -> get (tab_of d) b = Some (Some a).
Proof. intros H. apply get_tab_of_In. apply (aents_sym d (0, 0)). apply get_tab_of_In. exact H. Qed.

(* ------------------------------------------------------------------ *)
(* parts: identity, composition, the two halves of a step               *)

Lemma part_ok_id d : part_ok (tab_of d) (seq 0 (S (nbreaks d))) (tab_of d).
Proof.
  split; [rewrite tab_of_length, seq_length; reflexivity|].
  intros r c Hr. rewrite seq_length in Hr. rewrite seq_nth by exact Hr. cbn [Nat.add].
  destruct (get (tab_of d) (r, c)) as [[x|]|] eqn:E; [|reflexivity|reflexivity].
  destruct (tree_get_range _ _ _ E) as [_ Hx]. exists (fst x). rewrite seq_length.
  split; [lia|]. split; [rewrite seq_nth by lia; reflexivity|]. destruct x; reflexivity.
Qed.

Lemma part_ok_comp T ix TQ sub pt :
  part_ok T ix TQ -> part_ok TQ sub pt -> (forall k, In k sub -> k < length ix) ->
  part_ok T (map (fun k => nth k ix 0) sub) pt.
Proof.
  intros [L1 H1] [L2 H2] Hb. split; [rewrite map_length; exact L2|].
  intros r c Hr. rewrite map_length in Hr.
  assert (Hn : forall r, r < length sub -> nth r (map (fun k => nth k ix 0) sub) 0 = nth (nth r sub 0) ix 0).
  { intros r0 Hr0. rewrite (nth_indep _ 0 (nth 0 ix 0)) by (rewrite map_length; exact Hr0).
    apply (map_nth (fun k => nth k ix 0)). }
  rewrite (Hn r Hr).
  assert (Hu : nth r sub 0 < length ix) by (apply Hb, nth_In, Hr).
  specialize (H1 (nth r sub 0) c Hu). specialize (H2 r c Hr).
  destruct (get T (nth (nth r sub 0) ix 0, c)) as [[x|]|].
  - destruct H1 as (u' & Hu' & Hx & HQ). rewrite HQ in H2.
    destruct H2 as (r' & Hr' & Hx' & Hp). cbn [fst snd] in *.
    exists r'. rewrite map_length. split; [exact Hr'|]. split; [|exact Hp].
    rewrite (Hn r' Hr'), <- Hx'. exact Hx.
  - rewrite H1 in H2. exact H2.
  - rewrite H1 in H2. exact H2.
Qed.

(* the spliced block *)
Lemma part_ok_inner d M i j :
  S j <= S (nbreaks d) -> nbreaks M = j - i -> i <= j ->
  slice (tab_of d) i (S j) = map (map (option_map (up i))) (tab_of M) ->
  part_ok (tab_of d) (seq i (S j - i)) (tab_of M).
Proof.
  intros Hj HM Hij Hs. split; [rewrite tab_of_length, seq_length; lia|].
  intros r c Hr. rewrite seq_length in Hr. rewrite seq_nth by exact Hr.
  rewrite <- (get_slice (tab_of d) i (S j) r c Hr), Hs, get_map.
  destruct (get (tab_of M) (r, c)) as [[y|]|] eqn:E; cbn [option_map]; [|reflexivity|reflexivity].
  destruct (tree_get_range _ _ _ E) as [_ Hy]. exists (fst y). rewrite seq_length.
  split; [lia|]. split; [|destruct y; reflexivity].
  unfold up. cbn [fst snd]. rewrite seq_nth by lia. lia.
Qed.

(* rows outside the block do not pair into it *)
Lemma outer_closed d M i j s c x :
  S j <= S (nbreaks d) -> nbreaks M = j - i -> i <= j ->
  slice (tab_of d) i (S j) = map (map (option_map (up i))) (tab_of M) ->
  get (tab_of d) (s, c) = Some (Some x) -> (s < i \/ j < s) -> fst x < i \/ j < fst x.
Proof.
  intros Hj HM Hij Hs Hg Hout. destruct x as [xs xc]. cbn [fst snd] in *.
  destruct (Nat.lt_ge_cases xs i) as [H|H]; [left; exact H|].
  destruct (Nat.lt_ge_cases j xs) as [H'|H']; [right; exact H'|exfalso].
  apply tree_get_sym in Hg.
  replace xs with (i + (xs - i)) in Hg by lia.
  rewrite <- (get_slice (tab_of d) i (S j)) in Hg by lia.
  rewrite Hs, get_map in Hg.
  destruct (get (tab_of M) (xs - i, xc)) as [[y|]|] eqn:E; cbn [option_map] in Hg; try discriminate.
  injection Hg as Hy. destruct (tree_get_range _ _ _ E) as [_ Hr]. lia.
Qed.

(* the rest *)
Lemma part_ok_outer d M Q i j :
  j < nbreaks d -> nbreaks M = j - i -> i <= j ->
  nbreaks Q = nbreaks d - (S j - i) ->
  slice (tab_of d) i (S j) = map (map (option_map (up i))) (tab_of M) ->
  tab_of Q = map (map (option_map (fun x : loc =>
               (if fst x <? i then fst x else fst x - (S j - i), snd x))))
                 (firstn i (tab_of d) ++ skipn (S j) (tab_of d)) ->
  part_ok (tab_of d) (oix (S (nbreaks d)) i j) (tab_of Q).
Proof.
  intros Hj' HM Hij HQ Hs Ht. assert (Hj : S j <= S (nbreaks d)) by lia.
  assert (Lo : length (oix (S (nbreaks d)) i j) = S (nbreaks d) - (S j - i)) by (apply oix_length; lia).
  split; [rewrite tab_of_length, Lo; lia|].
  intros u c Hu. rewrite Lo in Hu.
  pose proof (get_outer (tab_of d) i j u c ltac:(lia)) as Hg. rewrite tab_of_length in Hg.
  specialize (Hg ltac:(lia) Hu). rewrite Ht, get_map, Hg.
  assert (Hrow : let s := nth u (oix (S (nbreaks d)) i j) 0 in s < i \/ j < s).
  { cbn zeta. rewrite oix_nth by lia. destruct (u <? i) eqn:E; [apply Nat.ltb_lt in E; lia|lia]. }
  cbn zeta in Hrow.
  destruct (get (tab_of d) (nth u (oix (S (nbreaks d)) i j) 0, c)) as [[x|]|] eqn:E; cbn [option_map]; [|reflexivity|reflexivity].
  pose proof (outer_closed d M i j _ c x Hj HM Hij Hs E Hrow) as Hx.
  destruct (tree_get_range _ _ _ E) as [_ Hxr]. cbn [fst snd]. rewrite Lo.
  destruct (fst x <? i) eqn:Ex.
  - apply Nat.ltb_lt in Ex. exists (fst x). split; [lia|]. split; [|reflexivity].
    rewrite oix_nth by lia. replace (fst x <? i) with true by (symmetry; apply Nat.ltb_lt; exact Ex). reflexivity.
  - apply Nat.ltb_ge in Ex. exists (fst x - (S j - i)). split; [lia|]. split; [|reflexivity].
    rewrite oix_nth by lia.
    replace (fst x - (S j - i) <? i) with false by (symmetry; apply Nat.ltb_ge; lia). lia.
Qed.

(* ------------------------------------------------------------------ *)
(* strands                                                              *)

Lemma sel_seq_all {A} (stab : list (list A)) : sel stab (seq 0 (length stab)) = stab.
Proof.
  unfold sel. apply nth_ext with (d := []) (d' := []).
  - rewrite map_length, seq_length. reflexivity.
  - intros n Hn. rewrite map_length, seq_length in Hn.
    rewrite (nth_indep _ [] (nth 0 stab [])) by (rewrite map_length, seq_length; exact Hn).
    rewrite (map_nth (fun k => nth k stab [])). rewrite seq_nth by exact Hn. reflexivity.
Qed.

Lemma nth_error_ext' {A} (l l' : list A) : (forall n, nth_error l n = nth_error l' n) -> l = l'.
Proof.
  revert l'. induction l as [|x l IH]; intros [|y l'] H.
  - reflexivity.
  - specialize (H 0). discriminate.
  - specialize (H 0). discriminate.
  - pose proof (H 0) as H0. injection H0 as ->. f_equal. apply IH. intros n. apply (H (S n)).
Qed.

Lemma sel_seq_slice {A} (stab : list (list A)) i j :
  i <= j -> j <= length stab -> sel stab (seq i (j - i)) = slice stab i j.
Proof.
  intros Hij Hj. apply nth_error_ext'. intros r. unfold sel, slice.
  rewrite nth_error_map.
  destruct (Nat.lt_ge_cases r (j - i)) as [Hr|Hr].
  - rewrite nth_error_firstn' by exact Hr. rewrite nth_error_skipn.
    assert (Hs : nth_error (seq i (j - i)) r = Some (i + r)).
    { rewrite (nth_error_nth' _ 0) by (rewrite seq_length; exact Hr). rewrite seq_nth by exact Hr. reflexivity. }
    rewrite Hs. cbn [option_map]. symmetry. apply nth_error_nth'. lia.
  - rewrite (proj2 (nth_error_None (seq i (j - i)) r)) by (rewrite seq_length; exact Hr).
    cbn [option_map]. symmetry. apply nth_error_None. rewrite firstn_length. lia.
Qed.

Lemma firstn_seq' n : forall s k, k <= n -> firstn k (seq s n) = seq s k.
Proof.
  induction n as [|n IH]; intros s k Hk.
  - replace k with 0 by lia. reflexivity.
  - destruct k as [|k]; [reflexivity|]. cbn [seq firstn]. f_equal. apply IH. lia.
Qed.

Lemma skipn_seq' n : forall s k, k <= n -> skipn k (seq s n) = seq (s + k) (n - k).
Proof.
  induction n as [|n IH]; intros s k Hk.
  - replace k with 0 by lia. reflexivity.
  - destruct k as [|k]; [rewrite Nat.add_0_r; reflexivity|]. cbn [seq skipn Nat.sub].
    rewrite IH by lia. f_equal. lia.
Qed.

Lemma outer_stab {A} (stab : list (list A)) i j :
  i <= S j -> S j <= length stab ->
  firstn i stab ++ skipn (S j) stab = sel stab (oix (length stab) i j).
Proof.
  intros Hi Hj. rewrite <- (sel_seq_all stab) at 1 2. rewrite sel_outer. f_equal.
  unfold oix. rewrite firstn_seq' by lia. rewrite skipn_seq' by lia. reflexivity.
Qed.

Lemma nth_seq_all (l : list nat) : map (fun k => nth k l 0) (seq 0 (length l)) = l.
Proof.
  apply nth_ext with (d := 0) (d' := 0).
  - rewrite map_length, seq_length. reflexivity.
  - intros n Hn. rewrite map_length, seq_length in Hn.
    rewrite (nth_indep _ 0 (nth 0 l 0)) by (rewrite map_length, seq_length; exact Hn).
    rewrite (map_nth (fun k => nth k l 0)). rewrite seq_nth by exact Hn. reflexivity.
Qed.

Lemma sel_sel {A} (stab : list (list A)) ix sub :
  (forall k, In k sub -> k < length ix) ->
  sel (sel stab ix) sub = sel stab (map (fun k => nth k ix 0) sub).
Proof.
  intros Hb. unfold sel. rewrite map_map. apply map_ext_in. intros k Hk.
  rewrite (nth_indep _ [] (nth 0 stab [])) by (rewrite map_length; apply Hb, Hk).
  apply (map_nth (fun k => nth k stab []) ix 0 k).
Qed.

Lemma seq_sorted n : forall s, StronglySorted lt (seq s n).
Proof.
  induction n as [|n IH]; intros s; cbn [seq]; [constructor|].
  constructor; [apply IH|]. rewrite Forall_forall. intros x Hx. apply in_seq in Hx. lia.
Qed.

Lemma oix_sorted n i j : i <= S j -> StronglySorted lt (oix n i j).
Proof.
  intros Hi. unfold oix. apply ss_app_iff. split; [apply seq_sorted|]. split; [apply seq_sorted|].
  intros x y Hx Hy. apply in_seq in Hx. apply in_seq in Hy. lia.
Qed.

Lemma sorted_nth_lt l : StronglySorted lt l -> forall a b, a < b -> b < length l -> nth a l 0 < nth b l 0.
Proof.
  induction 1 as [|x l Hs IH Hf]; intros a b Hab Hb; [cbn in Hb; lia|].
  destruct b as [|b]; [lia|]. cbn [length] in Hb. destruct a as [|a]; cbn [nth].
  - rewrite Forall_forall in Hf. apply Hf. apply nth_In. lia.
  - apply IH; lia.
Qed.

Lemma sorted_map_nth l sub :
  StronglySorted lt l -> StronglySorted lt sub -> (forall k, In k sub -> k < length l) ->
  StronglySorted lt (map (fun k => nth k l 0) sub).
Proof.
  intros Hl. induction 1 as [|x sub Hs IH Hf]; intros Hb; cbn [map]; [constructor|].
  constructor.
  - apply IH. intros k Hk. apply Hb. right. exact Hk.
  - rewrite Forall_forall in *. intros y Hy. apply in_map_iff in Hy. destruct Hy as (k & <- & Hk).
    apply sorted_nth_lt; [exact Hl|apply Hf, Hk|apply Hb; right; exact Hk].
Qed.

(* ------------------------------------------------------------------ *)
(* the theorem                                                          *)

Definition good_part (T : tab) (sub : list nat) (pt : tab) : Prop :=
  part_ok T sub pt /\ (forall k, In k sub -> k < length T) /\
  exists d', pt = tab_of d' /\ NoDup (ends d').

Lemma step_facts d i j M Q :
  step_result d i j M Q ->
  i <= j /\ j < nbreaks d /\ nbreaks M = j - i /\ nbreaks Q = nbreaks d - (S j - i) /\
  (forall A (stab : list (list A)),
     splice stab (tab_of d) i j =
     ((slice stab i (S j), tab_of M), (firstn i stab ++ skipn (S j) stab, tab_of Q))) /\
  slice (tab_of d) i (S j) = map (map (option_map (up i))) (tab_of M).
Proof.
  intros [Hi Ht|a Hi Haj Hc].
  - subst i. destruct (take_until_spec _ _ _ _ Ht) as [Hd Hn].
    assert (Hnd : nbreaks d = nbreaks M + S (nbreaks Q)) by (rewrite Hd, nbreaks_dapp; reflexivity).
    split; [lia|]. split; [lia|]. split; [lia|]. split; [lia|]. split.
    + intros A stab. apply (splice_take stab d j M Q Ht).
    + destruct (splice_take (@nil (list unit)) d j M Q Ht) as (_ & Hs & _). rewrite Hs.
      rewrite <- (map_id (tab_of M)) at 1. apply map_ext. intros r.
      rewrite <- (map_id r) at 1. apply map_ext. intros [[s c]|]; cbn [option_map]; [|reflexivity].
      unfold up. cbn [fst snd]. rewrite Nat.add_0_r. reflexivity.
  - subst i. destruct (cutm_bound _ _ _ _ _ Hc Haj) as (H1 & H2 & H3).
    split; [lia|]. split; [lia|]. split; [lia|]. split; [lia|]. split.
    + intros A stab. apply (splice_cutm stab d a j M Q Hc Haj).
    + apply (splice_cutm (@nil (list unit)) d a j M Q Hc Haj).
Qed.

Theorem split_tree {A} fuel : forall d (stab : list (list A)),
  length stab = S (nbreaks d) -> S (nbreaks d) < fuel ->
  exists idxs pts,
    split_complex_pt fuel stab (tab_of d) = Ok (combine (map (sel stab) idxs) pts) /\
    Forall2 (good_part (tab_of d)) idxs pts /\
    Permutation (concat idxs) (seq 0 (S (nbreaks d))) /\
    Forall (StronglySorted lt) idxs.
Proof.
  induction fuel as [|fuel IH]; intros d stab Hlen Hfuel; [lia|].
  destruct (NoDup_dec_nat (ends d)) as [Hnd|Hnd].
  - (* connected: one part, the complex itself *)
    exists [seq 0 (S (nbreaks d))], [tab_of d].
    rewrite (split_connected_id stab d fuel Hnd). cbn [map combine].
    rewrite <- Hlen, sel_seq_all. split; [reflexivity|]. rewrite Hlen. split; [|split].
    + constructor; [|constructor]. split; [apply part_ok_id|]. split; [|eauto].
      intros k Hk. apply in_seq in Hk. rewrite tab_of_length. lia.
    + cbn [concat]. rewrite app_nil_r. reflexivity.
    + constructor; [apply seq_sorted|constructor].
  - (* disconnected: one step, then the rest *)
    destruct (split_step d Hnd) as (i & j & M & Q & Hs & Hr & HM).
    destruct (step_facts d i j M Q Hr) as (Hij & Hj & HnM & HnQ & Hsp & Hsl).
    assert (HtQ : tab_of Q = map (map (option_map (fun x : loc =>
               (if fst x <? i then fst x else fst x - (S j - i), snd x))))
                 (firstn i (tab_of d) ++ skipn (S j) (tab_of d))).
    { pose proof (Hsp unit []) as H. unfold splice in H. injection H as _ H. symmetry. exact H. }
    destruct fuel as [|fuel']; [lia|].
    set (stabQ := firstn i stab ++ skipn (S j) stab).
    assert (HlQ : length stabQ = S (nbreaks Q)).
    { unfold stabQ. rewrite app_length, firstn_length, skipn_length. lia. }
    destruct (IH Q stabQ HlQ ltac:(lia)) as (idxsQ & ptsQ & HQ1 & HQ2 & HQ3 & HQ4).
    set (ox := oix (S (nbreaks d)) i j).
    assert (Lox : length ox = S (nbreaks Q)) by (unfold ox; rewrite oix_length; lia).
    assert (HstabQ : stabQ = sel stab ox).
    { unfold stabQ, ox. rewrite <- Hlen. apply outer_stab; lia. }
    assert (HbQ : forall sub, In sub idxsQ -> forall k, In k sub -> k < length ox).
    { intros sub Hsub k Hk. rewrite Lox.
      assert (Hin : In k (concat idxsQ)) by (apply in_concat; eauto).
      eapply Permutation_in in Hin; [|exact HQ3]. apply in_seq in Hin. lia. }
    exists (seq i (S j - i) :: map (map (fun k => nth k ox 0)) idxsQ), (tab_of M :: ptsQ).
    split; [|split; [|split]].
    + (* the computation *)
      change (split_complex_pt (S (S fuel')) stab (tab_of d)) with
        (dor le <- make_loop_index_comp (tab_of d);
         let ext := snd le in
         match ext with
         | [] => Ok []
         | _ => match split_scan (length ext) [(0, 0)] 0 ext with
                | SYield => Ok [(stab, tab_of d)]
                | SSplice i j =>
                    let '((iss, ipt), (oss, opt)) := splice stab (tab_of d) i j in
                    dor a <- split_complex_pt (S fuel') iss ipt;
                    dor b <- split_complex_pt (S fuel') oss opt;
                    Ok (a ++ b)
                | SFail k => Err k
                end
         end).
      rewrite li_spec_comp. cbn [rbind snd].
      destruct (chain 0 (ends d)) as [|e ext'] eqn:E.
      { exfalso. unfold ends in E. destruct (bl d 0 0); discriminate. }
      rewrite Hs, Hsp.
      rewrite (split_connected_id (slice stab i (S j)) M fuel' HM). cbn [rbind].
      fold stabQ. rewrite HQ1. cbn [rbind app map combine]. f_equal. f_equal.
      * f_equal. symmetry. apply sel_seq_slice; lia.
      * f_equal. rewrite map_map. apply map_ext_in. intros sub Hsub.
        rewrite HstabQ. apply sel_sel. apply HbQ, Hsub.
    + (* the parts *)
      constructor.
      * split; [apply (part_ok_inner d M i j); [lia|exact HnM|exact Hij|exact Hsl]|].
        split; [|eauto]. intros k Hk. apply in_seq in Hk. rewrite tab_of_length. lia.
      * assert (Hpo : part_ok (tab_of d) ox (tab_of Q)).
        { apply (part_ok_outer d M Q i j); assumption. }
        clear - HQ2 HbQ Hpo Lox HnQ Hj Hij. revert HbQ.
        induction HQ2 as [|sub pt idxsQ ptsQ [Hp [Hk Hd]] _ IHf]; intros HbQ; cbn [map]; constructor.
        -- split; [eapply part_ok_comp; [exact Hpo|exact Hp|apply HbQ; left; reflexivity]|].
           split; [|exact Hd]. intros k Hin. apply in_map_iff in Hin. destruct Hin as (k' & <- & Hk').
           assert (Hk2 : k' < length ox) by (eapply HbQ; [left; reflexivity|exact Hk']).
           unfold ox in *. rewrite oix_nth by (rewrite ?oix_length in Hk2; lia).
           rewrite oix_length in Hk2 by lia. rewrite tab_of_length.
           destruct (k' <? i); lia.
        -- apply IHf. intros sub' Hs'. apply HbQ. right. exact Hs'.
    + (* partition *)
      cbn [concat]. rewrite <- concat_map.
      rewrite (Permutation_map _ HQ3). rewrite <- Lox, nth_seq_all.
      assert (Hseq : seq 0 (S (nbreaks d)) = seq 0 i ++ seq i (S j - i) ++ seq (S j) (S (nbreaks d) - S j)).
      { replace (S (nbreaks d)) with (i + ((S j - i) + (S (nbreaks d) - S j))) at 1 by lia.
        rewrite seq_app, seq_app. cbn [Nat.add]. do 3 f_equal. lia. }
      rewrite Hseq. unfold ox, oix. apply Permutation_app_swap_app.
    + (* order *)
      constructor; [apply seq_sorted|]. rewrite Forall_forall. intros x Hx.
      apply in_map_iff in Hx. destruct Hx as (sub & <- & Hsub).
      apply sorted_map_nth.
      * unfold ox. apply oix_sorted. lia.
      * rewrite Forall_forall in HQ4. apply HQ4, Hsub.
      * apply HbQ, Hsub.
Qed.
