(* Reader model, C14: strand-notation complexes, macrostate members, reaction members. *)
From Coq Require Import List NArith ZArith Bool Arith Lia Permutation.
From DSD Require Import Base.Str Base.Errors Model.ComplexUtils Model.RegStr Model.ReaderStr Model.PyNum
  Model.Peg Model.Kernel Model.DispatchKernel Model.Heap Model.Registry Model.Reader Model.ReaderShape
  Proofs.RegHeap Proofs.RegInv Proofs.RegCalls Proofs.ReaderBasic Proofs.ReaderStmt Proofs.ReaderHeap
  Proofs.ReaderInv Proofs.ReaderHoare Proofs.ReaderNoFault Proofs.ReaderThms Proofs.ReaderBuilds Proofs.ReaderKernel.
Import ListNotations.

(* programs that only look objects up create nothing *)
Definition no_data (o : obj) : Prop := False.
Lemma no_data_kill : kill_closed no_data. Proof. intros o H. exact H. Qed.
Definition NewNone (h0 : list obj) (r : rstate) : Prop := HExt no_data h0 (heap (r_st r)).

Lemma newnone_call h0 f : (forall st, SExt no_data st (fst (f st))) -> Keeps (NewNone h0) (call f).
Proof.
  intros Hf r H. unfold call. destruct (Hf (r_st r)) as [_ X].
  destruct (f (r_st r)) as [st' [id b|k e]]; cbn [fst] in *; unfold NewNone; cbn [r_st with_st hold heap];
    eapply hext_trans; eauto using no_data_kill.
Qed.

Lemma newnone_strand_by_name ct g h0 nm : Keeps (NewNone h0) (strand_by_name ct g nm).
Proof.
  unfold strand_by_name. apply keeps_bind; [apply keeps_slot | intros c].
  apply newnone_call. intros st. apply sext_strand_call; [apply no_data_kill | intros es n E; discriminate].
Qed.
Lemma newnone_complex_by_name ct g h0 nm : Keeps (NewNone h0) (complex_by_name ct g nm).
Proof.
  unfold complex_by_name. apply keeps_bind; [apply keeps_slot | intros c].
  apply newnone_call. intros st. apply sext_cplx_call; [apply no_data_kill | intros es ss n cn ex t E; discriminate].
Qed.
Lemma newnone_macro_by_name ct g h0 nm : Keeps (NewNone h0) (macro_by_name ct g nm).
Proof.
  unfold macro_by_name. apply keeps_bind; [apply keeps_slot | intros c].
  apply newnone_call. intros st. apply sext_macro_call; [apply no_data_kill | intros ms n cn rep E; discriminate].
Qed.

Lemma newnone_strand_seq ct g h0 nm : Keeps (NewNone h0) (strand_seq ct g nm).
Proof.
  unfold strand_seq. apply keeps_bind; [apply newnone_strand_by_name | intros i].
  apply keeps_bind; [apply keeps_get_state | intros st; apply keeps_lift].
Qed.

Lemma nodata_not_any cd cs cc cm cr x h c : no_data x -> obj_ok cd cs cc cm cr h x -> o_cls x <> c.
Proof. intros []. Qed.

Section More.
  Variable ct : ctable.
  Variables cd cs cc cm cr : nat.
  Hypothesis CO : cfg_okb ct cd cs cc cm cr = true.
  Notation G := (g cd cs cc cm cr).
  Notation RGood := (RGood ct cd cs cc cm cr).
  Notation Op := (@Op ct cd cs cc cm cr).
  Let SO := co_slots ct cd cs cc cm cr CO.
  Let IO := co_io ct cd cs cc cm cr CO.

  (* ================================================================ *)
  (* strand-notation complexes (`structure` and `complex` statements)   *)

  Lemma join_names (rest : list (list elem)) : forall s0,
    map fst (fold_left (fun a b => a ++ [(sPlus, @None nat)] ++ b) rest s0) =
    fold_left (fun a b => a ++ [sPlus] ++ b) (map (map fst) rest) (map fst s0).
  Proof.
    induction rest as [|b rest IH]; intros s0; cbn [fold_left map]; [reflexivity|].
    rewrite IH. rewrite !map_app. reflexivity.
  Qed.

  (* C14, strand notation (both `structure X = s1 + s2 : ..` and `complex X = / s1 s2 / ..`): under a
     free complex name the filed complex is new; its sequence is the concatenation of the sequences of
     the strands registered under the listed names, joined by `+`, and its structure the dot-bracket
     string without blanks *)
  Theorem reader_builds_strand_complex line nm ss sst acc r r' acc' :
    decode line = Ok (SSC nm ss sst) -> Forall (fun s => nonempty s = true) ss -> nonempty nm = true -> RGood r ->
    nlookup nm (cs_names (cget (r_st r) cc)) = None ->
    read_one ct G None (TList line) acc r = (r', Ok acc') ->
    exists i ob stab sq t,
      hget (heap (r_st r')) i = Some ob /\ o_live ob = true /\ o_cls ob = cc /\ o_name ob = nm /\
      acc' = with_complexes acc (dset nm i (po_complexes acc)) /\
      Forall2 (fun s es => SeqH cs (heap (r_st r')) s es) ss stab /\
      strand_table_to_sequence (sPlus, @None nat) stab = Ok sq /\
      o_data ob = DCplx sq (filter (fun c => negb (N.eqb c 32%N)) sst) t /\
      RGood r' /\ RExt r r'.
  Proof.
    intros Hd Hss Hne GD Hfree E.
    pose proof (read_one_good ct cd cs cc cm cr SO IO (TList line) acc r
                  ltac:(exists line, (SSC nm ss sst); cbn; auto) GD) as HG.
    rewrite E in HG. destruct HG as [G' X'].
    unfold read_one in E. cbn [t_list] in E. rewrite bind_lift_Ok in E. cbn [ignored] in E.
    rewrite bind_lift_Ok in E. unfold bind at 1 in E. unfold nroots at 1 in E. cbv beta iota in E.
    unfold bind at 1 in E. rewrite (read_pil_line_decode ct G line _ (g_full cd cs cc cm cr) Hd r) in E.
    cbn [exec_stmt] in E. unfold bind at 1 in E.
    assert (HM : Op (fun _ => True) (mapM (strand_seq ct G) ss) (fun stab r0 => Forall2 (fun s es => SeqN cs s es r0) ss stab)).
    { apply op_mapM with (Qx := fun s es => SeqN cs s es); [| apply stable_true | intros x y; apply stable_seqn].
      intros x Hx. apply (op_strand_seq_x ct cd cs cc cm cr CO); [apply stable_true|]. rewrite Forall_forall in Hss. auto. }
    specialize (HM r GD I).
    pose proof (keeps_mapM (NewNone (heap (r_st r))) (strand_seq ct G) ss
                  (fun x => newnone_strand_seq ct G (heap (r_st r)) x) r (hext_refl _ _)) as HN.
    destruct (mapM (strand_seq ct G) ss r) as [ra [stab|k0]]; [|discriminate].
    destruct HM as [Ga [Xa Fa]]. cbn [fst] in HN. unfold NewNone in HN.
    destruct stab as [|s0 rest] eqn:Est; [unfold bind at 1, fail in E; discriminate|]. rewrite <- Est in *.
    unfold bind at 1 in E.
    assert (Esq : exists sq, strand_table_to_sequence (sPlus, @None nat) stab = Ok sq) by (rewrite Est; cbn; eauto).
    destruct Esq as [sq Esq].
    change (ret tt ra) with (ra, @Ok unit tt) in E.
    cbv beta iota in E. rewrite Esq in E. rewrite bind_lift_Ok in E.
    cbn [gC g slot] in E. rewrite bind_ret in E. unfold bind at 1 in E.
    set (stru := filter (fun c => negb (N.eqb c 32%N)) sst) in *.
    assert (HO : Op (fun r0 => r0 = ra) (call (fun st => cplx_call ct cc st (Some sq) (Some stru) (Some nm) None)) (RetQ cc)).
    { apply (op_cplx_new ct cd cs cc cm cr SO). intros r0 GD0 -> x Hx.
      assert (Hj : exists es, In es stab /\ In x (elem_ids es)).
      { rewrite Est in Esq. cbn in Esq. injection Esq as <-. rewrite Est. apply join_ids. exact Hx. }
      destruct Hj as [es [Hes Hx2]].
      assert (Hq : SeqQ cs es ra).
      { clear -Fa Hes. induction Fa as [|s es0 ss stab H Fa IH]; [destruct Hes|].
        destruct Hes as [<-|Hes]; [eapply seqn_seqq; eauto | auto]. }
      eapply elemq_kept; [apply (seqq_elems ct cd cs cc cm cr SO); [exact GD0 | exact Hq] | exact Hx2]. }
    specialize (HO ra Ga eq_refl).
    destruct (call (fun st => cplx_call ct cc st (Some sq) (Some stru) (Some nm) None) ra) as [rb [i|k0]] eqn:Ec; [|discriminate].
    destruct HO as [Gb [Xb [Hi Hc]]].
    assert (Hfree_a : nlookup nm (cs_names (cget (r_st ra) cc)) = None).
    { apply (fresh_name_carry ct cd cs cc cm cr cc no_data r ra nm GD Ga (cc_lt ct cd cs cc cm cr SO) HN); [|exact Hfree].
      intros x Hx. destruct Hx. }
    assert (Dn : exists ob t, hget (heap (r_st rb)) i = Some ob /\ o_cls ob = cc /\ o_name ob = nm /\ o_data ob = DCplx sq stru t).
    { unfold call in Ec.
      destruct (cplx_call ct cc (r_st ra) (Some sq) (Some stru) (Some nm) None) as [st' [id b|k0 e0]] eqn:Es; [|discriminate].
      injection Ec as <- <-. cbn [r_st with_st hold heap].
      pose proof (cplx_call_fresh ct cc (r_st ra) sq stru nm id b Hne Hfree_a (f_equal snd Es)) as H0.
      exact (eq_ind _ (fun z => exists ob t, hget (heap (fst z)) id = Some ob /\ o_cls ob = cc /\ o_name ob = nm /\
                                             o_data ob = DCplx sq stru t) H0 _ Es). }
    unfold ret at 1 in E. cbv beta iota in E. unfold bind at 1 in E.
    rewrite (file_obj_cplx ct cd cs cc cm cr CO i acc rb Hc) in E. cbn [snd fst] in E.
    destruct Dn as [ob0 [t [Ho0 [Ecl [En0 Ed0]]]]].
    assert (Eon : oname (r_st rb) i = nm) by (unfold oname, obj_name; rewrite Ho0; exact En0).
    rewrite Eon in E.
    unfold bind, release, ret in E. injection E as <- <-.
    pose proof (hext_collect anyobj (cut_roots (r_st rb) (length (roots (r_st r))) [i])) as XC.
    destruct (hx_old _ _ _ XC i ob0 Ho0) as [ob [Ho Kl]].
    set (st' := collect (cut_roots (r_st rb) (length (roots (r_st r))) [i])) in *.
    assert (Li : is_live (heap st') i = true).
    { destruct G' as [[_ H'] _]. cbn [r_st with_st] in H'.
      assert (Hr : In (Some i) (roots st')).
      { unfold st'. cbn [roots collect cut_roots]. apply in_or_app. right. left. reflexivity. }
      apply In_nth_error in Hr. destruct Hr as [s1 Hs1]. apply (hk_roots _ H' s1 i Hs1). }
    assert (Xar : HExt anyobj (heap (r_st ra)) (heap st')).
    { eapply hext_trans; [apply anyobj_kill | exact (re_heap _ _ Xb) | exact XC]. }
    exists i, ob, stab, sq, t. cbn [r_st with_st].
    split; [exact Ho|]. split; [unfold is_live in Li; rewrite Ho in Li; exact Li|].
    split; [destruct Kl as [->| ->]; exact Ecl|]. split; [destruct Kl as [->| ->]; exact En0|].
    split; [reflexivity|].
    split.
    { clear -Fa Xar. induction Fa as [|s es ss stab H Fa IH]; constructor; [|exact IH].
      eapply seqh_ext; [exact Xar | apply seqn_seqh; exact H]. }
    split; [exact Esq|]. split; [destruct Kl as [->| ->]; exact Ed0|]. split; assumption.
  Qed.

  (* ================================================================ *)
  (* macrostates: members                                               *)

  (* a member object: the live, registered singleton of its name in class c *)
  Definition MemberIs (c : nat) (st : state) (x : pstr) (j : nat) : Prop :=
    exists oj, hget (heap st) j = Some oj /\ o_live oj = true /\ o_cls oj = c /\ o_name oj = x /\
               nlookup x (cs_names (cget st c)) = Some j.

  Lemma live_member c st j oj :
    Inv ct st -> hget (heap st) j = Some oj -> o_live oj = true -> o_cls oj = c -> MemberIs c st (o_name oj) j.
  Proof.
    intros [R _] Ho Hl Ec. exists oj. repeat split; auto.
    destruct (ok_obj _ _ R j oj (conj Ho Hl)) as [_ [[N1 _] _]]. rewrite Ec in N1. exact N1.
  Qed.

  Definition NamedQ (c : nat) (x : pstr) (j : nat) (r : rstate) : Prop :=
    Held j r /\ ClsAt j c r /\ NameAt j x r.
  Lemma stable_namedq c x j : Stable (NamedQ c x j).
  Proof.
    apply stable_and; [apply stable_held | apply stable_and; [apply stable_cls | apply stable_nameat]].
  Qed.

  Lemma complex_by_name_inv nm r r1 i :
    RGood r -> nonempty nm = true -> complex_by_name ct G nm r = (r1, Ok i) -> NameAt i nm r1.
  Proof.
    intros [I1 K1] Hne E. unfold complex_by_name in E. cbn [gC g slot] in E. rewrite bind_ret in E.
    unfold call in E. pose proof (cc_lt ct cd cs cc cm cr SO) as Hc.
    unfold cplx_call in E. destruct (nth_error ct cc) as [ci|] eqn:Ec; [|apply nth_error_None in Ec; lia].
    destruct (sing_lookup (cget (r_st r) cc) nm None) as [o| |e] eqn:EL; try discriminate.
    injection E as <- <-. unfold NameAt. cbn [r_st with_st hold heap]. eapply lookup_name; eauto.
  Qed.

  Lemma macro_by_name_inv nm r r1 i :
    RGood r -> nonempty nm = true -> macro_by_name ct G nm r = (r1, Ok i) -> NameAt i nm r1.
  Proof.
    intros [I1 K1] Hne E. unfold macro_by_name in E. cbn [gM g slot] in E. rewrite bind_ret in E.
    unfold call in E. pose proof (cm_lt ct cd cs cc cm cr SO) as Hc. unfold macro_call in E.
    destruct (sing_lookup (cget (r_st r) cm) nm None) as [o| |e] eqn:EL; try discriminate.
    injection E as <- <-. unfold NameAt. cbn [r_st with_st hold heap]. eapply lookup_name; eauto.
  Qed.

  Lemma op_complex_by_name_x (P : rstate -> Prop) nm :
    nonempty nm = true -> Op P (complex_by_name ct G nm) (NamedQ cc nm).
  Proof.
    intros Hne.
    eapply op_conseq with (Q := fun i r => RetQ cc i r /\ NameAt i nm r);
      [| intros r _ H; exact H | intros i r _ [[H1 H2] H3]; split; [exact H1 | split; assumption]].
    apply op_strengthen; [apply op_complex_by_name; exact SO|].
    intros r r' i GD _ E _ _. eapply complex_by_name_inv; eauto.
  Qed.

  Lemma op_macro_by_name_x (P : rstate -> Prop) nm :
    nonempty nm = true -> Op P (macro_by_name ct G nm) (NamedQ cm nm).
  Proof.
    intros Hne.
    eapply op_conseq with (Q := fun i r => RetQ cm i r /\ NameAt i nm r);
      [| intros r _ H; exact H | intros i r _ [[H1 H2] H3]; split; [exact H1 | split; assumption]].
    apply op_strengthen; [apply op_macro_by_name; exact SO|].
    intros r r' i GD _ E _ _. eapply macro_by_name_inv; eauto.
  Qed.

  Lemma macro_call_fresh st ms nm id b :
    nonempty nm = true -> nlookup nm (cs_names (cget st cm)) = None ->
    snd (macro_call ct cm st (Some ms) (Some nm)) = CRet id b ->
    exists ob rep, hget (heap (fst (macro_call ct cm st (Some ms) (Some nm)))) id = Some ob /\
                   o_cls ob = cm /\ o_name ob = nm /\ o_data ob = DMac ms rep /\ o_children ob = ms /\
                   In rep ms /\ obj_name (heap st) rep = nm.
  Proof.
    intros Hne Hn. unfold macro_call.
    destruct (omap' _ ms) as [mks|]; [|cbn; discriminate].
    destruct (existsb _ ms); [|cbn; discriminate].
    unfold sing_lookup. rewrite Hne, Hn.
    match goal with |- snd (match (match klookup ?k ?l with _ => _ end) with _ => _ end) = _ -> _ =>
      destruct (klookup k l) end; [cbn; discriminate|].
    destruct (find (fun i => str_eqb (obj_name (heap st) i) nm) ms) as [rep|] eqn:EF; [|cbn; discriminate].
    apply find_some in EF. destruct EF as [Hin Hrep]. apply str_eqb_iff in Hrep.
    unfold create. destruct (nth_error ct cm) as [ci|]; [|cbn; discriminate].
    destruct (c_fail ci); cbn [alloc fst snd]; try (intros E; discriminate).
    intros E. injection E as <- _. rewrite heap_register. cbn [heap]. rewrite hget_new.
    eexists. exists rep. repeat split; auto.
  Qed.

  Definition with_macros (acc : pilout) (d : list (pstr * nat)) : pilout :=
    mkOut (po_domains acc) (po_strands acc) (po_complexes acc) d (po_det acc) (po_con acc) (po_other acc).

  Lemma file_obj_mac i acc r :
    ClsAt i cm r ->
    file_obj ct G (RObj i) acc r = (r, Ok (with_macros acc (dset (oname (r_st r) i) i (po_macrostates acc)), [i])).
  Proof.
    intros Hc. unfold file_obj. cbn [gD gS gC gM g].
    destruct IO as [_ [_ [_ [E4 [E5 [E6 _]]]]]]. cbv zeta in *.
    rewrite (bind_ok _ _ _ _ _ (inst_slot_val ct i cm cd r Hc)), E4.
    rewrite (bind_ok _ _ _ _ _ (inst_slot_val ct i cm cs r Hc)), E5.
    rewrite (bind_ok get_state _ r r (r_st r) eq_refl).
    rewrite (bind_ok _ _ _ _ _ (inst_slot_val ct i cm cc r Hc)), E6.
    rewrite (bind_ok _ _ _ _ _ (inst_slot_val ct i cm cm r Hc)), subclass_refl. reflexivity.
  Qed.

  Lemma forall2_namedq_held c (xs : list pstr) ids r :
    Forall2 (fun x j => NamedQ c x j r) xs ids -> Forall (fun j => Held j r) ids.
  Proof. intros F. induction F as [|x j xs ids [H _] F IH]; constructor; auto. Qed.

  (* members of a live container are live registered singletons *)
  Lemma children_members c r i ob (xs : list pstr) ids :
    RGood r -> hget (heap (r_st r)) i = Some ob -> o_live ob = true -> o_children ob = ids ->
    Forall2 (fun x j => exists oj, hget (heap (r_st r)) j = Some oj /\ o_cls oj = c /\ o_name oj = x) xs ids ->
    Forall2 (MemberIs c (r_st r)) xs ids.
  Proof.
    intros [[R Hh] _] Ho Hl Ech F.
    assert (L : forall j, In j ids -> is_live (heap (r_st r)) j = true).
    { intros j Hj. apply (hk_child _ Hh i ob (conj Ho Hl)). rewrite Ech. exact Hj. }
    clear Ech. induction F as [|x j xs ids [oj [Hoj [Ec En]]] F IH]; constructor.
    - specialize (L j (or_introl eq_refl)). unfold is_live in L. rewrite Hoj in L.
      rewrite <- En. apply (live_member c (r_st r) j oj (conj R Hh) Hoj L Ec).
    - apply IH. intros j0 Hj0. apply L. right. exact Hj0.
  Qed.

  (* C14, macrostates: under a free macrostate name the filed macrostate is new; its members are, in the
     listed order, the live registered complex singletons of the listed names, and its representative
     is the member carrying the macrostate's name *)
  Theorem reader_builds_macrostate line nm xs acc r r' acc' :
    decode line = Ok (SMac nm xs) -> Forall (fun x => nonempty x = true) xs -> nonempty nm = true -> RGood r ->
    nlookup nm (cs_names (cget (r_st r) cm)) = None ->
    read_one ct G None (TList line) acc r = (r', Ok acc') ->
    exists i ob ids rep,
      hget (heap (r_st r')) i = Some ob /\ o_live ob = true /\ o_cls ob = cm /\ o_name ob = nm /\
      acc' = with_macros acc (dset nm i (po_macrostates acc)) /\
      o_data ob = DMac ids rep /\ Forall2 (MemberIs cc (r_st r')) xs ids /\
      In rep ids /\ obj_name (heap (r_st r')) rep = nm /\
      RGood r' /\ RExt r r'.
  Proof.
    intros Hd Hxs Hne GD Hfree E.
    pose proof (read_one_good ct cd cs cc cm cr SO IO (TList line) acc r
                  ltac:(exists line, (SMac nm xs); cbn; auto) GD) as HG.
    rewrite E in HG. destruct HG as [G' X'].
    unfold read_one in E. cbn [t_list] in E. rewrite bind_lift_Ok in E. cbn [ignored] in E.
    rewrite bind_lift_Ok in E. unfold bind at 1 in E. unfold nroots at 1 in E. cbv beta iota in E.
    unfold bind at 1 in E. rewrite (read_pil_line_decode ct G line _ (g_full cd cs cc cm cr) Hd r) in E.
    cbn [exec_stmt] in E. unfold bind at 1 in E.
    assert (HM : Op (fun _ => True) (key_to_pil (mapM (complex_by_name ct G) xs))
                    (fun ids r0 => Forall2 (fun x j => NamedQ cc x j r0) xs ids)).
    { unfold key_to_pil. apply op_catch; [| apply stable_true | apply op_fail; reflexivity].
      apply op_mapM with (Qx := NamedQ cc); [| apply stable_true | intros x y; apply stable_namedq].
      intros x Hx. apply op_complex_by_name_x. rewrite Forall_forall in Hxs. auto. }
    specialize (HM r GD I).
    assert (HN : NewNone (heap (r_st r)) (fst (key_to_pil (mapM (complex_by_name ct G) xs) r))).
    { apply (keeps_catch (NewNone (heap (r_st r)))); [| apply keeps_fail | apply hext_refl].
      apply keeps_mapM. intros x. apply newnone_complex_by_name. }
    destruct (key_to_pil (mapM (complex_by_name ct G) xs) r) as [ra [ids|k0]]; [|discriminate].
    destruct HM as [Ga [Xa Fa]]. cbn [fst] in HN. unfold NewNone in HN.
    cbn [gM g slot] in E. rewrite bind_ret in E. unfold bind at 1 in E.
    pose proof (forall2_namedq_held cc xs ids ra Fa) as Hheld. rewrite Forall_forall in Hheld.
    assert (Hlive : forall x, In x ids -> is_live (heap (r_st ra)) x = true).
    { intros x Hx. apply (held_live ct cd cs cc cm cr x ra Ga). auto. }
    assert (HO : Op (fun r0 => r0 = ra) (call (fun st => macro_call ct cm st (Some ids) (Some nm))) (RetQ cm)).
    { apply op_call.
      - intros r0 GD0 ->. destruct Ga as [I1 K1].
        destruct (macro_call_spec ct cd cs cc cm cr (r_st ra) ids nm SO I1 K1 Hlive) as [I2 [K2 [R2 F3]]].
        split; [apply callok_macro_call; [exact I1 | apply (cm_lt ct cd cs cc cm cr SO) |
                intros ms x Ee Hx; injection Ee as <-; apply Hlive; exact Hx]|]. auto.
      - intros st0. apply sext_macro_call; [apply anyobj_kill | intros; exact I]. }
    specialize (HO ra Ga eq_refl).
    destruct (call (fun st => macro_call ct cm st (Some ids) (Some nm)) ra) as [rb [i|k0]] eqn:Ec; [|discriminate].
    destruct HO as [Gb [Xb [Hi Hc]]].
    assert (Hfree_a : nlookup nm (cs_names (cget (r_st ra) cm)) = None).
    { apply (fresh_name_carry ct cd cs cc cm cr cm no_data r ra nm GD Ga (cm_lt ct cd cs cc cm cr SO) HN); [|exact Hfree].
      intros x Hx. destruct Hx. }
    assert (Dn : exists ob rep, hget (heap (r_st rb)) i = Some ob /\ o_cls ob = cm /\ o_name ob = nm /\
                                o_data ob = DMac ids rep /\ o_children ob = ids /\ In rep ids /\
                                obj_name (heap (r_st ra)) rep = nm).
    { unfold call in Ec.
      destruct (macro_call ct cm (r_st ra) (Some ids) (Some nm)) as [st' [id b|k0 e0]] eqn:Es; [|discriminate].
      injection Ec as <- <-. cbn [r_st with_st hold heap].
      pose proof (macro_call_fresh (r_st ra) ids nm id b Hne Hfree_a (f_equal snd Es)) as H0.
      exact (eq_ind _ (fun z => exists ob rep, hget (heap (fst z)) id = Some ob /\ o_cls ob = cm /\ o_name ob = nm /\
                                  o_data ob = DMac ids rep /\ o_children ob = ids /\ In rep ids /\
                                  obj_name (heap (r_st ra)) rep = nm) H0 _ Es). }
    unfold ret at 1 in E. cbv beta iota in E. unfold bind at 1 in E.
    rewrite (file_obj_mac i acc rb Hc) in E. cbn [snd fst] in E.
    destruct Dn as [ob0 [rep [Ho0 [Ecl [En0 [Ed0 [Ech0 [Hrep Hrn]]]]]]]].
    assert (Eon : oname (r_st rb) i = nm) by (unfold oname, obj_name; rewrite Ho0; exact En0).
    rewrite Eon in E.
    unfold bind, release, ret in E. injection E as <- <-.
    pose proof (hext_collect anyobj (cut_roots (r_st rb) (length (roots (r_st r))) [i])) as XC.
    destruct (hx_old _ _ _ XC i ob0 Ho0) as [ob [Ho Kl]].
    set (st' := collect (cut_roots (r_st rb) (length (roots (r_st r))) [i])) in *.
    assert (Li : is_live (heap st') i = true).
    { destruct G' as [[_ H'] _]. cbn [r_st with_st] in H'.
      assert (Hr : In (Some i) (roots st')).
      { unfold st'. cbn [roots collect cut_roots]. apply in_or_app. right. left. reflexivity. }
      apply In_nth_error in Hr. destruct Hr as [s1 Hs1]. apply (hk_roots _ H' s1 i Hs1). }
    assert (Lo : o_live ob = true) by (unfold is_live in Li; rewrite Ho in Li; exact Li).
    assert (Xar : HExt anyobj (heap (r_st ra)) (heap st')).
    { eapply hext_trans; [apply anyobj_kill | exact (re_heap _ _ Xb) | exact XC]. }
    exists i, ob, ids, rep. cbn [r_st with_st].
    split; [exact Ho|]. split; [exact Lo|].
    split; [destruct Kl as [->| ->]; exact Ecl|]. split; [destruct Kl as [->| ->]; exact En0|].
    split; [reflexivity|]. split; [destruct Kl as [->| ->]; exact Ed0|].
    split.
    { apply (children_members cc (with_st rb st') i ob xs ids G' Ho Lo).
      - destruct Kl as [->| ->]; exact Ech0.
      - clear -Fa Xar. induction Fa as [|x j xs ids [_ [Hc [o [Ho En]]]] Fa IH]; constructor; [|exact IH].
        destruct (hx_old _ _ _ Xar j o Ho) as [o' [Ho' Kl]]. exists o'. cbn [r_st with_st]. split; [exact Ho'|].
        unfold ClsAt, cls_at in Hc. rewrite Ho in Hc. cbn in Hc.
        destruct Kl as [->| ->]; cbn; split; congruence. }
    split; [exact Hrep|].
    split.
    { rewrite <- Hrn.
      assert (Hk : exists x, cls_at (heap (r_st ra)) rep = Some x).
      { assert (Hr2 : Held rep ra) by auto. pose proof (held_live ct cd cs cc cm cr rep ra Ga Hr2) as L.
        unfold is_live in L. unfold cls_at. destruct (hget (heap (r_st ra)) rep); [eexists; reflexivity | discriminate]. }
      destruct Hk as [x Hx]. apply (obj_name_ext anyobj _ _ rep x Xar Hx). }
    split; assumption.
  Qed.

  (* ================================================================ *)
  (* reactions: members                                                 *)

  Lemma insert_by_perm {A K} (kf : A -> K) cmp x l : Permutation (insert_by kf cmp x l) (x :: l).
  Proof.
    induction l as [|y l IH]; cbn; [reflexivity|]. destruct (cmp_ltb _); [|reflexivity].
    rewrite IH. apply perm_swap.
  Qed.
  Lemma sort_by_perm {A K} (kf : A -> K) cmp l : Permutation (sort_by kf cmp l) l.
  Proof.
    unfold sort_by. induction l as [|x l IH]; cbn; [reflexivity|]. rewrite insert_by_perm. constructor. exact IH.
  Qed.

  Lemma omap'_fst {A B} (f : A -> option B) l l' :
    omap' (fun i => option_map (fun y => (i, y)) (f i)) l = Some l' -> map fst l' = l.
  Proof.
    revert l'. induction l as [|x l IH]; intros l'; cbn; [intros E; injection E as <-; reflexivity|].
    destruct (f x) as [y|]; cbn; [|discriminate].
    destruct (omap' _ l) as [ys|]; [|discriminate]. intros E. injection E as <-. cbn. f_equal. apply IH. reflexivity.
  Qed.

  (* a reaction object that did not exist before the call was created by it, from exactly the given members *)
  Lemma reaction_call_new st rs ps t id b :
    Inv ct st -> snd (reaction_call ct cr st (Some (rs, ps)) t None) = CRet id b -> length (heap st) <= id ->
    exists ob a c, hget (heap (fst (reaction_call ct cr st (Some (rs, ps)) t None))) id = Some ob /\
                   o_data ob = DRxn a c t /\ Permutation a rs /\ Permutation c ps /\ o_children ob = rs ++ ps.
  Proof.
    intros I. unfold reaction_call. pose proof (cr_lt ct cd cs cc cm cr SO) as Hc.
    destruct (omap' _ rs) as [fr|] eqn:E1; [|cbn; discriminate].
    destruct (omap' _ ps) as [fp|] eqn:E2; [|cbn; discriminate].
    apply omap'_fst in E1. apply omap'_fst in E2.
    match goal with |- snd (if ?x then _ else _) = _ -> _ => destruct x end; [cbn; discriminate|].
    match goal with |- snd (match sing_lookup ?a ?n ?k with _ => _ end) = _ -> _ =>
      destruct (sing_lookup a n k) as [o| |e] eqn:EL end; cbn [fst snd].
    - intros E Hlen. injection E as <- _. destruct (lookup_cls ct st cr _ _ o I Hc EL) as [ob [Ho _]].
      apply hget_lt in Ho. lia.
    - unfold create. destruct (nth_error ct cr) as [ci|]; [|cbn; discriminate].
      destruct (c_fail ci); cbn [alloc fst snd]; try (intros E; discriminate).
      intros E _. injection E as <- _. rewrite heap_register. cbn [heap]. rewrite hget_new.
      eexists. eexists. eexists. split; [reflexivity|]. cbn. split; [reflexivity|].
      split; [rewrite <- E1; apply Permutation_map; apply sort_by_perm|].
      split; [rewrite <- E2; apply Permutation_map; apply sort_by_perm | reflexivity].
    - intros E. discriminate.
  Qed.

  Definition member_cls (ri : rinfo) : nat := if is_s (ri_type ri) sCondensed then cm else cc.

  Lemma op_rxn_members_x ri :
    Forall (fun x => nonempty x = true) (ri_reactants ri ++ ri_products ri) ->
    Op (fun _ => True) (rxn_members ct cd cs cc cm cr ri)
       (fun rp r => Forall2 (fun x j => NamedQ (member_cls ri) x j r) (ri_reactants ri) (fst rp) /\
                    Forall2 (fun x j => NamedQ (member_cls ri) x j r) (ri_products ri) (snd rp)).
  Proof.
    intros Hne. rewrite Forall_app in Hne. destruct Hne as [Hn1 Hn2]. rewrite Forall_forall in Hn1, Hn2.
    unfold rxn_members, member_cls. cbv zeta.
    assert (HB : forall (P : rstate -> Prop) x, nonempty x = true ->
              Op P ((if is_s (ri_type ri) sCondensed then macro_by_name ct G else complex_by_name ct G) x)
                   (NamedQ (if is_s (ri_type ri) sCondensed then cm else cc) x)).
    { intros P x Hx. destruct (is_s (ri_type ri) sCondensed); [apply op_macro_by_name_x | apply op_complex_by_name_x]; exact Hx. }
    unfold key_to_pil. apply op_catch; [| apply stable_true | apply op_fail; reflexivity].
    eapply op_bind; [apply op_mapM with (Qx := NamedQ (if is_s (ri_type ri) sCondensed then cm else cc)) | apply stable_true | intros re].
    { intros x Hx. apply HB. auto. } { apply stable_true. } { intros x y. apply stable_namedq. }
    assert (SP2 : Stable (fun r => True /\ Forall2 (fun x j => NamedQ (if is_s (ri_type ri) sCondensed then cm else cc) x j r) (ri_reactants ri) re)).
    { apply stable_and; [apply stable_true|]. apply stable_forall2. intros x y. apply stable_namedq. }
    eapply op_bind; [apply op_mapM with (Qx := NamedQ (if is_s (ri_type ri) sCondensed then cm else cc)) | exact SP2 | intros pr].
    { intros x Hx. apply HB. auto. } { exact SP2. } { intros x y. apply stable_namedq. }
    apply op_ret. intros r [[_ F1] F2]. cbn [fst snd]. split; assumption.
  Qed.

  Lemma newnone_rxn_members h0 ri : Keeps (NewNone h0) (rxn_members ct cd cs cc cm cr ri).
  Proof.
    unfold rxn_members, key_to_pil. cbv zeta. apply keeps_catch; [|apply keeps_fail].
    destruct (is_s (ri_type ri) sCondensed).
    - apply keeps_bind; [apply keeps_mapM; intros x; apply newnone_macro_by_name | intros re].
      apply keeps_bind; [apply keeps_mapM; intros x; apply newnone_macro_by_name | intros pr; apply keeps_ret].
    - apply keeps_bind; [apply keeps_mapM; intros x; apply newnone_complex_by_name | intros re].
      apply keeps_bind; [apply keeps_mapM; intros x; apply newnone_complex_by_name | intros pr; apply keeps_ret].
  Qed.

  Lemma forall2_app {A B} (R0 : A -> B -> Prop) l1 l1' l2 l2' :
    Forall2 R0 l1 l1' -> Forall2 R0 l2 l2' -> Forall2 R0 (l1 ++ l2) (l1' ++ l2').
  Proof. intros F1 F2. induction F1; cbn; [exact F2 | constructor; auto]. Qed.

  Lemma forall2_split {A B} (R0 : A -> B -> Prop) l1 l2 l1' l2' :
    Forall2 R0 (l1 ++ l2) (l1' ++ l2') -> length l1 = length l1' -> Forall2 R0 l1 l1' /\ Forall2 R0 l2 l2'.
  Proof.
    revert l1'. induction l1 as [|x l1 IH]; intros [|y l1'] F EL; try discriminate; cbn in *.
    - split; [constructor | exact F].
    - inversion F; subst. destruct (IH l1' H4 ltac:(lia)) as [A1 A2]. split; [constructor; assumption | exact A2].
  Qed.

  (* C14, reactions: members.  The reaction object is the one whose rate constant the statement sets.  When
     it did not exist before the statement, it was built from exactly the looked-up members: its reactants /
     products are permutations (sorted by canonical form) of the live registered singletons of the listed
     names - macrostates for a condensed reaction, complexes otherwise *)
  Theorem reader_builds_reaction_members line ri k acc r r' acc' :
    decode line = Ok (SRxn ri) -> ri_rate ri = Some k ->
    Forall (fun x => nonempty x = true) (ri_reactants ri ++ ri_products ri) -> RGood r ->
    read_one ct G None (TList line) acc r = (r', Ok acc') ->
    exists i ob,
      hget (heap (r_st r')) i = Some ob /\ o_live ob = true /\ o_cls ob = cr /\
      r_rate r' = (i, (k, ri_units ri)) :: r_rate r /\
      (length (heap (r_st r)) <= i ->
       exists a c re pr,
         o_data ob = DRxn a c (ri_type ri) /\ Permutation a re /\ Permutation c pr /\
         Forall2 (MemberIs (member_cls ri) (r_st r')) (ri_reactants ri) re /\
         Forall2 (MemberIs (member_cls ri) (r_st r')) (ri_products ri) pr).
  Proof.
    intros Hd Hk Hne GD E.
    pose proof (read_one_good ct cd cs cc cm cr SO IO (TList line) acc r
                  ltac:(exists line, (SRxn ri); cbn; auto) GD) as HG.
    rewrite E in HG. destruct HG as [G' X'].
    unfold read_one in E. cbn [t_list] in E. rewrite bind_lift_Ok in E. cbn [ignored] in E.
    rewrite bind_lift_Ok in E. unfold bind at 1 in E. unfold nroots at 1 in E. cbv beta iota in E.
    unfold bind at 1 in E. rewrite (read_pil_line_decode ct G line _ (g_full cd cs cc cm cr) Hd r) in E.
    cbn [exec_stmt] in E. fold (rxn_members ct cd cs cc cm cr ri) in E. unfold bind at 1 in E.
    pose proof (op_rxn_members_x ri Hne r GD I) as HM.
    pose proof (newnone_rxn_members (heap (r_st r)) ri r (hext_refl _ _)) as HN.
    destruct (rxn_members ct cd cs cc cm cr ri r) as [ra [[re pr]|k0]] eqn:Em; [|discriminate].
    destruct HM as [Ga [Xa [F1 F2]]]. cbn [fst snd] in F1, F2, HN. unfold NewNone in HN.
    destruct (rxn_members_attrs ct cd cs cc cm cr ri r ra _ Em) as [Sa [Ca Ra]].
    cbn [gR g slot] in E. rewrite bind_ret in E. unfold bind at 1 in E.
    pose proof (forall2_namedq_held _ _ _ _ F1) as Hh1. pose proof (forall2_namedq_held _ _ _ _ F2) as Hh2.
    assert (Hlive : forall x, In x (re ++ pr) -> is_live (heap (r_st ra)) x = true).
    { intros x Hx. apply (held_live ct cd cs cc cm cr x ra Ga). apply in_app_or in Hx.
      rewrite Forall_forall in Hh1, Hh2. destruct Hx; auto. }
    assert (HO : Op (fun r0 => r0 = ra)
                    (call (fun st => reaction_call ct cr st (Some (re, pr)) (ri_type ri) None)) (RetQ cr)).
    { apply op_call.
      - intros r0 GD0 ->. destruct Ga as [I1 K1].
        destruct (reaction_call_spec ct cd cs cc cm cr (r_st ra) re pr (ri_type ri) SO I1 K1 Hlive) as [I2 [K2 [R2 F3]]].
        split; [apply callok_reaction_call; [exact I1 | apply (cr_lt ct cd cs cc cm cr SO) |
                intros rs ps x Ee Hx; injection Ee as <- <-; apply Hlive; exact Hx]|]. auto.
      - intros st0. apply sext_reaction_call; [apply anyobj_kill | intros; exact I]. }
    specialize (HO ra Ga eq_refl).
    destruct (call (fun st => reaction_call ct cr st (Some (re, pr)) (ri_type ri) None) ra) as [rb [i|k0]] eqn:Ec; [|discriminate].
    destruct HO as [Gb [Xb [Hi Hc]]]. destruct (call_attrs _ _ _ _ Ec) as [Sb [Cb Rb]].
    (* when new: built from the members *)
    assert (Dnew : length (heap (r_st r)) <= i ->
                   exists ob a c, hget (heap (r_st rb)) i = Some ob /\ o_data ob = DRxn a c (ri_type ri) /\
                                  Permutation a re /\ Permutation c pr /\ o_children ob = re ++ pr).
    { intros Hlen.
      assert (Hlen_a : length (heap (r_st ra)) <= i).
      { destruct (Nat.lt_ge_cases i (length (heap (r_st ra)))) as [L|L]; [|exact L].
        destruct (proj1 (hget_some_iff _ i) L) as [o Ho]. destruct (hx_new _ _ _ HN i o Hlen Ho). }
      unfold call in Ec. destruct (reaction_call ct cr (r_st ra) (Some (re, pr)) (ri_type ri) None) as [st' [id b|k0 e0]] eqn:Es;
        [|discriminate].
      injection Ec as <- <-. cbn [r_st with_st hold heap]. destruct Ga as [I1 K1].
      pose proof (reaction_call_new (r_st ra) re pr (ri_type ri) id b I1 (f_equal snd Es) Hlen_a) as H0.
      exact (eq_ind _ (fun z => exists ob a c, hget (heap (fst z)) id = Some ob /\ o_data ob = DRxn a c (ri_type ri) /\
                                  Permutation a re /\ Permutation c pr /\ o_children ob = re ++ pr) H0 _ Es). }
    rewrite Hk in E. unfold bind at 1 in E. unfold set_rate at 1 in E. cbv beta iota in E.
    unfold ret at 1 in E. cbv beta iota in E. unfold bind at 1 in E.
    set (rc := mkR (r_st rb) (r_seq rb) (r_conc rb) (attr_set i (k, ri_units ri) (r_rate rb))) in *.
    assert (Gc : RGood rc) by (destruct Gb; constructor; assumption).
    assert (Hcc : ClsAt i cr rc) by exact Hc.
    destruct (clsat_obj _ _ _ Hc) as [ob0 [Ho0 Ecl]].
    assert (EF : exists acc2, file_obj ct G (RObj i) acc rc = (rc, Ok (acc2, [i]))).
    { unfold file_obj. cbn [gD gS gC gM gR g].
      destruct IO as [_ [_ [_ [_ [_ [_ [E7 [E8 [E9 E10]]]]]]]]]. cbv zeta in *.
      rewrite (bind_ok _ _ _ _ _ (inst_slot_val ct i cr cd rc Hcc)), E7.
      rewrite (bind_ok _ _ _ _ _ (inst_slot_val ct i cr cs rc Hcc)), E8.
      rewrite (bind_ok get_state _ rc rc (r_st rc) eq_refl).
      rewrite (bind_ok _ _ _ _ _ (inst_slot_val ct i cr cc rc Hcc)), E9.
      rewrite (bind_ok _ _ _ _ _ (inst_slot_val ct i cr cm rc Hcc)), E10.
      rewrite (bind_ok _ _ _ _ _ (inst_slot_val ct i cr cr rc Hcc)), subclass_refl.
      destruct (kinv_rxn ct cd cs cc cm cr _ i ob0 (rg_kinv _ _ _ _ _ _ _ Gb) SO Ho0 Ecl) as [a0 [b0 [t0 [m0 [rr [pp [Ed0 _]]]]]]].
      assert (Et : rtype_of (r_st rc) i = Ok t0) by (unfold rtype_of; cbn [rc r_st]; rewrite Ho0, Ed0; reflexivity).
      rewrite Et. unfold lift. rewrite bind_ret_ok. destruct (is_s t0 sCondensed); eexists; reflexivity. }
    destruct EF as [acc2 EF]. rewrite EF in E. cbn [snd fst] in E.
    unfold bind, release, ret in E. injection E as <- _.
    pose proof (hext_collect anyobj (cut_roots (r_st rc) (length (roots (r_st r))) [i])) as XC.
    destruct (hx_old _ _ _ XC i ob0 Ho0) as [ob [Ho Kl]].
    set (st' := collect (cut_roots (r_st rc) (length (roots (r_st r))) [i])) in *.
    assert (Li : is_live (heap st') i = true).
    { destruct G' as [[_ H'] _]. cbn [r_st with_st] in H'.
      assert (Hr : In (Some i) (roots st')).
      { unfold st'. cbn [roots collect cut_roots]. apply in_or_app. right. left. reflexivity. }
      apply In_nth_error in Hr. destruct Hr as [s1 Hs1]. apply (hk_roots _ H' s1 i Hs1). }
    assert (Lo : o_live ob = true) by (unfold is_live in Li; rewrite Ho in Li; exact Li).
    exists i, ob. cbn [r_st with_st r_rate rc].
    split; [exact Ho|]. split; [exact Lo|]. split; [destruct Kl as [->| ->]; exact Ecl|].
    split; [unfold attr_set; congruence|].
    intros Hlen. destruct (Dnew Hlen) as [ob1 [a [c [Ho1 [Ed [Pa [Pc Ech]]]]]]].
    rewrite Ho0 in Ho1. injection Ho1 as <-.
    exists a, c, re, pr. split; [destruct Kl as [->| ->]; exact Ed|]. split; [exact Pa|]. split; [exact Pc|].
    assert (Xar : HExt anyobj (heap (r_st ra)) (heap st')).
    { eapply hext_trans; [apply anyobj_kill | exact (re_heap _ _ Xb) | exact XC]. }
    assert (FM : Forall2 (MemberIs (member_cls ri) (r_st (with_st rc st'))) (ri_reactants ri ++ ri_products ri) (re ++ pr)).
    { apply (children_members (member_cls ri) (with_st rc st') i ob _ (re ++ pr) G' Ho Lo).
      - destruct Kl as [->| ->]; exact Ech.
      - apply forall2_app.
        + clear -F1 Xar. induction F1 as [|x j xs ids [_ [Hc0 [o [Ho En]]]] F IH]; constructor; [|exact IH].
          destruct (hx_old _ _ _ Xar j o Ho) as [o' [Ho' Kl]]. exists o'. cbn [r_st with_st]. split; [exact Ho'|].
          unfold ClsAt, cls_at in Hc0. rewrite Ho in Hc0. cbn in Hc0. destruct Kl as [->| ->]; cbn; split; congruence.
        + clear -F2 Xar. induction F2 as [|x j xs ids [_ [Hc0 [o [Ho En]]]] F IH]; constructor; [|exact IH].
          destruct (hx_old _ _ _ Xar j o Ho) as [o' [Ho' Kl]]. exists o'. cbn [r_st with_st]. split; [exact Ho'|].
          unfold ClsAt, cls_at in Hc0. rewrite Ho in Hc0. cbn in Hc0. destruct Kl as [->| ->]; cbn; split; congruence. }
    cbn [r_st with_st] in FM. apply forall2_split in FM; [exact FM|].
    clear -F1. induction F1; cbn; auto.
  Qed.
End More.
