(* Reader model, C14: what a domain declaration builds.
   Whenever a `length` / `sequence` statement is read (no exception), the object filed under
   its name has exactly the declared name, length and class, and its complement - filed
   under the complementary name - has the same length; a sequenced domain carries its
   sequence, its complement the reverse Watson-Crick complement unless it already had one. *)
From Coq Require Import List NArith ZArith Bool Arith Lia.
From DSD Require Import Base.Str Base.Errors Model.ComplexUtils Model.RegStr Model.ReaderStr Model.PyNum
  Model.Peg Model.Kernel Model.DispatchKernel Model.Heap Model.Registry Model.Reader Model.ReaderShape
  Proofs.RegHeap Proofs.RegInv Proofs.RegCalls Proofs.ReaderBasic Proofs.ReaderStmt Proofs.ReaderHeap
  Proofs.ReaderInv Proofs.ReaderHoare Proofs.ReaderNoFault Proofs.ReaderThms.
From DSD Require Model.Iupac.
Import ListNotations.

(* ---- state predicates kept by every step of a reader program ---- *)
Definition Keeps (I : rstate -> Prop) {A} (m : M A) : Prop := forall r, I r -> I (fst (m r)).

Section Keeps.
  Variable I : rstate -> Prop.

  Lemma keeps_ret {A} (a : A) : Keeps I (ret a). Proof. intros r H. exact H. Qed.
  Lemma keeps_fail {A} k : Keeps I (@fail A k). Proof. intros r H. exact H. Qed.
  Lemma keeps_lift {A} (x : res A) : Keeps I (lift x). Proof. intros r H. exact H. Qed.
  Lemma keeps_get_state : Keeps I get_state. Proof. intros r H. exact H. Qed.
  Lemma keeps_nroots : Keeps I nroots. Proof. intros r H. exact H. Qed.
  Lemma keeps_slot o : Keeps I (slot o). Proof. destruct o; intros r H; exact H. Qed.

  Lemma keeps_bind {A B} (m : M A) (f : A -> M B) :
    Keeps I m -> (forall a, Keeps I (f a)) -> Keeps I (bind m f).
  Proof.
    intros Hm Hf r H. unfold bind. pose proof (Hm r H) as H1.
    destruct (m r) as [r1 [a|k]]; cbn [fst] in *; [apply Hf; exact H1 | exact H1].
  Qed.

  Lemma keeps_catch {A} (m : M A) p h : Keeps I m -> Keeps I h -> Keeps I (catch m p h).
  Proof.
    intros Hm Hh r H. unfold catch. pose proof (Hm r H) as H1.
    destruct (m r) as [r1 [a|k]]; cbn [fst] in *; [exact H1|].
    destruct (p k); [apply Hh; exact H1 | exact H1].
  Qed.

  Lemma keeps_mapM {A B} (f : A -> M B) l : (forall x, Keeps I (f x)) -> Keeps I (mapM f l).
  Proof.
    intros Hf. induction l as [|x l IH]; cbn [mapM]; [apply keeps_ret|].
    apply keeps_bind; [apply Hf|]. intros y. apply keeps_bind; [exact IH|]. intros ys. apply keeps_ret.
  Qed.
End Keeps.

(* the sequence attributes are only written by `sequence` statements and by the filing of domains *)
Definition SeqIs (s0 : list (nat * pstr)) (r : rstate) : Prop := r_seq r = s0.

Lemma seqis_call s0 f : Keeps (SeqIs s0) (call f).
Proof. intros r H. unfold call. destruct (f (r_st r)) as [st' [id b|k e]]; exact H. Qed.
Lemma seqis_release s0 n keep : Keeps (SeqIs s0) (release n keep).
Proof. intros r H. exact H. Qed.
Lemma seqis_set_conc s0 i c : Keeps (SeqIs s0) (set_conc i c). Proof. intros r H. exact H. Qed.
Lemma seqis_set_rate s0 i c : Keeps (SeqIs s0) (set_rate i c). Proof. intros r H. exact H. Qed.

Definition AttrIs (s0 : list (nat * pstr)) (c0 : list (nat * conc)) (t0 : list (nat * (fl * option pstr))) (r : rstate) : Prop :=
  r_seq r = s0 /\ r_conc r = c0 /\ r_rate r = t0.
Lemma attris_call s0 c0 t0 f : Keeps (AttrIs s0 c0 t0) (call f).
Proof. intros r H. unfold call. destruct (f (r_st r)) as [st' [id b|k e]]; exact H. Qed.

Lemma attris_release s0 c0 t0 n keep : Keeps (AttrIs s0 c0 t0) (release n keep).
Proof. intros r H. exact H. Qed.

Ltac keeps_step :=
  first [ apply keeps_ret | apply keeps_fail | apply keeps_lift | apply keeps_get_state | apply keeps_nroots
        | apply keeps_slot | apply seqis_call | apply attris_call | apply seqis_release | apply attris_release | apply seqis_set_conc | apply seqis_set_rate
        | apply keeps_bind; [|intros ?] | apply keeps_catch | apply keeps_mapM; intros ? ].

Ltac keeps_all :=
  repeat first [ keeps_step
               | match goal with |- Keeps _ (if ?b then _ else _) => destruct b end
               | match goal with |- Keeps _ (match ?x with _ => _ end) => destruct x end ].

Lemma seqis_expand_loop ct g s0 todo : forall done, Keeps (SeqIs s0) (expand_loop ct g todo done).
Proof.
  induction todo as [|[d s] todo IH]; intros done; cbn [expand_loop]; [apply keeps_ret|].
  destruct (str_eqb d sPlus); [apply IH|].
  apply keeps_bind; [|intros cl; apply IH].
  unfold expand_one, domain_by_name, strand_seq, strand_by_name, invert_elem, invert, assert_domain. keeps_all.
Qed.

Lemma attris_expand_loop ct g s0 c0 t0 todo : forall done, Keeps (AttrIs s0 c0 t0) (expand_loop ct g todo done).
Proof.
  induction todo as [|[d s] todo IH]; intros done; cbn [expand_loop]; [apply keeps_ret|].
  destruct (str_eqb d sPlus); [apply IH|].
  apply keeps_bind; [|intros cl; apply IH].
  unfold expand_one, domain_by_name, strand_seq, strand_by_name, invert_elem, invert, assert_domain. keeps_all.
Qed.

Lemma attris_kernel_sequence ct g s0 c0 t0 names sst : Keeps (AttrIs s0 c0 t0) (kernel_sequence ct g names sst).
Proof.
  unfold kernel_sequence, first_attempt, domain_by_name.
  apply keeps_bind; [apply keeps_nroots | intros n1].
  apply keeps_catch; [keeps_all|].
  apply keeps_bind; [apply attris_release | intros ?].
  destruct (negb _); [apply keeps_fail|]. apply keeps_bind; [apply attris_expand_loop | intros ?; apply keeps_ret].
Qed.

Lemma seqis_exec_stmt ct g s0 line s :
  match s with SSl _ _ _ => False | _ => True end -> Keeps (SeqIs s0) (exec_stmt ct g line s).
Proof.
  intros Hs. destruct s; try contradiction; cbn [exec_stmt];
    unfold domain_new, domain_by_name, strand_seq, strand_by_name, complex_by_name, macro_by_name, key_to_pil.
  - keeps_all.
  - keeps_all.
  - keeps_all.
  - unfold kernel_sequence, first_attempt, domain_by_name.
    apply keeps_bind; [|intros ?; keeps_all].
    apply keeps_bind; [apply keeps_nroots | intros n1].
    apply keeps_catch; [keeps_all|].
    apply keeps_bind; [apply seqis_release | intros ?].
    destruct (negb _); [apply keeps_fail|]. apply keeps_bind; [apply seqis_expand_loop | intros ?; apply keeps_ret].
  - keeps_all.
  - cbv zeta. destruct (is_s (ri_type ri) sCondensed); keeps_all.
  - keeps_all.
Qed.

Section Builds.
  Variable ct : ctable.
  Variables cd cs cc cm cr : nat.
  Hypothesis CO : cfg_okb ct cd cs cc cm cr = true.
  Notation G := (g cd cs cc cm cr).
  Notation KI := (KInv cd cs cc cm cr).
  Notation RGood := (RGood ct cd cs cc cm cr).
  Let SO := co_slots ct cd cs cc cm cr CO.

  (* the object a domain call returns: class, name, and - when a length was requested - that length *)
  Definition IsDom (h : list obj) (id : nat) (nm : pstr) (len : option Z) : Prop :=
    exists ob, hget h id = Some ob /\ o_cls ob = cd /\ o_name ob = nm /\ exists l, o_data ob = DDom l /\
               (forall z, len = Some z -> l = z).

  Lemma cd_lt : cd < length ct.
  Proof. destruct SO as [_ F]. inversion F; auto. Qed.

  Lemma nested_len rec st nm len1 len2 :
    snd (dom_nested rec st nm len1) = Ok len2 -> forall z, len1 = Some z -> len2 = Some z.
  Proof.
    unfold dom_nested. intros H z ->. destruct (starred nm).
    - 
      destruct (rec st (cname_of nm) None) as [s1 [o b|k e]].
      + destruct (obj_length (heap s1) o); cbn in H; [|discriminate]. destruct (Z.eqb a z); cbn in H; congruence.
      + destruct (is_singleton_err k); cbn in H; congruence.
    - 
      destruct (rec st (cname_of nm) None) as [s1 [o b|k e]].
      + destruct (obj_length (heap s1) o); cbn in H; [|discriminate].
        destruct (rec (collect s1) (cname_of nm) (Some z)) as [s2 [o2 b2|k2 e2]]; cbn in H; [congruence|].
        destruct (is_singleton_err k2); cbn in H; [|discriminate]. destruct (Z.eqb a z); congruence.
      + destruct (is_singleton_err k); cbn in H; congruence.
  Qed.

  Lemma finish_isdom st auto nm len2 id b :
    Inv ct st -> KI (heap st) -> nonempty nm = true ->
    snd (dom_finish ct cd st auto nm len2) = CRet id b ->
    IsDom (heap (fst (dom_finish ct cd st auto nm len2))) id nm len2.
  Proof.
    intros I K Hne. unfold dom_finish. pose proof cd_lt as Hc.
    destruct (sing_lookup (cget st cd) nm (option_map (KDom nm) len2)) as [o| |e] eqn:EL; cbn [fst snd].
    - intros E. injection E as <- _.
      assert (HN : nlookup nm (cs_names (cget st cd)) = Some o /\
                   (forall z, len2 = Some z -> klookup (KDom nm z) (cs_canon (cget st cd)) = Some o)).
      { unfold sing_lookup in EL. rewrite Hne in EL. destruct len2 as [z|]; cbn [option_map] in EL.
        - destruct (nlookup nm (cs_names (cget st cd))) as [on|] eqn:E1;
            destruct (klookup (KDom nm z) (cs_canon (cget st cd))) as [oc|] eqn:E2; try discriminate.
          destruct (Nat.eqb on oc) eqn:E; [|discriminate]. apply Nat.eqb_eq in E. subst oc.
          injection EL as <-. split; [reflexivity|]. intros z' E'. injection E' as <-. exact E2.
        - destruct (nlookup nm (cs_names (cget st cd))) as [on|]; [|discriminate]. injection EL as <-.
          split; [reflexivity | intros; discriminate]. }
      destruct HN as [HN HC]. destruct I as [R Hh]. pose proof (ok_cls _ _ R cd Hc) as CK.
      apply (alookup_in str_eqb str_eqb_iff) in HN.
      destruct (ok_nv _ _ _ CK nm o HN) as [ob [Hob [Ec En]]].
      destruct (kinv_dom ct cd cs cc cm cr _ o ob K SO (proj1 Hob) Ec) as [l [Ed _]].
      exists ob. split; [exact (proj1 Hob)|]. split; [exact Ec|]. split; [exact En|]. exists l. split; [exact Ed|].
      intros z Ez. specialize (HC z Ez). apply (alookup_in key_eqb key_eqb_iff) in HC.
      destruct (ok_cv _ _ _ CK _ _ HC) as [ob' [Hob' [_ Hin]]].
      assert (ob' = ob) by (destruct Hob as [A _], Hob' as [B _]; congruence). subst ob'.
      destruct (ok_obj _ _ R o ob Hob) as [_ [_ [_ OK]]]. unfold ObjOK in OK. rewrite Ed in OK.
      destruct OK as [OKa OKb]. rewrite OKb, OKa, En in Hin. destruct Hin as [Hin|[]]. injection Hin as ->. reflexivity.
    - destruct len2 as [z|]; [|intros E; discriminate].
      unfold create. destruct (nth_error ct cd) as [ci|]; [|intros E; discriminate].
      destruct (c_fail ci); cbn [alloc fst snd]; try (intros E; discriminate).
      intros E. injection E as <- _. unfold IsDom. rewrite heap_register. cbn [heap]. rewrite hget_new.
      eexists. split; [reflexivity|]. cbn. repeat split; auto. exists z. split; [reflexivity|].
      intros z' E'. injection E' as <-. reflexivity.
    - intros E. discriminate.
  Qed.

  Theorem dom_call_isdom fuel st nm len id b :
    Inv ct st -> KI (heap st) -> nm_ok nm -> (forall z, len = Some z -> (0 <= z)%Z) ->
    snd (dom_call fuel ct cd st (Some nm) len None None) = CRet id b ->
    IsDom (heap (fst (dom_call fuel ct cd st (Some nm) len None None))) id nm len.
  Proof.
    intros I K Hn Hl. destruct fuel as [|f]; [cbn; discriminate|]. cbn [dom_call]. unfold dom_body.
    pose proof cd_lt as Hc. destruct (nth_error ct cd) as [ci|] eqn:Ec; [|apply nth_error_None in Ec; lia].
    cbn [resolve_name]. rewrite dom_len1_none.
    destruct Hn as [Hne Hrest]. destruct nm as [|ch nm']; [congruence|]. cbn [nonempty negb].
    set (rec := fun st' n l => dom_call f ct cd st' (Some n) l None None).
    assert (HR : RecSpec ct cd cs cc cm cr rec) by (apply dom_call_spec; exact SO).
    destruct (dom_nested_spec ct cd cs cc cm cr rec st (ch :: nm') len SO HR I K (conj Hne Hrest) Hl) as [I1 [K1 _]].
    pose proof (nested_len rec st (ch :: nm') len) as NL.
    destruct (dom_nested rec st (ch :: nm') len) as [st1 [len2|k]]; cbn [fst snd] in *; [|discriminate].
    intros E. destruct (finish_isdom st1 false (ch :: nm') len2 id b I1 K1 eq_refl E) as [ob [H1 [H2 [H3 [l [H4 H5]]]]]].
    exists ob. repeat split; auto. exists l. split; [exact H4|]. intros z Ez. apply H5. apply (NL len2 eq_refl z Ez).
  Qed.

  (* IsDom only looks at fields that never change *)
  Lemma isdom_ext P h h' id nm len : HExt P h h' -> IsDom h id nm len -> IsDom h' id nm len.
  Proof.
    intros X [ob [H1 H2]]. destruct (hx_old _ _ _ X id ob H1) as [o' [H' [E|E]]]; subst o'.
    - exists ob. auto.
    - exists (kill ob). auto.
  Qed.

  Lemma isdom_name h id nm len : IsDom h id nm len -> obj_name h id = nm.
  Proof. intros [ob [H1 [_ [H3 _]]]]. unfold obj_name. rewrite H1. exact H3. Qed.

  Lemma cname_neq nm : nm_ok nm -> cname_of nm <> nm.
  Proof.
    intros _ E. unfold cname_of in E. destruct (starred nm) eqn:S.
    - apply (f_equal (@length _)) in E. unfold starred in S. destruct (rev nm) as [|c r] eqn:R; [discriminate|].
      assert (En : nm = rev r ++ [c]) by (rewrite <- (rev_involutive nm), R; reflexivity).
      rewrite En in E. rewrite removelast_last, app_length in E. cbn in E. lia.
    - apply (f_equal (@length _)) in E. rewrite app_length in E. cbn in E. lia.
  Qed.

  (* ---- the domain call of the reader, with what it returns ---- *)
  Lemma call_dom_inv nm len r r1 i :
    RGood r -> nm_ok nm -> (forall z, len = Some z -> (0 <= z)%Z) ->
    call (fun st => dom_call dom_fuel ct cd st (Some nm) len None None) r = (r1, Ok i) ->
    IsDom (heap (r_st r1)) i nm len /\ r_seq r1 = r_seq r /\ r_conc r1 = r_conc r /\ r_rate r1 = r_rate r.
  Proof.
    intros [I K] Hn Hl. unfold call.
    pose proof (dom_call_isdom dom_fuel (r_st r) nm len) as H.
    destruct (dom_call dom_fuel ct cd (r_st r) (Some nm) len None None) as [st' [id b|k e]]; [|discriminate].
    intros E. injection E as <- <-. cbn [r_st with_st hold heap r_seq r_conc r_rate]. cbn [fst snd] in H.
    split; [eapply H; eauto | auto].
  Qed.

  Lemma invert_inv i nm l r r1 j :
    RGood r -> nm_ok nm -> (0 <= l)%Z -> IsDom (heap (r_st r)) i nm (Some l) ->
    invert ct i r = (r1, Ok j) ->
    IsDom (heap (r_st r1)) j (cname_of nm) (Some l) /\ IsDom (heap (r_st r1)) i nm (Some l) /\
    r_seq r1 = r_seq r /\ r_conc r1 = r_conc r /\ r_rate r1 = r_rate r.
  Proof.
    intros GD Hn Hl [ob [H1 [H2 [H3 [l0 [H4 H5]]]]]] E. specialize (H5 l eq_refl). subst l0.
    assert (E' : invert ct i r = call (fun st => dom_call dom_fuel ct cd st (Some (cname_of nm)) (Some l) None None) r).
    { unfold invert, call, dom_complement. rewrite H1, H4, H2, H3. reflexivity. }
    rewrite E' in E.
    destruct (call_dom_inv (cname_of nm) (Some l) r r1 j GD (nm_ok_cname _ Hn)
                ltac:(intros z Ez; injection Ez as <-; exact Hl) E) as [A [B [C D]]].
    split; [exact A|]. split; [|auto].
    (* i itself is unchanged *)
    unfold call in E. pose proof (sext_any_dom ct cd dom_fuel (r_st r) (cname_of nm) (Some l)) as [_ X].
    destruct (dom_call dom_fuel ct cd (r_st r) (Some (cname_of nm)) (Some l) None None) as [st' [id b|k e]]; [|discriminate].
    injection E as <- _. cbn [r_st with_st hold heap]. cbn [fst] in X.
    eapply isdom_ext; [exact X|]. exists ob. repeat split; auto. exists l. split; [exact H4|]. intros z Ez. congruence.
  Qed.

  (* ---- filing a domain: the dictionary and the complement's sequence ---- *)
  Definition with_domains (acc : pilout) (d : list (pstr * nat)) : pilout :=
    mkOut d (po_strands acc) (po_complexes acc) (po_macrostates acc) (po_det acc) (po_con acc) (po_other acc).

  Lemma file_obj_dom i acc r r1 comp :
    isinst ct (r_st r) i cd = true -> invert ct i r = (r1, Ok comp) ->
    let acc2 := with_domains acc (dset (oname (r_st r1) comp) comp (dset (oname (r_st r) i) i (po_domains acc))) in
    file_obj ct G (RObj i) acc r =
      match attr_get i (r_seq r1), attr_get comp (r_seq r1) with
      | Some sq, None =>
          match Iupac.reverse_wc_complement false sq with
          | Ok s' => (mkR (r_st r1) (attr_set comp s' (r_seq r1)) (r_conc r1) (r_rate r1), Ok (acc2, [i; comp]))
          | Err _ => (r1, Err ePilFormat)
          end
      | _, _ => (r1, Ok (acc2, [i; comp]))
      end.
  Proof.
    intros Hi Hinv acc2. unfold file_obj. cbn [gD g].
    assert (E1 : inst_slot ct i (Some cd) r = (r, Ok true)).
    { unfold inst_slot. cbn [slot]. unfold bind, ret, get_state. rewrite Hi. reflexivity. }
    rewrite (bind_ok _ _ _ _ _ E1). cbv iota.
    rewrite (bind_ok get_state _ r r (r_st r) eq_refl). cbv zeta.
    rewrite (bind_ok _ _ _ _ _ Hinv).
    rewrite (bind_ok (fun r0 => (r0, Ok r0)) _ r1 r1 r1 eq_refl).
    destruct (attr_get i (r_seq r1)) as [sq|].
    2:{ erewrite (bind_ok (ret tt)); [|reflexivity]. erewrite (bind_ok get_state); [|reflexivity]. reflexivity. }
    destruct (attr_get comp (r_seq r1)).
    { erewrite (bind_ok (ret tt)); [|reflexivity]. erewrite (bind_ok get_state); [|reflexivity]. reflexivity. }
    destruct (Iupac.reverse_wc_complement false sq) as [s'|k] eqn:E.
    - erewrite (bind_ok (set_seq comp s')); [|reflexivity].
      erewrite (bind_ok get_state); [|reflexivity]. reflexivity.
    - apply rwc_err in E. subst k. replace (str_eqb eKey eKey) with true by reflexivity.
      erewrite (bind_err (fail ePilFormat)); reflexivity.
  Qed.

  (* ---- a domain statement ---- *)
  Definition dom_stmt (s : stmt) : option (pstr * Z * option pstr) :=
    match s with
    | SDl nm l => Some (nm, l, None)
    | SSl nm sq _ => Some (nm, Z.of_nat (length sq), Some sq)
    | _ => None
    end.

  Definition seq_decl (i : nat) (sq : option pstr) (l : list (nat * pstr)) : list (nat * pstr) :=
    match sq with Some x => (i, x) :: l | None => l end.

  Lemma held_call (f : state -> state * cout) r r1 i : call f r = (r1, Ok i) -> Held i r1.
  Proof.
    unfold call. destruct (f (r_st r)) as [st' [id b|k e]]; [|discriminate]. intros E. injection E as <- <-.
    unfold Held. cbn. apply in_or_app. right. left. reflexivity.
  Qed.

  Lemma exec_domain_stmt line s nm l sq r r1 o :
    dom_stmt s = Some (nm, l, sq) -> stmt_ok s -> RGood r ->
    exec_stmt ct G line s r = (r1, Ok o) ->
    exists i, o = RObj i /\ IsDom (heap (r_st r1)) i nm (Some l) /\ Held i r1 /\ RGood r1 /\ RExt r r1 /\
              r_seq r1 = seq_decl i sq (r_seq r) /\ r_conc r1 = r_conc r /\ r_rate r1 = r_rate r /\ (0 <= l)%Z /\ nm_ok nm.
  Proof.
    intros Hs Hok GD E. destruct s as [nm' dl|nm' sq' chk| | | | | |]; try discriminate;
      cbn in Hs; injection Hs as <- <- <-; cbn [exec_stmt] in E.
    - destruct Hok as [Hn Hl].
      unfold domain_new in E. cbn [gD g slot] in E. rewrite bind_ret in E.
      pose proof (op_domain ct cd cs cc cm cr SO (fun _ => True) nm' (Some dl) Hn
                    ltac:(intros z Ez; injection Ez as <-; exact Hl) r GD I) as H1.
      unfold bind in E.
      destruct (call (fun st => dom_call dom_fuel ct cd st (Some nm') (Some dl) None None) r) as [r1' [i|k]] eqn:Ec; [|discriminate].
      unfold ret in E. injection E as <- <-. destruct H1 as [G1 [X1 [Hh _]]].
      destruct (call_dom_inv nm' (Some dl) r r1' i GD Hn ltac:(intros z Ez; injection Ez as <-; exact Hl) Ec) as [A [B [C D]]].
      exists i. split; [reflexivity|]. split; [exact A|]. split; [exact Hh|]. split; [exact G1|]. split; [exact X1|].
      split; [exact B|]. auto.
    - rename Hok into Hn.
      assert (Hl : (0 <= Z.of_nat (length sq'))%Z) by lia.
      assert (Hl' : forall z, Some (Z.of_nat (length sq')) = Some z -> (0 <= z)%Z)
        by (intros z Ez; injection Ez as <-; exact Hl).
      pose proof (op_domain ct cd cs cc cm cr SO (fun _ => True) nm' (Some (Z.of_nat (length sq'))) Hn Hl' r GD I) as H1.
      pose proof (call_dom_inv nm' (Some (Z.of_nat (length sq'))) r) as H2.
      assert (E' : (dm i <- domain_new ct G nm' (Z.of_nat (length sq')); dm _ <- set_seq i sq'; ret (RObj i)) r = (r1, Ok o)).
      { unfold bind at 1 in E. destruct chk as [n|]; [destruct (Z.eqb n (Z.of_nat (length sq')))|]; cbn in E;
          try discriminate; exact E. }
      clear E. unfold domain_new in E'. cbn [gD g slot] in E'. rewrite bind_ret in E'. unfold bind at 1 in E'.
      destruct (call (fun st => dom_call dom_fuel ct cd st (Some nm') (Some (Z.of_nat (length sq'))) None None) r)
        as [r1' [i|k]] eqn:Ec; [|discriminate].
      unfold bind, set_seq, ret in E'. injection E' as <- <-. destruct H1 as [[I1 K1] [[X1 X2] [Hh _]]].
      destruct (H2 r1' i GD Hn Hl' eq_refl) as [A [B [C D]]].
      exists i. cbn [r_st r_seq r_conc r_rate seq_decl].
      split; [reflexivity|]. split; [exact A|]. split; [exact Hh|]. split; [constructor; assumption|].
      split; [constructor; assumption|]. split; [rewrite B; reflexivity|]. auto.
  Qed.

  Lemma file_obj_dom_err i acc r r1 k :
    isinst ct (r_st r) i cd = true -> invert ct i r = (r1, Err k) ->
    file_obj ct G (RObj i) acc r = (r1, Err k).
  Proof.
    intros Hi Hinv. unfold file_obj. cbn [gD g].
    assert (E1 : inst_slot ct i (Some cd) r = (r, Ok true)).
    { unfold inst_slot. cbn [slot]. unfold bind, ret, get_state. rewrite Hi. reflexivity. }
    rewrite (bind_ok _ _ _ _ _ E1). cbv iota.
    rewrite (bind_ok get_state _ r r (r_st r) eq_refl). cbv zeta.
    rewrite (bind_err _ _ _ _ _ Hinv). reflexivity.
  Qed.

  Lemma isdom_isinst st i nm len : IsDom (heap st) i nm len -> isinst ct st i cd = true.
  Proof.
    intros [ob [H1 [H2 _]]]. unfold isinst. rewrite H1, H2. apply subclass_refl.
  Qed.

  Definition seq_after (i j : nat) (s1 : list (nat * pstr)) : list (nat * pstr) :=
    match attr_get i s1, attr_get j s1 with
    | Some x, None => match Iupac.reverse_wc_complement false x with Ok y => (j, y) :: s1 | Err _ => s1 end
    | _, _ => s1
    end.

  (* C14, domains: what reading a `length` / `sequence` statement builds *)
  Theorem reader_builds_domain_line line s nm l sq acc r r' acc' :
    decode line = Ok s -> dom_stmt s = Some (nm, l, sq) -> stmt_ok s -> RGood r ->
    read_one ct G None (TList line) acc r = (r', Ok acc') ->
    exists i j,
      acc' = with_domains acc (dset (cname_of nm) j (dset nm i (po_domains acc))) /\
      IsDom (heap (r_st r')) i nm (Some l) /\ IsDom (heap (r_st r')) j (cname_of nm) (Some l) /\
      is_live (heap (r_st r')) i = true /\ is_live (heap (r_st r')) j = true /\
      r_seq r' = seq_after i j (seq_decl i sq (r_seq r)) /\
      (forall x, attr_get i (seq_decl i sq (r_seq r)) = Some x -> attr_get j (seq_decl i sq (r_seq r)) = None ->
                 exists y, Iupac.reverse_wc_complement false x = Ok y) /\
      r_conc r' = r_conc r /\ r_rate r' = r_rate r /\ RGood r' /\ RExt r r'.
  Proof.
    intros Hd Hs Hok GD E.
    unfold read_one in E. cbn [t_list] in E. rewrite bind_lift_Ok in E. cbn [ignored] in E.
    rewrite bind_lift_Ok in E. unfold bind at 1 in E. unfold nroots at 1 in E. cbv beta iota in E.
    unfold bind at 1 in E. rewrite (read_pil_line_decode ct G line s (g_full cd cs cc cm cr) Hd r) in E.
    destruct (exec_stmt ct G line s r) as [r1 [o|k]] eqn:Ee; [|discriminate].
    destruct (exec_domain_stmt line s nm l sq r r1 o Hs Hok GD Ee)
      as [i [-> [Di [Hi [G1 [X1 [S1 [C1 [R1 [Hl Hn]]]]]]]]]].
    pose proof (isdom_isinst _ _ _ _ Di) as Hinst.
    unfold bind at 1 in E.
    destruct (invert ct i r1) as [r2 [j|k]] eqn:Ei.
    2:{ rewrite (file_obj_dom_err i acc r1 r2 k Hinst Ei) in E. discriminate. }
    destruct (invert_inv i nm l r1 r2 j G1 Hn Hl Di Ei) as [Dj [Di2 [S2 [C2 R2]]]].
    pose proof (op_invert ct cd cs cc cm cr SO (fun r => ClsAt i cd r) i (fun r H => H) r1 G1) as H2.
    assert (Hc : ClsAt i cd r1).
    { destruct Di as [ob [A [B _]]]. unfold ClsAt, cls_at. rewrite A. cbn. rewrite B. reflexivity. }
    specialize (H2 Hc). rewrite Ei in H2. destruct H2 as [G2 [X2 [Hj _]]].
    rewrite (file_obj_dom i acc r1 r2 j Hinst Ei) in E.
    unfold oname in E. rewrite (isdom_name _ _ _ _ Dj), (isdom_name _ _ _ _ Di) in E.
    rewrite S2, S1 in E.
    set (s1 := seq_decl i sq (r_seq r)) in *.
    (* the state in which the dictionary entry is made *)
    assert (HX : exists rX, (RGood rX /\ RExt r rX /\ Held i rX /\ Held j rX /\
                             IsDom (heap (r_st rX)) i nm (Some l) /\ IsDom (heap (r_st rX)) j (cname_of nm) (Some l) /\
                             r_seq rX = seq_after i j s1 /\ r_conc rX = r_conc r /\ r_rate rX = r_rate r /\
                             (forall x, attr_get i s1 = Some x -> attr_get j s1 = None ->
                                        exists y, Iupac.reverse_wc_complement false x = Ok y)) /\
              (dm res <- (fun _ => (rX, Ok (with_domains acc (dset (cname_of nm) j (dset nm i (po_domains acc))), [i; j])));
               dm _ <- release (length (roots (r_st r))) (snd res); ret (fst res)) r1 = (r', Ok acc')).
    { assert (Hi2 : Held i r2) by (eapply stable_held; eauto).
      assert (X02 : RExt r r2) by (eapply rext_trans; eauto).
      unfold seq_after. destruct (attr_get i s1) as [x|] eqn:A1.
      2:{ exists r2. split; [|exact E]. split; [exact G2|]. split; [exact X02|]. split; [exact Hi2|]. split; [exact Hj|].
          split; [exact Di2|]. split; [exact Dj|]. split; [rewrite S2, S1; reflexivity|]. split; [congruence|].
          split; [congruence|]. intros x0 Hx0; discriminate. }
      destruct (attr_get j s1) eqn:A2.
      { exists r2. split; [|exact E]. split; [exact G2|]. split; [exact X02|]. split; [exact Hi2|]. split; [exact Hj|].
        split; [exact Di2|]. split; [exact Dj|]. split; [rewrite S2, S1; reflexivity|]. split; [congruence|].
        split; [congruence|]. intros x0 _ Hx0; discriminate. }
      destruct (Iupac.reverse_wc_complement false x) as [y|k] eqn:A3.
      2:{ unfold bind in E. discriminate. }
      exists (mkR (r_st r2) (attr_set j y s1) (r_conc r2) (r_rate r2)). split; [|exact E].
      destruct G2 as [I2 K2]. destruct X02 as [Xa Xb].
      split; [constructor; assumption|]. split; [constructor; assumption|].
      cbn [r_st r_seq r_conc r_rate]. split; [exact Hi2|]. split; [exact Hj|]. split; [exact Di2|]. split; [exact Dj|].
      split; [reflexivity|]. split; [congruence|]. split; [congruence|].
      intros x0 Hx0 _. injection Hx0 as <-. eauto. }
    destruct HX as [rX [[GX [XX [HiX [HjX [DiX [DjX [SX [CX [RX WX]]]]]]]]] EX]]. clear E.
    unfold bind at 1 in EX. cbn [snd fst] in EX.
    assert (Hlive : forall x, In x [i; j] -> is_live (heap (r_st rX)) x = true).
    { intros x [<-|[<-|[]]]; apply (held_live ct cd cs cc cm cr _ rX GX); assumption. }
    destruct (release_good ct cd cs cc cm cr r rX [i; j] GX XX Hlive) as [G3 [Er Xh3]].
    unfold bind, release, ret in EX. injection EX as <- <-.
    unfold release in G3, Er, Xh3. cbn [fst] in G3, Er, Xh3.
    exists i, j. split; [reflexivity|].
    pose proof (hext_collect anyobj (cut_roots (r_st rX) (length (roots (r_st r))) [i; j])) as XC.
    split; [eapply isdom_ext; [exact XC | exact DiX]|]. split; [eapply isdom_ext; [exact XC | exact DjX]|].
    assert (Hr : forall x, In x [i; j] -> is_live (heap (collect (cut_roots (r_st rX) (length (roots (r_st r))) [i; j]))) x = true).
    { intros x Hx. apply (held_live ct cd cs cc cm cr x _ G3). unfold Held. rewrite Er.
      apply in_or_app. right. apply in_map. exact Hx. }
    split; [apply Hr; left; reflexivity|]. split; [apply Hr; right; left; reflexivity|].
    cbn [r_st with_st r_seq r_conc r_rate]. split; [exact SX|]. split; [exact WX|]. split; [exact CX|]. split; [exact RX|].
    split; [exact G3|]. constructor; [rewrite Er; eexists; reflexivity | exact Xh3].
  Qed.

  (* ---- a document of domain declarations ---- *)
  Definition decl := (pstr * Z * option pstr)%type.
  Definition d_name (d : decl) : pstr := fst (fst d).
  Definition d_names (d : decl) : list pstr := [d_name d; cname_of (d_name d)].
  Definition dom_line (lt : tok) (d : decl) : Prop :=
    exists line s, lt = TList line /\ decode line = Ok s /\ stmt_ok s /\ dom_stmt s = Some d.

  Definition rwc_opt (sq : option pstr) : option pstr :=
    match sq with
    | Some x => match Iupac.reverse_wc_complement false x with Ok y => Some y | Err _ => None end
    | None => None
    end.

  (* the declared domain and its complement are in the dictionary with exactly the declared attributes *)
  Definition entry_ok (r : rstate) (doms : list (pstr * nat)) (d : decl) : Prop :=
    let '(nm, l, sq) := d in
    exists i j, In (nm, i) doms /\ In (cname_of nm, j) doms /\
      dom_view r (nm, i) = Ok (nm, l, sq, nm, cd) /\
      dom_view r (cname_of nm, j) = Ok (cname_of nm, l, rwc_opt sq, cname_of nm, cd).

  Lemma dset_fresh k v l : ~ In k (map fst l) -> dset k v l = l ++ [(k, v)].
  Proof.
    induction l as [|[k' v'] l IH]; cbn; intros H; [reflexivity|].
    destruct (str_eqb k k') eqn:E; [apply str_eqb_iff in E; subst; tauto|]. rewrite IH by tauto. reflexivity.
  Qed.

  Lemma isdom_view r i nm l : IsDom (heap (r_st r)) i nm (Some l) ->
    dom_view r (nm, i) = Ok (nm, l, attr_get i (r_seq r), nm, cd).
  Proof.
    intros [ob [H1 [H2 [H3 [l0 [H4 H5]]]]]]. unfold dom_view. cbn [fst snd]. rewrite H1, H4, H2, H3.
    rewrite (H5 l eq_refl). reflexivity.
  Qed.

  Lemma dom_view_ext r r' k i v :
    HExt anyobj (heap (r_st r)) (heap (r_st r')) -> attr_get i (r_seq r') = attr_get i (r_seq r) ->
    dom_view r (k, i) = Ok v -> dom_view r' (k, i) = Ok v.
  Proof.
    intros X Ea. unfold dom_view. cbn [fst snd]. destruct (hget (heap (r_st r)) i) as [o|] eqn:E; [|discriminate].
    destruct (hx_old _ _ _ X i o E) as [o' [E' [->| ->]]]; rewrite E', Ea; auto.
  Qed.

  Record DocInv (done : list decl) (r : rstate) (doms : list (pstr * nat)) : Prop := mkDocInv {
    di_good : RGood r;
    di_keys : map fst doms = flat_map d_names done;
    di_attr : forall k, attr_get k (r_seq r) <> None -> exists name, In (name, k) doms;
    di_name : forall name k, In (name, k) doms -> exists o, hget (heap (r_st r)) k = Some o /\ o_name o = name;
    di_ok : Forall (entry_ok r doms) done
  }.

  Lemma docinv_step lt d done r acc r' acc' :
    dom_line lt d -> DocInv done r (po_domains acc) ->
    ~ In (d_name d) (flat_map d_names done) -> ~ In (cname_of (d_name d)) (flat_map d_names done) ->
    read_one ct G None lt acc r = (r', Ok acc') ->
    DocInv (done ++ [d]) r' (po_domains acc').
  Proof.
    intros [line [s [-> [Hd [Hok Hs]]]]] [GD Kk At Nm Ok0] F1 F2 E.
    destruct d as [[nm l] sq]. cbn [d_name fst] in F1, F2.
    destruct (reader_builds_domain_line line s nm l sq acc r r' acc' Hd Hs Hok GD E)
      as [i [j [-> [Di [Dj [Li [Lj [Sq [Wq [_ [_ [G' X']]]]]]]]]]]].
    cbn [po_domains with_domains].
    assert (Hnm : nm_ok nm).
    { destruct s; cbn in Hs; try discriminate; injection Hs as <- _ _; cbn in Hok; tauto. }
    pose proof (cname_neq nm Hnm) as Hne.
    rewrite <- Kk in F1, F2.
    rewrite (dset_fresh nm i _ F1).
    assert (F2' : ~ In (cname_of nm) (map fst (po_domains acc ++ [(nm, i)]))).
    { rewrite map_app, in_app_iff. cbn. intros [H|[H|[]]]; [tauto | congruence]. }
    rewrite (dset_fresh (cname_of nm) j _ F2').
    (* the two objects are not filed yet: they carry no sequence attribute *)
    assert (Hnew : forall k name, In (name, k) (po_domains acc) -> k <> i /\ k <> j).
    { intros k name Hin. destruct (Nm name k Hin) as [o [Ho En]].
      destruct (hx_old _ _ _ (re_heap _ _ X') k o Ho) as [o' [Ho' Kl]].
      assert (En' : o_name o' = name) by (destruct Kl as [->| ->]; exact En).
      assert (Hk : In name (map fst (po_domains acc))) by (apply in_map_iff; exists (name, k); auto).
      split; intros ->.
      - destruct Di as [ob [A [_ [B _]]]]. rewrite Ho' in A. injection A as <-. congruence.
      - destruct Dj as [ob [A [_ [B _]]]]. rewrite Ho' in A. injection A as <-. congruence. }
    assert (Ai : attr_get i (r_seq r) = None).
    { destruct (attr_get i (r_seq r)) eqn:A; [|reflexivity]. destruct (At i) as [name Hin]; [congruence|].
      destruct (Hnew i name Hin). congruence. }
    assert (Aj : attr_get j (r_seq r) = None).
    { destruct (attr_get j (r_seq r)) eqn:A; [|reflexivity]. destruct (At j) as [name Hin]; [congruence|].
      destruct (Hnew j name Hin). congruence. }
    assert (Hij : i <> j).
    { intros ->. destruct Di as [ob [A [_ [B _]]]], Dj as [ob' [A' [_ [B' _]]]]. rewrite A in A'. injection A' as <-. congruence. }
    (* the attributes after the line *)
    assert (Hseq : attr_get i (r_seq r') = sq /\ attr_get j (r_seq r') = rwc_opt sq /\
                   forall k, k <> i -> k <> j -> attr_get k (r_seq r') = attr_get k (r_seq r)).
    { rewrite Sq. unfold seq_after, seq_decl in *. destruct sq as [x|]; cbn [rwc_opt].
      - cbn [attr_get]. rewrite Nat.eqb_refl. destruct (Nat.eqb j i) eqn:Eji; [apply Nat.eqb_eq in Eji; congruence|].
        rewrite Aj. destruct (Wq x) as [y Ey]; [cbn; rewrite Nat.eqb_refl; reflexivity | cbn; rewrite Eji; exact Aj |].
        rewrite Ey. cbn [attr_get]. rewrite Nat.eqb_refl.
        destruct (Nat.eqb i j) eqn:Eij; [apply Nat.eqb_eq in Eij; congruence|]. rewrite Nat.eqb_refl.
        split; [reflexivity|]. split; [reflexivity|]. intros k Hk1 Hk2.
        destruct (Nat.eqb k j) eqn:E1; [apply Nat.eqb_eq in E1; congruence|].
        destruct (Nat.eqb k i) eqn:E2; [apply Nat.eqb_eq in E2; congruence|]. reflexivity.
      - rewrite Ai. auto. }
    destruct Hseq as [Si [Sj Sk]].
    constructor.
    - exact G'.
    - rewrite !map_app, Kk, flat_map_app. cbn. rewrite <- app_assoc. reflexivity.
    - intros k Hk. destruct (Nat.eq_dec k i) as [->|Hki]; [exists nm; apply in_or_app; left; apply in_or_app; right; left; reflexivity|].
      destruct (Nat.eq_dec k j) as [->|Hkj]; [exists (cname_of nm); apply in_or_app; right; left; reflexivity|].
      rewrite (Sk k Hki Hkj) in Hk. destruct (At k Hk) as [name Hin]. exists name. apply in_or_app. left. apply in_or_app. left. exact Hin.
    - intros name k Hin. apply in_app_or in Hin. destruct Hin as [Hin|[Hin|[]]].
      + apply in_app_or in Hin. destruct Hin as [Hin|[Hin|[]]].
        * destruct (Nm name k Hin) as [o [Ho En]]. destruct (hx_old _ _ _ (re_heap _ _ X') k o Ho) as [o' [Ho' Kl]].
          exists o'. split; [exact Ho'|]. destruct Kl as [->| ->]; exact En.
        * injection Hin as <- <-. destruct Di as [ob [A [_ [B _]]]]. eauto.
      + injection Hin as <- <-. destruct Dj as [ob [A [_ [B _]]]]. eauto.
    - apply Forall_app. split.
      + eapply Forall_impl; [|exact Ok0]. intros [[nm0 l0] sq0] [i0 [j0 [H1 [H2 [H3 H4]]]]].
        exists i0, j0. split; [apply in_or_app; left; apply in_or_app; left; exact H1|].
        split; [apply in_or_app; left; apply in_or_app; left; exact H2|].
        destruct (Hnew i0 nm0 H1) as [Ni Nj]. destruct (Hnew j0 (cname_of nm0) H2) as [Ni' Nj'].
        split; (eapply dom_view_ext; [exact (re_heap _ _ X') | apply Sk; assumption | assumption]).
      + constructor; [|constructor]. exists i, j.
        split; [apply in_or_app; left; apply in_or_app; right; left; reflexivity|].
        split; [apply in_or_app; right; left; reflexivity|].
        rewrite (isdom_view r' i nm l Di), (isdom_view r' j (cname_of nm) l Dj), Si, Sj. auto.
  Qed.

  (* C14, domains: a document of domain declarations with pairwise different names (no name is the
     complement of another), read in a session without sequence attributes: the dictionary's
     `domains` field has exactly the declared names and their complements as keys, and every
     entry has exactly the declared length, sequence (complement: reverse Watson-Crick
     complement), name and the configured class *)
  Theorem reader_builds_domains lines decls r r' o :
    Forall2 dom_line lines decls -> NoDup (flat_map d_names decls) ->
    RGood r -> r_seq r = [] ->
    read_lines ct G None lines empty_out r = (r', Ok o) ->
    map fst (po_domains o) = flat_map d_names decls /\ Forall (entry_ok r' (po_domains o)) decls.
  Proof.
    intros F ND GD Es E.
    assert (H : forall done acc r0, DocInv done r0 (po_domains acc) -> NoDup (flat_map d_names (done ++ decls)) ->
              read_lines ct G None lines acc r0 = (r', Ok o) -> DocInv (done ++ decls) r' (po_domains o)).
    { clear GD Es E ND. induction F as [|lt d lines decls Hl F IH]; intros done acc r0 J ND E.
      - cbn in E. injection E as <- <-. rewrite app_nil_r. exact J.
      - cbn [read_lines] in E. unfold bind in E.
        destruct (read_one ct G None lt acc r0) as [r1 [acc1|k]] eqn:E1; [|discriminate].
        replace (done ++ d :: decls) with ((done ++ [d]) ++ decls) in * by (rewrite <- app_assoc; reflexivity).
        apply (IH (done ++ [d]) acc1 r1); [|exact ND | exact E].
        assert (EN : flat_map d_names ((done ++ [d]) ++ decls) =
                     flat_map d_names done ++ d_name d :: cname_of (d_name d) :: flat_map d_names decls).
        { rewrite !flat_map_app. cbn. rewrite <- !app_assoc. reflexivity. }
        rewrite EN in ND.
        apply (docinv_step lt d done r0 acc r1 acc1 Hl J); [| | exact E1].
        + intros Hin. apply NoDup_remove_2 in ND. apply ND. apply in_or_app. left. exact Hin.
        + intros Hin. change (flat_map d_names done ++ d_name d :: cname_of (d_name d) :: flat_map d_names decls)
            with (flat_map d_names done ++ [d_name d] ++ cname_of (d_name d) :: flat_map d_names decls) in ND.
          rewrite app_assoc in ND. apply NoDup_remove_2 in ND. apply ND. apply in_or_app. left.
          apply in_or_app. left. exact Hin. }
    specialize (H [] empty_out r). cbn [app] in H.
    destruct H as [_ Kk _ _ Ok0]; [| exact ND | exact E | split; assumption].
    constructor; cbn; auto.
    - intros k Hk. rewrite Es in Hk. cbn in Hk. congruence.
    - intros name k [].
  Qed.

  (* ================================================================ *)
  (* strands                                                            *)
  Let IO := co_io ct cd cs cc cm cr CO.

  Lemma cs_lt' : cs < length ct.
  Proof. apply (cs_lt ct cd cs cc cm cr SO). Qed.

  Definition IsStrand (h : list obj) (id : nat) (nm : pstr) (names : list pstr) : Prop :=
    exists ob es, hget h id = Some ob /\ o_cls ob = cs /\ o_name ob = nm /\ o_data ob = DStrand es /\ map fst es = names.

  Lemma isstrand_ext P h h' id nm names : HExt P h h' -> IsStrand h id nm names -> IsStrand h' id nm names.
  Proof.
    intros X [ob [es [H1 H2]]]. destruct (hx_old _ _ _ X id ob H1) as [o' [H' [E|E]]]; subst o'.
    - exists ob, es. auto.
    - exists (kill ob), es. auto.
  Qed.

  Lemma strand_call_isstrand st es nm id b :
    Inv ct st -> KI (heap st) -> nonempty nm = true ->
    snd (strand_call ct cs st (Some es) (Some nm) None) = CRet id b ->
    IsStrand (heap (fst (strand_call ct cs st (Some es) (Some nm) None))) id nm (map fst es).
  Proof.
    intros I K Hne. unfold strand_call. pose proof cs_lt' as Hc.
    destruct (nth_error ct cs) as [ci|] eqn:Ec; [|apply nth_error_None in Ec; lia].
    destruct (existsb is_plus es); [cbn; discriminate|]. cbn [resolve_name].
    set (cn := (map fst es, map (fun _ : elem => cStar) es)).
    destruct (sing_lookup (cget st cs) nm (Some (KCplx cn))) as [o| |e] eqn:EL; cbn [fst snd].
    - intros E. injection E as <- _.
      unfold sing_lookup in EL. rewrite Hne in EL.
      destruct (nlookup nm (cs_names (cget st cs))) as [on|] eqn:E1;
        destruct (klookup (KCplx cn) (cs_canon (cget st cs))) as [oc|] eqn:E2; try discriminate.
      destruct (Nat.eqb on oc) eqn:E; [|discriminate]. apply Nat.eqb_eq in E. subst oc. injection EL as <-.
      destruct I as [R Hh]. pose proof (ok_cls _ _ R cs Hc) as CK.
      apply (alookup_in str_eqb str_eqb_iff) in E1. apply (alookup_in key_eqb key_eqb_iff) in E2.
      destruct (ok_nv _ _ _ CK nm on E1) as [ob [Hob [Eo En]]].
      destruct (ok_cv _ _ _ CK _ _ E2) as [ob' [Hob' [_ Hin]]].
      assert (ob' = ob) by (destruct Hob as [A _], Hob' as [B _]; congruence). subst ob'.
      destruct (kinv_strand ct cd cs cc cm cr _ on ob K SO (proj1 Hob) Eo) as [es' [Ed [_ [Ek [Eks _]]]]].
      rewrite Eks, Ek in Hin. destruct Hin as [Hin|[]]. injection Hin as Hn _.
      exists ob, es'. repeat split; auto. exact (proj1 Hob).
    - unfold create. rewrite Ec. destruct (c_fail ci); cbn [alloc fst snd]; try (intros E; discriminate).
      intros E. injection E as <- _. unfold IsStrand. rewrite heap_register. cbn [heap]. rewrite hget_new.
      eexists. exists es. repeat split; reflexivity.
    - intros E. discriminate.
  Qed.

  (* every element of a live strand is the registered domain singleton of its name *)
  Definition ElemIs (st : state) (e : elem) : Prop :=
    exists j, snd e = Some j /\ IsDom (heap st) j (fst e) None /\ nlookup (fst e) (cs_names (cget st cd)) = Some j.

  Lemma strand_elems r i ob es :
    RGood r -> hget (heap (r_st r)) i = Some ob -> o_live ob = true -> o_cls ob = cs -> o_data ob = DStrand es ->
    Forall (ElemIs (r_st r)) es.
  Proof.
    intros [[R Hh] K] Ho Hl Ec Ed.
    destruct (kinv_strand ct cd cs cc cm cr _ i ob K SO Ho Ec) as [es' [Ed' [Ech [_ [_ F]]]]].
    rewrite Ed in Ed'. injection Ed' as <-.
    apply Forall_forall. intros e He. rewrite Forall_forall in F. destruct (F e He) as [j [E1 [E2 E3]]].
    exists j. split; [exact E1|].
    assert (Lj : is_live (heap (r_st r)) j = true).
    { apply (hk_child _ Hh i ob); [split; assumption|]. rewrite Ech. eapply in_elem_ids; eauto. }
    unfold is_live in Lj. destruct (hget (heap (r_st r)) j) as [oj|] eqn:Ej; [|discriminate].
    assert (Ecj : o_cls oj = cd) by (unfold cls_at in E2; rewrite Ej in E2; cbn in E2; congruence).
    assert (Enj : o_name oj = fst e) by (unfold obj_name in E3; rewrite Ej in E3; exact E3).
    destruct (kinv_dom ct cd cs cc cm cr _ j oj K SO Ej Ecj) as [l [Edj _]].
    split.
    - exists oj. repeat split; auto. exists l. split; [exact Edj | intros z Ez; discriminate].
    - destruct (ok_obj _ _ R j oj (conj Ej Lj)) as [_ [[N1 _] _]]. rewrite Ecj, Enj in N1. exact N1.
  Qed.

  Lemma call_attrs (f : state -> state * cout) r r1 x :
    call f r = (r1, x) -> r_seq r1 = r_seq r /\ r_conc r1 = r_conc r /\ r_rate r1 = r_rate r.
  Proof.
    unfold call. destruct (f (r_st r)) as [st' [id b|k e]]; intros E; injection E as <- _; auto.
  Qed.

  Lemma mapM_dom_inv ds : forall r ra ids,
    RGood r -> Forall nm_ok ds -> mapM (domain_by_name ct G) ds r = (ra, Ok ids) ->
    RGood ra /\ RExt r ra /\ Forall2 (fun d j => IsDom (heap (r_st ra)) j d None /\ Held j ra) ds ids /\
    r_seq ra = r_seq r /\ r_conc ra = r_conc r /\ r_rate ra = r_rate r.
  Proof.
    induction ds as [|d ds IH]; intros r ra ids GD Hn E; cbn [mapM] in E.
    - unfold ret in E. injection E as <- <-. split; [exact GD|]. split; [apply rext_refl|]. split; [constructor | auto].
    - inversion Hn as [|? ? Hd Hn']; subst. unfold bind at 1 in E.
      pose proof (op_domain_by_name ct cd cs cc cm cr SO (fun _ => True) d Hd r GD I) as H1.
      destruct (domain_by_name ct G d r) as [r1 [j|k]] eqn:E1; [|discriminate].
      destruct H1 as [G1 [X1 [Hj _]]].
      assert (E1' : call (fun st => dom_call dom_fuel ct cd st (Some d) None None None) r = (r1, Ok j)).
      { unfold domain_by_name in E1. cbn [gD g slot] in E1. rewrite bind_ret in E1. exact E1. }
      destruct (call_dom_inv d None r r1 j GD Hd ltac:(discriminate) E1') as [Dj [S1 [C1 R1]]].
      unfold bind at 1 in E. destruct (mapM (domain_by_name ct G) ds r1) as [r2 [js|k]] eqn:E2; [|discriminate].
      unfold ret in E. injection E as <- <-.
      destruct (IH r1 r2 js G1 Hn' E2) as [G2 [X2 [F2 [S2 [C2 R2]]]]].
      split; [exact G2|]. split; [eapply rext_trans; eauto|].
      split; [|repeat split; congruence].
      constructor; [|exact F2]. split; [eapply isdom_ext; [exact (re_heap _ _ X2) | exact Dj] | eapply stable_held; eauto].
  Qed.

  Definition with_strands (acc : pilout) (d : list (pstr * nat)) : pilout :=
    mkOut (po_domains acc) d (po_complexes acc) (po_macrostates acc) (po_det acc) (po_con acc) (po_other acc).

  Lemma file_obj_strand i acc r :
    isinst ct (r_st r) i cd = false -> isinst ct (r_st r) i cs = true ->
    file_obj ct G (RObj i) acc r = (r, Ok (with_strands acc (dset (oname (r_st r) i) i (po_strands acc)), [i])).
  Proof.
    intros H1 H2. unfold file_obj. cbn [gD gS g].
    assert (E1 : inst_slot ct i (Some cd) r = (r, Ok false)).
    { unfold inst_slot. cbn [slot]. unfold bind, ret, get_state. rewrite H1. reflexivity. }
    assert (E2 : inst_slot ct i (Some cs) r = (r, Ok true)).
    { unfold inst_slot. cbn [slot]. unfold bind, ret, get_state. rewrite H2. reflexivity. }
    rewrite (bind_ok _ _ _ _ _ E1). cbv iota. rewrite (bind_ok _ _ _ _ _ E2).
    rewrite (bind_ok get_state _ r r (r_st r) eq_refl). cbv iota. reflexivity.
  Qed.

  (* C14, strands: what reading a `strand` / `sup-sequence` statement builds *)
  Theorem reader_builds_strand_line line nm ds acc r r' acc' :
    decode line = Ok (SComp nm ds) -> Forall nm_ok ds -> nonempty nm = true -> RGood r ->
    read_one ct G None (TList line) acc r = (r', Ok acc') ->
    exists i ob es,
      acc' = with_strands acc (dset nm i (po_strands acc)) /\
      hget (heap (r_st r')) i = Some ob /\ o_live ob = true /\ o_cls ob = cs /\ o_name ob = nm /\
      o_data ob = DStrand es /\ map fst es = ds /\
      (* the elements are the registered domain singletons of the listed names *)
      Forall (ElemIs (r_st r')) es /\
      r_seq r' = r_seq r /\ r_conc r' = r_conc r /\ r_rate r' = r_rate r /\ RGood r' /\ RExt r r'.
  Proof.
    intros Hd Hds Hne GD E.
    unfold read_one in E. cbn [t_list] in E. rewrite bind_lift_Ok in E. cbn [ignored] in E.
    rewrite bind_lift_Ok in E. unfold bind at 1 in E. unfold nroots at 1 in E. cbv beta iota in E.
    unfold bind at 1 in E. rewrite (read_pil_line_decode ct G line _ (g_full cd cs cc cm cr) Hd r) in E.
    cbn [exec_stmt] in E. unfold bind at 1 in E.
    destruct (mapM (domain_by_name ct G) ds r) as [ra [ids|k]] eqn:Em; [|discriminate].
    destruct (mapM_dom_inv ds r ra ids GD Hds Em) as [Ga [Xa [Fa [Sa [Ca Ra]]]]].
    cbn [gS g slot] in E. rewrite bind_ret in E. unfold bind at 1 in E. unfold get_state at 1 in E. cbv beta iota in E.
    unfold bind at 1 in E.
    (* the strand call, as an operation of the logic and by its result *)
    assert (HO : Op ct cd cs cc cm cr (fun r0 => r0 = ra)
                    (call (fun st' => strand_call ct cs st' (Some (map (elem_of (r_st ra)) ids)) (Some nm) None)) (RetQ cs)).
    { apply op_call.
      - intros r0 GD0 ->. destruct Ga as [I1 K1].
        assert (Hlive : forall x, In x (elem_ids (map (elem_of (r_st ra)) ids)) -> is_live (heap (r_st ra)) x = true).
        { intros x Hx. rewrite elem_ids_elem_of in Hx. apply (held_live ct cd cs cc cm cr x ra (mkRGood _ _ _ _ _ _ _ I1 K1)).
          clear -Fa Hx. induction Fa as [|d j ds ids [_ Hh] Fa IH]; [destruct Hx | destruct Hx as [<-|Hx]; auto]. }
        assert (Hcls : Forall (fun e => exists j, snd e = Some j /\ cls_at (heap (r_st ra)) j = Some cd /\
                                                   obj_name (heap (r_st ra)) j = fst e) (map (elem_of (r_st ra)) ids)).
        { apply Forall_forall. intros e He. apply in_map_iff in He. destruct He as [j [<- Hj]].
          exists j. split; [reflexivity|]. split; [|reflexivity].
          clear -Fa Hj. induction Fa as [|d j0 ds ids [[ob [A [B _]]] _] Fa IH]; [destruct Hj|].
          destruct Hj as [<-|Hj]; [unfold cls_at; rewrite A; cbn; rewrite B; reflexivity | auto]. }
        destruct (strand_call_spec ct cd cs cc cm cr (r_st ra) _ nm SO I1 K1 Hlive Hcls) as [I2 [K2 [R2 F3]]].
        split; [apply callok_strand_call; [exact I1 | intros es x Ee Hx; injection Ee as <-; apply Hlive; exact Hx]|]. auto.
      - intros st0. apply sext_strand_call; [apply anyobj_kill | intros; exact I]. }
    specialize (HO ra Ga eq_refl).
    destruct (call (fun st' => strand_call ct cs st' (Some (map (elem_of (r_st ra)) ids)) (Some nm) None) ra)
      as [r1 [i|k]] eqn:Ec; [|discriminate].
    destruct HO as [G1 [X1 [Hi Hc]]].
    destruct (call_attrs _ _ _ _ Ec) as [S1 [C1 R1]].
    assert (Ds : IsStrand (heap (r_st r1)) i nm ds).
    { unfold call in Ec.
      destruct (strand_call ct cs (r_st ra) (Some (map (elem_of (r_st ra)) ids)) (Some nm) None) as [st' [id b|k e]] eqn:Es;
        [|discriminate].
      injection Ec as <- <-. cbn [r_st with_st hold heap]. destruct Ga as [I1 K1].
      pose proof (strand_call_isstrand (r_st ra) (map (elem_of (r_st ra)) ids) nm id b I1 K1 Hne (f_equal snd Es)) as HS0.
      pose proof (eq_ind _ (fun z => IsStrand (heap (fst z)) id nm (map fst (map (elem_of (r_st ra)) ids))) HS0 _ Es) as HS.
      cbn [fst] in HS.
      replace ds with (map fst (map (elem_of (r_st ra)) ids)); [exact HS|].
      rewrite map_map. cbn [elem_of fst]. clear -Fa.
      induction Fa as [|d j ds ids [Dj _] Fa IH]; cbn; [reflexivity|]. rewrite IH. f_equal.
      unfold oname. apply (isdom_name _ _ _ _ Dj). }
    unfold ret at 1 in E. cbv beta iota in E. unfold bind at 1 in E.
    assert (H1 : isinst ct (r_st r1) i cd = false).
    { destruct (clsat_obj _ _ _ Hc) as [o [Ho Eo]]. unfold isinst. rewrite Ho, Eo.
      destruct IO as [E1 _]. exact E1. }
    assert (H2 : isinst ct (r_st r1) i cs = true).
    { destruct (clsat_obj _ _ _ Hc) as [o [Ho Eo]]. unfold isinst. rewrite Ho, Eo. apply subclass_refl. }
    rewrite (file_obj_strand i acc r1 H1 H2) in E. cbn [snd fst] in E.
    assert (X01 : RExt r r1) by (eapply rext_trans; eauto).
    assert (Hlive : forall x, In x [i] -> is_live (heap (r_st r1)) x = true).
    { intros x [<-|[]]. apply (held_live ct cd cs cc cm cr _ r1 G1 Hi). }
    destruct (release_good ct cd cs cc cm cr r r1 [i] G1 X01 Hlive) as [G3 [Er Xh3]].
    unfold bind, release, ret in E. injection E as <- <-.
    unfold release in G3, Er, Xh3. cbn [fst] in G3, Er, Xh3.
    pose proof (hext_collect anyobj (cut_roots (r_st r1) (length (roots (r_st r))) [i])) as XC.
    destruct (isstrand_ext _ _ _ _ _ _ XC Ds) as [ob [es [Ho [Eo [En [Ed Em']]]]]].
    assert (Li : is_live (heap (collect (cut_roots (r_st r1) (length (roots (r_st r))) [i]))) i = true).
    { apply (held_live ct cd cs cc cm cr i _ G3). unfold Held. rewrite Er. apply in_or_app. right. left. reflexivity. }
    exists i, ob, es. cbn [r_st with_st r_seq r_conc r_rate].
    destruct Ds as [ob1 [es1 [Ho1 [_ [En1 _]]]]].
    split; [unfold oname, obj_name; rewrite Ho1, En1; reflexivity|].
    split; [exact Ho|]. assert (Lo : o_live ob = true) by (unfold is_live in Li; rewrite Ho in Li; exact Li).
    split; [exact Lo|]. split; [exact Eo|]. split; [exact En|]. split; [exact Ed|]. split; [exact Em'|].
    split; [apply (strand_elems _ i ob es G3 Ho Lo Eo Ed)|].
    split; [congruence|]. split; [congruence|]. split; [congruence|]. split; [exact G3|].
    constructor; [rewrite Er; eexists; reflexivity | exact Xh3].
  Qed.

  (* ================================================================ *)
  (* frame: statements of other kinds leave the domains field and the sequence attributes alone *)

  Lemma inst_slot_val i c d r : ClsAt i c r -> inst_slot ct i (Some d) r = (r, Ok (subclass (length ct) ct c d)).
  Proof.
    intros H. destruct (clsat_obj _ _ _ H) as [o [Ho Eo]].
    unfold inst_slot. cbn [slot]. unfold bind, ret, get_state, isinst. rewrite Ho, Eo. reflexivity.
  Qed.

  Lemma file_obj_other i c acc r r2 res :
    c <> cd -> In c [cs; cc; cm; cr] -> ClsAt i c r ->
    file_obj ct G (RObj i) acc r = (r2, Ok res) ->
    po_domains (fst res) = po_domains acc /\ r_seq r2 = r_seq r.
  Proof.
    intros Hne Hin Hc E. unfold file_obj in E. cbn [gD gS gC gM gR g] in E.
    destruct IO as [E1 [E2 [E3 [E4 [E5 [E6 [E7 [E8 [E9 E10]]]]]]]]]. cbv zeta in *.
    assert (Hd : subclass (length ct) ct c cd = false).
    { cbn in Hin. destruct Hin as [<-|[<-|[<-|[<-|[]]]]]; assumption. }
    rewrite (bind_ok _ _ _ _ _ (inst_slot_val i c cd r Hc)), Hd in E.
    rewrite (bind_ok _ _ _ _ _ (inst_slot_val i c cs r Hc)) in E.
    rewrite (bind_ok get_state _ r r (r_st r) eq_refl) in E.
    destruct (subclass (length ct) ct c cs) eqn:Bs.
    { unfold ret in E. injection E as <- <-. auto. }
    rewrite (bind_ok _ _ _ _ _ (inst_slot_val i c cc r Hc)) in E.
    destruct (subclass (length ct) ct c cc) eqn:Bc.
    { unfold ret in E. injection E as <- <-. auto. }
    rewrite (bind_ok _ _ _ _ _ (inst_slot_val i c cm r Hc)) in E.
    destruct (subclass (length ct) ct c cm) eqn:Bm.
    { unfold ret in E. injection E as <- <-. auto. }
    rewrite (bind_ok _ _ _ _ _ (inst_slot_val i c cr r Hc)) in E.
    destruct (subclass (length ct) ct c cr) eqn:Br; [|discriminate].
    unfold bind, lift in E. destruct (rtype_of (r_st r) i) as [t|k]; [|discriminate].
    destruct (is_s t sCondensed); unfold ret in E; injection E as <- <-; auto.
  Qed.

  Lemma file_obj_line_frame l acc r r2 res :
    file_obj ct G (RLine l) acc r = (r2, Ok res) -> po_domains (fst res) = po_domains acc /\ r_seq r2 = r_seq r.
  Proof.
    cbn [file_obj gD gS gC gM gR g slot]. rewrite !bind_ret. unfold ret. intros E. injection E as <- <-. auto.
  Qed.

  Lemma objq_other c o r : c <> cd -> In c [cs; cc; cm; cr] -> ObjQ c o r ->
    match o with RObj i => exists c', c' <> cd /\ In c' [cs; cc; cm; cr] /\ ClsAt i c' r | RLine _ => True end.
  Proof. destruct o as [i|l]; cbn; [|auto]. intros H1 H2 [_ H3]. eauto. Qed.

  Lemma exec_nondom_cls line s r r1 o :
    dom_stmt s = None -> stmt_ok s -> RGood r -> exec_stmt ct G line s r = (r1, Ok o) ->
    match o with RObj i => exists c, c <> cd /\ In c [cs; cc; cm; cr] /\ ClsAt i c r1 | RLine _ => True end.
  Proof.
    intros Hs Hok GD E. pose proof (slots_neq ct cd cs cc cm cr SO) as [N1 [N2 [N3 [N4 _]]]].
    destruct s; try discriminate; cbn [stmt_ok] in Hok.
    - pose proof (op_comp ct cd cs cc cm cr SO (fun _ => True) line nm ds stable_true Hok r GD I) as H.
      rewrite E in H. destruct H as [_ [_ H]]. apply (objq_other cs); cbn; auto.
    - pose proof (op_ssc ct cd cs cc cm cr SO (fun _ => True) line nm ss sst stable_true r GD I) as H.
      rewrite E in H. destruct H as [_ [_ H]]. apply (objq_other cc); cbn; auto.
    - pose proof (op_ker ct cd cs cc cm cr SO (fun _ => True) line nm names sst cc0 stable_true Hok r GD I) as H.
      rewrite E in H. destruct H as [_ [_ H]]. apply (objq_other cc); cbn; auto.
    - pose proof (op_mac ct cd cs cc cm cr SO (fun _ => True) line nm xs stable_true r GD I) as H.
      rewrite E in H. destruct H as [_ [_ H]]. apply (objq_other cm); cbn; auto.
    - pose proof (op_rxn ct cd cs cc cm cr SO (fun _ => True) line ri stable_true r GD I) as H.
      rewrite E in H. destruct H as [_ [_ H]]. apply (objq_other cr); cbn; auto 10.
    - cbn [exec_stmt] in E. unfold ret in E. injection E as _ <-. exact I.
  Qed.

  Theorem nondom_frame line s acc r r' acc' :
    decode line = Ok s -> dom_stmt s = None -> stmt_ok s -> RGood r ->
    read_one ct G None (TList line) acc r = (r', Ok acc') ->
    po_domains acc' = po_domains acc /\ r_seq r' = r_seq r /\ RGood r' /\ RExt r r'.
  Proof.
    intros Hd Hs Hok GD E.
    pose proof (read_one_good ct cd cs cc cm cr SO IO (TList line) acc r
                  ltac:(exists line, s; auto) GD) as HG.
    rewrite E in HG. destruct HG as [G' X'].
    assert (Hnot : match s with SSl _ _ _ => False | _ => True end) by (destruct s; try discriminate; exact I).
    unfold read_one in E. cbn [t_list] in E. rewrite bind_lift_Ok in E. cbn [ignored] in E.
    rewrite bind_lift_Ok in E. unfold bind at 1 in E. unfold nroots at 1 in E. cbv beta iota in E.
    unfold bind at 1 in E. rewrite (read_pil_line_decode ct G line s (g_full cd cs cc cm cr) Hd r) in E.
    pose proof (seqis_exec_stmt ct G (r_seq r) line s Hnot r eq_refl) as S1.
    destruct (exec_stmt ct G line s r) as [r1 [o|k]] eqn:Ee; [|discriminate].
    cbn [fst] in S1. unfold SeqIs in S1.
    pose proof (exec_nondom_cls line s r r1 o Hs Hok GD Ee) as Hcls.
    unfold bind at 1 in E. destruct (file_obj ct G o acc r1) as [r2 [res|k]] eqn:Ef; [|discriminate].
    assert (HF : po_domains (fst res) = po_domains acc /\ r_seq r2 = r_seq r1).
    { destruct o as [i|l]; [destruct Hcls as [c [A [B C]]]; eapply file_obj_other; eauto | eapply file_obj_line_frame; eauto]. }
    destruct HF as [F1 F2]. unfold bind, release, ret in E. injection E as <- <-.
    split; [exact F1|]. split; [cbn [r_seq with_st]; congruence|]. split; assumption.
  Qed.

  (* ---- whole documents: the domains field ---- *)
  Definition doc_line (lt : tok) (od : option decl) : Prop :=
    exists line s, lt = TList line /\ decode line = Ok s /\ stmt_ok s /\ dom_stmt s = od.

  Definition decls_of (ods : list (option decl)) : list decl :=
    flat_map (fun od => match od with Some d => [d] | None => [] end) ods.

  Lemma docinv_frame lt done r acc r' acc' :
    doc_line lt None -> DocInv done r (po_domains acc) ->
    read_one ct G None lt acc r = (r', Ok acc') -> DocInv done r' (po_domains acc').
  Proof.
    intros [line [s [-> [Hd [Hok Hs]]]]] [GD Kk At Nm Ok0] E.
    destruct (nondom_frame line s acc r r' acc' Hd Hs Hok GD E) as [F1 [F2 [G' X']]].
    rewrite F1. constructor.
    - exact G'.
    - exact Kk.
    - intros k Hk. rewrite F2 in Hk. apply At. exact Hk.
    - intros name k Hin. destruct (Nm name k Hin) as [o [Ho En]].
      destruct (hx_old _ _ _ (re_heap _ _ X') k o Ho) as [o' [Ho' Kl]].
      exists o'. split; [exact Ho'|]. destruct Kl as [->| ->]; exact En.
    - eapply Forall_impl; [|exact Ok0]. intros [[nm0 l0] sq0] [i0 [j0 [H1 [H2 [H3 H4]]]]].
      exists i0, j0. split; [exact H1|]. split; [exact H2|].
      split; (eapply dom_view_ext; [exact (re_heap _ _ X') | rewrite F2; reflexivity | assumption]).
  Qed.

  (* C14, domains, any document: every statement well-shaped, the domain declarations among them
     with pairwise different names (none the complement of another), statements of the other kinds
     anywhere in between, read in a session without sequence attributes.  If the read returns a
     dictionary, its `domains` field has exactly the declared names and their complements as
     keys and every declared domain / complement has exactly the declared length, sequence
     (complement: reverse Watson-Crick complement), name and class. *)
  Theorem reader_builds_domains_doc lines ods r r' o :
    Forall2 doc_line lines ods -> NoDup (flat_map d_names (decls_of ods)) ->
    RGood r -> r_seq r = [] ->
    read_lines ct G None lines empty_out r = (r', Ok o) ->
    map fst (po_domains o) = flat_map d_names (decls_of ods) /\ Forall (entry_ok r' (po_domains o)) (decls_of ods).
  Proof.
    intros F ND GD Es E.
    assert (H : forall done acc r0, DocInv done r0 (po_domains acc) -> NoDup (flat_map d_names (done ++ decls_of ods)) ->
              read_lines ct G None lines acc r0 = (r', Ok o) -> DocInv (done ++ decls_of ods) r' (po_domains o)).
    { clear GD Es E ND. induction F as [|lt od lines ods Hl F IH]; intros done acc r0 J ND E.
      - cbn in E. injection E as <- <-. cbn. rewrite app_nil_r. exact J.
      - cbn [read_lines] in E. unfold bind in E.
        destruct (read_one ct G None lt acc r0) as [r1 [acc1|k]] eqn:E1; [|discriminate].
        destruct od as [d|].
        + change (decls_of (Some d :: ods)) with (d :: decls_of ods) in *.
          replace (done ++ d :: decls_of ods) with ((done ++ [d]) ++ decls_of ods) in * by (rewrite <- app_assoc; reflexivity).
          apply (IH (done ++ [d]) acc1 r1); [|exact ND | exact E].
          assert (EN : flat_map d_names ((done ++ [d]) ++ decls_of ods) =
                       flat_map d_names done ++ d_name d :: cname_of (d_name d) :: flat_map d_names (decls_of ods)).
          { rewrite !flat_map_app. cbn. rewrite <- !app_assoc. reflexivity. }
          rewrite EN in ND.
          assert (Hl' : dom_line lt d) by (destruct Hl as [line [s [A [B [C D]]]]]; exists line, s; auto).
          apply (docinv_step lt d done r0 acc r1 acc1 Hl' J); [| | exact E1].
          * intros Hin. apply NoDup_remove_2 in ND. apply ND. apply in_or_app. left. exact Hin.
          * intros Hin. change (flat_map d_names done ++ d_name d :: cname_of (d_name d) :: flat_map d_names (decls_of ods))
              with (flat_map d_names done ++ [d_name d] ++ cname_of (d_name d) :: flat_map d_names (decls_of ods)) in ND.
            rewrite app_assoc in ND. apply NoDup_remove_2 in ND. apply ND. apply in_or_app. left.
            apply in_or_app. left. exact Hin.
        + change (decls_of (None :: ods)) with (decls_of ods) in *.
          apply (IH done acc1 r1); [|exact ND | exact E].
          apply (docinv_frame lt done r0 acc r1 acc1 Hl J E1). }
    specialize (H [] empty_out r). cbn [app] in H.
    destruct H as [_ Kk _ _ Ok0]; [| exact ND | exact E | split; assumption].
    constructor; cbn; auto.
    - intros k Hk. rewrite Es in Hk. cbn in Hk. congruence.
    - intros name k [].
  Qed.

  (* ================================================================ *)
  (* reactions: type, filing, rate constant and units                   *)

  Definition rxn_members (ri : rinfo) : M (list nat * list nat) :=
    let by_name := if is_s (ri_type ri) sCondensed then macro_by_name ct G else complex_by_name ct G in
    key_to_pil (dm re <- mapM by_name (ri_reactants ri); dm pr <- mapM by_name (ri_products ri); ret (re, pr)).

  Lemma op_rxn_members ri :
    Op ct cd cs cc cm cr (fun _ => True) (rxn_members ri) (fun rp r => Forall (fun i => Held i r) (fst rp ++ snd rp)).
  Proof.
    unfold rxn_members. cbv zeta. set (b := is_s (ri_type ri) sCondensed).
    unfold key_to_pil. apply op_catch; [| apply stable_true | apply op_fail; reflexivity].
    eapply op_bind; [apply op_mapM with (Qx := fun (_ : pstr) i => Held i) | apply stable_true | intros re].
    { intros x _. apply (op_by_name ct cd cs cc cm cr SO (fun _ => True) b x). } { apply stable_true. }
    { intros x y. apply stable_held. }
    eapply op_bind; [apply op_mapM with (Qx := fun (_ : pstr) i => Held i) | | intros pr].
    { intros x _. apply (op_by_name ct cd cs cc cm cr SO _ b x). }
    { apply stable_and; [apply stable_true|]. apply stable_forall2. intros x y. apply stable_held. }
    { intros x y. apply stable_held. }
    { apply stable_and; [apply stable_true|]. apply stable_forall2. intros x y. apply stable_held. }
    apply op_ret. intros r [[_ F1] F2]. cbn [fst snd]. apply Forall_app. split; eapply forall2_right; eauto.
  Qed.

  Lemma rxn_members_attrs ri r ra x :
    rxn_members ri r = (ra, x) -> r_seq ra = r_seq r /\ r_conc ra = r_conc r /\ r_rate ra = r_rate r.
  Proof.
    intros E.
    assert (K : Keeps (AttrIs (r_seq r) (r_conc r) (r_rate r)) (rxn_members ri)).
    { unfold rxn_members, key_to_pil. cbv zeta.
      destruct (is_s (ri_type ri) sCondensed); unfold macro_by_name, complex_by_name; keeps_all. }
    specialize (K r (conj eq_refl (conj eq_refl eq_refl))). rewrite E in K. exact K.
  Qed.

  Lemma cr_lt' : cr < length ct.
  Proof. apply (cr_lt ct cd cs cc cm cr SO). Qed.

  (* the reaction a call returns has the requested type *)
  Lemma reaction_call_type st rs ps t id b :
    Inv ct st -> KI (heap st) ->
    snd (reaction_call ct cr st (Some (rs, ps)) t None) = CRet id b ->
    exists ob a c, hget (heap (fst (reaction_call ct cr st (Some (rs, ps)) t None))) id = Some ob /\
                   o_cls ob = cr /\ o_data ob = DRxn a c t.
  Proof.
    intros I K. unfold reaction_call. pose proof cr_lt' as Hc.
    destruct (omap' _ rs) as [fr|]; [|cbn; discriminate].
    destruct (omap' _ ps) as [fp|]; [|cbn; discriminate].
    match goal with |- snd (if ?x then _ else _) = _ -> _ => destruct x end; [cbn; discriminate|].
    match goal with |- snd (match sing_lookup ?a ?n (Some ?k) with _ => _ end) = _ -> _ =>
      set (nm := n); set (cn := k); destruct (sing_lookup a nm (Some cn)) as [o| |e] eqn:EL end; cbn [fst snd].
    - intros E. injection E as <- _.
      assert (HK : klookup cn (cs_canon (cget st cr)) = Some o).
      { unfold sing_lookup in EL. destruct (nonempty nm).
        - destruct (nlookup nm (cs_names (cget st cr))) as [on|]; destruct (klookup cn (cs_canon (cget st cr))) as [oc|];
            try discriminate. destruct (Nat.eqb on oc) eqn:E; [|discriminate]. apply Nat.eqb_eq in E. subst. congruence.
        - destruct (klookup cn (cs_canon (cget st cr))); [congruence | discriminate]. }
      destruct I as [R Hh]. pose proof (ok_cls _ _ R cr Hc) as CK.
      apply (alookup_in key_eqb key_eqb_iff) in HK.
      destruct (ok_cv _ _ _ CK _ _ HK) as [ob [Hob [Eo Hin]]].
      destruct (kinv_rxn ct cd cs cc cm cr _ o ob K SO (proj1 Hob) Eo) as [a [c [t' [m [rr [pp [Ed [Ek Eks]]]]]]]].
      rewrite Eks, Ek in Hin. destruct Hin as [Hin|[]]. unfold cn in Hin. injection Hin as _ _ _ Ht.
      exists ob, a, c. split; [exact (proj1 Hob)|]. split; [exact Eo|]. rewrite Ed, Ht. reflexivity.
    - unfold create. destruct (nth_error ct cr) as [ci|]; [|cbn; discriminate].
      destruct (c_fail ci); cbn [alloc fst snd]; try (intros E; discriminate).
      intros E. injection E as <- _. rewrite heap_register. cbn [heap]. rewrite hget_new.
      eexists. eexists. eexists. repeat split; reflexivity.
    - intros E. discriminate.
  Qed.

  Definition with_rxns (acc : pilout) (det con : list nat) : pilout :=
    mkOut (po_domains acc) (po_strands acc) (po_complexes acc) (po_macrostates acc) det con (po_other acc).

  (* C14, reactions: what reading a reaction with a rate and a known type builds *)
  Theorem reader_builds_reaction_line line ri k acc r r' acc' :
    decode line = Ok (SRxn ri) -> ri_rate ri = Some k -> RGood r ->
    read_one ct G None (TList line) acc r = (r', Ok acc') ->
    exists i ob a c st1,
      hget (heap (r_st r')) i = Some ob /\ o_live ob = true /\ o_cls ob = cr /\ o_data ob = DRxn a c (ri_type ri) /\
      (* condensed and detailed reactions are separated by the declared type *)
      acc' = (if is_s (ri_type ri) sCondensed
              then with_rxns acc (po_det acc) (set_add st1 i (po_con acc))
              else with_rxns acc (set_add st1 i (po_det acc)) (po_con acc)) /\
      (* rate constant and units are the declared ones *)
      r_rate r' = (i, (k, ri_units ri)) :: r_rate r /\ r_seq r' = r_seq r /\ r_conc r' = r_conc r /\
      RGood r' /\ RExt r r'.
  Proof.
    intros Hd Hk GD E.
    pose proof (read_one_good ct cd cs cc cm cr SO IO (TList line) acc r
                  ltac:(exists line, (SRxn ri); cbn; auto) GD) as HG.
    rewrite E in HG. destruct HG as [G' X'].
    unfold read_one in E. cbn [t_list] in E. rewrite bind_lift_Ok in E. cbn [ignored] in E.
    rewrite bind_lift_Ok in E. unfold bind at 1 in E. unfold nroots at 1 in E. cbv beta iota in E.
    unfold bind at 1 in E. rewrite (read_pil_line_decode ct G line _ (g_full cd cs cc cm cr) Hd r) in E.
    cbn [exec_stmt] in E. fold (rxn_members ri) in E. unfold bind at 1 in E.
    pose proof (op_rxn_members ri r GD I) as HM.
    destruct (rxn_members ri r) as [ra [[re pr]|k0]] eqn:Em; [|discriminate]. destruct HM as [Ga [Xa Fa]].
    destruct (rxn_members_attrs ri r ra _ Em) as [Sa [Ca Ra]].
    cbn [gR g slot] in E. rewrite bind_ret in E. unfold bind at 1 in E.
    cbn [fst snd] in Fa. rewrite Forall_forall in Fa.
    assert (Hlive : forall x, In x (re ++ pr) -> is_live (heap (r_st ra)) x = true).
    { intros x Hx. apply (held_live ct cd cs cc cm cr x ra Ga). apply (Fa x Hx). }
    assert (HO : Op ct cd cs cc cm cr (fun r0 => r0 = ra)
                    (call (fun st => reaction_call ct cr st (Some (re, pr)) (ri_type ri) None)) (RetQ cr)).
    { apply op_call.
      - intros r0 GD0 ->. destruct Ga as [I1 K1].
        destruct (reaction_call_spec ct cd cs cc cm cr (r_st ra) re pr (ri_type ri) SO I1 K1 Hlive) as [I2 [K2 [R2 F3]]].
        split; [apply callok_reaction_call; [exact I1 | apply cr_lt' |
                intros rs ps x Ee Hx; injection Ee as <- <-; apply Hlive; exact Hx]|]. auto.
      - intros st0. apply sext_reaction_call; [apply anyobj_kill | intros; exact I]. }
    specialize (HO ra Ga eq_refl).
    destruct (call (fun st => reaction_call ct cr st (Some (re, pr)) (ri_type ri) None) ra) as [rb [i|k0]] eqn:Ec; [|discriminate].
    destruct HO as [Gb [Xb [Hi Hc]]]. destruct (call_attrs _ _ _ _ Ec) as [Sb [Cb Rb]].
    assert (Dt : exists ob a c, hget (heap (r_st rb)) i = Some ob /\ o_cls ob = cr /\ o_data ob = DRxn a c (ri_type ri)).
    { unfold call in Ec. destruct (reaction_call ct cr (r_st ra) (Some (re, pr)) (ri_type ri) None) as [st' [id b|k0 e]] eqn:Es;
        [|discriminate].
      injection Ec as <- <-. cbn [r_st with_st hold heap]. destruct Ga as [I1 K1].
      pose proof (reaction_call_type (r_st ra) re pr (ri_type ri) id b I1 K1 (f_equal snd Es)) as H0.
      exact (eq_ind _ (fun z => exists ob a c, hget (heap (fst z)) id = Some ob /\ o_cls ob = cr /\ o_data ob = DRxn a c (ri_type ri))
                    H0 _ Es). }
    rewrite Hk in E. unfold bind at 1 in E. unfold set_rate at 1 in E. cbv beta iota in E.
    unfold ret at 1 in E. cbv beta iota in E. unfold bind at 1 in E.
    set (rc := mkR (r_st rb) (r_seq rb) (r_conc rb) (attr_set i (k, ri_units ri) (r_rate rb))) in *.
    assert (Hcc : ClsAt i cr rc) by exact Hc.
    (* filing *)
    destruct Dt as [ob0 [a0 [c0 [Ho0 [Eo0 Ed0]]]]].
    assert (EF : file_obj ct G (RObj i) acc rc =
                 (rc, Ok (if is_s (ri_type ri) sCondensed
                          then with_rxns acc (po_det acc) (set_add (r_st rc) i (po_con acc))
                          else with_rxns acc (set_add (r_st rc) i (po_det acc)) (po_con acc), [i]))).
    { unfold file_obj. cbn [gD gS gC gM gR g].
      destruct IO as [_ [_ [_ [_ [_ [_ [E7 [E8 [E9 E10]]]]]]]]]. cbv zeta in *.
      rewrite (bind_ok _ _ _ _ _ (inst_slot_val i cr cd rc Hcc)), E7.
      rewrite (bind_ok _ _ _ _ _ (inst_slot_val i cr cs rc Hcc)), E8.
      rewrite (bind_ok get_state _ rc rc (r_st rc) eq_refl).
      rewrite (bind_ok _ _ _ _ _ (inst_slot_val i cr cc rc Hcc)), E9.
      rewrite (bind_ok _ _ _ _ _ (inst_slot_val i cr cm rc Hcc)), E10.
      rewrite (bind_ok _ _ _ _ _ (inst_slot_val i cr cr rc Hcc)), subclass_refl.
      assert (Et : rtype_of (r_st rc) i = Ok (ri_type ri)).
      { unfold rtype_of. cbn [rc r_st]. rewrite Ho0, Ed0. reflexivity. }
      rewrite Et. unfold lift. rewrite bind_ret_ok. destruct (is_s (ri_type ri) sCondensed); reflexivity. }
    rewrite EF in E. cbn [snd fst] in E.
    unfold bind, release, ret in E. injection E as <- <-.
    pose proof (hext_collect anyobj (cut_roots (r_st rc) (length (roots (r_st r))) [i])) as XC.
    destruct (hx_old _ _ _ XC i ob0 Ho0) as [ob [Ho Kl]].
    assert (Li : is_live (heap (collect (cut_roots (r_st rc) (length (roots (r_st r))) [i]))) i = true).
    { assert (Xc : RExt r rc).
      { eapply rext_trans; [exact Xa|]. destruct Xb as [B1 B2]. constructor; assumption. }
      assert (Gc : RGood rc) by (destruct Gb; constructor; assumption).
      assert (Hl1 : forall x, In x [i] -> is_live (heap (r_st rc)) x = true).
      { intros x [<-|[]]. apply (held_live ct cd cs cc cm cr _ rc Gc Hi). }
      destruct (release_good ct cd cs cc cm cr r rc [i] Gc Xc Hl1) as [G3 [Er _]].
      unfold release in G3, Er. cbn [fst] in G3, Er.
      apply (held_live ct cd cs cc cm cr i _ G3). unfold Held. rewrite Er. apply in_or_app. right. left. reflexivity. }
    exists i, ob, a0, c0, (r_st rc). cbn [r_st with_st r_seq r_conc r_rate rc].
    split; [exact Ho|]. split; [unfold is_live in Li; rewrite Ho in Li; exact Li|].
    split; [destruct Kl as [->| ->]; exact Eo0|]. split; [destruct Kl as [->| ->]; exact Ed0|].
    split; [reflexivity|]. split; [unfold attr_set; congruence|]. split; [congruence|]. split; [congruence|].
    split; assumption.
  Qed.

  (* ================================================================ *)
  (* kernel-notation complexes: name, class, concentration              *)

  Lemma cc_lt' : cc < length ct.
  Proof. apply (cc_lt ct cd cs cc cm cr SO). Qed.

  Lemma lookup_name st c nm canon o :
    Inv ct st -> c < length ct -> nonempty nm = true -> sing_lookup (cget st c) nm canon = LFound o ->
    exists ob, hget (heap st) o = Some ob /\ o_name ob = nm.
  Proof.
    intros [R _] Hc Hne E. pose proof (ok_cls _ _ R c Hc) as K. unfold sing_lookup in E. rewrite Hne in E.
    assert (HN : nlookup nm (cs_names (cget st c)) = Some o).
    { destruct canon as [k|].
      - destruct (nlookup nm (cs_names (cget st c))) as [on|]; destruct (klookup k (cs_canon (cget st c))) as [oc|];
          try discriminate. destruct (Nat.eqb on oc); [|discriminate]. congruence.
      - destruct (nlookup nm (cs_names (cget st c))) as [on|]; [congruence | discriminate]. }
    apply (alookup_in str_eqb str_eqb_iff) in HN. destruct (ok_nv _ _ _ K nm o HN) as [ob [[Ho _] [_ En]]]. eauto.
  Qed.

  Lemma cplx_call_name st es ss nm id b :
    Inv ct st -> nonempty nm = true ->
    snd (cplx_call ct cc st (Some es) (Some ss) (Some nm) None) = CRet id b ->
    exists ob, hget (heap (fst (cplx_call ct cc st (Some es) (Some ss) (Some nm) None))) id = Some ob /\ o_name ob = nm.
  Proof.
    intros I Hne. unfold cplx_call. pose proof cc_lt' as Hc.
    destruct (nth_error ct cc) as [ci|] eqn:Ec; [|apply nth_error_None in Ec; lia]. cbn [resolve_name].
    destruct (negb _); [cbn; discriminate|]. destruct (Nat.eqb _ 0); [cbn; discriminate|].
    destruct (rot_loop _ 0 _ _ ss []) as [[ex cdict]|k]; [|cbn; discriminate].
    match goal with |- snd (match ?x with _ => _ end) = _ -> _ => destruct x as [[cn e]|k] end; [|cbn; discriminate].
    destruct (sing_lookup (cget st cc) nm (Some (KCplx cn))) as [o| |e0] eqn:EL; cbn [fst snd].
    - intros E. injection E as <- _. eapply lookup_name; eauto.
    - unfold create. rewrite Ec. destruct (c_fail ci); cbn [alloc fst snd]; try (intros E; discriminate).
      intros E. injection E as <- _. rewrite heap_register. cbn [heap]. rewrite hget_new. eexists. split; reflexivity.
    - intros E. discriminate.
  Qed.

  Definition with_complexes (acc : pilout) (d : list (pstr * nat)) : pilout :=
    mkOut (po_domains acc) (po_strands acc) d (po_macrostates acc) (po_det acc) (po_con acc) (po_other acc).

  Lemma file_obj_cplx i acc r :
    ClsAt i cc r ->
    file_obj ct G (RObj i) acc r = (r, Ok (with_complexes acc (dset (oname (r_st r) i) i (po_complexes acc)), [i])).
  Proof.
    intros Hc. unfold file_obj. cbn [gD gS gC g].
    destruct IO as [_ [E2 [E3 _]]]. cbv zeta in *.
    rewrite (bind_ok _ _ _ _ _ (inst_slot_val i cc cd r Hc)), E2.
    rewrite (bind_ok _ _ _ _ _ (inst_slot_val i cc cs r Hc)), E3.
    rewrite (bind_ok get_state _ r r (r_st r) eq_refl).
    rewrite (bind_ok _ _ _ _ _ (inst_slot_val i cc cc r Hc)), subclass_refl. reflexivity.
  Qed.

  (* C14, kernel-notation complexes: the complex filed under its name is an instance of the configured
     complex class with that name, and carries exactly the declared concentration triple
     (mode, float(value), unit) - or its previous one when the statement has none *)
  Theorem reader_builds_kernel_conc line nm names sst cc0 acc r r' acc' :
    decode line = Ok (SKer nm names sst cc0) -> Forall kname_ok names -> nonempty nm = true -> RGood r ->
    read_one ct G None (TList line) acc r = (r', Ok acc') ->
    exists i ob,
      hget (heap (r_st r')) i = Some ob /\ o_live ob = true /\ o_cls ob = cc /\ o_name ob = nm /\
      acc' = with_complexes acc (dset nm i (po_complexes acc)) /\
      r_conc r' = match cc0 with Some x => (i, x) :: r_conc r | None => r_conc r end /\
      r_seq r' = r_seq r /\ r_rate r' = r_rate r /\ RGood r' /\ RExt r r'.
  Proof.
    intros Hd Hn Hne GD E.
    pose proof (read_one_good ct cd cs cc cm cr SO IO (TList line) acc r
                  ltac:(exists line, (SKer nm names sst cc0); cbn; auto) GD) as HG.
    rewrite E in HG. destruct HG as [G' X'].
    unfold read_one in E. cbn [t_list] in E. rewrite bind_lift_Ok in E. cbn [ignored] in E.
    rewrite bind_lift_Ok in E. unfold bind at 1 in E. unfold nroots at 1 in E. cbv beta iota in E.
    unfold bind at 1 in E. rewrite (read_pil_line_decode ct G line _ (g_full cd cs cc cm cr) Hd r) in E.
    cbn [exec_stmt] in E. unfold bind at 1 in E.
    pose proof (op_kernel_sequence ct cd cs cc cm cr SO (fun _ => True) names sst stable_true Hn r GD I) as HK.
    pose proof (attris_kernel_sequence ct G (r_seq r) (r_conc r) (r_rate r) names sst r (conj eq_refl (conj eq_refl eq_refl))) as HA.
    destruct (kernel_sequence ct G names sst r) as [ra [[cl ss]|k0]]; [|discriminate].
    destruct HK as [Ga [Xa Fa]]. destruct HA as [Sa [Ca Ra]]. cbn [fst] in Sa, Ca, Ra, Fa.
    cbn [gC g slot] in E. rewrite bind_ret in E. unfold bind at 1 in E. unfold get_state at 1 in E. cbv beta iota in E.
    cbn [fst snd] in E. unfold bind at 1 in E.
    assert (HO : Op ct cd cs cc cm cr (fun r0 => r0 = ra)
                    (call (fun st' => cplx_call ct cc st' (Some (map (cell_elem (r_st ra)) cl)) (Some ss) (Some nm) None)) (RetQ cc)).
    { apply (op_cplx_new ct cd cs cc cm cr SO). intros r0 GD0 -> x Hx.
      destruct (elem_ids_in _ x Hx) as [e [He Ee]]. apply in_map_iff in He. destruct He as [c0 [<- Hc0]].
      unfold CellsQ in Fa. rewrite Forall_forall in Fa. specialize (Fa c0 Hc0).
      destruct c0 as [s0|j]; cbn in Ee; [discriminate|]. injection Ee as <-. exact Fa. }
    specialize (HO ra Ga eq_refl).
    destruct (call (fun st' => cplx_call ct cc st' (Some (map (cell_elem (r_st ra)) cl)) (Some ss) (Some nm) None) ra)
      as [rb [i|k0]] eqn:Ec; [|discriminate].
    destruct HO as [Gb [Xb [Hi Hc]]]. destruct (call_attrs _ _ _ _ Ec) as [Sb [Cb Rb]].
    assert (Dn : exists ob, hget (heap (r_st rb)) i = Some ob /\ o_name ob = nm).
    { unfold call in Ec.
      destruct (cplx_call ct cc (r_st ra) (Some (map (cell_elem (r_st ra)) cl)) (Some ss) (Some nm) None) as [st' [id b|k0 e]] eqn:Es;
        [|discriminate].
      injection Ec as <- <-. cbn [r_st with_st hold heap]. destruct Ga as [I1 K1].
      pose proof (cplx_call_name (r_st ra) (map (cell_elem (r_st ra)) cl) ss nm id b I1 Hne (f_equal snd Es)) as H0.
      exact (eq_ind _ (fun z => exists ob, hget (heap (fst z)) id = Some ob /\ o_name ob = nm) H0 _ Es). }
    (* the concentration assignment *)
    set (rc := match cc0 with
               | Some x => mkR (r_st rb) (r_seq rb) (attr_set i x (r_conc rb)) (r_rate rb)
               | None => rb
               end).
    assert (EC : (dm _ <- match cc0 with Some x => set_conc i x | None => ret tt end; ret (RObj i)) rb = (rc, Ok (RObj i))).
    { unfold rc. destruct cc0; reflexivity. }
    rewrite EC in E. unfold bind at 1 in E.
    assert (Erc : r_st rc = r_st rb) by (unfold rc; destruct cc0; reflexivity).
    assert (Hcc : ClsAt i cc rc) by (unfold ClsAt; rewrite Erc; exact Hc).
    rewrite (file_obj_cplx i acc rc Hcc) in E. cbn [snd fst] in E.
    destruct Dn as [ob0 [Ho0 En0]].
    assert (Eon : oname (r_st rc) i = nm) by (unfold oname, obj_name; rewrite Erc, Ho0; exact En0).
    rewrite Eon in E.
    unfold bind, release, ret in E. injection E as <- <-.
    pose proof (hext_collect anyobj (cut_roots (r_st rc) (length (roots (r_st r))) [i])) as XC.
    assert (Ho0' : hget (heap (r_st rc)) i = Some ob0) by (rewrite Erc; exact Ho0).
    destruct (hx_old _ _ _ XC i ob0 Ho0') as [ob [Ho Kl]].
    assert (Li : is_live (heap (collect (cut_roots (r_st rc) (length (roots (r_st r))) [i]))) i = true).
    { assert (Xc : RExt r rc).
      { eapply rext_trans; [exact Xa|]. destruct Xb as [B1 B2]. constructor; rewrite Erc; assumption. }
      assert (Gc : RGood rc) by (destruct Gb; constructor; rewrite Erc; assumption).
      assert (Hic : Held i rc) by (unfold Held; rewrite Erc; exact Hi).
      assert (Hl1 : forall x, In x [i] -> is_live (heap (r_st rc)) x = true).
      { intros x [<-|[]]. apply (held_live ct cd cs cc cm cr _ rc Gc Hic). }
      destruct (release_good ct cd cs cc cm cr r rc [i] Gc Xc Hl1) as [G3 [Er _]].
      unfold release in G3, Er. cbn [fst] in G3, Er.
      apply (held_live ct cd cs cc cm cr i _ G3). unfold Held. rewrite Er. apply in_or_app. right. left. reflexivity. }
    exists i, ob. cbn [r_st with_st r_seq r_conc r_rate].
    split; [exact Ho|]. split; [unfold is_live in Li; rewrite Ho in Li; exact Li|].
    assert (Ecl : o_cls ob0 = cc).
    { unfold ClsAt, cls_at in Hc. rewrite Ho0 in Hc. cbn in Hc. congruence. }
    split; [destruct Kl as [->| ->]; exact Ecl|]. split; [destruct Kl as [->| ->]; exact En0|].
    split; [reflexivity|].
    split; [unfold rc; destruct cc0; cbn [r_conc]; unfold attr_set; congruence|].
    split; [unfold rc; destruct cc0; cbn [r_seq]; congruence|].
    split; [unfold rc; destruct cc0; cbn [r_rate]; congruence|].
    split; assumption.
  Qed.
End Builds.
