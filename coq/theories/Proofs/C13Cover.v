(* no_skipped_text on the two regenerated tables *)
From Coq Require Import List NArith Bool.
From DSD Require Import Base.Str Model.Peg Proofs.PegCover.
From DSDGen Require Import PilGrammar SeesawGrammar.
Import ListNotations.

Lemma pil_ends : ends_with_string_end pil_grammar = true.
Proof. vm_compute. reflexivity. Qed.
Lemma seesaw_ends : ends_with_string_end seesaw_grammar = true.
Proof. vm_compute. reflexivity. Qed.

Theorem pil_no_skipped_text fuel text p toks :
  parse_string_fuel pil_grammar fuel text = POk p toks -> p = Past /\ pieces pil_nodes (expandtabs text).
Proof.
  intros H. split; [exact (root_reaches_end _ _ _ _ _ pil_ends H)|exact (no_skipped_text_total _ _ _ _ _ pil_ends H)].
Qed.
Theorem seesaw_no_skipped_text fuel text p toks :
  parse_string_fuel seesaw_grammar fuel text = POk p toks -> p = Past /\ pieces seesaw_nodes (expandtabs text).
Proof.
  intros H. split; [exact (root_reaches_end _ _ _ _ _ seesaw_ends H)|exact (no_skipped_text_total _ _ _ _ _ seesaw_ends H)].
Qed.
