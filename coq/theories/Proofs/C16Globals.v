(* C16 (static clause): every global name referenced by any function of the
   package is bound in its module (or is a builtin).  Over the regenerated
   reference table. *)
From Coq Require Import NArith List Bool.
From DSDGen Require Import GlobalNames.
Import ListNotations.

Fixpoint mlookup (m : N) (l : list (N * list N)) : option (list N) :=
  match l with
  | [] => None
  | (k, v) :: r => if N.eqb m k then Some v else mlookup m r
  end.

Definition ref_defined (r : N * N * N) : bool :=
  match mlookup (fst (fst r)) module_names with
  | Some ns => existsb (N.eqb (snd r)) ns
  | None => false
  end.

Lemma all_refs_defined : forallb ref_defined global_refs = true.
Proof. vm_compute. reflexivity. Qed.

Theorem globals_defined : forall m line n,
  In (m, line, n) global_refs ->
  exists ns, mlookup m module_names = Some ns /\ In n ns.
Proof.
  intros m line n H. pose proof (proj1 (forallb_forall _ _) all_refs_defined _ H) as D.
  unfold ref_defined in D. cbn [fst snd] in D.
  destruct (mlookup m module_names) as [ns|]; [|discriminate]. exists ns. split; [reflexivity|].
  apply existsb_exists in D. destruct D as (x & Hx & E). apply N.eqb_eq in E. subst x. exact Hx.
Qed.

(* non-vacuity: the table is not empty *)
Example refs_nonempty : global_refs <> [].
Proof. vm_compute. discriminate. Qed.
