(* Reader model, layer 1: monad laws, the `ignore` clause, a one-statement document. *)
From Coq Require Import List NArith ZArith Bool Arith Lia.
From DSD Require Import Base.Str Base.Errors Model.ComplexUtils Model.RegStr Model.ReaderStr Model.PyNum
  Model.Peg Model.Heap Model.Registry Model.Reader.
Import ListNotations.

(* ---- the monad ---- *)
Lemma bind_ok {A B} (m : M A) (f : A -> M B) r r' a : m r = (r', Ok a) -> bind m f r = f a r'.
Proof. unfold bind. intros ->. reflexivity. Qed.
Lemma bind_err {A B} (m : M A) (f : A -> M B) r r' k : m r = (r', Err k) -> bind m f r = (r', Err k).
Proof. unfold bind. intros ->. reflexivity. Qed.

Lemma bind_inv_ok {A B} (m : M A) (f : A -> M B) r r2 b :
  bind m f r = (r2, Ok b) -> exists r1 a, m r = (r1, Ok a) /\ f a r1 = (r2, Ok b).
Proof.
  unfold bind. destruct (m r) as [r1 [a|k]]; [|discriminate]. intros H. exists r1, a. auto.
Qed.

Lemma bind_inv_err {A B} (m : M A) (f : A -> M B) r r2 k :
  bind m f r = (r2, Err k) ->
  m r = (r2, Err k) \/ exists r1 a, m r = (r1, Ok a) /\ f a r1 = (r2, Err k).
Proof.
  unfold bind. destruct (m r) as [r1 [a|k']].
  - intros H. right. exists r1, a. auto.
  - intros H. left. injection H as -> ->. reflexivity.
Qed.

Lemma lift_ok {A} (x : res A) r r' a : lift x r = (r', Ok a) -> r' = r /\ x = Ok a.
Proof. unfold lift. intros H; injection H as <- ->. auto. Qed.

(* ---- `ignore` ---- *)
Section Ignore.
  Variable ct : ctable.
  Variable g : cfg.

  (* the line is one the loop skips: `ignore and line[0] in ignore` *)
  Definition line_ignored (ig : option (list pstr)) (lt : tok) : bool :=
    match lt with
    | TList line => match ignored ig line with Ok true => true | _ => false end
    | TStr _ => false
    end.

  Lemma read_one_ignored ig lt acc r :
    line_ignored ig lt = true -> read_one ct g ig lt acc r = (r, Ok acc).
  Proof.
    destruct lt as [s|line]; cbn [line_ignored]; [discriminate|].
    destruct (ignored ig line) as [[|]|k] eqn:E; try discriminate. intros _.
    unfold read_one, bind, lift. cbn [t_list]. rewrite E. reflexivity.
  Qed.

  Lemma ignored_none line : ignored None line = Ok false.
  Proof. reflexivity. Qed.

  (* a line that is not skipped is read exactly as without `ignore` *)
  Lemma read_one_kept ig lt acc r :
    line_ignored ig lt = false -> read_one ct g ig lt acc r = read_one ct g None lt acc r.
  Proof.
    destruct lt as [s|line]; cbn [line_ignored]; [reflexivity|].
    unfold read_one, bind, lift. cbn [t_list ignored].
    destruct ig as [[|x ig]|]; try reflexivity.
    cbn [ignored]. destruct line as [|t line]; cbn [tnth nth_error rbind].
    - (* line[0] of an empty line: IndexError; without ignore, line[1] fails in the same state *)
      intros _. unfold read_pil_line, bind, lift, nroots. reflexivity.
    - destruct (existsb (tag_is t) (x :: ig)); [discriminate|]. reflexivity.
  Qed.

  Theorem ignore_skips ig lines : forall acc r,
    read_lines ct g ig lines acc r =
    read_lines ct g None (filter (fun l => negb (line_ignored ig l)) lines) acc r.
  Proof.
    induction lines as [|l lines IH]; intros acc r; [reflexivity|].
    cbn [read_lines filter]. destruct (line_ignored ig l) eqn:E; cbn [negb].
    - unfold bind at 1. rewrite (read_one_ignored ig l acc r E). apply IH.
    - cbn [read_lines]. unfold bind. rewrite (read_one_kept ig l acc r E).
      destruct (read_one ct g None l acc r) as [r1 [acc1|k]]; [apply IH | reflexivity].
  Qed.

  Corollary ignore_skips_read_pil ig lines r :
    read_pil ct g ig lines r = read_pil ct g None (filter (fun l => negb (line_ignored ig l)) lines) r.
  Proof. unfold read_pil. rewrite ignore_skips. reflexivity. Qed.

  (* statements whose kind is listed are skipped, whatever they contain *)
  Lemma tag_is_str tag l : existsb (tag_is (TStr tag)) l = existsb (str_eqb tag) l.
  Proof. induction l as [|x l IH]; cbn; [reflexivity|]. rewrite IH. reflexivity. Qed.

  Lemma line_ignored_tag ig tag rest :
    existsb (str_eqb tag) ig = true -> line_ignored (Some ig) (TList (TStr tag :: rest)) = true.
  Proof.
    intros H. unfold line_ignored, ignored. destruct ig as [|x ig]; [discriminate|].
    cbn [tnth nth_error rbind]. rewrite tag_is_str, H. reflexivity.
  Qed.
  Lemma line_ignored_other ig tag rest :
    existsb (str_eqb tag) ig = false -> line_ignored (Some ig) (TList (TStr tag :: rest)) = false.
  Proof.
    intros H. unfold line_ignored, ignored. destruct ig as [|x ig]; [reflexivity|].
    cbn [tnth nth_error rbind]. rewrite tag_is_str, H. reflexivity.
  Qed.
End Ignore.
