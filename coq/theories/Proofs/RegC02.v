(* C02 at registry level: what ComplexS.identifiers computes in the presence of the
   registry (early exit on a registered rotation), and that a newly created complex
   stores the canonical form computed without any registry. *)
From Coq Require Import List NArith ZArith Bool Arith Lia Permutation.
From DSD Require Import Base.Str Base.Errors Base.Sort Model.ComplexUtils Model.Rotation Model.Compare Model.Canon
  Proofs.C10 Proofs.RotTree Proofs.RotOnce Proofs.RotOrbit Proofs.RotStrands Proofs.RotGen Proofs.C02.
From DSD Require Import Model.RegStr Model.Heap Model.Registry
  Proofs.RegHeap Proofs.RegInv Proofs.RegCalls Proofs.RegExt Proofs.RegC04 Proofs.RegStep.
Import ListNotations.

(* ------------------------------------------------------------------ *)
(* the loop without an early exit records what rot_record records       *)

(* cdict after recording the list `rots` starting at index e *)
Fixpoint dict_of (rots : list ckey) (e : nat) (d : list (ckey * nat)) : list (ckey * nat) :=
  match rots with
  | [] => d
  | x :: r => dict_of r (S e) (cdict_set x e d)
  end.

Lemma rot_loop_full n : forall e reg x cdict cdict',
  rot_loop n e reg (fst x) (snd x) cdict = Ok (None, cdict') ->
  exists rots, Canon.rot_record n x = Ok rots /\ cdict' = dict_of rots e cdict /\
               forall y, In y rots -> klookup (KCplx y) reg = None.
Proof.
  induction n as [|n IH]; intros e reg x cdict cdict' H; cbn in H.
  - injection H as <-. exists []. repeat split; auto. intros y [].
  - destruct x as [sq ss]. cbn [fst snd] in *.
    destruct (klookup (KCplx (sq, ss)) reg) eqn:E; [discriminate|].
    cbn [Canon.rot_record]. unfold rot1. cbn [fst snd].
    destruct (rotate_complex_once sq ss) as [rr|k]; cbn [rbind] in *; [|discriminate].
    destruct (IH (S e) reg rr _ _ H) as [rots [R [D F]]]. rewrite R. cbn [rbind].
    exists ((sq, ss) :: rots). split; [reflexivity|]. split; [exact D|].
    intros y [<-|Hy]; [exact E | apply F; exact Hy].
Qed.

Lemma rot_loop_exit0 n reg x i cdict :
  klookup (KCplx x) reg = Some i -> rot_loop (S n) 0 reg (fst x) (snd x) cdict = Ok (Some (x, 0), cdict).
Proof. intros H. cbn. destruct x as [a b]. cbn [fst snd]. rewrite H. reflexivity. Qed.

(* keys and values of the recorded dictionary *)
Lemma cdict_get_set_same k e d : cdict_get k (cdict_set k e d) = Some e.
Proof. apply (alookup_aset_same Heap.ckey_eqb ckey_eqb_iff). Qed.
Lemma cdict_get_set_other k k' e d : k' <> k -> cdict_get k' (cdict_set k e d) = cdict_get k' d.
Proof. apply (alookup_aset_other Heap.ckey_eqb ckey_eqb_iff). Qed.

Lemma dict_of_get y rots : forall e d,
  cdict_get y (dict_of rots e d) = Canon.last_index y rots e (cdict_get y d).
Proof.
  induction rots as [|x r IH]; intros e d; cbn [dict_of Canon.last_index]; [reflexivity|].
  rewrite IH. f_equal. destruct (Canon.ckey_eqb y x) eqn:E.
  - apply ckey_eqb_eq in E. subst x. apply cdict_get_set_same.
  - apply cdict_get_set_other. intros ->. assert (T : Canon.ckey_eqb x x = true) by (apply ckey_eqb_eq; reflexivity). congruence.
Qed.

Lemma dict_of_keys y rots : forall e d,
  In y (map fst (dict_of rots e d)) <-> In y rots \/ In y (map fst d).
Proof.
  induction rots as [|x r IH]; intros e d; cbn [dict_of]; [cbn; tauto|].
  rewrite IH. unfold cdict_set. rewrite (aset_keys Heap.ckey_eqb ckey_eqb_iff).
  destruct (alookup Heap.ckey_eqb x d) eqn:E.
  - apply (alookup_in Heap.ckey_eqb ckey_eqb_iff) in E. apply (in_map fst) in E. cbn in E.
    split; [intros [H|H]; [left; right; exact H | right; exact H] |
            intros [[H|H]|H]; [subst; right; exact E | left; exact H | right; exact H]].
  - rewrite in_app_iff. cbn. split; [intros [H|[H|[H|[]]]]; auto | intros [[H|H]|H]; auto].
    + left. left. symmetry. exact H.
    + right. right. left. symmetry. exact H.
Qed.

(* the minimum: fold-based min_ckey against the sort-based min_key *)
Lemma min_ckey_spec d m : min_ckey d = Some m ->
  In m (map fst d) /\ forall k, In k (map fst d) -> leb ckey_cmp m k = true.
Proof.
  revert m. induction d as [|[k v] r IH]; intros m H; cbn in H; [discriminate|].
  destruct (min_ckey r) as [m'|] eqn:E.
  - destruct (IH m' eq_refl) as [Hin Hmin]. destruct (cmp_ltb (Heap.ckey_cmp m' k)) eqn:L; injection H as <-.
    + split; [right; exact Hin|]. intros k' [<-|Hk]; [|apply Hmin; exact Hk].
      unfold leb. unfold cmp_ltb in L. change Heap.ckey_cmp with ckey_cmp in L. destruct (ckey_cmp m' k); try discriminate. reflexivity.
    + split; [left; reflexivity|]. intros k' [<-|Hk]; [unfold leb; rewrite (good_refl _ good_ckey); reflexivity|].
      apply (leb_trans ckey_cmp good_ckey k m' k'); [|apply Hmin; exact Hk].
      rewrite (leb_ltb ckey_cmp good_ckey). unfold ltb. change Heap.ckey_cmp with ckey_cmp in L. rewrite L. reflexivity.
  - injection H as <-. destruct r as [|[k2 v2] r2]; [|cbn in E; destruct (min_ckey r2); [destruct (cmp_ltb _)|]; discriminate].
    split; [left; reflexivity|]. intros k' [<-|[]]. unfold leb. rewrite (good_refl _ good_ckey). reflexivity.
Qed.

Lemma min_ckey_none d : min_ckey d = None -> d = [].
Proof. destruct d as [|[k v] r]; [reflexivity|]. cbn. destruct (min_ckey r); [destruct (cmp_ltb _)|]; discriminate. Qed.

Lemma min_agree rots m :
  min_ckey (dict_of rots 0 []) = Some m -> Canon.min_key rots = Some m.
Proof.
  intros H. destruct (min_ckey_spec _ _ H) as [Hin Hmin].
  apply dict_of_keys in Hin. destruct Hin as [Hin|[]].
  destruct (Canon.min_key rots) as [c|] eqn:M.
  - destruct (min_key_spec _ _ M) as [Cin Cmin]. f_equal.
    apply (leb_antisym ckey_cmp good_ckey); [apply Cmin; exact Hin|].
    apply Hmin. apply dict_of_keys. left. exact Cin.
  - exfalso. unfold Canon.min_key in M.
    pose proof (sort_perm (fun x => x) ckey_cmp rots) as P.
    destruct (sort_by (fun x => x) ckey_cmp rots); [|discriminate].
    apply Permutation_nil in P. subst rots. destruct Hin.
Qed.

(* ------------------------------------------------------------------ *)
(* canon_independent_of_registry                                        *)

(* what cplx_call passes on to Singleton.__call__ / __init__ when no rotation is registered *)
Theorem loop_is_identifiers_fresh reg names ss cdict cn e :
  length names = length ss -> n_strands names <> 0 ->
  rot_loop (n_strands names) 0 reg names ss [] = Ok (None, cdict) ->
  min_ckey cdict = Some cn -> cdict_get cn cdict = Some e ->
  exists rots, Canon.identifiers_fresh names ss = Ok (cn, wrap (- Z.of_nat e) (Z.of_nat (n_strands names)), rots) /\
               (forall y, In y (map fst cdict) <-> In y rots).
Proof.
  intros HL HN H M G.
  destruct (rot_loop_full _ 0 reg (names, ss) [] cdict H) as [rots [R [D F]]]. subst cdict.
  exists rots. split.
  - unfold Canon.identifiers_fresh. apply Nat.eqb_eq in HL. rewrite HL. cbn [negb].
    apply Nat.eqb_neq in HN. rewrite HN. rewrite R. cbn [rbind].
    rewrite (min_agree _ _ M). rewrite dict_of_get in G. cbn in G. rewrite G. reflexivity.
  - intros y. rewrite dict_of_keys. cbn. tauto.
Qed.
