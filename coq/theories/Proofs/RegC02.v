(* C02 at registry level: what ComplexS.identifiers computes in the presence of the
   registry (early exit on a registered rotation), and that a newly created complex
   stores the canonical form computed without any registry. *)
From Coq Require Import List NArith ZArith Bool Arith Lia Permutation.
From DSD Require Import Base.Str Base.Errors Base.Sort Model.ComplexUtils Model.Rotation Model.Compare Model.Canon
  Proofs.C10 Proofs.RotTree Proofs.RotOnce Proofs.RotOrbit Proofs.RotStrands Proofs.RotGen Proofs.C02.
From DSD Require Import Model.RegStr Model.Heap Model.Registry
  Proofs.RegHeap Proofs.RegInv Proofs.RegCalls Proofs.RegExt Proofs.RegC04 Proofs.RegStep.
Import ListNotations.

(* ------------------------------------------------------------------ *)
(* the loop without an early exit records what rot_record records       *)

(* cdict after recording the list `rots` starting at index e *)
Fixpoint dict_of (rots : list ckey) (e : nat) (d : list (ckey * nat)) : list (ckey * nat) :=
  match rots with
  | [] => d
  | x :: r => dict_of r (S e) (cdict_set x e d)
  end.

Lemma rot_loop_full n : forall e reg x cdict cdict',
  rot_loop n e reg (fst x) (snd x) cdict = Ok (None, cdict') ->
  exists rots, Canon.rot_record n x = Ok rots /\ cdict' = dict_of rots e cdict /\
               forall y, In y rots -> klookup (KCplx y) reg = None.
Proof.
  induction n as [|n IH]; intros e reg x cdict cdict' H; cbn in H.
  - injection H as <-. exists []. repeat split; auto. intros y [].
  - destruct x as [sq ss]. cbn [fst snd] in *.
    destruct (klookup (KCplx (sq, ss)) reg) eqn:E; [discriminate|].
    cbn [Canon.rot_record]. unfold rot1. cbn [fst snd].
    destruct (rotate_complex_once sq ss) as [rr|k]; cbn [rbind] in *; [|discriminate].
    destruct (IH (S e) reg rr _ _ H) as [rots [R [D F]]]. rewrite R. cbn [rbind].
    exists ((sq, ss) :: rots). split; [reflexivity|]. split; [exact D|].
    intros y [<-|Hy]; [exact E | apply F; exact Hy].
Qed.

Lemma rot_loop_exit0 n reg x i cdict :
  klookup (KCplx x) reg = Some i -> rot_loop (S n) 0 reg (fst x) (snd x) cdict = Ok (Some (x, 0), cdict).
Proof. intros H. cbn. destruct x as [a b]. cbn [fst snd]. rewrite H. reflexivity. Qed.

(* keys and values of the recorded dictionary *)
Lemma cdict_get_set_same k e d : cdict_get k (cdict_set k e d) = Some e.
Proof. apply (alookup_aset_same Heap.ckey_eqb ckey_eqb_iff). Qed.
Lemma cdict_get_set_other k k' e d : k' <> k -> cdict_get k' (cdict_set k e d) = cdict_get k' d.
Proof. apply (alookup_aset_other Heap.ckey_eqb ckey_eqb_iff). Qed.

Lemma dict_of_get y rots : forall e d,
  cdict_get y (dict_of rots e d) = Canon.last_index y rots e (cdict_get y d).
Proof.
  induction rots as [|x r IH]; intros e d; cbn [dict_of Canon.last_index]; [reflexivity|].
  rewrite IH. f_equal. destruct (Canon.ckey_eqb y x) eqn:E.
  - apply ckey_eqb_eq in E. subst x. apply cdict_get_set_same.
  - apply cdict_get_set_other. intros ->. assert (T : Canon.ckey_eqb x x = true) by (apply ckey_eqb_eq; reflexivity). congruence.
Qed.

Lemma dict_of_keys y rots : forall e d,
  In y (map fst (dict_of rots e d)) <-> In y rots \/ In y (map fst d).
Proof.
  induction rots as [|x r IH]; intros e d; cbn [dict_of]; [cbn; tauto|].
  rewrite IH. unfold cdict_set. rewrite (aset_keys Heap.ckey_eqb ckey_eqb_iff).
  destruct (alookup Heap.ckey_eqb x d) eqn:E.
  - apply (alookup_in Heap.ckey_eqb ckey_eqb_iff) in E. apply (in_map fst) in E. cbn in E.
    split; [intros [H|H]; [left; right; exact H | right; exact H] |
            intros [[H|H]|H]; [subst; right; exact E | left; exact H | right; exact H]].
  - rewrite in_app_iff. cbn. split.
    + intros [H|[H|[H|[]]]]; auto.
    + intros [[H|H]|H]; auto.
Qed.

(* the minimum: fold-based min_ckey against the sort-based min_key *)
Lemma min_ckey_spec d m : min_ckey d = Some m ->
  In m (map fst d) /\ forall k, In k (map fst d) -> leb ckey_cmp m k = true.
Proof.
  revert m. induction d as [|[k v] r IH]; intros m H; cbn in H; [discriminate|].
  destruct (min_ckey r) as [m'|] eqn:E.
  - destruct (IH m' eq_refl) as [Hin Hmin]. destruct (cmp_ltb (Heap.ckey_cmp m' k)) eqn:L; injection H as <-.
    + split; [right; exact Hin|]. cbn [map fst]. intros k' [<-|Hk]; [|apply Hmin; exact Hk].
      unfold leb. change Heap.ckey_cmp with ckey_cmp in L. destruct (ckey_cmp m' k) eqn:Ec; cbn in L; try discriminate. reflexivity.
    + split; [left; reflexivity|]. cbn [map fst]. intros k' [<-|Hk]; [unfold leb; rewrite (good_refl _ good_ckey); reflexivity|].
      apply (leb_trans ckey_cmp good_ckey k m' k'); [|apply Hmin; exact Hk].
      rewrite (leb_ltb ckey_cmp good_ckey). unfold ltb. change Heap.ckey_cmp with ckey_cmp in L. rewrite L. reflexivity.
  - injection H as <-. destruct r as [|[k2 v2] r2]; [|cbn in E; destruct (min_ckey r2); [destruct (cmp_ltb _)|]; discriminate].
    split; [left; reflexivity|]. cbn [map fst]. intros k' [<-|[]]. unfold leb. rewrite (good_refl _ good_ckey). reflexivity.
Qed.

Lemma min_ckey_none d : min_ckey d = None -> d = [].
Proof. destruct d as [|[k v] r]; [reflexivity|]. cbn. destruct (min_ckey r); [destruct (cmp_ltb _)|]; discriminate. Qed.

Lemma min_agree rots m :
  min_ckey (dict_of rots 0 []) = Some m -> Canon.min_key rots = Some m.
Proof.
  intros H. destruct (min_ckey_spec _ _ H) as [Hin Hmin].
  apply dict_of_keys in Hin. destruct Hin as [Hin|[]].
  destruct (Canon.min_key rots) as [c|] eqn:M.
  - destruct (min_key_spec _ _ M) as [Cin Cmin]. f_equal.
    apply (leb_antisym ckey_cmp good_ckey); [apply Cmin; exact Hin|].
    apply Hmin. apply dict_of_keys. left. exact Cin.
  - exfalso. unfold Canon.min_key in M.
    match type of M with context [match ?t with _ => _ end] =>
      assert (P : Permutation t rots) by apply Sort.sort_perm; destruct t; [|discriminate M] end.
    apply Permutation_nil in P. subst rots. destruct Hin.
Qed.

(* ------------------------------------------------------------------ *)
(* canon_independent_of_registry                                        *)

(* what cplx_call passes on to Singleton.__call__ / __init__ when no rotation is registered *)
Theorem loop_is_identifiers_fresh reg names ss cdict cn e :
  length names = length ss -> n_strands names <> 0 ->
  rot_loop (n_strands names) 0 reg names ss [] = Ok (None, cdict) ->
  min_ckey cdict = Some cn -> cdict_get cn cdict = Some e ->
  exists rots, Canon.identifiers_fresh names ss = Ok (cn, wrap (- Z.of_nat e) (Z.of_nat (n_strands names)), rots) /\
               (forall y, In y (map fst cdict) <-> In y rots).
Proof.
  intros HL HN H M G.
  destruct (rot_loop_full _ 0 reg (names, ss) [] cdict H) as [rots [R [D F]]]. subst cdict.
  exists rots. split.
  - unfold Canon.identifiers_fresh. apply Nat.eqb_eq in HL. rewrite HL. cbn [negb].
    apply Nat.eqb_neq in HN. rewrite HN. rewrite R. cbn [rbind].
    rewrite (min_agree _ _ M). rewrite dict_of_get in G. cbn in G. rewrite G. reflexivity.
  - intros y. rewrite dict_of_keys. cbn. tauto.
Qed.

(* ------------------------------------------------------------------ *)
(* the invariant: every key recorded for a live object is bound to it, and a live
   complex has ALL rotations of its (well-formed) representation among its keys *)

Definition KeysReg (st : state) : Prop :=
  forall i o k, live_obj (heap st) i o -> In k (o_keys o) ->
                klookup k (cs_canon (cget st (o_cls o))) = Some i.

Definition CplxOK (o : obj) : Prop :=
  forall es ss t, o_data o = DCplx es ss t ->
    goodNE (map fst es, ss) /\
    (forall k, In (KCplx (Nat.iter k rotT (map fst es, ss))) (o_keys o)) /\
    (forall key, In key (o_keys o) -> exists k, key = KCplx (Nat.iter k rotT (map fst es, ss))) /\
    (exists cn, o_key o = KCplx cn /\ canon_T (map fst es, ss) = Some cn) /\
    (forall x, In x (elem_ids es) -> In x (o_children o)).

Definition ROK (st : state) : Prop :=
  KeysReg st /\ forall i o, live_obj (heap st) i o -> CplxOK o.

Lemma rok_init ct n : ROK (init ct n).
Proof. split; [intros i o k [H _] | intros i o [H _]]; cbn in H; discriminate. Qed.

Lemma rok_collect st : ROK st -> ROK (collect st).
Proof.
  intros [K C]. split.
  - intros i o k Hl Hk. pose proof (livesub_collect st i o Hl) as Hl0.
    rewrite cget_collect. cbn [purge_class cs_canon]. apply (alookup_filter key_eqb key_eqb_iff).
    + apply (K i o k Hl0 Hk).
    + cbn. rewrite <- heap_collect. eapply live_obj_is_live; eauto.
  - intros i o Hl. apply (C i o). apply livesub_collect. exact Hl.
Qed.

Lemma rok_same_regs st s : same_regs st s -> ROK st -> ROK s.
Proof.
  intros [Eh [_ [_ Ec]]] [K C]. split.
  - intros i o k Hl Hk. rewrite Eh in Hl. rewrite (proj2 (Ec (o_cls o))). apply (K i o k Hl Hk).
  - intros i o Hl. rewrite Eh in Hl. apply (C i o Hl).
Qed.

Lemma rok_set_root st s v : ROK st -> ROK (set_root st s v).
Proof. intros H. exact H. Qed.

Lemma reg_extra_lookup_keep extra id : forall canon k,
  klookup k canon = Some id \/ In k extra -> klookup k (reg_extra extra id canon) = Some id.
Proof.
  induction extra as [|x r IH]; intros canon k H; [destruct H as [H|[]]; exact H|].
  rewrite reg_extra_cons. apply IH.
  destruct (key_eqb k x) eqn:E.
  - apply key_eqb_iff in E. subst x. left. apply (alookup_aset_same key_eqb key_eqb_iff).
  - assert (D : k <> x) by (intros ->; rewrite (proj2 (key_eqb_iff x x) eq_refl) in E; discriminate).
    destruct H as [H|[H|H]]; [left | congruence | right; exact H].
    unfold klookup, kset. rewrite (alookup_aset_other key_eqb key_eqb_iff) by exact D. exact H.
Qed.

Lemma reg_extra_lookup_in extra id canon k : In k extra -> klookup k (reg_extra extra id canon) = Some id.
Proof. intros H. apply reg_extra_lookup_keep. right. exact H. Qed.

(* the live objects after `create`: the old ones and, on success only, the new one *)
Lemma create_live2 ct st c auto name k extra children d i o :
  Inv ct st -> (forall x, In x children -> is_live (heap st) x = true) ->
  live_obj (heap (fst (create ct st c auto name k extra children d))) i o ->
  live_obj (heap st) i o \/
  (o = mkObj c name k (k :: extra) true children d /\ i = length (heap st) /\
   snd (create ct st c auto name k extra children d) = CRet i true).
Proof.
  intros I Hch. unfold create. destruct (nth_error ct c) as [ci|]; [|auto].
  set (st1 := if auto then bump_id ct st c else st).
  assert (S1 : same_regs st st1) by (unfold st1; destruct auto; [apply same_regs_bump | apply same_regs_refl]).
  assert (Eh : heap st1 = heap st) by apply S1.
  assert (I1 : Inv ct st1) by (eapply inv_same_regs; eauto).
  destruct (c_fail ci); [| auto |]; unfold alloc; cbn [fst snd].
  - unfold register, cput. cbn [heap]. intros H. apply live_obj_cons_inv in H.
    destruct H as [[E1 E2]|[_ H]]; [right; split; [exact E2 | split; [rewrite <- Eh; exact E1 | rewrite E1; reflexivity]] | left; rewrite <- Eh; exact H].
  - intros H. left. rewrite heap_collect in H. apply live_obj_sweep in H. destruct H as [H Kp].
    unfold register_extra, cput in H, Kp. cbn [heap roots] in H, Kp. apply live_obj_cons_inv in H.
    destruct H as [[E1 E2]|[_ H]]; [|rewrite <- Eh; exact H]. exfalso. subst i.
    set (o' := mkObj c name k (k :: extra) true children d) in *.
    assert (Hch1 : forall x, In x (o_children o') -> is_live (heap st1) x = true) by (rewrite Eh; exact Hch).
    pose proof (heapok_alloc st1 o' (proj2 I1) eq_refl Hch1 (classes st1)) as HO.
    apply kept_iff in Kp; [|apply (hk_older _ HO)]. destruct Kp as [_ Kp].
    apply reach_newest in Kp; [|apply (hk_older _ HO)].
    apply root_ids_in in Kp. destruct Kp as [s Hs]. apply (hk_roots _ (proj2 I1)) in Hs. apply is_live_lt in Hs. lia.
Qed.

Lemma cget_create_other ct st c auto name k extra children d b :
  b <> c -> cs_canon (cget (fst (create ct st c auto name k extra children d)) b) =
            purge (heap (fst (create ct st c auto name k extra children d))) (cs_canon (cget st b)) \/
            cs_canon (cget (fst (create ct st c auto name k extra children d)) b) = cs_canon (cget st b).
Proof.
  intros Hb. unfold create. destruct (nth_error ct c) as [ci|]; [|auto].
  set (st1 := if auto then bump_id ct st c else st).
  assert (E1 : cs_canon (cget st1 b) = cs_canon (cget st b)).
  { unfold st1. destruct auto; [|reflexivity]. unfold bump_id. destruct (class_id ct st c); [|reflexivity].
    unfold set_id. rewrite cget_cput_other by congruence. reflexivity. }
  destruct (c_fail ci); [|auto|]; unfold alloc; cbn [fst].
  - right. unfold register. rewrite cget_cput_other by congruence. exact E1.
  - left. rewrite cget_collect, heap_collect. cbn [purge_class cs_canon]. unfold register_extra.
    rewrite cget_cput_other by congruence. cbn [cget classes] in *. unfold cget in *. cbn [classes]. rewrite <- E1. reflexivity.
Qed.

Lemma cget_create_same ct st c auto name k extra children d :
  c < length (classes st) ->
  let s := fst (create ct st c auto name k extra children d) in
  let canon := cs_canon (cget st c) in
  let id := length (heap st) in
  cs_canon (cget s c) = canon \/
  cs_canon (cget s c) = kset k id (reg_extra extra id canon) \/
  cs_canon (cget s c) = purge (heap s) (reg_extra extra id canon).
Proof.
  intros Hc. cbn zeta. unfold create. destruct (nth_error ct c) as [ci|]; [|auto].
  set (st1 := if auto then bump_id ct st c else st).
  assert (S1 : same_regs st st1) by (unfold st1; destruct auto; [apply same_regs_bump | apply same_regs_refl]).
  destruct S1 as [Eh [_ [El Ec]]]. assert (Hc1 : c < length (classes st1)) by (rewrite El; exact Hc).
  destruct (c_fail ci); [|auto|]; unfold alloc; cbn [fst].
  - right. left. unfold register.
    rewrite (cget_cput_same (mkState _ (classes st1) (roots st1))) by exact Hc1. cbn [cs_canon].
    change (cget (mkState _ (classes st1) (roots st1)) c) with (cget st1 c).
    rewrite (proj2 (Ec c)), Eh. reflexivity.
  - right. right. rewrite cget_collect, heap_collect. cbn [purge_class cs_canon]. unfold register_extra.
    rewrite (cget_cput_same (mkState _ (classes st1) (roots st1))) by exact Hc1. cbn [cs_canon].
    change (cget (mkState _ (classes st1) (roots st1)) c) with (cget st1 c).
    rewrite (proj2 (Ec c)), Eh. reflexivity.
Qed.

Theorem rok_create ct st c auto name k extra children d :
  Inv ct st -> ROK st -> Fresh st c name k extra ->
  (forall x, In x children -> is_live (heap st) x = true) ->
  CplxOK (mkObj c name k (k :: extra) true children d) ->
  ROK (fst (create ct st c auto name k extra children d)).
Proof.
  intros I [K C] [F1 [F2 F3]] Hch HO.
  split; [|intros i o Hl; destruct (create_live2 _ _ _ _ _ _ _ _ _ _ _ I Hch Hl) as [H|[-> _]]; [apply (C i o H) | exact HO]].
  intros i o k0 Hl Hk.
  assert (Li : is_live (heap (fst (create ct st c auto name k extra children d))) i = true)
    by (eapply live_obj_is_live; eauto).
  destruct (Nat.lt_ge_cases c (length (classes st))) as [Hc|Hc].
  2:{ (* no such class: create does nothing *)
      assert (E : create ct st c auto name k extra children d = (st, CErr eBadRequest None)).
      { unfold create. destruct (nth_error ct c) eqn:Ec; [|reflexivity]. exfalso.
        assert (c < length ct) by (apply nth_error_Some; congruence). rewrite (ok_len _ _ (proj1 I)) in Hc. lia. }
      rewrite E in *. cbn [fst] in *. apply (K i o k0 Hl Hk). }
  destruct (create_live2 _ _ _ _ _ _ _ _ _ _ _ I Hch Hl) as [H0|[-> [-> Es]]].
  - pose proof (K i o k0 H0 Hk) as R.
    destruct (Nat.eq_dec (o_cls o) c) as [E|D].
    + rewrite E in *.
      assert (D1 : k0 <> k) by (intros ->; congruence).
      assert (D2 : ~ In k0 extra) by (intros Hin; apply F3 in Hin; congruence).
      destruct (cget_create_same ct st c auto name k extra children d Hc) as [S|[S|S]]; rewrite S.
      * exact R.
      * unfold klookup, kset. rewrite (alookup_aset_other key_eqb key_eqb_iff) by exact D1.
        change (alookup key_eqb) with klookup. rewrite reg_extra_lookup_other by exact D2. exact R.
      * apply (alookup_filter key_eqb key_eqb_iff); [|exact Li].
        change (alookup key_eqb) with klookup. rewrite reg_extra_lookup_other by exact D2. exact R.
    + destruct (cget_create_other ct st c auto name k extra children d (o_cls o) D) as [S|S]; rewrite S; [|exact R].
      apply (alookup_filter key_eqb key_eqb_iff); [exact R | exact Li].
  - (* the new object: created, hence the FNone shape *)
    cbn [o_cls o_keys] in *.
    assert (S : cs_canon (cget (fst (create ct st c auto name k extra children d)) c)
                = kset k (length (heap st)) (reg_extra extra (length (heap st)) (cs_canon (cget st c)))).
    { revert Es. unfold create. destruct (nth_error ct c) as [ci|]; [|discriminate].
      set (st1 := if auto then bump_id ct st c else st).
      assert (S1 : same_regs st st1) by (unfold st1; destruct auto; [apply same_regs_bump | apply same_regs_refl]).
      destruct S1 as [Eh [_ [El Ec]]]. assert (Hc1 : c < length (classes st1)) by (rewrite El; exact Hc).
      destruct (c_fail ci); unfold alloc; cbn [fst snd]; try discriminate. intros _.
      unfold register. rewrite (cget_cput_same (mkState _ (classes st1) (roots st1))) by exact Hc1. cbn [cs_canon].
      change (cget (mkState _ (classes st1) (roots st1)) c) with (cget st1 c).
      rewrite (proj2 (Ec c)), Eh. reflexivity. }
    rewrite S. destruct (key_eqb k0 k) eqn:E.
    + apply key_eqb_iff in E. subst k0. apply (alookup_aset_same key_eqb key_eqb_iff).
    + assert (D : k0 <> k) by (intros ->; rewrite (proj2 (key_eqb_iff k k) eq_refl) in E; discriminate).
      unfold klookup, kset. rewrite (alookup_aset_other key_eqb key_eqb_iff) by exact D.
      destruct Hk as [Hk|Hk]; [congruence|]. apply reg_extra_lookup_in. exact Hk.
Qed.

(* ---- through the constructor calls ---- *)
Lemma cplxok_other c name k keys ch d : (forall es ss t, d <> DCplx es ss t) -> CplxOK (mkObj c name k keys true ch d).
Proof. intros H es ss t E. cbn in E. exfalso. eapply H; eauto. Qed.

Lemma rok_lookup_create ct st c nm k auto extra children d :
  Inv ct st -> ROK st ->
  (forall k', In k' extra -> klookup k' (cs_canon (cget st c)) = None) ->
  (forall x, In x children -> is_live (heap st) x = true) ->
  CplxOK (mkObj c nm k (k :: extra) true children d) ->
  ROK (fst (match sing_lookup (cget st c) nm (Some k) with
            | LFound o => (st, CRet o false)
            | LRaise e => (st, CErr eSingleton e)
            | LFresh => create ct st c auto nm k extra children d
            end)).
Proof.
  intros I R Fx Hch HO. destruct (sing_lookup (cget st c) nm (Some k)) eqn:E; try exact R.
  apply sing_fresh in E. destruct E as [E1 E2]. apply rok_create; auto. split; [exact E1 | split; [exact E2 | exact Fx]].
Qed.

Definition RecRok (ct : ctable) (rec : state -> pstr -> option Z -> state * cout) : Prop :=
  forall st n l, Inv ct st -> ROK st -> ROK (fst (rec st n l)).

Lemma rok_dom_nested ct rec st nm len1 :
  RecOK ct rec -> RecRok ct rec -> Inv ct st -> ROK st -> ROK (fst (dom_nested rec st nm len1)).
Proof.
  intros HR HK I R. unfold dom_nested.
  assert (Call : forall s n l, Inv ct s -> ROK s -> Inv ct (fst (rec s n l)) /\ ROK (fst (rec s n l)))
    by (intros s n l Is Rs; split; [apply (HR s n l Is) | apply (HK s n l Is Rs)]).
  destruct len1 as [l|], (starred nm); try exact R.
  - 
    destruct (Call st (cname_of nm) None I R) as [I1 R1]. destruct (rec st (cname_of nm) None) as [s1 r]. cbn [fst] in *.
    destruct r as [o b|k e].
    + destruct (obj_length (heap s1) o); [destruct (Z.eqb a l)|]; cbn [fst]; apply rok_collect; exact R1.
    + destruct (is_singleton_err k); cbn [fst]; [apply rok_collect|]; exact R1.
  - 
    destruct (Call st (cname_of nm) None I R) as [I1 R1]. destruct (rec st (cname_of nm) None) as [s1 r]. cbn [fst] in *.
    destruct r as [o b|k e].
    + destruct (obj_length (heap s1) o); cbn [fst]; [|apply rok_collect; exact R1].
      destruct (Call (collect s1) (cname_of nm) (Some l) (inv_collect _ _ I1) (rok_collect _ R1)) as [I2 R2].
      destruct (rec (collect s1) (cname_of nm) (Some l)) as [s2 r2]. cbn [fst] in *.
      destruct r2 as [o2 b2|k2 e2]; cbn [fst]; [apply rok_collect; exact R2|].
      destruct (is_singleton_err k2); cbn [fst]; [apply rok_collect|]; exact R2.
    + destruct (is_singleton_err k); cbn [fst]; [apply rok_collect|]; exact R1.
  - destruct (Call st (cname_of nm) None I R) as [I1 R1]. destruct (rec st (cname_of nm) None) as [s1 r]. cbn [fst] in *.
    destruct r as [o b|k e].
    + destruct (obj_length (heap s1) o); cbn [fst]; apply rok_collect; exact R1.
    + destruct (is_singleton_err k); cbn [fst]; [apply rok_collect|]; exact R1.
Qed.

Lemma rok_dom_body ct rec c st name len prefix dtype :
  RecOK ct rec -> RecRok ct rec -> Inv ct st -> ROK st -> ROK (fst (dom_body rec ct c st name len prefix dtype)).
Proof.
  intros HR HK I R. unfold dom_body.
  destruct (nth_error ct c) as [ci|] eqn:Ec; [|exact R].
  destruct (resolve_name ct st c ci name prefix) as [nm|k]; [|exact R].
  destruct (dom_len1 ci len dtype) as [len1|k]; [|exact R]. destruct (negb (nonempty nm)); [exact R|].
  pose proof (inv_dom_nested ct rec st nm len1 HR I) as I1.
  pose proof (rok_dom_nested ct rec st nm len1 HR HK I R) as R1.
  destruct (dom_nested rec st nm len1) as [st1 rl]. cbn [fst] in *. destruct rl as [len2|k]; [|exact R1].
  unfold dom_finish. destruct len2 as [l|]; cbn [option_map].
  - apply rok_lookup_create; [exact I1 | exact R1 | intros ? [] | intros ? [] | apply cplxok_other; intros ? ? ?; discriminate].
  - destruct (sing_lookup (cget st1 c) nm None); exact R1.
Qed.

Theorem rok_dom_call fuel ct c st name len prefix dtype :
  Inv ct st -> ROK st -> ROK (fst (dom_call fuel ct c st name len prefix dtype)).
Proof.
  revert st name len prefix dtype. induction fuel as [|f IH]; intros st name len prefix dtype I R; [exact R|].
  cbn [dom_call]. apply rok_dom_body; auto.
  - intros st' n l I'. apply callok_dom_call. exact I'.
  - intros st' n l I' R'. apply IH; assumption.
Qed.

(* the keys of a well-formed request that runs through the whole loop *)
Lemma full_loop_keys reg names ss cdict k :
  goodNE (names, ss) ->
  rot_loop (n_strands names) 0 reg names ss [] = Ok (None, cdict) ->
  In (Nat.iter k rotT (names, ss)) (map fst cdict).
Proof.
  intros GN H. pose proof GN as [G _].
  destruct (rot_loop_full _ 0 reg (names, ss) [] cdict H) as [rots [R [D _]]]. subst cdict.
  apply dict_of_keys. left.
  pose proof (n_strands_nstr (names, ss) GN) as NS. cbn [fst snd] in NS. rewrite NS in R.
  rewrite (rot_record_spec _ _ G) in R.
  assert (Er : rots = map (fun j => Nat.iter j rotT (names, ss)) (seq 0 (nstr ss))) by congruence. subst rots. clear R.
  rewrite (iter_rotT_mod k _ G). change (snd (names, ss)) with ss.
  apply (in_map_iff (fun j => Nat.iter j rotT (names, ss))). exists (k mod nstr ss). split; [reflexivity|].
  apply in_seq. assert (Hn : nstr ss <> 0) by (unfold nstr; lia).
  pose proof (Nat.mod_upper_bound k (nstr ss) Hn). lia.
Qed.

Theorem rok_cplx_call ct c st seq sst name prefix :
  Inv ct st -> ROK st ->
  (forall es x, seq = Some es -> In x (elem_ids es) -> is_live (heap st) x = true) ->
  (forall es ss, seq = Some es -> sst = Some ss -> goodNE (map fst es, ss)) ->
  ROK (fst (cplx_call ct c st seq sst name prefix)).
Proof.
  intros I R Hch HG. unfold cplx_call.
  destruct (nth_error ct c) as [ci|] eqn:Ec; [|exact R].
  destruct seq as [es|].
  - destruct (resolve_name ct st c ci name prefix) as [nm|k]; [|exact R].
    destruct sst as [ss|]; [|exact R].
    destruct (negb (Nat.eqb (length es) (length ss))); [exact R|].
    destruct (Nat.eqb (length (make_strand_table_list sPlus (map fst es))) 0); [exact R|].
    destruct (rot_loop _ 0 (cs_canon (cget st c)) (map fst es) ss []) as [[ex cdict]|k] eqn:ER; [|exact R].
    pose proof ER as ER'. apply rot_loop_fresh in ER; [|intros k []]. destruct ER as [F1 F2].
    match goal with |- ROK (fst (match ?x with _ => _ end)) => destruct x as [[cn e]|k] eqn:EC end; [|exact R].
    destruct ex as [[k0 e0]|].
    + (* early exit: the key is registered, nothing can be created *)
      injection EC as <- <-. destruct (sing_lookup (cget st c) nm (Some (KCplx k0))) eqn:EL; try exact R.
      exfalso. apply sing_fresh in EL. apply (F2 k0 e0 eq_refl). apply EL.
    + apply rok_lookup_create; auto.
      * intros k' Hk. apply in_map_iff in Hk. destruct Hk as [[kk vv] [<- Hin]]. apply F1.
        apply in_map_iff. exists (kk, vv). split; [reflexivity | exact Hin].
      * intros x Hx. eapply Hch; eauto.
      * intros es' ss' t' E. cbn in E. injection E as <- <- _.
        pose proof (HG es ss eq_refl eq_refl) as GN. pose proof GN as [Gd _].
        assert (EM : min_ckey cdict = Some cn /\ cdict_get cn cdict = Some e).
        { destruct (min_ckey cdict) as [m|]; [|discriminate]. destruct (cdict_get m cdict) as [e'|] eqn:EG; [|discriminate].
          injection EC as <- <-. auto. }
        destruct EM as [EM EG].
        assert (HL : length (map fst es) = length ss) by (apply aligned_length, Gd).
        assert (EN : n_strands (map fst es) <> 0).
        { pose proof (n_strands_nstr _ GN) as NS. cbn [fst snd] in NS. rewrite NS. unfold nstr. lia. }
        destruct (loop_is_identifiers_fresh _ _ _ _ _ _ HL EN ER' EM EG) as [rots [IF Keys]].
        destruct (rot_loop_full _ 0 _ (map fst es, ss) [] cdict ER') as [rots' [RR _]].
        pose proof (n_strands_nstr _ GN) as NS. cbn [fst snd] in NS. unfold n_strands in NS.
        rewrite NS, (rot_record_spec _ _ Gd) in RR.
        assert (InRots : forall y, In y (map fst cdict) -> exists k, y = Nat.iter k rotT (map fst es, ss)).
        { intros y Hy. destruct (rot_loop_full _ 0 _ (map fst es, ss) [] cdict ER') as [r2 [R2 [D2 _]]].
          rewrite NS, (rot_record_spec _ _ Gd) in R2. subst cdict. apply dict_of_keys in Hy. destruct Hy as [Hy|[]].
          assert (Er : r2 = map (fun j => Nat.iter j rotT (map fst es, ss)) (seq 0 (nstr ss))) by congruence. subst r2.
          apply in_map_iff in Hy. destruct Hy as [j [<- _]]. eauto. }
        split; [exact GN|]. split; [|split; [|split; [|intros x Hx; exact Hx]]].
        -- intros k. right. apply in_map_iff.
           pose proof (full_loop_keys _ _ _ _ k GN ER') as Hin.
           apply in_map_iff in Hin. destruct Hin as [[kk vv] [E1 Hin]]. exists (kk, vv). cbn in E1. rewrite <- E1. auto.
        -- intros key [<-|Hk].
           ++ destruct (min_ckey_spec _ _ EM) as [Hin _]. destruct (InRots cn Hin) as [k ->]. eauto.
           ++ apply in_map_iff in Hk. destruct Hk as [[kk vv] [<- Hin]]. cbn [fst].
              destruct (InRots kk) as [k ->]; [apply in_map_iff; exists (kk, vv); auto | eauto].
        -- exists cn. split; [reflexivity|]. unfold canon_T. cbn [fst snd]. rewrite IF. reflexivity.
  - destruct name as [nm|]; [|exact R]. destruct (sing_lookup (cget st c) nm None); exact R.
Qed.

Theorem rok_strand_call ct c st seq name prefix :
  Inv ct st -> ROK st ->
  (forall es x, seq = Some es -> In x (elem_ids es) -> is_live (heap st) x = true) ->
  ROK (fst (strand_call ct c st seq name prefix)).
Proof.
  intros I R Hch. unfold strand_call. destruct (nth_error ct c) as [ci|]; [|exact R]. destruct seq as [es|].
  - destruct (existsb is_plus es); [exact R|]. destruct (resolve_name ct st c ci name prefix) as [nm|k]; [|exact R].
    apply rok_lookup_create; auto; [intros ? [] | intros x Hx; eapply Hch; eauto | apply cplxok_other; intros ? ? ?; discriminate].
  - destruct name as [nm|]; [|exact R]. destruct (sing_lookup (cget st c) nm None); exact R.
Qed.

Theorem rok_macro_call ct c st members name :
  Inv ct st -> ROK st ->
  (forall ms x, members = Some ms -> In x ms -> is_live (heap st) x = true) ->
  ROK (fst (macro_call ct c st members name)).
Proof.
  intros I R Hch. unfold macro_call. destruct members as [ms|].
  - destruct (omap' _ ms) as [mks|]; [|exact R].
    match goal with |- ROK (fst (match ?x with _ => _ end)) => destruct x as [nm|k] end; [|exact R].
    destruct (find (fun i => str_eqb (obj_name (heap st) i) nm) ms) as [rep|].
    + apply rok_lookup_create; auto; [intros ? [] | intros x Hx; eapply Hch; eauto | apply cplxok_other; intros ? ? ?; discriminate].
    + destruct (sing_lookup (cget st c) nm _); exact R.
  - destruct name as [nm|]; [|exact R]. destruct (sing_lookup (cget st c) nm None); exact R.
Qed.

Theorem rok_reaction_call ct c st rp rtype name :
  Inv ct st -> ROK st ->
  (forall rs ps x, rp = Some (rs, ps) -> In x (rs ++ ps) -> is_live (heap st) x = true) ->
  ROK (fst (reaction_call ct c st rp rtype name)).
Proof.
  intros I R Hch. unfold reaction_call. destruct rp as [[rs ps]|].
  - destruct (omap' _ rs) as [fr|]; [|exact R]. destruct (omap' _ ps) as [fp|]; [|exact R].
    match goal with |- ROK (fst (if ?b then _ else _)) => destruct b end; [exact R|].
    apply rok_lookup_create; auto; [intros ? [] | intros x Hx; eapply Hch; eauto | apply cplxok_other; intros ? ? ?; discriminate].
  - destruct name as [nm|]; [|exact R]. destruct rtype; [exact R|]. destruct (sing_lookup (cget st c) nm None); exact R.
Qed.

(* ---- the turns setter rotates within the orbit ---- *)
Lemma map_fst_rot_elems es : map fst (rot_elems es) = rotS (map fst es).
Proof.
  unfold rot_elems, rotS. destruct (index_of sPlus (map fst es)) as [p|]; [|reflexivity].
  rewrite !map_app, <- skipn_map, <- firstn_map. reflexivity.
Qed.

Lemma rot_n_spec t : forall es ss es' ss', good (map fst es, ss) ->
  rot_n t es ss = Ok (es', ss') -> (map fst es', ss') = Nat.iter t rotT (map fst es, ss).
Proof.
  induction t as [|t IH]; intros es ss es' ss' G H; cbn [rot_n] in H.
  - injection H as <- <-. reflexivity.
  - destruct (rotT_ok _ G) as [E Gy]. unfold once in E. cbn [fst snd] in E. rewrite E in H. cbn [rbind] in H.
    assert (Ef : fst (rotT (map fst es, ss)) = map fst (rot_elems es)).
    { rewrite map_fst_rot_elems. apply (rotT_fst _ G). }
    assert (Ey : rotT (map fst es, ss) = (map fst (rot_elems es), snd (rotT (map fst es, ss))))
      by (rewrite <- Ef; destruct (rotT (map fst es, ss)); reflexivity).
    rewrite Ey in Gy. rewrite (IH _ _ _ _ Gy H). rewrite iter_succ_r, <- Ey. reflexivity.
Qed.

Lemma elem_ids_app a b : elem_ids (a ++ b) = elem_ids a ++ elem_ids b.
Proof. unfold elem_ids. apply flat_map_app. Qed.

Lemma elem_ids_sub_firstn n es x : In x (elem_ids (firstn n es)) -> In x (elem_ids es).
Proof. rewrite <- (firstn_skipn n es) at 2. rewrite elem_ids_app. intros H. apply in_or_app. left. exact H. Qed.
Lemma elem_ids_sub_skipn n es x : In x (elem_ids (skipn n es)) -> In x (elem_ids es).
Proof. rewrite <- (firstn_skipn n es) at 2. rewrite elem_ids_app. intros H. apply in_or_app. right. exact H. Qed.

Lemma rot_elems_ids es x : In x (elem_ids (rot_elems es)) -> In x (elem_ids es).
Proof.
  unfold rot_elems. destruct (index_of sPlus (map fst es)) as [p|]; [|auto].
  rewrite !elem_ids_app. intros H. apply in_app_or in H.
  destruct H as [H|H]; [eapply elem_ids_sub_skipn; eauto|]. apply in_app_or in H.
  destruct H as [H|H]; [cbn in H; destruct H | eapply elem_ids_sub_firstn; eauto].
Qed.

Lemma rot_n_ids t : forall es ss es' ss' x, rot_n t es ss = Ok (es', ss') -> In x (elem_ids es') -> In x (elem_ids es).
Proof.
  induction t as [|t IH]; intros es ss es' ss' x H Hx; cbn [rot_n] in H.
  - injection H as <- <-. exact Hx.
  - destruct (rotate_complex_once (map fst es) ss) as [rr|]; cbn [rbind] in H; [|discriminate].
    apply rot_elems_ids. eapply IH; eauto.
Qed.

Lemma rok_set_turns st i v : ROK st -> ROK (fst (set_turns st i v)).
Proof.
  intros [K C]. unfold set_turns. destruct (hget (heap st) i) as [o|] eqn:E; [|split; assumption].
  destruct (o_data o) as [| es ss t | | |] eqn:Ed; try (split; assumption).
  - match goal with |- context [if ?b then _ else _] => destruct b end; [split; assumption|].
    destruct (rot_n _ es ss) as [[es' ss']|] eqn:ER; [|split; assumption]. cbn [fst].
    set (o' := with_data o _).
    assert (G : forall j x, live_obj (hset (heap st) i o') j x ->
                live_obj (heap st) j x \/ (j = i /\ x = o' /\ live_obj (heap st) i o)).
    { intros j x [H1 H2]. rewrite hget_hset in H1. destruct (Nat.eqb j i) eqn:Ej.
      - apply Nat.eqb_eq in Ej. subst j. rewrite E in H1. cbn in H1. injection H1 as <-. right.
        split; [reflexivity | split; [reflexivity | split; [exact E | exact H2]]].
      - left. split; assumption. }
    split.
    + intros j x k Hl Hk. apply G in Hl. destruct Hl as [Hl|[-> [-> Hl]]]; [apply (K j x k Hl Hk) | apply (K i o k Hl Hk)].
    + intros j x Hl. apply G in Hl. destruct Hl as [Hl|[-> [-> Hl]]]; [apply (C j x Hl)|].
      intros es2 ss2 t2 E2. cbn in E2. injection E2 as <- <- _.
      destruct (C i o Hl es ss t Ed) as [GN [Keys [KeysR [[cn [Ek Ecn]] Hids]]]]. pose proof GN as [Gd _].
      rewrite (rot_n_spec _ _ _ _ _ Gd ER). split; [apply iter_rotT_goodNE; exact GN|]. split; [|split; [|split]].
      4:{ intros x Hx. cbn [o_children o' with_data]. apply Hids. eapply rot_n_ids; eauto. }
      * intros k. rewrite <- C02.iter_add. apply Keys.
      * intros key Hk. cbn [o_keys o' with_data] in Hk. destruct (KeysR key Hk) as [k ->].
        set (n := nstr ss). set (tt := Z.to_nat _).
        exists (k + (n * tt - tt)). rewrite <- C02.iter_add. f_equal.
        assert (Hn : n <> 0) by (unfold n, nstr; lia).
        rewrite (iter_rotT_mod k _ Gd), (iter_rotT_mod (k + (n * tt - tt) + tt) _ Gd). cbn [snd]. fold n.
        f_equal. assert (tt <= n * tt) by nia. replace (k + (n * tt - tt) + tt) with (k + tt * n) by nia.
        rewrite Nat.mod_add by exact Hn. reflexivity.
      * exists cn. split; [exact Ek|]. rewrite canon_orbit_invariant by exact GN. exact Ecn.
  - match goal with |- context [if ?b then _ else _] => destruct b end; split; assumption.
Qed.

(* ---- steps and histories (complex requests are required to be well-formed) ---- *)
Definition cplx_guard (st : state) (o : op) : Prop :=
  match o with
  | OComplex _ _ (Some us) (Some ss) _ _ =>
      forall es, resolve_elems st (Some us) = Some (Some es) -> goodNE (map fst es, ss)
  | _ => True
  end.

Lemma rok_finish dst r : ROK (fst r) -> ROK (fst (finish dst r)).
Proof. intros R. unfold finish. destruct (snd r); cbn [fst]; apply rok_collect; exact R. Qed.

Theorem rok_step ct st o : Inv ct st -> ROK st -> cplx_guard st o -> ROK (fst (step ct st o)).
Proof.
  intros I R G. pose proof (proj2 I) as H. destruct o; cbn [step].
  - destruct (kind_is ct cls KindD); [|exact R]. apply rok_finish. apply rok_dom_call; assumption.
  - destruct (kind_is ct cls KindC); [|exact R].
    destruct (resolve_elems st seq) as [es|] eqn:E; [|exact R].
    apply rok_finish. apply rok_cplx_call; auto; [apply (resolve_elems_live st seq es H E)|].
    intros es' ss' -> ->. cbn in G. destruct seq as [us|]; [|cbn in E; discriminate]. apply G. exact E.
  - destruct (kind_is ct cls KindS); [|exact R].
    destruct (resolve_elems st seq) as [es|] eqn:E; [|exact R].
    apply rok_finish. apply rok_strand_call; auto. apply (resolve_elems_live st seq es H E).
  - destruct (kind_is ct cls KindM); [|exact R]. destruct members as [l|].
    + destruct (resolve_slots st l) as [ids|] eqn:E; [|exact R].
      apply rok_finish. apply rok_macro_call; auto. intros ms x Ems Hx. injection Ems as <-. eapply resolve_slots_live; eauto.
    + apply rok_finish. apply rok_macro_call; auto. intros ms x Ems; discriminate.
  - destruct (kind_is ct cls KindR); [|exact R]. destruct rp as [[r p]|].
    + destruct (resolve_slots st r) as [r'|] eqn:E1; [|exact R]. destruct (resolve_slots st p) as [p'|] eqn:E2; [|exact R].
      apply rok_finish. apply rok_reaction_call; auto. intros rs ps x Ers Hx. injection Ers as <- <-. apply in_app_or in Hx.
      destruct Hx as [Hx|Hx]; [apply (resolve_slots_live st r r' H E1 x Hx) | apply (resolve_slots_live st p p' H E2 x Hx)].
    + apply rok_finish. apply rok_reaction_call; auto. intros rs ps x Ers; discriminate.
  - destruct (get_root st src) as [i|]; [|exact R]. destruct (hget (heap st) i) as [ob|]; [|exact R].
    destruct (o_data ob); try exact R. apply rok_finish. unfold dom_complement.
    destruct (hget (heap st) i) as [o2|]; [|exact R]. destruct (o_data o2); try exact R. apply rok_dom_call; assumption.
  - cbn [fst]. apply rok_collect. exact R.
  - destruct (get_root st slot) as [i|]; [|exact R]. destruct (hget (heap st) i) as [ob|]; [|exact R].
    destruct (query_obj ct (heap st) ob q); exact R.
  - destruct (get_root st slot) as [i|]; [|exact R]. destruct (hget (heap st) i) as [ob|]; [|exact R].
    destruct (o_data ob); try exact R;
      pose proof (rok_set_turns st i v R) as R'; destruct (set_turns st i v) as [st' [u|k]]; cbn in *; exact R'.
Qed.

Fixpoint guarded (ct : ctable) (st : state) (ops : list op) : Prop :=
  match ops with
  | [] => True
  | o :: r => cplx_guard st o /\ guarded ct (fst (step ct st o)) r
  end.

Theorem rok_run ct st ops : Inv ct st -> ROK st -> guarded ct st ops -> ROK (run ct st ops).
Proof.
  revert st. induction ops as [|o r IH]; intros st I R G; cbn; [exact R|]. destruct G as [G1 G2].
  apply IH; [apply inv_step; exact I | apply rok_step; assumption | exact G2].
Qed.

Theorem rok_reachable ct n ops : guarded ct (init ct n) ops -> ROK (run ct (init ct n) ops).
Proof. intros G. apply rok_run; [apply inv_init | apply rok_init | exact G]. Qed.

(* ------------------------------------------------------------------ *)
(* the property theorems                                                *)

(* every rotation of a live complex is registered and bound to it *)
Theorem all_rotations_registered st i o es ss t k :
  ROK st -> live_obj (heap st) i o -> o_data o = DCplx es ss t ->
  goodNE (map fst es, ss) /\
  klookup (KCplx (Nat.iter k rotT (map fst es, ss))) (cs_canon (cget st (o_cls o))) = Some i.
Proof.
  intros [K C] Hl Ed. destruct (C i o Hl es ss t Ed) as [GN [Keys _]]. split; [exact GN|]. apply (K i o _ Hl (Keys k)).
Qed.

(* what Singleton.__call__ answers when the canonical-form key is bound to i *)
Definition answer (cs : cstate) (nm : pstr) (i : nat) : cout :=
  if nonempty nm then
    match nlookup nm (cs_names cs) with
    | Some j => if Nat.eqb j i then CRet i false else CErr eSingleton None
    | None => CErr eSingleton (Some i)
    end
  else CRet i false.

Lemma sing_lookup_bound cs nm k i :
  klookup k (cs_canon cs) = Some i ->
  match sing_lookup cs nm (Some k) with
  | LFound o => CRet o false
  | LRaise e => CErr eSingleton e
  | LFresh => CErr eBadRequest None
  end = answer cs nm i.
Proof.
  intros H. unfold sing_lookup, answer. rewrite H. destruct (nonempty nm); [|reflexivity].
  destruct (nlookup nm (cs_names cs)) as [j|]; [|reflexivity]. destruct (Nat.eqb j i) eqn:E; [|reflexivity].
  apply Nat.eqb_eq in E. subst j. reflexivity.
Qed.

Theorem request_rotation_same_object ct st c ci i o es0 ss0 t0 k es ss name prefix nm :
  ROK st -> live_obj (heap st) i o -> o_cls o = c -> o_data o = DCplx es0 ss0 t0 ->
  nth_error ct c = Some ci ->
  (map fst es, ss) = Nat.iter k rotT (map fst es0, ss0) ->
  resolve_name ct st c ci name prefix = Ok nm ->
  cplx_call ct c st (Some es) (Some ss) name prefix = (st, answer (cget st c) nm i).
Proof.
  intros R Hl Ec Ed Eci Er En.
  destruct (all_rotations_registered st i o es0 ss0 t0 k R Hl Ed) as [GN0 Kb]. rewrite <- Er, Ec in Kb.
  assert (GN : goodNE (map fst es, ss)) by (rewrite Er; apply iter_rotT_goodNE; exact GN0).
  unfold cplx_call. rewrite Eci, En.
  pose proof (aligned_len _ (proj1 GN)) as AL. cbn [fst snd] in AL. rewrite map_length in AL.
  match goal with |- context [negb ?b] => replace b with true by (symmetry; exact AL) end. cbn [negb].
  pose proof (n_strands_nstr _ GN) as NS. cbn [fst snd] in NS. unfold n_strands in NS. rewrite NS.
  unfold nstr at 1. cbn [Nat.eqb].
  change (S (length (filter isP ss))) with (nstr ss).
  unfold nstr at 1. rewrite (rot_loop_exit0 _ _ (map fst es, ss) i [] Kb). cbn [min_ckey].
  pose proof (sing_lookup_bound (cget st c) nm (KCplx (map fst es, ss)) i Kb) as A.
  destruct (sing_lookup (cget st c) nm (Some (KCplx (map fst es, ss)))) eqn:EL; cbn in A; try (rewrite <- A; reflexivity).
  exfalso. apply sing_fresh in EL. destruct EL as [_ EL]. congruence.
Qed.

(* the three outcomes, by the requested (or automatic) name; never a creation *)
Corollary request_rotation_outcomes ct st c ci i o es0 ss0 t0 k es ss name prefix nm :
  Inv ct st -> ROK st -> live_obj (heap st) i o -> o_cls o = c -> o_data o = DCplx es0 ss0 t0 ->
  nth_error ct c = Some ci ->
  (map fst es, ss) = Nat.iter k rotT (map fst es0, ss0) ->
  resolve_name ct st c ci name prefix = Ok nm -> nonempty nm = true ->
  let r := cplx_call ct c st (Some es) (Some ss) name prefix in
  fst r = st /\
  (nm = o_name o -> snd r = CRet i false) /\
  (nlookup nm (cs_names (cget st c)) = None -> snd r = CErr eSingleton (Some i)) /\
  (forall j, nlookup nm (cs_names (cget st c)) = Some j -> j <> i -> snd r = CErr eSingleton None) /\
  (forall id, snd r <> CRet id true).
Proof.
  intros I R Hl Ec Ed Eci Er En Hne. cbn zeta.
  rewrite (request_rotation_same_object ct st c ci i o es0 ss0 t0 k es ss name prefix nm R Hl Ec Ed Eci Er En).
  cbn [fst snd]. unfold answer. rewrite Hne. split; [reflexivity|]. split; [|split; [|split]].
  - intros ->. destruct (live_registered ct st i o I Hl) as [N _]. rewrite Ec in N. rewrite N, Nat.eqb_refl. reflexivity.
  - intros ->. reflexivity.
  - intros j -> D. apply Nat.eqb_neq in D. rewrite D. reflexivity.
  - intros id. destruct (nlookup nm (cs_names (cget st c))) as [j|]; [destruct (Nat.eqb j i)|]; discriminate.
Qed.

(* ---- a created complex stores the registry-free canonical form ---- *)
Lemma create_ret ct st c auto name k extra children d id :
  snd (create ct st c auto name k extra children d) = CRet id true ->
  hget (heap (fst (create ct st c auto name k extra children d))) id
    = Some (mkObj c name k (k :: extra) true children d).
Proof.
  unfold create. destruct (nth_error ct c) as [ci|]; [|discriminate].
  destruct (c_fail ci); unfold alloc; cbn [fst snd]; try discriminate.
  intros E. injection E as <-. unfold register, cput. cbn [heap]. apply hget_new.
Qed.

Theorem canon_independent_of_registry ct c st es ss name prefix id :
  snd (cplx_call ct c st (Some es) (Some ss) name prefix) = CRet id true ->
  exists cn t rots o,
    Canon.identifiers_fresh (map fst es) ss = Ok (cn, t, rots) /\
    hget (heap (fst (cplx_call ct c st (Some es) (Some ss) name prefix))) id = Some o /\
    o_cls o = c /\ o_key o = KCplx cn /\ o_data o = DCplx es ss t /\ o_live o = true /\
    (forall y, In (KCplx y) (o_keys o) <-> y = cn \/ In y rots).
Proof.
  unfold cplx_call. destruct (nth_error ct c) as [ci|]; [|discriminate].
  destruct (resolve_name ct st c ci name prefix) as [nm|]; [|discriminate].
  destruct (negb (Nat.eqb (length es) (length ss))) eqn:EL; [discriminate|]. apply negb_false_iff, Nat.eqb_eq in EL.
  destruct (Nat.eqb (length (make_strand_table_list sPlus (map fst es))) 0) eqn:EN; [discriminate|]. apply Nat.eqb_neq in EN.
  destruct (rot_loop _ 0 (cs_canon (cget st c)) (map fst es) ss []) as [[ex cdict]|] eqn:ER; [|discriminate].
  pose proof ER as ER'. apply rot_loop_fresh in ER'; [|intros k []]. destruct ER' as [F1 F2].
  destruct ex as [[k0 e0]|].
  - (* early exit: never a creation *)
    destruct (sing_lookup (cget st c) nm (Some (KCplx k0))) eqn:E; cbn [snd]; try discriminate.
    exfalso. apply sing_fresh in E. apply (F2 k0 e0 eq_refl). apply E.
  - destruct (min_ckey cdict) as [cn|] eqn:EM; [|discriminate].
    destruct (cdict_get cn cdict) as [e|] eqn:EG; [|discriminate].
    destruct (sing_lookup (cget st c) nm (Some (KCplx cn))) eqn:E; cbn [snd]; try discriminate.
    intros H. pose proof (create_ret _ _ _ _ _ _ _ _ _ _ H) as Hg.
    assert (HL : length (map fst es) = length ss) by (rewrite map_length; exact EL).
    destruct (loop_is_identifiers_fresh _ _ _ _ _ _ HL EN ER EM EG) as [rots [IF Keys]].
    eexists cn, _, rots, _. split; [exact IF|]. split; [exact Hg|]. cbn [o_cls o_key o_data o_live o_keys].
    repeat split; try reflexivity.
    + intros [Hy|Hy]; [left; congruence|]. right. apply Keys. apply in_map_iff in Hy. destruct Hy as [[kk vv] [Ek Hin]].
      injection Ek as <-. apply in_map_iff. exists (kk, vv). auto.
    + intros [->|Hy]; [left; reflexivity|]. right. apply Keys in Hy. apply in_map_iff in Hy. destruct Hy as [[kk vv] [Ek Hin]].
      cbn in Ek. subst kk. apply in_map_iff. exists (y, vv). auto.
Qed.

Corollary created_canon_is_canon_T ct c st es ss name prefix id :
  snd (cplx_call ct c st (Some es) (Some ss) name prefix) = CRet id true ->
  exists o, hget (heap (fst (cplx_call ct c st (Some es) (Some ss) name prefix))) id = Some o /\
            canon_T (map fst es, ss) = Some (match o_key o with KCplx cn => cn | _ => ([], []) end).
Proof.
  intros H. destruct (canon_independent_of_registry _ _ _ _ _ _ _ _ H) as (cn & t & rots & o & IF & Hg & _ & Ek & _).
  exists o. split; [exact Hg|]. unfold canon_T. cbn [fst snd]. rewrite IF, Ek. reflexivity.
Qed.
