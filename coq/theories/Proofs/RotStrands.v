(* Strands of a sequence: split / join, non-empty strands, the strand table, and
   the shape of the pair table (row lengths = strand lengths). *)
From Coq Require Import List Arith ZArith Lia Bool NArith.
From DSD Require Import Base.Str Base.Errors Model.ComplexUtils Model.Rotation Dyck.Dyck
  Proofs.Mpt Proofs.Acc Proofs.Db Proofs.Assoc Proofs.C06 Proofs.RotLoc Proofs.RotScan
  Proofs.RotTree Proofs.RotPairs Proofs.RotOnce Proofs.RotOrbit.
Import ListNotations.

Lemma str_eqb_sym a b : str_eqb a b = str_eqb b a.
Proof.
  destruct (str_eqb a b) eqn:E1, (str_eqb b a) eqn:E2; try reflexivity.
  - apply str_eqb_iff in E1. subst b. rewrite (proj2 (str_eqb_iff a a) eq_refl) in E2. discriminate.
  - apply str_eqb_iff in E2. subst b. rewrite (proj2 (str_eqb_iff a a) eq_refl) in E1. discriminate.
Qed.

(* ---- split is the inverse of join on break-free strands ---- *)
Lemma splitS_bfree_app s0 : bfree s0 -> forall X,
  splitS (s0 ++ sPlus :: X) = s0 :: splitS X.
Proof.
  induction 1 as [|x s Hx _ IH]; intros X.
  - cbn [app splitS]. rewrite (proj2 (str_eqb_iff sPlus sPlus) eq_refl). reflexivity.
  - cbn [app splitS]. rewrite (neq_plus_eqb x Hx). rewrite IH. reflexivity.
Qed.

Lemma splitS_bfree_one s0 : bfree s0 -> splitS s0 = [s0].
Proof.
  induction 1 as [|x s Hx _ IH]; [reflexivity|].
  cbn [splitS]. rewrite (neq_plus_eqb x Hx), IH. reflexivity.
Qed.

Lemma splitS_joinS ss : ss <> [] -> Forall bfree ss -> splitS (joinS ss) = ss.
Proof.
  induction ss as [|s0 ss IH]; [congruence|]. intros _ H. inversion H; subst. destruct ss as [|s1 r].
  - apply splitS_bfree_one. assumption.
  - rewrite joinS_cons2, splitS_bfree_app by assumption. f_equal. apply IH; [discriminate|assumption].
Qed.

Lemma splitS_rotS seq : splitS (rotS seq) = rot_left (splitS seq).
Proof.
  rewrite <- (joinS_splitS seq) at 1.
  rewrite rotS_joinS by (apply splitS_nonnil || apply splitS_bfree).
  apply splitS_joinS; [apply rot_left_nonnil, splitS_nonnil|apply bfree_rot_left, splitS_bfree].
Qed.

(* ---- non-empty strands ---- *)
Definition NE (seq : list pstr) : Prop := Forall (fun s : list pstr => s <> []) (splitS seq).

Lemma NE_rotS seq : NE seq -> NE (rotS seq).
Proof.
  unfold NE. rewrite splitS_rotS. destruct (splitS seq) as [|s r]; [auto|].
  cbn [rot_left]. intros H. inversion H; subst. apply Forall_app. split; [assumption|].
  constructor; [assumption|constructor].
Qed.

Lemma NE_head seq : NE seq -> exists a r, seq = a :: r /\ a <> sPlus.
Proof.
  unfold NE. destruct seq as [|a r]; cbn [splitS]; intros H.
  - inversion H; subst. congruence.
  - exists a, r. split; [reflexivity|]. intros ->.
    rewrite (proj2 (str_eqb_iff sPlus sPlus) eq_refl) in H. inversion H; subst. congruence.
Qed.

(* ---- make_strand_table (groupby) = split without the empty pieces ---- *)
Definition nonnil (s : list pstr) : bool := match s with [] => false | _ => true end.
Definition pre (c : list pstr) (ss : list (list pstr)) : list (list pstr) :=
  match ss with [] => [c] | s :: r => (c ++ s) :: r end.

Lemma mst_filter seq : forall cur,
  mst_list_aux sPlus seq cur = filter nonnil (pre (rev cur) (splitS seq)).
Proof.
  induction seq as [|x r IH]; intros cur.
  - cbn [mst_list_aux splitS pre filter]. rewrite app_nil_r. destruct cur as [|c cur]; [reflexivity|].
    cbn [rev]. destruct (rev cur ++ [c]) eqn:E; [apply app_eq_nil in E; destruct E; discriminate|reflexivity].
  - cbn [mst_list_aux splitS]. rewrite (str_eqb_sym x sPlus). destruct (str_eqb sPlus x).
    + cbn [pre filter]. rewrite app_nil_r. rewrite (IH []). cbn [rev].
      assert (P : pre [] (splitS r) = splitS r).
      { destruct (splitS r) eqn:E; [exfalso; exact (splitS_nonnil r E)|reflexivity]. }
      rewrite P. destruct cur as [|c cur]; [reflexivity|].
      cbn [rev]. destruct (rev cur ++ [c]) eqn:E; [apply app_eq_nil in E; destruct E; discriminate|reflexivity].
    + rewrite IH. cbn [rev]. destruct (splitS r) as [|s ss] eqn:E; [exfalso; exact (splitS_nonnil r E)|].
      cbn [pre]. rewrite <- app_assoc. reflexivity.
Qed.

Theorem mst_splitS seq : NE seq -> make_strand_table_list sPlus seq = splitS seq.
Proof.
  unfold NE, make_strand_table_list. intros H. rewrite mst_filter. cbn [rev].
  assert (P : pre [] (splitS seq) = splitS seq).
  { destruct (splitS seq) eqn:E; [exfalso; exact (splitS_nonnil seq E)|reflexivity]. }
  rewrite P. clear P. induction H as [|s r Hs _ IH]; [reflexivity|].
  cbn [filter]. destruct s; [congruence|]. cbn [nonnil]. f_equal. exact IH.
Qed.

Theorem size_of_NE seq : NE seq -> size_of seq = S (nbS seq).
Proof. intros H. unfold size_of. rewrite mst_splitS by exact H. apply splitS_length. Qed.

Theorem stts_splitS seq : strand_table_to_sequence sPlus (splitS seq) = Ok seq.
Proof. rewrite stts_join by apply splitS_nonnil. f_equal. apply joinS_splitS. Qed.

(* ---- shapes: row lengths are strand lengths ---- *)
Fixpoint runs (b : list bool) : list nat :=
  match b with
  | [] => [0]
  | true :: r => 0 :: runs r
  | false :: r => match runs r with [] => [1] | k :: ks => S k :: ks end
  end.

Lemma runs_nonnil b : runs b <> [].
Proof. destruct b as [|[|] r]; cbn [runs]; try discriminate. destruct (runs r); discriminate. Qed.

Lemma splitS_runs seq : map (@length pstr) (splitS seq) = runs (map (str_eqb sPlus) seq).
Proof.
  induction seq as [|x r IH]; [reflexivity|]. cbn [splitS map runs].
  destruct (str_eqb sPlus x).
  - cbn [map length]. rewrite IH. reflexivity.
  - rewrite <- IH. destruct (splitS r) as [|s ss]; reflexivity.
Qed.

Definition isEB (e : entry) : bool := match e with EB => true | EP _ => false end.

Lemma appE_runs es : forall pre cur,
  map (@length (option loc)) (fst (appE (pre, cur) es) ++ [snd (appE (pre, cur) es)])
  = map (@length (option loc)) pre ++
    match runs (map isEB es) with k :: ks => (length cur + k) :: ks | [] => [length cur] end.
Proof.
  induction es as [|[|v] r IH]; intros pre cur; cbn [appE map isEB runs fst snd].
  - rewrite map_app. cbn [map]. rewrite Nat.add_0_r. reflexivity.
  - rewrite IH. rewrite map_app. cbn [map length]. rewrite <- app_assoc. cbn [app].
    rewrite Nat.add_0_r. destruct (runs (map isEB r)) eqn:E; [exfalso; exact (runs_nonnil _ E)|reflexivity].
  - rewrite IH. f_equal. rewrite app_length. cbn [length].
    destruct (runs (map isEB r)) eqn:E; [exfalso; exact (runs_nonnil _ E)|]. f_equal. lia.
Qed.

Lemma tableE_runs es : map (@length (option loc)) (tableE es) = runs (map isEB es).
Proof.
  unfold tableE. cbn zeta. rewrite appE_runs. cbn [map app length Nat.add].
  destruct (runs (map isEB es)) eqn:E; [exfalso; exact (runs_nonnil _ E)|reflexivity].
Qed.

Lemma isEB_ents d : forall p, map isEB (ents d p) = map isP (rc d).
Proof.
  induction d as [|r IH|r IH|i IHi r IHr]; intros p.
  - reflexivity.
  - rewrite rc_DU. cbn [ents map isEB]. rewrite IH. reflexivity.
  - rewrite rc_DB. cbn [ents map isEB]. rewrite IH. reflexivity.
  - rewrite rc_DP, ents_DP. cbn [map isEB]. rewrite !map_app. cbn [map isEB]. rewrite IHi, IHr. reflexivity.
Qed.

Theorem tab_shape seq d : aligned seq (rc d) ->
  map (@length pstr) (splitS seq) = map (@length (option loc)) (tab_of d).
Proof.
  intros Ha. rewrite splitS_runs, tab_of_tableE, tableE_runs, isEB_ents. f_equal. exact Ha.
Qed.

Lemma forallb_lengths {A B} (l1 : list (list A)) : forall (l2 : list (list B)),
  map (@length A) l1 = map (@length B) l2 ->
  forallb (fun xy => Nat.eqb (length (fst xy)) (length (snd xy))) (combine l1 l2) = true.
Proof.
  induction l1 as [|a l1 IH]; intros l2 H; [reflexivity|]. destruct l2 as [|b l2]; [discriminate|].
  cbn [map] in H. injection H as H1 H2. cbn [combine forallb fst snd].
  rewrite H1, Nat.eqb_refl. cbn [andb]. apply IH, H2.
Qed.

(* NE is the `nonempty_strands` guard of C06 *)
Lemma nonempty_strands_splitS seq : forall b,
  nonempty_strands sPlus seq b = true <->
  match splitS seq with
  | s :: ss => (b = false \/ s <> []) /\ Forall (fun t : list pstr => t <> []) ss
  | [] => False
  end.
Proof.
  induction seq as [|x r IH]; intros b.
  - cbn [nonempty_strands splitS]. destruct b; cbn [negb]; split.
    + discriminate.
    + intros [[H|H] _]; congruence.
    + auto.
    + reflexivity.
  - cbn [nonempty_strands splitS]. rewrite (str_eqb_sym x sPlus). destruct (str_eqb sPlus x).
    + rewrite andb_true_iff, (IH true).
      destruct (splitS r) as [|s ss] eqn:E; [exfalso; exact (splitS_nonnil r E)|].
      destruct b; cbn [negb]; split.
      * intros [H _]; discriminate.
      * intros [[H|H] _]; congruence.
      * intros [_ [[H|H] F]]; [discriminate|]. split; [auto|]. constructor; assumption.
      * intros [_ F]. inversion F; subst. split; [reflexivity|]. split; [right; assumption|assumption].
    + rewrite (IH false). destruct (splitS r) as [|s ss] eqn:E; [exfalso; exact (splitS_nonnil r E)|].
      split.
      * intros [_ F]. split; [right; discriminate|exact F].
      * intros [_ F]. split; [left; reflexivity|exact F].
Qed.

Theorem NE_iff_nonempty_strands seq : NE seq <-> nonempty_strands sPlus seq true = true.
Proof.
  rewrite nonempty_strands_splitS. unfold NE.
  destruct (splitS seq) as [|s ss] eqn:E; [exfalso; exact (splitS_nonnil seq E)|]. split.
  - intros F. inversion F; subst. split; [right; assumption|assumption].
  - intros [[H|H] F]; [discriminate|]. constructor; assumption.
Qed.
