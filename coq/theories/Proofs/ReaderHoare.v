(* Reader model, layer 4: a small program logic for reader programs under the session
   invariant RGood (registry invariant Inv + KInv), and the constructor calls of the
   reader as operations of that logic.

   Op P m Q : started in a good state satisfying P, the program m ends in a good state
   that extends the start state (roots only appended, old objects unchanged up to
   liveness); a result a satisfies Q a, an exception is never an interpreter-level
   fault kind. *)
From Coq Require Import List NArith ZArith Bool Arith Lia.
From DSD Require Import Base.Str Base.Errors Model.ComplexUtils Model.RegStr Model.ReaderStr Model.PyNum
  Model.Peg Model.Kernel Model.Heap Model.Registry Model.Reader Model.ReaderShape
  Proofs.RegHeap Proofs.RegInv Proofs.RegCalls Proofs.ReaderBasic Proofs.ReaderHeap Proofs.ReaderInv.
Import ListNotations.

Definition prefix {A} (l l' : list A) : Prop := exists t, l' = l ++ t.
Lemma prefix_refl {A} (l : list A) : prefix l l. Proof. exists []. rewrite app_nil_r. reflexivity. Qed.
Lemma prefix_trans {A} (a b c : list A) : prefix a b -> prefix b c -> prefix a c.
Proof. intros [t1 ->] [t2 ->]. exists (t1 ++ t2). rewrite app_assoc. reflexivity. Qed.
Lemma prefix_in {A} (a b : list A) x : prefix a b -> In x a -> In x b.
Proof. intros [t ->] H. apply in_or_app. left. exact H. Qed.
Lemma prefix_firstn {A} (a b : list A) : prefix a b -> firstn (length a) b = a.
Proof. intros [t ->]. rewrite firstn_app, Nat.sub_diag, firstn_all. cbn. apply app_nil_r. Qed.

Lemma in_firstn {A} (x : A) n l : In x (firstn n l) -> In x l.
Proof. intros H. rewrite <- (firstn_skipn n l). apply in_or_app. left. exact H. Qed.

Definition anyobj (o : obj) : Prop := True.
Lemma anyobj_kill : kill_closed anyobj. Proof. intros o _. exact I. Qed.

Definition data_at (h : list obj) (i : nat) : option odata := option_map o_data (hget h i).
Definition children_at (h : list obj) (i : nat) : option (list nat) := option_map o_children (hget h i).

Lemma data_at_ext P h h' j x : HExt P h h' -> data_at h j = Some x -> data_at h' j = Some x.
Proof.
  intros X. unfold data_at. destruct (hget h j) as [o|] eqn:E; [|discriminate].
  destruct (hx_old _ _ _ X j o E) as [o' [E' [->| ->]]]; rewrite E'; auto.
Qed.
Lemma children_at_ext P h h' j x : HExt P h h' -> children_at h j = Some x -> children_at h' j = Some x.
Proof.
  intros X. unfold children_at. destruct (hget h j) as [o|] eqn:E; [|discriminate].
  destruct (hx_old _ _ _ X j o E) as [o' [E' [->| ->]]]; rewrite E'; auto.
Qed.

Section Logic.
  Variable ct : ctable.
  Variables cd cs cc cm cr : nat.
  Hypothesis SO : slots_ok ct cd cs cc cm cr.
  Notation G := (g cd cs cc cm cr).
  Notation KI := (KInv cd cs cc cm cr).

  Record RGood (r : rstate) : Prop := mkRGood {
    rg_inv : Inv ct (r_st r);
    rg_kinv : KI (heap (r_st r))
  }.

  Record RExt (r r' : rstate) : Prop := mkRExt {
    re_roots : prefix (roots (r_st r)) (roots (r_st r'));
    re_heap : HExt anyobj (heap (r_st r)) (heap (r_st r'))
  }.

  Lemma rext_refl r : RExt r r.
  Proof. constructor; [apply prefix_refl | apply hext_refl]. Qed.
  Lemma rext_trans a b c : RExt a b -> RExt b c -> RExt a c.
  Proof.
    intros [A1 A2] [B1 B2]. constructor; [eapply prefix_trans; eauto | eapply hext_trans; eauto using anyobj_kill].
  Qed.

  (* ---- facts about objects that survive every extension ---- *)
  Definition Held (i : nat) (r : rstate) : Prop := In (Some i) (roots (r_st r)).
  Definition ClsAt (i c : nat) (r : rstate) : Prop := cls_at (heap (r_st r)) i = Some c.
  Definition DataAt (i : nat) (d : odata) (r : rstate) : Prop := data_at (heap (r_st r)) i = Some d.
  (* referenced by the running reader: directly, or as a child of a held object *)
  Definition Kept (j : nat) (r : rstate) : Prop :=
    Held j r \/ exists i ch, Held i r /\ children_at (heap (r_st r)) i = Some ch /\ In j ch.

  Definition Stable (F : rstate -> Prop) : Prop := forall r r', RExt r r' -> F r -> F r'.

  Lemma stable_held i : Stable (Held i).
  Proof. intros r r' [X _] H. eapply prefix_in; eauto. Qed.
  Lemma stable_cls i c : Stable (ClsAt i c).
  Proof. intros r r' [_ X] H. eapply cls_at_ext; eauto. Qed.
  Lemma stable_data i d : Stable (DataAt i d).
  Proof. intros r r' [_ X] H. eapply data_at_ext; eauto. Qed.
  Lemma stable_kept j : Stable (Kept j).
  Proof.
    intros r r' X [H|[i [ch [H1 [H2 H3]]]]]; [left; eapply stable_held; eauto|].
    right. exists i, ch. split; [eapply stable_held; eauto|]. split; [|exact H3].
    destruct X as [_ X]. eapply children_at_ext; eauto.
  Qed.
  Lemma stable_and F1 F2 : Stable F1 -> Stable F2 -> Stable (fun r => F1 r /\ F2 r).
  Proof. intros S1 S2 r r' X [H1 H2]. split; eauto. Qed.
  Lemma stable_true : Stable (fun _ => True). Proof. intros r r' _ _. exact I. Qed.
  Lemma stable_const (Q : Prop) : Stable (fun _ => Q). Proof. intros r r' _ H. exact H. Qed.
  Lemma stable_forall {A} (F : A -> rstate -> Prop) (l : list A) :
    (forall x, Stable (F x)) -> Stable (fun r => Forall (fun x => F x r) l).
  Proof. intros S r r' X H. eapply Forall_impl; [|exact H]. intros a Ha. eapply S; eauto. Qed.
  Lemma stable_forall2 {A B} (F : A -> B -> rstate -> Prop) (l : list A) (l' : list B) :
    (forall x y, Stable (F x y)) -> Stable (fun r => Forall2 (fun x y => F x y r) l l').
  Proof.
    intros S r r' X H. induction H; constructor; auto. eapply S; eauto.
  Qed.

  Lemma held_live i r : RGood r -> Held i r -> is_live (heap (r_st r)) i = true.
  Proof.
    intros [[_ H] _] Hi. apply In_nth_error in Hi. destruct Hi as [s Hs]. eapply (hk_roots _ H); eauto.
  Qed.

  Lemma kept_live j r : RGood r -> Kept j r -> is_live (heap (r_st r)) j = true.
  Proof.
    intros GD [H|[i [ch [H1 [H2 H3]]]]]; [apply held_live; auto|].
    pose proof (held_live i r GD H1) as L. destruct GD as [[_ H] _].
    unfold children_at in H2. destruct (hget (heap (r_st r)) i) as [o|] eqn:E; [|discriminate].
    injection H2 as <-. eapply (hk_child _ H i o); [|exact H3].
    split; [exact E|]. unfold is_live in L. rewrite E in L. exact L.
  Qed.

  (* ---- triples ---- *)
  Definition Op {A} (P : rstate -> Prop) (m : M A) (Q : A -> rstate -> Prop) : Prop :=
    forall r, RGood r -> P r ->
      match m r with
      | (r', Ok a) => RGood r' /\ RExt r r' /\ Q a r'
      | (r', Err k) => RGood r' /\ RExt r r' /\ is_fault k = false
      end.

  Lemma op_ret {A} (P : rstate -> Prop) (a : A) (Q : A -> rstate -> Prop) : (forall r, P r -> Q a r) -> Op P (ret a) Q.
  Proof. intros H r GD Pr. cbn. auto using rext_refl. Qed.

  Lemma op_fail {A} (P : rstate -> Prop) k (Q : A -> rstate -> Prop) : is_fault k = false -> Op P (fail k) Q.
  Proof. intros H r GD Pr. cbn. auto using rext_refl. Qed.

  Lemma op_lift {A} (P : rstate -> Prop) (x : res A) (Q : A -> rstate -> Prop) :
    (forall a, x = Ok a -> forall r, P r -> Q a r) -> (forall k, x = Err k -> is_fault k = false) ->
    Op P (lift x) Q.
  Proof. intros H1 H2 r GD Pr. unfold lift. destruct x as [a|k]; auto using rext_refl. Qed.

  Lemma op_bind {A B} (P : rstate -> Prop) (m : M A) (f : A -> M B) Q1 Q2 :
    Op P m Q1 -> Stable P -> (forall a, Op (fun r => P r /\ Q1 a r) (f a) Q2) -> Op P (bind m f) Q2.
  Proof.
    intros Hm SP Hf r GD Pr. unfold bind. specialize (Hm r GD Pr).
    destruct (m r) as [r1 [a|k]]; [|exact Hm]. destruct Hm as [G1 [X1 Q1a]].
    specialize (Hf a r1 G1 (conj (SP _ _ X1 Pr) Q1a)).
    destruct (f a r1) as [r2 [b|k]]; destruct Hf as [G2 [X2 R2]]; (split; [exact G2|]; split; [eapply rext_trans; eauto | exact R2]).
  Qed.

  Lemma op_conseq {A} (P P' : rstate -> Prop) (m : M A) (Q Q' : A -> rstate -> Prop) :
    Op P m Q -> (forall r, RGood r -> P' r -> P r) -> (forall a r, RGood r -> Q a r -> Q' a r) -> Op P' m Q'.
  Proof.
    intros H HP HQ r GD Pr. specialize (H r GD (HP r GD Pr)).
    destruct (m r) as [r1 [a|k]]; [|exact H]. destruct H as [G1 [X1 Qa]]. auto.
  Qed.

  Lemma op_catch {A} (P : rstate -> Prop) (m : M A) p h Q : Op P m Q -> Stable P -> Op P h Q -> Op P (catch m p h) Q.
  Proof.
    intros Hm SP Hh r GD Pr. unfold catch. specialize (Hm r GD Pr).
    destruct (m r) as [r1 [a|k]]; [exact Hm|]. destruct Hm as [G1 [X1 NF]].
    destruct (p k); [|auto].
    specialize (Hh r1 G1 (SP _ _ X1 Pr)).
    destruct (h r1) as [r2 [b|k2]]; destruct Hh as [G2 [X2 R2]]; (split; [exact G2|]; split; [eapply rext_trans; eauto | exact R2]).
  Qed.

  Lemma op_mapM {A B} (P : rstate -> Prop) (f : A -> M B) (Qx : A -> B -> rstate -> Prop) l :
    (forall x, In x l -> Op P (f x) (Qx x)) -> Stable P -> (forall x y, Stable (Qx x y)) ->
    Op P (mapM f l) (fun ys r => Forall2 (fun x y => Qx x y r) l ys).
  Proof.
    intros Hf SP SQ. induction l as [|x l IH]; cbn [mapM].
    - apply op_ret. intros r _. constructor.
    - eapply op_bind; [apply Hf; left; reflexivity | exact SP |]. intros y.
      eapply op_bind; [eapply op_conseq; [apply IH; intros; apply Hf; right; assumption | intros r _ [H _]; exact H | intros a r _ H; exact H]| |].
      + apply stable_and; [exact SP | apply SQ].
      + intros ys. apply op_ret. intros r [[_ Hy] Hys]. constructor; assumption.
  Qed.

  Lemma op_get_state (P : rstate -> Prop) : Op P get_state (fun st r => P r).
  Proof. intros r GD Pr. cbn. auto using rext_refl. Qed.
  Lemma op_self (P : rstate -> Prop) : Op P (fun r => (r, Ok r)) (fun x r => x = r /\ P r).
  Proof. intros r GD Pr. cbn. auto using rext_refl. Qed.
  Lemma op_nroots (P : rstate -> Prop) : Op P nroots (fun n r => n = length (roots (r_st r)) /\ P r).
  Proof. intros r GD Pr. cbn. auto using rext_refl. Qed.

  Lemma op_set_seq (P : rstate -> Prop) i s : Op P (set_seq i s) (fun _ r => True).
  Proof. intros r [I1 K1] Pr. cbn. split; [constructor; assumption|]. split; [constructor; [apply prefix_refl | apply hext_refl] | exact I]. Qed.
  Lemma op_set_conc (P : rstate -> Prop) i s : Op P (set_conc i s) (fun _ r => True).
  Proof. intros r [I1 K1] Pr. cbn. split; [constructor; assumption|]. split; [constructor; [apply prefix_refl | apply hext_refl] | exact I]. Qed.
  Lemma op_set_rate (P : rstate -> Prop) i s : Op P (set_rate i s) (fun _ r => True).
  Proof. intros r [I1 K1] Pr. cbn. split; [constructor; assumption|]. split; [constructor; [apply prefix_refl | apply hext_refl] | exact I]. Qed.

  (* ---- holding and releasing references ---- *)
  Lemma inv_hold st i : Inv ct st -> is_live (heap st) i = true -> Inv ct (hold st i).
  Proof.
    intros [R H] L. split.
    - destruct R as [R1 R2 R3]. constructor; [exact R1 | exact R2 | exact R3].
    - destruct H as [H1 H2 H3]. constructor; [|exact H2 | exact H3].
      intros s j Hs. unfold hold in Hs. cbn [roots] in Hs.
      destruct (Nat.lt_ge_cases s (length (roots st))) as [Lt|Ge].
      + rewrite nth_error_app1 in Hs by exact Lt. apply (H1 s j Hs).
      + rewrite nth_error_app2 in Hs by exact Ge. destruct (s - length (roots st)) as [|[|n]]; cbn in Hs; try discriminate.
        injection Hs as <-. exact L.
  Qed.

  Lemma inv_cut_roots st n keep :
    Inv ct st -> (forall i, In i keep -> is_live (heap st) i = true) -> Inv ct (cut_roots st n keep).
  Proof.
    intros [R H] L. split.
    - destruct R as [R1 R2 R3]. constructor; [exact R1 | exact R2 | exact R3].
    - destruct H as [H1 H2 H3]. constructor; [|exact H2 | exact H3].
      intros s j Hs. unfold cut_roots in Hs. cbn [roots] in Hs. apply nth_error_In in Hs.
      apply in_app_or in Hs. destruct Hs as [Hs|Hs].
      + apply in_firstn in Hs. apply In_nth_error in Hs. destruct Hs as [s2 Hs2]. apply (H1 s2 j Hs2).
      + apply in_map_iff in Hs. destruct Hs as [x [E Hx]]. injection E as <-. apply L. exact Hx.
  Qed.

  (* a call: the result is held from now on *)
  Definition RetQ (c : nat) (i : nat) (r : rstate) : Prop := Held i r /\ ClsAt i c r.

  Lemma stable_retq c i : Stable (RetQ c i).
  Proof. apply stable_and; [apply stable_held | apply stable_cls]. Qed.

  Lemma op_call (P : rstate -> Prop) c (f : state -> state * cout) :
    (forall r, RGood r -> P r ->
       CallOK ct (f (r_st r)) /\ KI (heap (fst (f (r_st r)))) /\ RetCls c (f (r_st r)) /\ NoFault (f (r_st r))) ->
    (forall st, SExt anyobj st (fst (f st))) ->
    Op P (call f) (RetQ c).
  Proof.
    intros Hf Hx r GD Pr. destruct (Hf r GD Pr) as [[I1 L1] [K1 [R1 F1]]]. destruct (Hx (r_st r)) as [X1 X2].
    unfold call. destruct (f (r_st r)) as [st' [id b|k e]]; cbn [fst snd] in *.
    - specialize (L1 id b eq_refl). split; [|split].
      + constructor; cbn [r_st with_st hold heap]; [apply inv_hold; assumption | exact K1].
      + constructor; cbn [r_st with_st hold heap roots]; [exists [Some id]; rewrite X1; reflexivity | exact X2].
      + split.
        * unfold Held. cbn [r_st with_st hold roots]. apply in_or_app. right. left. reflexivity.
        * unfold ClsAt. cbn [r_st with_st hold heap]. destruct (R1 id b eq_refl) as [ob [Ho Hc]]. cbn [fst] in Ho.
          unfold cls_at. rewrite Ho. cbn. rewrite Hc. reflexivity.
    - split; [|split].
      + constructor; cbn [r_st with_st]; assumption.
      + constructor; cbn [r_st with_st]; [rewrite X1; apply prefix_refl | exact X2].
      + eapply F1; reflexivity.
  Qed.

  (* dropping the references taken since r0, except `keep` *)
  Lemma release_good r0 r1 keep :
    RGood r1 -> RExt r0 r1 -> (forall i, In i keep -> is_live (heap (r_st r1)) i = true) ->
    let r2 := fst (release (length (roots (r_st r0))) keep r1) in
    RGood r2 /\ roots (r_st r2) = roots (r_st r0) ++ map Some keep /\
    HExt anyobj (heap (r_st r0)) (heap (r_st r2)).
  Proof.
    intros [I1 K1] [X1 X2] L. unfold release. cbn [fst r_st with_st].
    split; [|split].
    - constructor; cbn [r_st with_st].
      + apply inv_collect. apply inv_cut_roots; assumption.
      + apply kinv_collect. exact K1.
    - cbn. rewrite (prefix_firstn _ _ X1). reflexivity.
    - eapply hext_trans; [apply anyobj_kill | exact X2 |]. apply (hext_collect anyobj (cut_roots (r_st r1) _ keep)).
  Qed.
End Logic.
