(* C13: the document theorem on the regenerated PIL table, and model-level
   determinism / statelessness. *)
From Coq Require Import List NArith Bool Arith Lia.
From DSD Require Import Base.Str Base.Errors Base.Val Model.Peg Model.DispatchPeg
  Proofs.PegMono Proofs.PegRules Proofs.PegStd Proofs.PegDoc.
From DSDGen Require Import PilGrammar.
Import ListNotations.

(* ---- the shape of the table, checked by computation on the regenerated term ---- *)
Definition pil_ws : list chr := pil_cs0.
Definition pil_c := 2.        (* Suppress(pythonStyleComment) *)
Definition pil_stmt := 8.     (* the ordered choice of the 13 statement alternatives *)

Lemma pil_comment_ok : comment_ok pil_nodes pil_c pil_ws = true.
Proof. vm_compute. reflexivity. Qed.
Lemma pil_root_shape : groot pil_grammar = 0 /\
  nth_error pil_nodes 0 = Some (mkNode KAnd [1; 4; 7; 303] true pil_ws [pil_c] true []).
Proof. split; vm_compute; reflexivity. Qed.
Lemma pil_ss : nth_error pil_nodes 1 = Some (mkNode KStringStart [] true pil_ws [pil_c] true []).
Proof. vm_compute. reflexivity. Qed.
Lemma pil_zm : nth_error pil_nodes 4 = Some (mkNode (KMany false) [5] true pil_ws [pil_c] true []).
Proof. vm_compute. reflexivity. Qed.
Lemma pil_sl : nth_error pil_nodes 5 = Some (mkNode KSuppress [6] true pil_ws [pil_c] true []).
Proof. vm_compute. reflexivity. Qed.
Lemma pil_le : exists cp, nth_error pil_nodes 6 = Some (mkNode KLineEnd [] true pil_ws [pil_c] cp []).
Proof. exists true. vm_compute. reflexivity. Qed.
Lemma pil_om : nth_error pil_nodes 7 = Some (mkNode (KMany true) [pil_stmt] true pil_ws [pil_c] false []).
Proof. vm_compute. reflexivity. Qed.
Lemma pil_se : nth_error pil_nodes 303 = Some (mkNode KStringEnd [] true pil_ws [pil_c] true []).
Proof. vm_compute. reflexivity. Qed.
Lemma pil_stmt_past full : evals pil_nodes full pil_stmt true Past PFail.
Proof. apply (evals_of_run _ _ 40); [vm_compute; reflexivity|discriminate]. Qed.

Definition pil_blank_line := blank_line pil_ws.
Definition pil_stmt_ok := stmt_ok pil_nodes pil_stmt pil_ws.
Definition pil_item_ok := item_ok pil_nodes pil_stmt pil_ws.
Definition pil_body_ok := body_ok pil_nodes pil_stmt pil_ws.
Definition pil_tail_ok (tl : pstr) : Prop := std_pre pil_ws tl = [].

Theorem pil_document_evals pls its tl :
  Forall pil_blank_line pls -> Forall pil_item_ok its -> its <> [] -> pil_tail_ok tl ->
  let D := concat pls ++ flatten its ++ tl in
  evals pil_nodes D 0 true (At D) (POk Past (flat_map it_toks its)).
Proof.
  exact (document_concat_gen pil_nodes 0 pil_c 1 4 5 6 7 pil_stmt 303 pil_ws false
           pil_comment_ok (proj2 pil_root_shape) pil_ss pil_zm pil_sl pil_le pil_om pil_se pil_stmt_past pls its tl).
Qed.

Definition pil_items_ok := items_ok pil_nodes pil_stmt pil_ws.
Theorem pil_document_items_evals pls its tl :
  Forall pil_blank_line pls -> pil_items_ok its tl -> its <> [] -> pil_tail_ok tl ->
  let D := concat pls ++ flatten its ++ tl in
  evals pil_nodes D 0 true (At D) (POk Past (flat_map it_toks its)).
Proof.
  exact (document_concat_items pil_nodes 0 pil_c 1 4 5 6 7 pil_stmt 303 pil_ws false
           pil_comment_ok (proj2 pil_root_shape) pil_ss pil_zm pil_sl pil_le pil_om pil_se pil_stmt_past pls its tl).
Qed.

Theorem pil_document_reject_first_evals pls b y :
  Forall pil_blank_line pls -> blanks pil_ws b -> stmt_start pil_ws y ->
  (forall full b', blanks pil_ws b' -> evals pil_nodes full pil_stmt true (At (b' ++ y)) PFail) ->
  let D := concat pls ++ b ++ y in
  evals pil_nodes D 0 true (At D) PFail.
Proof.
  exact (document_reject_first pil_nodes 0 pil_c 1 4 5 6 7 pil_stmt 303 pil_ws false
           pil_comment_ok (proj2 pil_root_shape) pil_ss pil_zm pil_sl pil_le pil_om pls b y).
Qed.

(* ---- tabs ---- *)
Definition no_tab (s : pstr) : Prop := forallb (fun c => negb (N.eqb c 9%N)) s = true.
Lemma expandtabs_from_no_tab s : no_tab s -> forall col, expandtabs_from col s = s.
Proof.
  unfold no_tab. induction s as [|c s IH]; intros H col; cbn; [reflexivity|].
  cbn in H. apply andb_prop in H as [Hc H]. destruct (N.eqb c 9); [discriminate|].
  destruct (N.eqb c 10 || N.eqb c 13); rewrite (IH H); reflexivity.
Qed.
Lemma expandtabs_no_tab s : no_tab s -> expandtabs s = s.
Proof. intros H. apply expandtabs_from_no_tab. exact H. Qed.

Definition vals (toks : list tok) : val := VList (map val_of_tok toks).

Lemma evals_parse_fuel G s r :
  no_tab s -> evals (gnodes G) s (groot G) true (At s) r ->
  exists f0, forall f, f0 <= f -> parse_string_fuel G f s = r.
Proof.
  intros Hs [f0 H]. exists f0. intros f Hf. unfold parse_string_fuel.
  rewrite (expandtabs_no_tab s Hs). apply H. exact Hf.
Qed.

Theorem pil_document_concat pls its tl :
  Forall pil_blank_line pls -> Forall pil_item_ok its -> its <> [] -> pil_tail_ok tl ->
  let D := concat pls ++ flatten its ++ tl in
  no_tab D ->
  exists f0, forall f, f0 <= f -> parse_pil_fuel f D = vals (flat_map it_toks its).
Proof.
  intros Hp Hi Hne Ht D HD.
  destruct (evals_parse_fuel pil_grammar D _ HD (pil_document_evals pls its tl Hp Hi Hne Ht)) as [f0 H].
  exists f0. intros f Hf. unfold parse_pil_fuel. rewrite (H f Hf). reflexivity.
Qed.

(* a document whose first statement the statement node refuses raises ParseException *)
Theorem pil_document_reject pls b y :
  Forall pil_blank_line pls -> blanks pil_ws b -> stmt_start pil_ws y ->
  (forall full b', blanks pil_ws b' -> evals pil_nodes full pil_stmt true (At (b' ++ y)) PFail) ->
  let D := concat pls ++ b ++ y in
  no_tab D ->
  exists f0, forall f, f0 <= f -> parse_pil_fuel f D = err eParse.
Proof.
  intros Hp Hb Hy Hf D HD.
  destruct (evals_parse_fuel pil_grammar D _ HD (pil_document_reject_first_evals pls b y Hp Hb Hy Hf)) as [f0 H].
  exists f0. intros f Hle. unfold parse_pil_fuel. rewrite (H f Hle). reflexivity.
Qed.

(* one statement (a body followed by a statement end that reaches the end of the input) *)
Theorem pil_statement_parse b y E t :
  blanks pil_ws b -> stmt_start pil_ws y -> pil_body_ok y t -> stmt_end pil_ws E [] ->
  no_tab (b ++ y ++ E) ->
  exists f0, forall f, f0 <= f -> parse_pil_fuel f (b ++ y ++ E) = vals t.
Proof.
  intros Hb Hy Hok HE Hnt.
  pose proof (pil_document_items_evals [] [mkItem b (y ++ E) t] []) as H. cbn in H.
  rewrite !app_nil_r in H.
  assert (Hits : pil_items_ok [mkItem b (y ++ E) t] []).
  { cbn. split; [split; [exact Hb|]|split; [|exact I]].
    - destruct y as [|d y]; [destruct Hy|]. exact Hy.
    - intros full b' Hb'. cbn. rewrite <- app_assoc. apply Hok; assumption. }
  specialize (H (Forall_nil _) Hits ltac:(discriminate) eq_refl).
  assert (ED : b ++ y ++ E = b ++ (y ++ E)) by reflexivity.
  destruct (evals_parse_fuel pil_grammar _ _ Hnt H) as [f0 Hf]. exists f0. intros f Hle.
  unfold parse_pil_fuel. rewrite (Hf f Hle). unfold vals. cbn. rewrite ?app_nil_r. reflexivity.
Qed.

(* a single statement is a document: the document of the statements is the
   concatenation of the one-statement documents *)
Corollary pil_document_is_concat_of_statements its :
  Forall pil_item_ok its -> its <> [] -> no_tab (flatten its) ->
  Forall (fun it => no_tab (it_blanks it ++ it_text it)) its ->
  exists f0, forall f, f0 <= f ->
    parse_pil_fuel f (flatten its) =
    VList (flat_map (fun it => match parse_pil_fuel f (it_blanks it ++ it_text it) with VList l => l | _ => [] end) its).
Proof.
  intros Hi Hne HD Hall.
  assert (Hdoc : exists f0, forall f, f0 <= f -> parse_pil_fuel f (flatten its) = vals (flat_map it_toks its)).
  { pose proof (pil_document_concat [] its [] (Forall_nil _) Hi Hne eq_refl) as H. cbn in H.
    rewrite app_nil_r in H. apply H. exact HD. }
  assert (Heach : exists f0, forall f, f0 <= f -> Forall (fun it =>
            parse_pil_fuel f (it_blanks it ++ it_text it) = vals (it_toks it)) its).
  { clear Hdoc Hne HD. induction its as [|it its IH]; [exists 0; intros; constructor|].
    inversion Hi as [|? ? Hit Hi']; subst. inversion Hall as [|? ? Hnt Hall']; subst.
    destruct (IH Hi' Hall') as [a Ha].
    pose proof (pil_document_concat [] [it] [] (Forall_nil _) (Forall_cons _ Hit (Forall_nil _)) ltac:(discriminate) eq_refl) as H.
    cbn in H. rewrite !app_nil_r in H. destruct (H Hnt) as [b Hb].
    exists (Nat.max a b). intros f Hf. constructor; [apply Hb; lia|apply Ha; lia]. }
  destruct Hdoc as [a Ha], Heach as [b Hb]. exists (Nat.max a b). intros f Hf.
  rewrite (Ha f) by lia. specialize (Hb f ltac:(lia)). unfold vals. f_equal.
  clear Ha Hi Hne HD Hall. induction its as [|it its IH]; [reflexivity|].
  inversion Hb as [|? ? H1 H2]; subst. cbn [flat_map]. rewrite map_app, H1, (IH H2). reflexivity.
Qed.

(* ---- determinism / statelessness at model level ---- *)
(* the result is a function of the table and the text: two tables with the same
   nodes and root give the same answer on every text (no hidden state) *)
Lemma parse_function_of_table_and_text G1 G2 text :
  gnodes G1 = gnodes G2 -> groot G1 = groot G2 -> parse_string G1 text = parse_string G2 text.
Proof. destruct G1, G2; cbn; intros -> ->; reflexivity. Qed.

(* once the fuel suffices the answer no longer depends on it *)
Lemma parse_fuel_irrelevant G text f f' :
  parse_string_fuel G f text <> PFuel -> f <= f' -> parse_string_fuel G f' text = parse_string_fuel G f text.
Proof. intros H Hf. unfold parse_string_fuel in *. eapply parse_more_fuel; eauto. Qed.

(* a file is its content: parse_pil_file(path) reads the text and parses it *)
Definition parse_pil_file (content : pstr) : val := parse_pil content.
Lemma parse_file_eq_string content : parse_pil_file content = parse_pil content.
Proof. reflexivity. Qed.

(* ---- concrete layouts meeting the abstract layout predicates ---- *)
Lemma pil_blank_line_plain b : blanks pil_ws b -> pil_blank_line (b ++ [NL]).
Proof. apply (blank_line_plain pil_nodes pil_c pil_ws pil_comment_ok). Qed.
Lemma pil_blank_line_comment b cm : blanks pil_ws b -> no_nl cm -> pil_blank_line (b ++ HASH :: cm ++ [NL]).
Proof. apply (blank_line_comment pil_nodes pil_c pil_ws pil_comment_ok). Qed.
Lemma pil_tail_blanks b : blanks pil_ws b -> pil_tail_ok b.
Proof. intros H. unfold pil_tail_ok. rewrite <- (app_nil_r b), (std_pre_blanks pil_ws b [] H). reflexivity. Qed.
Lemma pil_tail_comment b cm : blanks pil_ws b -> no_nl cm -> pil_tail_ok (b ++ HASH :: cm).
Proof.
  intros H Hc. unfold pil_tail_ok. rewrite (std_pre_blanks pil_ws b _ H).
  apply (std_pre_comment_eof pil_nodes pil_c pil_ws pil_comment_ok). exact Hc.
Qed.
(* a statement end that reaches the end of the input: a line end and blank lines ... *)
Lemma pil_stmt_end_lines l ls : pil_blank_line l -> Forall pil_blank_line ls -> stmt_end pil_ws (l ++ concat ls) [].
Proof. intros Hl Hls. left. exists l, ls. repeat split; assumption. Qed.
(* ... or no line end at all *)
Lemma pil_stmt_end_eof E : pil_tail_ok E -> stmt_end pil_ws E [].
Proof. intros H. right. split; [reflexivity|exact H]. Qed.
