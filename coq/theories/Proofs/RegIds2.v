(* Counters, exact form (C01 (e)): one step moves at most the counter of the class addressed,
   by exactly +1 from the value the class sees, and only on `Created` / a failing user constructor. *)
From Coq Require Import List NArith ZArith Bool Arith Lia.
From DSD Require Import Base.Str Base.Errors Model.ComplexUtils Model.RegStr Model.Heap Model.Registry
  Proofs.RegHeap Proofs.RegInv Proofs.RegCalls Proofs.RegExt Proofs.RegC04 Proofs.RegStep Proofs.RegIds.
Import ListNotations.

Definition IdsOne (ct : ctable) (c : nat) (st s : state) : Prop :=
  forall b, cs_id (cget s b) = cs_id (cget st b) \/
            (b = c /\ exists z, class_id ct st c = Some z /\ cs_id (cget s b) = Some (z + 1)%Z).

Lemma idsone_same ct c st s : IdsSame st s -> IdsOne ct c st s.
Proof. intros H b. left. apply H. Qed.

Lemma eff_id_same ct st s f : IdsSame st s -> forall b, eff_id f ct s b = eff_id f ct st b.
Proof.
  intros H. induction f as [|f IH]; intros b; [reflexivity|]. cbn [eff_id]. rewrite (H b).
  destruct (cs_id (cget st b)); [reflexivity|]. destruct (nth_error ct b) as [ci|]; [|reflexivity].
  destruct (c_parent ci); [apply IH | reflexivity].
Qed.

Lemma class_id_same ct st s c : IdsSame st s -> class_id ct s c = class_id ct st c.
Proof. intros H. apply eff_id_same. exact H. Qed.

Lemma idsone_after_same ct c st s1 s2 : IdsSame st s1 -> IdsOne ct c s1 s2 -> IdsOne ct c st s2.
Proof.
  intros A B b. destruct (B b) as [E|[-> [z [Ez E]]]]; [left; rewrite E; apply A|].
  right. split; [reflexivity|]. exists z. rewrite <- (class_id_same ct st s1 c A). auto.
Qed.

Lemma idsone_then_same ct c st s1 s2 : IdsOne ct c st s1 -> IdsSame s1 s2 -> IdsOne ct c st s2.
Proof. intros A B b. rewrite (B b). apply A. Qed.

Lemma idsone_create ct st c auto name k extra children d :
  IdsOne ct c st (fst (create ct st c auto name k extra children d)).
Proof.
  unfold create. destruct (nth_error ct c) as [ci|]; [|apply idsone_same, ids_refl].
  set (st1 := if auto then bump_id ct st c else st).
  assert (B : IdsOne ct c st st1).
  { unfold st1. destruct auto; [|apply idsone_same, ids_refl]. unfold bump_id.
    destruct (class_id ct st c) as [z|] eqn:Ez; [|apply idsone_same, ids_refl].
    intros b. unfold set_id. destruct (Nat.eq_dec c b) as [<-|Db]; [|left; rewrite cget_cput_other by exact Db; reflexivity].
    destruct (Nat.lt_ge_cases c (length (classes st))) as [L|L].
    - right. split; [reflexivity|]. exists z. split; [exact Ez|]. rewrite cget_cput_same by exact L. reflexivity.
    - left. unfold cget, cput. cbn. rewrite upd_oob by exact L. reflexivity. }
  destruct (c_fail ci); [|apply idsone_same, ids_refl|]; unfold alloc; cbn [fst].
  - eapply idsone_then_same; [exact B|]. unfold register. apply (ids_cput_same (mkState _ _ _)). reflexivity.
  - eapply idsone_then_same; [exact B|]. eapply ids_trans; [|apply ids_collect].
    unfold register_extra. apply (ids_cput_same (mkState _ _ _)). reflexivity.
Qed.

Lemma idsone_tail ct st c nm k auto extra children d :
  IdsOne ct c st (fst (match sing_lookup (cget st c) nm (Some k) with
                       | LFound o => (st, CRet o false)
                       | LRaise e => (st, CErr eSingleton e)
                       | LFresh => create ct st c auto nm k extra children d
                       end)).
Proof. destruct (sing_lookup _ _ _); try apply idsone_same, ids_refl. apply idsone_create. Qed.

Theorem idsone_dom_call fuel ct c st name len prefix dtype :
  IdsOne ct c st (fst (dom_call fuel ct c st name len prefix dtype)).
Proof.
  destruct fuel as [|f]; [apply idsone_same, ids_refl|]. cbn [dom_call]. unfold dom_body.
  destruct (nth_error ct c); [|apply idsone_same, ids_refl].
  destruct (resolve_name _ _ _ _ _ _) as [nm|]; [|apply idsone_same, ids_refl].
  destruct (dom_len1 _ _ _) as [len1|]; [|apply idsone_same, ids_refl]. destruct (negb _); [apply idsone_same, ids_refl|].
  set (rec := fun st' n l => dom_call f ct c st' (Some n) l None None).
  assert (HR : RecIds rec) by (intros s n l; apply ids_dom_call; left; discriminate).
  pose proof (ids_dom_nested rec st nm len1 HR) as N.
  destruct (dom_nested rec st nm len1) as [st1 rl]. cbn [fst] in *. destruct rl as [len2|]; [|apply idsone_same; exact N].
  eapply idsone_after_same; [exact N|]. unfold dom_finish. destruct len2 as [l|]; cbn [option_map].
  - apply idsone_tail.
  - destruct (sing_lookup _ _ _); apply idsone_same, ids_refl.
Qed.

Theorem idsone_cplx_call ct c st seq sst name prefix : IdsOne ct c st (fst (cplx_call ct c st seq sst name prefix)).
Proof.
  unfold cplx_call. destruct (nth_error ct c); [|apply idsone_same, ids_refl]. destruct seq as [es|].
  - destruct (resolve_name _ _ _ _ _ _); [|apply idsone_same, ids_refl]. destruct sst; [|apply idsone_same, ids_refl].
    destruct (negb _); [apply idsone_same, ids_refl|]. destruct (Nat.eqb _ 0); [apply idsone_same, ids_refl|].
    destruct (rot_loop _ _ _ _ _ _) as [[ex cdict]|]; [|apply idsone_same, ids_refl].
    match goal with |- IdsOne _ _ _ (fst (match ?y with _ => _ end)) => destruct y as [[cn e]|] end; [|apply idsone_same, ids_refl].
    apply idsone_tail.
  - destruct name; [|apply idsone_same, ids_refl]. destruct (sing_lookup _ _ _); apply idsone_same, ids_refl.
Qed.

Theorem idsone_strand_call ct c st seq name prefix : IdsOne ct c st (fst (strand_call ct c st seq name prefix)).
Proof.
  unfold strand_call. destruct (nth_error ct c); [|apply idsone_same, ids_refl]. destruct seq as [es|].
  - destruct (existsb _ _); [apply idsone_same, ids_refl|]. destruct (resolve_name _ _ _ _ _ _); [|apply idsone_same, ids_refl].
    apply idsone_tail.
  - destruct name; [|apply idsone_same, ids_refl]. destruct (sing_lookup _ _ _); apply idsone_same, ids_refl.
Qed.

Lemma set_turns_classes st i v : classes (fst (set_turns st i v)) = classes st.
Proof.
  unfold set_turns. destruct (hget (heap st) i) as [o|]; [|reflexivity]. destruct (o_data o); try reflexivity.
  - match goal with |- context [if ?b then _ else _] => destruct b end; [reflexivity|].
    destruct (rot_n _ seq sst) as [[es' ss']|]; reflexivity.
  - match goal with |- context [if ?b then _ else _] => destruct b end; reflexivity.
Qed.

(* whether an outcome involves a constructed object *)
Definition constructed (o : out) : bool :=
  match o with
  | Created _ => true
  | Raised k _ => str_eqb k eUserFail
  | _ => false
  end.

(* C01 (e), exact: *)
Theorem counters_exact ct st o c :
  let s' := fst (step ct st o) in
  cs_id (cget s' c) = cs_id (cget st c) \/
  (exists z, class_id ct st c = Some z /\ cs_id (cget s' c) = Some (z + 1)%Z /\
             constructed (snd (step ct st o)) = true).
Proof.
  cbn zeta.
  (* first: at most +1 on the class addressed *)
  assert (One : exists a, IdsOne ct a st (fst (step ct st o))).
  { destruct o; cbn [step].
    - exists cls. destruct (kind_is ct cls KindD); [|apply idsone_same, ids_refl].
      eapply idsone_then_same; [apply idsone_dom_call | apply ids_finish].
    - exists cls. destruct (kind_is ct cls KindC); [|apply idsone_same, ids_refl].
      destruct (resolve_elems st seq); [|apply idsone_same, ids_refl].
      eapply idsone_then_same; [apply idsone_cplx_call | apply ids_finish].
    - exists cls. destruct (kind_is ct cls KindS); [|apply idsone_same, ids_refl].
      destruct (resolve_elems st seq); [|apply idsone_same, ids_refl].
      eapply idsone_then_same; [apply idsone_strand_call | apply ids_finish].
    - exists cls. apply idsone_same. destruct (kind_is ct cls KindM); [|apply ids_refl].
      destruct members as [l|]; [destruct (resolve_slots st l); [|apply ids_refl]|];
        (eapply ids_trans; [apply ids_macro_call | apply ids_finish]).
    - exists cls. apply idsone_same. destruct (kind_is ct cls KindR); [|apply ids_refl]. destruct rp as [[r p]|].
      + destruct (resolve_slots st r); [|apply ids_refl]. destruct (resolve_slots st p); [|apply ids_refl].
        eapply ids_trans; [apply ids_reaction_call | apply ids_finish].
      + eapply ids_trans; [apply ids_reaction_call | apply ids_finish].
    - destruct (get_root st src) as [i|]; [|exists 0; apply idsone_same, ids_refl].
      destruct (hget (heap st) i) as [ob|] eqn:Eo; [|exists 0; apply idsone_same, ids_refl].
      exists (o_cls ob). destruct (o_data ob) eqn:Ed; try (apply idsone_same, ids_refl).
      eapply idsone_then_same; [|apply ids_finish]. unfold dom_complement. rewrite Eo, Ed. apply idsone_dom_call.
    - exists 0. apply idsone_same. cbn [fst]. intros b. rewrite cget_collect. reflexivity.
    - exists 0. apply idsone_same. destruct (get_root st slot) as [i|]; [|apply ids_refl].
      destruct (hget (heap st) i) as [ob|]; [|apply ids_refl]. destruct (query_obj ct (heap st) ob q); apply ids_refl.
    - exists 0. apply idsone_same. destruct (get_root st slot) as [i|]; [|apply ids_refl].
      destruct (hget (heap st) i) as [ob|]; [|apply ids_refl].
      assert (T : IdsSame st (fst (set_turns st i v))) by (intros b; unfold cget; rewrite set_turns_classes; reflexivity).
      destruct (o_data ob); try apply ids_refl; destruct (set_turns st i v) as [s [u|k]]; exact T. }
  destruct One as [a One].
  destruct (One c) as [E|[-> [z [Ez E]]]]; [left; exact E|].
  destruct (constructed (snd (step ct st o))) eqn:Cn; [right; exists z; auto|]. left.
  apply (counters_step ct st o (fst (step ct st o)) (snd (step ct st o))); [apply surjective_pairing | |].
  - intros id Eo. rewrite Eo in Cn. discriminate.
  - intros e Eo. rewrite Eo in Cn. cbn in Cn. vm_compute in Cn. discriminate.
Qed.
