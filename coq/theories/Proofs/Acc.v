From Coq Require Import List Arith Lia Bool NArith.
From DSD Require Import Base.Str Base.Errors Model.ComplexUtils Dyck.Dyck Proofs.Mpt.
Import ListNotations.

(* mpt_syms accepts exactly the well-formed strings *)
Lemma run_wfb s : forall σ,
  (exists σ', run σ s = Some σ' /\ stk σ' = []) <-> wfb_aux s (length (stk σ)) = true.
Proof.
  induction s as [|c r IH]; intros σ; cbn [run wfb_aux].
  - split.
    + intros (σ' & H & Hs). injection H as <-. rewrite Hs. reflexivity.
    + intros H. apply Nat.eqb_eq in H. exists σ. split; [reflexivity|]. destruct (stk σ); [reflexivity|discriminate].
  - destruct c; cbn [step].
    + rewrite (IH (mk _ _ _)). cbn [stk length]. reflexivity.
    + destruct (stk σ) as [|p st] eqn:E; cbn [length].
      * split; [intros (σ' & H & _); discriminate | discriminate].
      * rewrite (IH (mk _ _ _)). cbn [stk]. reflexivity.
    + rewrite (IH (mk _ _ _)). cbn [stk]. reflexivity.
    + rewrite (IH (mk _ _ _)). cbn [stk]. reflexivity.
    + split; [intros (σ' & H & _); discriminate | discriminate].
Qed.

Theorem mpt_syms_accepts s : (exists t, mpt_syms s = Some t) <-> wfb s = true.
Proof.
  unfold mpt_syms, wfb. rewrite <- (run_wfb s (mk [] [] [])). cbn [stk length].
  split.
  - intros (t & H). destruct (run (mk [] [] []) s) as [σ'|]; [|discriminate].
    exists σ'. split; [reflexivity|]. destruct (stk σ'); [reflexivity|discriminate].
  - intros (σ' & H & Hs). rewrite H, Hs. eauto.
Qed.
