(* Reader model, C14: a consistent system is never refused.
   Part 12: the consistency of a list of statements as a computation, and its soundness. *)
From Coq Require Import List NArith ZArith Bool Arith Lia Permutation.
From DSD Require Import Base.Str Base.Errors Model.ComplexUtils Model.RegStr Model.ReaderStr Model.PyNum
  Model.Peg Model.Kernel Model.DispatchKernel Model.Heap Model.Registry Model.Reader Model.ReaderShape Model.ReaderConsistent
  Proofs.RegHeap Proofs.RegInv Proofs.RegCalls Proofs.RegExt Proofs.ReaderBasic Proofs.ReaderStmt Proofs.ReaderHeap
  Proofs.ReaderInv Proofs.ReaderHoare Proofs.ReaderNoFault Proofs.ReaderThms Proofs.ReaderBuilds Proofs.ReaderKernel
  Proofs.ReaderMore Proofs.ReaderSys Proofs.ReaderSysA Proofs.ReaderSysB Proofs.ReaderSysC Proofs.ReaderSysD
  Proofs.ReaderSysE Proofs.ReaderSysF Proofs.ReaderSysS Proofs.ReaderSysX Proofs.ReaderSysY Proofs.ReaderSysG Proofs.ReaderSysH Proofs.ReaderSysI Proofs.ReaderSysJ.
From DSD Require Model.Iupac.
Import ListNotations.

Lemma mem_str_iff x l : mem_str x l = true <-> In x l.
Proof.
  unfold mem_str. rewrite existsb_exists. split.
  - intros [y [H1 H2]]. apply str_eqb_iff in H2. subst. exact H1.
  - intros H. exists x. split; [exact H | apply str_eqb_iff; reflexivity].
Qed.
Lemma mem_str_false x l : mem_str x l = false <-> ~ In x l.
Proof. rewrite <- mem_str_iff. destruct (mem_str x l); split; congruence. Qed.

Lemma rot_disjointb_sound prev cdict : rot_disjointb prev cdict = true -> rot_disjoint prev cdict.
Proof.
  unfold rot_disjointb, rot_disjoint. rewrite forallb_forall. intros H n' names' sst' cdict' Hin Hr k Hk Hk'.
  specialize (H _ Hin). cbn [fst snd] in H. rewrite Hr in H. rewrite forallb_forall in H. specialize (H k Hk).
  apply negb_true_iff in H. assert (E : existsb (ckey_eqb k) (map fst cdict') = true); [|congruence].
  apply existsb_exists. exists k. split; [exact Hk' | apply ckey_eqb_iff; reflexivity].
Qed.

Lemma osig_eqb_false a b : osig_eqb a b = false -> a <> b.
Proof.
  intros H E. subst b. destruct a as [x|]; cbn in H; [|discriminate].
  rewrite (proj2 (list_eqb_iff _ ckey_eqb_iff x x) eq_refl) in H. discriminate.
Qed.

Lemma sig_differsb_sound a b : sig_differsb a b = true -> sig_differs a b.
Proof.
  intros H k1 n1 k2 n2 -> ->. cbn in H. apply andb_true_iff in H. destruct H as [H1 H2].
  apply negb_true_iff in H1, H2. split; intros ->.
  - rewrite (proj2 (key_eqb_iff k2 k2) eq_refl) in H1. discriminate.
  - rewrite (proj2 (str_eqb_iff n2 n2) eq_refl) in H2. discriminate.
Qed.

Lemma forallb_Forall {A} (p : A -> bool) (P : A -> Prop) l :
  (forall x, p x = true -> P x) -> forallb p l = true -> Forall P l.
Proof.
  intros H F. rewrite forallb_forall in F. apply Forall_forall. intros x Hx. apply H. apply F. exact Hx.
Qed.

Theorem admb_sound prev s : admb prev s = true -> adm prev s.
Proof.
  destruct s as [x l|x sq chk|n ds|n ss sst|n names sst conc|n xs|ri|]; cbn [admb adm]; intros H.
  - repeat (apply andb_true_iff in H; destruct H as [H ?]).
    repeat split.
    + apply negb_true_iff. assumption.
    + assumption.
    + apply negb_true_iff. assumption.
    + apply Z.leb_le. assumption.
    + apply mem_str_false. apply negb_true_iff. assumption.
  - repeat (apply andb_true_iff in H; destruct H as [H ?]).
    split; [apply negb_true_iff; assumption|]. split; [assumption|]. split; [apply negb_true_iff; assumption|].
    split; [apply mem_str_false; apply negb_true_iff; assumption|].
    split; [destruct chk; [assumption | exact I]|].
    destruct (Iupac.reverse_wc_complement false sq) as [sq'|]; [eauto | discriminate].
  - repeat (apply andb_true_iff in H; destruct H as [H ?]).
    split; [assumption|]. split; [apply negb_true_iff; assumption|].
    split; [apply mem_str_false; apply negb_true_iff; assumption|]. split.
    + match goal with Hx : negb (existsb _ _) = true |- _ => apply negb_true_iff in Hx; rename Hx into Hex end.
      intros Hin. assert (E : existsb (list_eqb str_eqb ds) (map snd (decl_strands prev)) = true); [|congruence].
      apply existsb_exists. exists ds. split; [exact Hin | apply (list_eqb_iff _ str_eqb_iff); reflexivity].
    + eapply forallb_Forall; [|eassumption]. intros d. apply mem_str_iff.
  - repeat (apply andb_true_iff in H; destruct H as [H ?]).
    split; [assumption|]. split; [apply mem_str_false; apply negb_true_iff; assumption|]. split.
    + eapply forallb_Forall; [|eassumption]. intros x Hx. apply andb_true_iff in Hx. apply mem_str_iff. tauto.
    + destruct (ssc_names prev ss) as [names|]; [|discriminate].
      match goal with Hx : _ && _ = true |- _ => apply andb_true_iff in Hx; destruct Hx as [Hl Hx] end.
      destruct (rot_dict names (no_space sst)) as [cdict|] eqn:Er; [|discriminate].
      destruct (canon_of cdict) as [[cn e]|] eqn:Ec; [|discriminate].
      exists names, cdict, cn, e. split; [reflexivity|]. split; [apply Nat.eqb_eq; exact Hl|].
      split; [exact Er|]. split; [exact Ec|]. apply rot_disjointb_sound. assumption.
  - repeat (apply andb_true_iff in H; destruct H as [H ?]).
    split; [assumption|]. split; [apply mem_str_false; apply negb_true_iff; assumption|].
    destruct (expand_ker prev names sst) as [[names' sst']|]; [|discriminate].
    destruct (rot_dict names' sst') as [cdict|] eqn:Er; [|discriminate].
    destruct (canon_of cdict) as [[cn e]|] eqn:Ec; [|discriminate].
    exists names', sst', cdict, cn, e. split; [reflexivity|]. split; [exact Er|]. split; [exact Ec|].
    apply rot_disjointb_sound. assumption.
  - repeat (apply andb_true_iff in H; destruct H as [H ?]).
    split; [assumption|]. split; [apply mem_str_iff; assumption|].
    split; [apply mem_str_false; apply negb_true_iff; assumption|]. split.
    + eapply forallb_Forall; [|eassumption]. intros x. apply mem_str_iff.
    + intros n' xs' Hin. match goal with Hx : forallb _ (decl_macs prev) = true |- _ => rewrite forallb_forall in Hx; specialize (Hx _ Hin) end.
      cbn [snd] in *. apply osig_eqb_false. apply negb_true_iff. assumption.
  - repeat (apply andb_true_iff in H; destruct H as [H ?]).
    split; [destruct (ri_rate ri) as [k|]; [eauto | discriminate]|].
    split; [destruct (ri_reactants ri); [discriminate | congruence]|].
    split; [eapply forallb_Forall; [|eassumption]; intros x; apply mem_str_iff|].
    split; [eapply forallb_Forall; [|eassumption]; intros x; apply mem_str_iff|].
    intros ri' Hin. match goal with Hx : forallb _ (decl_rxns prev) = true |- _ => rewrite forallb_forall in Hx; specialize (Hx _ Hin) end.
    apply sig_differsb_sound. assumption.
  - exact I.
Qed.

Theorem consistentb_sound ss : consistentb ss = true -> Consistent ss.
Proof.
  unfold consistentb, Consistent. generalize (@nil stmt). induction ss as [|s ss IH]; intros prev H; cbn in *; [exact I|].
  apply andb_true_iff in H. destruct H as [H1 H2]. split; [apply admb_sound; exact H1 | apply IH; exact H2].
Qed.
