(* Non-vacuity of the C19 statement round trips: one concrete instance per statement kind, its side
   conditions, and the result of parse_seesaw (default fuel) on its rendering. *)
From Coq Require Import List NArith Bool.
From DSD Require Import Base.Str Base.Errors Base.Val Model.Peg Model.DispatchPeg
  Proofs.PegStd Proofs.PegNum Proofs.PegList Proofs.C13Doc Proofs.C19Doc Proofs.C19Lex Proofs.C19Io Proofs.C19Args Proofs.C19Stm.
Import ListNotations.

Definition n1 := mkNum 49%N [].
Definition n2 := mkNum 50%N [51%N].
Definition n7 := mkNum 55%N [].
Definition set12 : nset := mkEset num [32%N] n1 [mkLmember num [] [32%N] n2] [].
Definition setf : oset := mkEset nf [] (NFnum n7) [mkLmember nf [32%N] [] NFf] [32%N].
Definition w57 := mkWire n2 (NFnum n7) [] [] [] [32%N] [].

Example seesaw_example :
  let s := mkSs n7 set12 setf [] [] [] [32%N] [] [32%N] [] in
  ss_ok s /\ parse_seesaw (ss_render s ++ [NL]) = vals [ss_tree s].
Proof. cbn zeta. split; [repeat split; try reflexivity; repeat constructor|vm_compute; reflexivity]. Qed.

Example inputfanout_example :
  let s := mkIf n7 n1 set12 [] [] [] [32%N] [] [32%N] [] in
  if_ok s /\ parse_seesaw (if_render s ++ [NL]) = vals [if_tree s].
Proof. cbn zeta. split; [repeat split; try reflexivity; repeat constructor|vm_compute; reflexivity]. Qed.

Example logic_gate_example :
  let s k := mkLg k n7 n1 set12 set12 [] [] [] [32%N] [] [32%N] [] [32%N] [] in
  lg_ok (s KwOR) /\ parse_seesaw (lg_render (s KwOR) ++ [NL]) = vals [lg_tree (s KwOR)] /\
  parse_seesaw (lg_render (s KwAND) ++ [NL]) = vals [lg_tree (s KwAND)].
Proof. cbn zeta. split; [repeat split; try reflexivity; repeat constructor|split; vm_compute; reflexivity]. Qed.

Example conc_example :
  let q := mkSconc (mkGnum 49%N [] (Some (53%N, [])) (Some (Some 45%N, 51%N, []))) [] [] in
  let y := mkCcLayout [] [] [] [32%N] [] in
  let g1 := mkGate true w57 n1 [] [] [] [32%N] [] in
  let g2 := mkGate false w57 n1 [] [] [] [32%N] [] in
  sconc_ok q /\ cc_layout_ok y /\ gate_ok g1 /\ gate_ok g2 /\
  parse_seesaw (cc_render (TWire w57) q y ++ [NL]) = vals [cc_tree (TWire w57) q] /\
  parse_seesaw (cc_render (TGate g1) q y ++ [NL]) = vals [cc_tree (TGate g1) q] /\
  parse_seesaw (cc_render (TGate g2) q y ++ [NL]) = vals [cc_tree (TGate g2) q] /\
  parse_seesaw (cc_render (TTh g1) q y ++ [NL]) = vals [cc_tree (TTh g1) q] /\
  parse_seesaw (cc_render (TTh g2) q y ++ [NL]) = vals [cc_tree (TTh g2) q].
Proof. cbn zeta. repeat split; try reflexivity; try (vm_compute; reflexivity); try (right; reflexivity); try exact I. Qed.

Example output_example :
  let y := mkInpLayout [] [] [] [32%N] [32%N] in
  let f := mkFluor n2 [] [] [] in
  inp_layout_ok y /\ fluor_ok f /\
  parse_seesaw (out_render (IONum n1) (OVWire w57) y ++ [NL]) = vals [out_tree (IONum n1) (OVWire w57)] /\
  parse_seesaw (out_render (IOId 120%N [49%N]) (OVFluor f) y ++ [NL]) = vals [out_tree (IOId 120%N [49%N]) (OVFluor f)].
Proof. cbn zeta. repeat split; try reflexivity; try (vm_compute; reflexivity); try (right; reflexivity); try exact I. Qed.
