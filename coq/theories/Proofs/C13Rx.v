(* C13: round trip of the reaction statement without rate information
     (kinetic | reaction) NAME (+ NAME)* -> NAME (+ NAME)*
   for all names, list lengths and layouts; guard: the arrow is preceded by a blank
   (`-` is an identifier character). *)
From Coq Require Import List NArith Bool Arith Lia.
From DSD Require Import Base.Str Base.Val Model.Peg Model.DispatchPeg Proofs.PegMono Proofs.PegRules Proofs.PegStd
  Proofs.PegDoc Proofs.PegKw Proofs.C13Doc Proofs.PilLex Proofs.C13Ms.
From DSDGen Require Import PilGrammar.
Import ListNotations.

Inductive rxkw := KwKinetic | KwReaction.
Definition rxkw_text (k : rxkw) : pstr :=
  match k with
  | KwKinetic => [107; 105; 110; 101; 116; 105; 99]%N
  | KwReaction => [114; 101; 97; 99; 116; 105; 111; 110]%N
  end.
Definition tag_rx : pstr := [114; 101; 97; 99; 116; 105; 111; 110]%N.   (* reaction *)
Definition ARROW : pstr := [45; 62]%N.

Record rx_stmt := mkRx { rx_kw : rxkw;
  rx_r0 : chr; rx_rs0 : pstr; rx_reactants : list member;
  rx_p0 : chr; rx_ps0 : pstr; rx_products : list member }.
Record rx_layout := mkRxLayout { rx_b1 : pstr; rx_b2 : pstr; rx_b3 : pstr }.
Definition rx_stmt_ok (s : rx_stmt) : Prop :=
  memc (rx_r0 s) idch = true /\ all_in idch (rx_rs0 s) /\ Forall member_ok (rx_reactants s) /\
  memc (rx_p0 s) idch = true /\ all_in idch (rx_ps0 s) /\ Forall member_ok (rx_products s).
Definition rx_layout_ok (y : rx_layout) : Prop :=
  blanks WS (rx_b1 y) /\ blanks WS (rx_b2 y) /\ rx_b2 y <> [] /\ blanks WS (rx_b3 y).

Definition rx_render (s : rx_stmt) (y : rx_layout) : pstr :=
  rxkw_text (rx_kw s) ++ rx_b1 y ++ (rx_r0 s :: rx_rs0 s) ++
  members_text 43%N (rx_reactants s) (rx_b2 y ++ ARROW ++ rx_b3 y ++ (rx_p0 s :: rx_ps0 s) ++
  members_text 43%N (rx_products s) []).
Definition names_toks (n0 : chr) (ns : pstr) (ms : list member) : list tok :=
  TStr (n0 :: ns) :: map (fun m => TStr (m_name m)) ms.
Definition rx_tree (s : rx_stmt) : tok :=
  TList [TStr tag_rx; TList []; TList (names_toks (rx_r0 s) (rx_rs0 s) (rx_reactants s));
         TList (names_toks (rx_p0 s) (rx_ps0 s) (rx_products s))].

Definition rx_tail_text (s : rx_stmt) (y : rx_layout) (Ek : pstr) : pstr :=
  rx_b1 y ++ rx_r0 s :: rx_rs0 s ++
  members_text 43%N (rx_reactants s) (rx_b2 y ++ 45%N :: 62%N :: rx_b3 y ++ rx_p0 s :: rx_ps0 s ++
  members_text 43%N (rx_products s) Ek).

(* reactants -> products, end of statement; from any position whose pre-parsed form starts at the first reactant *)
Definition rx_species_text (s : rx_stmt) (y : rx_layout) (Ek : pstr) : pstr :=
  rx_r0 s :: rx_rs0 s ++
  members_text 43%N (rx_reactants s) (rx_b2 y ++ 45%N :: 62%N :: rx_b3 y ++ rx_p0 s :: rx_ps0 s ++
  members_text 43%N (rx_products s) Ek).
Lemma seqs_eq full ks p acc r r' : seqs G full ks p acc r' -> r' = r -> seqs G full ks p acc r.
Proof. intros H <-. exact H. Qed.

Lemma seqs_rx_species full g2 sa la g3 m sl le s y E k X acc :
  nth_error G g2 = Some (mkNode KGroup [177] true WS [pil_c] true []) ->
  nth_error G sa = Some (mkNode KSuppress [la] true WS [pil_c] true []) ->
  nth_error G la = Some (mkNode (KLit ARROW) [] true WS [pil_c] true []) ->
  nth_error G g3 = Some (mkNode KGroup [177] true WS [pil_c] true []) ->
  nth_error G m = Some (mkNode (KMany true) [sl] true WS [pil_c] true []) ->
  nth_error G sl = Some (mkNode KSuppress [le] true WS [pil_c] true []) ->
  (exists cpl, nth_error G le = Some (mkNode KLineEnd [] true WS [pil_c] cpl [])) ->
  rx_stmt_ok s -> rx_layout_ok y -> stmt_end E k ->
  spre X = rx_species_text s y (E ++ k) ->
  seqs G full [g2; sa; g3; m] (At X) acc
    (POk (after WS k) (acc ++ [TList (names_toks (rx_r0 s) (rx_rs0 s) (rx_reactants s));
                               TList (names_toks (rx_p0 s) (rx_ps0 s) (rx_products s))])).
Proof.
  intros Hg2 Hsa Hla Hg3 Hm Hsl Hle (Hr0 & Hrs & Hrm & Hp0 & Hps & Hpm) (Hb1 & Hb2 & Hb2ne & Hb3) Hk HX.
  unfold rx_species_text in HX.
  set (P := rx_b3 y ++ rx_p0 s :: rx_ps0 s ++ members_text 43%N (rx_products s) (E ++ k)) in *.
  set (R := rx_b2 y ++ 45%N :: 62%N :: P) in *.
  eapply seqs_eq.
  eapply seqs_cons.
  { eapply evals_eq.
    - eapply evals_node_ok; [exact Hg2|apply (pre_premise G full pil_c WS pil_comment_ok); repeat split|].
      unfold pre_pos. cbn [andb ncallpre]. rewrite HX.
      eapply impls_wrap; [reflexivity|reflexivity|].
      apply (ev_delimited 177 178 179 180 181 182 43%N ltac:(lk) ltac:(lk) ltac:(lk) ltac:(lk) ltac:(lk) ltac:(lk)
               eq_refl eq_refl full false _ (rx_r0 s) (rx_rs0 s) (rx_reactants s) R eq_refl Hr0 Hrs Hrm).
      split.
      + unfold R. destruct (rx_b2 y) as [|w b2]; [congruence|].
        cbn. unfold blanks in Hb2. cbn in Hb2. apply andb_prop in Hb2 as [Hw _].
        apply negb_true_iff. apply (memc_forallb WS (fun w => negb (memc w idch)) w); [vm_compute; reflexivity|exact Hw].
      + unfold R. rewrite spre_blanks_stop by (try exact Hb2; reflexivity). reflexivity.
    - reflexivity. }
  eapply seqs_cons.
  { eapply evals_eq; [apply (evals_slit G full pil_c WS pil_comment_ok sa la true true true _ _ Hsa Hla)|].
    cbn [andb]. rewrite spre_zpos. unfold R. rewrite spre_blanks_stop by (try exact Hb2; reflexivity).
    unfold lit_res, ARROW. cbn [starts_with]. rewrite !N.eqb_refl. reflexivity. }
  eapply seqs_cons.
  { eapply evals_eq.
    - eapply evals_node_ok; [exact Hg3|apply (pre_premise G full pil_c WS pil_comment_ok); repeat split|].
      unfold pre_pos. cbn [andb ncallpre]. unfold P. rewrite spre_blanks_stop; [|exact Hb3|apply idch_stop; exact Hp0].
      eapply impls_wrap; [reflexivity|reflexivity|].
      apply (ev_delimited 177 178 179 180 181 182 43%N ltac:(lk) ltac:(lk) ltac:(lk) ltac:(lk) ltac:(lk) ltac:(lk)
               eq_refl eq_refl full false _ (rx_p0 s) (rx_ps0 s) (rx_products s) (E ++ k) eq_refl Hp0 Hps Hpm).
      split.
      + apply pil_end_nohead; [exact Hk|vm_compute; reflexivity].
      + apply end_nohead_spre; [exact Hk|reflexivity].
    - reflexivity. }
  eapply seqs_cons; [|apply seqs_nil].
  destruct (rx_products s) as [|pm pms]; cbn [zpos].
  - apply (ev_end_spre full m sl le); assumption.
  - apply (ev_end full m sl le true); assumption.
  - cbn. rewrite ?app_nil_r, <- ?app_assoc. reflexivity.
Qed.

Lemma seqs_rx_tail full g1 o1 g2 sa la g3 m sl le s y E k :
  nth_error G g1 = Some (mkNode KGroup [o1] true WS [pil_c] true []) ->
  nth_error G o1 = Some (mkNode KOpt [121] true WS [pil_c] true []) ->
  nth_error G g2 = Some (mkNode KGroup [177] true WS [pil_c] true []) ->
  nth_error G sa = Some (mkNode KSuppress [la] true WS [pil_c] true []) ->
  nth_error G la = Some (mkNode (KLit ARROW) [] true WS [pil_c] true []) ->
  nth_error G g3 = Some (mkNode KGroup [177] true WS [pil_c] true []) ->
  nth_error G m = Some (mkNode (KMany true) [sl] true WS [pil_c] true []) ->
  nth_error G sl = Some (mkNode KSuppress [le] true WS [pil_c] true []) ->
  (exists cpl, nth_error G le = Some (mkNode KLineEnd [] true WS [pil_c] cpl [])) ->
  rx_stmt_ok s -> rx_layout_ok y -> stmt_end E k ->
  seqs G full [g1; g2; sa; g3; m] (At (rx_tail_text s y (E ++ k))) []
    (POk (after WS k) [TList []; TList (names_toks (rx_r0 s) (rx_rs0 s) (rx_reactants s));
                       TList (names_toks (rx_p0 s) (rx_ps0 s) (rx_products s))]).
Proof.
  intros Hg1 Ho1 Hg2 Hsa Hla Hg3 Hm Hsl Hle Hs Hy Hk.
  pose proof Hs as (Hr0 & _). pose proof Hy as (Hb1 & _).
  unfold rx_tail_text. fold (rx_species_text s y (E ++ k)).
  assert (Hx : spre (rx_b1 y ++ rx_species_text s y (E ++ k)) = rx_species_text s y (E ++ k))
    by (unfold rx_species_text; apply spre_blanks_stop; [exact Hb1|apply idch_stop; exact Hr0]).
  (* Group [Opt [infobox]] : absent *)
  eapply seqs_cons.
  { eapply evals_eq.
    - eapply evals_node_ok; [exact Hg1|apply (pre_premise G full pil_c WS pil_comment_ok); repeat split|].
      unfold pre_pos. cbn [andb ncallpre]. rewrite Hx.
      eapply impls_wrap; [reflexivity|reflexivity|].
      eapply evals_node_ok; [exact Ho1|cbn; reflexivity|].
      eapply impls_opt_none; [reflexivity|reflexivity|].
      eapply evals_node_fail; [lk|cbn; reflexivity|].
      eapply impls_and_fail; [reflexivity|reflexivity|].
      eapply evals_eq; [apply (evals_slit G full pil_c WS pil_comment_ok 122 123 false true true); lk|].
      cbn [andb]. unfold lit_res, rx_species_text. cbn [starts_with].
      destruct (N.eqb_spec 91 (rx_r0 s)) as [e|]; [rewrite <- e in Hr0; discriminate|reflexivity].
    - reflexivity. }
  apply (seqs_rx_species full g2 sa la g3 m sl le s y E k _ [TList []]); try assumption.
  unfold rx_species_text. apply spre_stop. apply idch_stop. exact Hr0.
Qed.

Theorem roundtrip_reaction s y :
  rx_stmt_ok s -> rx_layout_ok y -> pil_body_ok (rx_render s y) [rx_tree s].
Proof.
  intros Hs Hy full b E k Hb Hk. unfold rx_render, ARROW. norm_text.
  rewrite !members_text_app. norm_text. rewrite !members_text_app. cbn [app].
  fold (rx_tail_text s y (E ++ k)).
  eapply evals_eq.
  - eapply evals_node_ok; [lk|cbn; reflexivity|]. apply impls_first; [reflexivity|]. cbn [nkids].
    destruct (rx_kw s) eqn:Ekw; cbn [rxkw_text app].
    + eapply firsts_miss; [kwfail 9 10 11 12 Hb|].
      eapply firsts_miss; [kwfail 30 31 32 33 Hb|].
      eapply firsts_miss; [kwfail 41 42 43 44 Hb|].
      eapply firsts_miss; [kwfail 49 50 51 52 Hb|].
      eapply firsts_miss; [kwfail 57 58 59 60 Hb|].
      eapply firsts_miss; [kwfail 71 72 73 74 Hb|].
      eapply firsts_miss; [kwfail 84 85 86 87 Hb|].
      eapply firsts_miss; [kwfail 101 102 103 104 Hb|].
      apply firsts_hit.
      eapply (evals_kw_alt_ok G full pil_c WS pil_comment_ok 115 116 117 118); [lk|lk|lk|lk| |].
      { rewrite spre_blanks_stop by (try exact Hb; reflexivity). cbn. reflexivity. }
      apply (seqs_rx_tail full 119 120 176 183 184 185 186 187 188 s y E k); try lk; try (eexists; lk); assumption.
    + eapply firsts_miss; [kwfail 9 10 11 12 Hb|].
      eapply firsts_miss; [kwfail 30 31 32 33 Hb|].
      eapply firsts_miss; [kwfail 41 42 43 44 Hb|].
      eapply firsts_miss; [kwfail 49 50 51 52 Hb|].
      eapply firsts_miss; [kwfail 57 58 59 60 Hb|].
      eapply firsts_miss; [kwfail 71 72 73 74 Hb|].
      eapply firsts_miss; [kwfail 84 85 86 87 Hb|].
      eapply firsts_miss; [kwfail 101 102 103 104 Hb|].
      eapply firsts_miss; [kwfail 115 116 117 118 Hb|].
      apply firsts_hit.
      eapply (evals_kw_alt_ok G full pil_c WS pil_comment_ok 189 190 191 192); [lk|lk|lk|lk| |].
      { rewrite spre_blanks_stop by (try exact Hb; reflexivity). cbn. reflexivity. }
      apply (seqs_rx_tail full 193 194 195 196 197 198 199 200 201 s y E k); try lk; try (eexists; lk); assumption.
  - unfold rx_tree. destruct (rx_kw s); reflexivity.
Qed.

Theorem roundtrip_reaction_parse s y b E :
  rx_stmt_ok s -> rx_layout_ok y -> blanks WS b -> stmt_end E [] ->
  no_tab (b ++ rx_render s y ++ E) ->
  exists f0, forall f, f0 <= f -> parse_pil_fuel f (b ++ rx_render s y ++ E) = vals [rx_tree s].
Proof.
  intros Hs Hy Hb HE Hnt. apply pil_statement_parse; try assumption.
  - unfold rx_render. destruct (rx_kw s); cbn; repeat split; reflexivity.
  - apply roundtrip_reaction; assumption.
Qed.

(* non-vacuity: `kinetic 4 + C1 -> 7` *)
Example rx_example :
  let s := mkRx KwKinetic 52%N [] [mkMember [32%N] [32%N] 67%N [49%N]] 55%N [] [] in
  let y := mkRxLayout [32%N] [32%N] [32%N] in
  rx_stmt_ok s /\ rx_layout_ok y /\ parse_pil (rx_render s y ++ [NL]) = vals [rx_tree s].
Proof.
  cbn zeta. split; [|split].
  - cbn. repeat split; try reflexivity; repeat constructor.
  - cbn. repeat split; try reflexivity. discriminate.
  - vm_compute. reflexivity.
Qed.
