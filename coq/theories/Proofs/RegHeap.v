(* Registry machine, layer 1: heap access, association lists, sweep / collect and
   reachability through strong children. *)
From Coq Require Import List NArith ZArith Bool Arith Lia.
From DSD Require Import Base.Str Base.Errors Model.ComplexUtils Model.RegStr Model.Heap.
Import ListNotations.

(* ------------------------------------------------------------------ *)
(* heap access                                                          *)

Lemma hget_lt h i o : hget h i = Some o -> i < length h.
Proof.
  induction h as [|x r IH]; cbn; [discriminate|].
  destruct (Nat.eqb i (length r)) eqn:E.
  - apply Nat.eqb_eq in E. lia.
  - intros H. apply IH in H. lia.
Qed.

Lemma hget_ge h i : length h <= i -> hget h i = None.
Proof.
  intros H. destruct (hget h i) eqn:E; [|reflexivity]. apply hget_lt in E. lia.
Qed.

Lemma hget_new o r : hget (o :: r) (length r) = Some o.
Proof. cbn. rewrite Nat.eqb_refl. reflexivity. Qed.

Lemma hget_old o r i : i <> length r -> hget (o :: r) i = hget r i.
Proof. intros H. cbn. apply Nat.eqb_neq in H. rewrite H. reflexivity. Qed.

Lemma hget_old_some o r i x : hget r i = Some x -> hget (o :: r) i = Some x.
Proof. intros H. rewrite hget_old; [exact H|]. apply hget_lt in H. lia. Qed.

Lemma hget_some_iff h i : i < length h <-> exists o, hget h i = Some o.
Proof.
  split.
  - induction h as [|x r IH]; cbn; [lia|]. intros H.
    destruct (Nat.eqb i (length r)) eqn:E; [eauto|]. apply Nat.eqb_neq in E. apply IH. lia.
  - intros [o H]. eapply hget_lt; eauto.
Qed.

Lemma hset_length h i o : length (hset h i o) = length h.
Proof.
  induction h as [|x r IH]; cbn; [reflexivity|].
  destruct (Nat.eqb i (length r)); cbn; [reflexivity | rewrite IH; reflexivity].
Qed.

Lemma hget_hset h i j o' :
  hget (hset h i o') j = if Nat.eqb j i then option_map (fun _ => o') (hget h i) else hget h j.
Proof.
  induction h as [|x r IH]; cbn.
  - destruct (Nat.eqb j i); reflexivity.
  - destruct (Nat.eqb i (length r)) eqn:Ei.
    + apply Nat.eqb_eq in Ei. subst i. cbn.
      destruct (Nat.eqb j (length r)) eqn:Ej; reflexivity.
    + cbn. rewrite hset_length. destruct (Nat.eqb j (length r)) eqn:Ej.
      * apply Nat.eqb_eq in Ej. subst j. rewrite Nat.eqb_sym, Ei. reflexivity.
      * apply IH.
Qed.

(* ------------------------------------------------------------------ *)
(* association lists                                                    *)

Section AssocLemmas.
  Context {K : Type} (eqb : K -> K -> bool).
  Hypothesis eqb_iff : forall a b, eqb a b = true <-> a = b.

  Lemma eqb_refl' a : eqb a a = true.
  Proof. apply eqb_iff. reflexivity. Qed.

  Lemma eqb_neq' a b : a <> b -> eqb a b = false.
  Proof. intros H. destruct (eqb a b) eqn:E; [|reflexivity]. apply eqb_iff in E. contradiction. Qed.

  Lemma alookup_in k v (l : list (K * nat)) : alookup eqb k l = Some v -> In (k, v) l.
  Proof.
    induction l as [|[k' v'] r IH]; cbn; [discriminate|].
    destruct (eqb k k') eqn:E.
    - apply eqb_iff in E. subst. intros H. injection H as ->. left. reflexivity.
    - intros H. right. apply IH. exact H.
  Qed.

  Lemma alookup_none k (l : list (K * nat)) : alookup eqb k l = None <-> ~ In k (map fst l).
  Proof.
    induction l as [|[k' v'] r IH]; cbn; [tauto|].
    destruct (eqb k k') eqn:E.
    - apply eqb_iff in E. subst. split; [discriminate|]. intros H. exfalso. apply H. left. reflexivity.
    - rewrite IH. split.
      + intros H [H1|H1]; [|tauto]. subst. rewrite eqb_refl' in E. discriminate.
      + tauto.
  Qed.

  Lemma in_alookup k v (l : list (K * nat)) :
    NoDup (map fst l) -> In (k, v) l -> alookup eqb k l = Some v.
  Proof.
    induction l as [|[k' v'] r IH]; cbn; [tauto|].
    intros ND [H|H].
    - injection H as -> ->. rewrite eqb_refl'. reflexivity.
    - inversion ND as [|? ? Hn ND']; subst.
      destruct (eqb k k') eqn:E.
      + apply eqb_iff in E. subst. exfalso. apply Hn. apply (in_map fst) in H. exact H.
      + apply IH; assumption.
  Qed.

  Lemma aset_keys k v (l : list (K * nat)) :
    map fst (aset eqb k v l) = if alookup eqb k l then map fst l else map fst l ++ [k].
  Proof.
    induction l as [|[k' v'] r IH]; cbn; [reflexivity|].
    destruct (eqb k k') eqn:E.
    - apply eqb_iff in E. subst. reflexivity.
    - cbn. rewrite IH. destruct (alookup eqb k r); reflexivity.
  Qed.

  Lemma aset_nodup k v (l : list (K * nat)) : NoDup (map fst l) -> NoDup (map fst (aset eqb k v l)).
  Proof.
    intros ND. rewrite aset_keys. destruct (alookup eqb k l) eqn:E; [exact ND|].
    apply alookup_none in E.
    apply NoDup_rev in ND. rewrite <- (rev_involutive (map fst l ++ [k])).
    apply NoDup_rev. rewrite rev_app_distr. cbn. constructor; [|exact ND].
    rewrite <- in_rev. exact E.
  Qed.

  Lemma aset_in k v (l : list (K * nat)) k' v' :
    NoDup (map fst l) ->
    In (k', v') (aset eqb k v l) -> (k' = k /\ v' = v) \/ (k' <> k /\ In (k', v') l).
  Proof.
    induction l as [|[k0 v0] r IH]; cbn.
    - intros _ [H|[]]. injection H as <- <-. left. split; reflexivity.
    - intros ND. inversion ND as [|? ? Hn ND']; subst.
      destruct (eqb k k0) eqn:E.
      + apply eqb_iff in E. subst k0. cbn. intros [H|H].
        * injection H as <- <-. left. split; reflexivity.
        * right. split; [|right; exact H].
          intros ->. apply Hn. apply (in_map fst) in H. exact H.
      + cbn. intros [H|H].
        * injection H as <- <-. right. split.
          -- intros ->. rewrite eqb_refl' in E. discriminate.
          -- left. reflexivity.
        * apply (IH ND') in H. destruct H as [H|[H1 H2]]; [left; exact H | right; split; [exact H1 | right; exact H2]].
  Qed.

  Lemma alookup_aset_same k v (l : list (K * nat)) : alookup eqb k (aset eqb k v l) = Some v.
  Proof.
    induction l as [|[k0 v0] r IH]; cbn.
    - rewrite eqb_refl'. reflexivity.
    - destruct (eqb k k0) eqn:E; cbn.
      + rewrite eqb_refl'. reflexivity.
      + rewrite E. exact IH.
  Qed.

  Lemma alookup_aset_other k v (l : list (K * nat)) k' :
    k' <> k -> alookup eqb k' (aset eqb k v l) = alookup eqb k' l.
  Proof.
    intros D. induction l as [|[k0 v0] r IH]; cbn.
    - rewrite (eqb_neq' k' k D). reflexivity.
    - destruct (eqb k k0) eqn:E; cbn.
      + apply eqb_iff in E. subst k0. rewrite (eqb_neq' k' k D). reflexivity.
      + destruct (eqb k' k0); [reflexivity | exact IH].
  Qed.

  (* filtering (purge) *)
  Lemma alookup_filter k v (f : K * nat -> bool) (l : list (K * nat)) :
    alookup eqb k l = Some v -> f (k, v) = true -> alookup eqb k (filter f l) = Some v.
  Proof.
    induction l as [|[k0 v0] r IH]; cbn; [discriminate|].
    destruct (eqb k k0) eqn:E.
    - apply eqb_iff in E. subst k0. intros H Hf. injection H as ->. rewrite Hf. cbn.
      rewrite eqb_refl'. reflexivity.
    - intros H Hf. destruct (f (k0, v0)); cbn; [rewrite E|]; apply IH; assumption.
  Qed.

  Lemma alookup_filter_inv k v (f : K * nat -> bool) (l : list (K * nat)) :
    NoDup (map fst l) -> alookup eqb k (filter f l) = Some v -> alookup eqb k l = Some v /\ f (k, v) = true.
  Proof.
    intros ND H. apply alookup_in in H. apply filter_In in H. destruct H as [H1 H2].
    split; [apply in_alookup; assumption | exact H2].
  Qed.
End AssocLemmas.

Lemma nodup_map_filter {A B} (g : A -> B) (f : A -> bool) (l : list A) :
  NoDup (map g l) -> NoDup (map g (filter f l)).
Proof.
  induction l as [|x r IH]; cbn; [auto|].
  intros ND. inversion ND as [|? ? Hn ND']; subst.
  destruct (f x); cbn; [|apply IH; exact ND'].
  constructor; [|apply IH; exact ND'].
  intros H. apply Hn. apply in_map_iff in H. destruct H as [y [Hy Hin]].
  apply filter_In in Hin. apply in_map_iff. exists y. tauto.
Qed.

(* ------------------------------------------------------------------ *)
(* decidable equality of canonical forms                                *)

Lemma ckey_eqb_iff a b : ckey_eqb a b = true <-> a = b.
Proof.
  destruct a as [a1 a2], b as [b1 b2]. unfold ckey_eqb. cbn.
  rewrite andb_true_iff, (list_eqb_iff _ str_eqb_iff), (list_eqb_iff _ N.eqb_eq).
  split; [intros [-> ->]; reflexivity | intros H; injection H; auto].
Qed.

Lemma opt_eqb_iff {A} (eqb : A -> A -> bool) :
  (forall x y, eqb x y = true <-> x = y) -> forall a b, opt_eqb eqb a b = true <-> a = b.
Proof.
  intros H [x|] [y|]; cbn; try (split; congruence).
  rewrite H. split; congruence.
Qed.

Lemma key_eqb_iff a b : key_eqb a b = true <-> a = b.
Proof.
  destruct a, b; cbn; try (split; congruence).
  - rewrite andb_true_iff, str_eqb_iff, Z.eqb_eq. split; [intros [-> ->]; reflexivity | intros H; injection H; auto].
  - rewrite ckey_eqb_iff. split; congruence.
  - rewrite (list_eqb_iff _ ckey_eqb_iff). split; congruence.
  - rewrite !andb_true_iff, Bool.eqb_true_iff,
      (list_eqb_iff _ (list_eqb_iff _ ckey_eqb_iff)), (list_eqb_iff _ (list_eqb_iff _ ckey_eqb_iff)),
      (opt_eqb_iff _ str_eqb_iff).
    split; [intros [[[-> ->] ->] ->]; reflexivity | intros H; injection H; auto].
Qed.

(* ------------------------------------------------------------------ *)
(* sweep                                                                *)

Lemma mem_iff i l : mem i l = true <-> In i l.
Proof.
  unfold mem. rewrite existsb_exists. split.
  - intros [x [H1 H2]]. apply Nat.eqb_eq in H2. subst. exact H1.
  - intros H. exists i. split; [exact H | apply Nat.eqb_refl].
Qed.

(* the decision taken by sweep for object i *)
Fixpoint kept (h : list obj) (need : list nat) (i : nat) : bool :=
  match h with
  | [] => false
  | o :: r =>
      let k := o_live o && mem (length r) need in
      if Nat.eqb i (length r) then k
      else kept r (if k then o_children o ++ need else need) i
  end.

Lemma sweep_length h need : length (sweep h need) = length h.
Proof.
  revert need. induction h as [|o r IH]; intros need; cbn; [reflexivity|].
  destruct (o_live o && mem (length r) need); cbn; rewrite IH; reflexivity.
Qed.

Lemma hget_sweep h need i :
  hget (sweep h need) i = option_map (fun o => if kept h need i then o else kill o) (hget h i).
Proof.
  revert need. induction h as [|o r IH]; intros need; cbn; [reflexivity|].
  destruct (o_live o && mem (length r) need) eqn:K; cbn; rewrite sweep_length;
    destruct (Nat.eqb i (length r)) eqn:E; cbn; try reflexivity; apply IH.
Qed.

Lemma kept_live h need i : kept h need i = true -> is_live h i = true.
Proof.
  revert need. induction h as [|o r IH]; intros need; cbn; [discriminate|].
  unfold is_live. cbn. destruct (Nat.eqb i (length r)) eqn:E.
  - rewrite andb_true_iff. tauto.
  - intros H. apply IH in H. exact H.
Qed.

(* reachability through the strong children of live objects *)
Inductive Reach (h : list obj) (seeds : list nat) : nat -> Prop :=
| R_seed i : In i seeds -> Reach h seeds i
| R_child j i o : Reach h seeds j -> hget h j = Some o -> o_live o = true ->
                  In i (o_children o) -> Reach h seeds i.

(* children are older than their holder *)
Definition children_older (h : list obj) : Prop :=
  forall i o, hget h i = Some o -> forall c, In c (o_children o) -> c < i.

Lemma children_older_tail o r : children_older (o :: r) -> children_older r.
Proof.
  intros H i x Hx c Hc. apply (H i x); [|exact Hc]. apply hget_old_some. exact Hx.
Qed.

Lemma reach_mono h s1 s2 i : (forall x, In x s1 -> In x s2) -> Reach h s1 i -> Reach h s2 i.
Proof.
  intros Hs R. induction R as [i Hi | j i o _ IH Hg Hl Hc].
  - apply R_seed. auto.
  - eapply R_child; eauto.
Qed.

Lemma reach_cons_iff o r need i :
  children_older (o :: r) -> i < length r ->
  let k := o_live o && mem (length r) need in
  (Reach (o :: r) need i <-> Reach r (if k then o_children o ++ need else need) i).
Proof.
  intros CO Hi k. split.
  - intros R. revert Hi. induction R as [i Hs | j i x Rj IH Hg Hl Hc]; intros Hi.
    + apply R_seed. destruct k; [apply in_or_app; right|]; exact Hs.
    + destruct (Nat.eq_dec j (length r)) as [->|Dj].
      * rewrite hget_new in Hg. injection Hg as <-.
        (* the newest object has no holder: it is reachable only as a seed *)
        assert (Hn : In (length r) need).
        { clear -Rj CO. remember (length r) as n eqn:En.
          induction Rj as [i Hs | j i x Rj IH Hg Hl Hc]; [exact Hs|].
          exfalso. subst i. pose proof (CO j x Hg _ Hc) as H1. apply hget_lt in Hg. cbn in Hg. lia. }
        apply R_seed. subst k. rewrite Hl. apply mem_iff in Hn. rewrite Hn. cbn.
        apply in_or_app. left. exact Hc.
      * assert (Hj : j < length r) by (apply hget_lt in Hg; cbn in Hg; lia).
        rewrite hget_old in Hg by exact Dj.
        eapply R_child; [apply IH; exact Hj | exact Hg | exact Hl | exact Hc].
  - intros R. induction R as [i Hs | j i x Rj IH Hg Hl Hc].
    + destruct k eqn:K; [|apply R_seed; exact Hs].
      apply in_app_or in Hs. destruct Hs as [Hs|Hs]; [|apply R_seed; exact Hs].
      subst k. apply andb_true_iff in K. destruct K as [K1 K2]. apply mem_iff in K2.
      eapply R_child; [apply R_seed; exact K2 | apply hget_new | exact K1 | exact Hs].
    + assert (Hj : j < length r) by (apply hget_lt in Hg; exact Hg).
      eapply R_child; [apply IH; exact Hj | apply hget_old_some; exact Hg | exact Hl | exact Hc].
Qed.

Lemma reach_newest o r need :
  children_older (o :: r) -> (Reach (o :: r) need (length r) <-> In (length r) need).
Proof.
  intros CO. split; [|apply R_seed].
  intros R. remember (length r) as n eqn:En.
  induction R as [i Hs | j i x Rj IH Hg Hl Hc]; [exact Hs|].
  exfalso. subst i. pose proof (CO j x Hg _ Hc) as H1. apply hget_lt in Hg. cbn in Hg. lia.
Qed.

Theorem kept_iff h need i :
  children_older h ->
  (kept h need i = true <-> is_live h i = true /\ Reach h need i).
Proof.
  revert need. induction h as [|o r IH]; intros need CO.
  - cbn. unfold is_live. cbn. split; [discriminate | intros [H _]; discriminate].
  - cbn [kept]. destruct (Nat.eqb i (length r)) eqn:E.
    + apply Nat.eqb_eq in E. subst i. unfold is_live. rewrite hget_new.
      rewrite andb_true_iff, mem_iff, (reach_newest o r need CO). tauto.
    + apply Nat.eqb_neq in E. unfold is_live. rewrite hget_old by exact E.
      destruct (Nat.lt_ge_cases i (length r)) as [Hi|Hi].
      * rewrite (IH _ (children_older_tail _ _ CO)). unfold is_live.
        rewrite (reach_cons_iff o r need i CO Hi). tauto.
      * rewrite (hget_ge r i Hi). split; [|intros [H _]; discriminate].
        intros H. apply kept_live in H. unfold is_live in H. rewrite (hget_ge r i Hi) in H. discriminate.
Qed.

(* sweep changes nothing but liveness flags *)
Lemma sweep_children_older h need : children_older h -> children_older (sweep h need).
Proof.
  intros CO i o H c Hc. rewrite hget_sweep in H.
  destruct (hget h i) as [x|] eqn:E; [|discriminate]. cbn in H. injection H as <-.
  apply (CO i x E). destruct (kept h need i); exact Hc.
Qed.

Lemma is_live_sweep h need i : is_live (sweep h need) i = kept h need i.
Proof.
  unfold is_live. rewrite hget_sweep. destruct (hget h i) as [x|] eqn:E; cbn.
  - destruct (kept h need i) eqn:K; [|reflexivity].
    apply kept_live in K. unfold is_live in K. rewrite E in K. exact K.
  - destruct (kept h need i) eqn:K; [|reflexivity].
    apply kept_live in K. unfold is_live in K. rewrite E in K. discriminate.
Qed.

Lemma is_live_sweep_le h need i : is_live (sweep h need) i = true -> is_live h i = true.
Proof. rewrite is_live_sweep. apply kept_live. Qed.
