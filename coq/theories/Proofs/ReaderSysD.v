(* Reader model, C14: a consistent system is never refused.
   Part 5: look-ups only take references; a statement that looks objects up and then creates one
   object of a dictionary kind. *)
From Coq Require Import List NArith ZArith Bool Arith Lia.
From DSD Require Import Base.Str Base.Errors Model.ComplexUtils Model.RegStr Model.ReaderStr Model.PyNum
  Model.Peg Model.Kernel Model.DispatchKernel Model.Heap Model.Registry Model.Reader Model.ReaderShape Model.ReaderConsistent
  Proofs.RegHeap Proofs.RegInv Proofs.RegCalls Proofs.RegExt Proofs.ReaderBasic Proofs.ReaderStmt Proofs.ReaderHeap
  Proofs.ReaderInv Proofs.ReaderHoare Proofs.ReaderNoFault Proofs.ReaderThms Proofs.ReaderBuilds Proofs.ReaderKernel
  Proofs.ReaderMore Proofs.ReaderSys Proofs.ReaderSysA Proofs.ReaderSysB.
From DSD Require Model.Iupac.
Import ListNotations.

Definition with_roots (st : state) (rs : list (option nat)) : state := mkState (heap st) (classes st) rs.

Definition holds (st : state) (ids : list nat) : state := with_roots st (roots st ++ map Some ids).

Lemma holds_nil st : holds st [] = st.
Proof. unfold holds, with_roots. rewrite app_nil_r. destruct st; reflexivity. Qed.
Lemma holds_cons st i ids : holds (hold st i) ids = holds st (i :: ids).
Proof. unfold holds, with_roots, hold. cbn [heap classes roots map]. rewrite <- app_assoc. reflexivity. Qed.
Lemma hold_holds st ids i : hold (holds st ids) i = holds st (ids ++ [i]).
Proof. unfold holds, with_roots, hold. cbn [heap classes roots]. rewrite map_app, app_assoc. reflexivity. Qed.

Lemma mk_new_with_roots st rs c nm k extra ch d :
  mk_new (with_roots st rs) c nm k extra ch d = with_roots (mk_new st c nm k extra ch d) rs.
Proof. reflexivity. Qed.

Section Lookups.
  Variable ct : ctable.

  Lemma sok_holds st ids :
    SOK ct st -> (forall i, In i ids -> is_live (heap st) i = true) -> SOK ct (holds st ids).
  Proof.
    revert st. induction ids as [|i ids IH]; intros st S L; [rewrite holds_nil; exact S|].
    rewrite <- holds_cons. apply IH.
    - apply sok_hold; [exact S | apply L; left; reflexivity].
    - intros j Hj. apply L. right. exact Hj.
  Qed.

  (* a look-up returns a registered object and takes a reference to it *)
  Lemma mapM_lookup {A} (f : A -> M nat) (P : state -> A -> nat -> Prop) :
    (forall st j x i, P st x i -> P (hold st j) x i) ->
    (forall r x i, SOK ct (r_st r) -> P (r_st r) x i ->
       f x r = (with_st r (hold (r_st r) i), Ok i) /\ is_live (heap (r_st r)) i = true) ->
    forall xs ids r, SOK ct (r_st r) -> Forall2 (P (r_st r)) xs ids ->
      mapM f xs r = (with_st r (holds (r_st r) ids), Ok ids) /\
      (forall i, In i ids -> is_live (heap (r_st r)) i = true).
  Proof.
    intros Hp Hf xs ids r S F. revert ids r S F. induction xs as [|x xs IH]; intros ids r S F; inversion F as [|? i ? ids' Px F']; subst.
    - cbn [mapM]. unfold ret. rewrite holds_nil, with_st_id. split; [reflexivity | intros i []].
    - cbn [mapM]. destruct (Hf r x i S Px) as [E L]. rewrite (bind_ok _ _ _ _ _ E).
      set (r1 := with_st r (hold (r_st r) i)).
      assert (S1 : SOK ct (r_st r1)) by (apply sok_hold; assumption).
      assert (F1 : Forall2 (P (r_st r1)) xs ids').
      { eapply Forall2_impl'; [|exact F']. intros a b. apply Hp. }
      destruct (IH ids' r1 S1 F1) as [E2 L2]. rewrite (bind_ok _ _ _ _ _ E2). unfold ret.
      split.
      + unfold r1. cbn [r_st with_st]. rewrite holds_cons. reflexivity.
      + intros j [<-|Hj]; [exact L | apply (L2 j Hj)].
  Qed.
End Lookups.

Section Single.
  Variable ct : ctable.
  Variables cd cs cc cm cr : nat.
  Hypothesis CO : cfg_okb ct cd cs cc cm cr = true.
  Notation G := (g cd cs cc cm cr).
  Notation cls_of := (cls_of cd cs cc cm cr).
  Notation Core := (Core cd cs cc cm cr ct).
  Notation SInv := (SInv cd cs cc cm cr ct).
  Notation Built := (Built cd cs cc cm cr).

  Lemma firstn_roots (a b : list (option nat)) : firstn (length a) (a ++ b) = a.
  Proof. rewrite firstn_app, Nat.sub_diag, firstn_all. cbn. apply app_nil_r. Qed.

  (* the if/elif chain for a new strand, complex or macrostate *)
  Lemma file_obj_kind k i nm acc r key extra ch d top :
    In k [KindS; KindC; KindM] ->
    heap (r_st r) = new_obj (cls_of k) nm key extra ch d :: top -> i = length top ->
    file_obj ct G (RObj i) acc r = (r, Ok (with_dict k acc (dset nm i (dict_of k acc)), [i])).
  Proof.
    intros Hk Hh ->.
    assert (Ho : hget (heap (r_st r)) (length top) = Some (new_obj (cls_of k) nm key extra ch d))
      by (rewrite Hh; apply hget_new).
    assert (On : oname (r_st r) (length top) = nm) by (unfold oname, obj_name; rewrite Ho; reflexivity).
    assert (Cl : ClsAt (length top) (cls_of k) r) by (unfold ClsAt, cls_at; rewrite Ho; reflexivity).
    destruct Hk as [<-|[<-|[<-|[]]]].
    - rewrite (file_obj_strand ct cd cs cc cm cr (length top) acc r), On; [reflexivity| |].
      + unfold isinst. rewrite Ho. cbn [o_cls new_obj ReaderSysA.cls_of].
        destruct (co_io ct cd cs cc cm cr CO) as [E _]. exact E.
      + unfold isinst. rewrite Ho. cbn [o_cls new_obj ReaderSysA.cls_of]. apply subclass_refl.
    - rewrite (file_obj_cplx ct cd cs cc cm cr CO (length top) acc r Cl), On. reflexivity.
    - rewrite (file_obj_mac ct cd cs cc cm cr CO (length top) acc r Cl), On. reflexivity.
  Qed.

  (* a statement that looks objects up (temps) and creates one object of kind k *)
  Theorem step_single prev r acc line s k nm key extra ch d temps cn' :
    SInv prev r acc -> decode line = Ok s -> In k [KindS; KindC; KindM] ->
    let st := r_st r in
    let i := length (heap st) in
    exec_stmt ct G line s r =
      (mkR (hold (mk_new (holds st temps) (cls_of k) nm key extra ch d) i) (r_seq r) cn' (r_rate r), Ok (RObj i)) ->
    Fresh st (cls_of k) nm key extra ->
    (forall x, In x ch -> is_live (heap st) x = true) ->
    ObjOK (new_obj (cls_of k) nm key extra ch d) ->
    (forall k' n, In n (declared k' [s]) -> k' = k /\ n = nm) -> In nm (declared k [s]) ->
    decl_doms [s] = [] -> decl_rxns [s] = [] ->
    (forall j, j <> i -> attr_get j cn' = attr_get j (r_conc r)) ->
    let r' := mkR (hold (mk_new st (cls_of k) nm key extra ch d) i) (r_seq r) cn' (r_rate r) in
    let acc' := with_dict k acc (dset nm i (dict_of k acc)) in
    (Core (prev ++ [s]) r' acc' -> Later r acc r' acc' -> Built r' acc' s) ->
    (forall n0 names sst, In (n0, (names, sst)) (cplx_entry prev s) ->
       Later r acc r' acc' -> exists conc, BuiltCplx cc r' acc' n0 names sst conc) ->
    (forall accR, read_one ct G None (TList line) accR r = (r', Ok (apply_delta (FKind k nm i) accR))) /\
    SInv (prev ++ [s]) r' acc' /\ Later r acc r' acc'.
  Proof.
    intros [C B] Hdec Hk st i Hex HF Hch HO Hdecl Hnm Hdd Hdr Hattr r' acc' HB Hent.
    assert (HkR : k <> KindR) by (destruct Hk as [<-|[<-|[<-|[]]]]; discriminate).
    assert (HkD : k <> KindD) by (destruct Hk as [<-|[<-|[<-|[]]]]; discriminate).
    destruct (core_add ct cd cs cc cm cr CO prev (prev ++ [s]) r acc k nm key extra ch d (r_seq r) cn' (r_rate r)
                C HkR HF Hch HO) as [C' L'].
    { intros E. contradiction. }
    { intros k' n Hn. apply declared_app. left. exact Hn. }
    { apply declared_app. right. exact Hnm. }
    { intros x l Hx. rewrite decl_doms_app, Hdd, app_nil_r in Hx. apply (si_decl _ _ _ _ _ _ _ _ _ C x l Hx). }
    { intros ri Hri. apply in_or_app. left. exact Hri. }
    { intros j Hj. fold st in Hj. fold i in Hj. split; [reflexivity|]. split; [apply Hattr; exact Hj | reflexivity]. }
    { intros n0 names0 sst0 Hin. rewrite decl_cplx_snoc in Hin. apply in_app_or in Hin.
      destruct Hin as [Hin|Hin]; [left; exact Hin | right; apply Hent; exact Hin]. }
    fold st in C', L'. fold i in C', L'. fold r' in C', L'. fold acc' in C', L'.
    set (r1 := mkR (hold (mk_new (holds st temps) (cls_of k) nm key extra ch d) i) (r_seq r) cn' (r_rate r)) in Hex.
    assert (Ecut : cut_roots (r_st r1) (length (roots st)) [i] = r_st r').
    { unfold r1, r', cut_roots, holds, hold. cbn [r_st]. rewrite mk_new_with_roots.
      unfold with_roots. cbn [heap classes roots map]. rewrite roots_mk_new, <- app_assoc, firstn_roots. reflexivity. }
    assert (E3 : forall accR, read_one ct G None (TList line) accR r = (r', Ok (apply_delta (FKind k nm i) accR))).
    { intros accR.
      assert (Ef : file_obj ct G (RObj i) accR r1 = (r1, Ok (apply_delta (FKind k nm i) accR, [i]))).
      { apply (file_obj_kind k i nm accR r1 key extra ch d (heap st) Hk); reflexivity. }
      pose proof (read_one_ok ct cd cs cc cm cr line s accR r r1 (RObj i) r1 _ Hdec Hex Ef) as E3.
      cbn [fst snd] in E3. fold st in E3.
      rewrite Ecut, (collect_id ct _ (si_sok _ _ _ _ _ _ _ _ _ C')) in E3. exact E3. }
    split; [exact E3|]. split; [|exact L']. split; [exact C'|].
    intros s0 Hs0. apply in_app_or in Hs0. destruct Hs0 as [Hs0|[<-|[]]].
    - eapply built_later; [exact L' | apply B; exact Hs0].
    - apply HB; assumption.
  Qed.
End Single.
