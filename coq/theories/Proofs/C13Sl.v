(* C13: round trip of the sequence-constraint statement
     sequence NAME[*] (=|:) LETTERS [(=|:) DIGITS]
   for all names, constraints, numbers and layouts. *)
From Coq Require Import List NArith Bool Arith Lia.
From DSD Require Import Base.Str Base.Val Model.Peg Model.DispatchPeg Proofs.PegMono Proofs.PegRules Proofs.PegStd
  Proofs.PegDoc Proofs.PegKw Proofs.C13Doc Proofs.PilLex.
From DSDGen Require Import PilGrammar.
Import ListNotations.

Definition kw_sequence : pstr := [115; 101; 113; 117; 101; 110; 99; 101]%N.
Definition tag_sl : pstr := [115; 108; 45; 100; 111; 109; 97; 105; 110]%N.   (* sl-domain *)

Record sl_stmt := mkSl { sl_n0 : chr; sl_ns : pstr; sl_star : bool; sl_c0 : chr; sl_cs : pstr; sl_num : option optnum }.
Record sl_layout := mkSlLayout { sl_b1 : pstr; sl_b2 : pstr; sl_sgn : chr; sl_b3 : pstr }.
Definition sl_name (s : sl_stmt) : pstr := sl_n0 s :: sl_ns s ++ star_s (sl_star s).
Definition sl_stmt_ok (s : sl_stmt) : Prop :=
  memc (sl_n0 s) idch = true /\ all_in idch (sl_ns s) /\
  memc (sl_c0 s) alpha = true /\ all_in alpha (sl_cs s) /\
  match sl_num s with Some o => optnum_ok o | None => True end.
Definition sl_layout_ok (y : sl_layout) : Prop :=
  blanks WS (sl_b1 y) /\ blanks WS (sl_b2 y) /\ blanks WS (sl_b3 y) /\ (sl_sgn y = 61%N \/ sl_sgn y = 58%N).

Definition sl_render (s : sl_stmt) (y : sl_layout) : pstr :=
  kw_sequence ++ sl_b1 y ++ sl_name s ++ sl_b2 y ++ sl_sgn y :: sl_b3 y ++ (sl_c0 s :: sl_cs s) ++ optnum_text (sl_num s).
Definition sl_tree (s : sl_stmt) : tok :=
  TList ([TStr tag_sl; TStr (sl_name s); TStr (sl_c0 s :: sl_cs s)] ++ optnum_toks (sl_num s)).

Lemma alpha_stop : forallb stopc alpha = true.
Proof. vm_compute. reflexivity. Qed.
Lemma ws_not_alpha : forallb (fun w => negb (memc w alpha)) WS = true.
Proof. vm_compute. reflexivity. Qed.

Theorem roundtrip_sl_domain s y :
  sl_stmt_ok s -> sl_layout_ok y -> pil_body_ok (sl_render s y) [sl_tree s].
Proof.
  intros (H0 & Hns & Hc0 & Hcs & Hnum) (Hb1 & Hb2 & Hb3 & Hsgn) full b E k Hb Hk.
  unfold sl_render, sl_name, kw_sequence. norm_text.
  assert (Hsg : stopc (sl_sgn y) = true) by (destruct Hsgn as [-> | ->]; reflexivity).
  eapply evals_eq.
  - eapply evals_node_ok; [lk|cbn; reflexivity|]. apply impls_first; [reflexivity|]. cbn [nkids].
    apply firsts_hit.
    eapply (evals_kw_alt_ok G full pil_c WS pil_comment_ok 9 10 11 12); [lk|lk|lk|lk| |].
    { rewrite spre_blanks_stop by (try exact Hb; reflexivity). cbn. reflexivity. }
    eapply seqs_cons.
    { eapply (ev_domain full true _ (sl_n0 s) (sl_ns s) (sl_star s)); [|exact H0|exact Hns|].
      - apply spre_blanks_stop; [exact Hb1|apply idch_stop; exact H0].
      - intros _. split; (apply nohead_blanks; [|exact Hb2|]).
        + vm_compute; reflexivity.
        + destruct Hsgn as [-> | ->]; reflexivity.
        + vm_compute; reflexivity.
        + destruct Hsgn as [-> | ->]; reflexivity. }
    eapply seqs_cons.
    { eapply (ev_assign full 18 true _ (sl_sgn y)); [lk| |exact Hsgn].
      apply spre_blanks_stop; [exact Hb2|exact Hsg]. }
    eapply seqs_cons.
    { eapply (evals_word G full pil_c WS pil_comment_ok 22 true true _ _ _ (sl_c0 s) (sl_cs s)); [lk| |exact Hc0|exact Hcs|].
      - cbn [andb]. apply spre_blanks_stop; [exact Hb3|apply idch_stop, alpha_idch; exact Hc0].
      - destruct (sl_num s) as [o|]; cbn [optnum_text app].
        + destruct Hnum as (Ho1 & Ho2 & _). norm_text.
          apply nohead_blanks; [exact ws_not_alpha|exact Ho1|]. destruct Ho2 as [-> | ->]; reflexivity.
        + apply pil_end_nohead; [exact Hk|exact alpha_stop]. }
    apply (seqs_optnum_end full 23 24 25 27 28 29 (sl_num s) E k); try lk; try (eexists; lk); assumption.
  - unfold sl_tree. reflexivity.
Qed.

Theorem roundtrip_sl_domain_parse s y b E :
  sl_stmt_ok s -> sl_layout_ok y -> blanks WS b -> stmt_end E [] ->
  no_tab (b ++ sl_render s y ++ E) ->
  exists f0, forall f, f0 <= f -> parse_pil_fuel f (b ++ sl_render s y ++ E) = vals [sl_tree s].
Proof.
  intros Hs Hy Hb HE Hnt. apply pil_statement_parse; try assumption.
  - unfold sl_render. cbn. repeat split; reflexivity.
  - apply roundtrip_sl_domain; assumption.
Qed.

(* non-vacuity: `sequence a1 = CTAGA : 6` newline; the constraint may be `short` *)
Example sl_example :
  let s := mkSl 97%N [49%N] false 67%N [84; 65; 71; 65]%N (Some (mkOptnum [32%N] 58%N [32%N] 54%N [])) in
  let y := mkSlLayout [32%N] [32%N] 61%N [32%N] in
  sl_stmt_ok s /\ sl_layout_ok y /\ parse_pil (sl_render s y ++ [NL]) = vals [sl_tree s].
Proof.
  cbn zeta. split; [|split].
  - cbn. repeat split; try reflexivity. right. reflexivity.
  - cbn. repeat split; try reflexivity. left. reflexivity.
  - vm_compute. reflexivity.
Qed.
