(* C13: lexical sub-expressions of the regenerated PIL table (identifier,
   domain name, assignment sign, number, end of line) as derived rules. *)
From Coq Require Import List NArith Bool Arith Lia.
From DSD Require Import Base.Str Model.Peg Proofs.PegMono Proofs.PegRules Proofs.PegStd Proofs.PegDoc
  Proofs.PegKw Proofs.C13Doc.
From DSDGen Require Import PilGrammar.
Import ListNotations.

Notation G := pil_nodes.
Notation WS := pil_ws.
Notation spre := (std_pre pil_ws).
Definition idch : list chr := pil_cs1.     (* alphanums + "_-" *)
Definition alpha : list chr := pil_cs2.
Definition digit : list chr := pil_cs3.

(* table lookups by computation (the character sets stay folded) *)
Ltac lk := cbv [pil_nodes nth_error]; reflexivity.

(* ---- character classes ---- *)
Notation stopc := (PegStd.stopc pil_ws).
Lemma stopc_elim d : stopc d = true -> memc d WS = false /\ N.eqb d HASH = false /\ N.eqb d NL = false.
Proof. apply PegStd.stopc_elim. Qed.
Lemma idch_stop d : memc d idch = true -> stopc d = true.
Proof. apply memc_forallb. vm_compute. reflexivity. Qed.
Lemma digit_idch d : memc d digit = true -> memc d idch = true.
Proof. apply (memc_forallb digit (fun d => memc d idch)). vm_compute. reflexivity. Qed.
Lemma alpha_idch d : memc d alpha = true -> memc d idch = true.
Proof. apply (memc_forallb alpha (fun d => memc d idch)). vm_compute. reflexivity. Qed.

Lemma spre_blanks b r : blanks WS b -> spre (b ++ r) = spre r.
Proof. apply std_pre_blanks. Qed.
Lemma spre_stop d r : stopc d = true -> spre (d :: r) = d :: r.
Proof. intros H. apply stopc_elim in H as (H1 & H2 & _). apply std_pre_stop; assumption. Qed.
Lemma spre_blanks_stop b d r : blanks WS b -> stopc d = true -> spre (b ++ d :: r) = d :: r.
Proof. intros Hb Hd. rewrite spre_blanks by exact Hb. apply spre_stop. exact Hd. Qed.

(* heads *)
Lemma nohead_cons cs d r : memc d cs = false -> nohead cs (d :: r).
Proof. intros H. exact H. Qed.
Lemma nohead_blanks cs b r :
  forallb (fun w => negb (memc w cs)) WS = true -> blanks WS b -> nohead cs r -> nohead cs (b ++ r).
Proof.
  intros Hd Hb Hr. destruct b as [|w b]; [exact Hr|]. cbn.
  unfold blanks in Hb. cbn in Hb. apply andb_prop in Hb as [Hw _].
  apply negb_true_iff. apply (memc_forallb WS (fun w => negb (memc w cs)) w Hd Hw).
Qed.
Lemma starts_with_nohead d s r : nohead [d] r -> starts_with (d :: s) r = None.
Proof.
  destruct r as [|e r]; [reflexivity|]. cbn. intros H. rewrite N.eqb_sym.
  destruct (N.eqb e d); [discriminate|reflexivity].
Qed.
Lemma nohead_weaken cs cs' r : (forall d, memc d cs' = true -> memc d cs = true) -> nohead cs r -> nohead cs' r.
Proof.
  intros H. destruct r as [|d r]; [trivial|]. cbn. intros Hd.
  destruct (memc d cs') eqn:E; [|reflexivity]. rewrite (H d E) in Hd. discriminate.
Qed.
(* ---- identifier: Word(alphanums + "_-"), node 61 ---- *)
Lemma ev_ident full (cp : bool) (x : pstr) (n0 : chr) (ns r : pstr) :
  (if cp then spre x else x) = n0 :: ns ++ r ->
  memc n0 idch = true -> all_in idch ns -> nohead idch r ->
  evals G full 61 cp (At x) (POk (At r) [TStr (n0 :: ns)]).
Proof.
  intros Hx H0 Hs Hr.
  eapply (evals_word G full pil_c WS pil_comment_ok 61 cp true); [lk| |exact H0|exact Hs|exact Hr].
  rewrite andb_true_r. exact Hx.
Qed.

(* ---- domain name: Combine(identifier + Opt('*')), node 13 ---- *)
Definition star_s (star : bool) : pstr := if star then [42%N] else [].

Lemma ev_domain full (cp : bool) (x : pstr) (n0 : chr) (ns : pstr) (star : bool) (r : pstr) :
  (if cp then spre x else x) = n0 :: ns ++ star_s star ++ r ->
  memc n0 idch = true -> all_in idch ns ->
  (star = false -> nohead idch r /\ nohead [42%N] r) ->
  evals G full 13 cp (At x) (POk (At r) [TStr (n0 :: ns ++ star_s star)]).
Proof.
  intros Hx H0 Hs Hr.
  assert (Hhead : evals G full 15 false (At (n0 :: ns ++ star_s star ++ r)) (POk (At (star_s star ++ r)) [TStr (n0 :: ns)])).
  { eapply (evals_word_plain G full pil_c WS pil_comment_ok 15 false true); [lk|exact H0|exact Hs|].
    destruct star; [reflexivity|]. apply Hr. reflexivity. }
  assert (Hopt : evals G full 16 true (At (star_s star ++ r)) (POk (At r) (if star then [TStr [42%N]] else []))).
  { destruct star.
    - eapply evals_eq.
      + eapply evals_node_ok; [lk|apply (pre_premise_plain G full pil_c WS pil_comment_ok); split; reflexivity|].
        eapply impls_opt_some; [reflexivity|reflexivity|].
        eapply evals_eq; [apply (evals_lit_plain G full pil_c WS pil_comment_ok 17 false true); lk|]. reflexivity.
      + reflexivity.
    - eapply evals_eq.
      + eapply evals_node_ok; [lk|apply (pre_premise_plain G full pil_c WS pil_comment_ok); split; reflexivity|].
        eapply impls_opt_none; [reflexivity|reflexivity|].
        eapply evals_eq; [apply (evals_lit_plain G full pil_c WS pil_comment_ok 17 false true); lk|].
        change (star_s false ++ r) with r. unfold lit_res.
        pose proof (starts_with_nohead 42%N [] r (proj2 (Hr eq_refl))) as E.
        unfold chr, pstr in *. rewrite E. reflexivity.
      + reflexivity. }
  eapply evals_eq.
  - eapply evals_node_ok; [lk|apply (pre_premise G full pil_c WS pil_comment_ok); repeat split|].
    unfold pre_pos. cbn [ncallpre]. rewrite andb_true_r, Hx.
    eapply impls_wrap; [reflexivity|reflexivity|].
    eapply evals_node_ok; [lk|cbn; reflexivity|].
    eapply impls_and; [reflexivity|reflexivity|exact Hhead|].
    eapply seqs_cons; [exact Hopt|apply seqs_nil].
  - destruct star; cbn; rewrite ?app_nil_r; reflexivity.
Qed.

(* ---- assignment sign: Suppress(L("=") | L(":")), any Suppress over node 19 ---- *)
Lemma ev_assign full i cp x sgn r :
  nth_error G i = Some (mkNode KSuppress [19] true WS [pil_c] false []) ->
  spre x = sgn :: r -> (sgn = 61%N \/ sgn = 58%N) ->
  evals G full i cp (At x) (POk (At r) []).
Proof.
  intros Hi Hx Hs.
  assert (H19 : evals G full 19 false (At x) (POk (At r) [TStr [sgn]])).
  { eapply evals_eq.
    - eapply evals_node_ok; [lk|cbn; reflexivity|]. apply impls_first; [reflexivity|]. cbn [nkids].
      destruct Hs as [-> | ->].
      + apply firsts_hit. eapply evals_eq; [apply (evals_lit G full pil_c WS pil_comment_ok 20 true true); lk|].
        cbn [andb]. rewrite Hx. reflexivity.
      + eapply firsts_miss.
        * eapply evals_eq; [apply (evals_lit G full pil_c WS pil_comment_ok 20 true true); lk|].
          cbn [andb]. rewrite Hx. reflexivity.
        * apply firsts_hit. eapply evals_eq; [apply (evals_lit G full pil_c WS pil_comment_ok 21 true true); lk|].
          cbn [andb]. rewrite Hx. reflexivity.
    - reflexivity. }
  eapply evals_eq.
  - eapply evals_node_ok; [exact Hi|rewrite andb_false_r; reflexivity|].
    eapply impls_wrap; [reflexivity|reflexivity|exact H19].
  - reflexivity.
Qed.

(* ---- number: Word(nums), node 26 ---- *)
Lemma ev_number full (cp : bool) (x : pstr) (d0 : chr) (ds r : pstr) :
  (if cp then spre x else x) = d0 :: ds ++ r ->
  memc d0 digit = true -> all_in digit ds -> nohead digit r ->
  evals G full 26 cp (At x) (POk (At r) [TStr (d0 :: ds)]).
Proof.
  intros Hx H0 Hs Hr.
  eapply (evals_word G full pil_c WS pil_comment_ok 26 cp true); [lk| |exact H0|exact Hs|exact Hr].
  rewrite andb_true_r. exact Hx.
Qed.

(* ---- domain length: number | 'short' | 'long', node 35 ---- *)
Inductive dlen := DNum (d0 : chr) (ds : pstr) | DShort | DLong.
Definition dlen_text (d : dlen) : pstr :=
  match d with
  | DNum d0 ds => d0 :: ds
  | DShort => [115; 104; 111; 114; 116]%N
  | DLong => [108; 111; 110; 103]%N
  end.
Definition dlen_ok (d : dlen) (r : pstr) : Prop :=
  match d with
  | DNum d0 ds => memc d0 digit = true /\ all_in digit ds /\ nohead digit r
  | _ => True
  end.

Lemma ev_dlength full cp x d r :
  spre x = dlen_text d ++ r -> dlen_ok d r ->
  evals G full 35 cp (At x) (POk (At r) [TStr (dlen_text d)]).
Proof.
  intros Hx Hd.
  assert (Hf : firsts G full [26; 36; 37] (At x) (POk (At r) [TStr (dlen_text d)])).
  { destruct d as [d0 ds| |].
    + destruct Hd as (H0 & Hs & Hr). apply firsts_hit. apply ev_number; [exact Hx|exact H0|exact Hs|exact Hr].
    + eapply firsts_miss.
      * eapply (evals_word_fail G full pil_c WS pil_comment_ok 26 true true); [lk|].
        cbn [andb]. rewrite Hx. reflexivity.
      * apply firsts_hit. eapply evals_eq; [apply (evals_lit G full pil_c WS pil_comment_ok 36 true true); lk|].
        cbn [andb]. rewrite Hx. unfold lit_res. cbn [dlen_text]. rewrite starts_with_app. reflexivity.
    + eapply firsts_miss.
      * eapply (evals_word_fail G full pil_c WS pil_comment_ok 26 true true); [lk|].
        cbn [andb]. rewrite Hx. reflexivity.
      * eapply firsts_miss.
        -- eapply evals_eq; [apply (evals_lit G full pil_c WS pil_comment_ok 36 true true); lk|].
           cbn [andb]. rewrite Hx. reflexivity.
        -- apply firsts_hit. eapply evals_eq; [apply (evals_lit G full pil_c WS pil_comment_ok 37 true true); lk|].
           cbn [andb]. rewrite Hx. unfold lit_res. cbn [dlen_text]. rewrite starts_with_app. reflexivity. }
  eapply evals_eq.
  - eapply evals_node_ok; [lk|rewrite andb_false_r; reflexivity|]. apply impls_first; [reflexivity|exact Hf].
  - reflexivity.
Qed.

(* ---- end of statement: OneOrMore(Suppress(LineEnd)) ---- *)
Notation stmt_end := (PegDoc.stmt_end pil_ws).
Lemma ev_end full m sl le cp E k :
  nth_error G m = Some (mkNode (KMany true) [sl] true WS [pil_c] cp []) ->
  nth_error G sl = Some (mkNode KSuppress [le] true WS [pil_c] true []) ->
  (exists cpl, nth_error G le = Some (mkNode KLineEnd [] true WS [pil_c] cpl [])) ->
  stmt_end E k -> evals G full m true (At (E ++ k)) (POk (after WS k) []).
Proof.
  intros Hm Hsl Hle. exact (evals_end G pil_c sl le WS pil_comment_ok Hsl Hle full m cp E k Hm).
Qed.
Lemma pil_end_nohead E k cs : stmt_end E k -> forallb stopc cs = true -> nohead cs (E ++ k).
Proof. apply (end_nohead WS). Qed.

(* ---- delimitedList(identifier, d): identifier (d identifier)* ---- *)
Record member := mkMember { m_b1 : pstr; m_b2 : pstr; m_n0 : chr; m_ns : pstr }.
Definition member_ok (m : member) : Prop :=
  blanks WS (m_b1 m) /\ blanks WS (m_b2 m) /\ memc (m_n0 m) idch = true /\ all_in idch (m_ns m).
Definition m_name (m : member) : pstr := m_n0 m :: m_ns m.
Fixpoint members_text (d : chr) (ms : list member) (r : pstr) : pstr :=
  match ms with
  | [] => r
  | m :: ms' => m_b1 m ++ d :: m_b2 m ++ m_n0 m :: m_ns m ++ members_text d ms' r
  end.
(* ZeroOrMore returns its pre-parsed position when nothing matches *)
Definition zpos (ms : list member) (r : pstr) : pstr := match ms with [] => spre r | _ => r end.
Lemma spre_idem x : spre (spre x) = spre x.
Proof. apply (std_pre_idem G pil_c WS pil_comment_ok). Qed.
Lemma spre_skip_ign x : spre (std_skip_ign WS x) = spre x.
Proof. apply (std_pre_skip_ign G pil_c WS pil_comment_ok). Qed.
Lemma spre_zpos ms r : spre (zpos ms r) = spre r.
Proof. destruct ms; [apply spre_idem|reflexivity]. Qed.

Section DelimitedList.
  Variables dl an zm an2 sc lit : nat.
  Variable d : chr.
  Hypothesis Hdl : nth_error G dl = Some (mkNode KPass [an] true WS [pil_c] true []).
  Hypothesis Han : nth_error G an = Some (mkNode KAnd [61; zm] true WS [pil_c] true []).
  Hypothesis Hzm : nth_error G zm = Some (mkNode (KMany false) [an2] true WS [pil_c] true []).
  Hypothesis Han2 : nth_error G an2 = Some (mkNode KAnd [sc; 61] true WS [pil_c] true []).
  Hypothesis Hsc : nth_error G sc = Some (mkNode KSuppress [lit] true WS [pil_c] true []).
  Hypothesis Hlit : nth_error G lit = Some (mkNode (KLit [d]) [] true WS [pil_c] true []).
  Hypothesis Hd_stop : stopc d = true.
  Hypothesis Hd_id : memc d idch = false.

  (* after the list: not the delimiter (after blanks / a comment), not an identifier character *)
  Definition list_stop (r : pstr) : Prop := nohead idch r /\ nohead [d] (spre r).

  Lemma members_nohead ms r : Forall member_ok ms -> nohead idch r -> nohead idch (members_text d ms r).
  Proof.
    intros Hms Hr. destruct ms as [|m ms]; [exact Hr|]. cbn [members_text].
    inversion Hms as [|? ? (Hb1 & _) _]; subst.
    apply nohead_blanks; [vm_compute; reflexivity|exact Hb1|]. exact Hd_id.
  Qed.

  (* one more member: d identifier *)
  Lemma ev_member full x m rest :
    member_ok m -> spre x = d :: m_b2 m ++ m_n0 m :: m_ns m ++ rest -> nohead idch rest ->
    evals G full an2 true (At x) (POk (At rest) [TStr (m_name m)]).
  Proof.
    intros (Hb1 & Hb2 & H0 & Hns) Hx Hrest.
    eapply evals_eq.
    - eapply evals_node_ok; [exact Han2|apply (pre_premise G full pil_c WS pil_comment_ok); repeat split|].
      unfold pre_pos. cbn [andb ncallpre]. rewrite Hx.
      eapply impls_and; [reflexivity|reflexivity| |].
      + eapply evals_eq; [apply (evals_slit G full pil_c WS pil_comment_ok sc lit false true true [d] _ Hsc Hlit)|].
        cbn [andb]. unfold lit_res. cbn [starts_with]. rewrite N.eqb_refl. reflexivity.
      + eapply seqs_cons; [|apply seqs_nil].
        apply (ev_ident full true _ (m_n0 m) (m_ns m) rest); [|exact H0|exact Hns|exact Hrest].
        apply spre_blanks_stop; [exact Hb2|apply idch_stop; exact H0].
    - reflexivity.
  Qed.
  Lemma ev_member_stop full x r : spre x = spre r -> nohead [d] (spre r) -> evals G full an2 true (At x) PFail.
  Proof.
    intros Hx Hr.
    eapply evals_node_fail; [exact Han2|apply (pre_premise G full pil_c WS pil_comment_ok); repeat split|].
    unfold pre_pos. cbn [andb ncallpre]. rewrite Hx.
    eapply impls_and_fail; [reflexivity|reflexivity|].
    eapply evals_eq; [apply (evals_slit G full pil_c WS pil_comment_ok sc lit false true true [d] _ Hsc Hlit)|].
    cbn [andb]. unfold lit_res. rewrite (starts_with_nohead d [] _ Hr). reflexivity.
  Qed.

  Lemma loops_members full ms : forall r acc, Forall member_ok ms -> list_stop r ->
    loops G full [pil_c] an2 (At (members_text d ms r)) acc (POk (At r) (acc ++ map (fun m => TStr (m_name m)) ms)).
  Proof.
    induction ms as [|m ms IH]; intros r acc Hms (Hr1 & Hr2).
    - cbn [members_text map]. rewrite app_nil_r.
      eapply loops_stop; [apply (skips_std G full pil_c WS pil_comment_ok)|].
      apply (ev_member_stop full _ r); [apply spre_skip_ign|exact Hr2].
    - inversion Hms as [|? ? Hm Hms']; subst. cbn [members_text map].
      eapply loops_step; [apply (skips_std G full pil_c WS pil_comment_ok)| |].
      + apply (ev_member full _ m (members_text d ms r) Hm).
        * rewrite spre_skip_ign. destruct Hm as (Hb1 & _). apply spre_blanks_stop; [exact Hb1|exact Hd_stop].
        * apply members_nohead; assumption.
      + replace (acc ++ TStr (m_name m) :: map (fun m0 => TStr (m_name m0)) ms)
          with ((acc ++ [TStr (m_name m)]) ++ map (fun m0 => TStr (m_name m0)) ms)
          by (rewrite <- app_assoc; reflexivity).
        apply IH; [exact Hms'|split; assumption].
  Qed.

  Lemma ev_delimited full (cp : bool) (x : pstr) (n0 : chr) (ns : pstr) ms r :
    (if cp then spre x else x) = n0 :: ns ++ members_text d ms r ->
    memc n0 idch = true -> all_in idch ns -> Forall member_ok ms -> list_stop r ->
    evals G full dl cp (At x)
      (POk (At (zpos ms r)) (TStr (n0 :: ns) :: map (fun m => TStr (m_name m)) ms)).
  Proof.
    intros Hx H0 Hns Hms Hr.
    assert (Hzm' : evals G full zm true (At (members_text d ms r))
                     (POk (At (zpos ms r)) (map (fun m => TStr (m_name m)) ms))).
    { destruct ms as [|m ms].
      - cbn [members_text map zpos]. eapply evals_eq.
        + eapply evals_node_ok; [exact Hzm|apply (pre_premise G full pil_c WS pil_comment_ok); repeat split|].
          unfold pre_pos. cbn [andb ncallpre].
          eapply (impls_many_none G full _ false); [reflexivity|reflexivity|].
          apply (ev_member_stop full _ r); [apply spre_idem|apply Hr].
        + reflexivity.
      - inversion Hms as [|? ? Hm Hms']; subst. cbn [members_text map zpos]. eapply evals_eq.
        + eapply evals_node_ok; [exact Hzm|apply (pre_premise G full pil_c WS pil_comment_ok); repeat split|].
          unfold pre_pos. cbn [andb ncallpre].
          eapply impls_many; [reflexivity|reflexivity| |].
          * apply (ev_member full _ m (members_text d ms r) Hm).
            -- rewrite spre_idem. destruct Hm as (Hb1 & _). apply spre_blanks_stop; [exact Hb1|exact Hd_stop].
            -- apply members_nohead; [exact Hms'|apply Hr].
          * cbn [nign]. apply (loops_members full ms r [TStr (m_name m)] Hms' Hr).
        + reflexivity. }
    eapply evals_eq.
    - eapply evals_node_ok; [exact Hdl|apply (pre_premise G full pil_c WS pil_comment_ok); repeat split|].
      unfold pre_pos. cbn [ncallpre]. rewrite andb_true_r, Hx.
      eapply impls_wrap; [reflexivity|reflexivity|].
      eapply evals_node_ok; [exact Han|cbn; reflexivity|].
      eapply impls_and; [reflexivity|reflexivity| |].
      + apply (ev_ident full false _ n0 ns _ eq_refl H0 Hns). apply members_nohead; [exact Hms|apply Hr].
      + eapply seqs_cons; [exact Hzm'|apply seqs_nil].
    - reflexivity.
  Qed.
End DelimitedList.

(* ---- more lexical facts ---- *)
(* what a statement end looks like to the next element: a newline or the end of the input *)
Lemma end_spre E k : stmt_end E k -> (exists z, spre (E ++ k) = NL :: z) \/ spre (E ++ k) = [].
Proof.
  intros [(l & ls & -> & Hl & _) | (-> & HE)].
  - left. rewrite <- app_assoc. eexists. apply Hl.
  - right. rewrite app_nil_r. exact HE.
Qed.
Lemma end_nohead_spre E k cs : stmt_end E k -> memc NL cs = false -> nohead cs (spre (E ++ k)).
Proof. intros H Hc. destruct (end_spre E k H) as [(z & ->) | ->]; [exact Hc|exact I]. Qed.

Lemma ev_end_spre full m sl le E k :
  nth_error G m = Some (mkNode (KMany true) [sl] true WS [pil_c] true []) ->
  nth_error G sl = Some (mkNode KSuppress [le] true WS [pil_c] true []) ->
  (exists cpl, nth_error G le = Some (mkNode KLineEnd [] true WS [pil_c] cpl [])) ->
  stmt_end E k -> evals G full m true (At (spre (E ++ k))) (POk (after WS k) []).
Proof.
  intros Hm Hsl Hle Hk.
  apply (evals_spre_inv G full pil_c WS pil_comment_ok m _ (E ++ k) _ Hm); [repeat split|reflexivity|].
  apply (ev_end full m sl le true); assumption.
Qed.

Lemma ev_assign_fail full i cp x :
  nth_error G i = Some (mkNode KSuppress [19] true WS [pil_c] false []) ->
  nohead [61; 58]%N (spre x) -> evals G full i cp (At x) PFail.
Proof.
  intros Hi Hx.
  assert (H61 : nohead [61%N] (spre x)) by (destruct (spre x) as [|e r]; [exact I|]; cbn in *; destruct (N.eqb e 61); [discriminate|reflexivity]).
  assert (H58 : nohead [58%N] (spre x)).
  { destruct (spre x) as [|e r]; [exact I|]. cbn in *. destruct (N.eqb e 61); [discriminate|].
    destruct (N.eqb e 58); [discriminate|reflexivity]. }
  eapply evals_node_fail; [exact Hi|rewrite andb_false_r; reflexivity|].
  eapply impls_wrap; [reflexivity|reflexivity|].
  eapply evals_node_fail; [lk|cbn; reflexivity|]. apply impls_first; [reflexivity|]. cbn [nkids].
  eapply firsts_miss.
  { eapply evals_eq; [apply (evals_lit G full pil_c WS pil_comment_ok 20 true true); lk|].
    cbn [andb]. unfold lit_res. pose proof (starts_with_nohead 61%N [] _ H61) as Es.
    unfold chr, pstr in *. rewrite Es. reflexivity. }
  eapply firsts_miss; [|apply firsts_nil].
  eapply evals_eq; [apply (evals_lit G full pil_c WS pil_comment_ok 21 true true); lk|].
  cbn [andb]. unfold lit_res. pose proof (starts_with_nohead 58%N [] _ H58) as Es.
  unfold chr, pstr in *. rewrite Es. reflexivity.
Qed.

Lemma ev_domain_fail full (cp : bool) (x : pstr) :
  nohead idch (if cp then spre x else x) -> evals G full 13 cp (At x) PFail.
Proof.
  intros Hx.
  eapply evals_node_fail; [lk|apply (pre_premise G full pil_c WS pil_comment_ok); repeat split|].
  unfold pre_pos. cbn [ncallpre]. rewrite andb_true_r.
  eapply impls_wrap; [reflexivity|reflexivity|].
  eapply evals_node_fail; [lk|cbn; reflexivity|].
  eapply impls_and_fail; [reflexivity|reflexivity|].
  eapply (evals_word_plain_fail G full pil_c WS pil_comment_ok 15 false true); [lk|exact Hx].
Qed.

(* optional `(=|:) number` : Opt [And [Suppress->19 ; 26]] *)
Record optnum := mkOptnum { on_b1 : pstr; on_sgn : chr; on_b2 : pstr; on_d0 : chr; on_ds : pstr }.
Definition optnum_ok (o : optnum) : Prop :=
  blanks WS (on_b1 o) /\ (on_sgn o = 61%N \/ on_sgn o = 58%N) /\ blanks WS (on_b2 o) /\
  memc (on_d0 o) digit = true /\ all_in digit (on_ds o).
Definition optnum_text (o : option optnum) : pstr :=
  match o with
  | Some o => on_b1 o ++ on_sgn o :: on_b2 o ++ on_d0 o :: on_ds o
  | None => []
  end.
Definition optnum_toks (o : option optnum) : list tok :=
  match o with Some o => [TStr (on_d0 o :: on_ds o)] | None => [] end.
(* position after the optional part: Opt returns its pre-parsed position when absent *)
Definition optnum_pos (o : option optnum) (r : pstr) : pstr := match o with Some _ => r | None => spre r end.

Ltac norm_text := repeat (rewrite <- app_assoc || rewrite <- app_comm_cons).

Lemma seqs_optnum_end full op an sa m sl le o E k acc :
  nth_error G op = Some (mkNode KOpt [an] true WS [pil_c] true []) ->
  nth_error G an = Some (mkNode KAnd [sa; 26] true WS [pil_c] true []) ->
  nth_error G sa = Some (mkNode KSuppress [19] true WS [pil_c] false []) ->
  nth_error G m = Some (mkNode (KMany true) [sl] true WS [pil_c] true []) ->
  nth_error G sl = Some (mkNode KSuppress [le] true WS [pil_c] true []) ->
  (exists cpl, nth_error G le = Some (mkNode KLineEnd [] true WS [pil_c] cpl [])) ->
  match o with Some o => optnum_ok o | None => True end -> stmt_end E k ->
  seqs G full [op; m] (At (optnum_text o ++ E ++ k)) acc (POk (after WS k) (acc ++ optnum_toks o)).
Proof.
  intros Hop Han Hsa Hm Hsl Hle Ho Hk. destruct o as [o|]; cbn [optnum_text optnum_toks app].
  - destruct Ho as (Hb1 & Hsgn & Hb2 & H0 & Hds). norm_text.
    assert (Hsg : stopc (on_sgn o) = true) by (destruct Hsgn as [-> | ->]; reflexivity).
    eapply seqs_cons.
    + eapply evals_eq.
      * eapply evals_node_ok; [exact Hop|apply (pre_premise G full pil_c WS pil_comment_ok); repeat split|].
        unfold pre_pos. cbn [andb ncallpre]. rewrite (spre_blanks_stop _ _ _ Hb1 Hsg).
        eapply impls_opt_some; [reflexivity|reflexivity|].
        eapply evals_node_ok; [exact Han|cbn; reflexivity|].
        eapply impls_and; [reflexivity|reflexivity| |].
        -- eapply (ev_assign full sa false _ (on_sgn o)); [exact Hsa|apply spre_stop; exact Hsg|exact Hsgn].
        -- eapply seqs_cons; [|apply seqs_nil].
           apply (ev_number full true _ (on_d0 o) (on_ds o) (E ++ k)); [|exact H0|exact Hds|].
           ++ apply spre_blanks_stop; [exact Hb2|apply idch_stop, digit_idch; exact H0].
           ++ apply pil_end_nohead; [exact Hk|vm_compute; reflexivity].
      * reflexivity.
    + eapply seqs_cons; [apply (ev_end full m sl le true); assumption|].
      rewrite app_nil_r. apply seqs_nil.
  - eapply seqs_cons.
    + eapply evals_eq.
      * eapply evals_node_ok; [exact Hop|apply (pre_premise G full pil_c WS pil_comment_ok); repeat split|].
        unfold pre_pos. cbn [andb ncallpre].
        eapply impls_opt_none; [reflexivity|reflexivity|].
        eapply evals_node_fail; [exact Han|cbn; reflexivity|].
        eapply impls_and_fail; [reflexivity|reflexivity|].
        apply (ev_assign_fail full sa false _ Hsa). rewrite spre_idem.
        apply end_nohead_spre; [exact Hk|reflexivity].
      * reflexivity.
    + eapply seqs_cons; [apply (ev_end_spre full m sl le); assumption|].
      rewrite !app_nil_r. apply seqs_nil.
Qed.
