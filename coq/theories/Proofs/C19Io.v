(* C19: round trips of  reporter[N, N]  and  INPUT(N | NAME) = w[N, N | f],
   for all numbers, names and layouts (blanks around every token);
   rejection of an input bound to a fluorophore. *)
From Coq Require Import List NArith Bool Arith Lia.
From DSD Require Import Base.Str Base.Errors Base.Val Model.Peg Model.DispatchPeg Proofs.PegMono Proofs.PegRules Proofs.PegStd
  Proofs.PegDoc Proofs.PegKw Proofs.C13Doc Proofs.C19Doc Proofs.C19Lex.
From DSDGen Require Import SeesawGrammar.
Import ListNotations.

Ltac norm_text := repeat (rewrite <- app_assoc || rewrite <- app_comm_cons).
Definition salpha : list chr := seesaw_cs2.
Definition sidch : list chr := seesaw_cs3.

Lemma ws_not_sdigit : forallb (fun w => negb (memc w sdigit)) WSs = true.
Proof. vm_compute. reflexivity. Qed.
Lemma ws_not_sidch : forallb (fun w => negb (memc w sidch)) WSs = true.
Proof. vm_compute. reflexivity. Qed.
Lemma salpha_stop d : memc d salpha = true -> sstopc d = true.
Proof. apply memc_forallb. vm_compute. reflexivity. Qed.
Lemma salpha_not_digit d : memc d salpha = true -> memc d sdigit = false.
Proof.
  intros H. apply negb_true_iff. revert H. apply (memc_forallb salpha (fun d => negb (memc d sdigit))). vm_compute. reflexivity.
Qed.

(* ---------------------------------------------------------------- reporter *)
Definition kw_reporter : pstr := [114; 101; 112; 111; 114; 116; 101; 114]%N.
Record rep_layout := mkRepLayout { rp_b1 : pstr; rp_b2 : pstr; rp_b3 : pstr; rp_b4 : pstr; rp_b5 : pstr }.
Definition rep_layout_ok (y : rep_layout) : Prop :=
  blanks WSs (rp_b1 y) /\ blanks WSs (rp_b2 y) /\ blanks WSs (rp_b3 y) /\ blanks WSs (rp_b4 y) /\ blanks WSs (rp_b5 y).
Definition rep_render (n1 n2 : num) (y : rep_layout) : pstr :=
  kw_reporter ++ rp_b1 y ++ 91%N :: rp_b2 y ++ num_text n1 ++ rp_b3 y ++ 44%N :: rp_b4 y ++ num_text n2 ++ rp_b5 y ++ [93%N].
Definition rep_tree (n1 n2 : num) : tok :=
  TList [TStr kw_reporter; TList [TStr (num_text n1); TStr (num_text n2)]].

Theorem roundtrip_reporter n1 n2 y : num_ok n1 -> num_ok n2 -> rep_layout_ok y ->
  ssw_body_ok (rep_render n1 n2 y) [rep_tree n1 n2].
Proof.
  intros (H10 & H1s) (H20 & H2s) (Hb1 & Hb2 & Hb3 & Hb4 & Hb5) full b E k Hb Hk.
  apply (sw_statement full b (rep_render n1 n2 y) E k (At (E ++ k)));
    [exact Hb|unfold rep_render, kw_reporter; cbn [app]; eexists _, _; split; reflexivity|exact Hk| |reflexivity|eexists; reflexivity].
  unfold rep_render, kw_reporter, num_text. norm_text.
  eapply firsts_miss; [eapply (sw_alt_fail full 11 12); [slk|slk|rewrite (std_pre_stop WSs) by reflexivity; reflexivity]|].
  eapply firsts_miss; [eapply (sw_alt_fail full 36 37); [slk|slk|rewrite (std_pre_stop WSs) by reflexivity; reflexivity]|].
  eapply firsts_miss; [eapply (sw_alt_fail full 54 55); [slk|slk|rewrite (std_pre_stop WSs) by reflexivity; reflexivity]|].
  eapply firsts_miss; [eapply (sw_alt_fail full 92 93); [slk|slk|rewrite (std_pre_stop WSs) by reflexivity; reflexivity]|].
  eapply firsts_miss; [eapply (sw_alt_fail full 125 126); [slk|slk|rewrite (std_pre_stop WSs) by reflexivity; reflexivity]|].
  eapply firsts_miss; [eapply (sw_alt_fail full 156 157); [slk|slk|rewrite (std_pre_stop WSs) by reflexivity; reflexivity]|].
  apply firsts_hit.
  eapply (sw_alt_ok full 187 188 _ [114; 101; 112; 111; 114; 116; 101; 114]%N); [slk|slk| |].
  { rewrite (std_pre_stop WSs) by reflexivity. reflexivity. }
  eapply seqs_cons.
  { eapply (sw_slit full 189 190 [91%N]); [slk|slk|]. apply sspre_blanks_stop; [exact Hb1|reflexivity]. }
  eapply seqs_cons.
  { eapply evals_eq.
    - eapply evals_node_ok; [slk|apply (pre_premise GS full ssw_c WSs ssw_comment_ok); repeat split|].
      unfold pre_pos. cbn [andb ncallpre]. rewrite sspre_blanks_stop by (try exact Hb2; apply sdigit_stop; exact H10).
      eapply impls_wrap; [reflexivity|reflexivity|].
      eapply evals_node_ok; [slk|cbn; reflexivity|].
      eapply impls_and; [reflexivity|reflexivity| |].
      + apply (sw_number full false _ (n_d0 n1) (n_ds n1) _ eq_refl H10 H1s).
        apply snohead_blanks; [exact ws_not_sdigit|exact Hb3|reflexivity].
      + eapply seqs_cons.
        { eapply (sw_slit full 193 194 [44%N]); [slk|slk|]. apply sspre_blanks_stop; [exact Hb3|reflexivity]. }
        eapply seqs_cons; [|apply seqs_nil].
        eapply (sw_number full true _ (n_d0 n2) (n_ds n2)); [|exact H20|exact H2s|].
        * apply sspre_blanks_stop; [exact Hb4|apply sdigit_stop; exact H20].
        * apply snohead_blanks; [exact ws_not_sdigit|exact Hb5|reflexivity].
    - reflexivity. }
  eapply seqs_cons; [|apply seqs_nil].
  eapply (sw_slit full 195 196 [93%N]); [slk|slk|]. apply sspre_blanks_stop; [exact Hb5|reflexivity].
Qed.

(* ---------------------------------------------------------------- wires *)
Inductive nf := NFnum (n : num) | NFf.
Definition nf_ok (x : nf) : Prop := match x with NFnum n => num_ok n | NFf => True end.
Definition nf_text (x : nf) : pstr := match x with NFnum n => num_text n | NFf => [102%N] end.

Record wire := mkWire { w_n : num; w_m : nf; w_b1 : pstr; w_b2 : pstr; w_b3 : pstr; w_b4 : pstr; w_b5 : pstr }.
Definition wire_ok (w : wire) : Prop :=
  num_ok (w_n w) /\ nf_ok (w_m w) /\
  blanks WSs (w_b1 w) /\ blanks WSs (w_b2 w) /\ blanks WSs (w_b3 w) /\ blanks WSs (w_b4 w) /\ blanks WSs (w_b5 w).
Definition wire_text (w : wire) : pstr :=
  119%N :: w_b1 w ++ 91%N :: w_b2 w ++ num_text (w_n w) ++ w_b3 w ++ 44%N :: w_b4 w ++ nf_text (w_m w) ++ w_b5 w ++ [93%N].
Definition wire_tree (w : wire) : tok :=
  TList [TStr [119%N]; TList [TStr (num_text (w_n w)); TStr (nf_text (w_m w))]].

(* number | 'f', node 32 *)
Lemma sw_nf full x m r : nf_ok m -> sspre x = nf_text m ++ r -> nohead sdigit r ->
  evals GS full 32 true (At x) (POk (At r) [TStr (nf_text m)]).
Proof.
  intros Hm Hx Hr. destruct m as [n|]; cbn [nf_text nf_ok] in *.
  - destruct Hm as (H0 & Hs). eapply evals_eq.
    + eapply evals_node_ok; [slk|cbn; reflexivity|]. apply impls_first; [reflexivity|]. cbn [nkids].
      apply firsts_hit. apply (sw_number full true x (n_d0 n) (n_ds n) r Hx H0 Hs Hr).
    + reflexivity.
  - eapply evals_eq.
    + eapply evals_node_ok; [slk|cbn; reflexivity|]. apply impls_first; [reflexivity|]. cbn [nkids].
      eapply firsts_miss; [apply (sw_number_fail full true x); cbn beta iota; rewrite Hx; reflexivity|].
      apply firsts_hit.
      eapply evals_eq; [apply (evals_lit GS full ssw_c WSs ssw_comment_ok 33 true true); slk|].
      cbn [andb]. rewrite Hx. unfold lit_res. cbn [starts_with app]. rewrite N.eqb_refl. reflexivity.
    + reflexivity.
Qed.

Lemma sw_wire full (cp : bool) x w r : wire_ok w -> (if cp then sspre x else x) = wire_text w ++ r ->
  evals GS full 23 cp (At x) (POk (At r) [wire_tree w]).
Proof.
  intros (Hn & Hm & Hb1 & Hb2 & Hb3 & Hb4 & Hb5) Hx. pose proof Hn as (Hn0 & Hns).
  unfold wire_text, num_text in Hx. revert Hx. norm_text. intros Hx.
  assert (Hm0 : exists d z, nf_text (w_m w) = d :: z /\ sstopc d = true).
  { destruct (w_m w) as [n|]; cbn; eexists _, _; (split; [reflexivity|]); [apply sdigit_stop; apply Hm|reflexivity]. }
  destruct Hm0 as (md & mz & Em & Hmd).
  eapply evals_eq.
  - eapply evals_node_ok; [slk|apply (pre_premise GS full ssw_c WSs ssw_comment_ok); repeat split|].
    unfold pre_pos. cbn [ncallpre]. rewrite andb_true_r, Hx.
    eapply impls_wrap; [reflexivity|reflexivity|].
    eapply evals_node_ok; [slk|cbn; reflexivity|].
    eapply impls_and; [reflexivity|reflexivity| |].
    + eapply evals_eq; [apply (evals_lit GS full ssw_c WSs ssw_comment_ok 25 false true); slk|].
      cbn [andb]. unfold lit_res. cbn [starts_with]. rewrite N.eqb_refl. reflexivity.
    + eapply seqs_cons.
      { eapply (sw_slit full 26 27 [91%N]); [slk|slk|]. apply sspre_blanks_stop; [exact Hb1|reflexivity]. }
      eapply seqs_cons.
      { eapply evals_eq.
        - eapply evals_node_ok; [slk|apply (pre_premise GS full ssw_c WSs ssw_comment_ok); repeat split|].
          unfold pre_pos. cbn [andb ncallpre]. rewrite sspre_blanks_stop by (try exact Hb2; apply sdigit_stop; exact Hn0).
          eapply impls_wrap; [reflexivity|reflexivity|].
          eapply evals_node_ok; [slk|cbn; reflexivity|].
          eapply impls_and; [reflexivity|reflexivity| |].
          + apply (sw_number full false _ (n_d0 (w_n w)) (n_ds (w_n w)) _ eq_refl Hn0 Hns).
            apply snohead_blanks; [exact ws_not_sdigit|exact Hb3|reflexivity].
          + eapply seqs_cons.
            { eapply (sw_slit full 30 31 [44%N]); [slk|slk|]. apply sspre_blanks_stop; [exact Hb3|reflexivity]. }
            eapply seqs_cons; [|apply seqs_nil].
            apply (sw_nf full _ (w_m w) (w_b5 w ++ 93%N :: r) Hm).
            * rewrite Em. cbn [app]. apply sspre_blanks_stop; [exact Hb4|exact Hmd].
            * apply snohead_blanks; [exact ws_not_sdigit|exact Hb5|reflexivity].
        - reflexivity. }
      eapply seqs_cons; [|apply seqs_nil].
      eapply (sw_slit full 34 35 [93%N]); [slk|slk|]. apply sspre_blanks_stop; [exact Hb5|reflexivity].
  - reflexivity.
Qed.

(* ---------------------------------------------------------------- INPUT *)
Inductive ioname := IONum (n : num) | IOId (a0 : chr) (rest : pstr).
Definition ioname_ok (x : ioname) : Prop :=
  match x with IONum n => num_ok n | IOId a0 r => memc a0 salpha = true /\ all_in sidch r end.
Definition ioname_text (x : ioname) : pstr := match x with IONum n => num_text n | IOId a0 r => a0 :: r end.
Definition kw_input : pstr := [73; 78; 80; 85; 84]%N.

Record inp_layout := mkInpLayout { ip_b1 : pstr; ip_b2 : pstr; ip_b3 : pstr; ip_b4 : pstr; ip_b5 : pstr }.
Definition inp_layout_ok (y : inp_layout) : Prop :=
  blanks WSs (ip_b1 y) /\ blanks WSs (ip_b2 y) /\ blanks WSs (ip_b3 y) /\ blanks WSs (ip_b4 y) /\ blanks WSs (ip_b5 y).
(* INPUT ( X ) = VALUE   with VALUE left open *)
Definition inp_head (x : ioname) (y : inp_layout) (value : pstr) : pstr :=
  kw_input ++ ip_b1 y ++ 40%N :: ip_b2 y ++ ioname_text x ++ ip_b3 y ++ 41%N :: ip_b4 y ++ 61%N :: ip_b5 y ++ value.
Definition inp_render (x : ioname) (w : wire) (y : inp_layout) : pstr := inp_head x y (wire_text w).
Definition inp_tree (x : ioname) (w : wire) : tok :=
  TList [TStr kw_input; TList [TStr (ioname_text x)]; wire_tree w].

(* Group [number | identifier], node 15 *)
Lemma sw_ioname full b x r : blanks WSs b -> ioname_ok x -> nohead sidch r ->
  evals GS full 15 true (At (b ++ ioname_text x ++ r)) (POk (At r) [TList [TStr (ioname_text x)]]).
Proof.
  intros Hb Hx Hr. destruct x as [n|a0 rs]; cbn [ioname_text ioname_ok] in *.
  - destruct Hx as (H0 & Hs). unfold num_text. norm_text. eapply evals_eq.
    + eapply evals_node_ok; [slk|cbn; reflexivity|].
      eapply impls_wrap; [reflexivity|reflexivity|].
      eapply evals_node_ok; [slk|cbn; reflexivity|]. apply impls_first; [reflexivity|]. cbn [nkids].
      apply firsts_hit. apply (sw_number full true _ (n_d0 n) (n_ds n) r); [|exact H0|exact Hs|].
      * apply sspre_blanks_stop; [exact Hb|apply sdigit_stop; exact H0].
      * destruct r as [|d r]; [exact I|]. unfold nohead in *. destruct (memc d sdigit) eqn:E; [|reflexivity].
        assert (memc d sidch = true); [|congruence].
        revert E. apply (memc_forallb sdigit (fun d => memc d sidch)). vm_compute. reflexivity.
    + reflexivity.
  - destruct Hx as (H0 & Hs). norm_text. eapply evals_eq.
    + eapply evals_node_ok; [slk|cbn; reflexivity|].
      eapply impls_wrap; [reflexivity|reflexivity|].
      eapply evals_node_ok; [slk|cbn; reflexivity|]. apply impls_first; [reflexivity|]. cbn [nkids].
      eapply firsts_miss.
      { apply (sw_number_fail full true). cbn beta iota.
        rewrite sspre_blanks_stop by (try exact Hb; apply salpha_stop; exact H0). apply salpha_not_digit. exact H0. }
      apply firsts_hit.
      eapply (evals_word GS full ssw_c WSs ssw_comment_ok 18 true true _ _ _ a0 rs r); [slk| |exact H0|exact Hs|exact Hr].
      cbn [andb]. apply sspre_blanks_stop; [exact Hb|apply salpha_stop; exact H0].
    + reflexivity.
Qed.

(* the part of the INPUT alternative before the value *)
Lemma seqs_inp_head full x y value :
  ioname_ok x -> inp_layout_ok y ->
  exists r, sspre r = sspre value /\ forall ks res,
    seqs GS full ks (At r) [TStr kw_input; TList [TStr (ioname_text x)]] res ->
    seqs GS full (13 :: 15 :: 19 :: 21 :: ks)
      (At (ip_b1 y ++ 40%N :: ip_b2 y ++ ioname_text x ++ ip_b3 y ++ 41%N :: ip_b4 y ++ 61%N :: ip_b5 y ++ value))
      [TStr kw_input] res.
Proof.
  intros Hx (Hb1 & Hb2 & Hb3 & Hb4 & Hb5). exists (ip_b5 y ++ value). split; [apply std_pre_blanks; exact Hb5|].
  intros ks res Hks.
  eapply seqs_cons.
  { eapply (sw_slit full 13 14 [40%N]); [slk|slk|]. apply sspre_blanks_stop; [exact Hb1|reflexivity]. }
  eapply seqs_cons.
  { apply (sw_ioname full (ip_b2 y) x _ Hb2 Hx). apply snohead_blanks; [exact ws_not_sidch|exact Hb3|reflexivity]. }
  eapply seqs_cons.
  { eapply (sw_slit full 19 20 [41%N]); [slk|slk|]. apply sspre_blanks_stop; [exact Hb3|reflexivity]. }
  eapply seqs_cons.
  { eapply (sw_slit full 21 22 [61%N]); [slk|slk|]. apply sspre_blanks_stop; [exact Hb4|reflexivity]. }
  exact Hks.
Qed.

Theorem roundtrip_input x w y : ioname_ok x -> wire_ok w -> inp_layout_ok y ->
  ssw_body_ok (inp_render x w y) [inp_tree x w].
Proof.
  intros Hx Hw Hy full b E k Hb Hk.
  apply (sw_statement full b (inp_render x w y) E k (At (E ++ k)));
    [exact Hb|unfold inp_render, inp_head, kw_input; cbn [app]; eexists _, _; split; reflexivity|exact Hk|
     |reflexivity|eexists; reflexivity].
  unfold inp_render, inp_head, kw_input. norm_text.
  apply firsts_hit.
  eapply (sw_alt_ok full 11 12 _ [73; 78; 80; 85; 84]%N); [slk|slk| |].
  { rewrite (std_pre_stop WSs) by reflexivity. reflexivity. }
  destruct (seqs_inp_head full x y (wire_text w ++ E ++ k) Hx Hy) as (r & Hr & Hseq).
  apply Hseq.
  eapply seqs_cons; [|apply seqs_nil].
  apply (sw_wire full true r w (E ++ k) Hw). rewrite Hr.
  unfold wire_text. cbn [app]. apply (std_pre_stop WSs); reflexivity.
Qed.

(* an input bound to anything that is not a wire (a fluorophore, a number, ...) is refused by
   every statement alternative *)
Theorem input_not_wire_refused x y value full b :
  ioname_ok x -> inp_layout_ok y -> nohead [119%N] (sspre value) -> blanks WSs b ->
  evals GS full ssw_stmt true (At (b ++ inp_head x y value)) PFail.
Proof.
  intros Hx Hy Hv Hb. unfold inp_head, kw_input. norm_text.
  eapply evals_node_fail; [slk|apply (pre_premise GS full ssw_c WSs ssw_comment_ok); repeat split|].
  unfold pre_pos. cbn [andb ncallpre]. rewrite sspre_blanks_stop by (try exact Hb; reflexivity).
  eapply impls_and_fail; [reflexivity|reflexivity|].
  eapply evals_node_fail; [slk|cbn; reflexivity|].
  eapply impls_wrap; [reflexivity|reflexivity|].
  eapply evals_node_fail; [slk|cbn; reflexivity|]. apply impls_first; [reflexivity|]. cbn [nkids].
  eapply firsts_miss.
  { eapply (sw_alt_late_fail full 11 12 _ [73; 78; 80; 85; 84]%N); [slk|slk| |].
    { rewrite (std_pre_stop WSs) by reflexivity. reflexivity. }
    destruct (seqs_inp_head full x y value Hx Hy) as (r & Hr & Hseq). apply Hseq.
    apply seqs_fail.
    (* the wire: Group [And ['w'; ...]] fails at 'w' *)
    eapply evals_node_fail; [slk|apply (pre_premise GS full ssw_c WSs ssw_comment_ok); repeat split|].
    unfold pre_pos. cbn [andb ncallpre]. rewrite Hr.
    eapply impls_wrap; [reflexivity|reflexivity|].
    eapply evals_node_fail; [slk|cbn; reflexivity|].
    eapply impls_and_fail; [reflexivity|reflexivity|].
    eapply evals_eq; [apply (evals_lit GS full ssw_c WSs ssw_comment_ok 25 false true); slk|].
    cbn [andb]. unfold lit_res. rw_alias (starts_with_nohead' 119%N [] _ Hv). reflexivity. }
  eapply firsts_miss; [eapply (sw_alt_fail full 36 37); [slk|slk|rewrite (std_pre_stop WSs) by reflexivity; reflexivity]|].
  eapply firsts_miss; [eapply (sw_alt_fail full 54 55); [slk|slk|rewrite (std_pre_stop WSs) by reflexivity; reflexivity]|].
  eapply firsts_miss; [eapply (sw_alt_fail full 92 93); [slk|slk|rewrite (std_pre_stop WSs) by reflexivity; reflexivity]|].
  eapply firsts_miss; [eapply (sw_alt_fail full 125 126); [slk|slk|rewrite (std_pre_stop WSs) by reflexivity; reflexivity]|].
  eapply firsts_miss; [eapply (sw_alt_fail full 156 157); [slk|slk|rewrite (std_pre_stop WSs) by reflexivity; reflexivity]|].
  eapply firsts_miss; [eapply (sw_alt_fail full 187 188); [slk|slk|rewrite (std_pre_stop WSs) by reflexivity; reflexivity]|].
  eapply firsts_miss; [eapply (sw_alt_fail full 197 198); [slk|slk|rewrite (std_pre_stop WSs) by reflexivity; reflexivity]|].
  eapply firsts_miss; [eapply (sw_alt_fail full 209 210); [slk|slk|rewrite (std_pre_stop WSs) by reflexivity; reflexivity]|].
  eapply firsts_miss; [eapply (sw_alt_fail full 223 224); [slk|slk|rewrite (std_pre_stop WSs) by reflexivity; reflexivity]|].
  apply firsts_nil.
Qed.

(* ---------------------------------------------------------------- parse_seesaw_string *)
Theorem ssw_document_reject pls b y :
  Forall ssw_blank_line pls -> blanks WSs b -> stmt_start WSs y ->
  (forall full b', blanks WSs b' -> evals GS full ssw_stmt true (At (b' ++ y)) PFail) ->
  let D := concat pls ++ b ++ y in
  no_tab D -> exists f0, forall f, f0 <= f -> parse_seesaw_fuel f D = err eParse.
Proof.
  intros Hp Hb Hy Hf D HD.
  assert (H : evals GS D 0 true (At D) PFail).
  { exact (document_reject_first GS 0 ssw_c 1 4 5 6 7 ssw_stmt 240 WSs true
             ssw_comment_ok (proj2 ssw_root_shape) ssw_ss ssw_zm ssw_sl ssw_le ssw_om pls b y Hp Hb Hy Hf). }
  destruct (evals_parse_fuel seesaw_grammar D _ HD H) as [f0 Hf0].
  exists f0. intros f Hle. unfold parse_seesaw_fuel. rewrite (Hf0 f Hle). reflexivity.
Qed.

Definition kw_fluor : pstr := [70; 108; 117; 111; 114]%N.
Theorem reject_input_fluorophore x y rest pls b :
  ioname_ok x -> inp_layout_ok y -> Forall ssw_blank_line pls -> blanks WSs b ->
  no_tab (concat pls ++ b ++ inp_head x y (kw_fluor ++ rest)) ->
  exists f0, forall f, f0 <= f -> parse_seesaw_fuel f (concat pls ++ b ++ inp_head x y (kw_fluor ++ rest)) = err eParse.
Proof.
  intros Hx Hy Hp Hb Hnt. apply ssw_document_reject; try assumption.
  - unfold inp_head, kw_input. cbn. repeat split; reflexivity.
  - intros full b' Hb'. apply input_not_wire_refused; try assumption.
    unfold kw_fluor. cbn [app]. rewrite (std_pre_stop WSs) by reflexivity. reflexivity.
Qed.

Theorem roundtrip_reporter_parse n1 n2 y b E :
  num_ok n1 -> num_ok n2 -> rep_layout_ok y -> blanks WSs b -> sstmt_end E [] ->
  no_tab (b ++ rep_render n1 n2 y ++ E) ->
  exists f0, forall f, f0 <= f -> parse_seesaw_fuel f (b ++ rep_render n1 n2 y ++ E) = vals [rep_tree n1 n2].
Proof.
  intros H1 H2 Hy Hb HE Hnt. apply ssw_statement_parse; try assumption.
  - unfold rep_render, kw_reporter. cbn. repeat split; reflexivity.
  - apply roundtrip_reporter; assumption.
Qed.
Theorem roundtrip_input_parse x w y b E :
  ioname_ok x -> wire_ok w -> inp_layout_ok y -> blanks WSs b -> sstmt_end E [] ->
  no_tab (b ++ inp_render x w y ++ E) ->
  exists f0, forall f, f0 <= f -> parse_seesaw_fuel f (b ++ inp_render x w y ++ E) = vals [inp_tree x w].
Proof.
  intros Hx Hw Hy Hb HE Hnt. apply ssw_statement_parse; try assumption.
  - unfold inp_render, inp_head, kw_input. cbn. repeat split; reflexivity.
  - apply roundtrip_input; assumption.
Qed.

(* non-vacuity *)
Example reporter_example :
  let n1 := mkNum 49%N [51%N] in let n2 := mkNum 52%N [52%N] in
  let y := mkRepLayout [] [32%N] [] [32; 32]%N [] in
  num_ok n1 /\ num_ok n2 /\ rep_layout_ok y /\ parse_seesaw (rep_render n1 n2 y ++ [NL]) = vals [rep_tree n1 n2].
Proof. cbn zeta. repeat split; try reflexivity; vm_compute; reflexivity. Qed.
Example input_example :
  let x := IOId 120%N [49%N] in
  let w := mkWire (mkNum 52%N [52%N]) NFf [] [] [] [32%N] [] in
  let y := mkInpLayout [] [] [] [32%N] [32%N] in
  ioname_ok x /\ wire_ok w /\ inp_layout_ok y /\
  parse_seesaw (inp_render x w y ++ [NL]) = vals [inp_tree x w] /\
  parse_seesaw (inp_head x y (kw_fluor ++ [91; 50; 53; 93; 10]%N)) = err eParse.
Proof. cbn zeta. repeat split; try reflexivity; vm_compute; reflexivity. Qed.
