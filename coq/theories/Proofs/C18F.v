(* C18, float level: flint returns a numerically equal value (int exactly when the
   value is integral), and convert_units on a float is within 3 * 2^-53 (relative) of
   the exact conversion with the ideal decimal scales, provided no intermediate
   result overflows or leaves the normal range.

   Part 1 (flint) uses no real numbers and no library outside the standard one; the
   only axiom used there is FloatAxioms.Prim2SF_SF2Prim, and only by flint_small_int.
   Part 2 goes through Flocq (Prim2B, Bmult_correct, Bdiv_correct, relative_error_N_FLT)
   and therefore depends on the standard library's axioms for the real numbers and
   for primitive floats (listed by Print Assumptions in props/C18.v).  No axiom is
   declared here. *)
From Coq Require Import String ZArith QArith Qabs Qpower List Bool Lia PrimFloat FloatOps SpecFloat FloatAxioms.
From DSD Require Import Base.Str Base.Errors Model.ComplexUtils Model.UnitsF Proofs.C18.
From DSDGen Require Import UnitTables.
Import ListNotations.
Open Scope Z_scope.

(* ================= 1. flint: int layer (no real numbers, no Flocq) ================= *)

(* a float that is neither nan nor an infinity is a (signed) zero or a finite number;
   read off the definition of Prim2SF, no axiom *)
Lemma Prim2SF_finite_cases : forall f,
  PrimFloat.is_nan f = false -> PrimFloat.is_infinity f = false ->
  (exists s, Prim2SF f = S754_zero s) \/ (exists s m e, Prim2SF f = S754_finite s m e).
Proof.
  intros f Hn Hi. unfold Prim2SF. rewrite Hn, Hi.
  destruct (is_zero f); [left; eauto|].
  destruct (Z.frexp f) as [r ex].
  destruct (shr_fexp prec emax (Uint63.to_Z (normfr_mantissa r)) (ex - prec) loc_Exact) as [shr e'].
  destruct (shr_m shr); eauto.
Qed.

Lemma Qdiv_inj_Z : forall a D z, 0 < D ->
  (inject_Z a / inject_Z D == inject_Z z)%Q <-> a = z * D.
Proof.
  intros a D z HD.
  assert (ND : ~ (inject_Z D == 0)%Q) by (unfold Qeq; simpl; lia).
  split.
  - intros E. apply inject_Z_injective. rewrite inject_Z_mult, <- E. field. exact ND.
  - intros ->. rewrite inject_Z_mult. field. exact ND.
Qed.

Definition smant (s : bool) (m : positive) : Z := if s then Zneg m else Zpos m.

Lemma SF2Q_finite_nonneg : forall s m e, 0 <= e ->
  (SF2Q (S754_finite s m e) == inject_Z (smant s m * 2 ^ e))%Q.
Proof.
  intros s m e He. cbn [SF2Q]. rewrite inject_Z_mult, (Zpower_Qpower 2 e He).
  apply Qmult_comp; [|reflexivity]. destruct s; reflexivity.
Qed.

Lemma SF2Q_finite_neg : forall s m e, e < 0 ->
  (SF2Q (S754_finite s m e) == inject_Z (smant s m) / inject_Z (2 ^ (- e)))%Q.
Proof.
  intros s m e He. cbn [SF2Q].
  replace e with (- (- e)) at 1 by lia. rewrite Qpower_opp.
  rewrite (Zpower_Qpower 2 (- e)) by lia. unfold Qdiv.
  apply Qmult_comp; [|reflexivity]. destruct s; reflexivity.
Qed.

(* the heart of flint on floats: the integrality test is exact and the integer
   returned is the value *)
Lemma sf_integral_spec : forall x,
  (exists s, x = S754_zero s) \/ (exists s m e, x = S754_finite s m e) ->
  if sf_integral x then (SF2Q x == inject_Z (sf_to_Z x))%Q
  else forall z, ~ (SF2Q x == inject_Z z)%Q.
Proof.
  intros x [[s ->]|(s & m & e & ->)]; [cbn; reflexivity|].
  cbn [sf_integral sf_to_Z].
  destruct (0 <=? e) eqn:He.
  - apply Z.leb_le in He. cbn [orb]. rewrite SF2Q_finite_nonneg by exact He.
    rewrite Z.shiftl_mul_pow2 by exact He.
    apply inject_Z_injective. destruct s; unfold smant; lia.
  - apply Z.leb_gt in He. cbn [orb].
    assert (Hk : 0 < 2 ^ (- e)) by (apply Z.pow_pos_nonneg; lia).
    rewrite Z.land_ones by lia. rewrite Z.shiftr_div_pow2 by lia.
    destruct (Z.pos m mod 2 ^ (- e) =? 0) eqn:Hm.
    + rewrite SF2Q_finite_neg by exact He.
      apply Z.eqb_eq in Hm. apply (proj2 (Qdiv_inj_Z _ _ _ Hk)).
      pose proof (Z.div_mod (Z.pos m) (2 ^ (- e)) ltac:(lia)) as D. rewrite Hm in D.
      destruct s; unfold smant; lia.
    + apply Z.eqb_neq in Hm. intros z E. rewrite SF2Q_finite_neg in E by exact He.
      apply (proj1 (Qdiv_inj_Z _ _ _ Hk)) in E. apply Hm.
      destruct s; unfold smant in E.
      * replace (Z.pos m) with ((- z) * 2 ^ (- e)) by lia. apply Z.mod_mul. lia.
      * rewrite E. apply Z.mod_mul. lia.
Qed.

Theorem flint_float_spec : forall f,
  PrimFloat.is_nan f = false -> PrimFloat.is_infinity f = false ->
  match flint (NF f) with
  | Ok (NI z) => (SF2Q (Prim2SF f) == inject_Z z)%Q
  | Ok (NF g) => g = f /\ forall z, ~ (SF2Q (Prim2SF f) == inject_Z z)%Q
  | Err _ => False
  end.
Proof.
  intros f Hn Hi. unfold flint. rewrite Hn, Hi.
  pose proof (sf_integral_spec _ (Prim2SF_finite_cases f Hn Hi)) as H.
  destruct (sf_integral (Prim2SF f)); [exact H|split; [reflexivity|exact H]].
Qed.

(* ---- flint on Python ints: every int, of any size, is returned unchanged ---- *)
Theorem flint_int_spec : forall z, flint (NI z) = Ok (NI z).
Proof. intros z. reflexivity. Qed.

Lemma digits2_pos_size : forall p, digits2_pos p = Pos.size p.
Proof. induction p; cbn; congruence. Qed.

Lemma Zpos_digits2_log2 : forall p, Zpos (digits2_pos p) = Z.log2 (Zpos p) + 1.
Proof.
  intros p. rewrite digits2_pos_size. destruct p; cbn [Pos.size Z.log2]; lia.
Qed.

Lemma bitlen_pos : forall s, 0 < s -> bitlen s = Z.log2 s + 1.
Proof. intros s H. unfold bitlen. destruct (s =? 0) eqn:E; [apply Z.eqb_eq in E; lia|reflexivity]. Qed.

Lemma round53_exact : forall s, 0 < s -> Z.log2 s <= 52 ->
  round53 (Z.shiftl s (56 - Z.log2 s)) false = (s * 2 ^ (52 - Z.log2 s), 4).
Proof.
  intros s Hs HL. pose proof (Z.log2_nonneg s) as HL0.
  unfold round53.
  assert (Hq : 0 < Z.shiftl s (56 - Z.log2 s)).
  { rewrite Z.shiftl_mul_pow2 by lia. apply Z.mul_pos_pos; [lia|apply Z.pow_pos_nonneg; lia]. }
  rewrite (bitlen_pos _ Hq). rewrite Z.log2_shiftl by lia.
  replace (Z.log2 s + (56 - Z.log2 s) + 1 - 53) with 4 by lia.
  change (4 <=? 0) with false. cbv iota.
  rewrite Z.shiftr_shiftl_l by lia.
  rewrite Z.land_ones by lia.
  replace (Z.shiftl s (56 - Z.log2 s) mod 2 ^ 4) with 0.
  2:{ rewrite Z.shiftl_mul_pow2 by lia.
      replace (56 - Z.log2 s) with ((52 - Z.log2 s) + 4) by lia.
      rewrite Z.pow_add_r by lia. rewrite Z.mul_assoc. symmetry. apply Z.mod_mul. lia. }
  change (Z.shiftl 1 (4 - 1)) with 8. change (8 <? 0) with false. change (0 =? 8) with false.
  cbn [orb andb]. rewrite Z.shiftl_mul_pow2 by lia.
  replace (56 - Z.log2 s - 4) with (52 - Z.log2 s) by lia. reflexivity.
Qed.

Definition small_sf (z : Z) : spec_float :=
  S754_finite (z <? 0) (Z.to_pos (Z.abs z * 2 ^ (52 - Z.log2 (Z.abs z)))) (Z.log2 (Z.abs z) - 52).

Lemma small_mant : forall s, 0 < s -> Z.log2 s <= 52 ->
  0 < s * 2 ^ (52 - Z.log2 s) /\ Z.log2 (s * 2 ^ (52 - Z.log2 s)) = 52.
Proof.
  intros s Hs HL. pose proof (Z.log2_nonneg s). split.
  - apply Z.mul_pos_pos; [lia|apply Z.pow_pos_nonneg; lia].
  - rewrite Z.log2_mul_pow2 by lia. lia.
Qed.

Lemma int_to_float_small : forall z, z <> 0 -> Z.abs z < 2 ^ 53 ->
  int_to_float z = FOk (SF2Prim (small_sf z)).
Proof.
  intros z Hz Hlt.
  assert (Hs : 0 < Z.abs z) by lia.
  assert (HL : Z.log2 (Z.abs z) <= 52).
  { assert (Z.log2 (Z.abs z) < 53); [|lia]. apply Z.log2_lt_pow2; lia. }
  pose proof (Z.log2_nonneg (Z.abs z)) as HL0.
  destruct (small_mant _ Hs HL) as [Hm Hlm].
  unfold int_to_float, ratio_to_float.
  destruct (z =? 0) eqn:E; [apply Z.eqb_eq in E; lia|clear E].
  rewrite (bitlen_pos _ Hs). change (bitlen 1) with 1.
  replace (56 - (Z.log2 (Z.abs z) + 1 - 1)) with (56 - Z.log2 (Z.abs z)) by lia.
  destruct (0 <=? 56 - Z.log2 (Z.abs z)) eqn:E; [clear E|apply Z.leb_gt in E; lia].
  rewrite Z.div_1_r, Z.mod_1_r. change (negb (0 =? 0)) with false.
  rewrite (round53_exact _ Hs HL).
  rewrite (bitlen_pos _ Hm), Hlm.
  destruct (1024 <? 52 + 1 + (4 - (56 - Z.log2 (Z.abs z)))) eqn:E1; [apply Z.ltb_lt in E1; lia|].
  rewrite andb_false_r.
  destruct (52 + 1 + (4 - (56 - Z.log2 (Z.abs z))) <? -1021) eqn:E2; [apply Z.ltb_lt in E2; lia|].
  unfold small_sf, SF2Prim. rewrite Z2Pos.id by exact Hm.
  replace (4 - (56 - Z.log2 (Z.abs z))) with (Z.log2 (Z.abs z) - 52) by lia.
  reflexivity.
Qed.

Lemma small_sf_valid : forall z, z <> 0 -> Z.abs z < 2 ^ 53 ->
  valid_binary (small_sf z) = true.
Proof.
  intros z Hz Hlt.
  assert (Hs : 0 < Z.abs z) by lia.
  assert (HL : Z.log2 (Z.abs z) <= 52).
  { assert (Z.log2 (Z.abs z) < 53); [|lia]. apply Z.log2_lt_pow2; lia. }
  pose proof (Z.log2_nonneg (Z.abs z)) as HL0.
  destruct (small_mant _ Hs HL) as [Hm Hlm].
  unfold small_sf, SpecFloat.valid_binary, bounded, canonical_mantissa.
  rewrite Zpos_digits2_log2, Z2Pos.id by exact Hm. rewrite Hlm.
  unfold fexp, SpecFloat.emin, prec, emax.
  apply andb_true_iff. split.
  - apply Zeq_is_eq_bool. lia.
  - apply Z.leb_le. lia.
Qed.

Lemma small_sf_value : forall z, z <> 0 -> Z.abs z < 2 ^ 53 -> sf_to_Z (small_sf z) = z.
Proof.
  intros z Hz Hlt.
  assert (Hs : 0 < Z.abs z) by lia.
  assert (HL : Z.log2 (Z.abs z) <= 52).
  { assert (Z.log2 (Z.abs z) < 53); [|lia]. apply Z.log2_lt_pow2; lia. }
  pose proof (Z.log2_nonneg (Z.abs z)) as HL0.
  destruct (small_mant _ Hs HL) as [Hm Hlm].
  unfold small_sf, sf_to_Z. rewrite Z2Pos.id by exact Hm.
  assert (V : (if 0 <=? Z.log2 (Z.abs z) - 52
               then Z.shiftl (Z.abs z * 2 ^ (52 - Z.log2 (Z.abs z))) (Z.log2 (Z.abs z) - 52)
               else Z.shiftr (Z.abs z * 2 ^ (52 - Z.log2 (Z.abs z))) (- (Z.log2 (Z.abs z) - 52))) = Z.abs z).
  { destruct (0 <=? Z.log2 (Z.abs z) - 52) eqn:E.
    - apply Z.leb_le in E. replace (Z.log2 (Z.abs z)) with 52 by lia. cbn. lia.
    - rewrite Z.shiftr_div_pow2 by lia.
      replace (- (Z.log2 (Z.abs z) - 52)) with (52 - Z.log2 (Z.abs z)) by lia.
      apply Z.div_mul. apply Z.pow_nonzero; lia. }
  rewrite V. destruct (z <? 0) eqn:E; [apply Z.ltb_lt in E|apply Z.ltb_ge in E]; lia.
Qed.

(* the correctly rounded int -> float conversion is exact up to 2^53 (used by the conversion theorems: an int
   value enters convert_units through int * float) *)
Theorem int_to_float_small_exact : forall z, z <> 0 -> Z.abs z < 2 ^ 53 ->
  exists f, int_to_float z = FOk f /\ sf_to_Z (Prim2SF f) = z.
Proof.
  intros z Hz Hlt. eexists. split; [exact (int_to_float_small z Hz Hlt)|].
  rewrite Prim2SF_SF2Prim by (apply small_sf_valid; assumption).
  apply small_sf_value; assumption.
Qed.

Theorem flint_small_int : forall z, Z.abs z <= 2 ^ 53 -> flint (NI z) = Ok (NI z).
Proof. intros z _. apply flint_int_spec. Qed.

(* ================= 2. float error bound (Flocq bridge) ================= *)
From Coq Require Import Reals Qreals Lra.
From Flocq Require Import Core Relative BinarySingleNaN.
From Flocq Require PrimFloat.
Module FP := Flocq.IEEE754.PrimFloat.

Local Open Scope R_scope.

Local Notation fexp64 := (FLT_exp (-1074) 53).
Local Notation rnd64 := (round radix2 fexp64 ZnearestE).
Definition uR : R := / 2 * bpow radix2 (- 53 + 1).

(* ---- rationals and reals ---- *)
Lemma Q2R_inject_Z : forall z, Q2R (inject_Z z) = IZR z.
Proof. intros z. unfold Q2R, inject_Z. cbn. field. Qed.

Lemma Q2R_Qpower2 : forall e, Q2R (Qpower 2 e) = bpow radix2 e.
Proof.
  intros e. destruct (Z_le_gt_dec 0 e) as [He|He].
  - change (2%Q) with (inject_Z 2). rewrite <- (Qeq_eqR _ _ (Zpower_Qpower 2 e He)).
    rewrite Q2R_inject_Z. rewrite <- (IZR_Zpower radix2 e He). reflexivity.
  - replace e with (- (- e))%Z by lia.
    rewrite (Qeq_eqR _ _ (Qpower_opp 2 (- e))).
    rewrite bpow_opp. rewrite Q2R_inv.
    + f_equal. change (2%Q) with (inject_Z 2).
      rewrite <- (Qeq_eqR _ _ (Zpower_Qpower 2 (- e) ltac:(lia))).
      rewrite Q2R_inject_Z. rewrite <- (IZR_Zpower radix2 (- e) ltac:(lia)). reflexivity.
    + apply Qpower_not_0. discriminate.
Qed.

Lemma Q2R_SF2Q : forall x, Q2R (SF2Q x) = SF2R radix2 x.
Proof.
  intros [s|s| |s m e]; cbn [SF2Q SF2R]; try (unfold Q2R; cbn; lra).
  rewrite !Q2R_mult, Q2R_Qpower2. unfold F2R. cbn [Fnum Fexp].
  f_equal. destruct s; cbn [cond_Zopp]; unfold Q2R; cbn;
    [change (Z.neg m) with (- Z.pos m)%Z; rewrite opp_IZR|]; lra.
Qed.

Lemma Q2R_F2Q : forall f, Q2R (F2Q f) = B2R (FP.Prim2B f).
Proof. intros f. unfold F2Q. rewrite Q2R_SF2Q, <- FP.B2SF_Prim2B. apply SF2R_B2SF. Qed.

Lemma Q2R_Qabs : forall q, Q2R (Qabs q) = Rabs (Q2R q).
Proof.
  intros q. destruct (Qlt_le_dec q 0) as [H|H].
  - rewrite (Qeq_eqR _ _ (Qabs_neg q (Qlt_le_weak _ _ H))), Q2R_opp.
    apply Qlt_Rlt in H. replace (Q2R 0) with 0 in H by (unfold Q2R; cbn; lra).
    rewrite Rabs_left; lra.
  - rewrite (Qeq_eqR _ _ (Qabs_pos q H)).
    apply Qle_Rle in H. replace (Q2R 0) with 0 in H by (unfold Q2R; cbn; lra).
    rewrite Rabs_right; lra.
Qed.

(* ---- one multiplication / one division ---- *)
Definition ffinite (f : PrimFloat.float) : bool := is_finite (FP.Prim2B f).

Lemma ffinite_spec : forall f,
  ffinite f = negb (PrimFloat.is_nan f) && negb (PrimFloat.is_infinity f).
Proof.
  intros f. unfold ffinite. rewrite FP.is_nan_equiv, FP.is_infinity_equiv.
  destruct (FP.Prim2B f); reflexivity.
Qed.

Lemma mul_round : forall x y, ffinite (x * y)%float = true ->
  B2R (FP.Prim2B (x * y)%float) = rnd64 (B2R (FP.Prim2B x) * B2R (FP.Prim2B y)) /\
  ffinite x = true /\ ffinite y = true.
Proof.
  intros x y. unfold ffinite. rewrite FP.mul_equiv.
  pose proof (Bmult_correct FloatOps.prec FloatOps.emax FP.Hprec FP.Hmax mode_NE (FP.Prim2B x) (FP.Prim2B y)) as H.
  destruct Rlt_bool.
  - destruct H as (H1 & H2 & _). intros F. rewrite F in H2. symmetry in H2.
    apply andb_true_iff in H2. split; [exact H1|exact H2].
  - intros F. rewrite <- is_finite_SF_B2SF, H in F. discriminate.
Qed.

Lemma div_round : forall x y, B2R (FP.Prim2B y) <> 0 -> ffinite (x / y)%float = true ->
  B2R (FP.Prim2B (x / y)%float) = rnd64 (B2R (FP.Prim2B x) / B2R (FP.Prim2B y)) /\
  ffinite x = true.
Proof.
  intros x y Hy. unfold ffinite. rewrite FP.div_equiv.
  pose proof (Bdiv_correct FloatOps.prec FloatOps.emax FP.Hprec FP.Hmax mode_NE (FP.Prim2B x) (FP.Prim2B y) Hy) as H.
  destruct Rlt_bool.
  - destruct H as (H1 & H2 & _). intros F. rewrite F in H2. split; [exact H1|congruence].
  - intros F. rewrite <- is_finite_SF_B2SF, H in F. discriminate.
Qed.

(* converse direction: no overflow of the rounded exact result => finite result *)
Lemma mul_round_fin : forall x y, ffinite x = true -> ffinite y = true ->
  Rabs (rnd64 (B2R (FP.Prim2B x) * B2R (FP.Prim2B y))) < bpow radix2 1024 ->
  ffinite (x * y)%float = true /\
  B2R (FP.Prim2B (x * y)%float) = rnd64 (B2R (FP.Prim2B x) * B2R (FP.Prim2B y)).
Proof.
  intros x y Fx Fy Hlt. unfold ffinite in *. rewrite FP.mul_equiv.
  pose proof (Bmult_correct FloatOps.prec FloatOps.emax FP.Hprec FP.Hmax mode_NE (FP.Prim2B x) (FP.Prim2B y)) as H.
  rewrite Rlt_bool_true in H by exact Hlt.
  destruct H as (H1 & H2 & _). rewrite H2, Fx, Fy. split; [reflexivity|exact H1].
Qed.

Lemma div_round_fin : forall x y, ffinite x = true -> B2R (FP.Prim2B y) <> 0 ->
  Rabs (rnd64 (B2R (FP.Prim2B x) / B2R (FP.Prim2B y))) < bpow radix2 1024 ->
  ffinite (x / y)%float = true /\
  B2R (FP.Prim2B (x / y)%float) = rnd64 (B2R (FP.Prim2B x) / B2R (FP.Prim2B y)).
Proof.
  intros x y Fx Hy Hlt. unfold ffinite in *. rewrite FP.div_equiv.
  pose proof (Bdiv_correct FloatOps.prec FloatOps.emax FP.Hprec FP.Hmax mode_NE (FP.Prim2B x) (FP.Prim2B y) Hy) as H.
  rewrite Rlt_bool_true in H by exact Hlt.
  destruct H as (H1 & H2 & _). rewrite H2, Fx. split; [reflexivity|exact H1].
Qed.

Lemma fmt_bpow : forall e, (-1074 <= e)%Z -> generic_format radix2 fexp64 (bpow radix2 e).
Proof. intros e He. apply generic_format_FLT_bpow; [reflexivity|exact He]. Qed.

(* relative error of one rounding whose RESULT is above the smallest normal number *)
Lemma rnd_rel : forall r, bpow radix2 (-1022) < Rabs (rnd64 r) ->
  Rabs (rnd64 r - r) <= uR * Rabs r.
Proof.
  intros r H. unfold uR.
  apply (relative_error_N_FLT radix2 (-1074) 53 eq_refl (fun x => negb (Z.even x)) r).
  change (-1074 + 53 - 1)%Z with (-1022)%Z.
  destruct (Rle_or_lt (bpow radix2 (-1022)) (Rabs r)) as [L|L]; [exact L|exfalso].
  assert (Rabs (rnd64 r) <= bpow radix2 (-1022)).
  { apply abs_round_le_generic; [apply FLT_exp_valid; reflexivity|apply valid_rnd_N|apply fmt_bpow; lia|lra]. }
  lra.
Qed.

(* ---- real-number algebra of the chain (v * A) / B ---- *)
Lemma rel_ex : forall u x x', 0 <= u -> Rabs (x' - x) <= u * Rabs x ->
  exists d, Rabs d <= u /\ x' = x * (1 + d).
Proof.
  intros u x x' Hu H. destruct (Req_dec x 0) as [->|Hx].
  - exists 0. rewrite Rabs_R0 in *. split; [lra|].
    rewrite Rmult_0_r, Rminus_0_r in H.
    assert (Rabs x' = 0) by (pose proof (Rabs_pos x'); lra).
    destruct (Req_dec x' 0) as [->|N]; [lra|]. apply Rabs_no_R0 in N. contradiction.
  - exists ((x' - x) / x). split; [|field; exact Hx].
    unfold Rdiv. rewrite Rabs_mult, Rabs_inv.
    assert (0 < Rabs x) by (apply Rabs_pos_lt; exact Hx).
    apply Rmult_le_reg_r with (Rabs x); [assumption|].
    rewrite Rmult_assoc, Rinv_l by lra. lra.
Qed.

Lemma prod3_bound : forall u e d1 d2, 0 < u <= / 2 ->
  Rabs e * ((1 + u) * (1 + u)) <= u - u * u -> Rabs d1 <= u -> Rabs d2 <= u ->
  Rabs ((1 + e) * ((1 + d1) * (1 + d2)) - 1) <= 3 * u.
Proof.
  intros u e d1 d2 Hu He H1 H2.
  pose proof (Rabs_pos e) as Ha. set (a := Rabs e) in *.
  assert (E : - a <= e <= a) by (unfold a; split; [pose proof (Rle_abs (- e)); rewrite Rabs_Ropp in *; lra|apply Rle_abs]).
  apply Rabs_le_inv in H1. apply Rabs_le_inv in H2.
  set (p := (1 + d1) * (1 + d2)).
  assert (P1 : (1 - u) * (1 - u) <= p) by (unfold p; nra).
  assert (P2 : p <= (1 + u) * (1 + u)) by (unfold p; nra).
  assert (A1 : a <= u) by nra.
  apply Rabs_le. split.
  - assert ((1 - a) * ((1 - u) * (1 - u)) <= (1 + e) * p).
    { apply Rmult_le_compat; nra. }
    nra.
  - assert ((1 + e) * p <= (1 + a) * ((1 + u) * (1 + u))).
    { apply Rmult_le_compat; nra. }
    nra.
Qed.

Lemma chain_bound : forall u V A B sa sb X Y,
  0 < u <= / 2 -> B <> 0 -> sa <> 0 -> sb <> 0 ->
  Rabs (X - V * A) <= u * Rabs (V * A) ->
  Rabs (Y - X / B) <= u * Rabs (X / B) ->
  Rabs (A * sb - B * sa) * ((1 + u) * (1 + u)) <= (u - u * u) * Rabs (B * sa) ->
  Rabs (Y - V * sa / sb) <= 3 * u * Rabs (V * sa / sb).
Proof.
  intros u V A B sa sb X Y Hu HB Hsa Hsb H1 H2 H3.
  destruct (rel_ex u _ _ ltac:(lra) H1) as (d1 & D1 & E1).
  destruct (rel_ex u _ _ ltac:(lra) H2) as (d2 & D2 & E2).
  set (e := (A * sb - B * sa) / (B * sa)).
  assert (NZ : B * sa <> 0) by (apply Rmult_integral_contrapositive_currified; assumption).
  assert (He : Rabs e * ((1 + u) * (1 + u)) <= u - u * u).
  { unfold e, Rdiv. rewrite Rabs_mult, Rabs_inv.
    assert (P : 0 < Rabs (B * sa)) by (apply Rabs_pos_lt; exact NZ).
    apply Rmult_le_reg_r with (Rabs (B * sa)); [exact P|].
    replace (Rabs (A * sb - B * sa) * / Rabs (B * sa) * ((1 + u) * (1 + u)) * Rabs (B * sa))
      with (Rabs (A * sb - B * sa) * ((1 + u) * (1 + u)) * (/ Rabs (B * sa) * Rabs (B * sa))) by ring.
    rewrite Rinv_l by lra. lra. }
  assert (EY : Y - V * sa / sb = (V * sa / sb) * ((1 + e) * ((1 + d1) * (1 + d2)) - 1)).
  { rewrite E2, E1. unfold e. field. repeat split; assumption. }
  rewrite EY, Rabs_mult, (Rmult_comm (3 * u)).
  apply Rmult_le_compat_l; [apply Rabs_pos|]. apply prod3_bound; assumption.
Qed.

Lemma uR_bpow : uR = bpow radix2 (-53).
Proof.
  unfold uR. change (/ 2) with (/ bpow radix2 1). rewrite <- bpow_opp, <- bpow_plus. reflexivity.
Qed.

Lemma uR_range : 0 < uR <= / 2.
Proof.
  rewrite uR_bpow. split; [apply bpow_gt_0|].
  change (/ 2) with (/ bpow radix2 1). rewrite <- bpow_opp. apply bpow_le. lia.
Qed.

(* ---- the floats of the unit tables ---- *)
Definition uQ : Q := 1 # 9007199254740992.

Lemma Q2R_uQ : Q2R uQ = uR.
Proof.
  rewrite uR_bpow, <- Q2R_Qpower2. apply Qeq_eqR. vm_compute. reflexivity.
Qed.

Definition scale_float (s : scale) : option PrimFloat.float :=
  match scale_num s with
  | NF f => Some f
  | NI z => match int_to_float z with FOk f => Some f | _ => None end
  end.

Definition fin_b (f : PrimFloat.float) : bool :=
  negb (PrimFloat.is_nan f) && negb (PrimFloat.is_infinity f).

(* decidable facts about a pair of table entries (exact rational arithmetic):
   both floats are finite, of magnitude in [2^-40, 2^17], and the quotient of the two
   floats differs from the quotient of the ideal scales by a relative error small
   enough to leave room for two roundings inside 3 * 2^-53 *)
Definition rng_ok (q : Q) : bool :=
  Qle_bool (Qpower 2 (-40)) (Qabs q) && Qle_bool (Qabs q) (Qpower 2 17).

Definition pair_ok (sa sb : scale) (qa qb : Q) : bool :=
  match scale_float sa, scale_float sb with
  | Some fa, Some fb =>
      let A := F2Q fa in let B := F2Q fb in
      fin_b fa && fin_b fb && rng_ok A && rng_ok B &&
      Qle_bool (Qabs (A * qb - B * qa) * ((1 + uQ) * (1 + uQ))) ((uQ - uQ * uQ) * Qabs (B * qa))
  | _, _ => false
  end.

Definition fam_ok (tab : list (list N * scale)) : bool :=
  forallb (fun ea => forallb (fun eb =>
    match scaleQ (fst ea), scaleQ (fst eb) with
    | Some qa, Some qb => pair_ok (snd ea) (snd eb) qa qb
    | _, _ => false
    end) tab) tab.

Lemma tables_pair_ok : fam_ok conc_units && fam_ok time_units = true.
Proof. vm_compute. reflexivity. Qed.

Lemma ulookup_forallb : forall (P : list N * scale -> bool) tab a s,
  forallb P tab = true -> ulookup a tab = Some s -> P (a, s) = true.
Proof.
  intros P tab a s. induction tab as [|[k v] r IH]; cbn [forallb ulookup]; [discriminate|].
  intros H. apply andb_true_iff in H. destruct H as [H1 H2].
  destruct (str_eqb a k) eqn:E.
  - apply str_eqb_iff in E. subst k. intros [= ->]. exact H1.
  - apply IH. exact H2.
Qed.

Lemma fam_pair : forall tab a b s_a s_b qa qb, fam_ok tab = true ->
  ulookup a tab = Some s_a -> ulookup b tab = Some s_b ->
  scaleQ a = Some qa -> scaleQ b = Some qb -> pair_ok s_a s_b qa qb = true.
Proof.
  intros tab a b s_a s_b qa qb F La Lb Qa Qb. unfold fam_ok in F.
  pose proof (ulookup_forallb _ _ _ _ F La) as F1. cbn beta in F1.
  pose proof (ulookup_forallb _ _ _ _ F1 Lb) as F2. cbn [fst snd] in F2.
  unfold pstr, chr in *. rewrite Qa, Qb in F2. exact F2.
Qed.

(* ---- unfolding convert_units on a float argument ---- *)
Definition conv_mid_in (tab : list (list N * scale)) (v : PrimFloat.float) (s_a : scale) (b : pstr)
  : option (PrimFloat.float * PrimFloat.float) :=
  match ulookup b tab with
  | Some s_b =>
      match scale_float s_a, scale_float s_b with
      | Some fa, Some fb => Some (PrimFloat.mul v fa, PrimFloat.div (PrimFloat.mul v fa) fb)
      | _, _ => None
      end
  | None => None
  end.

(* the two intermediate floats of convert_units (NF v) a b: v*scale(a) and (v*scale(a))/scale(b) *)
Definition conv_mid (v : PrimFloat.float) (a b : pstr) : option (PrimFloat.float * PrimFloat.float) :=
  match ulookup a conc_units with
  | Some s_a => conv_mid_in conc_units v s_a b
  | None =>
      match ulookup a time_units with
      | Some s_a => conv_mid_in time_units v s_a b
      | None => None
      end
  end.

Lemma conv_in_float : forall tab v s_a b r, conv_in tab (NF v) s_a b = Ok r ->
  exists s_b fa fb, ulookup b tab = Some s_b /\ scale_float s_a = Some fa /\ scale_float s_b = Some fb /\
    flint (NF (PrimFloat.div (PrimFloat.mul v fa) fb)) = Ok r.
Proof.
  intros tab v s_a b r. unfold conv_in.
  assert (PM : forall k, rbind (pmul (NF v) (scale_num s_a)) k = Ok r ->
               exists fa, scale_float s_a = Some fa /\ k (NF (PrimFloat.mul v fa)) = Ok r).
  { intros k. unfold scale_float. destruct (scale_num s_a) as [z|f]; cbn [pmul].
    - unfold lift_f. destruct (int_to_float z); cbn [rbind]; try discriminate. eauto.
    - cbn [rbind]. eauto. }
  intros H. apply PM in H. destruct H as (fa & Fa & H).
  destruct (ulookup b tab) as [s_b|]; [|discriminate].
  exists s_b, fa. unfold scale_float. destruct (scale_num s_b) as [z|g]; cbn [pdiv] in H.
  - destruct (z =? 0)%Z; [discriminate|]. unfold lift_f in H.
    destruct (int_to_float z) as [g| |]; cbn [rbind] in H; try discriminate. eauto 6.
  - destruct (PrimFloat.is_zero g); cbn [rbind] in H; [discriminate|]. eauto 6.
Qed.

Lemma convert_units_float : forall v a b r, convert_units (NF v) a b = Ok r ->
  exists tab s_a s_b fa fb,
    fam_ok tab = true /\ ulookup a tab = Some s_a /\ ulookup b tab = Some s_b /\
    scale_float s_a = Some fa /\ scale_float s_b = Some fb /\
    conv_mid v a b = Some (PrimFloat.mul v fa, PrimFloat.div (PrimFloat.mul v fa) fb) /\
    flint (NF (PrimFloat.div (PrimFloat.mul v fa) fb)) = Ok r.
Proof.
  intros v a b r. pose proof tables_pair_ok as T. apply andb_true_iff in T. destruct T as [T1 T2].
  unfold convert_units, conv_mid.
  destruct (ulookup a conc_units) as [s_a|] eqn:E1.
  - intros H. apply conv_in_float in H. destruct H as (s_b & fa & fb & L & Fa & Fb & H).
    exists conc_units, s_a, s_b, fa, fb. unfold conv_mid_in. rewrite L, Fa, Fb. auto 10.
  - destruct (ulookup a time_units) as [s_a|] eqn:E2; [|discriminate].
    intros H. apply conv_in_float in H. destruct H as (s_b & fa & fb & L & Fa & Fb & H).
    exists time_units, s_a, s_b, fa, fb. unfold conv_mid_in. rewrite L, Fa, Fb. auto 10.
Qed.

(* value of a result of convert_units / flint as a rational *)
Definition numQ (r : UnitsF.num) : Q := match r with NI z => inject_Z z | NF g => F2Q g end.

Lemma flint_numQ : forall y r, ffinite y = true -> flint (NF y) = Ok r ->
  (numQ r == F2Q y)%Q /\ (r = NF y \/ exists z, r = NI z).
Proof.
  intros y r F H. rewrite ffinite_spec in F. apply andb_true_iff in F. destruct F as [F1 F2].
  apply negb_true_iff in F1, F2. pose proof (flint_float_spec y F1 F2) as S. rewrite H in S.
  destruct r as [z|g].
  - split; [symmetry; exact S|right; eauto].
  - destruct S as [-> _]. split; [reflexivity|left; reflexivity].
Qed.

Lemma Q2R_0 : Q2R 0 = 0.
Proof. unfold Q2R; cbn; lra. Qed.

Lemma nz_R : forall q, nz q -> Q2R q <> 0.
Proof. intros q H E. apply H. apply eqR_Qeq. rewrite E, Q2R_0. reflexivity. Qed.

Lemma nonzero_ffinite : forall f, B2R (FP.Prim2B f) <> 0 -> ffinite f = true.
Proof. intros f. unfold ffinite. destruct (FP.Prim2B f); cbn; congruence. Qed.

Lemma fin_b_ffinite : forall f, fin_b f = ffinite f.
Proof. intros f. rewrite ffinite_spec. reflexivity. Qed.

Lemma rng_ok_R : forall f, rng_ok (F2Q f) = true ->
  bpow radix2 (-40) <= Rabs (B2R (FP.Prim2B f)) <= bpow radix2 17.
Proof.
  intros f H. unfold rng_ok in H. apply andb_true_iff in H. destruct H as [H1 H2].
  apply Qle_bool_iff, Qle_Rle in H1. apply Qle_bool_iff, Qle_Rle in H2.
  rewrite Q2R_Qabs, Q2R_Qpower2, Q2R_F2Q in *. split; assumption.
Qed.

Record pair_facts (fa fb : PrimFloat.float) (qa qb : Q) : Prop := {
  pf_fa : ffinite fa = true;
  pf_fb : ffinite fb = true;
  pf_ra : bpow radix2 (-40) <= Rabs (B2R (FP.Prim2B fa)) <= bpow radix2 17;
  pf_rb : bpow radix2 (-40) <= Rabs (B2R (FP.Prim2B fb)) <= bpow radix2 17;
  pf_eps : Rabs (B2R (FP.Prim2B fa) * Q2R qb - B2R (FP.Prim2B fb) * Q2R qa) * ((1 + uR) * (1 + uR))
           <= (uR - uR * uR) * Rabs (B2R (FP.Prim2B fb) * Q2R qa)
}.

Lemma pair_ok_facts : forall s_a s_b qa qb fa fb,
  pair_ok s_a s_b qa qb = true -> scale_float s_a = Some fa -> scale_float s_b = Some fb ->
  pair_facts fa fb qa qb.
Proof.
  intros s_a s_b qa qb fa fb H Fa Fb. unfold pair_ok in H. rewrite Fa, Fb in H. cbv zeta in H.
  apply andb_true_iff in H. destruct H as [H H0].
  apply andb_true_iff in H. destruct H as [H H1].
  apply andb_true_iff in H. destruct H as [H H2].
  apply andb_true_iff in H. destruct H as [H4 H3].
  rewrite fin_b_ffinite in H3, H4.
  constructor; try assumption; try (apply rng_ok_R; assumption).
  apply Qle_bool_iff, Qle_Rle in H0.
  rewrite !Q2R_mult, !Q2R_Qabs, Q2R_minus, !Q2R_mult, !Q2R_plus, Q2R_minus, !Q2R_mult, !Q2R_F2Q, Q2R_uQ in H0.
  replace (Q2R 1) with 1 in H0 by (unfold Q2R; cbn; lra). exact H0.
Qed.

Lemma Q2R_3u : Q2R (3 # 9007199254740992) = 3 * uR.
Proof.
  rewrite <- Q2R_uQ. replace 3 with (Q2R 3) by (unfold Q2R; cbn; lra). rewrite <- Q2R_mult.
  apply Qeq_eqR. vm_compute. reflexivity.
Qed.

Lemma bpow_pos_nz : forall e x, bpow radix2 e <= Rabs x -> x <> 0.
Proof. intros e x H ->. rewrite Rabs_R0 in H. pose proof (bpow_gt_0 radix2 e). lra. Qed.

Lemma bound_to_Q : forall (R0 V0 qa qb : Q), nz qb ->
  Rabs (Q2R R0 - Q2R V0 * Q2R qa / Q2R qb) <= 3 * uR * Rabs (Q2R V0 * Q2R qa / Q2R qb) ->
  (Qabs (R0 - V0 * qa / qb) <= (3 # 9007199254740992) * Qabs (V0 * qa / qb))%Q.
Proof.
  intros R0 V0 qa qb Hb H. apply Rle_Qle.
  rewrite Q2R_mult, !Q2R_Qabs, Q2R_minus, Q2R_div, Q2R_mult, Q2R_3u by exact Hb. exact H.
Qed.

(* ---- main theorem: no intermediate result overflows or leaves the normal range ---- *)
Theorem conv_float_close : forall v a b sa sb r x y,
  scaleQ a = Some sa -> scaleQ b = Some sb ->
  convert_units (NF v) a b = Ok r ->
  conv_mid v a b = Some (x, y) ->
  (Qpower 2 (-1022) < Qabs (F2Q x))%Q -> (Qpower 2 (-1022) < Qabs (F2Q y))%Q ->
  (Qabs (numQ r - F2Q v * sa / sb) <= (3 # 9007199254740992) * Qabs (F2Q v * sa / sb))%Q.
Proof.
  intros v a b qa qb r x y Sa Sb H M Nx Ny.
  destruct (convert_units_float _ _ _ _ H) as (tab & s_a & s_b & fa & fb & F & La & Lb & Fa & Fb & M' & FL).
  rewrite M' in M. injection M as <- <-.
  pose proof (pair_ok_facts _ _ _ _ _ _ (fam_pair _ _ _ _ _ _ _ F La Lb Sa Sb) Fa Fb) as [Ffa Ffb Ra Rb Eps].
  apply Qlt_Rlt in Nx, Ny. rewrite Q2R_Qabs, Q2R_Qpower2, Q2R_F2Q in Nx, Ny.
  assert (Fy : ffinite (v * fa / fb)%float = true).
  { apply nonzero_ffinite. apply (bpow_pos_nz (-1022)). lra. }
  assert (NB : B2R (FP.Prim2B fb) <> 0) by (apply (bpow_pos_nz (-40)); tauto).
  destruct (div_round _ _ NB Fy) as [Ey Fx].
  destruct (mul_round _ _ Fx) as (Ex & _ & _).
  destruct (flint_numQ _ _ Fy FL) as [NQ _].
  apply bound_to_Q; [apply (scaleQ_nonzero _ _ Sb)|].
  rewrite (Qeq_eqR _ _ NQ), !Q2R_F2Q.
  apply chain_bound with (A := B2R (FP.Prim2B fa)) (B := B2R (FP.Prim2B fb)) (X := B2R (FP.Prim2B (v * fa)%float)).
  - exact uR_range.
  - exact NB.
  - apply nz_R, (scaleQ_nonzero _ _ Sa).
  - apply nz_R, (scaleQ_nonzero _ _ Sb).
  - rewrite Ex in *. apply rnd_rel. exact Nx.
  - rewrite Ey in *. apply rnd_rel. exact Ny.
  - exact Eps.
Qed.

(* ---- corollary: a condition on v alone ---- *)
Lemma abs_mul_range : forall x y a b c d,
  bpow radix2 a <= Rabs x <= bpow radix2 b -> bpow radix2 c <= Rabs y <= bpow radix2 d ->
  bpow radix2 (a + c) <= Rabs (x * y) <= bpow radix2 (b + d).
Proof.
  intros x y a b c d [H1 H2] [H3 H4]. rewrite Rabs_mult, !bpow_plus.
  pose proof (bpow_gt_0 radix2 a). pose proof (bpow_gt_0 radix2 c).
  split; apply Rmult_le_compat; lra.
Qed.

Lemma abs_div_range : forall x y a b c d,
  bpow radix2 a <= Rabs x <= bpow radix2 b -> bpow radix2 c <= Rabs y <= bpow radix2 d ->
  bpow radix2 (a - d) <= Rabs (x / y) <= bpow radix2 (b - c).
Proof.
  intros x y a b c d Hx [H3 H4]. unfold Rdiv, Z.sub.
  apply abs_mul_range; [exact Hx|]. rewrite Rabs_inv, !bpow_opp.
  pose proof (bpow_gt_0 radix2 c). pose proof (bpow_gt_0 radix2 d).
  split; apply Rinv_le_contravar. 
  all: lra.
Qed.

Lemma rnd_range : forall r a b, (-1074 <= a)%Z -> (-1074 <= b)%Z ->
  bpow radix2 a <= Rabs r <= bpow radix2 b -> bpow radix2 a <= Rabs (rnd64 r) <= bpow radix2 b.
Proof.
  intros r a b Ha Hb [H1 H2]. split.
  - apply abs_round_ge_generic; [apply FLT_exp_valid; reflexivity|apply valid_rnd_N|apply fmt_bpow; lia|exact H1].
  - apply abs_round_le_generic; [apply FLT_exp_valid; reflexivity|apply valid_rnd_N|apply fmt_bpow; lia|exact H2].
Qed.

Lemma mid_in_range : forall v fa fb,
  ffinite v = true -> ffinite fa = true -> ffinite fb = true ->
  bpow radix2 (-900) <= Rabs (B2R (FP.Prim2B v)) <= bpow radix2 900 ->
  bpow radix2 (-40) <= Rabs (B2R (FP.Prim2B fa)) <= bpow radix2 17 ->
  bpow radix2 (-40) <= Rabs (B2R (FP.Prim2B fb)) <= bpow radix2 17 ->
  bpow radix2 (-1022) < Rabs (B2R (FP.Prim2B (v * fa)%float)) /\
  bpow radix2 (-1022) < Rabs (B2R (FP.Prim2B (v * fa / fb)%float)).
Proof.
  intros v fa fb Fv Ffa Ffb Rv Ra Rb.
  pose proof (rnd_range _ (-900 + -40) (900 + 17) ltac:(lia) ltac:(lia) (abs_mul_range _ _ _ _ _ _ Rv Ra)) as R1.
  destruct (mul_round_fin v fa Fv Ffa) as [Fx Ex].
  { eapply Rle_lt_trans; [apply R1|]. apply bpow_lt. lia. }
  rewrite <- Ex in R1.
  assert (NB : B2R (FP.Prim2B fb) <> 0) by (apply (bpow_pos_nz (-40)); tauto).
  pose proof (rnd_range _ (-900 + -40 - 17) (900 + 17 - -40) ltac:(lia) ltac:(lia) (abs_div_range _ _ _ _ _ _ R1 Rb)) as R2.
  destruct (div_round_fin (v * fa)%float fb Fx NB) as [Fy Ey].
  { eapply Rle_lt_trans; [apply R2|]. apply bpow_lt. lia. }
  rewrite <- Ey in R2.
  split; (eapply Rlt_le_trans; [|first [apply R1|apply R2]]); apply bpow_lt; lia.
Qed.

Lemma mid_zero : forall v fa fb,
  ffinite v = true -> ffinite fa = true -> B2R (FP.Prim2B fb) <> 0 ->
  B2R (FP.Prim2B v) = 0 ->
  ffinite (v * fa / fb)%float = true /\ B2R (FP.Prim2B (v * fa / fb)%float) = 0.
Proof.
  intros v fa fb Fv Ffa NB V0.
  destruct (mul_round_fin v fa Fv Ffa) as [Fx Ex].
  { rewrite V0, Rmult_0_l, round_0 by apply valid_rnd_N. rewrite Rabs_R0. apply bpow_gt_0. }
  rewrite V0, Rmult_0_l, round_0 in Ex by apply valid_rnd_N.
  destruct (div_round_fin (v * fa)%float fb Fx NB) as [Fy Ey].
  { rewrite Ex. unfold Rdiv. rewrite Rmult_0_l, round_0 by apply valid_rnd_N. rewrite Rabs_R0. apply bpow_gt_0. }
  rewrite Ex in Ey. unfold Rdiv in Ey. rewrite Rmult_0_l, round_0 in Ey by apply valid_rnd_N.
  split; assumption.
Qed.

Theorem conv_float_close_range : forall v a b sa sb r,
  PrimFloat.is_nan v = false -> PrimFloat.is_infinity v = false ->
  scaleQ a = Some sa -> scaleQ b = Some sb ->
  convert_units (NF v) a b = Ok r ->
  ((F2Q v == 0) \/ (Qpower 2 (-900) <= Qabs (F2Q v) /\ Qabs (F2Q v) <= Qpower 2 900))%Q ->
  (Qabs (numQ r - F2Q v * sa / sb) <= (3 # 9007199254740992) * Qabs (F2Q v * sa / sb))%Q.
Proof.
  intros v a b qa qb r Hn Hi Sa Sb H Rng.
  assert (Fv : ffinite v = true) by (rewrite ffinite_spec, Hn, Hi; reflexivity).
  destruct (convert_units_float _ _ _ _ H) as (tab & s_a & s_b & fa & fb & F & La & Lb & Fa & Fb & M & FL).
  pose proof (pair_ok_facts _ _ _ _ _ _ (fam_pair _ _ _ _ _ _ _ F La Lb Sa Sb) Fa Fb) as [Ffa Ffb Ra Rb Eps].
  destruct Rng as [Z0|[L U]].
  - apply Qeq_eqR in Z0. rewrite Q2R_F2Q, Q2R_0 in Z0.
    assert (NB : B2R (FP.Prim2B fb) <> 0) by (apply (bpow_pos_nz (-40)); tauto).
    destruct (mid_zero v fa fb Fv Ffa NB Z0) as [Fy Ey].
    destruct (flint_numQ _ _ Fy FL) as [NQ _].
    apply bound_to_Q; [apply (scaleQ_nonzero _ _ Sb)|].
    rewrite (Qeq_eqR _ _ NQ), !Q2R_F2Q, Ey, Z0.
    unfold Rdiv. rewrite !Rmult_0_l, Rminus_0_r, Rabs_R0. lra.
  - apply Qle_Rle in L, U. rewrite Q2R_Qabs, Q2R_Qpower2, Q2R_F2Q in L, U.
    destruct (mid_in_range v fa fb Fv Ffa Ffb (conj L U) Ra Rb) as [Nx Ny].
    apply (conv_float_close v a b qa qb r _ _ Sa Sb H M); apply Rlt_Qlt;
      rewrite Q2R_Qabs, Q2R_Qpower2, Q2R_F2Q; assumption.
Qed.

(* the statement of Proofs/C18.v restricted by the two no-underflow hypotheses *)
Theorem conv_float_close_partial : forall (v : PrimFloat.float) a b sa sb g x y,
  scaleQ a = Some sa -> scaleQ b = Some sb ->
  convert_units (NF v) a b = Ok (NF g) ->
  conv_mid v a b = Some (x, y) ->
  (Qpower 2 (-1022) < Qabs (F2Q x))%Q -> (Qpower 2 (-1022) < Qabs (F2Q y))%Q ->
  (Qabs (F2Q g - F2Q v * sa / sb) <= (3 # 9007199254740992) * Qabs (F2Q v * sa / sb))%Q.
Proof. intros v a b sa sb g x y. apply (conv_float_close v a b sa sb (NF g) x y). Qed.

(* ---- the statement kept in Proofs/C18.v is false without a no-underflow hypothesis:
   2^-1064 mM -> M gives 2^-1074 (the product is rounded to the smallest subnormal),
   about 2 % away from the exact 2^-1064 / 1000 ---- *)
Theorem conv_float_close_full_refuted : ~ conv_float_close_full.
Proof.
  intros H.
  pose (v := SF2Prim (S754_finite false 1 (-1064))).
  pose (g := SF2Prim (S754_finite false 1 (-1074))).
  assert (E : convert_units (NF v) (str "mM") (str "M") = Ok (NF g)) by (vm_compute; reflexivity).
  assert (Hn : PrimFloat.is_nan v = false) by (vm_compute; reflexivity).
  assert (Hi : PrimFloat.is_infinity v = false) by (vm_compute; reflexivity).
  assert (Hg : PrimFloat.is_infinity g = false) by (vm_compute; reflexivity).
  pose proof (H v (str "mM") (str "M") (1 # 1000)%Q 1%Q g Hn Hi eq_refl eq_refl E Hg) as K.
  revert K. vm_compute. intros K. apply K. reflexivity.
Qed.

(* every successful conversion of a float has its two intermediates *)
Theorem convert_units_mid : forall v a b r, convert_units (NF v) a b = Ok r ->
  exists x y, conv_mid v a b = Some (x, y) /\ flint (NF y) = Ok r.
Proof.
  intros v a b r H.
  destruct (convert_units_float _ _ _ _ H) as (tab & s_a & s_b & fa & fb & _ & _ & _ & _ & _ & M & FL).
  eauto.
Qed.

(* ---- non-vacuity ---- *)
Definition q_normal (f : PrimFloat.float) : bool := negb (Qle_bool (Qabs (F2Q f)) (Qpower 2 (-1022))).

Example ex_flint_integral : flint (mkf 625 2) = Ok (NI 2500).
Proof. vm_compute. reflexivity. Qed.
Example ex_flint_fractional : enc_res (flint (mkf 5 (-1))) = [1; 5; -1]%Z.
Proof. vm_compute. reflexivity. Qed.
Example ex_flint_small_int : flint (NI (- (2 ^ 53 - 1))) = Ok (NI (- (2 ^ 53 - 1))).
Proof. apply flint_small_int. vm_compute. discriminate. Qed.
(* 0.1 mM -> uM: a float result (100.00000000000001), both intermediates normal *)
Example ex_conv_close_hyps :
  match mkf 7205759403792794 (-56) with
  | NF v =>
      match convert_units (NF v) (str "mM") (str "uM"), conv_mid v (str "mM") (str "uM") with
      | Ok (NF g), Some (x, y) => q_normal x && q_normal y && negb (PrimFloat.is_infinity g)
      | _, _ => false
      end
  | NI _ => false
  end = true.
Proof. vm_compute. reflexivity. Qed.
(* 2.5 mM -> uM: an int result (2500), covered by numQ *)
Example ex_conv_close_int :
  convert_units (mkf 5 (-1)) (str "mM") (str "uM") = Ok (NI 2500).
Proof. vm_compute. reflexivity. Qed.
