(* Reader model, layer 2: parsed lines as typed statements.
   `decode line` performs every pure step of read_pil_line on the token tree (indexing,
   int()/float(), resolve_kernel_loops); `exec_stmt` is what remains: the constructor
   calls.  For a decodable line read_pil_line is exec_stmt of its statement, in every
   state (read_pil_line_decode).  `encode` renders statements back to token trees. *)
From Coq Require Import List NArith ZArith Bool Arith Lia.
From DSD Require Import Base.Str Base.Errors Model.ComplexUtils Model.RegStr Model.ReaderStr Model.PyNum
  Model.Peg Model.Kernel Model.DispatchKernel Model.Heap Model.Registry Model.Reader Model.ReaderShape Proofs.ReaderBasic.
From DSDGen Require Import ReaderConsts.
Import ListNotations.

Definition cfg_full (g : cfg) : Prop :=
  exists d s c m r, g = mkCfg (Some d) (Some s) (Some c) (Some m) (Some r).

Section Exec.
  Variable ct : ctable.
  Variable g : cfg.

  Definition exec_stmt (line : list tok) (s : stmt) : M robj :=
    match s with
    | SDl nm dlen => dm i <- domain_new ct g nm dlen; ret (RObj i)
    | SSl nm sq chk =>
        dm _ <- (match chk with
                 | Some n => if Z.eqb n (Z.of_nat (length sq)) then ret tt else fail ePilFormat
                 | None => ret tt
                 end);
        dm i <- domain_new ct g nm (Z.of_nat (length sq));
        dm _ <- set_seq i sq;
        ret (RObj i)
    | SComp nm ds =>
        dm ids <- mapM (domain_by_name ct g) ds;
        dm c <- slot (gS g);
        dm st <- get_state;
        dm i <- call (fun st' => strand_call ct c st' (Some (map (elem_of st) ids)) (Some nm) None);
        ret (RObj i)
    | SSC nm ss sst =>
        dm stab <- mapM (strand_seq ct g) ss;
        dm _ <- (match stab with [] => fail ePilFormat | _ => ret tt end);
        dm sq <- lift (strand_table_to_sequence (sPlus, @None nat) stab);
        dm c <- slot (gC g);
        dm i <- call (fun st => cplx_call ct c st (Some sq) (Some (filter (fun c => negb (N.eqb c 32%N)) sst)) (Some nm) None);
        ret (RObj i)
    | SKer nm names sst cc =>
        dm cs <- kernel_sequence ct g names sst;
        dm c <- slot (gC g);
        dm st <- get_state;
        dm i <- call (fun st' => cplx_call ct c st' (Some (map (cell_elem st) (fst cs))) (Some (snd cs)) (Some nm) None);
        dm _ <- (match cc with Some x => set_conc i x | None => ret tt end);
        ret (RObj i)
    | SMac nm xs =>
        dm ids <- key_to_pil (mapM (complex_by_name ct g) xs);
        dm c <- slot (gM g);
        dm i <- call (fun st => macro_call ct c st (Some ids) (Some nm));
        ret (RObj i)
    | SRxn ri =>
        let by_name := if is_s (ri_type ri) sCondensed then macro_by_name ct g else complex_by_name ct g in
        dm rp <- key_to_pil (dm re <- mapM by_name (ri_reactants ri);
                             dm pr <- mapM by_name (ri_products ri); ret (re, pr));
        dm c <- slot (gR g);
        dm i <- call (fun st => reaction_call ct c st (Some rp) (ri_type ri) None);
        dm _ <- match ri_rate ri with Some k => set_rate i (k, ri_units ri) | None => ret tt end;
        ret (RObj i)
    | SOther => ret (RLine line)
    end.
End Exec.

(* ---- read_pil_line = exec_stmt . decode ---- *)
Lemma bind_lift_ok {A B} (x : res A) (a : A) (f : A -> M B) : x = Ok a -> bind (lift x) f = f a.
Proof. intros ->. reflexivity. Qed.

Lemma rbind_ok_inv {A B} (x : res A) (f : A -> res B) b :
  rbind x f = Ok b -> exists a, x = Ok a /\ f a = Ok b.
Proof. destruct x as [a|k]; cbn; [|discriminate]. intros H. exists a. auto. Qed.

Ltac dec_step H :=
  apply rbind_ok_inv in H; let a := fresh "a" in let E := fresh "E" in destruct H as [a [E H]].

Lemma bind_lift_Ok {A B} (a : A) (f : A -> M B) : bind (lift (Ok a)) f = f a.
Proof. reflexivity. Qed.

Ltac use_lift H :=
  let a := fresh "a" in let E := fresh "E" in
  apply rbind_ok_inv in H; destruct H as [a [E H]]; rewrite E; clear E; try rewrite bind_lift_Ok; cbv beta.

Lemma bind_ext {A B} (m : M A) (f f' : A -> M B) :
  (forall a r, f a r = f' a r) -> forall r, bind m f r = bind m f' r.
Proof. intros H r. unfold bind. destruct (m r) as [r1 [a|k]]; [apply H | reflexivity]. Qed.

Theorem read_pil_line_decode ct g line s :
  cfg_full g -> decode line = Ok s -> forall r0, read_pil_line ct g line r0 = exec_stmt ct g line s r0.
Proof.
  intros [d [s0 [c [m [r ->]]]]] H. unfold decode in H. unfold read_pil_line.
  use_lift H. rename a into name. use_lift H. rename a into tag.
  cbn [gD gS gC gM gR is_some andb].
  destruct (tag_is tag tDl); [| destruct (tag_is tag tSl); [| destruct (tag_is tag tComposite);
    [| destruct (tag_is tag tStrandCplx); [| destruct (tag_is tag tKernel); [| destruct (tag_is tag tMacro);
    [| destruct (tag_is tag tReaction) ]]]]]]; cbn [andb].
  - use_lift H. use_lift H. use_lift H. injection H as <-. reflexivity.
  - use_lift H. rename a into sq.
    apply rbind_ok_inv in H. destruct H as [chk [Ec H]].
    use_lift H. injection H as <-. cbn [exec_stmt].
    destruct (Nat.eqb (length line) 4).
    + use_lift Ec. injection Ec as <-. reflexivity.
    + injection Ec as <-. reflexivity.
  - use_lift H. use_lift H. injection H as <-. reflexivity.
  - use_lift H. use_lift H. use_lift H. injection H as <-. reflexivity.
  - use_lift H. use_lift H. rename a0 into ss. use_lift H. rename a0 into nm.
    apply rbind_ok_inv in H. destruct H as [cc [Ec H]]. injection H as <-. cbn [exec_stmt].
    apply bind_ext. intros cs r1. rewrite bind_lift_Ok.
    apply bind_ext. intros c0 r2. apply bind_ext. intros st r3. apply bind_ext. intros i r4.
    assert (Hc : forall r5, (if 3 <? length line
              then dm l3 <- lift (dor t <- tnth line 3; t_list t);
                   match l3 with
                   | [mode; v; unit] => dm f <- lift (dor s <- t_str v; py_float s); set_conc i (mode, f, unit)
                   | _ => fail eAssert
                   end
              else ret tt) r5 = (match cc with Some x => set_conc i x | None => ret tt end) r5).
    { intros r5. destruct (3 <? length line).
      - apply rbind_ok_inv in Ec. destruct Ec as [l3 [El Ec]]. rewrite El, bind_lift_Ok.
        destruct l3 as [|mode [|v [|unit [|? ?]]]]; try discriminate.
        apply rbind_ok_inv in Ec. destruct Ec as [f [Ef Ec]]. injection Ec as <-.
        rewrite Ef, bind_lift_Ok. reflexivity.
      - injection Ec as <-. reflexivity. }
    unfold bind at 1. unfold bind at 2. rewrite Hc. reflexivity.
  - use_lift H. use_lift H. injection H as <-. reflexivity.
  - use_lift H. destruct (reaction_ignored a); injection H as <-; reflexivity.
  - injection H as <-. reflexivity.
Qed.
