(* Registry machine, layer 4: what a constructor call can do to a collected state.
   `Ext st s`: s is st plus new objects on top of the heap and new registry entries
   that point to them; `Junk st s`: s is st plus dead objects only.  Collecting an
   extension in which nothing new is rooted gives back the state up to junk:
   this is "a refused request changes nothing" and "temporaries leave no trace". *)
From Coq Require Import List NArith ZArith Bool Arith Lia.
From DSD Require Import Base.Str Base.Errors Model.ComplexUtils Model.RegStr Model.Heap Model.Registry
  Proofs.RegHeap Proofs.RegInv Proofs.RegCalls.
Import ListNotations.

Definition new_vals {K} (n : nat) (l : list (K * nat)) : Prop := Forall (fun kv => n <= snd kv) l.

Record Ext (st s : state) : Prop := mkExt {
  ex_roots : roots s = roots st;
  ex_len : length (classes s) = length (classes st);
  ex_heap : exists top, heap s = top ++ heap st;
  ex_regs : forall c, exists nn cc,
      cs_names (cget s c) = cs_names (cget st c) ++ nn /\
      cs_canon (cget s c) = cs_canon (cget st c) ++ cc /\
      new_vals (length (heap st)) nn /\ new_vals (length (heap st)) cc
}.

Record Junk (st s : state) : Prop := mkJunk {
  jk_roots : roots s = roots st;
  jk_len : length (classes s) = length (classes st);
  jk_heap : exists top, heap s = top ++ heap st /\ Forall (fun o => o_live o = false) top;
  jk_regs : forall c, cs_names (cget s c) = cs_names (cget st c) /\ cs_canon (cget s c) = cs_canon (cget st c)
}.

Lemma ext_refl st : Ext st st.
Proof.
  constructor; auto; [exists []; reflexivity|].
  intros c. exists [], []. rewrite !app_nil_r. repeat split; constructor.
Qed.

Lemma junk_refl st : Junk st st.
Proof. constructor; auto. exists []. split; [reflexivity | constructor]. Qed.

Lemma junk_ext st s : Junk st s -> Ext st s.
Proof.
  intros [J1 J2 [top [J3 _]] J4]. constructor; auto; [exists top; exact J3|].
  intros c. destruct (J4 c) as [E1 E2]. exists [], []. rewrite !app_nil_r. repeat split; auto; constructor.
Qed.

Lemma new_vals_mono {K} n m (l : list (K * nat)) : n <= m -> new_vals m l -> new_vals n l.
Proof. intros H F. eapply Forall_impl; [|exact F]. cbn. intros a Ha. lia. Qed.

Lemma ext_trans st s1 s2 : Ext st s1 -> Ext s1 s2 -> Ext st s2.
Proof.
  intros [A1 A2 [t1 A3] A4] [B1 B2 [t2 B3] B4]. constructor.
  - congruence.
  - congruence.
  - exists (t2 ++ t1). rewrite B3, A3. apply app_assoc.
  - intros c. destruct (A4 c) as [n1 [c1 [E1 [E2 [F1 F2]]]]]. destruct (B4 c) as [n2 [c2 [G1 [G2 [H1 H2]]]]].
    exists (n1 ++ n2), (c1 ++ c2). rewrite G1, G2, E1, E2, <- !app_assoc. repeat split; auto.
    + apply Forall_app. split; [exact F1|]. eapply new_vals_mono; [|exact H1]. rewrite A3, app_length. lia.
    + apply Forall_app. split; [exact F2|]. eapply new_vals_mono; [|exact H2]. rewrite A3, app_length. lia.
Qed.

Lemma junk_trans st s1 s2 : Junk st s1 -> Junk s1 s2 -> Junk st s2.
Proof.
  intros [A1 A2 [t1 [A3 A5]] A4] [B1 B2 [t2 [B3 B5]] B4]. constructor.
  - congruence.
  - congruence.
  - exists (t2 ++ t1). split; [rewrite B3, A3; apply app_assoc | apply Forall_app; split; assumption].
  - intros c. destruct (A4 c), (B4 c). split; congruence.
Qed.

(* ---- heaps with something on top ---- *)
Lemma hget_app_old top h i : i < length h -> hget (top ++ h) i = hget h i.
Proof.
  intros H. induction top as [|o r IH]; cbn; [reflexivity|].
  rewrite app_length. destruct (Nat.eqb i (length r + length h)) eqn:E; [apply Nat.eqb_eq in E; lia | exact IH].
Qed.

Lemma is_live_app_old top h i : i < length h -> is_live (top ++ h) i = is_live h i.
Proof. intros H. unfold is_live. rewrite hget_app_old by exact H. reflexivity. Qed.

Lemma hget_app_dead top h i o :
  Forall (fun x => o_live x = false) top -> hget (top ++ h) i = Some o -> o_live o = true -> i < length h.
Proof.
  intros F. induction top as [|x r IH]; cbn; intros Hg Hl.
  - eapply hget_lt; eauto.
  - inversion F as [|? ? Fx Fr]; subst. destruct (Nat.eqb i (length (r ++ h))).
    + injection Hg as <-. congruence.
    + apply IH; assumption.
Qed.

Lemma hget_ext h1 h2 : length h1 = length h2 -> (forall i, hget h1 i = hget h2 i) -> h1 = h2.
Proof.
  revert h2. induction h1 as [|a r IH]; intros [|b r2] L H; cbn in L; try lia; [reflexivity|].
  assert (Lr : length r = length r2) by lia.
  pose proof (H (length r)) as H0. rewrite hget_new in H0. rewrite Lr in H0. rewrite hget_new in H0.
  injection H0 as ->. f_equal. apply IH; [exact Lr|]. intros i.
  destruct (Nat.lt_ge_cases i (length r)) as [Hi|Hi].
  - pose proof (H i) as Hi'. rewrite !hget_old in Hi' by lia. exact Hi'.
  - rewrite !hget_ge by lia. reflexivity.
Qed.

Lemma kill_dead o : o_live o = false -> kill o = o.
Proof. destruct o; cbn. intros ->. reflexivity. Qed.

(* ---- sweeping a collected heap changes nothing ---- *)
Lemma sweep_collected h need :
  children_older h -> (forall i, is_live h i = true -> Reach h need i) -> sweep h need = h.
Proof.
  intros CO C. apply hget_ext; [apply sweep_length|]. intros i. rewrite hget_sweep.
  destruct (hget h i) as [o|] eqn:E; [|reflexivity]. cbn. f_equal.
  destruct (kept h need i) eqn:K; [reflexivity|]. apply kill_dead.
  destruct (o_live o) eqn:L; [|reflexivity]. exfalso.
  assert (K' : kept h need i = true).
  { apply kept_iff; [exact CO|]. assert (Li : is_live h i = true) by (unfold is_live; rewrite E; exact L). auto. }
  congruence.
Qed.

Lemma sweep_app_top top h need :
  (forall x, In x need -> x < length h) -> sweep (top ++ h) need = map kill top ++ sweep h need.
Proof.
  intros Hn. induction top as [|o r IH]; cbn; [reflexivity|].
  assert (M : mem (length (r ++ h)) need = false).
  { destruct (mem (length (r ++ h)) need) eqn:E; [|reflexivity]. apply mem_iff in E. apply Hn in E.
    rewrite app_length in E. lia. }
  rewrite M, andb_false_r. f_equal. exact IH.
Qed.

Lemma filter_all {A} (f : A -> bool) l : (forall x, In x l -> f x = true) -> filter f l = l.
Proof.
  induction l as [|a r IH]; cbn; intros H; [reflexivity|].
  rewrite (H a (or_introl eq_refl)). f_equal. apply IH. intros x Hx. apply H. right. exact Hx.
Qed.

Lemma filter_none {A} (f : A -> bool) l : (forall x, In x l -> f x = false) -> filter f l = [].
Proof.
  induction l as [|a r IH]; cbn; intros H; [reflexivity|].
  rewrite (H a (or_introl eq_refl)). apply IH. intros x Hx. apply H. right. exact Hx.
Qed.

Lemma roots_lt st x : HeapOK st -> In x (root_ids (roots st)) -> x < length (heap st).
Proof. intros H Hx. apply root_ids_in in Hx. destruct Hx as [s Hs]. apply is_live_lt. apply (hk_roots _ H s x Hs). Qed.

Lemma is_live_killed_top top h i : length h <= i -> is_live (map kill top ++ h) i = false.
Proof.
  intros H. unfold is_live. destruct (hget (map kill top ++ h) i) as [o|] eqn:E; [|reflexivity].
  destruct (o_live o) eqn:L; [|reflexivity]. exfalso.
  assert (i < length h); [|lia]. eapply hget_app_dead; [|exact E | exact L].
  apply Forall_forall. intros x Hx. apply in_map_iff in Hx. destruct Hx as [y [<- _]]. reflexivity.
Qed.

(* ---- (B) collecting an extension of a collected state ---- *)
Theorem collect_ext ct st s :
  Inv ct st -> Collected st -> Ext st s -> Junk st (collect s).
Proof.
  intros [R H] C [E1 E2 [top E3] E4].
  assert (SW : sweep (heap s) (root_ids (roots s)) = map kill top ++ heap st).
  { rewrite E1, E3. rewrite sweep_app_top by (intros x Hx; apply (roots_lt st x H Hx)).
    f_equal. apply sweep_collected; [apply (hk_older _ H) | exact C]. }
  constructor.
  - cbn. exact E1.
  - cbn. rewrite map_length. exact E2.
  - exists (map kill top). split; [rewrite heap_collect; exact SW|].
    apply Forall_forall. intros x Hx. apply in_map_iff in Hx. destruct Hx as [y [<- _]]. reflexivity.
  - intros c. rewrite cget_collect, SW. destruct (E4 c) as [nn [cc [N1 [N2 [F1 F2]]]]]. unfold new_vals in F1, F2.
    cbn [purge_class cs_names cs_canon]. unfold purge. rewrite N1, N2, !filter_app.
    assert (OK : c < length ct \/ length ct <= c) by lia. destruct OK as [Hc|Hc].
    + pose proof (ok_cls _ _ R c Hc) as K. split.
      * rewrite filter_all, filter_none, app_nil_r; [reflexivity| |].
        -- intros [n i] Hin. cbn. apply is_live_killed_top. rewrite Forall_forall in F1. apply (F1 _ Hin).
        -- intros [n i] Hin. cbn. destruct (ok_nv _ _ _ K n i Hin) as [o [Ho _]].
           pose proof (live_obj_is_live _ _ _ Ho) as L. rewrite is_live_app_old; [exact L | apply is_live_lt; exact L].
      * rewrite filter_all, filter_none, app_nil_r; [reflexivity| |].
        -- intros [n i] Hin. cbn. apply is_live_killed_top. rewrite Forall_forall in F2. apply (F2 _ Hin).
        -- intros [n i] Hin. cbn. destruct (ok_cv _ _ _ K n i Hin) as [o [Ho _]].
           pose proof (live_obj_is_live _ _ _ Ho) as L. rewrite is_live_app_old; [exact L | apply is_live_lt; exact L].
    + (* no such class: the default (empty) class state *)
      assert (D : cget st c = mkCstate [] [] None).
      { unfold cget. apply nth_overflow. rewrite (ok_len _ _ R). exact Hc. }
      rewrite D in *. cbn in *. split.
      * apply filter_none. intros [n i] Hin. cbn. apply is_live_killed_top. rewrite Forall_forall in F1. apply (F1 _ Hin).
      * apply filter_none. intros [n i] Hin. cbn. apply is_live_killed_top. rewrite Forall_forall in F2. apply (F2 _ Hin).
Qed.

Corollary collect_collected ct st : Inv ct st -> Collected st -> Junk st (collect st).
Proof. intros I C. eapply collect_ext; eauto. apply ext_refl. Qed.

(* ---- (A) every constructor call extends the state ---- *)
Section AsetApp.
  Context {K : Type} (eqb : K -> K -> bool).
  Lemma aset_app_fresh k v (l acc : list (K * nat)) :
    alookup eqb k l = None -> aset eqb k v (l ++ acc) = l ++ aset eqb k v acc.
  Proof.
    induction l as [|[k0 v0] r IH]; cbn; [reflexivity|].
    destruct (eqb k k0); [discriminate|]. intros H. f_equal. apply IH. exact H.
  Qed.
  Lemma aset_forall (P : K * nat -> Prop) k v acc : Forall P acc -> P (k, v) -> Forall P (aset eqb k v acc).
  Proof.
    intros F Pk. induction acc as [|[k0 v0] r IH]; cbn; [constructor; [exact Pk | constructor]|].
    inversion F; subst. destruct (eqb k k0); constructor; auto.
  Qed.
End AsetApp.

Lemma reg_extra_app extra id canon acc :
  (forall k', In k' extra -> klookup k' canon = None) ->
  reg_extra extra id (canon ++ acc) = canon ++ reg_extra extra id acc.
Proof.
  revert acc. induction extra as [|k r IH]; intros acc Hf; [reflexivity|].
  rewrite !reg_extra_cons. unfold kset at 2. rewrite (aset_app_fresh key_eqb) by (apply Hf; left; reflexivity).
  apply IH. intros k' Hk. apply Hf. right. exact Hk.
Qed.

Lemma reg_extra_forall (P : key * nat -> Prop) extra id acc :
  Forall P acc -> (forall k, P (k, id)) -> Forall P (reg_extra extra id acc).
Proof.
  revert acc. induction extra as [|k r IH]; intros acc F Pk; [exact F|].
  rewrite reg_extra_cons. apply IH; [|exact Pk]. apply aset_forall; auto.
Qed.

Lemma ext_same_regs st s : same_regs st s -> Ext st s.
Proof.
  intros [Eh [Er [El Ec]]]. constructor; auto; [exists []; rewrite Eh; reflexivity|].
  intros c. destruct (Ec c) as [E1 E2]. exists [], []. rewrite !app_nil_r. repeat split; auto; constructor.
Qed.

Lemma ext_register st c name k extra o :
  c < length (classes st) -> Fresh st c name k extra ->
  Ext st (register (fst (alloc st o)) c name k extra (length (heap st))).
Proof.
  intros Hc [F1 [F2 F3]]. unfold register, alloc. cbn [fst]. unfold cget at 1 2 3. cbn [classes]. fold (cget st c).
  set (id := length (heap st)).
  change (fold_left (fun acc k' => kset k' id acc) extra (cs_canon (cget st c)))
    with (reg_extra extra id (cs_canon (cget st c))).
  set (cs' := mkCstate _ _ _). set (st0 := mkState (o :: heap st) (classes st) (roots st)).
  constructor.
  - reflexivity.
  - rewrite cput_classes_len. reflexivity.
  - exists [o]. reflexivity.
  - intros c'. destruct (Nat.eq_dec c c') as [<-|D].
    + rewrite cget_cput_same by exact Hc. subst cs'. cbn [cs_names cs_canon].
      exists [(name, id)], (kset k id (reg_extra extra id [])). split; [|split; [|split]].
      * unfold nset. rewrite <- (app_nil_r (cs_names (cget st c))) at 1.
        rewrite (aset_app_fresh str_eqb) by exact F1. reflexivity.
      * rewrite <- (app_nil_r (cs_canon (cget st c))) at 1. rewrite reg_extra_app by exact F3.
        unfold kset at 1. rewrite (aset_app_fresh key_eqb) by exact F2. reflexivity.
      * constructor; [cbn; lia | constructor].
      * apply aset_forall; [|cbn; lia]. apply reg_extra_forall; [constructor | intros; cbn; lia].
    + rewrite cget_cput_other by exact D. exists [], []. rewrite !app_nil_r. repeat split; constructor.
Qed.

Lemma ext_register_extra st c extra o :
  c < length (classes st) -> (forall k', In k' extra -> klookup k' (cs_canon (cget st c)) = None) ->
  Ext st (register_extra (fst (alloc st o)) c extra (length (heap st))).
Proof.
  intros Hc F3. unfold register_extra, alloc. cbn [fst]. unfold cget at 1 2 3. cbn [classes]. fold (cget st c).
  set (id := length (heap st)).
  change (fold_left (fun acc k' => kset k' id acc) extra (cs_canon (cget st c)))
    with (reg_extra extra id (cs_canon (cget st c))).
  set (cs' := mkCstate _ _ _). set (st0 := mkState (o :: heap st) (classes st) (roots st)).
  constructor.
  - reflexivity.
  - rewrite cput_classes_len. reflexivity.
  - exists [o]. reflexivity.
  - intros c'. destruct (Nat.eq_dec c c') as [<-|D].
    + rewrite cget_cput_same by exact Hc. subst cs'. cbn [cs_names cs_canon].
      exists [], (reg_extra extra id []). split; [|split; [|split]].
      * rewrite app_nil_r. reflexivity.
      * rewrite <- (app_nil_r (cs_canon (cget st c))) at 1. rewrite reg_extra_app by exact F3. reflexivity.
      * constructor.
      * apply reg_extra_forall; [constructor | intros; cbn; lia].
    + rewrite cget_cput_other by exact D. exists [], []. rewrite !app_nil_r. repeat split; constructor.
Qed.

Theorem ext_create ct st c auto name k extra children d :
  Inv ct st -> Collected st -> Fresh st c name k extra ->
  Ext st (fst (create ct st c auto name k extra children d)).
Proof.
  intros I C F. unfold create.
  destruct (nth_error ct c) as [ci|] eqn:Ec; [|apply ext_refl].
  assert (Hc : c < length ct) by (apply nth_error_Some; congruence).
  set (st1 := if auto then bump_id ct st c else st).
  assert (S1 : same_regs st st1) by (unfold st1; destruct auto; [apply same_regs_bump | apply same_regs_refl]).
  assert (I1 : Inv ct st1) by (eapply inv_same_regs; eauto).
  assert (C1 : Collected st1) by (eapply collected_same_regs; eauto).
  assert (F1 : Fresh st1 c name k extra) by (eapply fresh_same_regs; eauto).
  assert (Hcl : c < length (classes st1)) by (rewrite (ok_len _ _ (proj1 I1)); exact Hc).
  destruct (c_fail ci) eqn:Ef.
  - unfold alloc. cbn [fst]. eapply ext_trans; [apply ext_same_regs; exact S1|].
    apply (ext_register st1 c name k extra _ Hcl F1).
  - apply ext_refl.
  - unfold alloc. cbn [fst]. eapply ext_trans; [apply ext_same_regs; exact S1|].
    apply junk_ext. eapply collect_ext; [exact I1 | exact C1|].
    apply (ext_register_extra st1 c extra _ Hcl). apply F1.
Qed.

(* look-up then create, as in every class *)
Lemma ext_lookup_create ct st c nm k auto extra children d :
  Inv ct st -> Collected st ->
  (forall k', In k' extra -> klookup k' (cs_canon (cget st c)) = None) ->
  Ext st (fst (match sing_lookup (cget st c) nm (Some k) with
               | LFound o => (st, CRet o false)
               | LRaise e => (st, CErr eSingleton e)
               | LFresh => create ct st c auto nm k extra children d
               end)).
Proof.
  intros I C Fx. destruct (sing_lookup (cget st c) nm (Some k)) eqn:E; try apply ext_refl.
  apply sing_fresh in E. destruct E as [E1 E2]. apply ext_create; auto. split; [exact E1 | split; [exact E2 | exact Fx]].
Qed.

Lemma ext_lookup_only st c nm canon :
  Ext st (fst (match sing_lookup (cget st c) nm canon with
               | LFound o => (st, CRet o false)
               | LRaise e => (st, CErr eSingleton e)
               | LFresh => (st, CErr eBadRequest None)
               end)).
Proof. destruct (sing_lookup (cget st c) nm canon); apply ext_refl. Qed.

(* ---- DomainS ---- *)
Definition RecExt (ct : ctable) (rec : state -> pstr -> option Z -> state * cout) : Prop :=
  forall st n l, Inv ct st -> Collected st -> Ext st (fst (rec st n l)).

Lemma collect_step ct st s :
  Inv ct st -> Collected st -> Inv ct s -> Ext st s ->
  Ext st (collect s) /\ Inv ct (collect s) /\ Collected (collect s).
Proof.
  intros I C Is E. split; [|split].
  - apply junk_ext. eapply collect_ext; eauto.
  - apply inv_collect. exact Is.
  - apply collected_collect. apply (proj2 Is).
Qed.

Lemma dom_nested_ext ct rec st nm len1 :
  RecOK ct rec -> RecExt ct rec -> Inv ct st -> Collected st ->
  Ext st (fst (dom_nested rec st nm len1)) /\
  (forall v, snd (dom_nested rec st nm len1) = Ok v ->
     Collected (fst (dom_nested rec st nm len1)) /\ Junk st (fst (dom_nested rec st nm len1))).
Proof.
  intros HR HE I C. unfold dom_nested.
  assert (Base : Ext st st /\ (forall v : option Z, Ok len1 = Ok v -> Collected st /\ Junk st st))
    by (split; [apply ext_refl | intros; split; [exact C | apply junk_refl]]).
  assert (Call1 : forall s1 r, rec st (cname_of nm) None = (s1, r) ->
            Inv ct s1 /\ Ext st s1 /\ Junk st (collect s1) /\ Inv ct (collect s1) /\ Collected (collect s1)).
  { intros s1 r E1. pose proof (HR st (cname_of nm) None I) as [I1 _]. pose proof (HE st (cname_of nm) None I C) as X1.
    rewrite E1 in I1, X1. cbn in I1, X1. split; [exact I1 | split; [exact X1|]].
    destruct (collect_step ct st s1 I C I1 X1) as [_ [A B]]. split; [eapply collect_ext; eauto | auto]. }
  assert (OKc : forall s (v : option Z), Junk st s -> Collected s ->
                 Ext st s /\ (forall v', @Ok (option Z) v = Ok v' -> Collected s /\ Junk st s))
    by (intros s v J Cs; split; [apply junk_ext; exact J | intros; auto]).
  assert (ERRc : forall s k, Ext st s -> Ext st s /\ (forall v', @Err (option Z) k = Ok v' -> Collected s /\ Junk st s))
    by (intros s k X; split; [exact X | intros; discriminate]).
  destruct len1 as [l|], (starred nm).
  - 
    destruct (rec st (cname_of nm) None) as [s1 r] eqn:E1. destruct (Call1 s1 r eq_refl) as [I1 [X1 [J1c [I1c C1c]]]].
    destruct r as [o b|k e].
    + destruct (obj_length (heap s1) o); cbn [fst snd].
      * destruct (Z.eqb a l); [apply OKc; auto | apply ERRc; apply junk_ext; exact J1c].
      * apply ERRc. apply junk_ext. exact J1c.
    + destruct (is_singleton_err k); cbn [fst snd]; [apply OKc; auto | apply ERRc; exact X1].
  - 
    destruct (rec st (cname_of nm) None) as [s1 r] eqn:E1. destruct (Call1 s1 r eq_refl) as [I1 [X1 [J1c [I1c C1c]]]].
    destruct r as [o b|k e].
    + destruct (obj_length (heap s1) o); cbn [fst snd]; [|apply ERRc; apply junk_ext; exact J1c].
      destruct (rec (collect s1) (cname_of nm) (Some l)) as [s2 r2] eqn:E2.
      pose proof (HR (collect s1) (cname_of nm) (Some l) I1c) as [I2 _].
      pose proof (HE (collect s1) (cname_of nm) (Some l) I1c C1c) as X2.
      rewrite E2 in I2, X2. cbn in I2, X2.
      assert (X2' : Ext st s2) by (eapply ext_trans; [apply junk_ext; exact J1c | exact X2]).
      destruct (collect_step ct st s2 I C I2 X2') as [X2c [I2c C2c]].
      assert (J2c : Junk st (collect s2)) by (eapply collect_ext; eauto).
      destruct r2 as [o2 b2|k2 e2]; cbn [fst snd].
      * apply OKc; auto.
      * destruct (is_singleton_err k2); cbn [fst snd]; [|apply ERRc; exact X2'].
        destruct (Z.eqb a l); [apply OKc; auto | apply ERRc; exact X2c].
    + destruct (is_singleton_err k); cbn [fst snd]; [apply OKc; auto | apply ERRc; exact X1].
  - destruct (rec st (cname_of nm) None) as [s1 r] eqn:E1. destruct (Call1 s1 r eq_refl) as [I1 [X1 [J1c [I1c C1c]]]].
    destruct r as [o b|k e].
    + destruct (obj_length (heap s1) o); cbn [fst snd]; [apply OKc; auto | apply ERRc; apply junk_ext; exact J1c].
    + destruct (is_singleton_err k); cbn [fst snd]; [apply OKc; auto | apply ERRc; exact X1].
  - split; [apply ext_refl | intros; split; [exact C | apply junk_refl]].
Qed.

Lemma ext_dom_finish ct c st auto nm len2 :
  Inv ct st -> Collected st -> Ext st (fst (dom_finish ct c st auto nm len2)).
Proof.
  intros I C. unfold dom_finish. destruct len2 as [l|]; cbn [option_map].
  - apply ext_lookup_create; auto. intros ? [].
  - pose proof (ext_lookup_only st c nm None) as H. destruct (sing_lookup (cget st c) nm None); exact H.
Qed.

Lemma ext_dom_body ct rec c st name len prefix dtype :
  RecOK ct rec -> RecExt ct rec -> Inv ct st -> Collected st ->
  Ext st (fst (dom_body rec ct c st name len prefix dtype)).
Proof.
  intros HR HE I C. unfold dom_body.
  destruct (nth_error ct c) as [ci|] eqn:Ec; [|apply ext_refl].
  destruct (resolve_name ct st c ci name prefix) as [nm|k]; [|apply ext_refl].
  destruct (dom_len1 ci len dtype) as [len1|k]; [|apply ext_refl].
  destruct (negb (nonempty nm)); [apply ext_refl|].
  pose proof (inv_dom_nested ct rec st nm len1 HR I) as I1.
  pose proof (dom_nested_ext ct rec st nm len1 HR HE I C) as [X1 C1].
  destruct (dom_nested rec st nm len1) as [st1 rl]. cbn [fst snd] in *.
  destruct rl as [len2|k]; [|exact X1].
  eapply ext_trans; [exact X1|]. apply ext_dom_finish; [exact I1 | apply (C1 len2 eq_refl)].
Qed.

Theorem ext_dom_call fuel ct c st name len prefix dtype :
  Inv ct st -> Collected st -> Ext st (fst (dom_call fuel ct c st name len prefix dtype)).
Proof.
  revert st name len prefix dtype. induction fuel as [|f IH]; intros st name len prefix dtype I C.
  - cbn. apply ext_refl.
  - cbn [dom_call]. apply ext_dom_body; auto.
    + intros st' n l I'. apply callok_dom_call. exact I'.
    + intros st' n l I' C'. apply IH; assumption.
Qed.

Theorem ext_dom_complement ct st i : Inv ct st -> Collected st -> Ext st (fst (dom_complement ct st i)).
Proof.
  intros I C. unfold dom_complement. destruct (hget (heap st) i) as [o|]; [|apply ext_refl].
  destruct (o_data o); try apply ext_refl. apply ext_dom_call; assumption.
Qed.

(* ---- the other classes ---- *)
Theorem ext_cplx_call ct c st seq sst name prefix :
  Inv ct st -> Collected st -> Ext st (fst (cplx_call ct c st seq sst name prefix)).
Proof.
  intros I C. unfold cplx_call.
  destruct (nth_error ct c) as [ci|] eqn:Ec; [|apply ext_refl].
  destruct seq as [es|].
  - destruct (resolve_name ct st c ci name prefix) as [nm|k]; [|apply ext_refl].
    destruct sst as [ss|]; [|apply ext_refl].
    destruct (negb (Nat.eqb (length es) (length ss))); [apply ext_refl|].
    destruct (Nat.eqb (length (make_strand_table_list sPlus (map fst es))) 0); [apply ext_refl|].
    destruct (rot_loop _ 0 (cs_canon (cget st c)) (map fst es) ss []) as [[ex cdict]|k] eqn:ER; [|apply ext_refl].
    apply rot_loop_fresh in ER; [|intros k []]. destruct ER as [F1 F2].
    match goal with |- Ext _ (fst (match ?x with _ => _ end)) => destruct x as [[cn e]|k] eqn:EC end; [|apply ext_refl].
    apply ext_lookup_create; auto.
    intros k' Hk. apply in_map_iff in Hk. destruct Hk as [[kk vv] [<- Hin]]. apply F1.
    apply in_map_iff. exists (kk, vv). split; [reflexivity | exact Hin].
  - destruct name as [nm|]; [|apply ext_refl].
    pose proof (ext_lookup_only st c nm None) as H. destruct (sing_lookup (cget st c) nm None); exact H.
Qed.

Theorem ext_strand_call ct c st seq name prefix :
  Inv ct st -> Collected st -> Ext st (fst (strand_call ct c st seq name prefix)).
Proof.
  intros I C. unfold strand_call.
  destruct (nth_error ct c) as [ci|] eqn:Ec; [|apply ext_refl].
  destruct seq as [es|].
  - destruct (existsb is_plus es); [apply ext_refl|].
    destruct (resolve_name ct st c ci name prefix) as [nm|k]; [|apply ext_refl].
    apply ext_lookup_create; auto. intros ? [].
  - destruct name as [nm|]; [|apply ext_refl].
    pose proof (ext_lookup_only st c nm None) as H. destruct (sing_lookup (cget st c) nm None); exact H.
Qed.

Theorem ext_macro_call ct c st members name :
  Inv ct st -> Collected st -> Ext st (fst (macro_call ct c st members name)).
Proof.
  intros I C. unfold macro_call.
  destruct members as [ms|].
  - destruct (omap' _ ms) as [mks|]; [|apply ext_refl].
    match goal with |- Ext _ (fst (match ?x with _ => _ end)) => destruct x as [nm|k] end; [|apply ext_refl].
    destruct (find (fun i => str_eqb (obj_name (heap st) i) nm) ms) as [rep|] eqn:EF.
    + apply ext_lookup_create; auto. intros ? [].
    + pose proof (ext_lookup_only st c nm (Some (KMac (map snd (sort_by snd ckey_cmp mks))))) as H.
      destruct (sing_lookup (cget st c) nm _); exact H.
  - destruct name as [nm|]; [|apply ext_refl].
    pose proof (ext_lookup_only st c nm None) as H. destruct (sing_lookup (cget st c) nm None); exact H.
Qed.

Theorem ext_reaction_call ct c st rp rtype name :
  Inv ct st -> Collected st -> Ext st (fst (reaction_call ct c st rp rtype name)).
Proof.
  intros I C. unfold reaction_call.
  destruct rp as [[rs ps]|].
  - destruct (omap' _ rs) as [fr|]; [|apply ext_refl].
    destruct (omap' _ ps) as [fp|]; [|apply ext_refl].
    match goal with |- Ext _ (fst (if ?b then _ else _)) => destruct b end; [apply ext_refl|].
    apply ext_lookup_create; auto. intros ? [].
  - destruct name as [nm|]; [|apply ext_refl].
    destruct rtype; [apply ext_refl|].
    pose proof (ext_lookup_only st c nm None) as H. destruct (sing_lookup (cget st c) nm None); exact H.
Qed.
