(* Iterated rotation: the orbit of a well-formed aligned (sequence, structure)
   pair under rotate_complex_once.  n applications are the identity (n = number
   of strands), the map is a bijection on such pairs, and the pair table after k
   steps is the k-fold shifted and relabelled table.
   EXPORTS for C02 / C03 / C20: good, nstr, rot_iter_good, rot_iter_add,
   rot_orbit, rot_once_injective, rot_once_surjective, rot_once_nstr, rot_iter_tab. *)
From Coq Require Import List Arith ZArith Lia Bool NArith.
From DSD Require Import Base.Str Base.Errors Model.ComplexUtils Model.Rotation Dyck.Dyck
  Proofs.Mpt Proofs.Acc Proofs.Db Proofs.Assoc Proofs.C06 Proofs.RotLoc Proofs.RotScan
  Proofs.RotTree Proofs.RotPairs Proofs.RotOnce.
Import ListNotations.

(* the pairs (sequence, structure) the theorems speak about *)
Definition good (x : cplx) : Prop := aligned (fst x) (snd x) /\ wf (snd x).

(* number of strands of a structure: one more than the number of '+' *)
Definition nstr (sst : list chr) : nat := S (length (filter isP sst)).

Definition once (x : cplx) : res cplx := rotate_complex_once (fst x) (snd x).

Lemma rot_iter_S k x : rot_iter (S k) x = dor y <- once x; rot_iter k y.
Proof. reflexivity. Qed.

Lemma rot_iter_add a : forall b x, rot_iter (a + b) x = dor y <- rot_iter a x; rot_iter b y.
Proof.
  induction a as [|a IH]; intros b x; [reflexivity|]. cbn [Nat.add]. rewrite !rot_iter_S.
  destruct (once x) as [y|k]; cbn [rbind]; [apply IH|reflexivity].
Qed.

Lemma rot_iter_snoc k x : rot_iter (S k) x = dor y <- rot_iter k x; once y.
Proof.
  replace (S k) with (k + 1) by lia. rewrite rot_iter_add.
  destruct (rot_iter k x) as [y|e]; cbn [rbind]; [|reflexivity].
  rewrite rot_iter_S. destruct (once y); reflexivity.
Qed.

Theorem rot_once_good x : good x -> exists y, once x = Ok y /\ good y.
Proof.
  intros [Ha Hw]. destruct (rot_once_wf_lemma _ _ Ha Hw) as (s' & t' & E & Ha' & Hw').
  exists (s', t'). split; [exact E|split; assumption].
Qed.

Theorem rot_iter_good k : forall x, good x -> exists y, rot_iter k x = Ok y /\ good y.
Proof.
  induction k as [|k IH]; intros x G; [exists x; auto|].
  destruct (rot_once_good x G) as (y & E & Gy). destruct (IH y Gy) as (z & Ez & Gz).
  exists z. rewrite rot_iter_S, E. cbn [rbind]. auto.
Qed.

(* ---- tables ---- *)
Lemma length_tab_nbrk d : forall p, fst (adv d p) = fst p + length (filter isP (rc d)).
Proof.
  induction d as [|r IH|r IH|i IHi r IHr]; intros p.
  - cbn. lia.
  - rewrite rc_DU. cbn [adv filter]. change (isP cD) with false. cbn iota. rewrite IH. reflexivity.
  - rewrite rc_DB. cbn [adv filter]. change (isP cP) with true. cbn iota. rewrite IH. cbn [fst length]. lia.
  - rewrite rc_DP, adv_DP. cbn [filter]. change (isP cO) with false. cbn iota.
    rewrite filter_app. cbn [filter]. change (isP cC) with false. cbn iota.
    rewrite IHr. cbn [nextp fst]. rewrite IHi. cbn [nextp fst]. rewrite app_length. lia.
Qed.

Lemma length_tab_of d : length (tab_of d) = nstr (rc d).
Proof. rewrite tableE_length_plug, length_tab_nbrk. reflexivity. Qed.

Theorem mpt_length sst T : make_pair_table cP [cD] sst = Ok T -> wf sst -> length T = nstr sst.
Proof.
  intros E Hw. destruct (wf_rc sst Hw) as [d ->]. rewrite mpt_rc in E. injection E as <-.
  apply length_tab_of.
Qed.

(* the table determines the structure *)
Definition flatPC (pc : tab * row) : list entry :=
  concat (map (fun r => map EP r ++ [EB]) (fst pc)) ++ map EP (snd pc).

Lemma flatPC_appE es : forall pc, flatPC (appE pc es) = flatPC pc ++ es.
Proof.
  induction es as [|[|v] r IH]; intros pc; cbn [appE].
  - rewrite app_nil_r. reflexivity.
  - rewrite IH. unfold flatPC. cbn [fst snd map]. rewrite map_app, concat_app. cbn [map concat].
    rewrite app_nil_r. rewrite <- !app_assoc. reflexivity.
  - rewrite IH. unfold flatPC. cbn [fst snd]. rewrite map_app. cbn [map]. rewrite <- !app_assoc. reflexivity.
Qed.

Lemma tableE_inj es es' : tableE es = tableE es' -> es = es'.
Proof.
  unfold tableE. cbn zeta. intros H. apply app_inj_tail in H. destruct H as [H1 H2].
  pose proof (flatPC_appE es ([], [])) as A. pose proof (flatPC_appE es' ([], [])) as B.
  cbn [app] in A, B. change (flatPC ([], [])) with (@nil entry) in A, B. cbn [app] in A, B.
  rewrite <- A, <- B. unfold flatPC. rewrite H1, H2. reflexivity.
Qed.

Theorem tab_of_inj d d' : tab_of d = tab_of d' -> rc d = rc d'.
Proof.
  intros H. rewrite !tab_of_tableE in H. apply tableE_inj in H.
  unfold rc. rewrite <- (esyms_ents d (0, 0)), <- (esyms_ents d' (0, 0)), H. reflexivity.
Qed.

Theorem mpt_inj s s' T : wf s -> wf s' ->
  make_pair_table cP [cD] s = Ok T -> make_pair_table cP [cD] s' = Ok T -> s = s'.
Proof.
  intros W W' E E'. destruct (wf_rc s W) as [d ->]. destruct (wf_rc s' W') as [d' ->].
  rewrite mpt_rc in E, E'. apply tab_of_inj. congruence.
Qed.

(* ---- cyclic shifts of lists ---- *)
Lemma iter_S {A} (f : A -> A) k x : Nat.iter (S k) f x = f (Nat.iter k f x).
Proof. reflexivity. Qed.

Lemma iter_succ_r {A} (f : A -> A) k x : Nat.iter (S k) f x = Nat.iter k f (f x).
Proof.
  induction k as [|k IH]; [reflexivity|].
  change (Nat.iter (S (S k)) f x) with (f (Nat.iter (S k) f x)). rewrite IH. reflexivity.
Qed.

Lemma rot_left_app {A} (l1 : list A) : forall l2, Nat.iter (length l1) rot_left (l1 ++ l2) = l2 ++ l1.
Proof.
  induction l1 as [|a l1 IH]; intros l2; [cbn; rewrite app_nil_r; reflexivity|].
  cbn [length]. rewrite iter_succ_r. cbn [app rot_left]. rewrite <- app_assoc, IH, <- app_assoc. reflexivity.
Qed.

Lemma rot_left_full {A} (l : list A) : Nat.iter (length l) rot_left l = l.
Proof. rewrite <- (app_nil_r l) at 2. rewrite rot_left_app. reflexivity. Qed.

Lemma rot_left_length {A} (l : list A) : length (rot_left l) = length l.
Proof. destruct l; [reflexivity|]. cbn [rot_left]. rewrite app_length. cbn. lia. Qed.

Lemma iter_rot_left_length {A} k (l : list A) : length (Nat.iter k rot_left l) = length l.
Proof. induction k as [|k IH]; [reflexivity|]. rewrite iter_S, rot_left_length. exact IH. Qed.

Lemma rot_left_map {A B} (f : A -> B) l : rot_left (map f l) = map f (rot_left l).
Proof. destruct l; [reflexivity|]. cbn [map rot_left]. rewrite map_app. reflexivity. Qed.

Lemma rot_right_left {A} (l : list A) : rot_right (rot_left l) = l.
Proof.
  destruct l as [|x r]; [reflexivity|]. unfold rot_right. cbn [rot_left].
  rewrite rev_app_distr. cbn [rev app]. rewrite rev_involutive. reflexivity.
Qed.

Lemma rot_left_right {A} (l : list A) : rot_left (rot_right l) = l.
Proof.
  unfold rot_right. destruct (rev l) as [|x r] eqn:E.
  - apply (f_equal (@rev _)) in E. rewrite rev_involutive in E. subst l. reflexivity.
  - cbn [rot_left]. apply (f_equal (@rev _)) in E. rewrite rev_involutive in E. subst l. reflexivity.
Qed.

(* ---- relabelling of tables ---- *)
Lemma relabel_length n k t : length (relabel n k t) = length t.
Proof. apply map_length. Qed.

Lemma relabel_rot_left n k t : rot_left (relabel n k t) = relabel n k (rot_left t).
Proof. apply rot_left_map. Qed.

Lemma relabel_compose n a b t : 0 < n -> relabel n a (relabel n b t) = relabel n (b + a) t.
Proof.
  intros H. unfold relabel. rewrite map_map. apply map_ext. intros r. rewrite map_map.
  apply map_ext. intros x. apply rotate_locus_compose. exact H.
Qed.

Definition step_tab (n : nat) (t : tab) : tab := relabel n (-1) (rot_left t).

(* tables all of whose loci name a strand below n *)
Definition tab_below (n : nat) (t : tab) : Prop :=
  Forall (Forall (fun x : option loc => match x with Some p => fst p < n | None => True end)) t.

Lemma relabel_zero n t : tab_below n t -> relabel n 0 t = t.
Proof.
  intros H. unfold relabel, tab_below in *. rewrite <- (map_id t) at 2. apply map_ext_in. intros r Hr.
  rewrite Forall_forall in H. specialize (H r Hr). rewrite <- (map_id r) at 2. apply map_ext_in.
  intros x Hx. rewrite Forall_forall in H. apply rotate_locus_zero, H, Hx.
Qed.

Lemma relabel_period n a t : 0 < n -> relabel n (a + Z.of_nat n) t = relabel n a t.
Proof.
  intros H. unfold relabel. apply map_ext. intros r. apply map_ext. intros x.
  apply rotate_locus_period, H.
Qed.

Lemma relabel_full n t : 0 < n -> tab_below n t -> relabel n (- Z.of_nat n) t = t.
Proof.
  intros H Hb. rewrite <- (relabel_period n (- Z.of_nat n)) by exact H.
  replace (- Z.of_nat n + Z.of_nat n)%Z with 0%Z by lia. apply relabel_zero, Hb.
Qed.

Lemma tab_below_rot_left n t : tab_below n t -> tab_below n (rot_left t).
Proof.
  unfold tab_below. destruct t as [|r t]; [auto|]. cbn [rot_left]. intros H. inversion H; subst.
  apply Forall_app. split; [assumption|]. constructor; [assumption|constructor].
Qed.

Lemma tab_below_relabel n k t : 0 < n -> tab_below n (relabel n k t).
Proof.
  intros H. unfold tab_below, relabel. apply Forall_map. apply Forall_forall. intros r _.
  apply Forall_map. apply Forall_forall. intros x _. apply rotate_locus_range, H.
Qed.

Lemma iter_step_tab n k t : 0 < n -> tab_below n t ->
  Nat.iter k (step_tab n) t = relabel n (- Z.of_nat k) (Nat.iter k rot_left t).
Proof.
  intros H Hb. induction k as [|k IH].
  - cbn [Nat.iter Z.of_nat Z.opp]. symmetry. apply relabel_zero, Hb.
  - rewrite !iter_S. rewrite IH. unfold step_tab. rewrite relabel_rot_left, relabel_compose by exact H.
    f_equal. lia.
Qed.

Lemma tab_of_below d : tab_below (length (tab_of d)) (tab_of d).
Proof.
  pose proof (tab_vals_below d) as V. rewrite tab_of_tableE in *.
  set (n := length (tableE (ents d (0, 0)))) in *. clearbody n.
  unfold tableE. cbn zeta.
  assert (G : forall es pc, Forall (vals_below n) es ->
              tab_below n (fst pc) -> Forall (fun x : option loc => match x with Some p => fst p < n | None => True end) (snd pc) ->
              tab_below n (fst (appE pc es) ++ [snd (appE pc es)])).
  { induction es as [|[|v] r IH]; intros pc Ve Hp Hc; cbn [appE].
    - apply Forall_app. split; [exact Hp|]. constructor; [exact Hc|constructor].
    - inversion Ve; subst. apply IH; cbn [fst snd]; [assumption| |constructor].
      apply Forall_app. split; [exact Hp|]. constructor; [exact Hc|constructor].
    - inversion Ve; subst. apply IH; cbn [fst snd]; [assumption|assumption|].
      apply Forall_app. split; [exact Hc|]. constructor; [|constructor].
      destruct v; [assumption|exact I]. }
  apply G; [exact V|constructor|constructor].
Qed.

(* ---- the table after k steps ---- *)
Theorem rot_iter_tab k : forall x T, good x -> make_pair_table cP [cD] (snd x) = Ok T ->
  exists y, rot_iter k x = Ok y /\ good y /\
            make_pair_table cP [cD] (snd y) = Ok (Nat.iter k (step_tab (length T)) T).
Proof.
  induction k as [|k IH]; intros x T G E.
  - exists x. auto.
  - destruct G as [Ha Hw].
    destruct (rot_once_pairs_lemma _ _ Ha Hw) as (s' & t' & T0 & E1 & E2 & E3).
    rewrite E in E2. injection E2 as <-.
    destruct (rot_once_wf_lemma _ _ Ha Hw) as (s2 & t2 & E1' & Ha' & Hw').
    rewrite E1 in E1'. injection E1' as <- <-.
    destruct (IH (s', t') _ (conj Ha' Hw') E3) as (y & Ey & Gy & Ty).
    exists y. split; [|split; [exact Gy|]].
    + rewrite rot_iter_S. unfold once. rewrite E1. exact Ey.
    + rewrite Ty. f_equal. rewrite relabel_length, rot_left_length.
      rewrite iter_succ_r. reflexivity.
Qed.

(* ---- the sequence after k steps ---- *)
Definition rotS (seq : list pstr) : list pstr :=
  match index_of sPlus seq with
  | None => seq
  | Some p => skipn (S p) seq ++ [sPlus] ++ firstn p seq
  end.

Lemma once_fst x y : once x = Ok y -> fst y = rotS (fst x).
Proof.
  unfold once, rotS. rewrite rotate_complex_once_unfold. destruct (index_of sPlus (fst x)) as [p|].
  - destruct (rot_struct p (snd x)); [|discriminate]. cbn [rbind]. intros H; injection H as <-. reflexivity.
  - intros H; injection H as <-. reflexivity.
Qed.

Lemma rot_iter_fst k : forall x y, rot_iter k x = Ok y -> fst y = Nat.iter k rotS (fst x).
Proof.
  induction k as [|k IH]; intros x y H.
  - injection H as <-. reflexivity.
  - rewrite rot_iter_S in H. destruct (once x) as [z|e] eqn:E; [|discriminate]. cbn [rbind] in H.
    rewrite iter_succ_r. rewrite <- (once_fst x z E). apply IH, H.
Qed.

(* strands of a sequence (str.split semantics: empty pieces are kept) *)
Fixpoint splitS (seq : list pstr) : list (list pstr) :=
  match seq with
  | [] => [[]]
  | x :: r =>
      if str_eqb sPlus x then [] :: splitS r
      else match splitS r with
           | [] => [[x]]
           | s :: ss => (x :: s) :: ss
           end
  end.
Definition joinS (ss : list (list pstr)) : list pstr := join_with [sPlus] ss.
Definition nbS (seq : list pstr) : nat := length (filter (str_eqb sPlus) seq).

Lemma splitS_nonnil seq : splitS seq <> [].
Proof. destruct seq as [|x r]; cbn [splitS]; [discriminate|]. destruct (str_eqb sPlus x); [discriminate|]. destruct (splitS r); discriminate. Qed.

Lemma joinS_cons2 s s2 r : joinS (s :: s2 :: r) = s ++ sPlus :: joinS (s2 :: r).
Proof. reflexivity. Qed.

Lemma joinS_splitS seq : joinS (splitS seq) = seq.
Proof.
  induction seq as [|x r IH]; [reflexivity|]. cbn [splitS].
  destruct (str_eqb sPlus x) eqn:E.
  - apply str_eqb_iff in E. subst x. destruct (splitS r) as [|s ss] eqn:Es; [exfalso; exact (splitS_nonnil r Es)|].
    rewrite joinS_cons2, IH. reflexivity.
  - destruct (splitS r) as [|s ss] eqn:Es; [exfalso; exact (splitS_nonnil r Es)|].
    destruct ss as [|s2 ss].
    + unfold joinS in *. cbn [join_with] in *. rewrite IH. reflexivity.
    + rewrite joinS_cons2 in *. cbn [app]. rewrite IH. reflexivity.
Qed.

Definition bfree (s : list pstr) : Prop := Forall (fun x => x <> sPlus) s.

Lemma splitS_bfree seq : Forall bfree (splitS seq).
Proof.
  induction seq as [|x r IH]; cbn [splitS]; [repeat constructor|].
  destruct (str_eqb sPlus x) eqn:E.
  - constructor; [constructor|exact IH].
  - destruct (splitS r) as [|s ss]; [repeat constructor|].
    + intros ->. rewrite (proj2 (str_eqb_iff sPlus sPlus) eq_refl) in E. discriminate.
    + inversion IH; subst. constructor; [|assumption]. constructor; [|assumption].
      intros ->. rewrite (proj2 (str_eqb_iff sPlus sPlus) eq_refl) in E. discriminate.
Qed.

Lemma splitS_length seq : length (splitS seq) = S (nbS seq).
Proof.
  unfold nbS. induction seq as [|x r IH]; [reflexivity|]. cbn [splitS filter].
  destruct (str_eqb sPlus x); cbn [length]; [rewrite IH; reflexivity|].
  destruct (splitS r); cbn [length] in *; lia.
Qed.

Lemma joinS_snoc l s : l <> [] -> joinS (l ++ [s]) = joinS l ++ sPlus :: s.
Proof.
  induction l as [|a l IH]; [congruence|]. intros _. destruct l as [|b l].
  - reflexivity.
  - change ((a :: b :: l) ++ [s]) with (a :: (b :: l) ++ [s]).
    change ((b :: l) ++ [s]) with (b :: l ++ [s]) at 1. rewrite joinS_cons2.
    change (b :: l ++ [s]) with ((b :: l) ++ [s]). rewrite IH by discriminate.
    rewrite joinS_cons2. rewrite <- app_assoc. reflexivity.
Qed.

Lemma rotS_joinS ss : ss <> [] -> Forall bfree ss -> rotS (joinS ss) = joinS (rot_left ss).
Proof.
  intros Hne Hb. destruct ss as [|s0 [|s1 r]]; [congruence| |].
  - unfold rotS, joinS. cbn [join_with rot_left app]. inversion Hb; subst.
    rewrite index_of_first_true, first_true_none; [reflexivity|]. apply all_not_plus. assumption.
  - inversion Hb; subst. unfold rotS. rewrite joinS_cons2. rewrite index_of_app by assumption.
    unfold pstr, chr in *. rewrite skipn_exact, firstn_exact. cbn [rot_left].
    change (s1 :: r ++ [s0]) with ((s1 :: r) ++ [s0]). rewrite joinS_snoc by discriminate. reflexivity.
Qed.

Lemma bfree_rot_left ss : Forall bfree ss -> Forall bfree (rot_left ss).
Proof.
  destruct ss as [|s r]; [auto|]. cbn [rot_left]. intros H. inversion H; subst.
  apply Forall_app. split; [assumption|]. constructor; [assumption|constructor].
Qed.

Lemma rot_left_nonnil {A} (l : list A) : l <> [] -> rot_left l <> [].
Proof. destruct l; [congruence|]. cbn. intros _ E. apply app_eq_nil in E. destruct E; discriminate. Qed.

Lemma iter_rotS k : forall ss, ss <> [] -> Forall bfree ss ->
  Nat.iter k rotS (joinS ss) = joinS (Nat.iter k rot_left ss).
Proof.
  induction k as [|k IH]; intros ss Hne Hb; [reflexivity|].
  rewrite !iter_succ_r. rewrite rotS_joinS by assumption.
  apply IH; [apply rot_left_nonnil, Hne|apply bfree_rot_left, Hb].
Qed.

Theorem rotS_order seq : Nat.iter (S (nbS seq)) rotS seq = seq.
Proof.
  rewrite <- splitS_length.
  assert (H : Nat.iter (length (splitS seq)) rotS (joinS (splitS seq)) = joinS (splitS seq)).
  { rewrite iter_rotS by (apply splitS_nonnil || apply splitS_bfree).
    rewrite rot_left_full. reflexivity. }
  rewrite joinS_splitS in H. exact H.
Qed.

Lemma aligned_nb seq sst : aligned seq sst -> S (nbS seq) = nstr sst.
Proof.
  unfold aligned, nbS, nstr. intros H. f_equal.
  assert (G : forall (A : Type) (f : A -> bool) l, length (filter f l) = length (filter (fun b => b) (map f l))).
  { intros A f l. induction l as [|a l IH]; [reflexivity|]. cbn [filter map]. destruct (f a); cbn [length]; rewrite IH; reflexivity. }
  rewrite (G _ (str_eqb sPlus)), (G _ isP), H. reflexivity.
Qed.

(* ---- rot_once_order_n: n applications restore the original ---- *)
Theorem rot_orbit x : good x -> rot_iter (nstr (snd x)) x = Ok x.
Proof.
  intros G. destruct G as [Ha Hw].
  destruct (wf_rc _ Hw) as [d Hd].
  assert (E : make_pair_table cP [cD] (snd x) = Ok (tab_of d)) by (rewrite Hd; apply mpt_rc).
  pose proof (mpt_length _ _ E Hw) as HL.
  destruct (rot_iter_tab (nstr (snd x)) x (tab_of d) (conj Ha Hw) E) as (y & Ey & [Ha' Hw'] & Ty).
  rewrite Ey. f_equal.
  assert (Hn : 0 < length (tab_of d)) by (rewrite HL; unfold nstr; lia).
  rewrite iter_step_tab in Ty by (exact Hn || apply tab_of_below).
  rewrite <- HL in Ty. rewrite rot_left_full in Ty.
  rewrite relabel_full in Ty by (exact Hn || apply tab_of_below).
  destruct x as [sq st], y as [sq' st']. cbn [fst snd] in *. f_equal.
  - pose proof (rot_iter_fst _ _ _ Ey) as F. cbn [fst] in F. rewrite F.
    rewrite <- (aligned_nb _ _ Ha). apply rotS_order.
  - symmetry. eapply mpt_inj; eassumption.
Qed.

(* ---- the number of strands is invariant ---- *)
Theorem rot_once_nstr x y : good x -> once x = Ok y -> nstr (snd y) = nstr (snd x).
Proof.
  intros [Ha Hw] E.
  destruct (rot_once_pairs_lemma _ _ Ha Hw) as (s' & t' & T & E1 & E2 & E3).
  destruct (rot_once_wf_lemma _ _ Ha Hw) as (s2 & t2 & E1' & Ha' & Hw').
  unfold once in E. rewrite E1 in E, E1'. injection E as <-. injection E1' as <- <-. cbn [snd].
  rewrite <- (mpt_length _ _ E2 Hw), <- (mpt_length _ _ E3 Hw').
  rewrite relabel_length, rot_left_length. reflexivity.
Qed.

Theorem rot_iter_nstr k : forall x y, good x -> rot_iter k x = Ok y -> nstr (snd y) = nstr (snd x).
Proof.
  induction k as [|k IH]; intros x y G E.
  - injection E as <-. reflexivity.
  - rewrite rot_iter_S in E. destruct (rot_once_good x G) as (z & Ez & Gz). rewrite Ez in E. cbn [rbind] in E.
    rewrite (IH z y Gz E). apply rot_once_nstr; assumption.
Qed.

(* ---- bijectivity on good pairs ---- *)
Theorem rot_once_injective x y z : good x -> good y -> once x = Ok z -> once y = Ok z -> x = y.
Proof.
  intros Gx Gy Ex Ey.
  pose proof (rot_orbit x Gx) as Ox. pose proof (rot_orbit y Gy) as Oy.
  rewrite <- (rot_once_nstr x z Gx Ex) in Ox. rewrite <- (rot_once_nstr y z Gy Ey) in Oy.
  unfold nstr in Ox, Oy. rewrite rot_iter_S in Ox, Oy. rewrite Ex in Ox. rewrite Ey in Oy.
  cbn [rbind] in Ox, Oy. congruence.
Qed.

Theorem rot_once_surjective z : good z -> exists x, good x /\ once x = Ok z.
Proof.
  intros Gz. pose proof (rot_orbit z Gz) as Oz. unfold nstr in Oz.
  rewrite rot_iter_snoc in Oz.
  destruct (rot_iter_good (length (filter isP (snd z))) z Gz) as (x & Ex & Gx).
  rewrite Ex in Oz. cbn [rbind] in Oz. exists x. auto.
Qed.

(* the k-fold rotation, k taken modulo the number of strands *)
Theorem rot_iter_mod k x : good x -> rot_iter k x = rot_iter (k mod nstr (snd x)) x.
Proof.
  intros G. set (n := nstr (snd x)).
  assert (Hn : n <> 0) by (unfold n, nstr; lia).
  rewrite (Nat.div_mod k n Hn) at 1. generalize (k / n). intros q.
  induction q as [|q IH].
  - rewrite Nat.mul_0_r. reflexivity.
  - replace (n * S q + k mod n) with (n + (n * q + k mod n)) by lia.
    rewrite rot_iter_add. unfold n at 1. rewrite (rot_orbit x G). cbn [rbind]. exact IH.
Qed.

(* ---- non-vacuity ---- *)
Example ex_orbit :
  let x := ([[97%N]; [98%N]; sPlus; [99%N]; [100%N]; [101%N]; [102%N]; sPlus; [103%N]; [104%N]],
            [cO; cO; cP; cO; cC; cC; cD; cP; cC; cD]) in                 (* "((+()).+)." *)
  good x /\ nstr (snd x) = 3 /\ rot_iter 3 x = Ok x /\
  rot_iter 1 x <> Ok x /\ rot_iter 2 x <> Ok x.
Proof. cbn zeta. split; [split; reflexivity|]. split; [reflexivity|]. split; [reflexivity|]. split; discriminate. Qed.
