(* C05: object lifetime on the heap graph of the model. *)
From Coq Require Import List NArith ZArith Bool Arith Lia.
From DSD Require Import Base.Str Base.Errors Model.ComplexUtils Model.RegStr Model.Heap Model.Registry
  Proofs.RegHeap Proofs.RegInv Proofs.RegCalls Proofs.RegExt Proofs.RegC04 Proofs.RegStep Proofs.RegC01.
Import ListNotations.

Definition Reachable (st : state) (i : nat) : Prop := Reach (heap st) (root_ids (roots st)) i.

(* what a collection keeps: exactly the live objects reachable from the roots *)
Theorem collect_spec st i :
  HeapOK st -> (is_live (heap (collect st)) i = true <-> is_live (heap st) i = true /\ Reachable st i).
Proof. intros H. rewrite heap_collect, is_live_sweep. apply kept_iff. apply (hk_older _ H). Qed.

(* in a state between two operations: live <-> reachable from a slot through strong children *)
Theorem live_iff_reachable ct st i :
  Inv ct st -> Collected st -> (is_live (heap st) i = true <-> Reachable st i).
Proof. intros I C. split; [apply C | apply reach_live; apply (proj2 I)]. Qed.

(* ... <-> registered under its name and its canonical form *)
Theorem registered_iff_live ct st i o :
  Inv ct st -> hget (heap st) i = Some o -> o_cls o < length ct ->
  (o_live o = true <->
   nlookup (o_name o) (cs_names (cget st (o_cls o))) = Some i /\
   klookup (o_key o) (cs_canon (cget st (o_cls o))) = Some i).
Proof.
  intros I Hg Hc. split.
  - intros L. apply (both_keys_lead_to_it ct st i o I). split; assumption.
  - intros [N _]. destruct (proj1 (registry_entries ct st (o_cls o) I Hc) _ _ N) as [o' [[H1 H2] _]]. congruence.
Qed.

Theorem live_iff_reachable_everywhere ct n ops i :
  let st := run ct (init ct n) ops in is_live (heap st) i = true <-> Reachable st i.
Proof.
  cbn zeta. destruct (inv_collected_run ct (init ct n) ops (inv_init ct n) (collected_init ct n)) as [I C].
  apply (live_iff_reachable ct); assumption.
Qed.

(* no_loss: an object reachable from a slot is never dead (holds in every intermediate state) *)
Theorem no_loss ct st i : Inv ct st -> Reachable st i -> is_live (heap st) i = true.
Proof. intros I. apply reach_live. apply (proj2 I). Qed.

(* release: after dropping a slot, exactly what is still reachable from the remaining slots survives;
   whatever dies has no registry entry left *)
Theorem release ct st slot i :
  Inv ct st ->
  let st' := fst (step ct st (ODrop slot)) in
  (is_live (heap st') i = true <->
   is_live (heap st) i = true /\ Reach (heap st) (root_ids (roots (set_root st slot None))) i) /\
  (is_live (heap st') i = false ->
   forall c, (forall n, nlookup n (cs_names (cget st' c)) <> Some i) /\
             (forall k, klookup k (cs_canon (cget st' c)) <> Some i)).
Proof.
  intros I. cbn zeta. cbn [step fst].
  assert (I0 : Inv ct (set_root st slot None)) by (apply inv_set_root; [exact I | intros; discriminate]).
  split.
  - apply (collect_spec (set_root st slot None)). apply (proj2 I0).
  - intros D c. pose proof (inv_collect ct _ I0) as I1.
    destruct (Nat.lt_ge_cases c (length ct)) as [L|L].
    + destruct (registry_entries ct _ c I1 L) as [N [K _]]. split.
      * intros n E. destruct (N n i E) as [o [Ho _]]. apply live_obj_is_live in Ho. congruence.
      * intros k E. destruct (K k i E) as [o [Ho _]]. apply live_obj_is_live in Ho. congruence.
    + assert (Dc : cget (collect (set_root st slot None)) c = mkCstate [] [] None).
      { unfold cget. apply nth_overflow. rewrite (ok_len _ _ (proj1 I1)). exact L. }
      rewrite Dc. split; intros ? E; discriminate.
Qed.

(* a free name and canonical form are (re)defined by the next request on a non-failing class *)
Theorem redefine_after_release ct st c ci auto nm k extra children d :
  nth_error ct c = Some ci -> c_fail ci = FNone -> sing_lookup (cget st c) nm (Some k) = LFresh ->
  exists st1, create ct st c auto nm k extra children d =
              (register (fst (alloc st1 (mkObj c nm k (k :: extra) true children d))) c nm k extra (length (heap st)),
               CRet (length (heap st)) true).
Proof.
  intros Ec Ef _. unfold create. rewrite Ec, Ef. unfold alloc. cbn [fst snd].
  exists (if auto then bump_id ct st c else st).
  assert (E : heap (if auto then bump_id ct st c else st) = heap st).
  { destruct auto; [|reflexivity]. unfold bump_id. destruct (class_id ct st c); reflexivity. }
  rewrite E. reflexivity.
Qed.

(* refused requests retain nothing: same slots, same live objects, same registries *)
Theorem refused_no_retention ct st o st' k e :
  Inv ct st -> Collected st -> step ct st o = (st', Raised k e) ->
  roots st' = roots st /\
  (forall i ob, live_obj (heap st') i ob <-> live_obj (heap st) i ob) /\
  (forall i, Reachable st' i <-> Reachable st i) /\
  (forall c, cs_names (cget st' c) = cs_names (cget st c) /\ cs_canon (cget st' c) = cs_canon (cget st c)).
Proof.
  intros I C E. pose proof (step_raised_junk ct st o st' k e I C E) as J.
  destruct (junk_observables st st' J) as [J1 [J2 J3]]. split; [exact J1|]. split; [exact J3|]. split; [|exact J2].
  assert (Es : st' = fst (step ct st o)) by (rewrite E; reflexivity).
  assert (I' : Inv ct st') by (rewrite Es; apply inv_step; exact I).
  assert (C' : Collected st') by (rewrite Es; apply collected_step; assumption).
  intros i. rewrite <- (live_iff_reachable ct st' i I' C'), <- (live_iff_reachable ct st i I C).
  split; intros L; apply is_live_obj in L; destruct L as [ob L]; [apply J3 in L | apply J3 in L]; eapply live_obj_is_live; eauto.
Qed.

(* queries add no edge: the state is literally the same *)
Theorem query_no_change ct st slot q : fst (step ct st (OQuery slot q)) = st.
Proof.
  cbn [step]. destruct (get_root st slot) as [i|]; [|reflexivity]. destruct (hget (heap st) i) as [ob|]; [|reflexivity].
  destruct (query_obj ct (heap st) ob q); reflexivity.
Qed.

(* turns = v adds no edge: slots, liveness and the strong children of every object are unchanged *)
Theorem set_turns_no_edge ct st slot v :
  let st' := fst (step ct st (OSetTurns slot v)) in
  roots st' = roots st /\ classes st' = classes st /\
  (forall i, option_map (fun o => (o_live o, o_children o, o_name o, o_key o)) (hget (heap st') i) =
             option_map (fun o => (o_live o, o_children o, o_name o, o_key o)) (hget (heap st) i)).
Proof.
  cbn zeta. cbn [step].
  assert (T : roots (fst (set_turns st 0 v)) = roots (fst (set_turns st 0 v))) by reflexivity.
  destruct (get_root st slot) as [i|]; [|auto]. destruct (hget (heap st) i) as [ob|] eqn:Eo; [|auto].
  assert (G : roots (fst (set_turns st i v)) = roots st /\ classes (fst (set_turns st i v)) = classes st /\
              (forall j, option_map (fun o => (o_live o, o_children o, o_name o, o_key o)) (hget (heap (fst (set_turns st i v))) j) =
                         option_map (fun o => (o_live o, o_children o, o_name o, o_key o)) (hget (heap st) j))).
  { unfold set_turns. rewrite Eo. destruct (o_data ob); auto.
    - match goal with |- context [if ?b then _ else _] => destruct b end; [auto|].
      destruct (rot_n _ seq sst) as [[es' ss']|]; [|auto]. cbn [fst heap roots classes].
      split; [reflexivity | split; [reflexivity|]]. intros j. rewrite hget_hset.
      destruct (Nat.eqb j i) eqn:Ej; [|reflexivity]. apply Nat.eqb_eq in Ej. subst j. rewrite Eo. reflexivity.
    - match goal with |- context [if ?b then _ else _] => destruct b end; auto. }
  destruct (o_data ob); auto; destruct (set_turns st i v) as [s [u|k]]; cbn in *; exact G.
Qed.
