(* C04, continued: the complement operation. *)
From Coq Require Import List NArith ZArith Bool Arith Lia.
From DSD Require Import Base.Str Base.Errors Model.ComplexUtils Model.RegStr Model.Heap Model.Registry
  Proofs.RegHeap Proofs.RegInv Proofs.RegCalls Proofs.RegExt Proofs.RegC04 Proofs.RegStep.
Import ListNotations.

(* a request cls(n, length = l) that returns, returns a live object of class c named n of length l *)
Theorem dom_request_result fuel ct c st n l o b :
  class_kind ct c = Some KindD -> Good ct st ->
  dom_call fuel ct c st (Some n) (Some l) None None = (fst (dom_call fuel ct c st (Some n) (Some l) None None), CRet o b) ->
  exists ob, live_obj (heap (fst (dom_call fuel ct c st (Some n) (Some l) None None))) o ob /\
             o_cls ob = c /\ o_name ob = n /\ o_data ob = DDom l.
Proof.
  intros Hk [I C D] E. destruct fuel as [|f]; [discriminate|]. cbn [dom_call] in *.
  destruct (class_kind_nth _ _ _ Hk) as [ci Eci].
  destruct (body_spec ct c _ st (Some n) (Some l) None None Hk (recspec_fuel ct c f Hk) I C D) as [_ B].
  destruct (B ci n (Some l) o b Eci eq_refl (dom_len1_none ci (Some l))) as [ob [H1 [H2 [H3 H4]]]].
  - rewrite E. reflexivity.
  - exists ob. split; [exact H1|]. split; [exact H2|]. split; [exact H3|]. apply H4. reflexivity.
Qed.

(* ~d : whatever it returns has the toggled name, d's length and d's class *)
Theorem invert_spec ct st i ob l o b :
  Good ct st -> live_obj (heap st) i ob -> o_data ob = DDom l ->
  snd (dom_complement ct st i) = CRet o b ->
  exists oo, live_obj (heap (fst (dom_complement ct st i))) o oo /\
             o_cls oo = o_cls ob /\ o_name oo = cname_of (o_name ob) /\ o_data oo = DDom l.
Proof.
  intros G Hi Ed E. unfold dom_complement in *. destruct Hi as [Hg Hl]. rewrite Hg, Ed in *.
  assert (Hk : class_kind ct (o_cls ob) = Some KindD).
  { destruct (g_dok _ _ G) as [_ [_ K]]. rewrite (K i ob (conj Hg Hl)), Ed. reflexivity. }
  apply (dom_request_result dom_fuel ct (o_cls ob) st (cname_of (o_name ob)) l o b Hk G).
  rewrite <- E. destruct (dom_call dom_fuel ct (o_cls ob) st (Some (cname_of (o_name ob))) (Some l) None None); reflexivity.
Qed.

(* ~~d is d: a request for the name of a live domain d that returns, returns d itself *)
Theorem request_returns_the_live_one fuel ct c st n l i ob o b :
  class_kind ct c = Some KindD -> Good ct st ->
  live_obj (heap st) i ob -> o_cls ob = c -> o_name ob = n ->
  snd (dom_call fuel ct c st (Some n) (Some l) None None) = CRet o b -> o = i.
Proof.
  intros Hk G Hi Ec En E.
  destruct (dom_request_result fuel ct c st n l o b Hk G) as [oo [Ho [Eo [Eno _]]]].
  { rewrite <- E. destruct (dom_call fuel ct c st (Some n) (Some l) None None); reflexivity. }
  pose proof (ext_dom_call fuel ct c st (Some n) (Some l) None None (g_inv _ _ G) (g_col _ _ G)) as X.
  pose proof (callok_dom_call fuel ct c st (Some n) (Some l) None None (g_inv _ _ G)) as [I' _].
  destruct (ex_heap _ _ X) as [top Et].
  assert (Hi' : live_obj (heap (fst (dom_call fuel ct c st (Some n) (Some l) None None))) i ob).
  { destruct Hi as [H1 H2]. split; [|exact H2]. rewrite Et. rewrite hget_app_old; [exact H1 | eapply hget_lt; eauto]. }
  destruct (uniq_name ct _ o i oo ob I' Ho Hi') as [E' _]; congruence.
Qed.

Theorem invert_involutive ct st i ob l o oo o2 b2 :
  Good ct st -> live_obj (heap st) i ob -> o_data ob = DDom l -> base_unstarred (o_name ob) ->
  live_obj (heap st) o oo -> o_cls oo = o_cls ob -> o_name oo = cname_of (o_name ob) -> o_data oo = DDom l ->
  snd (dom_complement ct st o) = CRet o2 b2 -> o2 = i.
Proof.
  intros G Hi Ed Hb Ho Ec En Edo E. unfold dom_complement in E. destruct Ho as [Hg Hl]. rewrite Hg, Edo in E.
  assert (Hk : class_kind ct (o_cls oo) = Some KindD).
  { destruct (g_dok _ _ G) as [_ [_ K]]. rewrite (K o oo (conj Hg Hl)), Edo. reflexivity. }
  rewrite En, (cname_involutive _ Hb) in E.
  apply (request_returns_the_live_one dom_fuel ct (o_cls oo) st (o_name ob) l i ob o2 b2 Hk G Hi (eq_sym Ec) eq_refl E).
Qed.
