(* Reader model, C14: a consistent system is never refused.
   Part 9: reading a reaction statement (rate given, known type). *)
From Coq Require Import List NArith ZArith Bool Arith Lia Permutation.
From DSD Require Import Base.Str Base.Errors Model.ComplexUtils Model.RegStr Model.ReaderStr Model.PyNum
  Model.Peg Model.Kernel Model.DispatchKernel Model.Heap Model.Registry Model.Reader Model.ReaderShape Model.ReaderConsistent
  Proofs.RegHeap Proofs.RegInv Proofs.RegCalls Proofs.RegExt Proofs.ReaderBasic Proofs.ReaderStmt Proofs.ReaderHeap
  Proofs.ReaderInv Proofs.ReaderHoare Proofs.ReaderNoFault Proofs.ReaderThms Proofs.ReaderBuilds Proofs.ReaderKernel
  Proofs.ReaderMore Proofs.ReaderSys Proofs.ReaderSysA Proofs.ReaderSysB Proofs.ReaderSysD Proofs.ReaderSysE
  Proofs.ReaderSysF Proofs.ReaderSysG.
From DSD Require Model.Iupac.
Import ListNotations.

Lemma forallb_const_true {A} (l : list A) : forallb (fun b : bool => b) (map (fun _ => true) l) = true.
Proof. induction l; cbn; auto. Qed.
Lemma existsb_const_false {A} (l : list A) : existsb (fun b : bool => b) (map (fun _ => false) l) = false.
Proof. induction l; cbn; auto. Qed.

Definition m_pair (m : mem3) : pstr * list ckey := (m_name m, m_keys m).

Lemma rxn_side_members prev cond xs (R3 : list mem3) :
  Forall2 (fun x m => m_name m = x /\ mform prev cond x = Some (m_keys m)) xs R3 ->
  rxn_side prev cond xs = Some (map m_pair R3).
Proof.
  intros F. unfold rxn_side. apply omap'_forall2.
  induction F as [|x m xs R3 [H1 H2] F IH]; cbn [map]; constructor; [|exact IH].
  rewrite H2. unfold m_pair. rewrite H1. reflexivity.
Qed.

Lemma sorted_pairs (R3 : list mem3) :
  sort_by snd mkey_cmp (map m_pair R3) = map m_pair (sort_by m_keys mkey_cmp R3).
Proof. symmetry. exact (sort_by_map m_pair (@snd pstr (list ckey)) mkey_cmp R3). Qed.

Lemma rxn_sig_members prev ri (R3 P3 : list mem3) :
  Forall2 (fun x m => m_name m = x /\ mform prev (is_cond (ri_type ri)) x = Some (m_keys m)) (ri_reactants ri) R3 ->
  Forall2 (fun x m => m_name m = x /\ mform prev (is_cond (ri_type ri)) x = Some (m_keys m)) (ri_products ri) P3 ->
  rxn_sig prev ri =
    Some (KRxn (is_cond (ri_type ri)) (map m_keys (sort_by m_keys mkey_cmp R3)) (map m_keys (sort_by m_keys mkey_cmp P3))
               (ri_type ri),
          rxn_name (ri_type ri) (map m_name (sort_by m_keys mkey_cmp R3)) (map m_name (sort_by m_keys mkey_cmp P3))).
Proof.
  intros FR FP. unfold rxn_sig. rewrite (rxn_side_members _ _ _ _ FR), (rxn_side_members _ _ _ _ FP).
  cbv zeta. rewrite !sorted_pairs, !map_map. reflexivity.
Qed.

Section StepRxn.
  Variable ct : ctable.
  Variables cd cs cc cm cr : nat.
  Hypothesis CO : cfg_okb ct cd cs cc cm cr = true.
  Hypothesis PL : forall c, In c [cd; cs; cc; cm; cr] -> exists ci, nth_error ct c = Some ci /\ c_fail ci = FNone.
  Notation G := (g cd cs cc cm cr).
  Notation cls_of := (cls_of cd cs cc cm cr).
  Notation Core := (Core cd cs cc cm cr ct).
  Notation SInv := (SInv cd cs cc cm cr ct).
  Notation Built := (Built cd cs cc cm cr).
  Notation BuiltRxn := (BuiltRxn cr).

  Let SO : slots_ok ct cd cs cc cm cr := co_slots ct cd cs cc cm cr CO.

  (* the if/elif chain for a reaction *)
  Lemma file_obj_rxn i acc r t :
    ClsAt i cr r -> rtype_of (r_st r) i = Ok t ->
    file_obj ct G (RObj i) acc r =
      (r, Ok (if is_s t sCondensed
              then with_rxns acc (po_det acc) (set_add (r_st r) i (po_con acc))
              else with_rxns acc (set_add (r_st r) i (po_det acc)) (po_con acc), [i])).
  Proof.
    intros Hc Ht. unfold file_obj. cbn [gD gS gC gM gR g].
    destruct (co_io ct cd cs cc cm cr CO) as [_ [_ [_ [_ [_ [_ [E7 [E8 [E9 E10]]]]]]]]]. cbv zeta in *.
    rewrite (bind_ok _ _ _ _ _ (inst_slot_val ct i cr cd r Hc)), E7.
    rewrite (bind_ok _ _ _ _ _ (inst_slot_val ct i cr cs r Hc)), E8.
    rewrite (bind_ok get_state _ r r (r_st r) eq_refl).
    rewrite (bind_ok _ _ _ _ _ (inst_slot_val ct i cr cc r Hc)), E9.
    rewrite (bind_ok _ _ _ _ _ (inst_slot_val ct i cr cm r Hc)), E10.
    rewrite (bind_ok _ _ _ _ _ (inst_slot_val ct i cr cr r Hc)), subclass_refl.
    rewrite Ht, bind_lift_Ok. destruct (is_s t sCondensed); reflexivity.
  Qed.

  (* s.add(obj) for an object that no element of the set equals *)
  Lemma set_add_new st i oi l :
    Inv ct st -> hget (heap st) i = Some oi -> o_live oi = true ->
    (forall j, In j l -> j <> i /\ exists oj, hget (heap st) j = Some oj /\ o_live oj = true /\ o_cls oj = o_cls oi) ->
    set_add st i l = l ++ [i].
  Proof.
    intros I Hi Li Hl. unfold set_add. rewrite Hi.
    assert (E : existsb (fun j => Nat.eqb i j || match hget (heap st) j with
                                                 | Some b => key_eqb (o_key oi) (o_key b) | None => false end) l = false).
    { destruct (existsb _ l) eqn:E; [|reflexivity]. exfalso. apply existsb_exists in E. destruct E as [j [Hj E]].
      destruct (Hl j Hj) as [Dj [oj [Ho [Lj Cj]]]]. rewrite Ho in E. apply orb_true_iff in E. destruct E as [E|E].
      - apply Nat.eqb_eq in E. congruence.
      - apply key_eqb_iff in E.
        destruct (live_reg ct st i oi I Hi Li) as [_ K1]. destruct (live_reg ct st j oj I Ho Lj) as [_ K2].
        rewrite Cj, <- E in K2. congruence. }
    rewrite E. reflexivity.
  Qed.

  (* ---- members ---- *)
  Definition mdict (cond : bool) (acc : pilout) : list (pstr * nat) :=
    if cond then po_macrostates acc else po_complexes acc.
  Definition mcls (cond : bool) : nat := if cond then cm else cc.

  Definition MemReg (cond : bool) (st : state) (x : pstr) (j : nat) : Prop :=
    nonempty x = true /\ nlookup x (cs_names (cget st (mcls cond))) = Some j.

  Lemma byname_exact cond r x j :
    SOK ct (r_st r) -> MemReg cond (r_st r) x j ->
    (if cond then macro_by_name ct G else complex_by_name ct G) x r = (with_st r (hold (r_st r) j), Ok j) /\
    is_live (heap (r_st r)) j = true.
  Proof.
    intros OK [Hne Hn]. destruct cond; cbn [mcls] in Hn.
    - assert (Hlt : cm < length ct) by apply (cls_of_lt ct cd cs cc cm cr CO KindM). split.
      + unfold macro_by_name. cbn [gM g slot]. rewrite bind_ret. unfold call, macro_call.
        unfold sing_lookup. rewrite Hne, Hn. reflexivity.
      + destruct (reg_live ct _ cm x j (proj1 OK) Hlt Hn) as [o [Ho [Hl _]]]. unfold is_live. rewrite Ho. exact Hl.
    - apply (cbn_exact ct cd cs cc cm cr PL r x j OK). split; assumption.
  Qed.

  Lemma mac_facts prev r acc x :
    SInv prev r acc -> In x (map fst (decl_macs prev)) ->
    exists j ks, dlookup x (po_macrostates acc) = Some j /\ nonempty x = true /\ mac_sig_of prev x = Some ks /\
      member_form (heap (r_st r)) j = Some (true, ks) /\ obj_name (heap (r_st r)) j = x.
  Proof.
    intros SI Hx. pose proof SI as [C B]. destruct (assoc_some x _ Hx) as [xs Ea].
    pose proof (assoc_in _ _ _ Ea) as Hin. apply decl_macs_in in Hin.
    destruct (B _ Hin) as [i [mks [rep [D1 [Hne [D2 D3]]]]]].
    exists i, (map snd (sort_by snd ckey_cmp mks)). split; [exact D1|]. split; [exact Hne|].
    split.
    - unfold mac_sig_of. rewrite Ea. apply mac_sig_members.
      eapply Forall2_impl'; [|exact D2]. cbn. intros y mk [A1 A2].
      destruct (cplx_facts ct cd cs cc cm cr prev r acc y SI
                  (si_keys _ _ _ _ _ _ _ _ _ C KindC y (dlookup_in_keys _ _ _ A1))) as [j2 [k2 [B1 [_ [B3 [B4 _]]]]]].
      rewrite A1 in B1. injection B1 as <-. rewrite A2 in B4. injection B4 as <-. exact B3.
    - unfold member_form, obj_name. rewrite D3. cbn. auto.
  Qed.

  Lemma mem_facts prev r acc cond x :
    SInv prev r acc -> In x (mdecl cond prev) ->
    exists j ks, dlookup x (mdict cond acc) = Some j /\ mform prev cond x = Some ks /\
      member_form (heap (r_st r)) j = Some (cond, ks) /\ obj_name (heap (r_st r)) j = x /\
      MemReg cond (r_st r) x j.
  Proof.
    intros SI Hx. pose proof SI as [C _]. destruct cond; cbn [mdecl mdict mform mcls] in *.
    - destruct (mac_facts prev r acc x SI Hx) as [j [ks [H1 [H2 [H3 [H4 H5]]]]]]. exists j, ks.
      pose proof (si_reg _ _ _ _ _ _ _ _ _ C KindM ltac:(discriminate)) as Reg. cbn [cls_of ReaderSysA.cls_of dict_of] in Reg.
      unfold MemReg. cbn [mcls]. rewrite Reg. auto 10.
    - destruct (cplx_facts ct cd cs cc cm cr prev r acc x SI Hx) as [j [k [H1 [H2 [H3 [H4 [H5 H6]]]]]]]. exists j, [k].
      pose proof (si_reg _ _ _ _ _ _ _ _ _ C KindC ltac:(discriminate)) as Reg. cbn [cls_of ReaderSysA.cls_of dict_of] in Reg.
      unfold MemReg. cbn [mcls]. rewrite Reg, H3. auto 10.
  Qed.

  Lemma mdict_keys prev r acc cond x j :
    Core prev r acc -> dlookup x (mdict cond acc) = Some j -> In x (mdecl cond prev).
  Proof.
    intros C H. apply dlookup_in_keys in H. destruct cond; cbn [mdict mdecl] in *.
    - apply (si_keys _ _ _ _ _ _ _ _ _ C KindM). exact H.
    - apply (si_keys _ _ _ _ _ _ _ _ _ C KindC). exact H.
  Qed.

  (* the members of one side of a reaction *)
  Lemma side_facts prev r acc cond xs :
    SInv prev r acc -> Forall (fun x => In x (mdecl cond prev)) xs ->
    exists R3 : list mem3,
      Forall2 (fun x m => m_name m = x /\ dlookup x (mdict cond acc) = Some (m_id m) /\
                          member_form (heap (r_st r)) (m_id m) = Some (cond, m_keys m) /\
                          mform prev cond x = Some (m_keys m) /\
                          obj_name (heap (r_st r)) (m_id m) = x /\ MemReg cond (r_st r) x (m_id m)) xs R3.
  Proof.
    intros SI Hxs. apply forall_exists_forall2. eapply Forall_impl; [|exact Hxs]. cbn. intros x Hx.
    destruct (mem_facts prev r acc cond x SI Hx) as [j [ks [H1 [H2 [H3 [H4 H5]]]]]].
    exists (x, (j, ks)). unfold m_name, m_id, m_keys. cbn [fst snd]. auto 10.
  Qed.

  (* an earlier reaction: its canonical form and its name are those of its statement *)
  Lemma rxn_sig_built prev r acc ri j :
    SInv prev r acc -> BuiltRxn r acc ri j ->
    exists k nm ch d, rxn_sig prev ri = Some (k, nm) /\ hget (heap (r_st r)) j = Some (new_obj cr nm k [] ch d).
  Proof.
    intros SI [R3 [P3 [k0 [H1 [H2 [H3 [H4 _]]]]]]]. pose proof SI as [C _]. cbv zeta in H4.
    assert (Hm : forall xs (M3 : list mem3),
               Forall2 (fun x m => m_name m = x /\ dlookup x (mdict (is_cond (ri_type ri)) acc) = Some (m_id m) /\
                                   member_form (heap (r_st r)) (m_id m) = Some (is_cond (ri_type ri), m_keys m)) xs M3 ->
               Forall2 (fun x m => m_name m = x /\ mform prev (is_cond (ri_type ri)) x = Some (m_keys m)) xs M3).
    { intros xs M3 F. eapply Forall2_impl'; [|exact F]. cbn. intros x m [A1 [A2 A3]]. split; [exact A1|].
      destruct (mem_facts prev r acc _ x SI (mdict_keys prev r acc _ x _ C A2)) as [j2 [ks [B1 [B2 [B3 _]]]]].
      rewrite A2 in B1. injection B1 as <-. rewrite A3 in B3. injection B3 as <-. exact B2. }
    do 4 eexists. split; [apply (rxn_sig_members prev ri R3 P3); apply Hm; assumption | exact H4].
  Qed.

  (* ---- Reaction(reactants, products, rtype) for a new reaction ---- *)
  Definition m_form (cond : bool) (m : mem3) : nat * (bool * list ckey) := (m_id m, (cond, m_keys m)).

  Lemma forms_members (h : list obj) cond (M3 : list mem3) :
    Forall (fun m => member_form h (m_id m) = Some (cond, m_keys m)) M3 ->
    omap' (fun i => option_map (fun f => (i, f)) (member_form h i)) (map m_id M3) = Some (map (m_form cond) M3).
  Proof.
    intros F. apply omap'_forall2. induction F as [|m M3 H F IH]; cbn [map]; constructor; [|exact IH].
    rewrite H. reflexivity.
  Qed.

  Lemma sorted_forms cond (M3 : list mem3) :
    sort_by (fun x : nat * (bool * list ckey) => snd (snd x)) mkey_cmp (map (m_form cond) M3) =
    map (m_form cond) (sort_by m_keys mkey_cmp M3).
  Proof.
    symmetry. exact (sort_by_map (m_form cond) (fun x : nat * (bool * list ckey) => snd (snd x)) mkey_cmp M3).
  Qed.

  Lemma in_sorted {A K} (kf : A -> K) cmp l x : In x (sort_by kf cmp l) -> In x l.
  Proof. apply Permutation_in. apply sort_by_perm. Qed.

  Lemma rxn_new_exact st cond t (R3 P3 : list mem3) :
    Forall (fun m => member_form (heap st) (m_id m) = Some (cond, m_keys m) /\
                     obj_name (heap st) (m_id m) = m_name m) (R3 ++ P3) ->
    R3 <> [] ->
    let sr := sort_by m_keys mkey_cmp R3 in
    let sp := sort_by m_keys mkey_cmp P3 in
    let nm := rxn_name t (map m_name sr) (map m_name sp) in
    let key := KRxn cond (map m_keys sr) (map m_keys sp) t in
    nlookup nm (cs_names (cget st cr)) = None -> klookup key (cs_canon (cget st cr)) = None ->
    reaction_call ct cr st (Some (map m_id R3, map m_id P3)) t None =
      (mk_new st cr nm key [] (map m_id R3 ++ map m_id P3) (DRxn (map m_id sr) (map m_id sp) t),
       CRet (length (heap st)) true).
  Proof.
    intros F Hne sr sp nm key Hn Hk. destruct (PL cr) as [ci [Hci Hf]]; [cbn; auto 10|].
    apply Forall_app in F. destruct F as [FR FP].
    unfold reaction_call. cbv zeta.
    rewrite (forms_members (heap st) cond R3), (forms_members (heap st) cond P3);
      [| eapply Forall_impl; [|exact FP]; cbn; tauto | eapply Forall_impl; [|exact FR]; cbn; tauto].
    assert (Eflags : map (fun x : nat * (bool * list ckey) => fst (snd x)) (map (m_form cond) R3 ++ map (m_form cond) P3) =
                     map (fun _ => cond) (R3 ++ P3)).
    { rewrite <- map_app, map_map. reflexivity. }
    rewrite Eflags.
    assert (Eism : existsb (fun b : bool => b) (map (fun _ : mem3 => cond) (R3 ++ P3)) = cond).
    { destruct cond; [|apply existsb_const_false]. destruct R3 as [|m0 R3']; [contradiction|]. reflexivity. }
    assert (Eall : cond = true -> forallb (fun b : bool => b) (map (fun _ : mem3 => cond) (R3 ++ P3)) = true).
    { intros ->. apply forallb_const_true. }
    rewrite Eism.
    assert (Eb : cond && negb (forallb (fun b : bool => b) (map (fun _ : mem3 => cond) (R3 ++ P3))) = false).
    { destruct cond; [rewrite (Eall eq_refl)|]; reflexivity. }
    rewrite Eb. rewrite !sorted_forms. fold sr. fold sp. rewrite !map_map. cbn [m_form fst snd].
    assert (Enames : forall M3 S3, (forall m, In m S3 -> In m M3) ->
                     Forall (fun m => member_form (heap st) (m_id m) = Some (cond, m_keys m) /\
                                      obj_name (heap st) (m_id m) = m_name m) M3 ->
                     map (fun x : mem3 => obj_name (heap st) (m_id x)) S3 = map m_name S3).
    { intros M3 S3 Hs FM. apply map_ext_in. intros m Hm. rewrite Forall_forall in FM. apply (FM m (Hs m Hm)). }
    rewrite (Enames R3 sr (fun m => in_sorted _ _ _ m) FR), (Enames P3 sp (fun m => in_sorted _ _ _ m) FP).
    change (map (fun x : mem3 => m_keys x) sr) with (map m_keys sr).
    change (map (fun x : mem3 => m_keys x) sp) with (map m_keys sp).
    change (map (fun x : mem3 => m_id x) sr) with (map m_id sr).
    change (map (fun x : mem3 => m_id x) sp) with (map m_id sp).
    fold (rxn_name t (map m_name sr) (map m_name sp)). fold nm. fold key.
    unfold sing_lookup.
    assert (Hnm : nonempty nm = true) by reflexivity.
    rewrite Hnm, Hn, Hk. apply (create_new ct st cr ci); assumption.
  Qed.
End StepRxn.
