(* Big-step rules derived from the interpreter: "evaluates to r for all
   sufficiently large fuel".  Grammar-specific proofs are derivations with these
   rules and never mention fuel. *)
From Coq Require Import List NArith Bool Arith Lia.
From DSD Require Import Base.Str Model.Peg Proofs.PegMono.
Import ListNotations.

Definition finish (nd : node) (r : pres) : pres :=
  match r with
  | POk p2 toks => POk p2 (add_tags (ntags nd) (post (nkind nd) toks))
  | PFail => PFail
  | PFuel => PFuel
  end.

Section Rules.
  Variable g : list node.
  Variable full : pstr.
  Notation P := (parse g full).
  Notation evals := (evals g full).

  Definition skips igs p p1 : Prop :=
    exists f0, forall f n, f0 <= f -> f0 <= n -> skip_ign (P f) n igs p = Some p1.
  Definition pre_to nd p p1 : Prop :=
    exists f0, forall f n, f0 <= f -> f0 <= n -> pre_parse (P f) n nd p = Some p1.
  Definition impls nd p r : Prop :=
    exists f0, forall f n, f0 <= f -> f0 <= n -> impl (P f) full n nd p = r.
  Definition seqs ks p acc r : Prop :=
    exists f0, forall f, f0 <= f -> seq_rest (P f) ks p acc = r.
  Definition firsts ks p r : Prop :=
    exists f0, forall f, f0 <= f -> first_of (P f) ks p = r.
  Definition loops igs k p acc r : Prop :=
    exists f0, forall f n, f0 <= f -> f0 <= n -> many_loop (P f) n igs k p acc = r.

  Lemma evals_eq i cp p r r' : evals i cp p r' -> r' = r -> evals i cp p r.
  Proof. intros H <-. exact H. Qed.

  (* ---- a node: preParse, parseImpl, postParse, parse actions ---- *)
  Lemma evals_node i cp p nd p1 r :
    nth_error g i = Some nd ->
    (if cp && ncallpre nd then pre_to nd p p1 else p1 = p) ->
    impls nd p1 r ->
    evals i cp p (finish nd r).
  Proof.
    intros Hn Hp [b Hb]. destruct (cp && ncallpre nd) eqn:E.
    - destruct Hp as [a Ha]. exists (S (Nat.max a b)). intros f Hf.
      destruct f as [|f]; [lia|]. rewrite parse_S, Hn, E, (Ha f f), (Hb f f) by lia. reflexivity.
    - subst p1. exists (S b). intros f Hf.
      destruct f as [|f]; [lia|]. rewrite parse_S, Hn, E, (Hb f f) by lia. reflexivity.
  Qed.

  Lemma evals_node_ok i cp p nd p1 p2 t :
    nth_error g i = Some nd ->
    (if cp && ncallpre nd then pre_to nd p p1 else p1 = p) ->
    impls nd p1 (POk p2 t) ->
    evals i cp p (POk p2 (add_tags (ntags nd) (post (nkind nd) t))).
  Proof. intros Hn Hp Hi. exact (evals_node i cp p nd p1 _ Hn Hp Hi). Qed.
  Lemma evals_node_fail i cp p nd p1 :
    nth_error g i = Some nd ->
    (if cp && ncallpre nd then pre_to nd p p1 else p1 = p) ->
    impls nd p1 PFail ->
    evals i cp p PFail.
  Proof. intros Hn Hp Hi. exact (evals_node i cp p nd p1 _ Hn Hp Hi). Qed.

  (* ---- skipping and preParse ---- *)
  Lemma skips_nil p : skips [] p p.
  Proof. exists 0. intros; reflexivity. Qed.

  Lemma pres_of_skips nd p p1 :
    skips (nign nd) p p1 -> pre_to nd p (if nskip nd then pos_skip_ws (nws nd) p1 else p1).
  Proof.
    intros [a Ha]. exists a. intros f n Hf Hn. unfold pre_parse. rewrite (Ha f n Hf Hn). reflexivity.
  Qed.

  (* one ignorable expression `ig`:  fails at p *)
  Lemma skips_one_none ig p : evals ig true p PFail -> skips [ig] p p.
  Proof.
    intros [a Ha]. exists (S (S a)). intros f n Hf Hn.
    destruct n as [|[|n]]; try lia. cbn [skip_ign ign_outer ign_pass ign_inner].
    rewrite (Ha f) by lia.
    replace (loc_eqb p p) with true; [reflexivity|].
    destruct p; cbn; [symmetry; apply Nat.eqb_refl|reflexivity].
  Qed.
  (* ... matches once (p -> p', a different location) and then fails *)
  Lemma skips_one_once ig p p' t :
    evals ig true p (POk p' t) -> evals ig true p' PFail -> loc_eqb p' p = false -> skips [ig] p p'.
  Proof.
    intros [a Ha] [b Hb] Hne. exists (4 + Nat.max a b). intros f n Hf Hn.
    destruct n as [|[|[|[|n]]]]; try lia.
    cbn [skip_ign ign_outer ign_pass ign_inner].
    rewrite (Ha f) by lia. rewrite (Hb f) by lia. rewrite Hne.
    cbn [ign_inner]. rewrite (Hb f) by lia.
    replace (loc_eqb p' p') with true; [reflexivity|].
    destruct p'; cbn; [symmetry; apply Nat.eqb_refl|reflexivity].
  Qed.

  (* ---- And ---- *)
  Lemma seqs_nil p acc : seqs [] p acc (POk p acc).
  Proof. exists 0. intros; reflexivity. Qed.
  Lemma seqs_cons k ks p acc p' t r :
    evals k true p (POk p' t) -> seqs ks p' (acc ++ t) r -> seqs (k :: ks) p acc r.
  Proof.
    intros [a Ha] [b Hb]. exists (Nat.max a b). intros f Hf. cbn [seq_rest].
    rewrite (Ha f), (Hb f) by lia. reflexivity.
  Qed.
  Lemma seqs_fail k ks p acc : evals k true p PFail -> seqs (k :: ks) p acc PFail.
  Proof. intros [a Ha]. exists a. intros f Hf. cbn [seq_rest]. rewrite (Ha f) by lia. reflexivity. Qed.

  Lemma impls_and nd p k0 ks p' t r :
    nkind nd = KAnd -> nkids nd = k0 :: ks ->
    evals k0 false p (POk p' t) -> seqs ks p' t r -> impls nd p r.
  Proof.
    intros Hk Hc [a Ha] [b Hb]. exists (Nat.max a b). intros f n Hf Hn. unfold impl.
    rewrite Hk, Hc, (Ha f), (Hb f) by lia. reflexivity.
  Qed.
  Lemma impls_and_fail nd p k0 ks :
    nkind nd = KAnd -> nkids nd = k0 :: ks -> evals k0 false p PFail -> impls nd p PFail.
  Proof.
    intros Hk Hc [a Ha]. exists a. intros f n Hf Hn. unfold impl.
    rewrite Hk, Hc, (Ha f) by lia. reflexivity.
  Qed.

  (* ---- MatchFirst ---- *)
  Lemma firsts_nil p : firsts [] p PFail.
  Proof. exists 0. intros; reflexivity. Qed.
  Lemma firsts_hit k ks p p' t : evals k true p (POk p' t) -> firsts (k :: ks) p (POk p' t).
  Proof. intros [a Ha]. exists a. intros f Hf. cbn [first_of]. rewrite (Ha f) by lia. reflexivity. Qed.
  Lemma firsts_miss k ks p r : evals k true p PFail -> firsts ks p r -> firsts (k :: ks) p r.
  Proof.
    intros [a Ha] [b Hb]. exists (Nat.max a b). intros f Hf. cbn [first_of].
    rewrite (Ha f), (Hb f) by lia. reflexivity.
  Qed.
  Lemma impls_first nd p r : nkind nd = KFirst -> firsts (nkids nd) p r -> impls nd p r.
  Proof. intros Hk [a Ha]. exists a. intros f n Hf Hn. unfold impl. rewrite Hk. apply Ha. exact Hf. Qed.

  (* ---- Opt ---- *)
  Lemma impls_opt_some nd p k ks p' t :
    nkind nd = KOpt -> nkids nd = k :: ks -> evals k false p (POk p' t) -> impls nd p (POk p' t).
  Proof.
    intros Hk Hc [a Ha]. exists a. intros f n Hf Hn. unfold impl. rewrite Hk, Hc, (Ha f) by lia. reflexivity.
  Qed.
  Lemma impls_opt_none nd p k ks :
    nkind nd = KOpt -> nkids nd = k :: ks -> evals k false p PFail -> impls nd p (POk p []).
  Proof.
    intros Hk Hc [a Ha]. exists a. intros f n Hf Hn. unfold impl. rewrite Hk, Hc, (Ha f) by lia. reflexivity.
  Qed.

  (* ---- OneOrMore / ZeroOrMore ---- *)
  Lemma loops_stop igs k p p1 acc :
    skips igs p p1 -> evals k true p1 PFail -> loops igs k p acc (POk p acc).
  Proof.
    intros [a Ha] [b Hb]. exists (S (Nat.max a b)). intros f n Hf Hn.
    destruct n as [|n]; [lia|]. cbn [many_loop]. rewrite (Ha f n), (Hb f) by lia. reflexivity.
  Qed.
  Lemma loops_step igs k p p1 acc p' t r :
    skips igs p p1 -> evals k true p1 (POk p' t) -> loops igs k p' (acc ++ t) r -> loops igs k p acc r.
  Proof.
    intros [a Ha] [b Hb] [c Hc]. exists (S (Nat.max a (Nat.max b c))). intros f n Hf Hn.
    destruct n as [|n]; [lia|]. cbn [many_loop]. rewrite (Ha f n), (Hb f), (Hc f n) by lia. reflexivity.
  Qed.
  Lemma impls_many nd one p k ks p' t r :
    nkind nd = KMany one -> nkids nd = k :: ks ->
    evals k true p (POk p' t) -> loops (nign nd) k p' t r -> impls nd p r.
  Proof.
    intros Hk Hc [a Ha] [b Hb]. exists (Nat.max a b). intros f n Hf Hn. unfold impl.
    rewrite Hk, Hc, (Ha f), (Hb f n) by lia. reflexivity.
  Qed.
  Lemma impls_many_none nd one p k ks :
    nkind nd = KMany one -> nkids nd = k :: ks ->
    evals k true p PFail -> impls nd p (if one then PFail else POk p []).
  Proof.
    intros Hk Hc [a Ha]. exists a. intros f n Hf Hn. unfold impl.
    rewrite Hk, Hc, (Ha f) by lia. reflexivity.
  Qed.

  (* ---- Forward, DelimitedList, Group, Suppress, Combine ---- *)
  Definition is_wrapper (k : kind) : bool :=
    match k with KPass | KGroup | KSuppress | KCombine _ => true | _ => false end.
  Lemma impls_wrap nd p k ks r :
    is_wrapper (nkind nd) = true -> nkids nd = k :: ks -> evals k false p r -> impls nd p r.
  Proof.
    intros Hk Hc [a Ha]. exists a. intros f n Hf Hn. unfold impl.
    destruct (nkind nd); try discriminate; rewrite Hc; apply Ha; exact Hf.
  Qed.

  (* ---- terminals: parseImpl does not call back ---- *)
  Definition leaf_impl (nd : node) (p : pos) : option pres :=
    match nkind nd with
    | KLit s =>
        Some match p with
             | At r => match starts_with s r with Some r' => POk (At r') [TStr s] | None => PFail end
             | Past => PFail
             end
    | KWord init body wmin wmax =>
        Some match p with At r => run_token init body wmin wmax true r | Past => PFail end
    | KWhite cs wmin wmax =>
        Some match p with At r => run_token cs cs wmin wmax false r | Past => PFail end
    | KLineEnd =>
        Some match p with
             | At (c :: r) => if N.eqb c NL then POk (At r) [TStr [NL]] else PFail
             | At [] => POk Past []
             | Past => PFail
             end
    | KStringEnd =>
        Some match p with At (_ :: _) => PFail | At [] => POk Past [] | Past => POk Past [] end
    | KComment =>
        Some match p with
             | At (c :: r) => if N.eqb c HASH then let (a, b) := upto_nl r in POk (At b) [TStr (c :: a)] else PFail
             | _ => PFail
             end
    | _ => None
    end.
  Lemma impls_leaf nd p r : leaf_impl nd p = Some r -> impls nd p r.
  Proof.
    intros H. exists 0. intros f n _ _. unfold leaf_impl in H. unfold impl.
    destruct (nkind nd); try discriminate; injection H as <-; reflexivity.
  Qed.

  (* StringStart at the position preParse reaches from the start of the input *)
  Lemma impls_string_start nd p :
    nkind nd = KStringStart -> pre_to nd (At full) p -> impls nd p (POk p []).
  Proof.
    intros Hk [a Ha]. exists a. intros f n Hf Hn. unfold impl. rewrite Hk.
    destruct (loc_eqb p (At full)); [reflexivity|]. rewrite (Ha f n Hf Hn).
    replace (loc_eqb p p) with true; [reflexivity|].
    destruct p; cbn; [symmetry; apply Nat.eqb_refl|reflexivity].
  Qed.
End Rules.
