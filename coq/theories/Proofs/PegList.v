(* delimitedList(element, d): element (d element)*, generic in the table and in the element. *)
From Coq Require Import List NArith Bool Arith Lia.
From DSD Require Import Base.Str Model.Peg Proofs.PegMono Proofs.PegRules Proofs.PegStd Proofs.PegDoc Proofs.PegKw
  Proofs.PegNum.
Import ListNotations.

Section DList.
  Variable g : list node.
  Variable c : nat.
  Variable WS : list chr.
  Hypothesis Hc : comment_ok g c WS = true.
  Notation spre := (std_pre WS).

  Variable elem : Type.
  Variable elem_text : elem -> pstr.
  Variable elem_tok : elem -> tok.
  Variable elem_ok : elem -> Prop.
  Variable follow : pstr -> Prop.        (* what may follow an element *)
  Variable el : nat.
  Hypothesis Hel : forall full (cp : bool) x e rest, elem_ok e ->
    (if cp then spre x else x) = elem_text e ++ rest -> follow rest ->
    evals g full el cp (At x) (POk (At rest) [elem_tok e]).
  Hypothesis Hel_head : forall e, elem_ok e -> exists d0 z, elem_text e = d0 :: z /\ stopc WS d0 = true.

  Variables dl an zm an2 sc lit : nat.
  Variable d : chr.
  Hypothesis Hdl : nth_error g dl = Some (mkNode KPass [an] true WS [c] true []).
  Hypothesis Han : nth_error g an = Some (mkNode KAnd [el; zm] true WS [c] true []).
  Hypothesis Hzm : nth_error g zm = Some (mkNode (KMany false) [an2] true WS [c] true []).
  Hypothesis Han2 : nth_error g an2 = Some (mkNode KAnd [sc; el] true WS [c] true []).
  Hypothesis Hsc : nth_error g sc = Some (mkNode KSuppress [lit] true WS [c] true []).
  Hypothesis Hlit : nth_error g lit = Some (mkNode (KLit [d]) [] true WS [c] true []).
  Hypothesis Hd_stop : stopc WS d = true.
  Hypothesis Hfollow_d : forall b z, blanks WS b -> follow (b ++ d :: z).

  Record lmember := mkLmember { lm_b1 : pstr; lm_b2 : pstr; lm_e : elem }.
  Definition lmember_ok (m : lmember) : Prop := blanks WS (lm_b1 m) /\ blanks WS (lm_b2 m) /\ elem_ok (lm_e m).
  Fixpoint lmembers_text (ms : list lmember) (r : pstr) : pstr :=
    match ms with
    | [] => r
    | m :: ms' => lm_b1 m ++ d :: lm_b2 m ++ elem_text (lm_e m) ++ lmembers_text ms' r
    end.
  Definition lzpos (ms : list lmember) (r : pstr) : pstr := match ms with [] => spre r | _ => r end.
  Definition llist_stop (r : pstr) : Prop := follow r /\ nohead [d] (spre r).

  Lemma spre_lzpos ms r : spre (lzpos ms r) = spre r.
  Proof. destruct ms; [apply (std_pre_idem g c WS Hc)|reflexivity]. Qed.
  Lemma lmembers_text_app ms r k : lmembers_text ms r ++ k = lmembers_text ms (r ++ k).
  Proof.
    induction ms as [|m ms IH]; cbn [lmembers_text]; [reflexivity|].
    repeat (rewrite <- app_assoc || rewrite <- app_comm_cons). rewrite IH. reflexivity.
  Qed.

  Lemma lmembers_follow ms r : Forall lmember_ok ms -> follow r -> follow (lmembers_text ms r).
  Proof.
    intros Hms Hr. destruct ms as [|m ms]; [exact Hr|]. cbn [lmembers_text].
    inversion Hms as [|? ? (Hb1 & _) _]; subst. apply Hfollow_d. exact Hb1.
  Qed.
  Lemma spre_elem b e rest : blanks WS b -> elem_ok e -> spre (b ++ elem_text e ++ rest) = elem_text e ++ rest.
  Proof.
    intros Hb He. destruct (Hel_head e He) as (d0 & z & E & Hd0). rewrite E. cbn [app].
    rewrite (std_pre_blanks WS b _ Hb). apply stopc_elim in Hd0 as (H1 & H2 & _). apply std_pre_stop; assumption.
  Qed.
  Lemma spre_delim b z : blanks WS b -> spre (b ++ d :: z) = d :: z.
  Proof.
    intros Hb. rewrite (std_pre_blanks WS b _ Hb). apply stopc_elim in Hd_stop as (H1 & H2 & _). apply std_pre_stop; assumption.
  Qed.

  Lemma ev_lmember full x m rest :
    lmember_ok m -> spre x = d :: lm_b2 m ++ elem_text (lm_e m) ++ rest -> follow rest ->
    evals g full an2 true (At x) (POk (At rest) [elem_tok (lm_e m)]).
  Proof.
    intros (Hb1 & Hb2 & He) Hx Hrest.
    eapply evals_eq.
    - eapply evals_node_ok; [exact Han2|apply (pre_premise g full c WS Hc); repeat split|].
      unfold pre_pos. cbn [andb ncallpre]. rewrite Hx.
      eapply impls_and; [reflexivity|reflexivity| |].
      + eapply evals_eq; [apply (evals_slit g full c WS Hc sc lit false true true [d] _ Hsc Hlit)|].
        cbn [andb]. unfold lit_res. cbn [starts_with]. rewrite N.eqb_refl. reflexivity.
      + eapply seqs_cons; [|apply seqs_nil].
        apply (Hel full true _ (lm_e m) rest He); [|exact Hrest]. apply spre_elem; assumption.
    - reflexivity.
  Qed.
  Lemma ev_lmember_stop full x r : spre x = spre r -> nohead [d] (spre r) -> evals g full an2 true (At x) PFail.
  Proof.
    intros Hx Hr.
    eapply evals_node_fail; [exact Han2|apply (pre_premise g full c WS Hc); repeat split|].
    unfold pre_pos. cbn [andb ncallpre]. rewrite Hx.
    eapply impls_and_fail; [reflexivity|reflexivity|].
    eapply evals_eq; [apply (evals_slit g full c WS Hc sc lit false true true [d] _ Hsc Hlit)|].
    cbn [andb]. unfold lit_res. rewrite (starts_with_nohead1 d [] _ Hr). reflexivity.
  Qed.

  Lemma loops_lmembers full ms : forall r acc, Forall lmember_ok ms -> llist_stop r ->
    loops g full [c] an2 (At (lmembers_text ms r)) acc (POk (At r) (acc ++ map (fun m => elem_tok (lm_e m)) ms)).
  Proof.
    induction ms as [|m ms IH]; intros r acc Hms (Hr1 & Hr2).
    - cbn [lmembers_text map]. rewrite app_nil_r.
      eapply loops_stop; [apply (skips_std g full c WS Hc)|].
      apply (ev_lmember_stop full _ r); [apply (std_pre_skip_ign g c WS Hc)|exact Hr2].
    - inversion Hms as [|? ? Hm Hms']; subst. cbn [lmembers_text map].
      eapply loops_step; [apply (skips_std g full c WS Hc)| |].
      + apply (ev_lmember full _ m (lmembers_text ms r) Hm).
        * rewrite (std_pre_skip_ign g c WS Hc). destruct Hm as (Hb1 & _). apply spre_delim. exact Hb1.
        * apply lmembers_follow; assumption.
      + replace (acc ++ elem_tok (lm_e m) :: map (fun m0 => elem_tok (lm_e m0)) ms)
          with ((acc ++ [elem_tok (lm_e m)]) ++ map (fun m0 => elem_tok (lm_e m0)) ms)
          by (rewrite <- app_assoc; reflexivity).
        apply IH; [exact Hms'|split; assumption].
  Qed.

  Lemma ev_dlist full (cp : bool) (x : pstr) e0 ms r :
    (if cp then spre x else x) = elem_text e0 ++ lmembers_text ms r ->
    elem_ok e0 -> Forall lmember_ok ms -> llist_stop r ->
    evals g full dl cp (At x) (POk (At (lzpos ms r)) (elem_tok e0 :: map (fun m => elem_tok (lm_e m)) ms)).
  Proof.
    intros Hx He0 Hms Hr.
    assert (Hzm' : evals g full zm true (At (lmembers_text ms r))
                     (POk (At (lzpos ms r)) (map (fun m => elem_tok (lm_e m)) ms))).
    { destruct ms as [|m ms].
      - cbn [lmembers_text map lzpos]. eapply evals_eq.
        + eapply evals_node_ok; [exact Hzm|apply (pre_premise g full c WS Hc); repeat split|].
          unfold pre_pos. cbn [andb ncallpre].
          eapply (impls_many_none g full _ false); [reflexivity|reflexivity|].
          apply (ev_lmember_stop full _ r); [apply (std_pre_idem g c WS Hc)|apply Hr].
        + reflexivity.
      - inversion Hms as [|? ? Hm Hms']; subst. cbn [lmembers_text map lzpos]. eapply evals_eq.
        + eapply evals_node_ok; [exact Hzm|apply (pre_premise g full c WS Hc); repeat split|].
          unfold pre_pos. cbn [andb ncallpre].
          eapply impls_many; [reflexivity|reflexivity| |].
          * apply (ev_lmember full _ m (lmembers_text ms r) Hm).
            -- rewrite (std_pre_idem g c WS Hc). destruct Hm as (Hb1 & _). apply spre_delim. exact Hb1.
            -- apply lmembers_follow; [exact Hms'|apply Hr].
          * cbn [nign]. apply (loops_lmembers full ms r [elem_tok (lm_e m)] Hms' Hr).
        + reflexivity. }
    eapply evals_eq.
    - eapply evals_node_ok; [exact Hdl|apply (pre_premise g full c WS Hc); repeat split|].
      unfold pre_pos. cbn [ncallpre]. rewrite andb_true_r, Hx.
      eapply impls_wrap; [reflexivity|reflexivity|].
      eapply evals_node_ok; [exact Han|cbn; reflexivity|].
      eapply impls_and; [reflexivity|reflexivity| |].
      + apply (Hel full false _ e0 _ He0 eq_refl). apply lmembers_follow; [exact Hms|apply Hr].
      + eapply seqs_cons; [exact Hzm'|apply seqs_nil].
    - reflexivity.
  Qed.
End DList.
