(* pair_table_to_dot_bracket at the symbol level inverts the tree's table. *)
From Coq Require Import List Arith Lia Bool NArith.
From DSD Require Import Base.Str Base.Errors Model.ComplexUtils Dyck.Dyck Proofs.Mpt.
Import ListNotations.

Notation ltb_loc := loc_ltb.

Definition sym_at (p : loc) (v : option loc) : sym :=
  match v with None => SD | Some q => if ltb_loc p q then SO else SC end.

Fixpoint row_syms (si di : nat) (r : row) : list sym :=
  match r with [] => [] | v :: r' => sym_at (si, di) v :: row_syms si (S di) r' end.

Definition sep (out : list sym) : list sym := match out with [] => [] | _ => out ++ [SB] end.

(* pair_table_to_dot_bracket: "if out: out += strand_break" *)
Fixpoint db_aux (si : nat) (t : tab) (out : list sym) : list sym :=
  match t with
  | [] => out
  | r :: t' => db_aux (S si) t' (sep out ++ row_syms si 0 r)
  end.
Definition pt_to_db (t : tab) : list sym := db_aux 0 t [].

(* flat symbol stream of an entry list starting at position p *)
Fixpoint esyms (es : list entry) (p : loc) : list sym :=
  match es with
  | [] => []
  | EB :: r => SB :: esyms r (S (fst p), 0)
  | EP v :: r => sym_at p v :: esyms r (fst p, S (snd p))
  end.

Fixpoint eadv (es : list entry) (p : loc) : loc :=
  match es with
  | [] => p
  | EB :: r => eadv r (S (fst p), 0)
  | EP _ :: r => eadv r (fst p, S (snd p))
  end.

Lemma esyms_app es1 es2 p : esyms (es1 ++ es2) p = esyms es1 p ++ esyms es2 (eadv es1 p).
Proof. revert p; induction es1 as [|[|v] r IH]; intros p; cbn; auto; f_equal; apply IH. Qed.

Lemma eadv_app es1 es2 p : eadv (es1 ++ es2) p = eadv es2 (eadv es1 p).
Proof. revert p; induction es1 as [|[|v] r IH]; intros p; cbn; auto. Qed.

Lemma eadv_ents d : forall p, eadv (ents d p) p = adv d p.
Proof.
  induction d as [|r IH|r IH|i IHi r IHr]; intros p; cbn [ents eadv adv].
  - reflexivity.
  - apply (IH (fst p, S (snd p))).
  - apply (IH (S (fst p), 0)).
  - cbn [fst snd]. rewrite eadv_app. cbn [eadv fst snd].
    rewrite (IHi (fst p, S (snd p))). apply (IHr (_, _)).
Qed.

Definition le_loc (a b : loc) : Prop := fst a < fst b \/ (fst a = fst b /\ snd a <= snd b).
Definition lt_loc (a b : loc) : Prop := fst a < fst b \/ (fst a = fst b /\ snd a < snd b).

Lemma adv_ge d : forall p, le_loc p (adv d p).
Proof.
  induction d as [|r IH|r IH|i IHi r IHr]; intros p; cbn [adv].
  - right; lia.
  - specialize (IH (fst p, S (snd p))). unfold le_loc in *. cbn [fst snd] in *. lia.
  - specialize (IH (S (fst p), 0)). unfold le_loc in *. cbn [fst snd] in *. lia.
  - pose proof (IHi (fst p, S (snd p))) as H1.
    pose proof (IHr (fst (adv i (fst p, S (snd p))), S (snd (adv i (fst p, S (snd p)))))) as H2.
    unfold le_loc in *. cbn [fst snd] in *. lia.
Qed.

Lemma ltb_loc_true a b : lt_loc a b -> ltb_loc a b = true.
Proof.
  unfold lt_loc, loc_ltb. intros [H|[H1 H2]].
  - apply orb_true_iff. left. apply Nat.ltb_lt. exact H.
  - apply orb_true_iff. right. apply andb_true_iff. split; [apply Nat.eqb_eq|apply Nat.ltb_lt]; assumption.
Qed.

Lemma ltb_loc_false a b : lt_loc b a -> ltb_loc a b = false.
Proof.
  unfold lt_loc, loc_ltb. intros H. apply orb_false_iff. split.
  - apply Nat.ltb_ge. lia.
  - apply andb_false_iff. destruct (Nat.eq_dec (fst a) (fst b)) as [E|E].
    + right. apply Nat.ltb_ge. lia.
    + left. apply Nat.eqb_neq. exact E.
Qed.

Lemma esyms_ents d : forall p, esyms (ents d p) p = render d.
Proof.
  induction d as [|r IH|r IH|i IHi r IHr]; intros p; cbn [ents esyms render].
  - reflexivity.
  - cbn [sym_at]. f_equal. apply (IH (_, _)).
  - f_equal. apply (IH (_, _)).
  - set (q := adv i (fst p, S (snd p))).
    assert (Hpq : lt_loc p q).
    { pose proof (adv_ge i (fst p, S (snd p))) as H. fold q in H. unfold le_loc, lt_loc in *. cbn [fst snd] in *. lia. }
    cbn [sym_at]. rewrite (ltb_loc_true _ _ Hpq). f_equal.
    rewrite esyms_app. rewrite (IHi (_, _)). f_equal.
    rewrite eadv_ents. fold q. cbn [esyms sym_at]. rewrite (ltb_loc_false _ _ Hpq). f_equal.
    apply (IHr (_, _)).
Qed.

(* ---- assembling a table from entries and reading it back ---- *)
Definition D (pc : tab * row) : list sym := pt_to_db (fst pc ++ [snd pc]).

Lemma db_aux_app t1 : forall si t2 out, db_aux si (t1 ++ t2) out = db_aux (si + length t1) t2 (db_aux si t1 out).
Proof.
  induction t1 as [|r t1 IH]; intros si t2 out; cbn [app db_aux length].
  - rewrite Nat.add_0_r. reflexivity.
  - rewrite IH. f_equal. lia.
Qed.

Lemma row_syms_app si r : forall di v, row_syms si di (r ++ [v]) = row_syms si di r ++ [sym_at (si, di + length r) v].
Proof.
  induction r as [|x r IH]; intros di v; cbn [app row_syms length].
  - rewrite Nat.add_0_r. reflexivity.
  - f_equal. rewrite IH. replace (S di + length r) with (di + S (length r)) by lia. reflexivity.
Qed.

Lemma D_EP pc v : D (fst pc, snd pc ++ [v]) = D pc ++ [sym_at (posOf pc) v].
Proof.
  unfold D, pt_to_db. cbn [fst snd]. rewrite !db_aux_app. cbn [db_aux Nat.add].
  rewrite row_syms_app. rewrite app_assoc. reflexivity.
Qed.

Lemma D_EB pc : D pc <> [] -> D (fst pc ++ [snd pc], []) = D pc ++ [SB].
Proof.
  unfold D, pt_to_db. cbn [fst snd]. intros H. rewrite db_aux_app. cbn [db_aux row_syms].
  rewrite app_nil_r. unfold sep. destruct (db_aux 0 (fst pc ++ [snd pc]) []); [contradiction|reflexivity].
Qed.

Lemma posOf_EB pc : posOf (fst pc ++ [snd pc], @nil (option loc)) = (S (fst (posOf pc)), 0).
Proof. unfold posOf. cbn [fst snd]. rewrite app_length. cbn [length]. rewrite Nat.add_1_r. reflexivity. Qed.
Lemma posOf_EP pc v : posOf (fst pc, snd pc ++ [v]) = (fst (posOf pc), S (snd (posOf pc))).
Proof. unfold posOf. cbn [fst snd]. rewrite app_length. cbn [length]. rewrite Nat.add_1_r. reflexivity. Qed.

Lemma D_appE es : forall pc, D pc <> [] -> D (appE pc es) = D pc ++ esyms es (posOf pc).
Proof.
  induction es as [|[|v] r IH]; intros pc Hne; cbn [appE esyms].
  - rewrite app_nil_r. reflexivity.
  - rewrite IH.
    + rewrite D_EB by exact Hne. rewrite <- app_assoc. cbn [app]. rewrite posOf_EB. reflexivity.
    + rewrite D_EB by exact Hne. destruct (D pc); discriminate.
  - rewrite IH.
    + rewrite D_EP. rewrite <- app_assoc. cbn [app]. rewrite posOf_EP. reflexivity.
    + rewrite D_EP. destruct (D pc); discriminate.
Qed.

Definition tab_of (d : dyck) : tab := let pc := appE ([], []) (ents d (0, 0)) in fst pc ++ [snd pc].

Theorem db_roundtrip d :
  (match render d with SB :: _ => False | _ => True end) ->
  pt_to_db (tab_of d) = render d.
Proof.
  intros Hlead. unfold tab_of. change (D (appE ([], []) (ents d (0, 0))) = render d).
  rewrite <- (esyms_ents d (0, 0)) in *.
  destruct (ents d (0, 0)) as [|[|v] es] eqn:E; cbn [esyms appE] in *.
  - reflexivity.
  - contradiction.
  - cbn [fst snd app]. rewrite D_appE.
    + reflexivity.
    + discriminate.
Qed.

Corollary make_then_db d :
  (match render d with SB :: _ => False | _ => True end) ->
  option_map pt_to_db (mpt_syms (render d)) = Some (render d).
Proof. intros H. rewrite mpt_syms_render. cbn [option_map]. f_equal. apply db_roundtrip. exact H. Qed.
