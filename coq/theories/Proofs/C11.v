(* C11: macrostates and reactions are (multi)sets: identifiers do not depend on
   the order of the arguments. *)
From Coq Require Import List NArith Bool Permutation.
From DSD Require Import Base.Str Base.Errors Base.Sort Model.ComplexUtils Model.Compare Proofs.C10.
Import ListNotations.

Section Members.
  Context {K : Type} (cmp : K -> K -> comparison) (G : good_cmp cmp).

  (* singleton invariant on the members: one object (one name) per canonical form *)
  Definition singletons (l : list (member (K:=K))) : Prop := key_inj_on fst l.

  Lemma existsb_perm {A} (f : A -> bool) l l' : Permutation l l' -> existsb f l = existsb f l'.
  Proof.
    induction 1; cbn; auto.
    - congruence.
    - destruct (f x), (f y); reflexivity.
    - congruence.
  Qed.

  Theorem macro_order_independent l l' name :
    singletons l -> Permutation l l' ->
    macro_identifiers cmp l name = macro_identifiers cmp l' name.
  Proof.
    intros S P. unfold macro_identifiers, sort_members.
    rewrite (sort_perm_invariant fst cmp G l l' S P). reflexivity.
  Qed.

  Theorem macro_members_sorted l name cs n :
    macro_identifiers cmp l name = Ok (cs, n) ->
    Permutation cs l /\ Sorted.Sorted (klt_or_eq fst cmp) cs /\
    (name = None -> exists c r, cs = c :: r /\ n = snd c /\ forall y, In y l -> kle fst cmp c y = true) /\
    (forall m, name = Some m -> n = m /\ exists c, representative cs m = Some c /\ snd c = m /\ In c l).
  Proof.
    unfold macro_identifiers, sort_members. intros H.
    assert (HP : Permutation (sort_by fst cmp l) l) by apply sort_perm.
    assert (HS : Sorted.Sorted (klt_or_eq fst cmp) (sort_by fst cmp l)) by (apply sort_sorted; exact G).
    destruct name as [m|].
    - destruct (existsb (fun x => str_eqb m (snd x)) (sort_by fst cmp l)) eqn:E; [|discriminate].
      injection H as <- <-. split; [exact HP|]. split; [exact HS|]. split; [discriminate|].
      intros m' Hm. injection Hm as <-. split; [reflexivity|].
      unfold representative. apply existsb_exists in E. destruct E as (c & Hc & Ec).
      destruct (find (fun x => str_eqb m (snd x)) (sort_by fst cmp l)) as [c'|] eqn:F.
      + exists c'. apply find_some in F. destruct F as [F1 F2]. apply str_eqb_iff in F2.
        repeat split; auto. apply (Permutation_in _ HP), F1.
      + exfalso. apply (find_none _ _ F) in Hc. congruence.
    - destruct (sort_by fst cmp l) as [|c r] eqn:E; [discriminate|]. injection H as <- <-.
      split; [exact HP|]. split; [exact HS|]. split; [|discriminate].
      intros _. exists c, r. split; [reflexivity|]. split; [reflexivity|].
      apply (sort_head_min fst cmp G l c r E).
  Qed.

  Theorem macro_different_members l l' name cs n cs' n' :
    macro_identifiers cmp l name = Ok (cs, n) -> macro_identifiers cmp l' name = Ok (cs', n') ->
    cs = cs' -> Permutation l l'.
  Proof.
    intros H1 H2 E. apply (macro_members_sorted l) in H1. apply (macro_members_sorted l') in H2.
    destruct H1 as [P1 _], H2 as [P2 _]. rewrite <- P1, E. exact P2.
  Qed.

  Theorem reaction_order_independent re re' pr pr' rtype name :
    singletons re -> singletons pr -> Permutation re re' -> Permutation pr pr' ->
    reaction_identifiers cmp re pr rtype name = reaction_identifiers cmp re' pr' rtype name.
  Proof.
    intros S1 S2 P1 P2. unfold reaction_identifiers, reaction_autoname, sort_members.
    rewrite (sort_perm_invariant fst cmp G re re' S1 P1), (sort_perm_invariant fst cmp G pr pr' S2 P2).
    reflexivity.
  Qed.

  (* the stored reactants / products are the members in canonical order *)
  Theorem reaction_members_sorted re pr rtype name :
    let '(canon, _, sre, spr) := reaction_identifiers cmp re pr rtype name in
    Permutation sre re /\ Permutation spr pr /\
    Sorted.Sorted (klt_or_eq fst cmp) sre /\ Sorted.Sorted (klt_or_eq fst cmp) spr /\
    canon = (map fst sre, map fst spr, rtype).
  Proof.
    unfold reaction_identifiers, sort_members. repeat split; try apply sort_perm; apply sort_sorted; exact G.
  Qed.

  (* equal canonical forms: same multisets of canonical forms and same type *)
  Theorem reaction_canon_injective re pr rtype re' pr' rtype' name name' :
    fst (fst (fst (reaction_identifiers cmp re pr rtype name))) =
    fst (fst (fst (reaction_identifiers cmp re' pr' rtype' name'))) ->
    Permutation (map fst re) (map fst re') /\ Permutation (map fst pr) (map fst pr') /\ rtype = rtype'.
  Proof.
    unfold reaction_identifiers, sort_members. cbn [fst]. intros H. injection H as H1 H2 H3.
    repeat split; auto.
    - rewrite <- (Permutation_map fst (sort_perm fst cmp re)), H1. apply Permutation_map, sort_perm.
    - rewrite <- (Permutation_map fst (sort_perm fst cmp pr)), H2. apply Permutation_map, sort_perm.
  Qed.
End Members.

(* instances for the concrete kinds *)
Theorem macrostate_order_independent : forall l l' name,
  singletons l -> Permutation l l' ->
  macro_identifiers ckey_cmp l name = macro_identifiers ckey_cmp l' name.
Proof. exact (macro_order_independent ckey_cmp good_ckey). Qed.

Theorem reaction_order_independent_complexes : forall re re' pr pr' rtype name,
  singletons re -> singletons pr -> Permutation re re' -> Permutation pr pr' ->
  reaction_identifiers ckey_cmp re pr rtype name = reaction_identifiers ckey_cmp re' pr' rtype name.
Proof. exact (reaction_order_independent ckey_cmp good_ckey). Qed.

Theorem reaction_order_independent_macrostates : forall re re' pr pr' rtype name,
  singletons re -> singletons pr -> Permutation re re' -> Permutation pr pr' ->
  reaction_identifiers mkey_cmp re pr rtype name = reaction_identifiers mkey_cmp re' pr' rtype name.
Proof. exact (reaction_order_independent mkey_cmp good_mkey). Qed.

Example ex_macro :
  let a : member := (([[97%N]], [cD]), [88%N]) in
  let b : member := (([[98%N]], [cD]), [89%N]) in
  singletons [b; a] /\ macro_identifiers ckey_cmp [b; a] None = Ok ([a; b], [88%N]).
Proof.
  cbn zeta. split; [|vm_compute; reflexivity].
  intros x y [<-|[<-|[]]] [<-|[<-|[]]]; cbn; intros E; try reflexivity; discriminate.
Qed.
