(* Reader model, C14: reading in a session that already holds objects.
   Part 2: re-declared complexes (kernel and strand notation) are found. *)
From Coq Require Import List NArith ZArith Bool Arith Lia Permutation.
From DSD Require Import Base.Str Base.Errors Model.ComplexUtils Model.RegStr Model.ReaderStr Model.PyNum
  Model.Peg Model.Kernel Model.DispatchKernel Model.Heap Model.Registry Model.Reader Model.ReaderShape Model.ReaderConsistent
  Proofs.RegHeap Proofs.RegInv Proofs.RegCalls Proofs.RegExt Proofs.ReaderBasic Proofs.ReaderStmt Proofs.ReaderHeap
  Proofs.ReaderInv Proofs.ReaderHoare Proofs.ReaderNoFault Proofs.ReaderThms Proofs.ReaderBuilds Proofs.ReaderKernel
  Proofs.ReaderMore Proofs.ReaderSys Proofs.ReaderSysA Proofs.ReaderSysB Proofs.ReaderSysC Proofs.ReaderSysD
  Proofs.ReaderSysE Proofs.ReaderSysF Proofs.ReaderSysS Proofs.ReaderSysX Proofs.ReaderSysY Proofs.ReaderSysP.
From DSD Require Model.Iupac.
Import ListNotations.

(* the first rotation is the pair itself *)
Lemma rot_dict_first names sst cdict :
  rot_dict names sst = Some cdict -> cdict <> [] -> In (names, sst) (map fst cdict).
Proof.
  unfold rot_dict. destruct (nstrands names) as [|n] eqn:En.
  - intros H Hc. exfalso. apply Hc. cbn in H. congruence.
  - intros H Hc. cbn in H. destruct (rotate_complex_once names sst) as [rr|k]; cbn in H; [|discriminate].
    match type of H with context [rot_loop ?a ?b ?c ?d ?e ?f] =>
      destruct (rot_loop a b c d e f) as [[[x|] cd0]|] eqn:E end; try discriminate.
    assert (Ec : cd0 = cdict) by congruence. subst cd0.
    eapply rot_loop_keys_mono; [exact E|]. cbn. auto.
Qed.

Section FoundCplx.
  Variable ct : ctable.
  Variables cd cs cc cm cr : nat.
  Hypothesis CO : cfg_okb ct cd cs cc cm cr = true.
  Hypothesis PL : forall c, In c [cd; cs; cc; cm; cr] -> exists ci, nth_error ct c = Some ci /\ c_fail ci = FNone.
  Notation G := (g cd cs cc cm cr).
  Notation cls_of := (cls_of cd cs cc cm cr).
  Notation Core := (Core cd cs cc cm cr ct).
  Notation SInv := (SInv cd cs cc cm cr ct).
  Notation Built := (Built cd cs cc cm cr).

  (* Complex(sequence, structure, name) when this rotation and the name are registered for one object *)
  Lemma cplx_found_exact st (es : list elem) ss nm i :
    length es = length ss -> nstrands (map fst es) <> 0 ->
    klookup (KCplx (map fst es, ss)) (cs_canon (cget st cc)) = Some i ->
    nonempty nm = true -> nlookup nm (cs_names (cget st cc)) = Some i ->
    cplx_call ct cc st (Some es) (Some ss) (Some nm) None = (st, CRet i false).
  Proof.
    intros Hlen Hn0 Hk Hne Hn. destruct (PL cc) as [ci [Hci Hf]]; [cbn; auto 10|].
    unfold cplx_call. rewrite Hci. cbn [resolve_name]. rewrite Hlen, Nat.eqb_refl. cbn [negb]. cbv zeta.
    fold (nstrands (map fst es)). destruct (nstrands (map fst es)) as [|n] eqn:En; [congruence|].
    cbn [Nat.eqb rot_loop]. rewrite Hk. unfold sing_lookup. rewrite Hne, Hn, Hk, Nat.eqb_refl. reflexivity.
  Qed.

  (* a declared complex: its object answers to its name and to the (sequence, structure) of its statement *)
  Lemma cplx_reg_facts world r acc n names sst :
    SInv world r acc -> In (n, (names, sst)) (decl_cplx world) ->
    exists i o conc, dlookup n (po_complexes acc) = Some i /\ hget (heap (r_st r)) i = Some o /\ o_live o = true /\
      o_cls o = cc /\ o_name o = n /\ nonempty n = true /\ nstrands names <> 0 /\
      nlookup n (cs_names (cget (r_st r) cc)) = Some i /\
      klookup (KCplx (names, sst)) (cs_canon (cget (r_st r) cc)) = Some i /\
      attr_get i (r_conc r) = conc.
  Proof.
    intros [C B] Hin. destruct (si_cplx _ _ _ _ _ _ _ _ _ C n names sst Hin) as [conc [i [es [cdict [cn [e [D1 [Hne [_ [Hrd [Hcan [Hh Ha]]]]]]]]]]]].
    pose proof (si_reg _ _ _ _ _ _ _ _ _ C KindC ltac:(discriminate)) as RegC. cbn [cls_of ReaderSysA.cls_of dict_of] in RegC.
    eexists i, _, conc. split; [exact D1|]. split; [exact Hh|]. split; [reflexivity|]. split; [reflexivity|]. split; [reflexivity|].
    split; [exact Hne|].
    assert (Hcd : cdict <> []) by (intros ->; discriminate).
    split.
    { intros E0. unfold rot_dict in Hrd. rewrite E0 in Hrd. cbn in Hrd. injection Hrd as <-. congruence. }
    split; [rewrite RegC; exact D1|]. split; [|exact Ha].
    apply (si_rot _ _ _ _ _ _ _ _ _ C n i _ D1 Hh). cbn [o_keys new_obj]. right.
    pose proof (rot_dict_first names sst cdict Hrd Hcd) as Hf. apply in_map_iff in Hf. destruct Hf as [[k v] [Ek Hf]].
    cbn in Ek. subst k. apply in_map_iff. exists ((names, sst), v). auto.
  Qed.

  (* a kernel string whose resolved (sequence, structure) is the one of a declared complex of that name: the
     complex is found, and its concentration is set when the statement has one *)
  Theorem found_kernel_any world r acc line n names sst conc names' sst' :
    SInv world r acc -> decode line = Ok (SKer n names sst conc) ->
    expand_ker world names sst = Some (names', sst') -> In (n, (names', sst')) (decl_cplx world) ->
    exists i, dlookup n (po_complexes acc) = Some i /\ is_live (heap (r_st r)) i = true /\
      forall accR, read_one ct G None (TList line) accR r =
        (mkR (holds (r_st r) [i]) (r_seq r) (match conc with Some x => attr_set i x (r_conc r) | None => r_conc r end) (r_rate r),
         Ok (apply_delta (FKind KindC n i) accR)).
  Proof.
    intros SI Hdec Hexp Hin. pose proof SI as [C B]. pose proof (si_sok _ _ _ _ _ _ _ _ _ C) as OK.
    set (st := r_st r).
    destruct (cplx_reg_facts world r acc n names' sst' SI Hin) as [i [o [conc0 [D1 [Hh [Hl [Hc [Hnm [Hne [Hn0 [Nn [Kn Ha]]]]]]]]]]]].
    fold st in Hh, Nn, Kn.
    assert (Li : is_live (heap st) i = true) by (unfold is_live; rewrite Hh; exact Hl).
    set (cn' := match conc with Some x => attr_set i x (r_conc r) | None => r_conc r end).
    exists i. split; [exact D1|]. split; [exact Li|]. intros accR.
    unfold expand_ker in Hexp. destruct (Nat.eqb (length names) (length sst)) eqn:El; [|discriminate].
    apply Nat.eqb_eq in El.
    destruct (omap' _ (combine names sst)) as [parts|] eqn:Eo; [|discriminate]. injection Hexp as <- <-.
    destruct (expand_bridge ct cd cs cc cm cr world r acc SI _ _ Eo) as [ys [F [Fe Es]]]. fold st in F, Fe.
    set (temps := flat_map snd ys).
    destruct (kernel_sequence_gen ct cd cs cc cm cr PL names sst ys r OK El F) as [Ek Lv]. fold st in Ek. fold temps in Ek, Lv.
    set (fc := flat_cells (combine names sst) ys) in *.
    pose (es := (map (cell_elem st) (map fst fc) : list elem)).
    set (names2 := map fst (concat parts)) in *. set (sst2 := map snd (concat parts)) in *.
    assert (Hf1 : map fst es = names2) by (apply (forall2_elemof_fst _ _ _ Fe)).
    assert (Hle : length es = length sst2).
    { unfold es. rewrite !map_length. rewrite <- (map_length snd fc), Es. reflexivity. }
    set (r1 := mkR (holds st (temps ++ [i])) (r_seq r) cn' (r_rate r)).
    assert (Ex : exec_stmt ct G line (SKer n names sst conc) r = (r1, Ok (RObj i))).
    { cbn [exec_stmt]. rewrite (bind_ok _ _ _ _ _ Ek). cbn [gC g slot]. rewrite bind_ret.
      rewrite (bind_ok get_state _ _ _ _ eq_refl). cbn [r_st with_st fst snd].
      change (map (cell_elem (holds st temps)) (map fst fc)) with es. rewrite Es.
      assert (Ec : cplx_call ct cc (holds st temps) (Some es) (Some sst2) (Some n) None = (holds st temps, CRet i false)).
      { apply cplx_found_exact; [exact Hle | rewrite Hf1; exact Hn0 | rewrite Hf1; exact Kn | exact Hne | exact Nn]. }
      assert (Ecall : call (fun st' => cplx_call ct cc st' (Some es) (Some sst2) (Some n) None) (with_st r (holds st temps)) =
                      (with_st r (holds st (temps ++ [i])), Ok i)).
      { unfold call. cbn [r_st with_st]. rewrite Ec, hold_holds. reflexivity. }
      rewrite (bind_ok _ _ _ _ _ Ecall). unfold r1. subst cn'. destruct conc as [x|]; reflexivity. }
    apply (read_one_found ct cd cs cc cm cr line (SKer n names sst conc) accR r r1 i [i] (temps ++ [i]) _ (r_seq r) cn' (r_rate r) Hdec OK);
      [| exact Ex | reflexivity |].
    { intros y Hy. rewrite !in_app_iff in Hy. destruct Hy as [[Hy|[<-|[]]]|[<-|[]]]; [apply Lv; exact Hy | exact Li | exact Li]. }
    intros r2 ->. exists []. rewrite app_nil_r.
    apply (file_obj_at ct cd cs cc cm cr CO KindC i n accR r1 o ltac:(cbn; auto) Hh Hc Hnm).
  Qed.

  (* ... with the concentration the complex has already, nothing changes *)
  Theorem found_kernel world r acc line n names sst conc names' sst' :
    SInv world r acc -> decode line = Ok (SKer n names sst conc) ->
    expand_ker world names sst = Some (names', sst') -> In (n, (names', sst')) (decl_cplx world) ->
    (conc = None \/ exists names0 sst0, In (SKer n names0 sst0 conc) world) ->
    exists i cn', dlookup n (po_complexes acc) = Some i /\ is_live (heap (r_st r)) i = true /\
      (forall j, attr_get j cn' = attr_get j (r_conc r)) /\
      forall accR, read_one ct G None (TList line) accR r =
        (mkR (holds (r_st r) [i]) (r_seq r) cn' (r_rate r), Ok (apply_delta (FKind KindC n i) accR)).
  Proof.
    intros SI Hdec Hexp Hin Hconc. pose proof SI as [C B].
    destruct (found_kernel_any world r acc line n names sst conc names' sst' SI Hdec Hexp Hin) as [i [D1 [Li E]]].
    exists i, (match conc with Some x => attr_set i x (r_conc r) | None => r_conc r end).
    split; [exact D1|]. split; [exact Li|]. split; [|exact E].
    intros j. destruct conc as [x|]; [|reflexivity]. rewrite attr_get_set.
    destruct (Nat.eqb j i) eqn:E0; [|reflexivity]. apply Nat.eqb_eq in E0. subst j.
    destruct Hconc as [Hx|[names0 [sst0 Hx]]]; [discriminate|].
    destruct (B _ Hx) as [n1 [s1 [i' [es' [cd' [cn1 [e' [D1' [_ [_ [_ [_ [_ Ha']]]]]]]]]]]]].
    rewrite D1 in D1'. injection D1' as <-. symmetry. exact Ha'.
  Qed.

  (* the strands of a complex in strand notation *)
  Lemma ssc_lookups world r acc ss names :
    SInv world r acc -> Forall (fun s => In s (map fst (decl_strands world))) ss -> ssc_names world ss = Some names ->
    exists jids e0 er,
      mapM (strand_seq ct G) ss r = (with_st r (holds (r_st r) jids), Ok (e0 :: er)) /\
      (forall i, In i jids -> is_live (heap (r_st r)) i = true) /\
      map fst (fold_left (fun a b : list elem => a ++ [(sPlus, @None nat)] ++ b) er e0) = names.
  Proof.
    intros SI Hss Hnames. pose proof SI as [C B]. set (st := r_st r).
    pose proof (si_sok _ _ _ _ _ _ _ _ _ C) as OK.
    pose proof (si_reg _ _ _ _ _ _ _ _ _ C KindS ltac:(discriminate)) as RegS. cbn [cls_of ReaderSysA.cls_of dict_of] in RegS.
    assert (Hex : exists infos : list sinfo,
              Forall2 (fun s x => assoc s (decl_strands world) = Some (si_ds x) /\
                                  dlookup s (po_strands acc) = Some (si_id x) /\ nonempty s = true /\
                                  Forall2 (fun d j => dlookup d (po_domains acc) = Some j) (si_ds x) (si_ids x) /\
                                  hget (heap st) (si_id x) = Some (strand_obj cs s (si_ds x) (si_ids x))) ss infos).
    { apply forall_exists_forall2. eapply Forall_impl; [|exact Hss]. cbn. intros s Hs.
      destruct (assoc_some s _ Hs) as [ds Ea]. pose proof (assoc_in _ _ _ Ea) as Hin. apply decl_strands_in in Hin.
      destruct (B _ Hin) as [j [ids [D1 [Hn1 [_ [D2 D3]]]]]]. exists (j, (ds, ids)). unfold si_ds, si_id, si_ids. cbn [fst snd]. auto. }
    destruct Hex as [infos F].
    set (dss := map si_ds infos). set (jids := map si_id infos). set (ess := map si_es infos).
    assert (Hdss : omap' (fun s => assoc s (decl_strands world)) ss = Some dss).
    { apply omap'_forall2. unfold dss. apply forall2_map_r'. eapply Forall2_impl'; [|exact F]. cbn. tauto. }
    assert (Hn2 : names = joinp dss /\ dss <> []).
    { unfold ssc_names in Hnames. rewrite Hdss in Hnames. destruct dss; [discriminate|]. injection Hnames as <-. split; [reflexivity | discriminate]. }
    destruct Hn2 as [En Hdne].
    assert (F1 : Forall2 (StrReg cs (r_st r)) ss (map (fun x => (si_es x, [si_id x])) infos)).
    { apply forall2_map_r'. eapply Forall2_impl'; [|exact F]. cbn. intros s x [_ [H2 [H3 [_ H5]]]].
      exists (si_id x). cbn [fst snd]. split; [reflexivity|]. split; [exact H3|]. split; [rewrite RegS; exact H2|].
      unfold seq_of. fold st. rewrite H5. reflexivity. }
    destruct (mapM_lookup_gen2 ct (strand_seq ct G) (StrReg cs) (fun st j x y H => H) (strand_seq_exact ct cd cs cc cm cr PL) ss _ r OK F1)
      as [Em Lv].
    rewrite map_map in Em. cbn [fst] in Em. change (map (fun x : sinfo => si_es x) infos) with ess in Em.
    assert (Ej : flat_map snd (map (fun x : sinfo => (si_es x, [si_id x])) infos) = jids).
    { unfold jids. clear. induction infos as [|x l IH]; cbn; [reflexivity | rewrite IH; reflexivity]. }
    rewrite Ej in Em, Lv.
    destruct ess as [|e0 er] eqn:Eess.
    { exfalso. apply Hdne. unfold dss. unfold ess in Eess. destruct infos; [reflexivity | discriminate]. }
    exists jids, e0, er. split; [exact Em|]. split; [exact Lv|].
    assert (Efst : map (map fst) (e0 :: er) = dss).
    { rewrite <- Eess. unfold ess, dss. rewrite map_map. apply map_ext_in. intros x Hx. unfold si_es.
      apply map_fst_combine. rewrite map_length.
      destruct (forall2_in_r _ _ _ x F Hx) as [s [_ [_ [_ [_ [H4 _]]]]]]. eapply forall2_length; eauto. }
    rewrite fold_join_names, En. unfold joinp. rewrite <- Efst. reflexivity.
  Qed.

  Theorem found_ssc world r acc line n ss sst names :
    SInv world r acc -> decode line = Ok (SSC n ss sst) ->
    Forall (fun s => In s (map fst (decl_strands world))) ss ->
    ssc_names world ss = Some names -> length names = length (no_space sst) ->
    In (n, (names, no_space sst)) (decl_cplx world) ->
    exists i, dlookup n (po_complexes acc) = Some i /\ is_live (heap (r_st r)) i = true /\
      forall accR, read_one ct G None (TList line) accR r =
        (mkR (holds (r_st r) [i]) (r_seq r) (r_conc r) (r_rate r), Ok (apply_delta (FKind KindC n i) accR)).
  Proof.
    intros SI Hdec Hss Hnames Hlen Hin. pose proof SI as [C B]. pose proof (si_sok _ _ _ _ _ _ _ _ _ C) as OK.
    set (st := r_st r).
    destruct (cplx_reg_facts world r acc n names (no_space sst) SI Hin) as [i [o [conc0 [D1 [Hh [Hl [Hc [Hnm [Hne [Hn0 [Nn [Kn Ha]]]]]]]]]]]].
    fold st in Hh, Nn, Kn.
    assert (Li : is_live (heap st) i = true) by (unfold is_live; rewrite Hh; exact Hl).
    exists i. split; [exact D1|]. split; [exact Li|]. intros accR.
    destruct (ssc_lookups world r acc ss names SI Hss Hnames) as [jids [e0 [er [Em [Lv Hf1]]]]]. fold st in Em, Lv.
    set (sq := fold_left (fun a b : list elem => a ++ [(sPlus, @None nat)] ++ b) er e0) in *.
    assert (Hle : length sq = length (no_space sst)) by (rewrite <- Hlen, <- Hf1, map_length; reflexivity).
    set (r1 := mkR (holds st (jids ++ [i])) (r_seq r) (r_conc r) (r_rate r)).
    assert (Ex : exec_stmt ct G line (SSC n ss sst) r = (r1, Ok (RObj i))).
    { cbn [exec_stmt]. rewrite (bind_ok _ _ _ _ _ Em). cbv beta iota. rewrite bind_ret.
      assert (Es : strand_table_to_sequence (sPlus, @None nat) (e0 :: er) = Ok sq) by reflexivity.
      rewrite Es, bind_lift_Ok. cbn [gC g slot]. rewrite bind_ret.
      change (filter (fun c : N => negb (N.eqb c 32%N)) sst) with (no_space sst).
      assert (Ec : cplx_call ct cc (holds st jids) (Some sq) (Some (no_space sst)) (Some n) None = (holds st jids, CRet i false)).
      { apply cplx_found_exact; [exact Hle | rewrite Hf1; exact Hn0 | rewrite Hf1; exact Kn | exact Hne | exact Nn]. }
      assert (Ecall : call (fun st' => cplx_call ct cc st' (Some sq) (Some (no_space sst)) (Some n) None) (with_st r (holds st jids)) =
                      (with_st r (holds st (jids ++ [i])), Ok i)).
      { unfold call. cbn [r_st with_st]. rewrite Ec, hold_holds. reflexivity. }
      rewrite (bind_ok _ _ _ _ _ Ecall). reflexivity. }
    apply (read_one_found ct cd cs cc cm cr line (SSC n ss sst) accR r r1 i [i] (jids ++ [i]) _ (r_seq r) (r_conc r) (r_rate r) Hdec OK);
      [| exact Ex | reflexivity |].
    { intros y Hy. rewrite !in_app_iff in Hy. destruct Hy as [[Hy|[<-|[]]]|[<-|[]]]; [apply Lv; exact Hy | exact Li | exact Li]. }
    intros r2 ->. exists []. rewrite app_nil_r.
    apply (file_obj_at ct cd cs cc cm cr CO KindC i n accR r1 o ltac:(cbn; auto) Hh Hc Hnm).
  Qed.
End FoundCplx.
