(* The token language of a node table: `genf g n i t` says that node i can return the
   token list t (text erased: every successful run of the interpreter returns a member,
   parse_gen).  It is the tool for "every tree the parser returns has shape ...". *)
From Coq Require Import List NArith Bool Arith Lia.
From DSD Require Import Base.Str Model.Peg Proofs.PegMono.
Import ListNotations.

Section Gen.
  Variable g : list node.

  Section Kind.
    Variable R : nat -> list tok -> Prop.
    Fixpoint seqR (ks : list nat) (t : list tok) : Prop :=
      match ks with
      | [] => t = []
      | k :: r => exists a b, t = a ++ b /\ R k a /\ seqR r b
      end.
    Definition word_ok (init body : list chr) (w : pstr) : Prop :=
      match w with
      | c :: a => memc c init = true /\ forallb (fun x => memc x body) a = true
      | [] => False
      end.
    Definition genk (nd : node) (t : list tok) : Prop :=
      match nkind nd with
      | KAnd => seqR (nkids nd) t
      | KFirst => exists k, In k (nkids nd) /\ R k t
      | KOpt => t = [] \/ match nkids nd with k :: _ => R k t | [] => False end
      | KMany one =>
          match nkids nd with
          | k :: _ => exists ts, t = concat ts /\ Forall (R k) ts /\ (one = true -> ts <> [])
          | [] => False
          end
      | KPass | KGroup | KSuppress | KCombine _ => match nkids nd with k :: _ => R k t | [] => False end
      | KLit s => t = [TStr s]
      | KWord init body _ _ => exists w, t = [TStr w] /\ word_ok init body w
      | KWhite cs _ _ => exists w, t = [TStr w]
      | KLineEnd => t = [TStr [NL]] \/ t = []
      | KStringStart | KStringEnd => t = []
      | KComment => exists w, t = [TStr w]
      end.
  End Kind.

  Lemma seqR_mono (R R' : nat -> list tok -> Prop) : (forall k t, R k t -> R' k t) ->
    forall ks t, seqR R ks t -> seqR R' ks t.
  Proof.
    intros H ks. induction ks as [|k r IH]; intros t Hs; cbn in *; [exact Hs|].
    destruct Hs as (a & b & -> & Ha & Hb). exists a, b. auto.
  Qed.
  Lemma genk_mono (R R' : nat -> list tok -> Prop) : (forall k t, R k t -> R' k t) ->
    forall nd t, genk R nd t -> genk R' nd t.
  Proof.
    intros H nd t. unfold genk. destruct (nkind nd).
    - apply seqR_mono. exact H.
    - intros (k & Hi & Hk). exists k. auto.
    - intros [E|E]; [left; exact E|right; destruct (nkids nd); auto].
    - destruct (nkids nd) as [|k ks]; [auto|]. intros (ts & -> & Hf & Ho). exists ts. split; [reflexivity|]. split; [|exact Ho].
      eapply Forall_impl; [|exact Hf]. auto.
    - destruct (nkids nd); auto.
    - destruct (nkids nd); auto.
    - destruct (nkids nd); auto.
    - destruct (nkids nd); auto.
    - auto.
    - auto.
    - auto.
    - auto.
    - auto.
    - auto.
    - auto.
  Qed.

  Fixpoint genf (n : nat) (i : nat) (t : list tok) {struct n} : Prop :=
    match n with
    | 0 => False
    | S m =>
        match nth_error g i with
        | Some nd => exists t0, t = add_tags (ntags nd) (post (nkind nd) t0) /\ genk (genf m) nd t0
        | None => False
        end
    end.
  Definition G (i : nat) (t : list tok) : Prop := exists n, genf n i t.

  Lemma G_inv i nd t : nth_error g i = Some nd -> G i t ->
    exists t0, t = add_tags (ntags nd) (post (nkind nd) t0) /\ genk G nd t0.
  Proof.
    intros En [n H]. destruct n as [|m]; [contradiction|]. cbn in H. rewrite En in H.
    destruct H as (t0 & -> & H). exists t0. split; [reflexivity|].
    eapply genk_mono; [|exact H]. intros k t' Hk. exists m. exact Hk.
  Qed.

  (* ------------------------------------------------------------ soundness *)
  Variable full : pstr.

  Lemma span_all cs lim s : forallb (fun x => memc x cs) (fst (span cs lim s)) = true.
  Proof.
    revert lim. induction s as [|c s IH]; intros lim; cbn; [reflexivity|].
    destruct lim as [[|m]|]; cbn; try reflexivity.
    - destruct (memc c cs) eqn:E; cbn; [|reflexivity]. specialize (IH (Some m)). cbn [option_map pred] in *.
      destruct (span cs (Some m) s); cbn in *. rewrite E. exact IH.
    - destruct (memc c cs) eqn:E; cbn; [|reflexivity]. specialize (IH None). cbn [option_map] in *.
      destruct (span cs None s); cbn in *. rewrite E. exact IH.
  Qed.
  Lemma run_token_tok init body wmin wmax chk s p t :
    run_token init body wmin wmax chk s = POk p t -> exists w, t = [TStr w] /\ word_ok init body w.
  Proof.
    unfold run_token. destruct s as [|c r]; [discriminate|]. destruct (memc c init) eqn:Ec; [|discriminate].
    pose proof (span_all body (match wmax with 0 => None | S m => Some m end) r) as Hs.
    destruct (span body _ r) as [a b]. cbn [fst] in Hs. destruct (_ <? _); [discriminate|]. destruct (_ && _ && _); [discriminate|].
    intros H. injection H as _ <-. exists (c :: a). split; [reflexivity|]. split; assumption.
  Qed.

  Section Open.
    Variable P : nat -> bool -> pos -> pres.
    Variable R : nat -> list tok -> Prop.
    Hypothesis HP : forall i cp p p' t, P i cp p = POk p' t -> R i t.

    Lemma seq_rest_gen ks : forall p acc p' t, seq_rest P ks p acc = POk p' t -> exists b, t = acc ++ b /\ seqR R ks b.
    Proof.
      induction ks as [|k r IH]; intros p acc p' t H; cbn in H.
      - injection H as _ <-. exists []. rewrite app_nil_r. split; reflexivity.
      - destruct (P k true p) as [q tk| |] eqn:E; try discriminate.
        apply IH in H as (b & -> & Hb). exists (tk ++ b). rewrite app_assoc. split; [reflexivity|].
        cbn. exists tk, b. split; [reflexivity|]. split; [exact (HP _ _ _ _ _ E)|exact Hb].
    Qed.
    Lemma first_of_gen ks : forall p p' t, first_of P ks p = POk p' t -> exists k, In k ks /\ R k t.
    Proof.
      induction ks as [|k r IH]; intros p p' t H; cbn in H; [discriminate|].
      destruct (P k true p) as [q tk| |] eqn:E; try discriminate.
      - injection H as _ <-. exists k. split; [left; reflexivity|exact (HP _ _ _ _ _ E)].
      - apply IH in H as (k' & Hi & Hk). exists k'. split; [right; exact Hi|exact Hk].
    Qed.
    Lemma many_loop_gen n : forall igs k p acc p' t, many_loop P n igs k p acc = POk p' t ->
      exists ts, t = acc ++ concat ts /\ Forall (R k) ts.
    Proof.
      induction n as [|n IH]; intros igs k p acc p' t H; cbn in H; [discriminate|].
      destruct (skip_ign P n igs p) as [p1|]; [|discriminate].
      destruct (P k true p1) as [q tk| |] eqn:E; try discriminate.
      - apply IH in H as (ts & -> & Hf). exists (tk :: ts). cbn. rewrite app_assoc. split; [reflexivity|].
        constructor; [exact (HP _ _ _ _ _ E)|exact Hf].
      - injection H as _ <-. exists []. cbn. rewrite app_nil_r. split; [reflexivity|constructor].
    Qed.
    Lemma impl_gen n nd p p' t : impl P full n nd p = POk p' t -> genk R nd t.
    Proof.
      unfold impl, genk. destruct (nkind nd).
      - destruct (nkids nd) as [|k0 ks]; [discriminate|].
        destruct (P k0 false p) as [q tk| |] eqn:E; try discriminate.
        intros H. apply seq_rest_gen in H as (b & -> & Hb). cbn. exists tk, b. split; [reflexivity|].
        split; [exact (HP _ _ _ _ _ E)|exact Hb].
      - apply first_of_gen.
      - destruct (nkids nd) as [|k ks]; [discriminate|].
        destruct (P k false p) as [q tk| |] eqn:E; try discriminate.
        + intros H. injection H as _ <-. right. exact (HP _ _ _ _ _ E).
        + intros H. injection H as _ <-. left. reflexivity.
      - destruct (nkids nd) as [|k ks]; [discriminate|].
        destruct (P k true p) as [q tk| |] eqn:E; try discriminate.
        + intros H. apply many_loop_gen in H as (ts & -> & Hf). exists (tk :: ts). split; [reflexivity|].
          split; [constructor; [exact (HP _ _ _ _ _ E)|exact Hf]|discriminate].
        + destruct atleast1; [discriminate|]. intros H. injection H as _ <-. exists []. split; [reflexivity|].
          split; [constructor|discriminate].
      - destruct (nkids nd) as [|k ks]; [discriminate|]. apply HP.
      - destruct (nkids nd) as [|k ks]; [discriminate|]. apply HP.
      - destruct (nkids nd) as [|k ks]; [discriminate|]. apply HP.
      - destruct (nkids nd) as [|k ks]; [discriminate|]. apply HP.
      - destruct p as [r|]; [|discriminate]. destruct (starts_with s r); [|discriminate]. intros H. injection H as _ <-. reflexivity.
      - destruct p as [r|]; [|discriminate]. apply run_token_tok.
      - destruct p as [r|]; [|discriminate]. intros H. apply run_token_tok in H as (w & -> & _). exists w. reflexivity.
      - destruct p as [[|c r]|]; try discriminate.
        + intros H. injection H as _ <-. right. reflexivity.
        + destruct (N.eqb c NL); [|discriminate]. intros H. injection H as _ <-. left. reflexivity.
      - destruct (loc_eqb p (At full)).
        + intros H. injection H as _ <-. reflexivity.
        + destruct (pre_parse P n nd (At full)) as [q|]; [|discriminate]. destruct (loc_eqb p q); [|discriminate].
          intros H. injection H as _ <-. reflexivity.
      - destruct p as [[|c r]|]; try discriminate; intros H; injection H as _ <-; reflexivity.
      - destruct p as [[|c r]|]; try discriminate. destruct (N.eqb c HASH); [|discriminate].
        destruct (upto_nl r) as [a b]. intros H. injection H as _ <-. eexists. reflexivity.
    Qed.
  End Open.

  Theorem parse_genf : forall f i cp p p' t, parse g full f i cp p = POk p' t -> genf f i t.
  Proof.
    induction f as [|f IH]; intros i cp p p' t H; [discriminate|].
    rewrite parse_S in H. cbn [genf]. destruct (nth_error g i) as [nd|]; [|discriminate].
    destruct (if cp && ncallpre nd then pre_parse (parse g full f) f nd p else Some p) as [p1|]; [|discriminate].
    destruct (impl (parse g full f) full f nd p1) as [p2 toks| |] eqn:Ei; try discriminate.
    injection H as _ <-. exists toks. split; [reflexivity|]. exact (impl_gen _ _ IH _ _ _ _ _ Ei).
  Qed.
  Theorem parse_gen f i cp p p' t : parse g full f i cp p = POk p' t -> G i t.
  Proof. intros H. exists f. exact (parse_genf _ _ _ _ _ _ H). Qed.

  (* ------------------------------------------------------------ interpreter-level inversion *)
  Lemma parse_ok_inv f i cp p p' t : parse g full f i cp p = POk p' t ->
    exists f' nd p1 t0, f = S f' /\ nth_error g i = Some nd /\
      (if cp && ncallpre nd then pre_parse (parse g full f') f' nd p else Some p) = Some p1 /\
      impl (parse g full f') full f' nd p1 = POk p' t0 /\ t = add_tags (ntags nd) (post (nkind nd) t0).
  Proof.
    destruct f as [|f]; [discriminate|]. rewrite parse_S. destruct (nth_error g i) as [nd|]; [|discriminate].
    destruct (if cp && ncallpre nd then pre_parse (parse g full f) f nd p else Some p) as [p1|] eqn:Ep; [|discriminate].
    destruct (impl (parse g full f) full f nd p1) as [p2 toks| |] eqn:Ei; try discriminate.
    intros H. injection H as <- <-. exists f, nd, p1, toks. repeat split; auto.
  Qed.
  Lemma seq_rest_inv P k r p acc p' t : seq_rest P (k :: r) p acc = POk p' t ->
    exists q tk, P k true p = POk q tk /\ seq_rest P r q (acc ++ tk) = POk p' t.
  Proof. cbn. destruct (P k true p) as [q tk| |]; try discriminate. intros H. exists q, tk. auto. Qed.
  Lemma many_loop_runs P n : forall igs k p acc p' t, many_loop P n igs k p acc = POk p' t ->
    exists ts, t = acc ++ concat ts /\ Forall (fun x => exists q q', P k true q = POk q' x) ts.
  Proof.
    induction n as [|n IH]; intros igs k p acc p' t H; cbn in H; [discriminate|].
    destruct (skip_ign P n igs p) as [p1|]; [|discriminate].
    destruct (P k true p1) as [q tk| |] eqn:E; try discriminate.
    - apply IH in H as (ts & -> & Hf). exists (tk :: ts). cbn. rewrite app_assoc. split; [reflexivity|].
      constructor; [exists p1, q; exact E|exact Hf].
    - injection H as _ <-. exists []. cbn. rewrite app_nil_r. split; [reflexivity|constructor].
  Qed.
  (* where a loop stopped: the body failed after the ignorables were skipped *)
  Lemma many_loop_end P n : forall igs k p acc p' t, many_loop P n igs k p acc = POk p' t ->
    exists n' q, skip_ign P n' igs p' = Some q /\ P k true q = PFail.
  Proof.
    induction n as [|n IH]; intros igs k p acc p' t H; cbn in H; [discriminate|].
    destruct (skip_ign P n igs p) as [p1|] eqn:Es; [|discriminate].
    destruct (P k true p1) as [q tk| |] eqn:E; try discriminate.
    - exact (IH _ _ _ _ _ _ H).
    - injection H as <- _. exists n, p1. auto.
  Qed.
End Gen.
