(* C18: units and rate constants.  Exact (rational) layer, facts about the
   regenerated tables, and structural facts about the float-level model. *)
From Coq Require Import String ZArith QArith Qabs List Bool Lia PrimFloat FloatOps SpecFloat.
From DSD Require Import Base.Str Base.Errors Model.ComplexUtils Model.UnitsF.
From DSDGen Require Import UnitTables.
Import ListNotations.
Open Scope Z_scope.

(* ---- specification: the ideal decimal scale of every unit ---- *)
Definition scaleQ_al : list (pstr * Q) :=
  [(str "M", 1#1); (str "mM", 1#1000); (str "uM", 1#1000000); (str "nM", 1#1000000000);
   (str "pM", 1#1000000000000);
   (str "days", 86400#1); (str "hours", 3600#1); (str "h", 3600#1); (str "min", 60#1); (str "m", 60#1);
   (str "s", 1#1); (str "ms", 1#1000); (str "us", 1#1000000); (str "ns", 1#1000000000)]%Q.

Fixpoint qlookup (u : pstr) (l : list (pstr * Q)) : option Q :=
  match l with
  | [] => None
  | (k, v) :: r => if str_eqb u k then Some v else qlookup u r
  end.
Definition scaleQ (u : pstr) : option Q := qlookup u scaleQ_al.

(* a generated scale is the ideal value itself (ints) or the double nearest to it *)
Definition scale_ok (s : scale) (q : Q) : bool :=
  match s with
  | SInt z => Qeq_bool q (z # 1)
  | SFlt m e =>
      if 0 <=? e then false else
      let k := - e in
      let k' := k + (53 - bitlen (Z.abs m)) in      (* ulp = 2^-k' *)
      let p := Qnum q in let d := Zpos (Qden q) in
      (* | m/2^k - p/d | <= 1/2^(k'+1)   <=>   | m*2^(k'+1-k)*d - p*2^(k'+1) | <= d *)
      (0 <=? k' + 1 - k) &&
      (Z.abs (m * 2 ^ (k' + 1 - k) * d - p * 2 ^ (k' + 1)) <=? d)
  end.

Definition table_ok (tab : list (list N * scale)) : bool :=
  forallb (fun us => match scaleQ (fst us) with Some q => scale_ok (snd us) q | None => false end) tab.

Lemma tables_nearest : table_ok conc_units && table_ok time_units = true.
Proof. vm_compute. reflexivity. Qed.

Theorem generated_scales_are_nearest_doubles : forall u s,
  In (u, s) (conc_units ++ time_units) ->
  exists q, scaleQ u = Some q /\ scale_ok s q = true.
Proof.
  intros u s H. pose proof tables_nearest as T. apply andb_true_iff in T. destruct T as [T1 T2].
  unfold table_ok in *. rewrite forallb_forall in T1, T2.
  apply in_app_or in H. destruct H as [H|H]; [specialize (T1 _ H)|specialize (T2 _ H)];
  cbn [fst snd] in *; destruct (scaleQ u) as [q|]; try discriminate; eauto.
Qed.

(* every rate unit the grammar accepts is known to convert_units, in the right family *)
Definition known_in (tab : list (list N * scale)) (u : list N) : bool :=
  match ulookup u tab with Some _ => true | None => false end.

Theorem grammar_units_convertible :
  forallb (known_in conc_units) grammar_cunits = true /\
  forallb (known_in time_units) grammar_tunits = true /\
  grammar_cunits <> [] /\ grammar_tunits <> [].
Proof. repeat split; try (vm_compute; reflexivity); vm_compute; discriminate. Qed.

(* the two families are disjoint: a unit is never both a concentration and a time *)
Theorem families_disjoint :
  forallb (fun us => negb (known_in time_units (fst us))) conc_units = true.
Proof. vm_compute. reflexivity. Qed.

(* ---- exact layer ---- *)
Open Scope Q_scope.
Definition convQ (v sa sb : Q) : Q := v * sa / sb.

Lemma convQ_id v s : ~ s == 0 -> convQ v s s == v.
Proof. intros H. unfold convQ. field. exact H. Qed.
Lemma convQ_compose v sa sb sc : ~ sb == 0 -> ~ sc == 0 ->
  convQ (convQ v sa sb) sb sc == convQ v sa sc.
Proof. intros H1 H2. unfold convQ. field. auto. Qed.
Lemma convQ_invert v sa sb : ~ sa == 0 -> ~ sb == 0 -> convQ (convQ v sa sb) sb sa == v.
Proof. intros H1 H2. unfold convQ. field. auto. Qed.

(* rate constants: one inverse factor per unit; converting back restores the value *)
Fixpoint chainQ (c : Q) (old new : list Q) : Q :=
  match old, new with
  | i :: old', o :: new' => chainQ (convQ c o i) old' new'
  | _, _ => c
  end.
Fixpoint factorQ (old new : list Q) : Q :=
  match old, new with
  | i :: old', o :: new' => (o / i) * factorQ old' new'
  | _, _ => 1
  end.
Definition nz (s : Q) : Prop := ~ s == 0.

Theorem rateformatQ_factor : forall old new c,
  Forall nz old -> chainQ c old new == c * factorQ old new.
Proof.
  induction old as [|i old IH]; intros new c Ho; destruct new as [|o new]; cbn [chainQ factorQ]; try ring.
  inversion Ho as [|? ? Hi Ho']; subst. rewrite IH by exact Ho'. unfold convQ. field. exact Hi.
Qed.

Lemma factorQ_inverse : forall old new,
  length old = length new -> Forall nz old -> Forall nz new ->
  factorQ old new * factorQ new old == 1.
Proof.
  induction old as [|i old IH]; intros new Hl Ho Hn; destruct new as [|o new]; try discriminate; cbn [factorQ].
  - ring.
  - inversion Ho as [|? ? Hi Ho']; inversion Hn as [|? ? Hno Hn']; subst. injection Hl as Hl.
    transitivity ((factorQ old new * factorQ new old) * ((o / i) * (i / o))); [ring|].
    rewrite IH by assumption. unfold nz in *. field. split; assumption.
Qed.

Theorem rateformatQ_roundtrip : forall old new c,
  length old = length new -> Forall nz old -> Forall nz new ->
  chainQ (chainQ c old new) new old == c.
Proof.
  intros old new c Hl Ho Hn. rewrite rateformatQ_factor by exact Hn.
  rewrite rateformatQ_factor by exact Ho.
  transitivity (c * (factorQ old new * factorQ new old)); [ring|].
  rewrite factorQ_inverse by assumption. ring.
Qed.

Lemma scaleQ_nonzero : forall u q, scaleQ u = Some q -> nz q.
Proof.
  assert (E : forallb (fun kv => negb (Qeq_bool (snd kv) 0)) scaleQ_al = true) by (vm_compute; reflexivity).
  intros u q H. unfold scaleQ in H.
  assert (Hin : In q (map snd scaleQ_al)).
  { revert H. generalize scaleQ_al. induction l as [|[k v] r IH]; cbn; [discriminate|].
    destruct (str_eqb u k); [intros H; injection H as ->; auto|auto]. }
  apply in_map_iff in Hin. destruct Hin as ([k v] & Hv & Hin). cbn in Hv. subst v.
  rewrite forallb_forall in E. specialize (E _ Hin). cbn [snd] in E.
  intros Hq. apply Qeq_bool_iff in Hq. rewrite Hq in E. discriminate.
Qed.
Close Scope Q_scope.

(* ---- the float-level model answers unknown / mixed-family units with an exception ---- *)
Theorem convert_unknown_unit : forall v a b,
  ulookup a conc_units = None -> ulookup a time_units = None ->
  convert_units v a b = Err eValue.
Proof. intros v a b H1 H2. unfold convert_units. rewrite H1, H2. reflexivity. Qed.

(* a known unit_in with a unit_out outside its family never yields a number: the
   outcome is KeyError (or OverflowError raised earlier by val*scale for a huge int) *)
Theorem convert_mixed_family : forall v a b,
  (ulookup a conc_units <> None /\ ulookup b conc_units = None) \/
  (ulookup a conc_units = None /\ ulookup a time_units <> None /\ ulookup b time_units = None) ->
  exists k, convert_units v a b = Err k /\ (k = eKey \/ k = eOverflow \/ k = eModelRange).
Proof.
  assert (P : forall v s, match pmul v s with Ok _ => True | Err k => k = eOverflow \/ k = eModelRange end).
  { intros [a|f] [b|g]; cbn; auto; unfold lift_f;
    match goal with |- context [int_to_float ?z] => destruct (int_to_float z) end; auto. }
  intros v a b [[H1 H2]|(H1 & H2 & H3)]; unfold convert_units, conv_in.
  - destruct (ulookup a conc_units) as [sa|]; [|congruence]. rewrite H2.
    specialize (P v (scale_num sa)). destruct (pmul v (scale_num sa)) as [x|k]; cbn [rbind].
    + exists eKey. auto.
    + exists k. split; [reflexivity|]. destruct P; auto.
  - rewrite H1. destruct (ulookup a time_units) as [sa|]; [|congruence]. rewrite H3.
    specialize (P v (scale_num sa)). destruct (pmul v (scale_num sa)) as [x|k]; cbn [rbind].
    + exists eKey. auto.
    + exists k. split; [reflexivity|]. destruct P; auto.
Qed.

Theorem convert_ok_same_family : forall v a b r,
  convert_units v a b = Ok r ->
  (ulookup a conc_units <> None /\ ulookup b conc_units <> None) \/
  (ulookup a time_units <> None /\ ulookup b time_units <> None).
Proof.
  intros v a b r. unfold convert_units, conv_in.
  destruct (ulookup a conc_units) as [sa|] eqn:E1.
  - destruct (pmul v (scale_num sa)); cbn [rbind]; [|discriminate].
    destruct (ulookup b conc_units) eqn:E2; [|discriminate]. intros _. left. split; congruence.
  - destruct (ulookup a time_units) as [sa|] eqn:E3; [|discriminate].
    destruct (pmul v (scale_num sa)); cbn [rbind]; [|discriminate].
    destruct (ulookup b time_units) eqn:E4; [|discriminate]. intros _. right. split; congruence.
Qed.

(* rateformat refuses units whose number of parts is not the number of reactants *)
Theorem rateformat_arity : forall c u n out r,
  rateformat c (Some u) n out = Ok r ->
  length (unit_parts u) = n /\ length (unit_parts out) = n.
Proof.
  intros c u n out r. unfold rateformat.
  destruct (Nat.eqb (length (unit_parts u)) n) eqn:E1; cbn [negb]; [|discriminate].
  destruct (Nat.eqb (length (unit_parts out)) n) eqn:E2; cbn [negb]; [|discriminate].
  intros _. split; apply Nat.eqb_eq; assumption.
Qed.

(* the full float statement, kept visible (not proved: needs the Flocq bridge);
   value of a finite float as a rational *)
Definition SF2Q (x : spec_float) : Q :=
  match x with
  | S754_finite s m e => ((if s then -1 else 1) * (Zpos m # 1) * Qpower 2 e)%Q
  | _ => 0%Q
  end.
Definition F2Q (f : float) : Q := SF2Q (Prim2SF f).
Definition conv_float_close_full : Prop :=
  forall (v : float) a b sa sb g,
    PrimFloat.is_nan v = false -> PrimFloat.is_infinity v = false ->
    scaleQ a = Some sa -> scaleQ b = Some sb ->
    convert_units (NF v) a b = Ok (NF g) ->
    PrimFloat.is_infinity g = false ->
    (Qabs (F2Q g - F2Q v * sa / sb) <= (3 # 9007199254740992) * Qabs (F2Q v * sa / sb))%Q.

(* non-vacuity *)
Example ex_convert : enc_res (convert_units (NI 5) (str "mM") (str "uM")) = [0; 5000].
Proof. vm_compute. reflexivity. Qed.
Example ex_rate : enc_res (rateformat (NI 3) (Some (str "/M/s")) 2 (str "/nM/h")) = [1; 3187597375937011; -68].
Proof. vm_compute. reflexivity. Qed.
