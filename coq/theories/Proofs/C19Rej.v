(* C19: rejections: a concentration that does not start with a digit (negative, missing),
   reporter with a wrong number or kind of arguments. *)
From Coq Require Import List NArith Bool Arith Lia.
From DSD Require Import Base.Str Base.Errors Base.Val Model.Peg Model.DispatchPeg Proofs.PegMono Proofs.PegRules Proofs.PegStd
  Proofs.PegDoc Proofs.PegKw Proofs.PegNum Proofs.PegList Proofs.C13Doc Proofs.C19Doc Proofs.C19Lex Proofs.C19Io Proofs.C19Args
  Proofs.C19Stm.
From DSDGen Require Import SeesawGrammar.
Import ListNotations.

(* the statement node refuses a text that every alternative refuses *)
Lemma sw_statement_refused full b text :
  blanks WSs b -> (exists d z, text = d :: z /\ sstopc d = true) ->
  firsts GS full [11; 36; 54; 92; 125; 156; 187; 197; 209; 223] (At text) PFail ->
  evals GS full ssw_stmt true (At (b ++ text)) PFail.
Proof.
  intros Hb (d & z & Et & Hd) Hf. subst text.
  eapply evals_node_fail; [slk|apply (pre_premise GS full ssw_c WSs ssw_comment_ok); repeat split|].
  unfold pre_pos. cbn [andb ncallpre]. rewrite sspre_blanks_stop by assumption.
  eapply impls_and_fail; [reflexivity|reflexivity|].
  eapply evals_node_fail; [slk|cbn; reflexivity|].
  eapply impls_wrap; [reflexivity|reflexivity|].
  eapply evals_node_fail; [slk|cbn; reflexivity|]. apply impls_first; [reflexivity|exact Hf].
Qed.

(* ---- conc[ wire , X...  with X not a digit: negative concentrations, missing number ---- *)
Definition badconc_text (w : wire) (y : cc_layout) (junk : pstr) : pstr :=
  kw_conc ++ cc_b1 y ++ 91%N :: cc_b2 y ++ wire_text w ++ cc_b3 y ++ 44%N :: cc_b4 y ++ junk.

Theorem bad_concentration_refused w y junk full b :
  wire_ok w -> cc_layout_ok y -> nohead sdigit (sspre junk) -> blanks WSs b ->
  evals GS full ssw_stmt true (At (b ++ badconc_text w y junk)) PFail.
Proof.
  intros Hw (Hb1 & Hb2 & Hb3 & Hb4 & Hb5) Hj Hb.
  apply sw_statement_refused; [exact Hb|unfold badconc_text, kw_conc; cbn [app]; eexists _, _; split; reflexivity|].
  unfold badconc_text, kw_conc. norm_text. cbn [app].
  assert (Hwhead : sspre (cc_b2 y ++ wire_text w ++ cc_b3 y ++ 44%N :: cc_b4 y ++ junk)
                   = wire_text w ++ cc_b3 y ++ 44%N :: cc_b4 y ++ junk).
  { rewrite (std_pre_blanks WSs _ _ Hb2). unfold wire_text. cbn [app]. apply (std_pre_stop WSs); reflexivity. }
  kwf full 11 12. kwf full 36 37. kwf full 54 55.
  eapply firsts_miss.
  { eapply (sw_alt_late_fail full 92 93 _ [99; 111; 110; 99]%N); [slk|slk| |].
    { rewrite (std_pre_stop WSs) by reflexivity. reflexivity. }
    punct full 94 95 91%N Hb1.
    eapply seqs_cons; [eapply (sw_wire full true _ w); [exact Hw|cbn beta iota; rewrite (std_pre_blanks WSs _ _ Hb2); unfold wire_text; cbn [app]; apply (std_pre_stop WSs); reflexivity]|].
    punct full 96 97 44%N Hb3.
    apply seqs_fail. apply sw_gorf_fail. rewrite (std_pre_blanks WSs _ _ Hb4). exact Hj. }
  eapply firsts_miss.
  { eapply (sw_alt_late_fail full 125 126 _ [99; 111; 110; 99]%N); [slk|slk| |].
    { rewrite (std_pre_stop WSs) by reflexivity. reflexivity. }
    punct full 127 128 91%N Hb1.
    apply seqs_fail.
    eapply evals_node_fail; [slk|cbn; reflexivity|]. apply impls_first; [reflexivity|]. cbn [nkids].
    eapply firsts_miss.
    { eapply (sw_gate_kw_fail kw_g 130 131 132 133 135 139); try slk. unfold wire_text; cbn [app]; rewrite sspre_blanks_stop by (try exact Hb2; reflexivity); reflexivity. }
    eapply firsts_miss; [|apply firsts_nil].
    eapply (sw_gate_kw_fail kw_g 141 142 143 144 146 150); try slk. unfold wire_text; cbn [app]; rewrite sspre_blanks_stop by (try exact Hb2; reflexivity); reflexivity. }
  eapply firsts_miss.
  { eapply (sw_alt_late_fail full 156 157 _ [99; 111; 110; 99]%N); [slk|slk| |].
    { rewrite (std_pre_stop WSs) by reflexivity. reflexivity. }
    punct full 158 159 91%N Hb1.
    apply seqs_fail.
    eapply evals_node_fail; [slk|cbn; reflexivity|]. apply impls_first; [reflexivity|]. cbn [nkids].
    eapply firsts_miss.
    { eapply (sw_gate_kw_fail kw_th 161 162 163 164 166 170); try slk. unfold wire_text; cbn [app]; rewrite sspre_blanks_stop by (try exact Hb2; reflexivity); reflexivity. }
    eapply firsts_miss; [|apply firsts_nil].
    eapply (sw_gate_kw_fail kw_th 172 173 174 175 177 181); try slk. unfold wire_text; cbn [app]; rewrite sspre_blanks_stop by (try exact Hb2; reflexivity); reflexivity. }
  kwf full 187 188. kwf full 197 198. kwf full 209 210. kwf full 223 224.
  apply firsts_nil.
Qed.

Theorem reject_negative_concentration w y rest pls b :
  wire_ok w -> cc_layout_ok y -> Forall ssw_blank_line pls -> blanks WSs b ->
  no_tab (concat pls ++ b ++ badconc_text w y (45%N :: rest)) ->
  exists f0, forall f, f0 <= f ->
    parse_seesaw_fuel f (concat pls ++ b ++ badconc_text w y (45%N :: rest)) = err eParse.
Proof.
  intros Hw Hy Hp Hb Hnt. apply ssw_document_reject; try assumption.
  - unfold badconc_text, kw_conc. cbn. repeat split; reflexivity.
  - intros full b' Hb'. apply bad_concentration_refused; try assumption.
    rewrite (std_pre_stop WSs) by reflexivity. reflexivity.
Qed.

(* ---- reporter with a wrong number or kind of arguments ---- *)
(* reporter [ X...      X not a digit: the first argument is not a number *)
(* reporter [ N X...    X not a comma: a single argument *)
(* reporter [ N , X...  X not a digit: the second argument is not a number *)
(* reporter [ N , N X... X not `]`: a third argument *)
Inductive repfault :=
| RFirstKind | ROneArg (n1 : num) | RSecondKind (n1 : num) | RThirdArg (n1 n2 : num).
Definition repfault_text (f : repfault) (y : rep_layout) (junk : pstr) : pstr :=
  kw_reporter ++ rp_b1 y ++ 91%N :: rp_b2 y ++
  match f with
  | RFirstKind => junk
  | ROneArg n1 => num_text n1 ++ rp_b3 y ++ junk
  | RSecondKind n1 => num_text n1 ++ rp_b3 y ++ 44%N :: rp_b4 y ++ junk
  | RThirdArg n1 n2 => num_text n1 ++ rp_b3 y ++ 44%N :: rp_b4 y ++ num_text n2 ++ rp_b5 y ++ junk
  end.
Definition repfault_ok (f : repfault) (junk : pstr) : Prop :=
  match f with
  | RFirstKind => nohead sdigit (sspre junk)
  | ROneArg n1 => num_ok n1 /\ nohead sdigit junk /\ nohead [44%N] (sspre junk)
  | RSecondKind n1 => num_ok n1 /\ nohead sdigit (sspre junk)
  | RThirdArg n1 n2 => num_ok n1 /\ num_ok n2 /\ nohead sdigit junk /\ nohead [93%N] (sspre junk)
  end.

Theorem reporter_fault_refused f y junk full b :
  repfault_ok f junk -> rep_layout_ok y -> blanks WSs b ->
  evals GS full ssw_stmt true (At (b ++ repfault_text f y junk)) PFail.
Proof.
  intros Hf (Hb1 & Hb2 & Hb3 & Hb4 & Hb5) Hb.
  apply sw_statement_refused; [exact Hb|unfold repfault_text, kw_reporter; cbn [app]; eexists _, _; split; reflexivity|].
  unfold repfault_text, kw_reporter. norm_text. cbn [app].
  kwf full 11 12. kwf full 36 37. kwf full 54 55. kwf full 92 93. kwf full 125 126. kwf full 156 157.
  eapply firsts_miss.
  { eapply (sw_alt_late_fail full 187 188 _ [114; 101; 112; 111; 114; 116; 101; 114]%N); [slk|slk| |].
    { rewrite (std_pre_stop WSs) by reflexivity. reflexivity. }
    punct full 189 190 91%N Hb1.
    destruct f as [|n1|n1|n1 n2]; cbn [repfault_ok] in Hf.
    - (* the group fails at its first number *)
      apply seqs_fail.
      eapply evals_node_fail; [slk|apply (pre_premise GS full ssw_c WSs ssw_comment_ok); repeat split|].
      unfold pre_pos. cbn [andb ncallpre].
      eapply impls_wrap; [reflexivity|reflexivity|].
      eapply evals_node_fail; [slk|cbn; reflexivity|].
      eapply impls_and_fail; [reflexivity|reflexivity|].
      apply (sw_number_fail full false). cbn beta iota. rewrite (std_pre_blanks WSs _ _ Hb2). exact Hf.
    - destruct Hf as ((Hn0 & Hns) & Hj1 & Hj2). unfold num_text. norm_text.
      apply seqs_fail.
      eapply evals_node_fail; [slk|apply (pre_premise GS full ssw_c WSs ssw_comment_ok); repeat split|].
      unfold pre_pos. cbn [andb ncallpre]. rewrite sspre_blanks_stop by (try exact Hb2; apply sdigit_stop; exact Hn0).
      eapply impls_wrap; [reflexivity|reflexivity|].
      eapply evals_node_fail; [slk|cbn; reflexivity|].
      eapply impls_and; [reflexivity|reflexivity| |].
      + eapply (sw_number full false _ (n_d0 n1) (n_ds n1)); [reflexivity|exact Hn0|exact Hns|].
        apply snohead_blanks; [vm_compute; reflexivity|exact Hb3|exact Hj1].
      + apply seqs_fail. eapply (sw_slit_fail full 193 194 44%N []); [slk|slk|].
        rewrite (std_pre_blanks WSs _ _ Hb3). exact Hj2.
    - destruct Hf as ((Hn0 & Hns) & Hj). unfold num_text. norm_text.
      apply seqs_fail.
      eapply evals_node_fail; [slk|apply (pre_premise GS full ssw_c WSs ssw_comment_ok); repeat split|].
      unfold pre_pos. cbn [andb ncallpre]. rewrite sspre_blanks_stop by (try exact Hb2; apply sdigit_stop; exact Hn0).
      eapply impls_wrap; [reflexivity|reflexivity|].
      eapply evals_node_fail; [slk|cbn; reflexivity|].
      eapply impls_and; [reflexivity|reflexivity| |].
      + eapply (sw_number full false _ (n_d0 n1) (n_ds n1)); [reflexivity|exact Hn0|exact Hns|].
        apply snohead_blanks; [vm_compute; reflexivity|exact Hb3|reflexivity].
      + comma full 193 194 Hb3.
        apply seqs_fail. apply (sw_number_fail full true). cbn beta iota. rewrite (std_pre_blanks WSs _ _ Hb4). exact Hj.
    - destruct Hf as ((Hn0 & Hns) & (Hm0 & Hms) & Hj1 & Hj2). unfold num_text. norm_text.
      eapply seqs_cons.
      { eapply evals_eq.
        - eapply evals_node_ok; [slk|apply (pre_premise GS full ssw_c WSs ssw_comment_ok); repeat split|].
          unfold pre_pos. cbn [andb ncallpre]. rewrite sspre_blanks_stop by (try exact Hb2; apply sdigit_stop; exact Hn0).
          eapply impls_wrap; [reflexivity|reflexivity|].
          eapply evals_node_ok; [slk|cbn; reflexivity|].
          eapply impls_and; [reflexivity|reflexivity| |].
          + eapply (sw_number full false _ (n_d0 n1) (n_ds n1)); [reflexivity|exact Hn0|exact Hns|].
            apply snohead_blanks; [vm_compute; reflexivity|exact Hb3|reflexivity].
          + comma full 193 194 Hb3.
            eapply seqs_cons; [|apply seqs_nil].
            eapply (sw_number full true _ (n_d0 n2) (n_ds n2)); [|exact Hm0|exact Hms|].
            * apply sspre_blanks_stop; [exact Hb4|apply sdigit_stop; exact Hm0].
            * apply snohead_blanks; [vm_compute; reflexivity|exact Hb5|exact Hj1].
        - reflexivity. }
      apply seqs_fail. eapply (sw_slit_fail full 195 196 93%N []); [slk|slk|].
      rewrite (std_pre_blanks WSs _ _ Hb5). exact Hj2. }
  kwf full 197 198. kwf full 209 210. kwf full 223 224.
  apply firsts_nil.
Qed.

Theorem reject_reporter_arguments f y junk pls b :
  repfault_ok f junk -> rep_layout_ok y -> Forall ssw_blank_line pls -> blanks WSs b ->
  no_tab (concat pls ++ b ++ repfault_text f y junk) ->
  exists f0, forall fu, f0 <= fu -> parse_seesaw_fuel fu (concat pls ++ b ++ repfault_text f y junk) = err eParse.
Proof.
  intros Hf Hy Hp Hb Hnt. apply ssw_document_reject; try assumption.
  - unfold repfault_text, kw_reporter. cbn. repeat split; reflexivity.
  - intros full b' Hb'. apply reporter_fault_refused; assumption.
Qed.

(* non-vacuity *)
Example reject_examples :
  parse_seesaw (badconc_text (mkWire (mkNum 51%N [49%N]) NFf [] [] [] [32%N] []) (mkCcLayout [] [] [] [32%N] [])
                  [45; 49; 42; 99; 93; 10]%N) = err eParse /\
  parse_seesaw (repfault_text (RThirdArg (mkNum 49%N []) (mkNum 50%N [])) (mkRepLayout [] [] [] [32%N] [])
                  [44; 32; 51; 93; 10]%N) = err eParse /\
  repfault_ok (RThirdArg (mkNum 49%N []) (mkNum 50%N [])) [44; 32; 51; 93; 10]%N.
Proof. repeat split; vm_compute; reflexivity. Qed.
