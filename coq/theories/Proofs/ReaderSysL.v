(* Reader model, C14: the assembled statement.
   A parsed document whose statements form a consistent system (Model/ReaderConsistent.v: consistentb)
   is read without error, every statement has built exactly its objects, and the result dictionary
   holds nothing else. *)
From Coq Require Import String List NArith ZArith Bool Arith Lia Permutation.
From DSD Require Import Base.Str Base.Errors Base.Val Model.ComplexUtils Model.RegStr Model.ReaderStr Model.PyNum
  Model.Peg Model.Kernel Model.DispatchKernel Model.Heap Model.Registry Model.Reader Model.ReaderShape Model.ReaderConsistent
  Model.DispatchReader
  Proofs.RegHeap Proofs.RegInv Proofs.RegCalls Proofs.RegExt Proofs.ReaderBasic Proofs.ReaderStmt Proofs.ReaderHeap
  Proofs.ReaderInv Proofs.ReaderHoare Proofs.ReaderNoFault Proofs.ReaderThms Proofs.ReaderBuilds Proofs.ReaderKernel
  Proofs.ReaderMore Proofs.ReaderSys Proofs.ReaderSysA Proofs.ReaderSysB Proofs.ReaderSysC Proofs.ReaderSysD
  Proofs.ReaderSysE Proofs.ReaderSysF Proofs.ReaderSysS Proofs.ReaderSysX Proofs.ReaderSysY Proofs.ReaderSysG Proofs.ReaderSysH Proofs.ReaderSysI Proofs.ReaderSysJ
  Proofs.ReaderSysK.
From DSDGen Require Import ReaderConsts.
Import ListNotations.

Lemma decode_all_spec lines ls ss :
  decode_all lines = Some (ls, ss) -> lines = map TList ls /\ Forall2 (fun l s => decode l = Ok s) ls ss.
Proof.
  revert ls ss. induction lines as [|t lines IH]; intros ls ss H; cbn in H.
  - injection H as <- <-. split; [reflexivity | constructor].
  - destruct t as [x|l]; [discriminate|]. destruct (decode l) as [s|k] eqn:E; [|discriminate].
    destruct (decode_all lines) as [[ls' ss']|]; [|discriminate]. injection H as <- <-.
    destruct (IH ls' ss' eq_refl) as [-> F]. split; [reflexivity | constructor; assumption].
Qed.

Section Final.
  Variable ct : ctable.
  Variables cd cs cc cm cr : nat.
  Hypothesis CO : cfg_okb ct cd cs cc cm cr = true.
  (* the five classes are the library classes, or user classes whose __init__ does not raise *)
  Hypothesis PL : forall c, In c [cd; cs; cc; cm; cr] -> exists ci, nth_error ct c = Some ci /\ c_fail ci = FNone.
  Notation G := (g cd cs cc cm cr).
  Notation Reads := (Reads cd cs cc cm cr).
  Notation Built := (Built cd cs cc cm cr).

  (* C14, assembled: never refused, and every field of the result is what the system says *)
  Theorem reader_builds lines ls ss :
    decode_all lines = Some (ls, ss) -> consistentb ss = true ->
    exists r out, read_pil ct G None lines (rinit (init ct 0)) = (r, Ok out) /\ Reads ls ss r out.
  Proof.
    intros Hd Hc. destruct (decode_all_spec lines ls ss Hd) as [-> F].
    apply (consistent_system_never_refused ct cd cs cc cm cr CO PL ls ss F). apply consistentb_sound. exact Hc.
  Qed.

  (* the dictionaries hold exactly the declared names *)
  Theorem reads_keys_exact ls ss r out k n :
    Reads ls ss r out -> k <> KindR -> (In n (map fst (dict_of k out)) <-> In n (declared k ss)).
  Proof.
    intros R Hk. split; [apply (rd_keys _ _ _ _ _ _ _ _ _ R)|]. intros Hn.
    pose proof (rd_built _ _ _ _ _ _ _ _ _ R) as B. destruct k; cbn [declared dict_of] in *; try congruence.
    - apply in_flat_map in Hn. destruct Hn as [[x l] [Hx Hn]]. cbn [fst] in Hn.
      apply decl_doms_in in Hx. destruct Hx as [Hx|[sq [chk [Hx _]]]].
      + destruct (B _ Hx) as [i [j [H1 [H2 _]]]].
        destruct Hn as [<-|[<-|[]]]; eapply dlookup_in_keys; eauto.
      + destruct (B _ Hx) as [i [j [sq' [H1 [H2 _]]]]].
        destruct Hn as [<-|[<-|[]]]; eapply dlookup_in_keys; eauto.
    - apply in_map_iff in Hn. destruct Hn as [[n' [names sst]] [<- Hn]].
      destruct (rd_cplx _ _ _ _ _ _ _ _ _ R n' names sst Hn) as [conc [i [es [cdict [cn [e [H1 _]]]]]]].
      eapply dlookup_in_keys; eauto.
    - apply in_map_iff in Hn. destruct Hn as [[n' ds] [<- Hn]]. apply decl_strands_in in Hn.
      destruct (B _ Hn) as [i [ids [H1 _]]]. eapply dlookup_in_keys; eauto.
    - apply in_map_iff in Hn. destruct Hn as [[n' xs] [<- Hn]]. apply decl_macs_in in Hn.
      destruct (B _ Hn) as [i [mks [rep [H1 _]]]]. eapply dlookup_in_keys; eauto.
  Qed.

  (* the order of the statements does not matter beyond being declaration-respecting: whatever consistent
     order a system is written in, every one of its statements has built its objects *)
  Theorem reader_builds_any_order lines ls ss sys :
    Permutation sys ss -> decode_all lines = Some (ls, ss) -> consistentb ss = true ->
    exists r out, read_pil ct G None lines (rinit (init ct 0)) = (r, Ok out) /\
      (forall s, In s sys -> Built r out s) /\
      (forall k n, k <> KindR -> (In n (map fst (dict_of k out)) <-> exists s, In s sys /\ In n (declared k [s]))).
  Proof.
    intros P Hd Hc. destruct (reader_builds lines ls ss Hd Hc) as [r [out [E R]]]. exists r, out. split; [exact E|].
    split.
    - intros s Hs. apply (rd_built _ _ _ _ _ _ _ _ _ R). eapply Permutation_in; eauto.
    - intros k n Hk. rewrite (reads_keys_exact ls ss r out k n R Hk). split.
      + intros Hn. assert (Hx : exists s, In s ss /\ In n (declared k [s])).
        { clear -Hn. induction ss as [|s ss IH]; [destruct k; destruct Hn|].
          change (s :: ss) with ([s] ++ ss) in Hn. apply declared_app in Hn. destruct Hn as [Hn|Hn].
          - exists s. split; [left; reflexivity | exact Hn].
          - destruct (IH Hn) as [s' [H1 H2]]. exists s'. split; [right; exact H1 | exact H2]. }
        destruct Hx as [s [H1 H2]]. exists s. split; [apply Permutation_sym in P; eapply Permutation_in; eauto | exact H2].
      + intros [s [H1 H2]]. assert (Hs : In s ss) by (eapply Permutation_in; eauto).
        clear -Hs H2. induction ss as [|s' ss IH]; [destruct Hs|].
        change (s' :: ss) with ([s'] ++ ss). apply declared_app. destruct Hs as [->|Hs]; [left; exact H2 | right; apply IH; exact Hs].
  Qed.
End Final.

(* ---- the library's own classes ---- *)
Lemma base_plain : forall c, In c [0; 2; 1; 3; 4] -> exists ci, nth_error base_ctable c = Some ci /\ c_fail ci = FNone.
Proof.
  intros c [<-|[<-|[<-|[<-|[<-|[]]]]]]; eexists; split; reflexivity.
Qed.

Theorem reader_builds_base lines ls ss :
  decode_all lines = Some (ls, ss) -> consistentb ss = true ->
  exists r out, read_pil base_ctable base_g None lines (rinit (init base_ctable 0)) = (r, Ok out) /\
    Reads 0 2 1 3 4 ls ss r out.
Proof. apply (reader_builds base_ctable 0 2 1 3 4 base_cfg_ok base_plain). Qed.

(* what the op "reader_consistent" answers is the hypothesis of reader_builds_base *)
Theorem reader_consistent_accepts text :
  reader_consistent text = VBool true ->
  exists lines r out, parse_lines text = Ok lines /\
    read_pil base_ctable base_g None lines (rinit (init base_ctable 0)) = (r, Ok out).
Proof.
  unfold reader_consistent. destruct (parse_lines text) as [lines|k]; [|discriminate].
  destruct (decode_all lines) as [[ls ss]|] eqn:Ed; [|discriminate]. intros H. injection H as Hc.
  destruct (reader_builds_base lines ls ss Ed Hc) as [r [out [E _]]]. exists lines, r, out. split; [reflexivity | exact E].
Qed.

(* ---- the hypotheses are met by a document with every kind of statement ---- *)
Local Open Scope string_scope.
Definition nl : pstr := [10%N].
Definition doc (l : list string) : pstr := flat_map (fun x => (str x ++ nl)%list) l.

Definition ex_sys : pstr :=
  doc ["length a = 5"; "sequence b = ACGT"; "strand s = a b*"; "X = a( b + ) b* @i 5 nM"; "Y = a b";
       "structure Z = s + s : .(+.)"; "W = s( a + ) b";
       "state X = [X, Y]"; "state Y = [Y]"; "reaction [condensed = 5 /s] X -> Y + Y";
       "reaction [bind21 = 100 /M/s] X + Y -> X"; "reaction X -> X"].

Example ex_sys_consistent : reader_consistent ex_sys = VBool true.
Proof. vm_compute. reflexivity. Qed.
