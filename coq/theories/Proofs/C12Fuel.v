(* C12: the kernel round trip for c12_chain itself, i.e. with the parser's default
   fuel: the PEG development shows that the default fuel is never exhausted
   (C13Fuel.pil_parse_string_no_fuel), and more fuel does not change a result
   (C13Doc.parse_fuel_irrelevant). *)
From Coq Require Import String List NArith Bool Arith Lia.
From DSD Require Import Base.Str Base.Errors Base.Val Model.Peg Model.DispatchPeg
  Proofs.C13Doc Proofs.C13Fuel Proofs.C13Kc.
From DSDGen Require Import PilGrammar.
From DSD Require Import Model.ComplexUtils Model.Loops Model.Compare Model.Views Model.Kernel
  Model.DispatchKernel Proofs.C06 Proofs.RotTree Proofs.RotOnce Proofs.C12 Proofs.C12Tree.
Import ListNotations.

(* the default fuel is not exhausted; more fuel gives the same parse result *)
Lemma default_no_fuel x : parse_string_fuel pil_grammar (default_fuel pil_grammar x) x <> PFuel.
Proof. exact (pil_parse_string_no_fuel x). Qed.

Lemma more_fuel x n : default_fuel pil_grammar x <= n ->
  parse_string_fuel pil_grammar n x = parse_string_fuel pil_grammar (default_fuel pil_grammar x) x.
Proof. intros H. apply parse_fuel_irrelevant; [apply default_no_fuel|exact H]. Qed.

Lemma c12_chain_with_more_fuel fuel seq sst :
  (forall x, default_fuel pil_grammar x <= fuel x) ->
  c12_chain_with fuel seq sst = c12_chain_with (default_fuel pil_grammar) seq sst.
Proof.
  intros Hf. unfold c12_chain_with.
  destruct (kernel_string seq sst) as [ks|e]; [|reflexivity].
  rewrite (more_fuel _ _ (Hf _)). reflexivity.
Qed.

(* any fuel at least the default one gives the result of c12_chain *)
Lemma c12_chain_more_fuel fuel seq sst :
  (forall x, default_fuel pil_grammar x <= fuel x) -> c12_chain_with fuel seq sst = c12_chain seq sst.
Proof. intros Hf. rewrite (c12_chain_with_more_fuel fuel seq sst Hf). symmetry. apply c12_chain_is_default. Qed.

(* kernel_roundtrip_default_fuel_full, proved *)
Theorem kernel_roundtrip seq sst :
  seq <> [] -> aligned seq sst -> wf sst ->
  Forall (fun x => x = sPlus \/ idname x = true) seq ->
  nonempty_strands sPlus seq true = true ->
  is_domainlevel_complement seq sst = Ok true ->
  exists ks pattern,
    kernel_string seq sst = Ok ks /\
    c12_chain seq sst =
    VList [VStr ks; VList (map val_of_tok pattern); of_ss (seq, sst); VStr tag_kc; VStr [88%N]; of_nat 0].
Proof.
  intros H1 H2 H3 H4 H5 H6.
  destruct (kernel_roundtrip_model seq sst H1 H2 H3 H4 H5 H6) as (ks & pattern & f0 & Hk & Hf).
  exists ks, pattern. split; [exact Hk|].
  rewrite <- (c12_chain_more_fuel (fun x => Nat.max f0 (default_fuel pil_grammar x)) seq sst)
    by (intros x; apply Nat.le_max_r).
  apply Hf. intros x. apply Nat.le_max_l.
Qed.

Theorem kernel_roundtrip_default_fuel : kernel_roundtrip_default_fuel_full.
Proof.
  intros seq sst H1 H2 H3 H4 H5 H6.
  destruct (kernel_roundtrip seq sst H1 H2 H3 H4 H5 H6) as (ks & pattern & _ & H). eauto.
Qed.

(* on trees *)
Theorem kernel_roundtrip_tree_default t :
  t <> KNil -> ids_ok t = true ->
  c12_chain (fst (flatten t)) (snd (flatten t)) =
  VList [ VStr (join_names [32%N] (tree_texts t));
          VList (map val_of_tok (items_toks (items_of t)));
          of_ss (flatten t); VStr tag_kc; VStr [88%N]; of_nat 0 ].
Proof.
  intros Hn Hi. destruct (kernel_roundtrip_tree t Hn Hi) as [f0 Hf].
  rewrite <- (c12_chain_more_fuel (fun x => Nat.max f0 (default_fuel pil_grammar x)))
    by (intros x; apply Nat.le_max_r).
  apply Hf. intros x. apply Nat.le_max_l.
Qed.
