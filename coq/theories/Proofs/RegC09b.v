(* C09 object level, continued: histories with split keep the invariants; the recorded
   finding (second split() refused although every component is live) in the model. *)
From Coq Require Import List NArith ZArith Bool Arith Lia.
From DSD Require Import Base.Str Base.Errors Model.ComplexUtils Model.Rotation
  Proofs.RotTree Proofs.RotOnce Proofs.RotOrbit Proofs.RotStrands Proofs.RotGen.
From DSD Require Import Model.RegStr Model.Heap Model.Registry Model.RegSplit
  Proofs.RegHeap Proofs.RegInv Proofs.RegCalls Proofs.RegExt Proofs.RegC04 Proofs.RegStep Proofs.RegC02
  Proofs.RegC09 Proofs.RegExamples.
Import ListNotations.

(* the full invariant of histories with split *)
Record XGood (ct : ctable) (st : state) : Prop := mkXGood {
  xg_good : Good ct st;
  xg_rok : ROK st
}.

Definition xguard (ct : ctable) (st : state) (o : xop) : Prop :=
  match o with
  | XBase b => cplx_guard st b
  | XSplit dst src =>
      match get_root st src with
      | Some i => match hget (heap st) i with
                  | Some ob => match o_data ob with
                               | DCplx _ _ _ => exists ci parts, SplitReady ct st src i ob ci parts
                               | _ => True
                               end
                  | None => True
                  end
      | None => True
      end
  end.

Theorem xgood_step ct st o : XGood ct st -> xguard ct st o -> XGood ct (fst (xstep ct st o)).
Proof.
  intros [G R] Gd. destruct o as [b|dst src]; cbn [xstep].
  - pose proof Gd as G2. pose proof (good_step ct st b G) as G'. pose proof (rok_step ct st b (g_inv _ _ G) R G2) as R'.
    destruct (step ct st b) as [s r]. cbn [fst] in *. constructor; assumption.
  - cbn [xguard] in Gd. destruct (get_root st src) as [i|] eqn:Er; [|unfold split_op; rewrite Er; constructor; assumption].
    destruct (hget (heap st) i) as [ob|] eqn:Eo; [|unfold split_op; rewrite Er, Eo; constructor; assumption].
    destruct (o_data ob) eqn:Ed; try (unfold split_op; rewrite Er, Eo, Ed; constructor; assumption).
    destruct Gd as [ci [parts SR]].
    destruct (split_op_sound ct st dst src i ob ci parts (g_inv _ _ G) R (g_dok _ _ G) SR) as [I' [R' [D' [C' _]]]].
    constructor; [constructor|]; assumption.
Qed.

Fixpoint xguarded (ct : ctable) (st : state) (ops : list xop) : Prop :=
  match ops with
  | [] => True
  | o :: r => xguard ct st o /\ xguarded ct (fst (xstep ct st o)) r
  end.

Theorem xgood_run ct st ops : XGood ct st -> xguarded ct st ops -> XGood ct (xrun ct st ops).
Proof.
  revert st. induction ops as [|o r IH]; intros st G Gd; cbn; [exact G|]. destruct Gd as [G1 G2].
  apply IH; [apply xgood_step; assumption | exact G2].
Qed.

Theorem xgood_init ct n : XGood ct (init ct n).
Proof. constructor; [apply good_init | apply rok_init]. Qed.

(* ---- the recorded finding in the model ---- *)
Definition nB : pstr := [98%N].
Definition c2 : pstr := [99%N; 50%N].
Definition c3 : pstr := [99%N; 51%N].

(* a(7), b(7), a*; x = [a* a] "()" named c3; c = [a* a + a* a b] "()+..." named c2 *)
Definition hist_split : list xop :=
  [ XBase (ODomain 0 0 (Some nA) (Some 7%Z) None None);
    XBase (ODomain 1 0 (Some nB) (Some 7%Z) None None);
    XBase (OComplement 2 0);
    XBase (OComplex 4 1 (Some [USlot 2; USlot 0]) (Some [cO; cC]) (Some c3) None);
    XBase (OComplex 5 1 (Some [USlot 2; USlot 0; UPlus; USlot 2; USlot 0; USlot 1]) (Some [cO; cC; cP; cD; cD; cD]) (Some c2) None) ].

Example ex_split_finding :
  let st := xrun ctZ (init ctZ 9) hist_split in
  (* the first split(): the live x and a new complex c1 *)
  snd (xstep ctZ st (XSplit 7 5)) = Yielded [3; 5] /\
  let st1 := xrun ctZ st [XSplit 7 5; XBase (ODrop 7); XBase (ODrop 8)] in
  (* the second: c1 is gone, the counter stands at 2, the name c2 belongs to c itself *)
  class_id ctZ st1 1 = Some 2%Z /\
  snd (xstep ctZ st1 (XSplit 7 5)) = XOut (Raised eSingleton None) /\
  (* although both components could be served: x is live and owns the first, the second is free *)
  klookup (KCplx ([[97%N; 42%N]; nA], [cO; cC])) (cs_canon (cget st1 1)) = Some 3 /\
  nlookup c2 (cs_names (cget st1 1)) = Some 4.
Proof. vm_compute. repeat split; reflexivity. Qed.

(* the hypotheses of split_op_sound are satisfiable: the state of the finding is ready for split *)
Lemma good_concrete x : aligned (fst x) (snd x) -> wf (snd x) -> NE (fst x) -> goodNE x.
Proof. intros A W N. split; [split|]; assumption. Qed.

Example ex_split_ready :
  let st := xrun ctZ (init ctZ 9) hist_split in
  exists ob ci parts, SplitReady ctZ st 5 4 ob ci parts /\ length parts = 2.
Proof.
  cbn zeta. eexists. eexists. eexists. split.
  - constructor.
    + vm_compute. reflexivity.
    + vm_compute. reflexivity.
    + constructor; vm_compute; reflexivity.
    + eexists. vm_compute. reflexivity.
    + eexists. eexists. eexists. eexists. split; [vm_compute; reflexivity|]. split; vm_compute; reflexivity.
    + constructor; [|constructor; [|constructor]].
      * eexists. split; [vm_compute; reflexivity|]. split.
        -- apply good_concrete; [vm_compute; reflexivity | vm_compute; reflexivity |].
           unfold NE. vm_compute. repeat constructor; discriminate.
        -- intros x Hx. vm_compute in Hx. vm_compute. tauto.
      * eexists. split; [vm_compute; reflexivity|]. split.
        -- apply good_concrete; [vm_compute; reflexivity | vm_compute; reflexivity |].
           unfold NE. vm_compute. repeat constructor; discriminate.
        -- intros x Hx. vm_compute in Hx. vm_compute. tauto.
  - reflexivity.
Qed.

(* full statement not proved here: the guard of split_op_sound follows from the invariant, i.e. the
   components computed by split_complex_pt from a live (well-formed, connected or not) complex are
   themselves well-formed, aligned and have non-empty strands (proved parts: split_components /
   split_db_spec of Proofs/SplitComp.v for the name level; ex_split_ready for a concrete instance) *)
Definition split_parts_good_full : Prop :=
  forall ct st src i ob es ss t ptab parts,
    Inv ct st -> ROK st -> get_root st src = Some i -> live_obj (heap st) i ob -> o_data ob = DCplx es ss t ->
    make_pair_table cP [cD] ss = Ok ptab ->
    split_complex_pt (S (length ptab)) (elem_strands es) ptab = Ok parts ->
    GoodParts (o_children ob) parts.
