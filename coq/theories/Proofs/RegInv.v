(* Registry machine, layer 2: the invariants RegOK (registries consistent with the
   heap) and HeapOK (roots and children of live objects are live, children are older),
   and their preservation by the primitive transitions. *)
From Coq Require Import List NArith ZArith Bool Arith Lia.
From DSD Require Import Base.Str Base.Errors Model.ComplexUtils Model.RegStr Model.Heap Model.Registry
  Proofs.RegHeap.
Import ListNotations.

(* ------------------------------------------------------------------ *)
(* upd / class states                                                   *)

Lemma upd_len {A} n (v : A) l : length (upd n v l) = length l.
Proof. revert n; induction l as [|x r IH]; intros [|n]; cbn; auto. Qed.

Lemma nth_upd_same {A} n (v d : A) l : n < length l -> nth n (upd n v l) d = v.
Proof. revert n; induction l as [|x r IH]; intros [|n]; cbn; try lia; auto. intros H. apply IH. lia. Qed.

Lemma nth_upd_other {A} n m (v d : A) l : n <> m -> nth m (upd n v l) d = nth m l d.
Proof.
  revert n m; induction l as [|x r IH]; intros [|n] [|m]; cbn; try congruence; auto.
Qed.

Lemma nth_error_upd {A} n m (v : A) l :
  nth_error (upd n v l) m = if Nat.eqb n m then (if m <? length l then Some v else None) else nth_error l m.
Proof.
  revert n m; induction l as [|x r IH]; intros n m.
  - assert (E : upd n v (@nil A) = []) by (destruct n; reflexivity). rewrite E.
    cbn. destruct (Nat.eqb n m); [|reflexivity]. destruct m; reflexivity.
  - destruct n as [|n], m as [|m]; cbn; auto.
    rewrite IH. destruct (Nat.eqb n m); [|reflexivity].
    change (S m <? S (length r)) with (m <? length r). reflexivity.
Qed.

Lemma cget_cput_same st c cs : c < length (classes st) -> cget (cput st c cs) c = cs.
Proof. intros H. unfold cget, cput. cbn. apply nth_upd_same. exact H. Qed.

Lemma cget_cput_other st c c' cs : c <> c' -> cget (cput st c cs) c' = cget st c'.
Proof. intros H. unfold cget, cput. cbn. apply nth_upd_other. exact H. Qed.

Lemma cput_classes_len st c cs : length (classes (cput st c cs)) = length (classes st).
Proof. unfold cput. cbn. apply upd_len. Qed.

(* ------------------------------------------------------------------ *)
(* invariants                                                           *)

Definition live_obj (h : list obj) (i : nat) (o : obj) : Prop := hget h i = Some o /\ o_live o = true.

Lemma live_obj_is_live h i o : live_obj h i o -> is_live h i = true.
Proof. intros [H1 H2]. unfold is_live. rewrite H1. exact H2. Qed.

Lemma is_live_obj h i : is_live h i = true -> exists o, live_obj h i o.
Proof. unfold is_live. destruct (hget h i) as [o|] eqn:E; [|discriminate]. intros H. exists o. split; auto. Qed.

Record ClassOK (h : list obj) (c : nat) (cs : cstate) : Prop := mkClassOK {
  ok_nn : NoDup (map fst (cs_names cs));
  ok_cn : NoDup (map fst (cs_canon cs));
  ok_nv : forall n i, In (n, i) (cs_names cs) ->
          exists o, live_obj h i o /\ o_cls o = c /\ o_name o = n;
  ok_cv : forall k i, In (k, i) (cs_canon cs) ->
          exists o, live_obj h i o /\ o_cls o = c /\ In k (o_keys o)
}.

Definition Registered (st : state) (i : nat) (o : obj) : Prop :=
  nlookup (o_name o) (cs_names (cget st (o_cls o))) = Some i /\
  klookup (o_key o) (cs_canon (cget st (o_cls o))) = Some i.

(* coherence of the fields of one object: a domain's canonical form is (name, length)
   and it is its only key *)
Definition ObjOK (o : obj) : Prop :=
  match o_data o with
  | DDom l => o_key o = KDom (o_name o) l /\ o_keys o = [o_key o]
  | _ => True
  end.

Record RegOK (ct : ctable) (st : state) : Prop := mkRegOK {
  ok_len : length (classes st) = length ct;
  ok_cls : forall c, c < length ct -> ClassOK (heap st) c (cget st c);
  ok_obj : forall i o, live_obj (heap st) i o ->
           o_cls o < length ct /\ Registered st i o /\ (In (o_key o) (o_keys o) /\ ObjOK o)
}.

Record HeapOK (st : state) : Prop := mkHeapOK {
  hk_roots : forall s i, nth_error (roots st) s = Some (Some i) -> is_live (heap st) i = true;
  hk_older : children_older (heap st);
  hk_child : forall i o, live_obj (heap st) i o ->
             forall c, In c (o_children o) -> is_live (heap st) c = true
}.

Definition Inv (ct : ctable) (st : state) : Prop := RegOK ct st /\ HeapOK st.

(* every live object is reachable from the roots: the state right after a collect *)
Definition Collected (st : state) : Prop :=
  forall i, is_live (heap st) i = true -> Reach (heap st) (root_ids (roots st)) i.

(* ------------------------------------------------------------------ *)
(* init                                                                 *)

Lemma nth_error_repeat_none {A} (n s : nat) (x : A) : nth_error (repeat (@None A) n) s = Some (Some x) -> False.
Proof. revert s; induction n as [|n IH]; intros [|s]; cbn; try discriminate. apply IH. Qed.

Lemma cget_init ct n c : c < length ct -> exists ci, nth_error ct c = Some ci /\ cget (init ct n) c = mkCstate [] [] (c_id0 ci).
Proof.
  intros H. unfold cget, init. cbn.
  destruct (nth_error ct c) as [ci|] eqn:E; [|apply nth_error_None in E; lia].
  exists ci. split; [reflexivity|].
  rewrite (nth_indep _ _ (mkCstate [] [] (c_id0 ci))) by (rewrite map_length; exact H).
  rewrite (map_nth (fun ci => mkCstate [] [] (c_id0 ci))).
  f_equal. f_equal. apply nth_error_nth. exact E.
Qed.

Theorem inv_init ct n : Inv ct (init ct n).
Proof.
  split.
  - constructor.
    + unfold init; cbn. apply map_length.
    + intros c Hc. destruct (cget_init ct n c Hc) as [ci [_ ->]].
      constructor; cbn; try constructor; intros ? ? [].
    + intros i o [H _]. cbn in H. discriminate.
  - constructor.
    + intros s i H. cbn in H. exfalso. eapply nth_error_repeat_none; eauto.
    + intros i o H. cbn in H. discriminate.
    + intros i o [H _]. cbn in H. discriminate.
Qed.

Lemma collected_init ct n : Collected (init ct n).
Proof. intros i H. unfold is_live in H. cbn in H. discriminate. Qed.

(* ------------------------------------------------------------------ *)
(* collect                                                              *)

Lemma root_ids_in rs i : In i (root_ids rs) <-> exists s, nth_error rs s = Some (Some i).
Proof.
  induction rs as [|[x|] r IH]; cbn.
  - split; [tauto | intros [[|s] H]; discriminate].
  - rewrite IH. split.
    + intros [->|[s H]]; [exists 0; reflexivity | exists (S s); exact H].
    + intros [[|s] H]; cbn in H; [injection H as ->; left; reflexivity | right; exists s; exact H].
  - rewrite IH. split.
    + intros [s H]. exists (S s). exact H.
    + intros [[|s] H]; cbn in H; [discriminate | exists s; exact H].
Qed.

Lemma cget_collect st c :
  cget (collect st) c = purge_class (sweep (heap st) (root_ids (roots st))) (cget st c).
Proof.
  unfold cget, collect. cbn.
  set (h' := sweep (heap st) (root_ids (roots st))).
  change (mkCstate [] [] None) with (purge_class h' (mkCstate [] [] None)) at 1.
  apply map_nth.
Qed.

Lemma heap_collect st : heap (collect st) = sweep (heap st) (root_ids (roots st)).
Proof. reflexivity. Qed.

Lemma live_obj_sweep h need i o :
  live_obj (sweep h need) i o -> live_obj h i o /\ kept h need i = true.
Proof.
  intros [H1 H2]. rewrite hget_sweep in H1.
  destruct (hget h i) as [x|] eqn:E; [|discriminate]. cbn in H1.
  destruct (kept h need i) eqn:K.
  - injection H1 as ->. split; [split; auto | reflexivity].
  - injection H1 as <-. cbn in H2. discriminate.
Qed.

Lemma live_obj_sweep_kept h need i o :
  live_obj h i o -> kept h need i = true -> live_obj (sweep h need) i o.
Proof.
  intros [H1 H2] K. split; [|exact H2]. rewrite hget_sweep, H1. cbn. rewrite K. reflexivity.
Qed.

(* registration is needed only of the objects that survive the collection *)
Theorem inv_collect_gen ct st :
  length (classes st) = length ct ->
  (forall c, c < length ct -> ClassOK (heap st) c (cget st c)) ->
  (forall i o, live_obj (heap st) i o -> kept (heap st) (root_ids (roots st)) i = true ->
      o_cls o < length ct /\ Registered st i o /\ (In (o_key o) (o_keys o) /\ ObjOK o)) ->
  HeapOK st -> Inv ct (collect st).
Proof.
  intros RL RC RO H. set (need := root_ids (roots st)). set (h' := sweep (heap st) need).
  assert (CO : children_older (heap st)) by apply (hk_older _ H).
  split.
  - constructor.
    + unfold collect. cbn. rewrite map_length. exact RL.
    + intros c Hc. rewrite cget_collect. fold need. fold h'.
      pose proof (RC c Hc) as K. constructor; cbn.
      * apply nodup_map_filter. apply (ok_nn _ _ _ K).
      * apply nodup_map_filter. apply (ok_cn _ _ _ K).
      * intros n i Hin. apply filter_In in Hin. destruct Hin as [Hin Hl]. cbn in Hl.
        destruct (ok_nv _ _ _ K n i Hin) as [o [Ho [H1 H2]]]. exists o. split; [|auto].
        apply live_obj_sweep_kept; [exact Ho|]. unfold h' in Hl. rewrite is_live_sweep in Hl. exact Hl.
      * intros k i Hin. apply filter_In in Hin. destruct Hin as [Hin Hl]. cbn in Hl.
        destruct (ok_cv _ _ _ K k i Hin) as [o [Ho [H1 H2]]]. exists o. split; [|auto].
        apply live_obj_sweep_kept; [exact Ho|]. unfold h' in Hl. rewrite is_live_sweep in Hl. exact Hl.
    + intros i o Ho. rewrite heap_collect in Ho. apply live_obj_sweep in Ho. destruct Ho as [Ho K].
      destruct (RO i o Ho K) as [H1 [[H2 H3] H4]]. split; [exact H1|]. split; [|exact H4].
      unfold Registered. rewrite cget_collect. fold need. fold h'. cbn.
      assert (L : is_live h' i = true) by (unfold h'; rewrite is_live_sweep; exact K).
      split.
      * apply (alookup_filter str_eqb str_eqb_iff); [exact H2 | exact L].
      * apply (alookup_filter key_eqb key_eqb_iff); [exact H3 | exact L].
  - constructor.
    + intros s i Hs. rewrite heap_collect. rewrite is_live_sweep. apply kept_iff; [exact CO|].
      split; [apply (hk_roots _ H s i Hs)|]. apply R_seed. apply root_ids_in. exists s. exact Hs.
    + rewrite heap_collect. apply sweep_children_older. exact CO.
    + intros i o Ho c Hc. rewrite heap_collect in *. apply live_obj_sweep in Ho. destruct Ho as [Ho K].
      rewrite is_live_sweep. apply kept_iff; [exact CO|]. apply kept_iff in K; [|exact CO].
      destruct K as [_ K]. split; [apply (hk_child _ H i o Ho c Hc)|].
      destruct Ho as [Ho1 Ho2]. eapply R_child; eauto.
Qed.

Theorem inv_collect ct st : Inv ct st -> Inv ct (collect st).
Proof.
  intros [R H]. apply inv_collect_gen; [apply (ok_len _ _ R) | apply (ok_cls _ _ R) | | exact H].
  intros i o Ho _. apply (ok_obj _ _ R i o Ho).
Qed.

Lemma reach_sweep h need i :
  children_older h -> Reach h need i -> Reach (sweep h need) need i.
Proof.
  intros CO R. induction R as [i Hs | j i o Rj IH Hg Hl Hc].
  - apply R_seed. exact Hs.
  - eapply R_child; [exact IH | | exact Hl | exact Hc].
    rewrite hget_sweep, Hg. cbn.
    assert (K : kept h need j = true).
    { apply kept_iff; [exact CO|]. split; [unfold is_live; rewrite Hg; exact Hl | exact Rj]. }
    rewrite K. reflexivity.
Qed.

Theorem collected_collect st : HeapOK st -> Collected (collect st).
Proof.
  intros H i L. rewrite heap_collect in *. cbn [roots collect].
  rewrite is_live_sweep in L. apply kept_iff in L; [|apply (hk_older _ H)].
  apply reach_sweep; [apply (hk_older _ H) | tauto].
Qed.

(* no_loss: whatever is reachable from a root is live *)
Theorem reach_live st i : HeapOK st -> Reach (heap st) (root_ids (roots st)) i -> is_live (heap st) i = true.
Proof.
  intros H R. induction R as [i Hs | j i o Rj IH Hg Hl Hc].
  - apply root_ids_in in Hs. destruct Hs as [s Hs]. apply (hk_roots _ H s i Hs).
  - apply (hk_child _ H j o); [split; assumption | exact Hc].
Qed.

(* ------------------------------------------------------------------ *)
(* roots, counters                                                      *)

Lemma upd_oob {A} n (v : A) l : length l <= n -> upd n v l = l.
Proof. revert n; induction l as [|x r IH]; intros [|n]; cbn; try lia; auto. intros H. f_equal. apply IH. lia. Qed.

Theorem inv_set_root ct st slot v :
  Inv ct st -> (forall i, v = Some i -> is_live (heap st) i = true) -> Inv ct (set_root st slot v).
Proof.
  intros [R H] Hv. split.
  - destruct R as [R1 R2 R3]. constructor; [exact R1 | exact R2 | exact R3].
  - destruct H as [H1 H2 H3]. constructor; [|exact H2 | exact H3].
    intros s i Hs. unfold set_root in Hs. cbn in Hs. rewrite nth_error_upd in Hs.
    destruct (Nat.eqb slot s).
    + destruct (s <? length (roots st)); [|discriminate]. injection Hs as Hs. apply Hv. exact Hs.
    + apply (H1 s i Hs).
Qed.

(* states that differ only in the counters *)
Definition same_regs (st st' : state) : Prop :=
  heap st' = heap st /\ roots st' = roots st /\ length (classes st') = length (classes st) /\
  forall c, cs_names (cget st' c) = cs_names (cget st c) /\ cs_canon (cget st' c) = cs_canon (cget st c).

Lemma classok_same h c cs cs' :
  cs_names cs' = cs_names cs -> cs_canon cs' = cs_canon cs -> ClassOK h c cs -> ClassOK h c cs'.
Proof. intros E1 E2 [K1 K2 K3 K4]. constructor; rewrite ?E1, ?E2; assumption. Qed.

Theorem inv_same_regs ct st st' : same_regs st st' -> Inv ct st -> Inv ct st'.
Proof.
  intros [Eh [Er [El Ec]]] [R H]. split.
  - constructor.
    + rewrite El. apply (ok_len _ _ R).
    + intros c Hc. rewrite Eh. destruct (Ec c) as [E1 E2].
      apply (classok_same _ _ (cget st c)); [exact E1 | exact E2 | apply (ok_cls _ _ R c Hc)].
    + intros i o Ho. rewrite Eh in Ho. destruct (ok_obj _ _ R i o Ho) as [H1 [[H2 H3] H4]].
      split; [exact H1|]. split; [|exact H4]. unfold Registered. destruct (Ec (o_cls o)) as [E1 E2].
      rewrite E1, E2. split; assumption.
  - destruct H as [H1 H2 H3]. constructor; rewrite ?Eh, ?Er; assumption.
Qed.

Lemma same_regs_set_id st c z : same_regs st (set_id st c z).
Proof.
  unfold set_id. repeat split; try reflexivity.
  - apply cput_classes_len.
  - destruct (Nat.eq_dec c c0) as [<-|D].
    + destruct (Nat.lt_ge_cases c (length (classes st))) as [L|L].
      * rewrite cget_cput_same by exact L. reflexivity.
      * unfold cget, cput. cbn. rewrite upd_oob by exact L. reflexivity.
    + rewrite cget_cput_other by exact D. reflexivity.
  - destruct (Nat.eq_dec c c0) as [<-|D].
    + destruct (Nat.lt_ge_cases c (length (classes st))) as [L|L].
      * rewrite cget_cput_same by exact L. reflexivity.
      * unfold cget, cput. cbn. rewrite upd_oob by exact L. reflexivity.
    + rewrite cget_cput_other by exact D. reflexivity.
Qed.

Lemma same_regs_refl st : same_regs st st.
Proof. repeat split; reflexivity. Qed.

Lemma same_regs_bump ct st c : same_regs st (bump_id ct st c).
Proof. unfold bump_id. destruct (class_id ct st c); [apply same_regs_set_id | apply same_regs_refl]. Qed.

Lemma collected_same_regs st st' : same_regs st st' -> Collected st -> Collected st'.
Proof. intros [Eh [Er _]] C i. rewrite Eh, Er. apply C. Qed.

(* ------------------------------------------------------------------ *)
(* allocation + registration                                            *)

Definition reg_extra (extra : list key) (id : nat) (canon : list (key * nat)) : list (key * nat) :=
  fold_left (fun acc k' => kset k' id acc) extra canon.

Lemma reg_extra_cons k r id canon : reg_extra (k :: r) id canon = reg_extra r id (kset k id canon).
Proof. reflexivity. Qed.

Lemma reg_extra_nodup extra id canon : NoDup (map fst canon) -> NoDup (map fst (reg_extra extra id canon)).
Proof.
  revert canon. induction extra as [|k r IH]; intros canon ND; [exact ND|].
  rewrite reg_extra_cons. apply IH. apply (aset_nodup key_eqb key_eqb_iff). exact ND.
Qed.

Lemma reg_extra_in extra id canon k0 i :
  NoDup (map fst canon) -> In (k0, i) (reg_extra extra id canon) ->
  (In k0 extra /\ i = id) \/ In (k0, i) canon.
Proof.
  revert canon. induction extra as [|k r IH]; intros canon ND H; [right; exact H|].
  rewrite reg_extra_cons in H.
  apply IH in H; [|apply (aset_nodup key_eqb key_eqb_iff); exact ND].
  destruct H as [[H1 H2]|H]; [left; split; [right; exact H1 | exact H2]|].
  apply (aset_in key_eqb key_eqb_iff) in H; [|exact ND].
  destruct H as [[-> ->]|[_ H]]; [left; split; [left|]; reflexivity | right; exact H].
Qed.

Lemma reg_extra_lookup_other extra id canon k0 :
  ~ In k0 extra -> klookup k0 (reg_extra extra id canon) = klookup k0 canon.
Proof.
  revert canon. induction extra as [|k r IH]; intros canon Hn; [reflexivity|].
  rewrite reg_extra_cons.
  rewrite IH by (intros H; apply Hn; right; exact H).
  apply (alookup_aset_other key_eqb key_eqb_iff). intros ->. apply Hn. left. reflexivity.
Qed.

Lemma live_obj_cons o h i x : live_obj h i x -> live_obj (o :: h) i x.
Proof. intros [H1 H2]. split; [apply hget_old_some; exact H1 | exact H2]. Qed.

Lemma live_obj_cons_inv o h i x :
  live_obj (o :: h) i x -> (i = length h /\ x = o) \/ (i < length h /\ live_obj h i x).
Proof.
  intros [H1 H2]. destruct (Nat.eq_dec i (length h)) as [->|D].
  - rewrite hget_new in H1. injection H1 as <-. left. split; reflexivity.
  - rewrite hget_old in H1 by exact D. right. split; [apply hget_lt in H1; exact H1 | split; assumption].
Qed.

Lemma is_live_cons o h i : i < length h -> is_live (o :: h) i = is_live h i.
Proof. intros H. unfold is_live. rewrite hget_old by lia. reflexivity. Qed.

Lemma is_live_lt h i : is_live h i = true -> i < length h.
Proof. unfold is_live. destruct (hget h i) eqn:E; [|discriminate]. intros _. eapply hget_lt; eauto. Qed.

Lemma classok_cons o h c cs : ClassOK h c cs -> ClassOK (o :: h) c cs.
Proof.
  intros [K1 K2 K3 K4]. constructor; [exact K1 | exact K2 | |].
  - intros n i Hin. destruct (K3 n i Hin) as [x [Hx Hr]]. exists x. split; [apply live_obj_cons; exact Hx | exact Hr].
  - intros k i Hin. destruct (K4 k i Hin) as [x [Hx Hr]]. exists x. split; [apply live_obj_cons; exact Hx | exact Hr].
Qed.

Definition Fresh (st : state) (c : nat) (name : pstr) (k : key) (extra : list key) : Prop :=
  nlookup name (cs_names (cget st c)) = None /\
  klookup k (cs_canon (cget st c)) = None /\
  forall k', In k' extra -> klookup k' (cs_canon (cget st c)) = None.

Lemma heapok_alloc st o :
  HeapOK st -> o_live o = true ->
  (forall x, In x (o_children o) -> is_live (heap st) x = true) ->
  forall cls', HeapOK (mkState (o :: heap st) cls' (roots st)).
Proof.
  intros [H1 H2 H3] Hl Hc cls'. constructor; cbn.
  - intros s i Hs. pose proof (H1 s i Hs) as L. rewrite is_live_cons; [exact L | apply is_live_lt; exact L].
  - intros i x Hx c Hin. destruct (Nat.eq_dec i (length (heap st))) as [->|D].
    + rewrite hget_new in Hx. injection Hx as <-. apply is_live_lt. apply Hc. exact Hin.
    + rewrite hget_old in Hx by exact D. apply (H2 i x Hx c Hin).
  - intros i x Hx c Hin. apply live_obj_cons_inv in Hx. destruct Hx as [[-> ->]|[Hi Hx]].
    + pose proof (Hc c Hin) as L. rewrite is_live_cons; [exact L | apply is_live_lt; exact L].
    + pose proof (H3 i x Hx c Hin) as L. rewrite is_live_cons; [exact L | apply is_live_lt; exact L].
Qed.

Theorem inv_alloc_register ct st c name k extra children d :
  Inv ct st -> c < length ct -> Fresh st c name k extra ->
  (forall x, In x children -> is_live (heap st) x = true) ->
  ObjOK (mkObj c name k (k :: extra) true children d) ->
  Inv ct (register (fst (alloc st (mkObj c name k (k :: extra) true children d))) c name k extra (length (heap st))).
Proof.
  intros [R H] Hc [F1 [F2 F3]] Hch HO.
  set (o := mkObj c name k (k :: extra) true children d) in *.
  set (id := length (heap st)).
  pose proof (ok_len _ _ R) as RL.
  pose proof (ok_cls _ _ R c Hc) as K.
  assert (Hcl : c < length (classes st)) by (rewrite RL; exact Hc).
  unfold register, alloc. cbn [fst]. unfold cget at 1 2 3. cbn [classes].
  fold (cget st c).
  set (cs' := mkCstate (nset name id (cs_names (cget st c)))
                       (kset k id (reg_extra extra id (cs_canon (cget st c)))) (cs_id (cget st c))).
  change (fold_left (fun acc k' => kset k' id acc) extra (cs_canon (cget st c)))
    with (reg_extra extra id (cs_canon (cget st c))).
  fold cs'.
  set (st0 := mkState (o :: heap st) (classes st) (roots st)).
  assert (G1 : cget (cput st0 c cs') c = cs') by (apply cget_cput_same; exact Hcl).
  assert (G2 : forall c', c <> c' -> cget (cput st0 c cs') c' = cget st c')
    by (intros c' D; rewrite cget_cput_other by exact D; reflexivity).
  split.
  - constructor.
    + rewrite cput_classes_len. exact RL.
    + intros c' Hc'. cbn [heap cput]. destruct (Nat.eq_dec c c') as [<-|D].
      * rewrite G1. constructor; cbn [cs_names cs_canon cs'].
        -- apply (aset_nodup str_eqb str_eqb_iff). apply (ok_nn _ _ _ K).
        -- apply (aset_nodup key_eqb key_eqb_iff). apply reg_extra_nodup. apply (ok_cn _ _ _ K).
        -- intros n i Hin. apply (aset_in str_eqb str_eqb_iff) in Hin; [|apply (ok_nn _ _ _ K)].
           destruct Hin as [[-> ->]|[_ Hin]].
           ++ exists o. split; [split; [apply hget_new | reflexivity] | split; reflexivity].
           ++ destruct (ok_nv _ _ _ K n i Hin) as [x [Hx Hr]]. exists x.
              split; [apply live_obj_cons; exact Hx | exact Hr].
        -- intros k0 i Hin. apply (aset_in key_eqb key_eqb_iff) in Hin;
             [|apply reg_extra_nodup; apply (ok_cn _ _ _ K)].
           destruct Hin as [[-> ->]|[_ Hin]].
           ++ exists o. split; [split; [apply hget_new | reflexivity] | split; [reflexivity | left; reflexivity]].
           ++ apply reg_extra_in in Hin; [|apply (ok_cn _ _ _ K)]. destruct Hin as [[Hin ->]|Hin].
              ** exists o. split; [split; [apply hget_new | reflexivity] | split; [reflexivity | right; exact Hin]].
              ** destruct (ok_cv _ _ _ K k0 i Hin) as [x [Hx Hr]]. exists x.
                 split; [apply live_obj_cons; exact Hx | exact Hr].
      * rewrite G2 by exact D. apply classok_cons. apply (ok_cls _ _ R c' Hc').
    + intros i x Hx. cbn [heap cput] in Hx. apply live_obj_cons_inv in Hx.
      destruct Hx as [[-> ->]|[Hi Hx]].
      * split; [exact Hc|]. split; [|split; [left; reflexivity | exact HO]]. unfold Registered. cbn [o_cls o_name o_key o].
        rewrite G1. cbn [cs_names cs_canon cs']. split.
        -- apply (alookup_aset_same str_eqb str_eqb_iff).
        -- apply (alookup_aset_same key_eqb key_eqb_iff).
      * destruct (ok_obj _ _ R i x Hx) as [H1 [[H2 H3] H4]]. split; [exact H1|]. split; [|exact H4].
        unfold Registered. destruct (Nat.eq_dec c (o_cls x)) as [E|D].
        -- rewrite <- E in *. rewrite G1. cbn [cs_names cs_canon cs']. split.
           ++ unfold nlookup, nset. rewrite (alookup_aset_other str_eqb str_eqb_iff); [exact H2|].
              intros E'. unfold nlookup in F1, H2. rewrite E' in H2. congruence.
           ++ unfold klookup, kset. rewrite (alookup_aset_other key_eqb key_eqb_iff).
              ** change (alookup key_eqb) with klookup. rewrite reg_extra_lookup_other; [exact H3|].
                 intros Hin. apply F3 in Hin. congruence.
              ** intros E'. unfold klookup in F2, H3. rewrite E' in H3. congruence.
        -- rewrite G2 by exact D. split; assumption.
  - apply (heapok_alloc st o H eq_refl Hch).
Qed.

(* a constructor failing after the library __init__: the transient object and its
   rotation keys are gone after the collection *)
Theorem inv_alloc_fail ct st c name k extra children d :
  Inv ct st -> c < length ct -> Fresh st c name k extra ->
  (forall x, In x children -> is_live (heap st) x = true) ->
  Inv ct (collect (register_extra (fst (alloc st (mkObj c name k (k :: extra) true children d))) c extra
                                  (length (heap st)))).
Proof.
  intros [R H] Hc [F1 [F2 F3]] Hch.
  set (o := mkObj c name k (k :: extra) true children d).
  set (id := length (heap st)).
  pose proof (ok_len _ _ R) as RL.
  pose proof (ok_cls _ _ R c Hc) as K.
  assert (Hcl : c < length (classes st)) by (rewrite RL; exact Hc).
  unfold register_extra, alloc. cbn [fst]. unfold cget at 1 2 3. cbn [classes]. fold (cget st c).
  change (fold_left (fun acc k' => kset k' id acc) extra (cs_canon (cget st c)))
    with (reg_extra extra id (cs_canon (cget st c))).
  set (cs' := mkCstate (cs_names (cget st c)) (reg_extra extra id (cs_canon (cget st c))) (cs_id (cget st c))).
  set (st0 := mkState (o :: heap st) (classes st) (roots st)).
  assert (G1 : cget (cput st0 c cs') c = cs') by (apply cget_cput_same; exact Hcl).
  assert (G2 : forall c', c <> c' -> cget (cput st0 c cs') c' = cget st c')
    by (intros c' D; rewrite cget_cput_other by exact D; reflexivity).
  apply inv_collect_gen.
  - rewrite cput_classes_len. exact RL.
  - intros c' Hc'. cbn [heap cput]. destruct (Nat.eq_dec c c') as [<-|D].
    + rewrite G1. constructor; cbn [cs_names cs_canon cs'].
      * apply (ok_nn _ _ _ K).
      * apply reg_extra_nodup. apply (ok_cn _ _ _ K).
      * intros n i Hin. destruct (ok_nv _ _ _ K n i Hin) as [x [Hx Hr]]. exists x.
        split; [apply live_obj_cons; exact Hx | exact Hr].
      * intros k0 i Hin. apply reg_extra_in in Hin; [|apply (ok_cn _ _ _ K)]. destruct Hin as [[Hin ->]|Hin].
        -- exists o. split; [split; [apply hget_new | reflexivity] | split; [reflexivity | right; exact Hin]].
        -- destruct (ok_cv _ _ _ K k0 i Hin) as [x [Hx Hr]]. exists x.
           split; [apply live_obj_cons; exact Hx | exact Hr].
    + rewrite G2 by exact D. apply classok_cons. apply (ok_cls _ _ R c' Hc').
  - intros i x Hx Kp. cbn [heap cput roots] in Hx, Kp. apply live_obj_cons_inv in Hx.
    destruct Hx as [[-> ->]|[Hi Hx]].
    + exfalso. apply kept_iff in Kp; [|apply (hk_older _ (heapok_alloc st o H eq_refl Hch (classes st)))].
      destruct Kp as [_ Kp]. apply reach_newest in Kp; [|apply (hk_older _ (heapok_alloc st o H eq_refl Hch (classes st)))].
      apply root_ids_in in Kp. destruct Kp as [s Hs].
      apply (hk_roots _ H) in Hs. apply is_live_lt in Hs. lia.
    + destruct (ok_obj _ _ R i x Hx) as [H1 [[H2 H3] H4]]. split; [exact H1|]. split; [|exact H4].
      unfold Registered. destruct (Nat.eq_dec c (o_cls x)) as [E|D].
      * rewrite <- E in *. rewrite G1. cbn [cs_names cs_canon cs']. split; [exact H2|].
        rewrite reg_extra_lookup_other; [exact H3|]. intros Hin. apply F3 in Hin. congruence.
      * rewrite G2 by exact D. split; assumption.
  - apply (heapok_alloc st o H eq_refl Hch).
Qed.

(* ------------------------------------------------------------------ *)
(* in-place update of the data of a live object (turns setter)          *)

Theorem inv_hset_data ct st i o d :
  Inv ct st -> hget (heap st) i = Some o ->
  (match o_data o, d with DDom _, _ | _, DDom _ => False | _, _ => True end) ->
  Inv ct (mkState (hset (heap st) i (with_data o d)) (classes st) (roots st)).
Proof.
  intros [R H] Hg Hd0.
  assert (GO : forall j x x', hget (hset (heap st) i (with_data o d)) j = Some x ->
               hget (heap st) j = Some x' -> ObjOK x' -> ObjOK x).
  { intros j x x' Hx Hx' HO. rewrite hget_hset in Hx. destruct (Nat.eqb j i) eqn:E.
    - apply Nat.eqb_eq in E. subst j. rewrite Hg in Hx, Hx'. cbn in Hx. injection Hx as <-. injection Hx' as <-.
      unfold ObjOK in *. cbn. destruct (o_data o), d; tauto.
    - congruence. }
  assert (G : forall j x, hget (hset (heap st) i (with_data o d)) j = Some x ->
              exists x', hget (heap st) j = Some x' /\ o_cls x = o_cls x' /\ o_name x = o_name x' /\
                         o_key x = o_key x' /\ o_keys x = o_keys x' /\ o_live x = o_live x' /\
                         o_children x = o_children x').
  { intros j x Hx. rewrite hget_hset in Hx. destruct (Nat.eqb j i) eqn:E.
    - apply Nat.eqb_eq in E. subst j. rewrite Hg in Hx. cbn in Hx. injection Hx as <-.
      exists o. repeat split; auto.
    - exists x. repeat split; auto. }
  assert (G' : forall j x', hget (heap st) j = Some x' ->
              exists x, hget (hset (heap st) i (with_data o d)) j = Some x /\ o_cls x = o_cls x' /\
                        o_name x = o_name x' /\ o_key x = o_key x' /\ o_keys x = o_keys x' /\
                        o_live x = o_live x' /\ o_children x = o_children x').
  { intros j x' Hx. rewrite hget_hset. destruct (Nat.eqb j i) eqn:E.
    - apply Nat.eqb_eq in E. subst j. rewrite Hg in *. injection Hx as <-. cbn.
      eexists. split; [reflexivity|]. repeat split; auto.
    - exists x'. repeat split; auto. }
  assert (L : forall j, is_live (hset (heap st) i (with_data o d)) j = is_live (heap st) j).
  { intros j. unfold is_live. destruct (hget (heap st) j) as [x'|] eqn:E.
    - destruct (G' j x' E) as [x [-> [_ [_ [_ [_ [Hl _]]]]]]]. exact Hl.
    - destruct (hget (hset (heap st) i (with_data o d)) j) as [x|] eqn:E'; [|reflexivity].
      destruct (G j x E') as [x' [Hx' _]]. congruence. }
  split.
  - constructor; cbn [heap classes].
    + apply (ok_len _ _ R).
    + intros c Hc. pose proof (ok_cls _ _ R c Hc) as [K1 K2 K3 K4].
      change (cget (mkState (hset (heap st) i (with_data o d)) (classes st) (roots st)) c) with (cget st c).
      constructor; [exact K1 | exact K2 | |].
      * intros n j Hin. destruct (K3 n j Hin) as [x' [[Hx1 Hx2] [Hx3 Hx4]]].
        destruct (G' j x' Hx1) as [x [Ha [Hb [Hc' [Hd [He [Hf Hg']]]]]]].
        exists x. split; [split; [exact Ha | congruence] | split; congruence].
      * intros k j Hin. destruct (K4 k j Hin) as [x' [[Hx1 Hx2] [Hx3 Hx4]]].
        destruct (G' j x' Hx1) as [x [Ha [Hb [Hc' [Hd [He [Hf Hg']]]]]]].
        exists x. split; [split; [exact Ha | congruence] | split; [congruence | rewrite He; exact Hx4]].
    + intros j x [Hx1 Hx2]. destruct (G j x Hx1) as [x' [Ha [Hb [Hc' [Hd [He [Hf Hg']]]]]]].
      destruct (ok_obj _ _ R j x') as [H1 [[H2 H3] H4]]; [split; [exact Ha | congruence]|].
      split; [congruence|]. split; [|rewrite Hd, He; split; [apply H4 | apply (GO j x x' Hx1 Ha); apply H4]].
      unfold Registered. rewrite Hb, Hc', Hd.
      change (cget (mkState (hset (heap st) i (with_data o d)) (classes st) (roots st)) (o_cls x')) with (cget st (o_cls x')).
      split; assumption.
  - destruct H as [H1 H2 H3]. constructor; cbn [heap roots].
    + intros s j Hs. rewrite L. apply (H1 s j Hs).
    + intros j x Hx c Hc. destruct (G j x Hx) as [x' [Ha [_ [_ [_ [_ [_ Hg']]]]]]].
      rewrite Hg' in Hc. apply (H2 j x' Ha c Hc).
    + intros j x [Hx1 Hx2] c Hc. destruct (G j x Hx1) as [x' [Ha [_ [_ [_ [_ [Hf Hg']]]]]]].
      rewrite L. rewrite Hg' in Hc. apply (H3 j x'); [split; [exact Ha | congruence] | exact Hc].
Qed.
