(* Reader model, C14: a consistent system is never refused.
   Part 7c: what the names of a kernel string stand for, from the statements; reading a kernel-notation complex. *)
From Coq Require Import List NArith ZArith Bool Arith Lia.
From DSD Require Import Base.Str Base.Errors Model.ComplexUtils Model.RegStr Model.ReaderStr Model.PyNum
  Model.Peg Model.Kernel Model.DispatchKernel Model.Heap Model.Registry Model.Reader Model.ReaderShape Model.ReaderConsistent
  Proofs.RegHeap Proofs.RegInv Proofs.RegCalls Proofs.RegExt Proofs.ReaderBasic Proofs.ReaderStmt Proofs.ReaderHeap
  Proofs.ReaderInv Proofs.ReaderHoare Proofs.ReaderNoFault Proofs.ReaderThms Proofs.ReaderBuilds Proofs.ReaderKernel
  Proofs.ReaderMore Proofs.ReaderSys Proofs.ReaderSysA Proofs.ReaderSysB Proofs.ReaderSysD Proofs.ReaderSysE
  Proofs.ReaderSysF Proofs.ReaderSysS Proofs.ReaderSysX.
From DSD Require Model.Iupac.
Import ListNotations.

Lemma assoc_none {A} n (l : list (pstr * A)) : assoc n l = None -> ~ In n (map fst l).
Proof. intros H Hin. destruct (assoc_some n l Hin) as [v E]. congruence. Qed.

Lemma existsb_str_false x l : existsb (str_eqb x) l = false -> ~ In x l.
Proof.
  intros H Hin. assert (E : existsb (str_eqb x) l = true); [|congruence].
  apply existsb_exists. exists x. split; [exact Hin | apply str_eqb_iff; reflexivity].
Qed.
Lemma existsb_str_true x l : existsb (str_eqb x) l = true -> In x l.
Proof. intros H. apply existsb_exists in H. destruct H as [y [H1 H2]]. apply str_eqb_iff in H2. subst. exact H1. Qed.

Lemma map_pair_fst {A B} (c : B) (l : list A) : map fst (map (fun d => (d, c)) l) = l.
Proof. rewrite map_map. cbn. apply map_id. Qed.
Lemma map_pair_snd {A B} (c : B) (l : list A) : map snd (map (fun d => (d, c)) l) = map (fun _ => c) l.
Proof. rewrite map_map. reflexivity. Qed.
Lemma map_const_len {A B C} (c : C) (l : list A) (l' : list B) : length l = length l' -> map (fun _ => c) l = map (fun _ => c) l'.
Proof. revert l'. induction l as [|a l IH]; intros [|b l'] H; cbn in *; try lia; [reflexivity|]. f_equal. apply IH. lia. Qed.

Lemma forall2_rev' {A B} (R : A -> B -> Prop) l l' : Forall2 R l l' -> Forall2 R (rev l) (rev l').
Proof.
  induction 1 as [|x y l l' H F IH]; cbn [rev]; [constructor|]. apply Forall2_app; [exact IH | constructor; [exact H | constructor]].
Qed.
Lemma combine_app' {A B} (a a' : list A) (b b' : list B) :
  length a = length b -> combine (a ++ a') (b ++ b') = combine a b ++ combine a' b'.
Proof. revert b. induction a as [|x a IH]; intros [|y b] L; cbn in *; try lia; [reflexivity|]. f_equal. apply IH. lia. Qed.
Lemma combine_rev' {A B} (a : list A) (b : list B) : length a = length b -> combine (rev a) (rev b) = rev (combine a b).
Proof.
  revert b. induction a as [|x a IH]; intros [|y b] L; cbn in *; try lia; [reflexivity|].
  rewrite combine_app' by (rewrite !rev_length; lia). rewrite IH by lia. reflexivity.
Qed.

Section Bridge.
  Variable ct : ctable.
  Variables cd cs cc cm cr : nat.
  Hypothesis CO : cfg_okb ct cd cs cc cm cr = true.
  Hypothesis PL : forall c, In c [cd; cs; cc; cm; cr] -> exists ci, nth_error ct c = Some ci /\ c_fail ci = FNone.
  Notation G := (g cd cs cc cm cr).
  Notation cls_of := (cls_of cd cs cc cm cr).
  Notation Core := (Core cd cs cc cm cr ct).
  Notation SInv := (SInv cd cs cc cm cr ct).
  Notation Built := (Built cd cs cc cm cr).
  Notation dobj := (dobj cd).
  Notation DomReg := (DomReg cd).
  Notation ExpReg := (ExpReg cd cs).
  Notation PosReg := (PosReg cd cs).
  Notation InvReg := (InvReg cd).
  Notation InvElem := (InvElem cd).
  Notation DomUnreg := (DomUnreg cd).
  Notation StrUnreg := (StrUnreg cs).

  (* a filed domain: its pair, its complement *)
  Lemma dom_inv_facts prev r acc d i :
    SInv prev r acc -> dlookup d (po_domains acc) = Some i ->
    exists j l, InvReg (r_st r) i j /\ dlookup (cname_of d) (po_domains acc) = Some j /\
      hget (heap (r_st r)) i = Some (dobj d l) /\ hget (heap (r_st r)) j = Some (dobj (cname_of d) l).
  Proof.
    intros SI Hd. pose proof SI as [C B].
    pose proof (dlookup_in_keys _ _ _ Hd) as Hk. apply (si_keys _ _ _ _ _ _ _ _ _ C KindD) in Hk.
    apply declared_dom_in in Hk. destruct Hk as [x [Hx Hdx]].
    apply in_map_iff in Hx. destruct Hx as [[x0 l] [E Hx]]. cbn in E. subst x0.
    destruct (dom_pair ct cd cs cc cm cr prev r acc x l SI Hx) as [a [b [H1 [H2 [H3 H4]]]]].
    destruct (si_decl _ _ _ _ _ _ _ _ _ C x l Hx) as [Us [Ne [Hl _]]].
    pose proof (si_reg _ _ _ _ _ _ _ _ _ C KindD ltac:(discriminate)) as RegD. cbn [cls_of ReaderSysA.cls_of dict_of] in RegD.
    pose proof (proj1 (si_sok _ _ _ _ _ _ _ _ _ C)) as I.
    assert (P : DomPairReg cd (r_st r) x l a b).
    { split; [exact Us|]. split; [exact Ne|]. split; [exact Hl|]. split; [exact H3|]. split; [exact H4|].
      split; [rewrite RegD; exact H1|]. split; [rewrite RegD; exact H2|].
      destruct (live_reg ct _ a _ I H3 eq_refl) as [_ K1]. destruct (live_reg ct _ b _ I H4 eq_refl) as [_ K2].
      split; [exact K1 | exact K2]. }
    destruct Hdx as [->| ->].
    - rewrite H1 in Hd. injection Hd as <-. exists b, l. rewrite (cname_unstarred' x Us).
      split; [exists x, l, a, b; split; [exact P | left; auto]|]. auto.
    - rewrite H2 in Hd. injection Hd as <-. exists a, l.
      change (cname_of (star x)) with (cname_of (x ++ [Registry.cStar])). rewrite cname_star.
      split; [exists x, l, a, b; split; [exact P | right; auto]|]. auto.
  Qed.

  Lemma complement_name_star y : complement_name (star y) = Ok y.
  Proof. unfold complement_name, star. rewrite rev_app_distr. cbn. rewrite rev_involutive. reflexivity. Qed.

  (* one name of a kernel string: what the statements say it stands for is what the reader finds *)
  Lemma name_facts prev r acc x part :
    SInv prev r acc -> res_name prev x = Some part ->
    exists y, (if str_eqb x sPlus then y = ([CStr x], []) else ExpReg (r_st r) x y) /\
              Forall2 (ElemOf (po_domains acc)) part (map (cell_elem (r_st r)) (fst y)).
  Proof.
    intros SI Hr. pose proof SI as [C B]. unfold res_name in Hr.
    pose proof (si_reg _ _ _ _ _ _ _ _ _ C KindD ltac:(discriminate)) as RegD. cbn [cls_of ReaderSysA.cls_of dict_of] in RegD.
    pose proof (si_reg _ _ _ _ _ _ _ _ _ C KindS ltac:(discriminate)) as RegS. cbn [cls_of ReaderSysA.cls_of dict_of] in RegS.
    destruct (str_eqb x sPlus) eqn:Ep.
    { injection Hr as <-. exists ([CStr x], []). split; [reflexivity|]. cbn [map fst cell_elem]. constructor; [|constructor].
      unfold ElemOf. rewrite Ep. reflexivity. }
    destruct (existsb (str_eqb x) (dom_names prev)) eqn:Ed.
    { injection Hr as <-. apply existsb_str_true in Ed.
      destruct (dom_lookup_facts ct cd cs cc cm cr prev r acc x SI Ed) as [j [l [H1 [H2 H3]]]].
      exists ([CDom j], [j]). split; [constructor; exact H3|]. cbn [map fst cell_elem]. constructor; [|constructor].
      unfold ElemOf. rewrite Ep. exists j. split; [exact H1|]. unfold elem_of, oname, obj_name. rewrite H2. reflexivity. }
    apply existsb_str_false in Ed.
    assert (NxD : nlookup x (cs_names (cget (r_st r) cd)) = None).
    { rewrite RegD. apply dlookup_notin. intros Hin. apply Ed. apply (si_keys _ _ _ _ _ _ _ _ _ C KindD). exact Hin. }
    (* the elements of a strand object *)
    assert (Hstrand : forall n ds, In (SComp n ds) prev ->
              exists i ids, nonempty n = true /\ starred n = false /\
                StrReg cs (r_st r) n (combine ds (map Some ids), [i]) /\ length ds = length ids /\
                Forall2 (fun d id => dlookup d (po_domains acc) = Some id) ds ids).
    { intros n ds Hin. destruct (B _ Hin) as [i [ids [D1 [Hne [Hst [D2 D3]]]]]]. exists i, ids.
      split; [exact Hne|]. split; [exact Hst|]. split; [|split; [eapply forall2_length; eauto | exact D2]].
      exists i. cbn [fst snd]. split; [reflexivity|]. split; [exact Hne|]. split; [rewrite RegS; exact D1|].
      unfold seq_of. rewrite D3. reflexivity. }
    destruct (assoc x (decl_strands prev)) as [[|d ds]|] eqn:Ea; [discriminate| |].
    - (* a declared strand *)
      injection Hr as <-. pose proof (assoc_in _ _ _ Ea) as Hin. apply decl_strands_in in Hin.
      destruct (Hstrand _ _ Hin) as [i [ids [Hne [Hst [Hs [Hlen F]]]]]].
      exists (map CDom ids, [i]). split.
      + eapply ER_strand; [| exact Hs | destruct ids; [cbn in Hlen; discriminate | discriminate] |].
        * split; [exact Hne|]. split; [exact NxD|]. intros E. congruence.
        * clear -F SI Hlen CO PL. revert ids F Hlen. generalize (d :: ds) as dl.
          induction dl as [|d0 dl IH]; intros [|id ids] F Hlen; cbn in Hlen; try discriminate; cbn [combine map]; constructor.
          -- inversion F as [|? ? ? ? Hd F']; subst. split; [reflexivity|].
             destruct (dom_inv_facts prev r acc d0 id SI Hd) as [j [l [_ [_ [H3 _]]]]]. eexists. split; [exact H3 | reflexivity].
          -- inversion F; subst. apply IH; [assumption | lia].
      + cbn [fst]. rewrite map_map. clear -F SI CO PL. induction F as [|d0 id dl ids Hd F IH]; cbn [map]; constructor; [|exact IH].
        unfold ElemOf. rewrite (dom_not_plus ct cd cs cc cm cr prev r acc d0 id SI Hd). exists id. split; [exact Hd|].
        destruct (dom_inv_facts prev r acc d0 id SI Hd) as [j [l [_ [_ [H3 _]]]]].
        cbn [cell_elem]. unfold elem_of, oname, obj_name. rewrite H3. reflexivity.
    - (* the complement of a declared strand *)
      destruct (starred x) eqn:Esx; [|discriminate].
      destruct (assoc (removelast x) (decl_strands prev)) as [[|d ds]|] eqn:Ea2; try discriminate.
      destruct (starred (removelast x)) eqn:Esy; [discriminate|]. injection Hr as <-.
      set (y0 := removelast x) in *. pose proof (starred_split x Esx) as Ex. fold y0 in Ex.
      pose proof (assoc_in _ _ _ Ea2) as Hin. apply decl_strands_in in Hin.
      destruct (Hstrand _ _ Hin) as [i [ids [Hne [Hst [Hs [Hlen F]]]]]].
      assert (Hu : DomUnreg (r_st r) x).
      { split; [apply starred_nonempty; exact Esx|]. split; [exact NxD|]. intros _. fold y0.
        split; [exact Esy|]. split; [exact Hne|]. rewrite RegD. apply dlookup_notin. intros Hk.
        apply (si_keys _ _ _ _ _ _ _ _ _ C KindD) in Hk. apply declared_dom_in in Hk. destruct Hk as [x1 [Hx1 [E1|E1]]].
        - apply Ed. apply declared_dom_in. exists x1. split; [exact Hx1|]. right. rewrite Ex, E1. reflexivity.
        - rewrite E1, star_starred in Esy. discriminate. }
      assert (Hsu : StrUnreg (r_st r) x).
      { split; [apply starred_nonempty; exact Esx|]. rewrite RegS. apply dlookup_notin. intros Hk.
        apply (si_keys _ _ _ _ _ _ _ _ _ C KindS) in Hk. exact (assoc_none _ _ Ea Hk). }
      (* the complements of the elements, in reverse order *)
      assert (Hinv : forall dl idl, Forall2 (fun d0 id => dlookup d0 (po_domains acc) = Some id) dl idl ->
                exists ys : list (elem * list nat),
                  Forall2 (InvElem (r_st r)) (combine dl (map Some idl)) ys /\
                  Forall2 (ElemOf (po_domains acc)) (map cname_of dl) (map fst ys) /\
                  map (cell_elem (r_st r)) (map CDom (flat_map snd ys)) = map fst ys).
      { intros dl idl F0. induction F0 as [|d0 id dl idl Hd F0 [ys [I1 [I2 I3]]]].
        - exists []. repeat split; constructor.
        - destruct (dom_inv_facts prev r acc d0 id SI Hd) as [j [l [Hr [Hc [H3 H4]]]]].
          assert (Eel : elem_of (r_st r) j = (cname_of d0, Some j)).
          { unfold elem_of, oname, obj_name. rewrite H4. reflexivity. }
          exists ((elem_of (r_st r) j, [j]) :: ys). cbn [combine map flat_map fst snd app]. split; [|split].
          + constructor; [|exact I1]. exists id, j. auto.
          + constructor; [|exact I2]. rewrite Eel. unfold ElemOf.
            rewrite (dom_not_plus ct cd cs cc cm cr prev r acc _ j SI Hc). exists j. auto.
          + cbn [cell_elem]. rewrite I3. reflexivity. }
      assert (Frev : Forall2 (fun d0 id => dlookup d0 (po_domains acc) = Some id) (rev (d :: ds)) (rev ids)).
      { apply forall2_rev'. exact F. }
      destruct (Hinv _ _ Frev) as [ys [I1 [I2 I3]]].
      assert (Erev : rev (combine (d :: ds) (map Some ids)) = combine (rev (d :: ds)) (map Some (rev ids))).
      { rewrite map_rev. symmetry. apply combine_rev'. rewrite map_length. exact Hlen. }
      exists (map CDom (flat_map snd ys), i :: flat_map snd ys). split.
      + eapply ER_compl; [exact Hu | exact Hsu | rewrite Ex; apply complement_name_star | exact Hs | |
                          match goal with |- Forall2 _ ?l _ => replace l with (combine (rev (d :: ds)) (map Some (rev ids))) by (symmetry; exact Erev) end; exact I1].
        destruct ids; [cbn in Hlen; discriminate | discriminate].
      + cbn [fst]. rewrite I3. exact I2.
  Qed.
  Lemma elemof_fst D x e : ElemOf D x e -> fst e = x.
  Proof. unfold ElemOf. destruct (str_eqb x sPlus); [intros ->; reflexivity | intros [j [_ ->]]; reflexivity]. Qed.

  Lemma forall2_elemof_fst D names es : Forall2 (ElemOf D) names es -> map fst es = names.
  Proof. induction 1 as [|x e names es H F IH]; cbn [map]; [reflexivity|]. rewrite (elemof_fst _ _ _ H), IH. reflexivity. Qed.

  (* the whole kernel string *)
  Lemma expand_bridge prev r acc :
    SInv prev r acc -> forall todo parts,
    omap' (fun xc : pstr * chr => option_map (map (fun d => (d, snd xc))) (res_name prev (fst xc))) todo = Some parts ->
    exists ys, Forall2 (PosReg (r_st r)) todo ys /\
      Forall2 (ElemOf (po_domains acc)) (map fst (concat parts))
              (map (cell_elem (r_st r)) (map fst (flat_cells todo ys))) /\
      map snd (flat_cells todo ys) = map snd (concat parts).
  Proof.
    intros SI. induction todo as [|[x c] todo IH]; intros parts H; cbn [omap'] in H.
    - injection H as <-. exists []. repeat split; constructor.
    - cbn [fst snd] in H. destruct (res_name prev x) as [part|] eqn:Er; [|discriminate]. cbn [option_map] in H.
      destruct (omap' _ todo) as [parts'|] eqn:Eo; [|discriminate]. injection H as <-.
      destruct (IH parts' eq_refl) as [ys [F [Fe Es]]].
      destruct (name_facts prev r acc x part SI Er) as [y [Hy Hel]].
      exists (y :: ys). split; [constructor; [exact Hy | exact F]|].
      cbn [concat flat_cells]. rewrite !map_app. unfold pos_cells. cbn [snd].
      rewrite !map_pair_fst, !map_pair_snd. split.
      + apply Forall2_app; assumption.
      + rewrite Es. f_equal. apply map_const_len. apply forall2_length in Hel. rewrite map_length in Hel. symmetry. exact Hel.
  Qed.

  Theorem step_kernel prev r acc line n names sst conc names' sst' cdict cn e :
    SInv prev r acc -> decode line = Ok (SKer n names sst conc) ->
    nonempty n = true -> ~ In n (map fst (decl_cplx prev)) ->
    expand_ker prev names sst = Some (names', sst') ->
    rot_dict names' sst' = Some cdict -> canon_of cdict = Some (cn, e) -> rot_disjoint prev cdict ->
    exists r' i, (forall accR, read_one ct G None (TList line) accR r = (r', Ok (apply_delta (FKind KindC n i) accR))) /\
      SInv (prev ++ [SKer n names sst conc]) r' (apply_delta (FKind KindC n i) acc) /\
      Later r acc r' (apply_delta (FKind KindC n i) acc).
  Proof.
    intros SI Hdec Hne Hnew Hexp Hrd Hcan Hdis. pose proof SI as [C B].
    set (st := r_st r). set (i := length (heap st)).
    pose proof (si_sok _ _ _ _ _ _ _ _ _ C) as OK. pose proof (proj1 OK) as I.
    unfold expand_ker in Hexp. destruct (Nat.eqb (length names) (length sst)) eqn:El; [|discriminate].
    apply Nat.eqb_eq in El.
    destruct (omap' _ (combine names sst)) as [parts|] eqn:Eo; [|discriminate]. injection Hexp as <- <-.
    destruct (expand_bridge prev r acc SI _ _ Eo) as [ys [F [Fe Es]]]. fold st in F, Fe.
    set (temps := flat_map snd ys).
    destruct (kernel_sequence_gen ct cd cs cc cm cr PL names sst ys r OK El F) as [Ek Lv]. fold st in Ek. fold temps in Ek, Lv.
    set (fc := flat_cells (combine names sst) ys) in *.
    pose (es := (map (cell_elem st) (map fst fc) : list elem)).
    set (names2 := map fst (concat parts)) in *. set (sst2 := map snd (concat parts)) in *.
    assert (Hf1 : map fst es = names2) by (apply (forall2_elemof_fst _ _ _ Fe)).
    assert (Hle : length es = length sst2).
    { unfold es. rewrite !map_length. rewrite <- (map_length snd fc), Es. reflexivity. }
    assert (Lch : forall x, In x (elem_ids es) -> is_live (heap st) x = true).
    { intros x Hx. unfold elem_ids in Hx. apply in_flat_map in Hx. destruct Hx as [e1 [He1 Hx]].
      destruct (forall2_in_r _ _ _ e1 Fe He1) as [nm1 [_ He]]. unfold ElemOf in He.
      destruct (str_eqb nm1 sPlus); [subst e1; destruct Hx|]. destruct He as [j [Hj ->]]. cbn in Hx. destruct Hx as [<-|[]].
      apply (dom_live ct cd cs cc cm cr CO prev r acc nm1 j SI Hj). }
    (* the name and the rotations are new *)
    pose proof (si_reg _ _ _ _ _ _ _ _ _ C KindC ltac:(discriminate)) as RegC. cbn [cls_of ReaderSysA.cls_of dict_of] in RegC.
    assert (Nn : nlookup n (cs_names (cget st cc)) = None).
    { unfold st. rewrite RegC. apply dlookup_notin. intros Hin.
      apply (si_keys _ _ _ _ _ _ _ _ _ C KindC) in Hin. contradiction. }
    pose proof (cplx_keys_fresh ct cd cs cc cm cr CO prev r acc cdict SI Hdis) as Kf. fold st in Kf.
    set (key := KCplx cn). set (extra := map (fun kv : ckey * nat => KCplx (fst kv)) cdict).
    set (d := DCplx es sst2 (wrap (- Z.of_nat e) (Z.of_nat (nstrands names2)))).
    set (cn' := match conc with Some x => attr_set i x (r_conc r) | None => r_conc r end).
    (* read_pil_line *)
    assert (Ex : exec_stmt ct G line (SKer n names sst conc) r =
                 (mkR (hold (mk_new (holds st temps) (cls_of KindC) n key extra (elem_ids es) d) i) (r_seq r) cn' (r_rate r),
                  Ok (RObj i))).
    { cbn [exec_stmt]. rewrite (bind_ok _ _ _ _ _ Ek). cbn [gC g slot]. rewrite bind_ret.
      rewrite (bind_ok get_state _ _ _ _ eq_refl). cbn [r_st with_st fst snd].
      change (map (cell_elem (holds st temps)) (map fst fc)) with es. rewrite Es.
      assert (Ec : cplx_call ct cc (holds st temps) (Some es) (Some sst2) (Some n) None =
                   (mk_new (holds st temps) cc n key extra (elem_ids es) d, CRet i true)).
      { assert (Ec0 := cplx_new_exact ct cd cs cc cm cr PL (holds st temps) es sst2 n cdict cn e Hle).
        rewrite Hf1 in Ec0. apply Ec0; assumption. }
      assert (Ecall : call (fun st' => cplx_call ct cc st' (Some es) (Some sst2) (Some n) None) (with_st r (holds st temps)) =
                      (with_st r (hold (mk_new (holds st temps) cc n key extra (elem_ids es) d) i), Ok i)).
      { unfold call. cbn [r_st with_st]. rewrite Ec. reflexivity. }
      rewrite (bind_ok _ _ _ _ _ Ecall). subst cn'. destruct conc as [x|]; reflexivity. }
    set (r' := mkR (hold (mk_new st (cls_of KindC) n key extra (elem_ids es) d) i) (r_seq r) cn' (r_rate r)).
    set (acc' := with_dict KindC acc (dset n i (dict_of KindC acc))).
    assert (HBC : Later r acc r' acc' -> BuiltCplx cc r' acc' n names2 sst2 conc).
    { intros L'. exists i, es, cdict, cn, e.
      split; [cbn [po_complexes with_dict with_complexes dict_of acc']; rewrite dlookup_dset, (proj2 (str_eqb_iff n n) eq_refl); reflexivity|].
      split; [exact Hne|].
      split; [eapply Forall2_impl'; [|exact Fe]; intros a b; apply elemof_later; apply (lt_D _ _ _ _ L')|].
      split; [exact Hrd|]. split; [exact Hcan|].
      split; [exact (hget_new _ (heap st))|].
      unfold r'. cbn [r_conc]. subst cn'. destruct conc as [x|]; [rewrite attr_get_set, Nat.eqb_refl; reflexivity|].
      destruct (si_attr _ _ _ _ _ _ _ _ _ C i) as [_ [A _]]; [fold st; fold i; lia | exact A]. }
    destruct (step_single ct cd cs cc cm cr CO prev r acc line (SKer n names sst conc) KindC n
                key extra (elem_ids es) d temps cn' SI Hdec ltac:(cbn; auto) Ex) as [E3 [SI' L']].
    - split; [exact Nn|]. split; [apply Kf; eapply canon_of_in; eauto|].
      intros k' Hk'. unfold extra in Hk'. apply in_map_iff in Hk'. destruct Hk' as [[k2 v2] [<- Hk2]]. cbn.
      apply Kf. apply (in_map fst) in Hk2. exact Hk2.
    - exact Lch.
    - exact Logic.I.
    - intros k' n0 Hn0. destruct k'; cbn in Hn0; try tauto. destruct Hn0 as [<-|[]]. auto.
    - cbn. auto.
    - reflexivity.
    - reflexivity.
    - intros j Hj. subst cn'. destruct conc as [x|]; [|reflexivity].
      rewrite attr_get_set. apply Nat.eqb_neq in Hj. unfold i, st. rewrite Hj. reflexivity.
    - intros C' L'. cbn [Built ReaderSysA.Built]. exists names2, sst2. apply HBC. exact L'.
    - intros n0 names0 sst0 Hin L'. cbn [cplx_entry] in Hin. unfold expand_ker in Hin.
      rewrite El, Nat.eqb_refl, Eo in Hin. destruct Hin as [Hin|[]]. injection Hin as <- <- <-.
      exists conc. apply HBC. exact L'.
    - eexists. eexists. split; [exact E3 | split; [exact SI' | exact L']].
  Qed.
End Bridge.
