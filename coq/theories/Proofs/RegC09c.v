(* C09 object level: the components that split_complex_pt computes from the strand table
   and the pair table of a live complex are well-formed, aligned, with non-empty strands,
   and consist of elements of the source (the guard `sr_good` of split_op_sound). *)
From Coq Require Import List Arith Lia Bool NArith ZArith Permutation Sorted.
From DSD Require Import Base.Str Base.Errors Model.ComplexUtils Model.Rotation Dyck.Dyck
  Proofs.Mpt Proofs.Db Proofs.Assoc Proofs.C06 Proofs.Loops Proofs.LoopsConn Proofs.Split Proofs.SplitCut
  Proofs.SplitStep Proofs.SplitTree
  Proofs.RotScan Proofs.RotTree Proofs.RotPairs Proofs.RotOnce Proofs.RotOrbit Proofs.RotStrands Proofs.RotGen.
From DSD Require Import Model.RegStr Model.Heap Model.Registry Model.RegSplit
  Proofs.RegHeap Proofs.RegInv Proofs.RegCalls Proofs.RegExt Proofs.RegC04 Proofs.RegStep Proofs.RegC02
  Proofs.RegC09 Proofs.RegC09b.
Import ListNotations.

(* ---- run lengths determine the break pattern ---- *)
Lemma runs_inj a : forall b, runs a = runs b -> a = b.
Proof.
  induction a as [|[|] r IH]; intros [|[|] r'] H; cbn [runs] in H; try reflexivity.
  - injection H as H. exfalso. exact (runs_nonnil _ (eq_sym H)).
  - destruct (runs r') as [|k ks]; discriminate.
  - injection H as H. exfalso. exact (runs_nonnil _ H).
  - injection H as H. f_equal. apply IH. exact H.
  - destruct (runs r') as [|k ks]; discriminate.
  - destruct (runs r) as [|k ks]; discriminate.
  - destruct (runs r) as [|k ks]; discriminate.
  - f_equal. apply IH.
    destruct (runs r) as [|k ks] eqn:E1; [exfalso; exact (runs_nonnil _ E1)|].
    destruct (runs r') as [|k' ks'] eqn:E2; [exfalso; exact (runs_nonnil _ E2)|].
    injection H as -> ->. reflexivity.
Qed.

(* ---- the element strand table is the name strand table ---- *)
Lemma elem_strands_aux_names es : forall cur,
  map (map fst) (elem_strands_aux es cur) = mst_list_aux sPlus (map fst es) (map fst cur).
Proof.
  induction es as [|x r IH]; intros cur; cbn [elem_strands_aux mst_list_aux map].
  - destruct cur; cbn [map]; [reflexivity|]. rewrite map_rev. reflexivity.
  - destruct (str_eqb (fst x) sPlus).
    + destruct cur; cbn [map]; [apply (IH [])|]. rewrite map_rev. f_equal. apply (IH []).
    + apply (IH (x :: cur)).
Qed.

Lemma elem_strands_names es : map (map fst) (elem_strands es) = make_strand_table_list sPlus (map fst es).
Proof. apply (elem_strands_aux_names es []). Qed.

Lemma elem_strands_aux_in es : forall cur s e, In s (elem_strands_aux es cur) -> In e s -> In e es \/ In e cur.
Proof.
  induction es as [|x r IH]; intros cur s e Hs He; cbn [elem_strands_aux] in Hs.
  - destruct cur; [destruct Hs|]. destruct Hs as [<-|[]]. right. apply in_rev. exact He.
  - destruct (str_eqb (fst x) sPlus).
    + destruct cur.
      * destruct (IH [] s e Hs He) as [H|[]]. left. right. exact H.
      * destruct Hs as [<-|Hs]; [right; apply in_rev; exact He|].
        destruct (IH [] s e Hs He) as [H|[]]. left. right. exact H.
    + destruct (IH (x :: cur) s e Hs He) as [H|[<-|H]]; [left; right; exact H | left; left; reflexivity | right; exact H].
Qed.

Lemma elem_strands_in es s e : In s (elem_strands es) -> In e s -> In e es.
Proof. intros Hs He. destruct (elem_strands_aux_in es [] s e Hs He) as [H|[]]. exact H. Qed.

(* ---- joining strands ---- *)
Lemma fold_join {A} (brk : A) r : forall s, fold_left (fun a b => a ++ [brk] ++ b) r s = join_with [brk] (s :: r).
Proof.
  induction r as [|x r IH]; intros s; cbn [fold_left]; [reflexivity|].
  rewrite IH. cbn [join_with]. destruct r; cbn [join_with app]; rewrite <- ?app_assoc; reflexivity.
Qed.

Lemma stts_join_gen {A} (brk : A) st : st <> [] -> strand_table_to_sequence brk st = Ok (join_with [brk] st).
Proof. destruct st as [|s r]; [congruence|]. intros _. cbn [strand_table_to_sequence]. rewrite fold_join. reflexivity. Qed.

Lemma map_fst_join (st : list (list elem)) : map fst (join_with [ePlus] st) = join_with [sPlus] (map (map fst) st).
Proof.
  induction st as [|s r IH]; [reflexivity|]. destruct r as [|s2 r2]; [reflexivity|].
  change (join_with [ePlus] (s :: s2 :: r2)) with (s ++ ePlus :: join_with [ePlus] (s2 :: r2)).
  rewrite map_app, map_cons.
  change (map (map fst) (s :: s2 :: r2)) with (map fst s :: map fst s2 :: map (map fst) r2).
  change (join_with [sPlus] (map fst s :: map fst s2 :: map (map fst) r2))
    with (map fst s ++ sPlus :: join_with [sPlus] (map (map fst) (s2 :: r2))).
  f_equal. f_equal. exact IH.
Qed.

Lemma join_in {A} (brk : A) st e : In e (join_with [brk] st) -> e = brk \/ exists s, In s st /\ In e s.
Proof.
  induction st as [|s r IH]; [intros []|]. destruct r as [|s2 r2].
  - cbn. intros H. right. exists s. auto.
  - change (join_with [brk] (s :: s2 :: r2)) with (s ++ [brk] ++ join_with [brk] (s2 :: r2)). intros H.
    apply in_app_or in H. destruct H as [H|H]; [right; exists s; split; [left; reflexivity | exact H]|].
    destruct H as [<-|H]; [left; reflexivity|]. destruct (IH H) as [E|[s' [H1 H2]]]; [left; exact E|].
    right. exists s'. split; [right; exact H1 | exact H2].
Qed.

(* ---- rows of a part are as long as the rows they come from ---- *)
Lemma length_by_nth {A B} (a : list A) (b : list B) :
  (forall c, nth_error a c = None <-> nth_error b c = None) -> length a = length b.
Proof.
  intros H. destruct (Nat.lt_trichotomy (length a) (length b)) as [L|[L|L]]; [|exact L|]; exfalso.
  - assert (E : nth_error a (length a) = None) by (apply nth_error_None; lia).
    apply H in E. apply nth_error_None in E. lia.
  - assert (E : nth_error b (length b) = None) by (apply nth_error_None; lia).
    apply H in E. apply nth_error_None in E. lia.
Qed.

Lemma part_row_length (T : tab) sub pt r :
  part_ok T sub pt -> r < length sub -> nth r sub 0 < length T ->
  length (nth r pt []) = length (nth (nth r sub 0) T []).
Proof.
  intros [Hl Hp] Hr Hk. apply length_by_nth. intros c. specialize (Hp r c Hr).
  unfold get in Hp. cbn [fst snd] in Hp.
  rewrite (nth_error_nth' T [] Hk) in Hp. rewrite (nth_error_nth' pt [] (eq_ind_r (fun n => r < n) Hr Hl)) in Hp.
  destruct (nth_error (nth (nth r sub 0) T []) c) as [[x|]|] eqn:E.
  - destruct Hp as [r' [_ [_ Hp]]]. rewrite Hp. split; discriminate.
  - rewrite Hp. split; discriminate.
  - rewrite Hp. tauto.
Qed.

(* ---- one component ---- *)
Lemma sel_map {A B} (f : list A -> list B) (S0 : list (list A)) sub : f [] = [] ->
  map f (sel S0 sub) = sel (map f S0) sub.
Proof.
  intros Hf. unfold sel. rewrite map_map. apply map_ext. intros k.
  transitivity (nth k (map f S0) (f [])); [symmetry; apply map_nth | rewrite Hf; reflexivity].
Qed.

Lemma nth_map_length {A B} (l1 : list (list A)) (l2 : list (list B)) k :
  map (@length A) l1 = map (@length B) l2 -> length (nth k l1 []) = length (nth k l2 []).
Proof.
  intros H. pose proof (map_nth (@length A) l1 [] k) as E1. pose proof (map_nth (@length B) l2 [] k) as E2.
  cbn [length] in E1, E2. rewrite <- E1, <- E2, H. reflexivity.
Qed.

Lemma map_length_ext {A B} (a : list (list A)) (b : list (list B)) :
  length a = length b -> (forall r, r < length a -> length (nth r a []) = length (nth r b [])) ->
  map (@length A) a = map (@length B) b.
Proof.
  revert b. induction a as [|x a IH]; intros [|y b] L H; cbn in L; try lia; [reflexivity|]. cbn [map]. f_equal.
  - apply (H 0). cbn. lia.
  - apply IH; [lia|]. intros r Hr. apply (H (S r)). cbn. lia.
Qed.

Theorem component_good es d sub pt :
  goodNE (map fst es, rc d) -> good_part (tab_of d) sub pt ->
  exists nseq, comp_ok (elem_ids es) (sel (elem_strands es) sub, pt) nseq.
Proof.
  intros GN [PO [Hsub [d' [-> _]]]]. pose proof GN as [[Ha _] HN]. cbn [fst snd] in Ha, HN.
  set (names := map fst es) in *. set (T := tab_of d) in *.
  (* the strand table of the source *)
  assert (ES : map (map fst) (elem_strands es) = splitS names).
  { rewrite elem_strands_names. apply mst_splitS. exact HN. }
  assert (Shape : map (@length pstr) (splitS names) = map (@length (option loc)) T) by (apply tab_shape; exact Ha).
  assert (LenS : length (splitS names) = length T) by (rewrite <- (map_length (@length pstr)), Shape, map_length; reflexivity).
  (* the strands of the component *)
  set (stb := sel (elem_strands es) sub).
  set (strands := sel (splitS names) sub).
  assert (Est : map (map fst) stb = strands).
  { unfold stb, strands.
    exact (eq_trans (sel_map (map fst) (elem_strands es) sub eq_refl) (f_equal (fun S0 => sel S0 sub) ES)). }
  destruct PO as [Hl Hp]. pose proof (tab_of_length d') as Ld'. rewrite Hl in Ld'.
  assert (Hne : sub <> []) by (destruct sub; [discriminate | discriminate]).
  assert (Sne : stb <> []) by (unfold stb, sel; destruct sub; [congruence | discriminate]).
  assert (Stne : strands <> []) by (unfold strands, sel; destruct sub; [congruence | discriminate]).
  assert (InS : forall s, In s strands -> In s (splitS names)).
  { intros s Hs. unfold strands, sel in Hs. apply in_map_iff in Hs. destruct Hs as [k [<- Hk]].
    apply nth_In. rewrite LenS. apply Hsub. exact Hk. }
  assert (BF : Forall bfree strands).
  { apply Forall_forall. intros s Hs. pose proof (splitS_bfree names) as F. rewrite Forall_forall in F. apply F, InS, Hs. }
  assert (NEs : Forall (fun s : list pstr => s <> []) strands).
  { apply Forall_forall. intros s Hs. unfold NE in HN. rewrite Forall_forall in HN. apply HN, InS, Hs. }
  (* the rendered component *)
  exists (join_with [ePlus] stb). unfold comp_ok. cbn [fst snd].
  split; [apply stts_join_gen; exact Sne|].
  assert (Enames : map fst (join_with [ePlus] stb) = joinS strands) by (rewrite map_fst_join, Est; reflexivity).
  assert (Sp : splitS (joinS strands) = strands) by (apply splitS_joinS; assumption).
  assert (Lens : map (@length pstr) strands = map (@length (option loc)) (tab_of d')).
  { apply map_length_ext.
    - unfold strands, sel. rewrite map_length. symmetry. exact Hl.
    - intros r Hr. unfold strands, sel in Hr. rewrite map_length in Hr.
      unfold strands, sel. rewrite (nth_indep _ [] (nth 0 (splitS names) [])) by (rewrite map_length; exact Hr).
      rewrite (map_nth (fun k => nth k (splitS names) []) sub 0 r).
      rewrite (nth_map_length _ _ _ Shape).
      symmetry. apply (part_row_length T sub (tab_of d') r (conj Hl Hp) Hr). apply Hsub. apply nth_In. exact Hr. }
  assert (Al : aligned (joinS strands) (rc d')).
  { unfold aligned. apply runs_inj. rewrite <- splitS_runs, Sp, Lens, tab_of_tableE, tableE_runs, isEB_ents. reflexivity. }
  assert (GN' : goodNE (joinS strands, rc d')).
  { split; [split; [exact Al | apply rc_wf]|]. unfold NE. cbn [fst]. rewrite Sp. exact NEs. }
  split.
  - rewrite Enames. pose proof (ptdb_tabT _ GN') as P. cbn [snd] in P. rewrite tabT_rc in P. rewrite P. exact GN'.
  - intros x Hx. unfold elem_ids in *. apply in_flat_map in Hx. destruct Hx as [e [He Hx]].
    apply in_flat_map. exists e. split; [|exact Hx].
    apply join_in in He. destruct He as [->|[s [Hs He]]]; [cbn in Hx; destruct Hx|].
    unfold stb, sel in Hs. apply in_map_iff in Hs. destruct Hs as [k [<- Hk]].
    assert (Hk' : k < length (elem_strands es)).
    { pose proof (f_equal (@length _) ES) as EL. rewrite map_length in EL.
      apply (Nat.lt_le_trans _ (length T)); [apply Hsub; exact Hk|]. apply Nat.eq_le_incl. symmetry.
      exact (eq_trans EL LenS). }
    apply (elem_strands_in es (nth k (elem_strands es) [])); [apply nth_In; exact Hk' | exact He].
Qed.

(* ---- all components of a live complex ---- *)
Lemma forall2_combine {A B} (P : A -> B -> Prop) (f : A -> list (list elem)) (Q : list (list elem) * B -> Prop) l l' :
  Forall2 P l l' -> (forall a b, P a b -> Q (f a, b)) -> Forall Q (combine (map f l) l').
Proof. intros F H. induction F as [|a b l l' Hab _ IH]; cbn [map combine]; constructor; auto. Qed.

Theorem split_parts_ready st i ob es ss t :
  ROK st -> live_obj (heap st) i ob -> o_data ob = DCplx es ss t ->
  exists ptab parts,
    make_pair_table cP [cD] ss = Ok ptab /\
    split_complex_pt (S (length ptab)) (elem_strands es) ptab = Ok parts /\
    GoodParts (o_children ob) parts.
Proof.
  intros [_ C] Hl Ed. destruct (C i ob Hl es ss t Ed) as [GN [_ [_ [_ Hids]]]].
  pose proof GN as [[Ha Hw] HN]. cbn [fst snd] in Ha, Hw, HN.
  destruct (wf_rc ss Hw) as [d ->].
  pose proof (tabT_ok _ Hw) as Ept. rewrite tabT_rc in Ept.
  exists (tab_of d). 
  assert (Len : length (elem_strands es) = S (nbreaks d)).
  { rewrite <- tab_of_length.
    pose proof (f_equal (@length _) (elem_strands_names es)) as E1. rewrite map_length in E1.
    rewrite (mst_splitS _ HN) in E1.
    pose proof (f_equal (@length _) (tab_shape (map fst es) d Ha)) as E2. rewrite !map_length in E2.
    exact (eq_trans E1 E2). }
  destruct (split_tree (S (length (tab_of d))) d (elem_strands es) Len ltac:(rewrite tab_of_length; lia))
    as (idxs & pts & H1 & H2 & _ & _).
  exists (combine (map (sel (elem_strands es)) idxs) pts). split; [exact Ept|]. split; [exact H1|].
  unfold GoodParts. apply (forall2_combine (good_part (tab_of d)) (sel (elem_strands es)) _ idxs pts H2).
  intros sub pt GP. destruct (component_good es d sub pt GN GP) as [nseq [E1 [E2 E3]]].
  exists nseq. split; [exact E1|]. split; [exact E2|]. intros x Hx. apply Hids, E3, Hx.
Qed.

(* the statement kept as `split_parts_good_full` *)
Theorem split_parts_good_proved : split_parts_good_full.
Proof.
  intros ct st src i ob es ss t ptab parts _ R _ Hl Ed Ept Esp.
  destruct (split_parts_ready st i ob es ss t R Hl Ed) as (ptab' & parts' & E1 & E2 & G).
  assert (ptab' = ptab) by congruence. subst ptab'. assert (parts' = parts) by congruence. subst parts'. exact G.
Qed.

(* split_op_sound without the guard on the components *)
Theorem split_ready_live ct st src i ob ci es ss t :
  Inv ct st -> ROK st -> DOK ct st ->
  get_root st src = Some i -> hget (heap st) i = Some ob -> o_data ob = DCplx es ss t ->
  ClassGood ct (o_cls ob) ci -> (exists z, class_id ct st (o_cls ob) = Some z) ->
  exists parts, SplitReady ct st src i ob ci parts.
Proof.
  intros I R D Hr Ho Ed CG Hid.
  assert (Hl : live_obj (heap st) i ob).
  { split; [exact Ho|]. pose proof (get_root_live st src i (proj2 I) Hr) as L. unfold is_live in L. rewrite Ho in L. exact L. }
  destruct (split_parts_ready st i ob es ss t R Hl Ed) as (ptab & parts & E1 & E2 & G).
  exists parts. constructor; auto. exists es, ss, t, ptab. auto.
Qed.

(* C09 object level, final form: for every live complex of a non-failing class with a defined counter *)
Theorem split_objects_live ct st dst src i ob ci es ss t :
  Inv ct st -> ROK st -> DOK ct st ->
  get_root st src = Some i -> hget (heap st) i = Some ob -> o_data ob = DCplx es ss t ->
  ClassGood ct (o_cls ob) ci -> (exists z, class_id ct st (o_cls ob) = Some z) ->
  let r := split_op ct st dst src in
  Inv ct (fst r) /\ ROK (fst r) /\ DOK ct (fst r) /\ Collected (fst r) /\
  exists parts s' ys,
    (exists ptab, make_pair_table cP [cD] ss = Ok ptab /\
                  split_complex_pt (S (length ptab)) (elem_strands es) ptab = Ok parts) /\
    GoodParts (o_children ob) parts /\
    Inv ct s' /\ roots s' = roots st ++ map Some ys /\ KeepsO st s' /\
    match snd r with
    | Yielded ids =>
        ids = ys /\ Forall2 (fun p x => owner_of s' (o_cls ob) (comp_of p) x) parts ids /\
        fst r = collect (store_from (trim_roots s' (length (roots st))) dst ids)
    | XOut (Raised k e) =>
        k = eSingleton /\ e = None /\
        exists done p rest, parts = done ++ p :: rest /\
                            Forall2 (fun p x => owner_of s' (o_cls ob) (comp_of p) x) done ys /\
                            refused_at ct (o_cls ob) ci s' (comp_of p) /\
                            fst r = collect (trim_roots s' (length (roots st)))
    | XOut _ => False
    end.
Proof.
  intros I R D Hr Ho Ed CG Hid. cbn zeta.
  destruct (split_ready_live ct st src i ob ci es ss t I R D Hr Ho Ed CG Hid) as [parts SR].
  destruct (split_op_sound ct st dst src i ob ci parts I R D SR) as [I' [R' [D' [C' [s' [ys Rest]]]]]].
  split; [exact I'|]. split; [exact R'|]. split; [exact D'|]. split; [exact C'|].
  exists parts, s', ys. destruct SR as [_ _ _ _ (es' & ss' & t' & ptab & Ed' & E1 & E2) G].
  rewrite Ed in Ed'. injection Ed' as <- <- <-. split; [eauto|]. split; [exact G | exact Rest].
Qed.

(* the guard of histories with split reduces to the class conditions *)
Theorem xguard_split_live ct st dst src :
  XGood ct st ->
  (forall i ob, get_root st src = Some i -> hget (heap st) i = Some ob ->
     (exists es ss t, o_data ob = DCplx es ss t) ->
     exists ci, ClassGood ct (o_cls ob) ci /\ exists z, class_id ct st (o_cls ob) = Some z) ->
  xguard ct st (XSplit dst src).
Proof.
  intros [G R] H. cbn [xguard]. destruct (get_root st src) as [i|] eqn:Er; [|exact Logic.I].
  destruct (hget (heap st) i) as [ob|] eqn:Eo; [|exact Logic.I].
  destruct (o_data ob) as [| es ss t | | |] eqn:Ed; try exact Logic.I.
  destruct (H i ob eq_refl Eo) as [ci [CG Hid]]; [eauto|].
  exists ci. apply (split_ready_live ct st src i ob ci es ss t (g_inv _ _ G) R (g_dok _ _ G) Er Eo Ed CG Hid).
Qed.
