(* Reader model, layer 3: the invariant of a reading session and what each constructor
   call of the reader returns under it.

   KInv: every object of the heap is an instance of exactly one of the five configured
   classes and has the data of that kind (domains: non-negative length, a name x or x*
   with x non-empty; strands: every element is a domain object of the configured
   domain class).  It holds in the empty state and is kept by everything the reader
   does (ReaderNoFault.v).

   Per constructor call: the returned object is an instance of exactly the class that
   was called, and a refused call never ends in an interpreter-level fault kind. *)
From Coq Require Import List NArith ZArith Bool Arith Lia.
From DSD Require Import Base.Str Base.Errors Model.ComplexUtils Model.RegStr Model.ReaderStr Model.PyNum
  Model.Peg Model.Kernel Model.Heap Model.Registry Model.Reader Model.ReaderShape
  Proofs.RegHeap Proofs.RegInv Proofs.RegCalls Proofs.ReaderBasic Proofs.ReaderHeap.
Import ListNotations.

(* ---- names ---- *)
Definition nm_ok (n : pstr) : Prop := n <> [] /\ cname_of n <> [] /\ cname_of (cname_of n) = n.

Lemma nm_ok_cname n : nm_ok n -> nm_ok (cname_of n).
Proof. intros [H1 [H2 H3]]. repeat split; [exact H2 | rewrite H3; exact H1 | rewrite H3; reflexivity]. Qed.

Lemma nonempty_iff {A} (l : list A) : nonempty l = true <-> l <> [].
Proof. destruct l; cbn; split; congruence. Qed.

Lemma nm_okb_iff n : nm_okb n = true <-> nm_ok n.
Proof.
  unfold nm_okb, nm_ok. rewrite !andb_true_iff, !nonempty_iff, str_eqb_iff. tauto.
Qed.

(* ---- fault kinds ---- *)
Lemma nf_singleton : is_fault eSingleton = false. Proof. reflexivity. Qed.
Lemma nf_fuel : is_fault eFuel = false. Proof. reflexivity. Qed.
Lemma nf_bad : is_fault eBadRequest = false. Proof. reflexivity. Qed.
Lemma nf_user : is_fault eUserFail = false. Proof. reflexivity. Qed.
Lemma nf_oinit : is_fault eObjectInit = false. Proof. reflexivity. Qed.
Lemma nf_sse : is_fault eSSE = false. Proof. reflexivity. Qed.
Lemma nf_notimpl : is_fault eNotImpl = false. Proof. reflexivity. Qed.
Lemma nf_assert : is_fault eAssert = false. Proof. reflexivity. Qed.
Lemma nf_unmod : is_fault eUnmodelled = false. Proof. reflexivity. Qed.
Lemma nf_pil : is_fault ePilFormat = false. Proof. reflexivity. Qed.
Lemma nf_badline : is_fault eBadLine = false. Proof. reflexivity. Qed.

(* ---- objects of the configured classes ---- *)
Definition cls_at (h : list obj) (i : nat) : option nat := option_map o_cls (hget h i).

Definition is_strand (d : odata) := match d with DStrand _ => True | _ => False end.
Definition is_cplx (d : odata) := match d with DCplx _ _ _ => True | _ => False end.
Definition is_mac (d : odata) := match d with DMac _ _ => True | _ => False end.
Definition is_rxn (d : odata) := match d with DRxn _ _ _ => True | _ => False end.

Section Cfg.
  Variable ct : ctable.
  Variables cd cs cc cm cr : nat.          (* the classes in the slots Domain, Strand, Complex, Macrostate, Reaction *)
  Definition g : cfg := mkCfg (Some cd) (Some cs) (Some cc) (Some cm) (Some cr).

  Definition dom_ok (o : obj) : Prop :=
    exists l, o_data o = DDom l /\ (0 <= l)%Z /\ nm_ok (o_name o).
  Definition strand_ok (h : list obj) (o : obj) : Prop :=
    exists es, o_data o = DStrand es /\ o_children o = elem_ids es /\
               o_key o = KCplx (map fst es, map (fun _ => cStar) es) /\ o_keys o = [o_key o] /\
               Forall (fun e => exists j, snd e = Some j /\ cls_at h j = Some cd /\ obj_name h j = fst e) es.

  (* a reaction: the type stored in the data is the type of the canonical form, its only key *)
  Definition rxn_ok (o : obj) : Prop :=
    exists a b t m rr pp, o_data o = DRxn a b t /\ o_key o = KRxn m rr pp t /\ o_keys o = [o_key o].

  Definition obj_ok (h : list obj) (o : obj) : Prop :=
    (o_cls o = cd /\ dom_ok o) \/ (o_cls o = cs /\ strand_ok h o) \/
    (o_cls o = cc /\ is_cplx (o_data o)) \/ (o_cls o = cm /\ is_mac (o_data o)) \/
    (o_cls o = cr /\ rxn_ok o).

  Definition KInv (h : list obj) : Prop := forall i o, hget h i = Some o -> obj_ok h o.

  Lemma kinv_nil : KInv []. Proof. intros i o H. discriminate. Qed.

  (* the slots hold five different classes of the table *)
  Definition slots_ok : Prop :=
    NoDup [cd; cs; cc; cm; cr] /\ Forall (fun x => x < length ct) [cd; cs; cc; cm; cr].

  Lemma cls_at_ext P h h' j x : HExt P h h' -> cls_at h j = Some x -> cls_at h' j = Some x.
  Proof.
    intros X. unfold cls_at. destruct (hget h j) as [o|] eqn:E; [|discriminate].
    destruct (hx_old _ _ _ X j o E) as [o' [E' [->| ->]]]; rewrite E'; auto.
  Qed.

  Lemma obj_name_ext P h h' j x : HExt P h h' -> cls_at h j = Some x -> obj_name h' j = obj_name h j.
  Proof.
    intros X. unfold cls_at, obj_name. destruct (hget h j) as [o|] eqn:E; [|discriminate].
    destruct (hx_old _ _ _ X j o E) as [o' [E' [->| ->]]]; rewrite E'; auto.
  Qed.

  Lemma obj_ok_kill h o : obj_ok h o -> obj_ok h (kill o).
  Proof. intros H. exact H. Qed.

  Lemma obj_ok_ext P h h' o : HExt P h h' -> obj_ok h o -> obj_ok h' o.
  Proof.
    intros X [H|[[H1 [es [H2 [H2' [Hk [Hks H3]]]]]]|H]]; [left; exact H | | right; right; exact H].
    right. left. split; [exact H1|]. exists es. split; [exact H2|]. split; [exact H2'|]. split; [exact Hk|]. split; [exact Hks|].
    eapply Forall_impl; [|exact H3]. cbn. intros e [j [E1 [E2 E3]]]. exists j. split; [exact E1|].
    split; [eapply cls_at_ext; eauto|]. rewrite <- E3. eapply obj_name_ext; eauto.
  Qed.

  (* the invariant follows the heap: old objects keep it, new ones must have it *)
  Lemma kinv_ext h h' : KInv h -> HExt (obj_ok h) h h' -> KInv h'.
  Proof.
    intros K X i o' H. destruct (Nat.lt_ge_cases i (length h)) as [L|L].
    - destruct (proj1 (hget_some_iff h i) L) as [o Ho].
      destruct (hx_old _ _ _ X i o Ho) as [o2 [H2 Kl]]. rewrite H in H2. injection H2 as <-.
      pose proof (obj_ok_ext _ h h' o X (K i o Ho)) as Q. destruct Kl as [->| ->]; [exact Q | apply obj_ok_kill; exact Q].
    - eapply obj_ok_ext; [exact X|]. eapply (hx_new _ _ _ X); eauto.
  Qed.

  Lemma kinv_collect st : KInv (heap st) -> KInv (heap (collect st)).
  Proof. intros K. eapply kinv_ext; [exact K|]. apply hext_collect. Qed.

  Lemma slots_neq : slots_ok ->
    cd <> cs /\ cd <> cc /\ cd <> cm /\ cd <> cr /\ cs <> cc /\ cs <> cm /\ cs <> cr /\
    cc <> cm /\ cc <> cr /\ cm <> cr.
  Proof.
    intros [ND _]. repeat (apply NoDup_cons_iff in ND; destruct ND as [? ND]). cbn in *.
    repeat split; intros E; subst; tauto.
  Qed.

  Lemma kinv_dom h i o : KInv h -> slots_ok -> hget h i = Some o -> o_cls o = cd -> dom_ok o.
  Proof.
    intros K SO H Hc. pose proof (slots_neq SO) as D.
    destruct (K i o H) as [[_ Q]|[[E _]|[[E _]|[[E _]|[E _]]]]]; [exact Q| | | |]; exfalso; rewrite Hc in E; tauto.
  Qed.

  Lemma kinv_strand h i o : KInv h -> slots_ok -> hget h i = Some o -> o_cls o = cs -> strand_ok h o.
  Proof.
    intros K SO H Hc. pose proof (slots_neq SO) as D.
    destruct (K i o H) as [[E _]|[[_ Q]|[[E _]|[[E _]|[E _]]]]]; [|exact Q| | |]; exfalso; rewrite Hc in E;
      try tauto; symmetry in E; tauto.
  Qed.

  Lemma kinv_rxn h i o : KInv h -> slots_ok -> hget h i = Some o -> o_cls o = cr -> rxn_ok o.
  Proof.
    intros K SO H Hc. pose proof (slots_neq SO) as D.
    destruct (K i o H) as [[E _]|[[E _]|[[E _]|[[E _]|[_ Q]]]]]; [| | | |exact Q]; exfalso; rewrite Hc in E;
      symmetry in E; tauto.
  Qed.

  (* ---- what a call returns ---- *)
  Definition RetCls (c : nat) (r : state * cout) : Prop :=
    forall id b, snd r = CRet id b -> exists ob, hget (heap (fst r)) id = Some ob /\ o_cls ob = c.
  Definition NoFault (r : state * cout) : Prop :=
    forall k e, snd r = CErr k e -> is_fault k = false.

  Lemma retcls_err c st k e : RetCls c (st, CErr k e). Proof. intros id b H. discriminate. Qed.
  Lemma nofault_ret st id b : NoFault (st, CRet id b). Proof. intros k e H. discriminate. Qed.
  Lemma nofault_err st k e : is_fault k = false -> NoFault (st, CErr k e).
  Proof. intros H k' e' E. injection E as <- _. exact H. Qed.

  Lemma lookup_cls st c nm canon o :
    Inv ct st -> c < length ct -> sing_lookup (cget st c) nm canon = LFound o ->
    exists ob, hget (heap st) o = Some ob /\ o_cls ob = c.
  Proof.
    intros [R _] Hc E. pose proof (ok_cls _ _ R c Hc) as K.
    assert (N : forall n i, nlookup n (cs_names (cget st c)) = Some i -> exists ob, hget (heap st) i = Some ob /\ o_cls ob = c).
    { intros n i L. apply (alookup_in str_eqb str_eqb_iff) in L.
      destruct (ok_nv _ _ _ K n i L) as [x [[Hx _] [Hc' _]]]. exists x. auto. }
    assert (C : forall k i, klookup k (cs_canon (cget st c)) = Some i -> exists ob, hget (heap st) i = Some ob /\ o_cls ob = c).
    { intros k i L. apply (alookup_in key_eqb key_eqb_iff) in L.
      destruct (ok_cv _ _ _ K k i L) as [x [[Hx _] [Hc' _]]]. exists x. auto. }
    unfold sing_lookup in E. destruct (nonempty nm), canon as [k|].
    - destruct (nlookup nm (cs_names (cget st c))) as [on|] eqn:E1; destruct (klookup k (cs_canon (cget st c))) as [oc|] eqn:E2;
        try discriminate. destruct (Nat.eqb on oc); [|discriminate]. injection E as <-. eapply N; eauto.
    - destruct (nlookup nm (cs_names (cget st c))) as [on|] eqn:E1; [|discriminate]. injection E as <-. eapply N; eauto.
    - destruct (klookup k (cs_canon (cget st c))) as [oc|] eqn:E2; [|discriminate]. injection E as <-. eapply C; eauto.
    - discriminate.
  Qed.

  Lemma create_spec st c auto name k extra children d :
    RetCls c (create ct st c auto name k extra children d) /\ NoFault (create ct st c auto name k extra children d).
  Proof.
    unfold create. destruct (nth_error ct c) as [ci|]; [|split; [apply retcls_err | apply nofault_err; reflexivity]].
    destruct (c_fail ci); cbn [alloc fst snd].
    - split; [|apply nofault_ret]. intros id b E. cbn [snd] in E. injection E as <- _. cbn [fst].
      rewrite heap_register. cbn [heap]. rewrite hget_new. eexists. split; reflexivity.
    - split; [apply retcls_err | apply nofault_err; reflexivity].
    - split; [apply retcls_err | apply nofault_err; reflexivity].
  Qed.

  Lemma lookup_only_spec st c nm canon :
    Inv ct st -> c < length ct ->
    let r := match sing_lookup (cget st c) nm canon with
             | LFound o => (st, CRet o false)
             | LRaise e => (st, CErr eSingleton e)
             | LFresh => (st, CErr eBadRequest None)
             end in RetCls c r /\ NoFault r.
  Proof.
    intros I Hc. destruct (sing_lookup (cget st c) nm canon) eqn:E; cbn zeta.
    - split; [|apply nofault_ret]. intros id b E'. cbn in E'. injection E' as <- _. cbn. eapply lookup_cls; eauto.
    - split; [apply retcls_err | apply nofault_err; reflexivity].
    - split; [apply retcls_err | apply nofault_err; reflexivity].
  Qed.

  Lemma lookup_create_spec st c nm k auto extra children d :
    Inv ct st -> c < length ct ->
    let r := match sing_lookup (cget st c) nm (Some k) with
             | LFound o => (st, CRet o false)
             | LRaise e => (st, CErr eSingleton e)
             | LFresh => create ct st c auto nm k extra children d
             end in RetCls c r /\ NoFault r.
  Proof.
    intros I Hc. destruct (sing_lookup (cget st c) nm (Some k)) eqn:E; cbn zeta.
    - split; [|apply nofault_ret]. intros id b E'. cbn in E'. injection E' as <- _. cbn. eapply lookup_cls; eauto.
    - apply create_spec.
    - split; [apply retcls_err | apply nofault_err; reflexivity].
  Qed.

  (* ---- DomainS ---- *)
  Definition P_dom (c : nat) (h : list obj) (o : obj) : Prop := o_cls o = c /\ dom_ok o.

  (* the lengths stored in a heap with the invariant (slots_ok: a DDom object is of class cd) *)
  Lemma obj_ok_len h o l : obj_ok h o -> o_data o = DDom l -> (0 <= l)%Z.
  Proof.
    intros [[_ [l' [E [Hl _]]]]|[[_ [es [E _]]]|[[_ Q]|[[_ Q]|[_ [a [b [t [m [rr [pp [E _]]]]]]]]]]]] Ed;
      rewrite Ed in *; try discriminate; try contradiction.
    injection E as <-. exact Hl.
  Qed.

  Lemma kinv_heaplen h : KInv h -> forall i o l, hget h i = Some o -> o_data o = DDom l -> (0 <= l)%Z.
  Proof. intros K i o l H Ed. eapply obj_ok_len; [apply (K i o H) | exact Ed]. Qed.

  Lemma obj_len_nonneg h o l : KInv h -> obj_length h o = Ok l -> (0 <= l)%Z.
  Proof.
    intros K. unfold obj_length. destruct (hget h o) as [ob|] eqn:E; [|discriminate].
    destruct (o_data ob) eqn:Ed; try discriminate. intros H; injection H as <-. eapply kinv_heaplen; eauto.
  Qed.

  Lemma obj_len_dom h o ob : hget h o = Some ob -> dom_ok ob -> exists l, obj_length h o = Ok l.
  Proof.
    intros H [l [E _]]. unfold obj_length. rewrite H, E. eauto.
  Qed.

  (* every domain call in class cd keeps the invariant *)
  Lemma kinv_dom_call fuel st nm len :
    KInv (heap st) -> nm_ok nm -> (forall z, len = Some z -> (0 <= z)%Z) ->
    KInv (heap (fst (dom_call fuel ct cd st (Some nm) len None None))).
  Proof.
    intros K Hn Hl. eapply kinv_ext; [exact K|].
    eapply proj2. apply (sext_dom_call (obj_ok (heap st)) ct cd nm_ok (fun z => (0 <= z)%Z)); auto.
    - intros o H. exact H.
    - apply nm_ok_cname.
    - intros o l. apply obj_ok_len.
    - intros n l Hn' Hl'. left. split; [reflexivity|]. exists l. auto.
    - exact (kinv_heaplen _ K).
  Qed.

  Definition RecSpec (rec : state -> pstr -> option Z -> state * cout) : Prop :=
    forall st n l, Inv ct st -> KInv (heap st) -> nm_ok n -> (forall z, l = Some z -> (0 <= z)%Z) ->
      Inv ct (fst (rec st n l)) /\ KInv (heap (fst (rec st n l))) /\ RetCls cd (rec st n l) /\ NoFault (rec st n l).

  (* a nested call followed by len(...) *)
  Lemma rec_then_len rec st n l :
    slots_ok -> RecSpec rec -> Inv ct st -> KInv (heap st) -> nm_ok n -> (forall z, l = Some z -> (0 <= z)%Z) ->
    let s1 := fst (rec st n l) in
    Inv ct s1 /\ KInv (heap s1) /\
    match snd (rec st n l) with
    | CRet o _ => exists cl, obj_length (heap s1) o = Ok cl
    | CErr k _ => is_fault k = false
    end.
  Proof.
    intros SO HR I K Hn Hl. destruct (HR st n l I K Hn Hl) as [I1 [K1 [R1 F1]]].
    split; [exact I1|]. split; [exact K1|].
    destruct (rec st n l) as [s1 [o b|k e]]; cbn [fst snd] in *.
    - destruct (R1 o b eq_refl) as [ob [Ho Hc]]. eapply obj_len_dom; [exact Ho|]. eapply kinv_dom; eauto.
    - eapply F1; reflexivity.
  Qed.

  Lemma dom_nested_spec rec st nm len1 :
    slots_ok -> RecSpec rec -> Inv ct st -> KInv (heap st) -> nm_ok nm -> (forall z, len1 = Some z -> (0 <= z)%Z) ->
    let r := dom_nested rec st nm len1 in
    Inv ct (fst r) /\ KInv (heap (fst r)) /\
    match snd r with
    | Ok len2 => forall z, len2 = Some z -> (0 <= z)%Z
    | Err k => is_fault k = false
    end.
  Proof.
    intros SO HR I K Hn Hl. unfold dom_nested.
    assert (Hcn : nm_ok (cname_of nm)) by (apply nm_ok_cname; exact Hn).
    assert (IC : forall s, Inv ct s -> Inv ct (collect s)) by (intros s; apply inv_collect).
    assert (KC : forall s, KInv (heap s) -> KInv (heap (collect s))) by (intros s; apply kinv_collect).
    destruct len1 as [l|], (starred nm).
    - 
      destruct (rec_then_len rec st (cname_of nm) None SO HR I K Hcn ltac:(discriminate)) as [I1 [K1 L1]].
      destruct (rec st (cname_of nm) None) as [s1 [o b|k e]]; cbn [fst snd] in *.
      + destruct L1 as [cl EL]. rewrite EL. cbn [fst snd]. split; [auto|]. split; [auto|].
        destruct (Z.eqb cl l); [exact Hl | reflexivity].
      + destruct (is_singleton_err k); cbn [fst snd]; auto.
    - 
      destruct (rec_then_len rec st (cname_of nm) None SO HR I K Hcn ltac:(discriminate)) as [I1 [K1 L1]].
      destruct (rec st (cname_of nm) None) as [s1 [o b|k e]]; cbn [fst snd] in *.
      + destruct L1 as [cl EL]. rewrite EL.
        destruct (HR (collect s1) (cname_of nm) (Some l) (IC _ I1) (KC _ K1) Hcn
                     ltac:(intros z E; injection E as <-; apply Hl; reflexivity)) as [I2 [K2 [_ F2]]].
        destruct (rec (collect s1) (cname_of nm) (Some l)) as [s2 [o2 b2|k2 e2]]; cbn [fst snd] in *.
        * auto.
        * pose proof (F2 k2 e2 eq_refl) as NF. destruct (is_singleton_err k2); cbn [fst snd].
          -- split; [auto|]. split; [auto|]. destruct (Z.eqb cl l); [exact Hl | reflexivity].
          -- auto.
      + destruct (is_singleton_err k); cbn [fst snd]; auto.
    - destruct (rec_then_len rec st (cname_of nm) None SO HR I K Hcn ltac:(discriminate)) as [I1 [K1 L1]].
      destruct (rec st (cname_of nm) None) as [s1 [o b|k e]]; cbn [fst snd] in *.
      + destruct L1 as [cl EL]. rewrite EL. cbn [fst snd]. split; [auto|]. split; [auto|].
        intros z E. injection E as <-. eapply obj_len_nonneg; eauto.
      + destruct (is_singleton_err k); cbn [fst snd]; auto.
    - cbn. split; [auto|]. split; [auto|]. discriminate.
  Qed.

  Lemma dom_body_spec rec st nm len :
    slots_ok -> RecSpec rec -> Inv ct st -> KInv (heap st) -> nm_ok nm -> (forall z, len = Some z -> (0 <= z)%Z) ->
    RetCls cd (dom_body rec ct cd st (Some nm) len None None) /\ NoFault (dom_body rec ct cd st (Some nm) len None None).
  Proof.
    intros SO HR I K Hn Hl. unfold dom_body.
    assert (Hc : cd < length ct) by (destruct SO as [_ F]; inversion F; auto).
    destruct (nth_error ct cd) as [ci|] eqn:Ec; [|apply nth_error_None in Ec; lia].
    cbn [resolve_name]. rewrite dom_len1_none.
    destruct Hn as [Hne Hrest]. destruct nm as [|ch nm']; [congruence|]. cbn [nonempty negb].
    destruct (dom_nested_spec rec st (ch :: nm') len SO HR I K (conj Hne Hrest) Hl) as [I1 [K1 L1]].
    destruct (dom_nested rec st (ch :: nm') len) as [st1 [len2|k]]; cbn [fst snd] in *.
    - unfold dom_finish. destruct len2 as [l|]; cbn [option_map].
      + apply lookup_create_spec; auto.
      + pose proof (lookup_only_spec st1 cd (ch :: nm') None I1 Hc) as H. cbn zeta in H.
        destruct (sing_lookup (cget st1 cd) (ch :: nm') None); exact H.
    - split; [apply retcls_err | apply nofault_err; exact L1].
  Qed.

  Theorem dom_call_spec fuel :
    slots_ok -> RecSpec (fun st n l => dom_call fuel ct cd st (Some n) l None None).
  Proof.
    intros SO. induction fuel as [|f IH]; intros st n l I K Hn Hl.
    - cbn. split; [exact I|]. split; [exact K|]. split; [apply retcls_err | apply nofault_err; reflexivity].
    - split; [apply (callok_dom_call (S f) ct cd st (Some n) l None None I)|].
      split; [apply kinv_dom_call; auto|].
      cbn [dom_call]. apply dom_body_spec; auto.
  Qed.

  Theorem dom_complement_spec st i o :
    slots_ok -> Inv ct st -> KInv (heap st) -> hget (heap st) i = Some o -> o_cls o = cd ->
    let r := dom_complement ct st i in
    Inv ct (fst r) /\ KInv (heap (fst r)) /\ RetCls cd r /\ NoFault r.
  Proof.
    intros SO I K H Hc. destruct (kinv_dom _ i o K SO H Hc) as [l [Ed [Hl Hn]]].
    unfold dom_complement. rewrite H, Ed, Hc.
    apply (dom_call_spec dom_fuel SO st (cname_of (o_name o)) (Some l) I K (nm_ok_cname _ Hn)).
    intros z E. injection E as <-. exact Hl.
  Qed.

  (* ---- ComplexS ---- *)
  Lemma index_of_lt x l p : index_of x l = Some p -> p < length l.
  Proof.
    revert p. induction l as [|y l IH]; intros p; cbn; [discriminate|].
    destruct (str_eqb x y); [intros H; injection H as <-; lia|].
    destruct (index_of x l) as [q|]; [|discriminate]. cbn. intros H; injection H as <-.
    specialize (IH q eq_refl). lia.
  Qed.

  Lemma scanL_err l : forall i stk k, scanL l i stk = Err k -> k = eSSE.
  Proof.
    induction l as [|ch l IH]; intros i stk k; cbn; [discriminate|].
    destruct (N.eqb ch cO); [apply IH|]. destruct (N.eqb ch cC); [|apply IH].
    destruct stk; [intros H; injection H as <-; reflexivity | apply IH].
  Qed.
  Lemma scanR_err l : forall i stk k, scanR l i stk = Err k -> k = eSSE.
  Proof.
    induction l as [|ch l IH]; intros i stk k; cbn; [discriminate|].
    destruct (N.eqb ch cC); [apply IH|]. destruct (N.eqb ch cO); [|apply IH].
    destruct stk; [intros H; injection H as <-; reflexivity | apply IH].
  Qed.

  Lemma set_all_length {A} idx (v : A) l : length (set_all idx v l) = length l.
  Proof.
    unfold set_all. revert l. induction idx as [|i idx IH]; intros l; cbn; [reflexivity|].
    rewrite IH. apply upd_len.
  Qed.

  Lemma rot_once_spec seq sst :
    length seq = length sst ->
    match rotate_complex_once seq sst with
    | Ok (s', t') => length s' = length t'
    | Err k => k = eSSE
    end.
  Proof.
    intros EL. unfold rotate_complex_once. destruct (index_of sPlus seq) as [p|] eqn:Ep; [|exact EL].
    apply index_of_lt in Ep.
    destruct (scanL (firstn p sst) 0 []) as [st1|k] eqn:E1; cbn [rbind]; [|eapply scanL_err; eauto].
    destruct (length sst <? p) eqn:Elt; [apply Nat.ltb_lt in Elt; lia|].
    destruct (scanR _ _ []) as [st2|k] eqn:E2; cbn [rbind]; [|eapply scanR_err; eauto].
    rewrite !app_length, !skipn_length, !firstn_length, !set_all_length. cbn. lia.
  Qed.

  Lemma rot_loop_spec n : forall e reg rseq rstr cdict,
    length rseq = length rstr ->
    match rot_loop n e reg rseq rstr cdict with
    | Ok (ex, cdict') => (cdict <> [] -> cdict' <> []) /\ (ex = None -> n <> 0 -> cdict' <> [])
    | Err k => k = eSSE
    end.
  Proof.
    induction n as [|n IH]; intros e reg rseq rstr cdict EL; cbn [rot_loop].
    - split; [auto | congruence].
    - destruct (klookup (KCplx (rseq, rstr)) reg); [split; [auto | discriminate]|].
      pose proof (rot_once_spec rseq rstr EL) as RS.
      destruct (rotate_complex_once rseq rstr) as [[s' t']|k]; cbn [rbind]; [|exact RS].
      specialize (IH (S e) reg s' t' (cdict_set (rseq, rstr) e cdict) RS). cbn [fst snd].
      assert (NE : cdict_set (rseq, rstr) e cdict <> []).
      { unfold cdict_set. destruct cdict as [|[k0 v0] r]; cbn; [discriminate|]. destruct (ckey_eqb _ _); discriminate. }
      destruct (rot_loop n (S e) reg s' t' _) as [[ex cd']|k]; [|exact IH].
      destruct IH as [A B]. split; intros; apply A; exact NE.
  Qed.

  Lemma min_ckey_in l k : min_ckey l = Some k -> In k (map fst l).
  Proof.
    revert k. induction l as [|[k0 v0] l IH]; intros k; cbn; [discriminate|].
    destruct (min_ckey l) as [m|]; [|intros H; injection H as <-; left; reflexivity].
    destruct (cmp_ltb (ckey_cmp m k0)); intros H; injection H as <-; [right; apply IH; reflexivity | left; reflexivity].
  Qed.
  Lemma min_ckey_none l : min_ckey l = None -> l = [].
  Proof.
    destruct l as [|[k0 v0] l]; cbn; [reflexivity|]. destruct (min_ckey l) as [m|]; [|discriminate].
    destruct (cmp_ltb _); discriminate.
  Qed.

  Lemma cc_lt : slots_ok -> cc < length ct.
  Proof. intros [_ F]. inversion F as [|? ? ? F1]; inversion F1 as [|? ? ? F2]; inversion F2; auto. Qed.
  Lemma cs_lt : slots_ok -> cs < length ct.
  Proof. intros [_ F]. inversion F as [|? ? ? F1]; inversion F1; auto. Qed.
  Lemma cm_lt : slots_ok -> cm < length ct.
  Proof. intros [_ F]. inversion F as [|? ? ? F1]; inversion F1 as [|? ? ? F2]; inversion F2 as [|? ? ? F3]; inversion F3; auto. Qed.
  Lemma cr_lt : slots_ok -> cr < length ct.
  Proof.
    intros [_ F]. inversion F as [|? ? ? F1]; inversion F1 as [|? ? ? F2]; inversion F2 as [|? ? ? F3];
      inversion F3 as [|? ? ? F4]; inversion F4; auto.
  Qed.

  Theorem cplx_call_spec st es ss name :
    slots_ok -> Inv ct st -> KInv (heap st) ->
    (forall x, In x (elem_ids es) -> is_live (heap st) x = true) ->
    let r := cplx_call ct cc st (Some es) (Some ss) (Some name) None in
    Inv ct (fst r) /\ KInv (heap (fst r)) /\ RetCls cc r /\ NoFault r.
  Proof.
    intros SO I K Hch r. pose proof (cc_lt SO) as Hc.
    split; [apply (callok_cplx_call ct cc st (Some es) (Some ss) (Some name) None I);
            intros es' x E; injection E as <-; apply Hch|].
    split.
    { eapply kinv_ext; [exact K|]. eapply proj2. apply sext_cplx_call; [intros o H; exact H|].
      intros es' ss' nm cn extra t _ _. right. right. left. cbn. auto. }
    unfold r, cplx_call.
    destruct (nth_error ct cc) as [ci|] eqn:Ec; [|apply nth_error_None in Ec; lia].
    cbn [resolve_name].
    destruct (Nat.eqb (length es) (length ss)) eqn:EL; cbn [negb];
      [|split; [apply retcls_err | apply nofault_err; reflexivity]].
    apply Nat.eqb_eq in EL.
    destruct (Nat.eqb (length (make_strand_table_list sPlus (map fst es))) 0) eqn:EN;
      [split; [apply retcls_err | apply nofault_err; reflexivity]|].
    assert (EL' : length (map fst es) = length ss) by (rewrite map_length; exact EL).
    pose proof (rot_loop_spec (length (make_strand_table_list sPlus (map fst es))) 0
                  (cs_canon (cget st cc)) (map fst es) ss [] EL') as RL.
    destruct (rot_loop _ 0 (cs_canon (cget st cc)) (map fst es) ss []) as [[ex cdict]|k];
      [|split; [apply retcls_err | apply nofault_err; subst k; reflexivity]].
    destruct RL as [_ RL].
    destruct ex as [[k e]|].
    - apply lookup_create_spec; auto.
    - assert (NE : cdict <> []) by (apply RL; [reflexivity | apply Nat.eqb_neq in EN; exact EN]).
      destruct (min_ckey cdict) as [k|] eqn:EM; [|apply min_ckey_none in EM; contradiction].
      destruct (cdict_get k cdict) as [e|] eqn:EG.
      + apply lookup_create_spec; auto.
      + exfalso. apply min_ckey_in in EM. unfold cdict_get in EG.
        apply (alookup_none ckey_eqb ckey_eqb_iff) in EG. contradiction.
  Qed.

  Theorem cplx_by_name_spec st name :
    slots_ok -> Inv ct st -> KInv (heap st) ->
    let r := cplx_call ct cc st None None (Some name) None in
    fst r = st /\ RetCls cc r /\ NoFault r.
  Proof.
    intros SO I K r. pose proof (cc_lt SO) as Hc. unfold r, cplx_call.
    destruct (nth_error ct cc) as [ci|] eqn:Ec; [|apply nth_error_None in Ec; lia].
    pose proof (lookup_only_spec st cc name None I Hc) as H. cbn zeta in H.
    destruct (sing_lookup (cget st cc) name None); (split; [reflexivity | exact H]).
  Qed.

  (* ---- StrandS ---- *)
  Theorem strand_call_spec st es name :
    slots_ok -> Inv ct st -> KInv (heap st) ->
    (forall x, In x (elem_ids es) -> is_live (heap st) x = true) ->
    Forall (fun e => exists j, snd e = Some j /\ cls_at (heap st) j = Some cd /\ obj_name (heap st) j = fst e) es ->
    let r := strand_call ct cs st (Some es) (Some name) None in
    Inv ct (fst r) /\ KInv (heap (fst r)) /\ RetCls cs r /\ NoFault r.
  Proof.
    intros SO I K Hch Hes r. pose proof (cs_lt SO) as Hc.
    split; [apply (callok_strand_call ct cs st (Some es) (Some name) None I);
            intros es' x E; injection E as <-; apply Hch|].
    split.
    { eapply kinv_ext; [exact K|]. eapply proj2. apply sext_strand_call; [intros o H; exact H|].
      intros es' nm E. injection E as <-. right. left. split; [reflexivity|]. exists es. cbn. auto 10. }
    unfold r, strand_call.
    destruct (nth_error ct cs) as [ci|] eqn:Ec; [|apply nth_error_None in Ec; lia].
    destruct (existsb is_plus es); [split; [apply retcls_err | apply nofault_err; reflexivity]|].
    cbn [resolve_name]. apply lookup_create_spec; auto.
  Qed.

  Theorem strand_by_name_spec st name :
    slots_ok -> Inv ct st -> KInv (heap st) ->
    let r := strand_call ct cs st None (Some name) None in
    fst r = st /\ RetCls cs r /\ NoFault r.
  Proof.
    intros SO I K r. pose proof (cs_lt SO) as Hc. unfold r, strand_call.
    destruct (nth_error ct cs) as [ci|] eqn:Ec; [|apply nth_error_None in Ec; lia].
    pose proof (lookup_only_spec st cs name None I Hc) as H. cbn zeta in H.
    destruct (sing_lookup (cget st cs) name None); (split; [reflexivity | exact H]).
  Qed.

  (* ---- MacrostateS ---- *)
  Theorem macro_call_spec st ms name :
    slots_ok -> Inv ct st -> KInv (heap st) ->
    (forall x, In x ms -> is_live (heap st) x = true) ->
    let r := macro_call ct cm st (Some ms) (Some name) in
    Inv ct (fst r) /\ KInv (heap (fst r)) /\ RetCls cm r /\ NoFault r.
  Proof.
    intros SO I K Hch r. pose proof (cm_lt SO) as Hc.
    split; [apply (callok_macro_call ct cm st (Some ms) (Some name) I Hc);
            intros ms' x E; injection E as <-; apply Hch|].
    split.
    { eapply kinv_ext; [exact K|]. eapply proj2. apply sext_macro_call; [intros o H; exact H|].
      intros ms' nm cn rep _. right. right. right. left. cbn. auto. }
    unfold r, macro_call.
    destruct (omap' _ ms) as [mks|]; [|split; [apply retcls_err | apply nofault_err; reflexivity]].
    destruct (existsb (fun i => str_eqb name (obj_name (heap st) i)) ms);
      [|split; [apply retcls_err | apply nofault_err; reflexivity]].
    destruct (find (fun i => str_eqb (obj_name (heap st) i) name) ms) as [rep|].
    - apply lookup_create_spec; auto.
    - pose proof (lookup_only_spec st cm name (Some (KMac (map snd (sort_by snd ckey_cmp mks)))) I Hc) as H.
      cbn zeta in H. destruct (sing_lookup (cget st cm) name _); exact H.
  Qed.

  Theorem macro_by_name_spec st name :
    slots_ok -> Inv ct st -> KInv (heap st) ->
    let r := macro_call ct cm st None (Some name) in
    fst r = st /\ RetCls cm r /\ NoFault r.
  Proof.
    intros SO I K r. pose proof (cm_lt SO) as Hc. unfold r, macro_call.
    pose proof (lookup_only_spec st cm name None I Hc) as H. cbn zeta in H.
    destruct (sing_lookup (cget st cm) name None); (split; [reflexivity | exact H]).
  Qed.

  (* ---- ReactionS ---- *)
  Theorem reaction_call_spec st rs ps rtype :
    slots_ok -> Inv ct st -> KInv (heap st) ->
    (forall x, In x (rs ++ ps) -> is_live (heap st) x = true) ->
    let r := reaction_call ct cr st (Some (rs, ps)) rtype None in
    Inv ct (fst r) /\ KInv (heap (fst r)) /\ RetCls cr r /\ NoFault r.
  Proof.
    intros SO I K Hch r. pose proof (cr_lt SO) as Hc.
    split; [apply (callok_reaction_call ct cr st (Some (rs, ps)) rtype None I Hc);
            intros rs' ps' x E; injection E as <- <-; apply Hch|].
    split.
    { eapply kinv_ext; [exact K|]. eapply proj2. apply sext_reaction_call; [intros o H; exact H|].
      intros rs' ps' nm m r0 p a b _. right. right. right. right. split; [reflexivity|].
      exists a, b, rtype, m, r0, p. cbn. auto. }
    unfold r, reaction_call.
    destruct (omap' _ rs) as [fr|]; [|split; [apply retcls_err | apply nofault_err; reflexivity]].
    destruct (omap' _ ps) as [fp|]; [|split; [apply retcls_err | apply nofault_err; reflexivity]].
    match goal with |- RetCls _ (if ?b then _ else _) /\ _ => destruct b end;
      [split; [apply retcls_err | apply nofault_err; reflexivity]|].
    apply lookup_create_spec; auto.
  Qed.
End Cfg.
