(* C08 connected_iff: make_loop_index does not raise  <->  the strand graph
   (strands as vertices, base pairs as edges) is connected.

   Connectivity is defined independently of the code as the reflexive,
   symmetric, transitive closure of "some position of strand s1 is paired with
   some position of strand s2".  Both directions are loop-tree arguments by
   induction on dyck trees:
     <=  no loop directly holds two breaks => every strand of a forest reaches
         its first strand, or (one direct break) its first or its last strand;
         an enclosing pair joins first and last strand;
     =>  two breaks directly in one loop (or one in loop 0) isolate the strands
         between them: a set of strands closed under pairing that is neither
         empty nor everything. *)
From Coq Require Import List Arith Lia Bool NArith.
From DSD Require Import Base.Str Base.Errors Model.ComplexUtils Dyck.Dyck
  Proofs.Mpt Proofs.Db Proofs.Assoc Proofs.Loops.
Import ListNotations.

(* ------------------------------------------------------------------ *)
(* the strand graph                                                     *)

Definition edge (t : tab) (s1 s2 : nat) : Prop :=
  exists c1 c2, get t (s1, c1) = Some (Some (s2, c2)).

Inductive conn (E : nat -> nat -> Prop) : nat -> nat -> Prop :=
| conn_refl s : conn E s s
| conn_fwd s1 s2 s3 : E s1 s2 -> conn E s2 s3 -> conn E s1 s3
| conn_bwd s1 s2 s3 : E s2 s1 -> conn E s2 s3 -> conn E s1 s3.

Definition connected (t : tab) : Prop :=
  forall s1 s2, s1 < length t -> s2 < length t -> conn (edge t) s1 s2.

Lemma conn_trans E a b c : conn E a b -> conn E b c -> conn E a c.
Proof. induction 1; intros H2; [exact H2|eapply conn_fwd; eauto|eapply conn_bwd; eauto]. Qed.

Lemma conn_sym E a b : conn E a b -> conn E b a.
Proof.
  induction 1 as [s|s1 s2 s3 He _ IH|s1 s2 s3 He _ IH]; [constructor| |].
  - eapply conn_trans; [exact IH|]. eapply conn_bwd; [exact He|constructor].
  - eapply conn_trans; [exact IH|]. eapply conn_fwd; [exact He|constructor].
Qed.

Lemma conn_mono (E E' : nat -> nat -> Prop) a b :
  (forall x y, E x y -> E' x y) -> conn E a b -> conn E' a b.
Proof. intros H; induction 1; [constructor|eapply conn_fwd; eauto|eapply conn_bwd; eauto]. Qed.

(* edges read off an association list *)
Definition aedge (L : list (loc * option loc)) (s1 s2 : nat) : Prop :=
  exists c1 c2, In ((s1, c1), Some (s2, c2)) L.

Lemma edge_tab_of d s1 s2 : edge (tab_of d) s1 s2 <-> aedge (aents d (0, 0)) s1 s2.
Proof.
  unfold edge, aedge. split; intros (c1 & c2 & H); exists c1, c2.
  - apply get_tab_of_In in H. exact H.
  - apply get_tab_of_In. exact H.
Qed.

Lemma aconn_incl L L' a b : incl L L' -> conn (aedge L) a b -> conn (aedge L') a b.
Proof.
  intros Hi. apply conn_mono. intros x y (c1 & c2 & H). exists c1, c2. apply Hi, H.
Qed.

(* ------------------------------------------------------------------ *)
(* strands of a forest                                                  *)

Fixpoint nbreaks (d : dyck) : nat :=
  match d with
  | DNil => 0
  | DU r => nbreaks r
  | DB r => S (nbreaks r)
  | DP i r => nbreaks i + nbreaks r
  end.

Lemma adv_fst d : forall p, fst (adv d p) = fst p + nbreaks d.
Proof.
  induction d as [|r IH|r IH|i IHi r IHr]; intros p; cbn [adv nbreaks].
  - lia.
  - rewrite IH. reflexivity.
  - rewrite IH. cbn [fst]. lia.
  - rewrite IHr. cbn [fst]. rewrite IHi. cbn [fst]. lia.
Qed.

Lemma aents_strand_key d p a v :
  In (a, v) (aents d p) -> fst p <= fst a <= fst p + nbreaks d.
Proof.
  intros H. apply aents_range in H. destruct H as [H1 H2].
  pose proof (adv_fst d p) as Ha. unfold le_loc, lt_loc in *. lia.
Qed.

Lemma aents_strands d p a b :
  In (a, Some b) (aents d p) ->
  fst p <= fst a <= fst p + nbreaks d /\ fst p <= fst b <= fst p + nbreaks d.
Proof.
  intros H. split; [eapply aents_strand_key, H|].
  apply aents_sym in H. eapply aents_strand_key, H.
Qed.

Lemma rowsF_len es : length (snd (rowsF es)) = length (filter (fun e => match e with EB => true | _ => false end) es).
Proof. induction es as [|[|v] r IH]; cbn [rowsF snd filter length]; auto. Qed.

Lemma nEB_ents d : forall p,
  length (filter (fun e => match e with EB => true | _ => false end) (ents d p)) = nbreaks d.
Proof.
  induction d as [|r IH|r IH|i IHi r IHr]; intros p; cbn [ents nbreaks filter length]; auto.
  rewrite filter_app, app_length. cbn [filter length]. rewrite IHi, IHr. reflexivity.
Qed.

Lemma tab_of_length d : length (tab_of d) = S (nbreaks d).
Proof. rewrite tab_of_rowsF. cbn [length]. rewrite rowsF_len, nEB_ents. reflexivity. Qed.

(* ------------------------------------------------------------------ *)
(* break loops: range of the labels                                     *)

Lemma bl_range d : forall cl nl x, In x (bl d cl nl) -> x = cl \/ nl < x <= nl + npairs d.
Proof.
  induction d as [|r IH|r IH|i IHi r IHr]; intros cl nl x H; cbn [bl npairs] in *.
  - contradiction.
  - apply IH, H.
  - destruct H as [H|H]; [left; auto|apply IH, H].
  - apply in_app_or in H. destruct H as [H|H].
    + apply IHi in H. right. lia.
    + apply IHr in H. destruct H as [H|H]; [left; exact H|right; lia].
Qed.

Lemma bl_DP_disjoint i r cl nl x :
  cl <= nl -> In x (bl i (S nl) (S nl)) -> In x (bl r cl (S nl + npairs i)) -> False.
Proof. intros Hc H1 H2. apply bl_range in H1. apply bl_range in H2. lia. Qed.

Lemma NoDup_app_inv {A} (a b : list A) :
  NoDup (a ++ b) -> NoDup a /\ NoDup b /\ (forall x, In x a -> In x b -> False).
Proof.
  induction a as [|x a IH]; cbn [app]; intros H.
  - repeat split; [constructor|exact H|intros ? []].
  - inversion H as [|? ? Hx Hn]; subst. destruct (IH Hn) as (Ha & Hb & Hab).
    split; [constructor; [intros Hin; apply Hx, in_or_app; left; exact Hin|exact Ha]|].
    split; [exact Hb|]. intros y [->|Hy] Hyb; [apply Hx, in_or_app; right; exact Hyb|eapply Hab; eauto].
Qed.

Lemma NoDup_app_intro {A} (a b : list A) :
  NoDup a -> NoDup b -> (forall x, In x a -> In x b -> False) -> NoDup (a ++ b).
Proof.
  induction a as [|x a IH]; cbn [app]; intros Ha Hb Hab; [exact Hb|].
  inversion Ha as [|? ? Hx Hn]; subst. constructor.
  - intros Hin. apply in_app_or in Hin. destruct Hin as [Hin|Hin]; [contradiction|].
    eapply Hab; [left; reflexivity|exact Hin].
  - apply IH; [exact Hn|exact Hb|]. intros y Hy. apply Hab. right. exact Hy.
Qed.

(* ------------------------------------------------------------------ *)
(* <= : distinct break loops connect all strands                        *)

Lemma reach_forest d : forall p cl nl,
  cl <= nl -> NoDup (bl d cl nl) ->
  forall s, fst p <= s <= fst p + nbreaks d ->
  conn (aedge (aents d p)) (fst p) s \/
  (In cl (bl d cl nl) /\ conn (aedge (aents d p)) s (fst p + nbreaks d)).
Proof.
  induction d as [|r IH|r IH|i IHi r IHr]; intros p cl nl Hc Hnd s Hs; cbn [bl nbreaks] in *.
  - left. replace s with (fst p) by lia. constructor.
  - (* DU *)
    assert (Hincl : incl (aents r (fst p, S (snd p))) (aents (DU r) p)).
    { unfold aents. cbn [ents assoc]. intros x Hx. right. exact Hx. }
    destruct (IH (fst p, S (snd p)) cl nl Hc Hnd s Hs) as [H|[Hin H]]; cbn [fst] in *.
    + left. eapply aconn_incl; [exact Hincl|exact H].
    + right. split; [exact Hin|]. eapply aconn_incl; [exact Hincl|exact H].
  - (* DB *)
    inversion Hnd as [|? ? Hcl Hr]; subst.
    assert (Hincl : incl (aents r (S (fst p), 0)) (aents (DB r) p)).
    { unfold aents. cbn [ents assoc]. intros x Hx. exact Hx. }
    destruct (Nat.eq_dec s (fst p)) as [->|Hne]; [left; constructor|].
    right. split; [left; reflexivity|].
    assert (R : forall s', S (fst p) <= s' <= S (fst p) + nbreaks r ->
                conn (aedge (aents r (S (fst p), 0))) (S (fst p)) s').
    { intros s' Hs'. destruct (IH (S (fst p), 0) cl nl Hc Hr s' Hs') as [H|[Hin _]]; [exact H|contradiction]. }
    eapply aconn_incl; [exact Hincl|].
    eapply conn_trans; [apply conn_sym, R; lia|].
    replace (fst p + S (nbreaks r)) with (S (fst p) + nbreaks r) by lia. apply R. lia.
  - (* DP *)
    apply NoDup_app_inv in Hnd. destruct Hnd as (Hni & Hnr & _).
    set (p1 := (fst p, S (snd p))). set (q := adv i p1). set (q1 := (fst q, S (snd q))).
    assert (Hq : fst q = fst p + nbreaks i) by (unfold q; rewrite adv_fst; reflexivity).
    assert (Hq1 : fst q1 = fst q) by reflexivity.
    assert (Hp1 : fst p1 = fst p) by reflexivity.
    assert (HL : aents (DP i r) p = (p, Some q) :: aents i p1 ++ (q, Some p) :: aents r q1).
    { rewrite aents_DP. reflexivity. }
    assert (Hinci : incl (aents i p1) (aents (DP i r) p)).
    { rewrite HL. intros x Hx. right. apply in_or_app. left. exact Hx. }
    assert (Hincr : incl (aents r q1) (aents (DP i r) p)).
    { rewrite HL. intros x Hx. right. apply in_or_app. right. right. exact Hx. }
    assert (Hpair : conn (aedge (aents (DP i r) p)) (fst p) (fst q)).
    { eapply conn_fwd; [|constructor]. exists (snd p), (snd q). rewrite HL. left.
      destruct p, q; reflexivity. }
    (* every strand of the inner forest reaches the first strand *)
    assert (Ri : forall s', fst p <= s' <= fst p + nbreaks i ->
                 conn (aedge (aents (DP i r) p)) (fst p) s').
    { intros s' Hs'.
      destruct (IHi p1 (S nl) (S nl) (le_n _) Hni s' Hs') as [H|[_ H]]; cbn [fst] in H.
      - eapply aconn_incl; [exact Hinci|exact H].
      - eapply conn_trans; [exact Hpair|]. rewrite Hq. apply conn_sym. eapply aconn_incl; [exact Hinci|exact H]. }
    destruct (Nat.le_gt_cases s (fst p + nbreaks i)) as [Hle|Hgt]; [left; apply Ri; lia|].
    assert (Hs2 : fst q1 <= s <= fst q1 + nbreaks r) by (unfold q1; cbn [fst]; lia).
    destruct (IHr q1 cl (S nl + npairs i) ltac:(lia) Hnr s Hs2) as [H|[Hin H]]; cbn [fst] in H.
    + left. eapply conn_trans; [exact Hpair|]. eapply aconn_incl; [exact Hincr|exact H].
    + right. split; [apply in_or_app; right; exact Hin|].
      replace (fst p + (nbreaks i + nbreaks r)) with (fst q + nbreaks r) by lia.
      eapply aconn_incl; [exact Hincr|exact H].
Qed.

Theorem nodup_connected d : NoDup (ends d) -> connected (tab_of d).
Proof.
  intros H. unfold ends in H. apply NoDup_app_inv in H. destruct H as (Hnd & _ & H0).
  assert (R : forall s, s < length (tab_of d) -> conn (edge (tab_of d)) 0 s).
  { intros s Hs. rewrite tab_of_length in Hs.
    destruct (reach_forest d (0, 0) 0 0 (le_n _) Hnd s) as [Hc|[Hin _]]; cbn [fst] in *; [lia| |].
    - eapply conn_mono; [|exact Hc]. intros x y. apply edge_tab_of.
    - exfalso. apply (H0 0 Hin). left. reflexivity. }
  intros s1 s2 H1 H2. eapply conn_trans; [apply conn_sym, R, H1|apply R, H2].
Qed.

(* ------------------------------------------------------------------ *)
(* => : a repeated break loop isolates a block of strands               *)

(* strands u..v are closed under pairing *)
Definition closedI (L : list (loc * option loc)) (u v : nat) : Prop :=
  forall a b, In (a, Some b) L -> (u <= fst a <= v <-> u <= fst b <= v).

Lemma closedI_conn L u v s t :
  closedI L u v -> conn (aedge L) s t -> (u <= s <= v <-> u <= t <= v).
Proof.
  intros Hc. induction 1 as [s|s1 s2 s3 (c1 & c2 & He) _ IH|s1 s2 s3 (c1 & c2 & He) _ IH]; [tauto| |].
  - apply Hc in He. cbn [fst] in He. tauto.
  - apply Hc in He. cbn [fst] in He. tauto.
Qed.

(* a break directly in the loop of the forest: the strands up to the first such
   break are closed *)
Lemma prefix_closed d : forall p cl nl,
  cl <= nl -> In cl (bl d cl nl) ->
  exists v, fst p <= v < fst p + nbreaks d /\ closedI (aents d p) (fst p) v.
Proof.
  induction d as [|r IH|r IH|i IHi r IHr]; intros p cl nl Hc Hin; cbn [bl nbreaks] in *.
  - contradiction.
  - destruct (IH (fst p, S (snd p)) cl nl Hc Hin) as (v & Hv & Hcl); cbn [fst] in *.
    exists v. split; [exact Hv|]. intros a b H. unfold aents in H. cbn [ents assoc] in H.
    destruct H as [H|H]; [discriminate|]. apply Hcl, H.
  - exists (fst p). split; [lia|]. intros a b H. unfold aents in H. cbn [ents assoc] in H.
    apply (aents_strands r (S (fst p), 0)) in H. cbn [fst] in H. lia.
  - apply in_app_or in Hin. destruct Hin as [Hin|Hin].
    { exfalso. apply bl_range in Hin. lia. }
    set (p1 := (fst p, S (snd p))). set (q := adv i p1). set (q1 := (fst q, S (snd q))).
    assert (Hq : fst q = fst p + nbreaks i) by (unfold q; rewrite adv_fst; reflexivity).
    assert (Hq1 : fst q1 = fst q) by reflexivity.
    assert (Hp1 : fst p1 = fst p) by reflexivity.
    destruct (IHr q1 cl (S nl + npairs i) ltac:(lia) Hin) as (v & Hv & Hcl); cbn [fst] in *.
    exists v. split; [lia|]. intros a b H. rewrite aents_DP in H. cbn zeta in H.
    fold p1 in H. fold q in H. fold q1 in H.
    destruct H as [H|H]; [injection H as <- <-; lia|].
    apply in_app_or in H. destruct H as [H|[H|H]].
    + apply (aents_strands i p1) in H. cbn [fst] in H. lia.
    + injection H as <- <-. lia.
    + pose proof (aents_strands r q1 _ _ H) as Hr. cbn [fst] in Hr.
      apply Hcl in H. lia.
Qed.

Lemma dup_closed d : forall p cl nl,
  cl <= nl -> ~ NoDup (bl d cl nl) ->
  exists u v, fst p < u /\ u <= v /\ v < fst p + nbreaks d /\ closedI (aents d p) u v.
Proof.
  induction d as [|r IH|r IH|i IHi r IHr]; intros p cl nl Hc Hnd; cbn [bl nbreaks] in *.
  - exfalso. apply Hnd. constructor.
  - destruct (IH (fst p, S (snd p)) cl nl Hc Hnd) as (u & v & H1 & H2 & H3 & Hcl); cbn [fst] in *.
    exists u, v. split; [lia|]. split; [lia|]. split; [lia|]. intros a b H. unfold aents in H. cbn [ents assoc] in H.
    destruct H as [H|H]; [discriminate|]. apply Hcl, H.
  - destruct (in_dec Nat.eq_dec cl (bl r cl nl)) as [Hin|Hin].
    + destruct (prefix_closed r (S (fst p), 0) cl nl Hc Hin) as (v & Hv & Hcl); cbn [fst] in *.
      exists (S (fst p)), v. split; [lia|]. split; [lia|]. split; [lia|]. exact Hcl.
    + destruct (NoDup_dec_nat (bl r cl nl)) as [Hn|Hn].
      { exfalso. apply Hnd. constructor; assumption. }
      destruct (IH (S (fst p), 0) cl nl Hc Hn) as (u & v & H1 & H2 & H3 & Hcl); cbn [fst] in *.
      exists u, v. split; [lia|]. split; [lia|]. split; [lia|]. exact Hcl.
  - set (p1 := (fst p, S (snd p))). set (q := adv i p1). set (q1 := (fst q, S (snd q))).
    assert (Hq : fst q = fst p + nbreaks i) by (unfold q; rewrite adv_fst; reflexivity).
    assert (Hq1 : fst q1 = fst q) by reflexivity.
    assert (Hp1 : fst p1 = fst p) by reflexivity.
    destruct (NoDup_dec_nat (bl i (S nl) (S nl))) as [Hni|Hni].
    + destruct (NoDup_dec_nat (bl r cl (S nl + npairs i))) as [Hnr|Hnr].
      { exfalso. apply Hnd. apply NoDup_app_intro; [exact Hni|exact Hnr|].
        intros x. apply bl_DP_disjoint, Hc. }
      destruct (IHr q1 cl (S nl + npairs i) ltac:(lia) Hnr) as (u & v & H1 & H2 & H3 & Hcl); cbn [fst] in *.
      exists u, v. split; [lia|]. split; [lia|]. split; [lia|]. intros a b H. rewrite aents_DP in H. cbn zeta in H.
      fold p1 in H. fold q in H. fold q1 in H.
      destruct H as [H|H]; [injection H as <- <-; lia|].
      apply in_app_or in H. destruct H as [H|[H|H]].
      * apply (aents_strands i p1) in H. cbn [fst] in H. lia.
      * injection H as <- <-. lia.
      * apply Hcl, H.
    + destruct (IHi p1 (S nl) (S nl) (le_n _) Hni) as (u & v & H1 & H2 & H3 & Hcl); cbn [fst] in *.
      exists u, v. split; [lia|]. split; [lia|]. split; [lia|]. intros a b H. rewrite aents_DP in H. cbn zeta in H.
      fold p1 in H. fold q in H. fold q1 in H.
      destruct H as [H|H]; [injection H as <- <-; lia|].
      apply in_app_or in H. destruct H as [H|[H|H]].
      * apply Hcl, H.
      * injection H as <- <-. lia.
      * apply (aents_strands r q1) in H. cbn [fst] in H. lia.
Qed.

Theorem connected_nodup d : connected (tab_of d) -> NoDup (ends d).
Proof.
  intros Hconn. destruct (NoDup_dec_nat (ends d)) as [H|H]; [exact H|exfalso].
  assert (Hlen := tab_of_length d).
  assert (C : forall s t, s <= nbreaks d -> t <= nbreaks d -> conn (aedge (aents d (0, 0))) s t).
  { intros s t Hs Ht. eapply conn_mono; [|apply (Hconn s t); lia]. intros x y. apply edge_tab_of. }
  unfold ends in H.
  destruct (NoDup_dec_nat (bl d 0 0)) as [Hn|Hn].
  - destruct (in_dec Nat.eq_dec 0 (bl d 0 0)) as [Hin|Hin].
    + destruct (prefix_closed d (0, 0) 0 0 (le_n _) Hin) as (v & Hv & Hcl); cbn [fst] in *.
      pose proof (closedI_conn _ _ _ _ _ Hcl (C 0 (nbreaks d) ltac:(lia) (le_n _))). lia.
    + apply H. apply NoDup_app_intro; [exact Hn|repeat constructor; intros []|].
      intros x Hx [<-|[]]. contradiction.
  - destruct (dup_closed d (0, 0) 0 0 (le_n _) Hn) as (u & v & H1 & H2 & H3 & Hcl); cbn [fst] in *.
    pose proof (closedI_conn _ _ _ _ _ Hcl (C u 0 ltac:(lia) ltac:(lia))). lia.
Qed.

(* connected_iff *)
Theorem connected_iff d :
  (exists r, make_loop_index (tab_of d) = Ok r) <-> connected (tab_of d).
Proof.
  rewrite li_accepts_iff. split; [apply nodup_connected|apply connected_nodup].
Qed.

Corollary disconnected_sse d :
  ~ connected (tab_of d) -> make_loop_index (tab_of d) = Err eSSE.
Proof.
  intros H. apply li_spec_err. intros Hn. apply H, nodup_connected, Hn.
Qed.

(* non-vacuity *)
Example ex_connected :
  let d := DP (DU (DB (DP (DB DNil) DNil))) DNil in    (* "(.+(+))" *)
  connected (tab_of d) /\ exists r, make_loop_index (tab_of d) = Ok r.
Proof.
  cbn zeta. assert (H : exists r, make_loop_index (tab_of (DP (DU (DB (DP (DB DNil) DNil))) DNil)) = Ok r).
  { eexists. apply li_spec_ok. unfold ends. cbn. repeat constructor; cbn; intuition discriminate. }
  split; [apply connected_iff, H|exact H].
Qed.

Example ex_not_connected :
  let d := DP (DB DNil) (DB (DU DNil)) in              (* "(+)+." *)
  ~ connected (tab_of d) /\ make_loop_index (tab_of d) = Err eSSE.
Proof.
  cbn zeta.
  assert (E : make_loop_index (tab_of (DP (DB DNil) (DB (DU DNil)))) = Err eSSE) by (vm_compute; reflexivity).
  split; [|exact E].
  intros H. apply connected_iff in H. destruct H as [r H]. rewrite E in H. discriminate.
Qed.
