(* Reader model, layer 5: every statement the grammar can produce is read without an
   interpreter-level fault, in every good state; the document loop keeps the session
   invariant.  (C16 reader clauses, C15 reader clause.) *)
From Coq Require Import List NArith ZArith Bool Arith Lia.
From DSD Require Import Base.Str Base.Errors Model.ComplexUtils Model.RegStr Model.ReaderStr Model.PyNum
  Model.Peg Model.Kernel Model.DispatchKernel Model.Heap Model.Registry Model.Reader Model.ReaderShape
  Proofs.RegHeap Proofs.RegInv Proofs.RegCalls Proofs.ReaderBasic Proofs.ReaderStmt Proofs.ReaderHeap
  Proofs.ReaderInv Proofs.ReaderHoare.
From DSD Require Model.Iupac.
Import ListNotations.

Lemma bind_ret {A B} (a : A) (f : A -> M B) : bind (ret a) f = f a.
Proof. reflexivity. Qed.
Lemma bind_ret_ok {A B} (a : A) (f : A -> M B) : bind (fun r => (r, Ok a)) f = f a.
Proof. reflexivity. Qed.

Section NoFault.
  Variable ct : ctable.
  Variables cd cs cc cm cr : nat.
  Hypothesis SO : slots_ok ct cd cs cc cm cr.
  Notation G := (g cd cs cc cm cr).
  Notation KI := (KInv cd cs cc cm cr).
  Notation RGood := (RGood ct cd cs cc cm cr).
  Notation Op := (@Op ct cd cs cc cm cr).

  Lemma op_lift' {A} (P : rstate -> Prop) (x : res A) (Q : A -> rstate -> Prop) :
    (forall r, RGood r -> P r -> match x with Ok a => Q a r | Err k => is_fault k = false end) ->
    Op P (lift x) Q.
  Proof. intros H r GD Pr. specialize (H r GD Pr). unfold lift. destruct x; auto using rext_refl. Qed.

  Lemma op_map {A B} (P : rstate -> Prop) (m : M A) (F : A -> B) Q1 (Q2 : B -> rstate -> Prop) :
    Op P m Q1 -> (forall a r, Q1 a r -> Q2 (F a) r) -> Op P (dm a <- m; ret (F a)) Q2.
  Proof.
    intros Hm HQ r GD Pr. specialize (Hm r GD Pr). unfold bind. destruct (m r) as [r1 [a|k]]; [|exact Hm].
    destruct Hm as [G1 [X1 Q1a]]. cbn. auto.
  Qed.

  Lemma op_get_state' (P : rstate -> Prop) : Op P get_state (fun st r => st = r_st r).
  Proof. intros r GD Pr. cbn. auto using rext_refl. Qed.

  (* ---- the constructor calls ---- *)
  Lemma sext_any_dom fuel st nm len : SExt anyobj st (fst (dom_call fuel ct cd st (Some nm) len None None)).
  Proof.
    apply (sext_dom_call anyobj ct cd (fun _ => True) (fun _ => True)); auto using anyobj_kill; unfold HeapLen; intros; exact I.
  Qed.

  Lemma op_domain (P : rstate -> Prop) nm len :
    nm_ok nm -> (forall z, len = Some z -> (0 <= z)%Z) ->
    Op P (call (fun st => dom_call dom_fuel ct cd st (Some nm) len None None)) (RetQ cd).
  Proof.
    intros Hn Hl. apply op_call; [|intros st; apply sext_any_dom].
    intros r [I1 K1] _.
    destruct (dom_call_spec ct cd cs cc cm cr dom_fuel SO (r_st r) nm len I1 K1 Hn Hl) as [I2 [K2 [R2 F2]]].
    split; [apply callok_dom_call; exact I1|]. auto.
  Qed.

  Lemma op_domain_new (P : rstate -> Prop) nm l :
    nm_ok nm -> (0 <= l)%Z -> Op P (domain_new ct G nm l) (RetQ cd).
  Proof.
    intros Hn Hl. unfold domain_new. cbn [gD g slot]. rewrite bind_ret.
    apply op_domain; [exact Hn|]. intros z E. injection E as <-. exact Hl.
  Qed.

  Lemma op_domain_by_name (P : rstate -> Prop) nm :
    nm_ok nm -> Op P (domain_by_name ct G nm) (RetQ cd).
  Proof.
    intros Hn. unfold domain_by_name. cbn [gD g slot]. rewrite bind_ret.
    apply op_domain; [exact Hn | discriminate].
  Qed.

  Lemma clsat_obj i c r : ClsAt i c r -> exists o, hget (heap (r_st r)) i = Some o /\ o_cls o = c.
  Proof.
    unfold ClsAt, cls_at. destruct (hget (heap (r_st r)) i) as [o|]; [|discriminate].
    cbn. intros H; injection H as <-. eauto.
  Qed.

  Lemma op_invert (P : rstate -> Prop) i :
    (forall r, P r -> ClsAt i cd r) -> Op P (invert ct i) (RetQ cd).
  Proof.
    intros HP. unfold invert. apply op_call; [|].
    - intros r [I1 K1] Pr. destruct (clsat_obj _ _ _ (HP r Pr)) as [o [Ho Hc]].
      destruct (dom_complement_spec ct cd cs cc cm cr (r_st r) i o SO I1 K1 Ho Hc) as [I2 [K2 [R2 F2]]].
      split; [apply callok_dom_complement; exact I1|]. auto.
    - intros st. unfold dom_complement. destruct (hget (heap st) i) as [o|]; [|apply sext_refl].
      destruct (o_data o); try apply sext_refl.
      apply (sext_dom_call anyobj ct (o_cls o) (fun _ => True) (fun _ => True)); auto using anyobj_kill; unfold HeapLen; intros; exact I.
  Qed.

  Lemma op_strand_by_name (P : rstate -> Prop) nm : Op P (strand_by_name ct G nm) (RetQ cs).
  Proof.
    unfold strand_by_name. cbn [gS g slot]. rewrite bind_ret. apply op_call; [|].
    - intros r [I1 K1] _.
      destruct (strand_by_name_spec ct cd cs cc cm cr (r_st r) nm SO I1 K1) as [E [R2 F2]].
      split; [apply callok_strand_call; [exact I1 | intros es x Hx; discriminate]|]. rewrite E. auto.
    - intros st. apply sext_strand_call; [apply anyobj_kill | intros; exact I].
  Qed.

  Lemma op_complex_by_name (P : rstate -> Prop) nm : Op P (complex_by_name ct G nm) (RetQ cc).
  Proof.
    unfold complex_by_name. cbn [gC g slot]. rewrite bind_ret. apply op_call; [|].
    - intros r [I1 K1] _.
      destruct (cplx_by_name_spec ct cd cs cc cm cr (r_st r) nm SO I1 K1) as [E [R2 F2]].
      split; [apply callok_cplx_call; [exact I1 | intros es x Hx; discriminate]|]. rewrite E. auto.
    - intros st. apply sext_cplx_call; [apply anyobj_kill | intros; exact I].
  Qed.

  Lemma op_macro_by_name (P : rstate -> Prop) nm : Op P (macro_by_name ct G nm) (RetQ cm).
  Proof.
    unfold macro_by_name. cbn [gM g slot]. rewrite bind_ret. apply op_call; [|].
    - intros r [I1 K1] _.
      destruct (macro_by_name_spec ct cd cs cc cm cr (r_st r) nm SO I1 K1) as [E [R2 F2]].
      split; [apply callok_macro_call; [exact I1 | apply (cm_lt _ _ _ _ _ _ SO) | intros ms x Hx; discriminate]|].
      rewrite E. auto.
    - intros st. apply sext_macro_call; [apply anyobj_kill | intros; exact I].
  Qed.


  Lemma in_elem_ids (es : list elem) e j : In e es -> snd e = Some j -> In j (elem_ids es).
  Proof.
    intros H E. unfold elem_ids. apply in_flat_map. exists e. split; [exact H|]. rewrite E. left. reflexivity.
  Qed.
  Lemma elem_ids_in (es : list elem) j : In j (elem_ids es) -> exists e, In e es /\ snd e = Some j.
  Proof.
    unfold elem_ids. intros H. apply in_flat_map in H. destruct H as [e [H1 H2]]. exists e. split; [exact H1|].
    destruct (snd e) as [k|]; [destruct H2 as [->|[]]; reflexivity | destruct H2].
  Qed.
  Lemma elem_ids_elem_of st ids : elem_ids (map (elem_of st) ids) = ids.
  Proof. induction ids as [|i ids IH]; cbn; [reflexivity|]. f_equal. exact IH. Qed.

  (* ---- list(Strand(None, name = s).sequence) ---- *)
  Definition SeqQ (es : list elem) (r : rstate) : Prop :=
    exists i, Held i r /\ ClsAt i cs r /\ DataAt i (DStrand es) r.

  Lemma stable_seqq es : Stable (SeqQ es).
  Proof.
    intros r r' X [i [H1 [H2 H3]]]. exists i. split; [eapply stable_held; eauto|].
    split; [eapply stable_cls; eauto | eapply stable_data; eauto].
  Qed.

  (* what a good state knows about the elements of a held strand *)
  Definition ElemQ (e : elem) (r : rstate) : Prop := exists j, snd e = Some j /\ ClsAt j cd r /\ Kept j r.

  Lemma stable_elemq e : Stable (ElemQ e).
  Proof.
    intros r r' X [j [H1 [H2 H3]]]. exists j. split; [exact H1|].
    split; [eapply stable_cls; eauto | eapply stable_kept; eauto].
  Qed.

  Lemma seqq_elems es r : RGood r -> SeqQ es r -> Forall (fun e => ElemQ e r) es.
  Proof.
    intros GD [i [Hh [Hc Hd]]]. destruct (clsat_obj _ _ _ Hc) as [o [Ho Eo]].
    destruct (kinv_strand ct cd cs cc cm cr _ i o (rg_kinv _ _ _ _ _ _ _ GD) SO Ho Eo) as [es' [Ed [Ech [_ [_ F]]]]].
    unfold DataAt, data_at in Hd. rewrite Ho in Hd. cbn in Hd. rewrite Ed in Hd. injection Hd as ->.
    apply Forall_forall. intros e He. rewrite Forall_forall in F. destruct (F e He) as [j [E1 [E2 _]]].
    exists j. split; [exact E1|]. split; [exact E2|]. right. exists i, (elem_ids es).
    split; [exact Hh|]. split; [unfold children_at; rewrite Ho; cbn; rewrite Ech; reflexivity|].
    eapply in_elem_ids; eauto.
  Qed.

  Lemma op_strand_seq (P : rstate -> Prop) nm : Stable P -> Op P (strand_seq ct G nm) SeqQ.
  Proof.
    intros SP. unfold strand_seq.
    eapply op_bind; [apply op_strand_by_name | exact SP | intros i].
    eapply op_bind; [apply op_get_state' | apply stable_and; [exact SP | apply stable_retq] | intros st].
    apply op_lift'. intros r GD [[Pr [Hh Hc]] ->].
    destruct (clsat_obj _ _ _ Hc) as [o [Ho Eo]].
    destruct (kinv_strand ct cd cs cc cm cr _ i o (rg_kinv _ _ _ _ _ _ _ GD) SO Ho Eo) as [es [Ed _]].
    unfold seq_of. rewrite Ho, Ed. exists i. split; [exact Hh|]. split; [exact Hc|].
    unfold DataAt, data_at. rewrite Ho. cbn. rewrite Ed. reflexivity.
  Qed.

  (* ---- results of read_pil_line ---- *)
  Definition ObjQ (c : nat) (o : robj) (r : rstate) : Prop :=
    match o with RObj i => RetQ c i r | RLine _ => False end.

  Lemma forall2_held (xs : list pstr) ids c r :
    Forall2 (fun (_ : pstr) i => RetQ c i r) xs ids -> Forall (fun i => RetQ c i r) ids.
  Proof. intros H. induction H; constructor; auto. Qed.

  (* strand / sup-sequence *)
  Lemma op_comp (P : rstate -> Prop) line nm ds :
    Stable P -> Forall nm_ok ds -> Op P (exec_stmt ct G line (SComp nm ds)) (ObjQ cs).
  Proof.
    intros SP Hds. cbn [exec_stmt].
    eapply op_bind; [apply op_mapM with (Qx := fun (_ : pstr) i => RetQ cd i) | exact SP | intros ids].
    - intros x Hx. apply op_domain_by_name. rewrite Forall_forall in Hds. auto.
    - exact SP.
    - intros x y. apply stable_retq.
    - cbn [gS g slot]. rewrite bind_ret.
      eapply op_bind; [apply op_get_state' | | intros st].
      { apply stable_and; [exact SP|]. apply stable_forall2. intros x y. apply stable_retq. }
      apply op_map with (Q1 := RetQ cs); [|intros i r H; exact H].
      apply op_call.
      + intros r GD [[Pr F2] Est]. subst st. apply forall2_held in F2. rewrite Forall_forall in F2.
        destruct GD as [I1 K1].
        assert (Hlive : forall x, In x (elem_ids (map (elem_of (r_st r)) ids)) -> is_live (heap (r_st r)) x = true).
        { intros x Hx. rewrite elem_ids_elem_of in Hx. apply (held_live ct cd cs cc cm cr x r (mkRGood _ _ _ _ _ _ _ I1 K1)).
          apply (F2 x Hx). }
        assert (Hcls : Forall (fun e => exists j, snd e = Some j /\ cls_at (heap (r_st r)) j = Some cd /\
                                                   obj_name (heap (r_st r)) j = fst e) (map (elem_of (r_st r)) ids)).
        { apply Forall_forall. intros e He. apply in_map_iff in He. destruct He as [j [<- Hj]].
          exists j. split; [reflexivity|]. split; [apply (F2 j Hj) | reflexivity]. }
        destruct (strand_call_spec ct cd cs cc cm cr (r_st r) _ nm SO I1 K1 Hlive Hcls) as [I2 [K2 [R2 F3]]].
        split; [apply callok_strand_call; [exact I1 | intros es x E Hx; injection E as <-; apply Hlive; exact Hx]|]. auto.
      + intros st0. apply sext_strand_call; [apply anyobj_kill | intros; exact I].
  Qed.

  (* length / sequence *)
  Lemma op_dl (P : rstate -> Prop) line nm l :
    Stable P -> nm_ok nm -> (0 <= l)%Z -> Op P (exec_stmt ct G line (SDl nm l)) (ObjQ cd).
  Proof.
    intros SP Hn Hl. cbn [exec_stmt].
    eapply op_bind; [apply op_domain_new; assumption | exact SP | intros i].
    apply op_ret. intros r [_ H]. exact H.
  Qed.

  Lemma op_sl (P : rstate -> Prop) line nm sq chk :
    Stable P -> nm_ok nm -> Op P (exec_stmt ct G line (SSl nm sq chk)) (ObjQ cd).
  Proof.
    intros SP Hn. cbn [exec_stmt].
    eapply op_bind with (Q1 := fun _ _ => True); [| exact SP | intros ?].
    { destruct chk as [n|]; [destruct (Z.eqb n (Z.of_nat (length sq)))|];
        [apply op_ret; auto | apply op_fail; reflexivity | apply op_ret; auto]. }
    eapply op_conseq with (P := P) (Q := ObjQ cd); [| intros r _ [H _]; exact H | auto].
    eapply op_bind; [apply op_domain_new; [exact Hn | lia] | exact SP | intros i].
    eapply op_bind; [apply op_set_seq | apply stable_and; [exact SP | apply stable_retq] | intros ?].
    apply op_ret. intros r [[_ H] _]. exact H.
  Qed.

  (* structure / complex *)
  Lemma elem_ids_app (a b : list elem) : elem_ids (a ++ b) = elem_ids a ++ elem_ids b.
  Proof. unfold elem_ids. apply flat_map_app. Qed.

  Lemma join_ids (r : list (list elem)) : forall s x,
    In x (elem_ids (fold_left (fun a b => a ++ [(sPlus, @None nat)] ++ b) r s)) ->
    exists es, In es (s :: r) /\ In x (elem_ids es).
  Proof.
    induction r as [|b r IH]; intros s x H; cbn [fold_left] in H.
    - exists s. split; [left; reflexivity | exact H].
    - destruct (IH _ x H) as [es [[<-|Hin] Hx]].
      + rewrite !elem_ids_app in Hx. cbn in Hx. apply in_app_or in Hx. destruct Hx as [Hx|Hx].
        * exists s. split; [left; reflexivity | exact Hx].
        * exists b. split; [right; left; reflexivity | exact Hx].
      + exists es. split; [right; right; exact Hin | exact Hx].
  Qed.

  Lemma elemq_kept es x r : Forall (fun e => ElemQ e r) es -> In x (elem_ids es) -> Kept x r.
  Proof.
    intros F Hx. destruct (elem_ids_in es x Hx) as [e [He Ee]]. rewrite Forall_forall in F.
    destruct (F e He) as [j [E1 [_ K]]]. rewrite Ee in E1. injection E1 as <-. exact K.
  Qed.

  Lemma op_cplx_new (P : rstate -> Prop) es ss nm :
    (forall r, RGood r -> P r -> forall x, In x (elem_ids es) -> Kept x r) ->
    Op P (call (fun st => cplx_call ct cc st (Some es) (Some ss) (Some nm) None)) (RetQ cc).
  Proof.
    intros HK. apply op_call.
    - intros r GD Pr. pose proof GD as [I1 K1].
      assert (Hlive : forall x, In x (elem_ids es) -> is_live (heap (r_st r)) x = true).
      { intros x Hx. apply (kept_live ct cd cs cc cm cr x r GD). eapply HK; eauto. }
      destruct (cplx_call_spec ct cd cs cc cm cr (r_st r) es ss nm SO I1 K1 Hlive) as [I2 [K2 [R2 F3]]].
      split; [apply callok_cplx_call; [exact I1 | intros es' x E Hx; injection E as <-; apply Hlive; exact Hx]|]. auto.
    - intros st0. apply sext_cplx_call; [apply anyobj_kill | intros; exact I].
  Qed.

  Lemma forall2_right {A B} (F : B -> Prop) (l : list A) (l' : list B) :
    Forall2 (fun _ y => F y) l l' -> Forall F l'.
  Proof. intros H. induction H; constructor; auto. Qed.

  Lemma op_ssc (P : rstate -> Prop) line nm ss sst :
    Stable P -> Op P (exec_stmt ct G line (SSC nm ss sst)) (ObjQ cc).
  Proof.
    intros SP. cbn [exec_stmt].
    eapply op_bind; [apply op_mapM with (Qx := fun (_ : pstr) es => SeqQ es) | exact SP | intros stab].
    { intros x _. apply op_strand_seq. exact SP. } { exact SP. } { intros x y. apply stable_seqq. }
    assert (SP2 : Stable (fun r => P r /\ Forall2 (fun (_ : pstr) es => SeqQ es r) ss stab)).
    { apply stable_and; [exact SP|]. apply stable_forall2. intros x y. apply stable_seqq. }
    eapply op_bind with (Q1 := fun _ _ => stab <> []); [| exact SP2 | intros ?].
    { destruct stab; [apply op_fail; reflexivity | apply op_ret; intros; discriminate]. }
    eapply op_bind with (Q1 := fun sq _ => forall x, In x (elem_ids sq) -> exists es, In es stab /\ In x (elem_ids es));
      [| apply stable_and; [exact SP2 | apply stable_const] | intros sq].
    { apply op_lift'. intros r GD [_ NE]. destruct stab as [|s0 rest]; [congruence|]. cbn.
      intros x Hx. apply join_ids. exact Hx. }
    cbn [gC g slot]. rewrite bind_ret.
    eapply op_bind; [| | intros i; apply op_ret; intros r [_ H]; exact H].
    2:{ apply stable_and; [apply stable_and; [exact SP2 | apply stable_const] | apply stable_const]. }
    apply op_cplx_new. intros r GD [[[_ F2] _] Hsq] x Hx.
    destruct (Hsq x Hx) as [es [Hes Hx2]].
    apply forall2_right in F2. rewrite Forall_forall in F2.
    eapply elemq_kept; [apply seqq_elems; [exact GD | apply F2; exact Hes] | exact Hx2].
  Qed.

  (* state / macrostate *)
  Lemma op_mac (P : rstate -> Prop) line nm xs :
    Stable P -> Op P (exec_stmt ct G line (SMac nm xs)) (ObjQ cm).
  Proof.
    intros SP. cbn [exec_stmt].
    eapply op_bind with (Q1 := fun ids r => Forall2 (fun (_ : pstr) i => RetQ cc i r) xs ids); [| exact SP | intros ids].
    { unfold key_to_pil. apply op_catch; [| exact SP | apply op_fail; reflexivity].
      apply op_mapM with (Qx := fun (_ : pstr) i => RetQ cc i); [| exact SP | intros x y; apply stable_retq].
      intros x _. apply op_complex_by_name. }
    cbn [gM g slot]. rewrite bind_ret.
    eapply op_bind; [| | intros i; apply op_ret; intros r [_ H]; exact H].
    2:{ apply stable_and; [exact SP|]. apply stable_forall2. intros x y. apply stable_retq. }
    apply op_call.
    - intros r GD [_ F2]. pose proof GD as [I1 K1]. apply forall2_held in F2. rewrite Forall_forall in F2.
      assert (Hlive : forall x, In x ids -> is_live (heap (r_st r)) x = true).
      { intros x Hx. apply (held_live ct cd cs cc cm cr x r GD). apply (F2 x Hx). }
      destruct (macro_call_spec ct cd cs cc cm cr (r_st r) ids nm SO I1 K1 Hlive) as [I2 [K2 [R2 F3]]].
      split; [apply callok_macro_call; [exact I1 | apply (cm_lt _ _ _ _ _ _ SO) |
              intros ms x E Hx; injection E as <-; apply Hlive; exact Hx]|]. auto.
    - intros st0. apply sext_macro_call; [apply anyobj_kill | intros; exact I].
  Qed.

  (* reaction *)
  Lemma op_by_name (P : rstate -> Prop) (b : bool) nm :
    Op P ((if b then macro_by_name ct G else complex_by_name ct G) nm) (fun i r => Held i r).
  Proof.
    destruct b; eapply op_conseq; try (intros r _ H; exact H);
      [apply op_macro_by_name | | apply op_complex_by_name |]; intros a r _ [H _]; exact H.
  Qed.

  Lemma op_rxn (P : rstate -> Prop) line ri :
    Stable P -> Op P (exec_stmt ct G line (SRxn ri)) (ObjQ cr).
  Proof.
    intros SP. cbn [exec_stmt].
    set (b := is_s (ri_type ri) sCondensed).
    eapply op_bind with (Q1 := fun rp r => Forall (fun i => Held i r) (fst rp ++ snd rp)); [| exact SP | intros [re pr]].
    { unfold key_to_pil. apply op_catch; [| exact SP | apply op_fail; reflexivity].
      eapply op_bind; [apply op_mapM with (Qx := fun (_ : pstr) i => Held i) | exact SP | intros re].
      { intros x _. apply (op_by_name P b x). } { exact SP. } { intros x y. apply stable_held. }
      eapply op_bind; [apply op_mapM with (Qx := fun (_ : pstr) i => Held i) | | intros pr].
      { intros x _. apply (op_by_name _ b x). }
      { apply stable_and; [exact SP|]. apply stable_forall2. intros x y. apply stable_held. }
      { intros x y. apply stable_held. }
      { apply stable_and; [exact SP|]. apply stable_forall2. intros x y. apply stable_held. }
      apply op_ret. intros r [[_ F1] F2]. cbn [fst snd]. apply Forall_app. split; eapply forall2_right; eauto. }
    cbn [gR g slot]. rewrite bind_ret.
    assert (SP2 : Stable (fun r => P r /\ Forall (fun i => Held i r) (fst (re, pr) ++ snd (re, pr)))).
    { apply stable_and; [exact SP|]. apply stable_forall. intros x. apply stable_held. }
    eapply op_bind; [| exact SP2 | intros i].
    - apply op_call.
      + intros r GD [_ F2]. pose proof GD as [I1 K1]. cbn [fst snd] in F2. rewrite Forall_forall in F2.
        assert (Hlive : forall x, In x (re ++ pr) -> is_live (heap (r_st r)) x = true).
        { intros x Hx. apply (held_live ct cd cs cc cm cr x r GD). apply (F2 x Hx). }
        destruct (reaction_call_spec ct cd cs cc cm cr (r_st r) re pr (ri_type ri) SO I1 K1 Hlive) as [I2 [K2 [R2 F3]]].
        split; [apply callok_reaction_call; [exact I1 | apply (cr_lt _ _ _ _ _ _ SO) |
                intros rs ps x E Hx; injection E as <- <-; apply Hlive; exact Hx]|]. eauto.
      + intros st0. apply sext_reaction_call; [apply anyobj_kill | intros; exact I].
    - eapply op_bind with (Q1 := fun _ _ => True); [| apply stable_and; [exact SP2 | apply stable_retq] | intros ?].
      { destruct (ri_rate ri); [apply op_set_rate | apply op_ret; auto]. }
      apply op_ret. intros r [[_ H] _]. exact H.
  Qed.

  (* ---- kernel notation ---- *)
  Definition CellQ (c : cell) (r : rstate) : Prop := match c with CDom i => Kept i r | CStr _ => True end.
  Definition CellsQ (cl : list cell) (r : rstate) : Prop := Forall (fun c => CellQ c r) cl.

  Lemma stable_cellq c : Stable (CellQ c).
  Proof. destruct c; [apply stable_true | apply stable_kept]. Qed.
  Lemma stable_cellsq cl : Stable (CellsQ cl).
  Proof. apply stable_forall. apply stable_cellq. Qed.

  Lemma op_assert_domain (P : rstate -> Prop) e :
    (forall r, P r -> ElemQ e r) -> Op P (assert_domain ct G e) CellQ.
  Proof.
    intros HP r GD Pr. unfold assert_domain. cbn [gD g slot]. rewrite bind_ret. unfold bind, get_state.
    destruct (HP r Pr) as [j [Ej [_ Kj]]]. rewrite Ej.
    destruct (isinst ct (r_st r) j cd); cbn.
    - split; [exact GD|]. split; [apply rext_refl | exact Kj].
    - split; [exact GD|]. split; [apply rext_refl | reflexivity].
  Qed.

  Lemma op_invert_elem (P : rstate -> Prop) e :
    Stable P -> (forall r, P r -> ElemQ e r) -> Op P (invert_elem ct e) ElemQ.
  Proof.
    intros SP HP. unfold invert_elem. destruct (snd e) as [i|] eqn:E.
    - eapply op_bind; [apply op_invert | exact SP | intros j].
      { intros r Pr. destruct (HP r Pr) as [i' [Ei [Hc _]]]. rewrite E in Ei. injection Ei as <-. exact Hc. }
      eapply op_bind; [apply op_get_state' | apply stable_and; [exact SP | apply stable_retq] | intros st].
      apply op_ret. intros r [[_ [Hh Hc]] _]. exists j. split; [reflexivity|]. split; [exact Hc | left; exact Hh].
    - intros r GD Pr. destruct (HP r Pr) as [j [Ej _]]. congruence.
  Qed.

  Lemma complement_name_ok d : d <> [] -> exists cn, complement_name d = Ok cn.
  Proof.
    intros H. unfold complement_name. destruct (rev d) as [|c r] eqn:E; [|eauto].
    apply (f_equal (@rev _)) in E. rewrite rev_involutive in E. cbn in E. congruence.
  Qed.

  Lemma op_expand_one (P : rstate -> Prop) d : Stable P -> nm_ok d -> Op P (expand_one ct G d) CellsQ.
  Proof.
    intros SP Hd. unfold expand_one.
    apply op_catch; [| exact SP |].
    - eapply op_bind; [apply op_domain_by_name; exact Hd | exact SP | intros i].
      apply op_ret. intros r [_ [Hh _]]. constructor; [left; exact Hh | constructor].
    - eapply op_bind with (Q1 := fun subseq r => Forall (fun e => ElemQ e r) subseq); [| exact SP | intros subseq].
      + apply op_catch; [| exact SP |].
        * eapply op_conseq; [apply op_strand_seq; exact SP | auto |]. intros es r GD H. apply seqq_elems; assumption.
        * apply op_catch; [| exact SP | apply op_fail; reflexivity].
          destruct (complement_name_ok d (proj1 Hd)) as [cn Ecn]. rewrite Ecn.
          eapply op_bind; [apply op_ret; intros r Pr; exact I | exact SP | intros cn'].
          eapply op_bind; [apply op_strand_seq; apply stable_and; [exact SP | apply stable_true] | apply stable_and; [exact SP | apply stable_true] | intros compl].
          eapply op_conseq with (P := fun r => P r /\ Forall (fun e => ElemQ e r) (rev compl))
                                (Q := fun ys r => Forall2 (fun x y => ElemQ y r) (rev compl) ys).
          -- apply op_mapM with (Qx := fun (_ : elem) y => ElemQ y).
             ++ intros x Hx. apply op_invert_elem.
                ** apply stable_and; [exact SP|]. apply stable_forall. apply stable_elemq.
                ** intros r [_ F]. rewrite Forall_forall in F. apply F. exact Hx.
             ++ apply stable_and; [exact SP|]. apply stable_forall. apply stable_elemq.
             ++ intros x y. apply stable_elemq.
          -- intros r GD [[Pr _] Hq]. split; [exact Pr|]. apply Forall_rev. apply seqq_elems; assumption.
          -- intros ys r GD F. eapply forall2_right. exact F.
      + destruct subseq as [|e0 rest].
        * apply op_ret. intros r _. constructor; [exact I | constructor].
        * eapply op_conseq with (P := fun r => P r /\ Forall (fun e => ElemQ e r) (e0 :: rest))
                                (Q := fun ys r => Forall2 (fun x y => CellQ y r) (e0 :: rest) ys).
          -- apply op_mapM with (Qx := fun (_ : elem) y => CellQ y).
             ++ intros x Hx. apply op_assert_domain. intros r [_ F]. rewrite Forall_forall in F. apply F. exact Hx.
             ++ apply stable_and; [exact SP|]. apply stable_forall. apply stable_elemq.
             ++ intros x y. apply stable_cellq.
          -- intros r _ H. exact H.
          -- intros ys r _ F. eapply forall2_right. exact F.
  Qed.

  Definition kname_ok (x : pstr) : Prop := x = sPlus \/ nm_ok x.

  Lemma op_expand_loop (P : rstate -> Prop) todo :
    Stable P -> Forall (fun x => kname_ok (fst x)) todo ->
    forall done, Op (fun r => P r /\ CellsQ (map fst done) r) (expand_loop ct G todo done)
                    (fun cl r => CellsQ (map fst cl) r).
  Proof.
    intros SP. induction todo as [|[d s] todo IH]; intros Ht done; cbn [expand_loop].
    - apply op_ret. intros r [_ H]. rewrite map_rev. apply Forall_rev. exact H.
    - inversion Ht as [|? ? Hd Ht']; subst. cbn [fst] in Hd.
      destruct (str_eqb d sPlus) eqn:E.
      + eapply op_conseq; [apply (IH Ht' ((CStr d, s) :: done)) | | auto].
        intros r _ [Pr H]. split; [exact Pr|]. cbn [map fst]. constructor; [exact I | exact H].
      + assert (Hn : nm_ok d).
        { destruct Hd as [->|H]; [|exact H]. unfold sPlus in E. cbn in E. discriminate. }
        assert (SP2 : Stable (fun r => P r /\ CellsQ (map fst done) r))
          by (apply stable_and; [exact SP | apply stable_cellsq]).
        eapply op_bind; [apply op_expand_one; [exact SP2 | exact Hn] | exact SP2 | intros cl].
        eapply op_conseq; [apply (IH Ht' (rev (map (fun c => (c, s)) cl) ++ done)) | | auto].
        intros r _ [[Pr H] Hc]. split; [exact Pr|]. unfold CellsQ. rewrite map_app, map_rev, map_map. cbn [fst].
        rewrite map_id. apply Forall_app. split; [apply Forall_rev; exact Hc | exact H].
  Qed.

  Lemma op_first_attempt (P : rstate -> Prop) names :
    Stable P -> Forall kname_ok names -> Op P (first_attempt ct G names) CellsQ.
  Proof.
    intros SP Hn. unfold first_attempt.
    eapply op_conseq with (P := P) (Q := fun ys r => Forall2 (fun (_ : pstr) y => CellQ y r) names ys);
      [| auto | intros ys r _ F; eapply forall2_right; exact F].
    apply op_mapM with (Qx := fun (_ : pstr) y => CellQ y); [| exact SP | intros x y; apply stable_cellq].
    intros x Hx. rewrite Forall_forall in Hn. specialize (Hn x Hx).
    destruct (str_eqb x sPlus) eqn:E; [apply op_ret; intros; exact I|].
    assert (Hx' : nm_ok x) by (destruct Hn as [->|H]; [unfold sPlus in E; cbn in E; discriminate | exact H]).
    eapply op_bind; [apply op_domain_by_name; exact Hx' | exact SP | intros i].
    apply op_ret. intros r [_ [Hh _]]. left. exact Hh.
  Qed.

  Lemma forall_combine {A B} (F : A -> Prop) (l : list A) (l' : list B) :
    Forall F l -> Forall (fun x => F (fst x)) (combine l l').
  Proof.
    intros H. revert l'. induction H as [|x l Hx H IH]; intros [|y l']; cbn; constructor; auto.
  Qed.

  (* the first attempt, and after a SingletonError the expansion loop from the released state *)
  Lemma op_kernel_sequence (P : rstate -> Prop) names sst :
    Stable P -> Forall kname_ok names ->
    Op P (kernel_sequence ct G names sst) (fun x r => CellsQ (fst x) r).
  Proof.
    intros SP Hn r GD Pr. unfold kernel_sequence. unfold bind at 1. unfold nroots at 1. cbv beta iota.
    unfold catch.
    assert (H1 : Op P (dm cl <- first_attempt ct G names; ret (cl, sst)) (fun x r => CellsQ (fst x) r)).
    { eapply op_bind; [apply op_first_attempt; assumption | exact SP | intros cl].
      apply op_ret. intros r0 [_ H]. exact H. }
    specialize (H1 r GD Pr).
    destruct ((dm cl <- first_attempt ct G names; ret (cl, sst)) r) as [r1 [a|k]]; [exact H1|].
    destruct H1 as [G1 [X1 NF]]. destruct (is_sing k); [|auto].
    (* the handler *)
    unfold bind at 1.
    destruct (release_good ct cd cs cc cm cr r r1 [] G1 X1 ltac:(intros i [])) as [G2 [Er Xh]].
    set (r2 := fst (release (length (roots (r_st r))) [] r1)) in *.
    assert (E2 : release (length (roots (r_st r))) [] r1 = (r2, Ok tt)) by reflexivity.
    rewrite E2.
    assert (X2 : RExt r r2).
    { constructor; [rewrite Er; cbn; rewrite app_nil_r; apply prefix_refl | exact Xh]. }
    assert (P2 : P r2) by (eapply SP; eauto).
    assert (H3 : Op P (if negb (length names =? length sst) then fail eBadLine
                       else dm cl <- expand_loop ct G (combine names sst) []; ret (map fst cl, map snd cl))
                      (fun x r => CellsQ (fst x) r)).
    { destruct (negb (length names =? length sst)); [apply op_fail; reflexivity|].
      eapply op_bind; [| exact SP | intros cl; apply op_ret; intros r0 [_ H]; exact H].
      eapply op_conseq; [apply (op_expand_loop P (combine names sst) SP) with (done := []) | | auto].
      - apply forall_combine. exact Hn.
      - intros r0 _ Pr0. split; [exact Pr0 | constructor]. }
    specialize (H3 r2 G2 P2).
    match goal with |- match ?m r2 with _ => _ end => destruct (m r2) as [r3 [a|k3]] end;
      destruct H3 as [G3 [X3 R3]]; (split; [exact G3|]; split; [eapply rext_trans; eauto | exact R3]).
  Qed.

  Lemma op_ker (P : rstate -> Prop) line nm names sst conc0 :
    Stable P -> Forall kname_ok names -> Op P (exec_stmt ct G line (SKer nm names sst conc0)) (ObjQ cc).
  Proof.
    intros SP Hn. cbn [exec_stmt].
    eapply op_bind; [apply op_kernel_sequence; assumption | exact SP | intros [cl ss]].
    cbn [gC g slot]. rewrite bind_ret. cbn [fst snd].
    assert (SP2 : Stable (fun r => P r /\ CellsQ cl r)) by (apply stable_and; [exact SP | apply stable_cellsq]).
    eapply op_bind; [apply op_get_state' | exact SP2 | intros st].
    eapply op_conseq with (P := fun r => P r /\ CellsQ cl r) (Q := ObjQ cc);
      [| intros r _ [H _]; exact H | auto].
    eapply op_bind; [| exact SP2 | intros i].
    - apply op_cplx_new. intros r GD [_ Hc] x Hx.
      destruct (elem_ids_in _ x Hx) as [e [He Ee]]. apply in_map_iff in He. destruct He as [c0 [<- Hc0]].
      unfold CellsQ in Hc. rewrite Forall_forall in Hc. specialize (Hc c0 Hc0).
      destruct c0 as [s0|j]; cbn in Ee; [discriminate|]. injection Ee as <-. exact Hc.
    - eapply op_bind with (Q1 := fun _ _ => True); [| apply stable_and; [exact SP2 | apply stable_retq] | intros ?].
      { destruct conc0; [apply op_set_conc | apply op_ret; auto]. }
      apply op_ret. intros r [[_ H] _]. exact H.
  Qed.

  (* ---- every statement ---- *)
  Definition stmt_ok (s : stmt) : Prop :=
    match s with
    | SDl nm l => nm_ok nm /\ (0 <= l)%Z
    | SSl nm _ _ => nm_ok nm
    | SComp _ ds => Forall nm_ok ds
    | SKer _ names _ _ => Forall kname_ok names
    | _ => True
    end.

  Definition ResQ (o : robj) (r : rstate) : Prop :=
    match o with
    | RObj i => Held i r /\ (ClsAt i cd r \/ ClsAt i cs r \/ ClsAt i cc r \/ ClsAt i cm r \/ ClsAt i cr r)
    | RLine _ => True
    end.

  Lemma objq_resq c o r : In c [cd; cs; cc; cm; cr] -> ObjQ c o r -> ResQ o r.
  Proof.
    destruct o as [i|l]; cbn [ObjQ ResQ]; [|auto]. intros Hc [H1 H2]. split; [exact H1|].
    cbn in Hc. destruct Hc as [<-|[<-|[<-|[<-|[<-|[]]]]]]; auto.
  Qed.

  Theorem op_exec_stmt (P : rstate -> Prop) line s :
    Stable P -> stmt_ok s -> Op P (exec_stmt ct G line s) ResQ.
  Proof.
    intros SP Hs. destruct s; cbn [stmt_ok] in Hs.
    - destruct Hs. eapply op_conseq; [apply op_dl; eauto | auto | intros a r _; apply objq_resq; cbn; auto].
    - eapply op_conseq; [apply op_sl; eauto | auto | intros a r _; apply objq_resq; cbn; auto].
    - eapply op_conseq; [apply op_comp; eauto | auto | intros a r _; apply objq_resq; cbn; auto].
    - eapply op_conseq; [apply op_ssc; eauto | auto | intros a r _; apply objq_resq; cbn; auto].
    - eapply op_conseq; [apply op_ker; eauto | auto | intros a r _; apply objq_resq; cbn; auto].
    - eapply op_conseq; [apply op_mac; eauto | auto | intros a r _; apply objq_resq; cbn; auto].
    - eapply op_conseq; [apply op_rxn; eauto | auto | intros a r _; apply objq_resq; cbn; auto 10].
    - apply op_ret. intros; exact I.
  Qed.

  (* ---- filing the object: the if / elif chain of the document loop ---- *)
  (* an instance of a later slot's class is not an instance of an earlier slot's class *)
  Definition isinstance_ok : Prop :=
    let sub := subclass (length ct) ct in
    sub cs cd = false /\ sub cc cd = false /\ sub cc cs = false /\
    sub cm cd = false /\ sub cm cs = false /\ sub cm cc = false /\
    sub cr cd = false /\ sub cr cs = false /\ sub cr cc = false /\ sub cr cm = false.
  Hypothesis IO : isinstance_ok.

  Lemma subclass_refl fuel c : subclass fuel ct c c = true.
  Proof. destruct fuel; cbn; rewrite Nat.eqb_refl; reflexivity. Qed.

  Lemma op_ext {A} (P : rstate -> Prop) (m m' : M A) Q : (forall r, m r = m' r) -> Op P m' Q -> Op P m Q.
  Proof. intros E H r GD Pr. rewrite E. apply H; assumption. Qed.

  Lemma op_pre_pure {A} (F : Prop) (P : rstate -> Prop) (m : M A) Q :
    (F -> Op P m Q) -> Op (fun r => P r /\ F) m Q.
  Proof. intros H r GD [Pr Hf]. apply (H Hf r GD Pr). Qed.

  Lemma op_inst_slot (P : rstate -> Prop) i c d :
    (forall r, P r -> ClsAt i c r) ->
    Op P (inst_slot ct i (Some d)) (fun b _ => b = subclass (length ct) ct c d).
  Proof.
    intros HP r GD Pr. unfold inst_slot. cbn [slot]. rewrite bind_ret. unfold bind, get_state, ret.
    split; [exact GD|]. split; [apply rext_refl|].
    destruct (clsat_obj _ _ _ (HP r Pr)) as [o [Ho Ec]]. unfold isinst. rewrite Ho, Ec. reflexivity.
  Qed.

  Lemma rwc_err rna sq k : Iupac.reverse_wc_complement rna sq = Err k -> k = eKey.
  Proof.
    unfold Iupac.reverse_wc_complement, Iupac.map_tab. destruct (Val.omap _ _); [discriminate|].
    intros H; injection H as <-; reflexivity.
  Qed.

  Definition KeepQ (o : robj) (res : pilout * list nat) (r : rstate) : Prop :=
    Forall (fun j => Held j r) (snd res) /\ match o with RObj i => In i (snd res) | RLine _ => True end.

  Lemma op_file_dom (P : rstate -> Prop) i acc :
    Stable P -> Op (fun r => P r /\ (Held i r /\ ClsAt i cd r)) (file_obj ct G (RObj i) acc) (KeepQ (RObj i)).
  Proof.
    intros SP. cbn [file_obj gD gS gC gM gR g].
    assert (SP1 : Stable (fun r => P r /\ (Held i r /\ ClsAt i cd r))) by (apply stable_and; [exact SP | apply stable_retq]).
    eapply op_bind; [apply op_inst_slot with (c := cd); intros r [_ [_ H]]; exact H | exact SP1 | intros b].
    cbv beta. apply op_pre_pure. intros ->. rewrite subclass_refl.
    eapply op_bind; [apply op_get_state' | exact SP1 | intros st].
    eapply op_conseq with (P := fun r => P r /\ (Held i r /\ ClsAt i cd r)) (Q := KeepQ (RObj i));
      [| intros r _ [H _]; exact H | auto].
    eapply op_bind; [apply op_invert; intros r [_ [_ H]]; exact H | exact SP1 | intros comp].
    assert (SP2 : Stable (fun r => (P r /\ (Held i r /\ ClsAt i cd r)) /\ RetQ cd comp r))
      by (apply stable_and; [exact SP1 | apply stable_retq]).
    eapply op_bind; [apply op_self | exact SP2 | intros r0].
    eapply op_conseq with (P := fun r => (P r /\ (Held i r /\ ClsAt i cd r)) /\ RetQ cd comp r) (Q := KeepQ (RObj i));
      [| intros r _ [H _]; exact H | auto].
    eapply op_bind with (Q1 := fun _ _ => True); [| exact SP2 | intros ?].
    { destruct (attr_get i (r_seq r0)) as [sq|]; [|apply op_ret; auto].
      destruct (attr_get comp (r_seq r0)); [apply op_ret; auto|].
      destruct (Iupac.reverse_wc_complement false sq) as [s'|k] eqn:E; [apply op_set_seq|].
      apply rwc_err in E. subst k. cbn. apply op_fail. reflexivity. }
    eapply op_bind; [apply op_get_state' | apply stable_and; [exact SP2 | apply stable_true] | intros st2].
    apply op_ret. intros r [[[[_ [Hi _]] [Hc _]] _] _]. unfold KeepQ. cbn [snd]. split; [repeat constructor; assumption | left; reflexivity].
  Qed.

  Ltac next_slot kls :=
    eapply op_bind; [apply op_inst_slot with (c := kls); intros r [_ [_ H]]; exact H | | intros ?b];
    [apply stable_and; [assumption | apply stable_retq] | cbv beta; apply op_pre_pure; intros ->].

  Lemma op_file_strand (P : rstate -> Prop) i acc :
    Stable P -> Op (fun r => P r /\ (Held i r /\ ClsAt i cs r)) (file_obj ct G (RObj i) acc) (KeepQ (RObj i)).
  Proof.
    intros SP. destruct IO as [E1 _]. cbn [file_obj gD gS gC gM gR g]. cbv zeta in E1.
    next_slot cs. rewrite E1. next_slot cs. rewrite subclass_refl.
    eapply op_bind; [apply op_get_state' | apply stable_and; [exact SP | apply stable_retq] | intros st].
    apply op_ret. intros r [[_ [Hi _]] _]. unfold KeepQ. cbn [snd]. split; [repeat constructor; assumption | left; reflexivity].
  Qed.

  Lemma op_file_cplx (P : rstate -> Prop) i acc :
    Stable P -> Op (fun r => P r /\ (Held i r /\ ClsAt i cc r)) (file_obj ct G (RObj i) acc) (KeepQ (RObj i)).
  Proof.
    intros SP. destruct IO as [_ [E1 [E2 _]]]. cbn [file_obj gD gS gC gM gR g]. cbv zeta in E1, E2.
    next_slot cc. rewrite E1. next_slot cc. rewrite E2.
    eapply op_bind; [apply op_get_state' | apply stable_and; [exact SP | apply stable_retq] | intros st].
    eapply op_conseq with (P := fun r => P r /\ (Held i r /\ ClsAt i cc r)) (Q := KeepQ (RObj i));
      [| intros r _ [H _]; exact H | auto].
    next_slot cc. rewrite subclass_refl.
    apply op_ret. intros r [_ [Hi _]]. unfold KeepQ. cbn [snd]. split; [repeat constructor; assumption | left; reflexivity].
  Qed.

  Lemma op_file_mac (P : rstate -> Prop) i acc :
    Stable P -> Op (fun r => P r /\ (Held i r /\ ClsAt i cm r)) (file_obj ct G (RObj i) acc) (KeepQ (RObj i)).
  Proof.
    intros SP. destruct IO as [_ [_ [_ [E1 [E2 [E3 _]]]]]]. cbn [file_obj gD gS gC gM gR g]. cbv zeta in E1, E2, E3.
    next_slot cm. rewrite E1. next_slot cm. rewrite E2.
    eapply op_bind; [apply op_get_state' | apply stable_and; [exact SP | apply stable_retq] | intros st].
    eapply op_conseq with (P := fun r => P r /\ (Held i r /\ ClsAt i cm r)) (Q := KeepQ (RObj i));
      [| intros r _ [H _]; exact H | auto].
    next_slot cm. rewrite E3. next_slot cm. rewrite subclass_refl.
    apply op_ret. intros r [_ [Hi _]]. unfold KeepQ. cbn [snd]. split; [repeat constructor; assumption | left; reflexivity].
  Qed.

  Lemma op_get_state2 (P : rstate -> Prop) : Op P get_state (fun st r => st = r_st r /\ P r).
  Proof. intros r GD Pr. cbn. auto using rext_refl. Qed.

  Lemma op_file_rxn (P : rstate -> Prop) i acc :
    Stable P -> Op (fun r => P r /\ (Held i r /\ ClsAt i cr r)) (file_obj ct G (RObj i) acc) (KeepQ (RObj i)).
  Proof.
    intros SP. destruct IO as [_ [_ [_ [_ [_ [_ [E1 [E2 [E3 E4]]]]]]]]]. cbn [file_obj gD gS gC gM gR g].
    cbv zeta in E1, E2, E3, E4.
    assert (SP1 : Stable (fun r => P r /\ (Held i r /\ ClsAt i cr r))) by (apply stable_and; [exact SP | apply stable_retq]).
    next_slot cr. rewrite E1. next_slot cr. rewrite E2.
    eapply op_bind with (Q1 := fun st _ => exists t, rtype_of st i = Ok t); [| exact SP1 | intros st].
    { eapply op_conseq with (P := fun r => P r /\ (Held i r /\ ClsAt i cr r))
                            (Q := fun st r => st = r_st r /\ (P r /\ (Held i r /\ ClsAt i cr r)));
        [apply op_get_state2 | intros r _ H; exact H |]. intros st r GD [-> [_ [_ Hc]]].
      destruct (clsat_obj _ _ _ Hc) as [o [Ho Eo]].
      pose proof (kinv_rxn ct cd cs cc cm cr _ i o (rg_kinv _ _ _ _ _ _ _ GD) SO Ho Eo) as Hr.
      unfold rtype_of. rewrite Ho. destruct Hr as [a [b [t [m [rr [pp [Ed _]]]]]]]. rewrite Ed. eauto. }
    cbv beta. apply op_pre_pure. intros [t Et].
    next_slot cr. rewrite E3. next_slot cr. rewrite E4. next_slot cr. rewrite subclass_refl.
    rewrite Et. unfold lift. rewrite bind_ret_ok.
    destruct (is_s t sCondensed); apply op_ret; intros r [_ [Hi _]]; unfold KeepQ; cbn [snd]; (split; [repeat constructor; assumption | left; reflexivity]).
  Qed.

  Lemma op_file_line (P : rstate -> Prop) l acc : Op P (file_obj ct G (RLine l) acc) (KeepQ (RLine l)).
  Proof.
    cbn [file_obj gD gS gC gM gR g slot]. rewrite !bind_ret. apply op_ret. intros r _. split; [constructor | exact I].
  Qed.

  Theorem op_file_obj (P : rstate -> Prop) o acc :
    Stable P -> Op (fun r => P r /\ ResQ o r) (file_obj ct G o acc) (KeepQ o).
  Proof.
    intros SP. destruct o as [i|l]; [|apply op_file_line].
    intros r GD [Pr [Hh [Hc|[Hc|[Hc|[Hc|Hc]]]]]].
    - apply (op_file_dom P i acc SP r GD); auto.
    - apply (op_file_strand P i acc SP r GD); auto.
    - apply (op_file_cplx P i acc SP r GD); auto.
    - apply (op_file_mac P i acc SP r GD); auto.
    - apply (op_file_rxn P i acc SP r GD); auto.
  Qed.

  (* ---- the document loop ---- *)
  Definition line_ok (lt : tok) : Prop :=
    exists line s, lt = TList line /\ decode line = Ok s /\ stmt_ok s.

  Lemma g_full : cfg_full G.
  Proof. exists cd, cs, cc, cm, cr. reflexivity. Qed.

  Lemma op_read_pil_line (P : rstate -> Prop) line s :
    Stable P -> decode line = Ok s -> stmt_ok s -> Op P (read_pil_line ct G line) ResQ.
  Proof.
    intros SP Hd Hs. eapply op_ext; [apply (read_pil_line_decode ct G line s g_full Hd) | apply op_exec_stmt; assumption].
  Qed.

  Lemma read_one_good lt acc r :
    line_ok lt -> RGood r ->
    match read_one ct G None lt acc r with
    | (r', Ok _) => RGood r' /\ RExt r r'
    | (r', Err k) => RGood r' /\ RExt r r' /\ is_fault k = false
    end.
  Proof.
    intros [line [s [-> [Hd Hs]]]] GD. unfold read_one. cbn [t_list]. rewrite bind_lift_Ok. cbn [ignored].
    rewrite bind_lift_Ok. unfold bind at 1. unfold nroots at 1. cbv beta iota.
    pose proof (op_read_pil_line (fun _ => True) line s stable_true Hd Hs r GD I) as H1.
    unfold bind at 1. destruct (read_pil_line ct G line r) as [r1 [o|k]]; [|exact H1].
    destruct H1 as [G1 [X1 Q1]].
    pose proof (op_file_obj (fun _ => True) o acc stable_true r1 G1 (conj I Q1)) as H2.
    unfold bind at 1. destruct (file_obj ct G o acc r1) as [r2 [res|k]].
    2:{ destruct H2 as [G2 [X2 NF]]. split; [exact G2|]. split; [eapply rext_trans; eauto | exact NF]. }
    destruct H2 as [G2 [X2 Q2]].
    assert (X02 : RExt r r2) by (eapply rext_trans; eauto).
    assert (Hlive : forall i, In i (snd res) -> is_live (heap (r_st r2)) i = true).
    { intros i Hi. apply (held_live ct cd cs cc cm cr i r2 G2). destruct Q2 as [Q2 _]. rewrite Forall_forall in Q2. auto. }
    destruct (release_good ct cd cs cc cm cr r r2 (snd res) G2 X02 Hlive) as [G3 [Er Xh]].
    set (r3 := fst (release (length (roots (r_st r))) (snd res) r2)) in *.
    assert (E3 : release (length (roots (r_st r))) (snd res) r2 = (r3, Ok tt)) by reflexivity.
    unfold bind. rewrite E3. unfold ret.
    split; [exact G3|]. constructor; [rewrite Er; eexists; reflexivity | exact Xh].
  Qed.

  Lemma read_lines_good lines : Forall line_ok lines -> forall acc r, RGood r ->
    match read_lines ct G None lines acc r with
    | (r', Ok _) => RGood r' /\ RExt r r'
    | (r', Err k) => RGood r' /\ RExt r r' /\ is_fault k = false
    end.
  Proof.
    intros F. induction F as [|lt lines Hl F IH]; intros acc r GD; cbn [read_lines].
    - cbn. split; [exact GD | apply rext_refl].
    - unfold bind. pose proof (read_one_good lt acc r Hl GD) as H1.
      destruct (read_one ct G None lt acc r) as [r1 [acc1|k]]; [|exact H1].
      destruct H1 as [G1 X1]. specialize (IH acc1 r1 G1).
      destruct (read_lines ct G None lines acc1 r1) as [r2 [o|k]].
      + destruct IH as [G2 X2]. split; [exact G2 | eapply rext_trans; eauto].
      + destruct IH as [G2 [X2 NF]]. split; [exact G2|]. split; [eapply rext_trans; eauto | exact NF].
  Qed.

  Lemma forall_filter {A} (F : A -> Prop) (f : A -> bool) l : Forall F l -> Forall F (filter f l).
  Proof.
    intros H. induction H as [|x l Hx H IH]; cbn; [constructor|]. destruct (f x); [constructor; assumption | exact IH].
  Qed.

  (* C16: reading any list of statements the grammar can produce returns a dictionary or raises a
     kind that is not an interpreter-level fault; either way the session stays good: every object
     held before is still a registered singleton, and after a failed read nothing of it is left
     (the state is collected with the roots the user had before) *)
  Theorem read_pil_good ig lines r :
    Forall line_ok lines -> RGood r ->
    match read_pil ct G ig lines r with
    | (r', Ok _) => RGood r' /\ RExt r r'
    | (r', Err k) => RGood r' /\ roots (r_st r') = roots (r_st r) /\
                     HExt anyobj (heap (r_st r)) (heap (r_st r')) /\ is_fault k = false
    end.
  Proof.
    intros F GD. rewrite ignore_skips_read_pil. unfold read_pil.
    pose proof (read_lines_good _ (forall_filter line_ok (fun l => negb (line_ignored ig l)) lines F) empty_out r GD) as H.
    destruct (read_lines ct G None _ empty_out r) as [r1 [o|k]]; [exact H|].
    destruct H as [G1 [X1 NF]].
    destruct (release_good ct cd cs cc cm cr r r1 [] G1 X1 ltac:(intros i [])) as [G2 [Er Xh]].
    unfold release in G2, Er, Xh. cbn [fst] in G2, Er, Xh.
    split; [exact G2|]. split; [rewrite Er; cbn; apply app_nil_r|]. split; [exact Xh | exact NF].
  Qed.
End NoFault.
