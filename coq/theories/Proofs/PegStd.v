(* preParse as a pure function on strings for tables whose only ignorable
   expression is Suppress(Regex('#.*')) (the python-style comment), and string
   lemmas for symbolic execution: blanks, comments, maximal runs. *)
From Coq Require Import List NArith Bool Arith Lia.
From DSD Require Import Base.Str Model.Peg Proofs.PegMono Proofs.PegRules.
Import ListNotations.

(* ---------------------------------------------------------------- strings *)
Definition blanks (ws : list chr) (b : pstr) : Prop := forallb (fun c => memc c ws) b = true.
Definition nohead (cs : list chr) (s : pstr) : Prop :=
  match s with c :: _ => memc c cs = false | [] => True end.
Definition all_in (cs : list chr) (s : pstr) : Prop := forallb (fun c => memc c cs) s = true.
Definition no_nl (s : pstr) : Prop := forallb (fun c => negb (N.eqb c NL)) s = true.

Lemma blanks_nil ws : blanks ws []. Proof. reflexivity. Qed.
Lemma blanks_cons ws c b : memc c ws = true -> blanks ws b -> blanks ws (c :: b).
Proof. unfold blanks; cbn; intros -> ->; reflexivity. Qed.
Lemma blanks_app ws a b : blanks ws a -> blanks ws b -> blanks ws (a ++ b).
Proof. unfold blanks. rewrite forallb_app. intros -> ->. reflexivity. Qed.

Lemma skip_ws_blanks ws b r : blanks ws b -> skip_ws ws (b ++ r) = skip_ws ws r.
Proof.
  unfold blanks. induction b as [|c b IH]; cbn; [reflexivity|].
  intros H. apply andb_prop in H as [-> H]. apply IH. exact H.
Qed.
Lemma skip_ws_stop ws c r : memc c ws = false -> skip_ws ws (c :: r) = c :: r.
Proof. cbn. intros ->. reflexivity. Qed.
Lemma skip_ws_all ws b : blanks ws b -> skip_ws ws b = [].
Proof. intros H. rewrite <- (app_nil_r b), skip_ws_blanks by exact H. reflexivity. Qed.
Lemma skip_ws_length ws s : length (skip_ws ws s) <= length s.
Proof. induction s as [|c s IH]; cbn; [lia|]. destruct (memc c ws); cbn; lia. Qed.
Lemma skip_ws_idem ws s : skip_ws ws (skip_ws ws s) = skip_ws ws s.
Proof.
  induction s as [|c s IH]; cbn; [reflexivity|].
  destruct (memc c ws) eqn:E; [exact IH|]. cbn. rewrite E. reflexivity.
Qed.
Lemma skip_ws_head ws s : nohead ws (skip_ws ws s).
Proof.
  induction s as [|c s IH]; cbn; [exact I|]. destruct (memc c ws) eqn:E; [exact IH|]. cbn. exact E.
Qed.

Lemma upto_nl_length s : length (snd (upto_nl s)) <= length s.
Proof.
  induction s as [|c s IH]; cbn; [lia|]. destruct (N.eqb c NL); cbn; [lia|].
  destruct (upto_nl s); cbn in *; lia.
Qed.
Lemma upto_nl_app a r : no_nl a -> upto_nl (a ++ NL :: r) = (a, NL :: r).
Proof.
  unfold no_nl. induction a as [|c a IH]; cbn; [reflexivity|].
  intros H. apply andb_prop in H as [Hc H]. destruct (N.eqb c NL); [discriminate|].
  rewrite (IH H). reflexivity.
Qed.
Lemma upto_nl_all a : no_nl a -> upto_nl a = (a, []).
Proof.
  unfold no_nl. induction a as [|c a IH]; cbn; [reflexivity|].
  intros H. apply andb_prop in H as [Hc H]. destruct (N.eqb c NL); [discriminate|].
  rewrite (IH H). reflexivity.
Qed.
Lemma upto_nl_head s : match snd (upto_nl s) with c :: _ => c = NL | [] => True end.
Proof.
  induction s as [|c s IH]; cbn; [exact I|]. destruct (N.eqb_spec c NL); cbn; [assumption|].
  destruct (upto_nl s); cbn in *; exact IH.
Qed.

(* maximal runs *)
Lemma span_app cs a r : all_in cs a -> nohead cs r -> span cs None (a ++ r) = (a, r).
Proof.
  unfold all_in. induction a as [|c a IH]; cbn.
  - intros _ H. destruct r as [|d r]; cbn; [reflexivity|]. cbn in H. rewrite H. reflexivity.
  - intros H Hr. apply andb_prop in H as [-> H]. rewrite (IH H Hr). reflexivity.
Qed.
Lemma run_token_word init body c a r :
  memc c init = true -> all_in body a -> nohead body r ->
  run_token init body 1 0 true (c :: a ++ r) = POk (At r) [TStr (c :: a)].
Proof.
  intros Hc Ha Hr. unfold run_token. rewrite Hc, (span_app body a r Ha Hr). cbn. reflexivity.
Qed.
Lemma run_token_run init body chk c a r :
  memc c init = true -> all_in body a -> nohead body r ->
  run_token init body 1 0 chk (c :: a ++ r) = POk (At r) [TStr (c :: a)].
Proof.
  intros Hc Ha Hr. unfold run_token. rewrite Hc, (span_app body a r Ha Hr). cbn. rewrite andb_false_r. reflexivity.
Qed.
Lemma run_token_fail init body wmin wmax chk c r :
  memc c init = false -> run_token init body wmin wmax chk (c :: r) = PFail.
Proof. intros H. unfold run_token. rewrite H. reflexivity. Qed.

Lemma starts_with_app s r : starts_with s (s ++ r) = Some r.
Proof. induction s as [|c s IH]; cbn; [reflexivity|]. rewrite N.eqb_refl. exact IH. Qed.

(* a token character: neither blank, nor '#', nor newline *)
Definition stopc (WS : list chr) (d : chr) : bool :=
  negb (memc d WS) && negb (N.eqb d HASH) && negb (N.eqb d NL).
Lemma stopc_elim WS d : stopc WS d = true -> memc d WS = false /\ N.eqb d HASH = false /\ N.eqb d NL = false.
Proof.
  unfold stopc. intros H. apply andb_prop in H as [H H3]. apply andb_prop in H as [H1 H2].
  repeat split; apply negb_true_iff; assumption.
Qed.
Lemma memc_forallb cs (P : chr -> bool) d : forallb P cs = true -> memc d cs = true -> P d = true.
Proof.
  intros H Hd. unfold memc in Hd. apply existsb_exists in Hd as (e & Hin & He).
  apply N.eqb_eq in He. subst e. rewrite forallb_forall in H. apply H. exact Hin.
Qed.

(* ---------------------------------------------------------------- preParse *)
Definition std_skip_ign (WS : list chr) (x : pstr) : pstr :=
  match skip_ws WS x with
  | c0 :: r => if N.eqb c0 HASH then snd (upto_nl r) else x
  | [] => x
  end.

(* the ignorable expression: Suppress [Regex '#.*'], itself without ignorables,
   skipping WS, which contains neither '\n' nor '#' *)
Definition comment_ok (g : list node) (c : nat) (WS : list chr) : bool :=
  match nth_error g c with
  | Some cn =>
      match nkind cn, nkids cn, nign cn with
      | KSuppress, [rx], [] =>
          nskip cn && ncallpre cn && list_eqb N.eqb (nws cn) WS &&
          negb (memc NL WS) && negb (memc HASH WS) &&
          match nth_error g rx with
          | Some rn => match nkind rn, nkids rn with KComment, [] => true | _, _ => false end
          | None => false
          end
      | _, _, _ => false
      end
  | None => false
  end.

(* preParse of a node whose ignorables are none or exactly the comment *)
Definition pre_fn (c : nat) (WS : list chr) (nd : node) (x : pstr) : option pstr :=
  match nign nd with
  | [] => Some (if nskip nd then skip_ws (nws nd) x else x)
  | [c'] => if c' =? c
            then Some (if nskip nd then skip_ws (nws nd) (std_skip_ign WS x) else std_skip_ign WS x)
            else None
  | _ => None
  end.

Section Std.
  Variable g : list node.
  Variable full : pstr.
  Variable c : nat.
  Variable WS : list chr.
  Hypothesis Hok : comment_ok g c WS = true.
  Notation evals := (evals g full).

  Lemma ws_no_nl : memc NL WS = false.
  Proof.
    unfold comment_ok in Hok. destruct (nth_error g c) as [cn|]; [|discriminate].
    destruct (nkind cn); try discriminate. destruct (nkids cn) as [|rx [|? ?]]; try discriminate.
    destruct (nign cn); try discriminate.
    repeat (apply andb_prop in Hok as [Hok ?]). destruct (memc NL WS); [discriminate|reflexivity].
  Qed.
  Lemma ws_no_hash : memc HASH WS = false.
  Proof.
    unfold comment_ok in Hok. destruct (nth_error g c) as [cn|]; [|discriminate].
    destruct (nkind cn); try discriminate. destruct (nkids cn) as [|rx [|? ?]]; try discriminate.
    destruct (nign cn); try discriminate.
    repeat (apply andb_prop in Hok as [Hok ?]). destruct (memc HASH WS); [discriminate|reflexivity].
  Qed.

  Definition comment_res (x : pstr) : option pos :=
    match skip_ws WS x with
    | c0 :: r => if N.eqb c0 HASH then Some (At (snd (upto_nl r))) else None
    | [] => None
    end.

  Lemma evals_comment x :
    exists r, evals c true (At x) r /\
      match comment_res x with Some p' => exists t, r = POk p' t | None => r = PFail end.
  Proof.
    unfold comment_ok in Hok. destruct (nth_error g c) as [cn|] eqn:Hc; [|discriminate].
    destruct (nkind cn) eqn:Hk; try discriminate.
    destruct (nkids cn) as [|rx [|? ?]] eqn:Hkids; try discriminate.
    destruct (nign cn) eqn:Hign; try discriminate.
    destruct (nth_error g rx) as [rn|] eqn:Hrx; [|repeat (apply andb_prop in Hok as [Hok ?]); discriminate].
    apply andb_prop in Hok as [H1 H6]. apply andb_prop in H1 as [H1 H5]. apply andb_prop in H1 as [H1 H4].
    apply andb_prop in H1 as [H1 H3]. apply andb_prop in H1 as [H1 H2].
    destruct (nkind rn) eqn:Hkr; try discriminate. destruct (nkids rn) eqn:Hkidsr; try discriminate.
    apply (list_eqb_iff N.eqb N.eqb_eq) in H3.
    set (y := skip_ws WS x).
    assert (Hleaf : impls g full rn (At y)
              match y with
              | c0 :: r => if N.eqb c0 HASH then let (a, b) := upto_nl r in POk (At b) [TStr (c0 :: a)] else PFail
              | [] => PFail
              end).
    { apply impls_leaf. unfold leaf_impl. rewrite Hkr. reflexivity. }
    assert (Hrn := evals_node g full rx false (At y) rn (At y) _ Hrx eq_refl Hleaf).
    assert (Hw : impls g full cn (At y) _) by (eapply impls_wrap; [rewrite Hk; reflexivity|exact Hkids|exact Hrn]).
    assert (Hpre : pre_to g full cn (At x) (At y)).
    { pose proof (pres_of_skips g full cn (At x) (At x)) as Hs. rewrite Hign, H1, H3 in Hs.
      apply Hs. apply skips_nil. }
    eexists. split.
    - eapply evals_node; [exact Hc| |exact Hw]. rewrite H2. cbn. exact Hpre.
    - unfold comment_res. fold y. destruct y as [|c0 r]; cbn; [reflexivity|].
      destruct (N.eqb c0 HASH); cbn; [|reflexivity]. destruct (upto_nl r) as [a b]. cbn.
      rewrite Hk. cbn. eexists. reflexivity.
  Qed.

  Lemma evals_comment_Past : evals c true Past PFail.
  Proof.
    unfold comment_ok in Hok. destruct (nth_error g c) as [cn|] eqn:Hc; [|discriminate].
    destruct (nkind cn) eqn:Hk; try discriminate.
    destruct (nkids cn) as [|rx [|? ?]] eqn:Hkids; try discriminate.
    destruct (nign cn) eqn:Hign; try discriminate.
    destruct (nth_error g rx) as [rn|] eqn:Hrx; [|repeat (apply andb_prop in Hok as [Hok ?]); discriminate].
    apply andb_prop in Hok as [H1 H6]. apply andb_prop in H1 as [H1 H5]. apply andb_prop in H1 as [H1 H4].
    apply andb_prop in H1 as [H1 H3]. apply andb_prop in H1 as [H1 H2].
    destruct (nkind rn) eqn:Hkr; try discriminate.
    assert (Hleaf : impls g full rn Past PFail) by (apply impls_leaf; unfold leaf_impl; rewrite Hkr; reflexivity).
    assert (Hrn := evals_node g full rx false Past rn Past _ Hrx eq_refl Hleaf).
    assert (Hw : impls g full cn Past _) by (eapply impls_wrap; [rewrite Hk; reflexivity|exact Hkids|exact Hrn]).
    assert (Hpre : pre_to g full cn Past Past).
    { pose proof (pres_of_skips g full cn Past Past) as Hs. rewrite Hign, H1 in Hs. apply Hs. apply skips_nil. }
    eapply evals_eq; [eapply evals_node; [exact Hc| |exact Hw]|reflexivity]. rewrite H2. cbn. exact Hpre.
  Qed.

  (* after a comment the position is at a newline or at the end: no second comment *)
  Lemma comment_res_after r : comment_res (snd (upto_nl r)) = None.
  Proof.
    unfold comment_res. pose proof (upto_nl_head r) as H. destruct (snd (upto_nl r)) as [|d s]; [reflexivity|].
    subst d. cbn. rewrite ws_no_nl. reflexivity.
  Qed.

  Lemma skips_std x : skips g full [c] (At x) (At (std_skip_ign WS x)).
  Proof.
    destruct (evals_comment x) as [r [Hr Hres]]. unfold std_skip_ign. unfold comment_res in Hres.
    destruct (skip_ws WS x) as [|c0 s] eqn:Hy.
    - subst r. apply skips_one_none. exact Hr.
    - destruct (N.eqb c0 HASH) eqn:Hh.
      + destruct Hres as [t ->].
        destruct (evals_comment (snd (upto_nl s))) as [r2 [Hr2 Hres2]].
        rewrite comment_res_after in Hres2. subst r2.
        eapply skips_one_once; [exact Hr|exact Hr2|].
        cbn. apply Nat.eqb_neq. pose proof (upto_nl_length s). pose proof (skip_ws_length WS x).
        rewrite Hy in *. cbn in *. lia.
      + subst r. apply skips_one_none. exact Hr.
  Qed.
  Lemma skips_std_Past : skips g full [c] Past Past.
  Proof. apply skips_one_none. exact evals_comment_Past. Qed.

  Lemma pre_to_fn nd x y : pre_fn c WS nd x = Some y -> pre_to g full nd (At x) (At y).
  Proof.
    unfold pre_fn. intros H. destruct (nign nd) as [|c' [|? ?]] eqn:Hi; try discriminate.
    - injection H as <-. pose proof (pres_of_skips g full nd (At x) (At x)) as Hs. rewrite Hi in Hs.
      specialize (Hs (skips_nil g full _)). destruct (nskip nd); exact Hs.
    - destruct (Nat.eqb_spec c' c) as [->|]; [|discriminate]. injection H as <-.
      pose proof (pres_of_skips g full nd (At x) (At (std_skip_ign WS x))) as Hs. rewrite Hi in Hs.
      specialize (Hs (skips_std x)). destruct (nskip nd); exact Hs.
  Qed.
  Lemma pre_to_Past nd : (nign nd = [] \/ nign nd = [c]) -> pre_to g full nd Past Past.
  Proof.
    intros [Hi|Hi]; pose proof (pres_of_skips g full nd Past Past) as Hs; rewrite Hi in Hs.
    - specialize (Hs (skips_nil g full _)). destruct (nskip nd); exact Hs.
    - specialize (Hs skips_std_Past). destruct (nskip nd); exact Hs.
  Qed.

  (* ---- std_pre: skip a comment, then blanks ---- *)
  Definition std_pre (x : pstr) : pstr := skip_ws WS (std_skip_ign WS x).

  Lemma std_skip_ign_blanks b r : blanks WS b ->
    skip_ws WS (std_skip_ign WS (b ++ r)) = skip_ws WS (std_skip_ign WS r).
  Proof.
    intros Hb. unfold std_skip_ign. rewrite (skip_ws_blanks WS b r Hb).
    destruct (skip_ws WS r) as [|c0 s] eqn:E.
    - rewrite (skip_ws_blanks WS b r Hb). reflexivity.
    - destruct (N.eqb c0 HASH); [reflexivity|]. rewrite (skip_ws_blanks WS b r Hb). reflexivity.
  Qed.
  Lemma std_pre_blanks b r : blanks WS b -> std_pre (b ++ r) = std_pre r.
  Proof. apply std_skip_ign_blanks. Qed.
  Lemma std_pre_stop c0 r : memc c0 WS = false -> N.eqb c0 HASH = false -> std_pre (c0 :: r) = c0 :: r.
  Proof.
    intros Hw Hh. unfold std_pre, std_skip_ign. rewrite (skip_ws_stop WS c0 r Hw), Hh.
    apply skip_ws_stop. exact Hw.
  Qed.
  Lemma std_pre_nil : std_pre [] = [].
  Proof. reflexivity. Qed.
  Lemma std_pre_comment cm r : no_nl cm -> std_pre (HASH :: cm ++ NL :: r) = NL :: r.
  Proof.
    intros Hc. unfold std_pre, std_skip_ign. rewrite (skip_ws_stop WS HASH _ ws_no_hash).
    cbv beta iota. rewrite N.eqb_refl, (upto_nl_app cm r Hc). cbn [snd].
    apply skip_ws_stop. exact ws_no_nl.
  Qed.
  Lemma std_pre_comment_eof cm : no_nl cm -> std_pre (HASH :: cm) = [].
  Proof.
    intros Hc. unfold std_pre, std_skip_ign. rewrite (skip_ws_stop WS HASH _ ws_no_hash).
    cbv beta iota. rewrite N.eqb_refl, (upto_nl_all cm Hc). reflexivity.
  Qed.
  (* std_pre never stops at a blank or at a comment *)
  Lemma std_pre_head x : match std_pre x with d :: _ => memc d WS = false /\ N.eqb d HASH = false | [] => True end.
  Proof.
    unfold std_pre, std_skip_ign. destruct (skip_ws WS x) as [|c0 s] eqn:E.
    - pose proof (skip_ws_head WS x) as H. rewrite E. exact I.
    - destruct (N.eqb c0 HASH) eqn:Hh.
      + pose proof (upto_nl_head s) as H. destruct (snd (upto_nl s)) as [|d r]; [exact I|]. subst d.
        rewrite (skip_ws_stop WS NL r ws_no_nl). split; [exact ws_no_nl|reflexivity].
      + rewrite E. pose proof (skip_ws_head WS x) as H. rewrite E in H. cbn in H. split; assumption.
  Qed.
  Lemma std_pre_fix y : match y with d :: _ => memc d WS = false /\ N.eqb d HASH = false | [] => True end ->
    std_skip_ign WS y = y /\ std_pre y = y.
  Proof.
    destruct y as [|d r]; [intros _; split; reflexivity|]. intros [Hw Hh].
    unfold std_pre, std_skip_ign. rewrite (skip_ws_stop WS d r Hw), Hh. split; [reflexivity|].
    apply skip_ws_stop. exact Hw.
  Qed.
  Lemma std_pre_idem x : std_pre (std_pre x) = std_pre x.
  Proof. apply std_pre_fix. apply std_pre_head. Qed.
  Lemma std_pre_skip_ign x : std_pre (std_skip_ign WS x) = std_pre x.
  Proof.
    unfold std_pre. destruct (skip_ws WS x) as [|c0 s] eqn:E.
    - assert (H : std_skip_ign WS x = x) by (unfold std_skip_ign; rewrite E; reflexivity).
      rewrite !H. reflexivity.
    - destruct (N.eqb c0 HASH) eqn:Hh.
      + assert (H : std_skip_ign WS x = snd (upto_nl s)) by (unfold std_skip_ign; rewrite E, Hh; reflexivity).
        rewrite H. f_equal. apply std_pre_fix. pose proof (upto_nl_head s) as Hd.
        destruct (snd (upto_nl s)) as [|d r]; [exact I|]. subst d. split; [exact ws_no_nl|reflexivity].
      + assert (H : std_skip_ign WS x = x) by (unfold std_skip_ign; rewrite E, Hh; reflexivity).
        rewrite !H. reflexivity.
  Qed.
  Lemma std_skip_ign_stop b c0 r : blanks WS b -> memc c0 WS = false -> N.eqb c0 HASH = false ->
    std_skip_ign WS (b ++ c0 :: r) = b ++ c0 :: r.
  Proof.
    intros Hb Hw Hh. unfold std_skip_ign. rewrite (skip_ws_blanks WS b _ Hb), (skip_ws_stop WS c0 r Hw), Hh. reflexivity.
  Qed.
End Std.
