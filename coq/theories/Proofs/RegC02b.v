(* C02 at registry level, continued: the statement for whole operations and a
   concrete instance. *)
From Coq Require Import List NArith ZArith Bool Arith Lia.
From DSD Require Import Base.Str Base.Errors Model.ComplexUtils Model.Rotation
  Proofs.RotTree Proofs.RotOnce Proofs.RotOrbit Proofs.RotStrands Proofs.RotGen.
From DSD Require Import Model.RegStr Model.Heap Model.Registry
  Proofs.RegHeap Proofs.RegInv Proofs.RegCalls Proofs.RegExt Proofs.RegC04 Proofs.RegStep Proofs.RegC02 Proofs.RegExamples.
Import ListNotations.

Definition out_of (r : cout) : out :=
  match r with
  | CRet i true => Created i
  | CRet i false => Returned i
  | CErr k e => Raised k e
  end.

Lemma finish_out dst r : snd (finish dst r) = out_of (snd r).
Proof. unfold finish. destruct (snd r) as [i [|]|k e]; reflexivity. Qed.

(* a request for any rotation of a live complex, as an operation *)
Theorem step_request_rotation ct st c ci i o es0 ss0 t0 k us es ss name prefix nm dst :
  ROK st -> live_obj (heap st) i o -> o_cls o = c -> o_data o = DCplx es0 ss0 t0 ->
  nth_error ct c = Some ci -> c_kind ci = KindC ->
  resolve_elems st (Some us) = Some (Some es) ->
  (map fst es, ss) = Nat.iter k rotT (map fst es0, ss0) ->
  resolve_name ct st c ci name prefix = Ok nm ->
  snd (step ct st (OComplex dst c (Some us) (Some ss) name prefix)) = out_of (answer (cget st c) nm i).
Proof.
  intros R Hl Ec Ed Eci Ek Ee Er En. cbn [step].
  assert (K : kind_is ct c KindC = true) by (unfold kind_is, class_kind; rewrite Eci; cbn [option_map]; rewrite Ek; reflexivity).
  rewrite K, Ee. cbv beta iota. rewrite finish_out.
  pose proof (request_rotation_same_object ct st c ci i o es0 ss0 t0 k es ss name prefix nm R Hl Ec Ed Eci Er En) as Q.
  set (r := cplx_call _ _ _ _ _ _ _). assert (Hr : r = (st, answer (cget st c) nm i)) by (subst r; exact Q).
  rewrite Hr. reflexivity.
Qed.

(* ---- a concrete instance: a+a+a with (+)+. , named X, requested in every rotation ---- *)
Definition hist_rot : list op :=
  [ ODomain 0 0 (Some nA) (Some 5%Z) None None;
    OComplex 1 1 (Some [USlot 0; UPlus; USlot 0; UPlus; USlot 0]) (Some [cO; cP; cC; cP; cD]) (Some nX) None ].

Lemma good_x3 ss : wf ss -> map isP ss = [false; true; false; true; false] -> goodNE ([nA; sPlus; nA; sPlus; nA], ss).
Proof.
  intros W A. split; [split; [|exact W]|].
  - unfold aligned. cbn [fst snd]. rewrite A. reflexivity.
  - unfold NE. cbn. repeat constructor; discriminate.
Qed.

Example ex_rotation_requests :
  let st := run ctZ (init ctZ 4) hist_rot in
  ROK st /\
  (forall ss, In ss [[cO; cP; cC; cP; cD]; [cO; cP; cD; cP; cC]; [cD; cP; cO; cP; cC]] ->
     let rq nm := OComplex 2 1 (Some [USlot 0; UPlus; USlot 0; UPlus; USlot 0]) (Some ss) nm None in
     snd (step ctZ st (rq (Some nX))) = Returned 1 /\
     snd (step ctZ st (rq None)) = Raised eSingleton (Some 1) /\
     snd (step ctZ st (rq (Some nA))) = Raised eSingleton (Some 1)) /\
  map (fun kv => snd kv) (cs_canon (cget st 1)) = [1; 1; 1].
Proof.
  cbn zeta. split; [|split].
  - apply rok_reachable. cbn [guarded hist_rot]. split; [exact Logic.I|]. split; [|exact Logic.I].
    cbn [cplx_guard]. intros es E. vm_compute in E. injection E as <-. apply good_x3; vm_compute; reflexivity.
  - intros ss [<-|[<-|[<-|[]]]]; vm_compute; repeat split; reflexivity.
  - vm_compute. reflexivity.
Qed.
