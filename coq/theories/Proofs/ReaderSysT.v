(* Reader model, C14: reading in a session that already holds objects.
   Part 4: the assembled statement.  The session is described by statements `world` (SInv world r accU: every live
   object is the object of a statement, e.g. the session left by earlier reads whose results are held); every
   statement of the document is returned as it is, re-declares something of the session with the same
   description (foundb: the registered singleton is filed, not a copy) or is new and admissible (admb). *)
From Coq Require Import List NArith ZArith Bool Arith Lia Permutation.
From DSD Require Import Base.Str Base.Errors Model.ComplexUtils Model.RegStr Model.ReaderStr Model.PyNum
  Model.Peg Model.Kernel Model.DispatchKernel Model.Heap Model.Registry Model.Reader Model.ReaderShape Model.ReaderConsistent
  Proofs.RegHeap Proofs.RegInv Proofs.RegCalls Proofs.RegExt Proofs.ReaderBasic Proofs.ReaderStmt Proofs.ReaderHeap
  Proofs.ReaderInv Proofs.ReaderHoare Proofs.ReaderNoFault Proofs.ReaderThms Proofs.ReaderBuilds Proofs.ReaderKernel
  Proofs.ReaderMore Proofs.ReaderSys Proofs.ReaderSysA Proofs.ReaderSysB Proofs.ReaderSysC Proofs.ReaderSysD
  Proofs.ReaderSysE Proofs.ReaderSysF Proofs.ReaderSysS Proofs.ReaderSysX Proofs.ReaderSysY Proofs.ReaderSysG
  Proofs.ReaderSysH Proofs.ReaderSysI Proofs.ReaderSysJ Proofs.ReaderSysK Proofs.ReaderSysL Proofs.ReaderSysP
  Proofs.ReaderSysQ Proofs.ReaderSysR Proofs.ReaderSysV.
From DSD Require Model.Iupac.
Import ListNotations.

Lemma existsb_in {A} (p : A -> bool) l : existsb p l = true -> exists x, In x l /\ p x = true.
Proof. apply existsb_exists. Qed.

Lemma keys_dlookup n (l : list (pstr * nat)) : In n (map fst l) -> exists i, dlookup n l = Some i.
Proof.
  intros H. destruct (dlookup n l) as [i|] eqn:E; [eauto|]. apply (alookup_none str_eqb str_eqb_iff) in E. contradiction.
Qed.
Lemma dlookup_some_in_keys n (l : list (pstr * nat)) : (exists i, dlookup n l = Some i) -> In n (map fst l).
Proof. intros [i H]. eapply dlookup_in_keys; eauto. Qed.

Lemma conc_eqb_eq a b : conc_eqb a b = true -> a = b.
Proof.
  destruct a as [[m f] u], b as [[m0 f0] u0]. destruct m as [m|]; destruct m0 as [m0|]; destruct u as [u|]; destruct u0 as [u0|];
    cbn; try discriminate.
  intros H. apply andb_true_iff in H. destruct H as [H H3]. apply andb_true_iff in H. destruct H as [H1 H2].
  apply str_eqb_iff in H1, H3. unfold fl_eqb in H2. apply andb_true_iff in H2. destruct H2 as [H4 H5].
  apply Z.eqb_eq in H4, H5. destruct f, f0. cbn in *. subst. reflexivity.
Qed.

Lemma entry_eqb_eq a b : entry_eqb a b = true -> a = b.
Proof.
  destruct a as [n [x y]], b as [n0 [x0 y0]]. unfold entry_eqb. cbn. intros H.
  apply andb_true_iff in H. destruct H as [H H3]. apply andb_true_iff in H. destruct H as [H1 H2].
  apply str_eqb_iff in H1. apply (list_eqb_iff _ str_eqb_iff) in H2. apply (list_eqb_iff _ N.eqb_eq) in H3. subst. reflexivity.
Qed.

Lemma sig2_eqb_eq a b : sig2_eqb a b = true -> a = b /\ a <> None.
Proof.
  destruct a as [[k1 n1]|], b as [[k2 n2]|]; cbn; try discriminate. intros H.
  apply andb_true_iff in H. destruct H as [H1 H2]. apply key_eqb_iff in H1. apply str_eqb_iff in H2. subst.
  split; [reflexivity | discriminate].
Qed.

Lemma opt_fl_eqb_eq a b : opt_fl_eqb a b = true -> a = b.
Proof.
  destruct a as [[a1 a2]|], b as [[b1 b2]|]; cbn; try discriminate; [|reflexivity]. unfold fl_eqb. cbn. intros H.
  apply andb_true_iff in H. destruct H as [H1 H2]. apply Z.eqb_eq in H1, H2. subst. reflexivity.
Qed.
Lemma opt_str_eqb_eq a b : opt_str_eqb a b = true -> a = b.
Proof. destruct a, b; cbn; try discriminate; [|reflexivity]. intros H. apply str_eqb_iff in H. subst. reflexivity. Qed.

Section Session.
  Variable ct : ctable.
  Variables cd cs cc cm cr : nat.
  Hypothesis CO : cfg_okb ct cd cs cc cm cr = true.
  Hypothesis PL : forall c, In c [cd; cs; cc; cm; cr] -> exists ci, nth_error ct c = Some ci /\ c_fail ci = FNone.
  Notation G := (g cd cs cc cm cr).
  Notation SInv := (SInv cd cs cc cm cr ct).
  Notation Built := (Built cd cs cc cm cr).

  (* the result dictionary holds objects of the session only *)
  Definition Sub (a b : pilout) : Prop :=
    (forall k n i, dlookup n (dict_of k a) = Some i -> dlookup n (dict_of k b) = Some i) /\
    (forall j, In j (po_det a ++ po_con a) -> In j (po_det b ++ po_con b)).

  (* the names a delta files *)
  Definition delta_names (k : kind) (d : fdelta) : list pstr :=
    match d with
    | FDom x _ _ => match k with KindD => [x; star x] | _ => [] end
    | FKind k' n _ => if kind_eqb k k' then [n] else []
    | FRxn _ _ _ => []
    end.

  Lemma keys_apply d a k n : k <> KindR ->
    (In n (map fst (dict_of k (apply_delta d a))) <-> In n (map fst (dict_of k a)) \/ In n (delta_names k d)).
  Proof.
    intros Hk. destruct d as [x i j|k' n' i|cond st i]; cbn [apply_delta delta_names].
    - destruct k; cbn [dict_of with_domains po_domains po_strands po_complexes po_macrostates]; try (cbn; tauto).
      split.
      + intros H. apply dset_keys in H. destruct H as [->|H]; [right; right; left; reflexivity|].
        apply dset_keys in H. destruct H as [->|H]; [right; left; reflexivity | left; exact H].
      + intros H. apply (dlookup_some_in_keys n). rewrite !dlookup_dset.
        destruct (str_eqb n (star x)) eqn:E1; [eauto|]. destruct (str_eqb n x) eqn:E2; [eauto|].
        destruct H as [H|[<-|[<-|[]]]].
        * apply keys_dlookup in H. exact H.
        * rewrite (proj2 (str_eqb_iff _ _) eq_refl) in E2. discriminate.
        * rewrite (proj2 (str_eqb_iff _ _) eq_refl) in E1. discriminate.
    - destruct (kind_eqb k k') eqn:E.
      + assert (k = k') by (destruct k, k'; cbn in E; congruence). subst k'.
        rewrite dict_with_same by exact Hk. split.
        * intros H. apply dset_keys in H. destruct H as [->|H]; [right; left; reflexivity | left; exact H].
        * intros H. apply (dlookup_some_in_keys n). rewrite dlookup_dset. destruct (str_eqb n n') eqn:E2; [eauto|].
          destruct H as [H|[<-|[]]]; [apply keys_dlookup in H; exact H|].
          rewrite (proj2 (str_eqb_iff _ _) eq_refl) in E2. discriminate.
      + rewrite dict_with_other by (intros ->; destruct k; discriminate). cbn. tauto.
    - destruct cond, k; cbn; tauto.
  Qed.
  (* ---- one statement of the document ---- *)
  Definition ShapeOf (s : stmt) (d : fdelta) : Prop :=
    match s with
    | SDl x _ | SSl x _ _ => exists i j, d = FDom x i j
    | SComp n _ => exists i, d = FKind KindS n i
    | SSC n _ _ | SKer n _ _ _ => exists i, d = FKind KindC n i
    | SMac n _ => exists i, d = FKind KindM n i
    | SRxn ri => exists st i, d = FRxn (is_cond (ri_type ri)) st i
    | SOther => False
    end.

  Lemma shape_names s d k n : ShapeOf s d -> k <> KindR -> (In n (delta_names k d) <-> In n (declared k [s])).
  Proof.
    intros H Hk. destruct s as [x l|x sq chk|n0 ds|n0 ss sst|n0 names sst conc|n0 xs|ri|]; cbn [ShapeOf] in H.
    - destruct H as [i [j ->]]. destruct k; cbn; tauto.
    - destruct H as [i [j ->]]. destruct k; cbn; tauto.
    - destruct H as [i ->]. destruct k; cbn; tauto.
    - destruct H as [i ->]. destruct k; cbn; tauto.
    - destruct H as [i ->]. destruct k; cbn; tauto.
    - destruct H as [i ->]. destruct k; cbn; tauto.
    - destruct H as [st [i ->]]. destruct k; cbn; tauto.
    - destruct H.
  Qed.

  Lemma sub_found d a b :
    Sub a b ->
    match d with
    | FDom x i j => dlookup x (po_domains b) = Some i /\ dlookup (star x) (po_domains b) = Some j
    | FKind k n i => k <> KindR /\ dlookup n (dict_of k b) = Some i
    | FRxn _ _ j => In j (po_det b ++ po_con b)
    end -> Sub (apply_delta d a) b.
  Proof.
    intros [S1 S2] H. destruct d as [x i j|k n i|cond st j]; cbn [apply_delta].
    - destruct H as [H1 H2]. split; [|exact S2]. intros k n i0.
      destruct k; cbn [dict_of with_domains po_domains po_strands po_complexes po_macrostates];
        try (apply (S1 KindS)); try (apply (S1 KindC)); try (apply (S1 KindM)); try (intros Hx; discriminate Hx).
      rewrite !dlookup_dset. destruct (str_eqb n (star x)) eqn:E1.
      + apply str_eqb_iff in E1. subst n. intros E. injection E as <-. exact H2.
      + destruct (str_eqb n x) eqn:E2; [|apply (S1 KindD)]. apply str_eqb_iff in E2. subst n. intros E. injection E as <-. exact H1.
    - destruct H as [Hk H]. split.
      + intros k' n' i'. destruct (kind_eqb k k') eqn:E.
        * assert (k = k') by (destruct k, k'; cbn in E; congruence). subst k'. rewrite dict_with_same by exact Hk.
          rewrite dlookup_dset. destruct (str_eqb n' n) eqn:E2; [|apply S1]. apply str_eqb_iff in E2. subst n'.
          intros E0. injection E0 as <-. exact H.
        * rewrite dict_with_other by (intros ->; destruct k'; discriminate). apply S1.
      + rewrite det_with, con_with. exact S2.
    - split.
      + intros k n i. destruct cond; destruct k;
          first [exact (S1 KindD n i)|exact (S1 KindC n i)|exact (S1 KindS n i)|exact (S1 KindM n i)|exact (S1 KindR n i)].
      + intros j0 Hj. destruct cond; cbn [with_rxns po_det po_con] in Hj; apply in_app_or in Hj; destruct Hj as [Hj|Hj].
        * apply S2. apply in_or_app. left. exact Hj.
        * apply set_add_sub in Hj. destruct Hj as [->|Hj]; [exact H | apply S2; apply in_or_app; right; exact Hj].
        * apply set_add_sub in Hj. destruct Hj as [->|Hj]; [exact H | apply S2; apply in_or_app; left; exact Hj].
        * apply S2. apply in_or_app. right. exact Hj.
  Qed.

  Lemma sub_new d a b :
    Sub a b ->
    match d with
    | FRxn _ st i => forall l, (forall j, In j l -> In j (po_det b ++ po_con b)) -> set_add st i l = l ++ [i]
    | _ => True
    end -> Sub (apply_delta d a) (apply_delta d b).
  Proof.
    intros [S1 S2] H. destruct d as [x i j|k n i|cond st j]; cbn [apply_delta].
    - split; [|exact S2]. intros k n i0.
      destruct k; cbn [dict_of with_domains po_domains po_strands po_complexes po_macrostates];
        try (apply (S1 KindS)); try (apply (S1 KindC)); try (apply (S1 KindM)); try (intros Hx; discriminate Hx).
      rewrite !dlookup_dset. destruct (str_eqb n (star x)); [auto|]. destruct (str_eqb n x); [auto | apply (S1 KindD)].
    - split.
      + intros k' n' i'. destruct (kind_eqb k k') eqn:E.
        * assert (k = k') by (destruct k, k'; cbn in E; congruence). subst k'. destruct (kind_eqb k KindR) eqn:Er.
          -- assert (k = KindR) by (destruct k; cbn in Er; congruence). subst k. cbn. intros Hx; discriminate Hx.
          -- assert (Hk : k <> KindR) by (intros ->; discriminate). rewrite !dict_with_same by exact Hk.
             rewrite !dlookup_dset. destruct (str_eqb n' n); [auto | apply S1].
        * rewrite !dict_with_other by (intros ->; destruct k'; discriminate). apply S1.
      + rewrite !det_with, !con_with. exact S2.
    - split.
      + intros k n i. destruct cond; destruct k;
          first [exact (S1 KindD n i)|exact (S1 KindC n i)|exact (S1 KindS n i)|exact (S1 KindM n i)|exact (S1 KindR n i)].
      + intros j0 Hj.
        assert (Hd : set_add st j (po_det b) = po_det b ++ [j]) by (apply H; intros x Hx; apply in_or_app; left; exact Hx).
        assert (Hc : set_add st j (po_con b) = po_con b ++ [j]) by (apply H; intros x Hx; apply in_or_app; right; exact Hx).
        destruct cond; cbn [with_rxns po_det po_con] in *; rewrite ?Hd, ?Hc; apply in_app_or in Hj; destruct Hj as [Hj|Hj].
        * assert (Hx : In j0 (po_det b ++ po_con b)) by (apply S2; apply in_or_app; left; exact Hj).
          rewrite !in_app_iff. apply in_app_or in Hx. tauto.
        * apply set_add_sub in Hj. rewrite !in_app_iff. cbn [In]. destruct Hj as [->|Hj]; [auto|].
          assert (Hx : In j0 (po_det b ++ po_con b)) by (apply S2; apply in_or_app; right; exact Hj).
          apply in_app_or in Hx. tauto.
        * apply set_add_sub in Hj. rewrite !in_app_iff. cbn [In]. destruct Hj as [->|Hj]; [auto|].
          assert (Hx : In j0 (po_det b ++ po_con b)) by (apply S2; apply in_or_app; left; exact Hj).
          apply in_app_or in Hx. tauto.
        * assert (Hx : In j0 (po_det b ++ po_con b)) by (apply S2; apply in_or_app; right; exact Hj).
          rewrite !in_app_iff. apply in_app_or in Hx. tauto.
  Qed.
  Definition InSession (b : pilout) (d : fdelta) : Prop :=
    match d with
    | FDom x i j => dlookup x (po_domains b) = Some i /\ dlookup (star x) (po_domains b) = Some j
    | FKind k n i => k <> KindR /\ dlookup n (dict_of k b) = Some i
    | FRxn _ _ j => In j (po_det b ++ po_con b)
    end.

  (* a statement that re-declares: the registered singletons are filed and the session is as before *)
  Theorem found_stmt world r accU line s :
    SInv world r accU -> decode line = Ok s -> foundb world s = true ->
    exists r' d, (forall accR, read_one ct G None (TList line) accR r = (r', Ok (apply_delta d accR))) /\
      SInv world r' accU /\ Later r accU r' accU /\ InSession accU d /\ ShapeOf s d.
  Proof.
    intros SI Hdec Hf. pose proof SI as [C B].
    destruct s as [x l|x sq chk|n ds|n ss sst|n names sst conc|n xs|ri|]; cbn [foundb] in Hf.
    - apply existsb_in in Hf. destruct Hf as [[x0 l0] [Hin Hf]]. cbn [fst snd] in Hf.
      apply andb_true_iff in Hf. destruct Hf as [H1 H2]. apply str_eqb_iff in H1. apply Z.eqb_eq in H2. subst x0 l0.
      destruct (found_dom ct cd cs cc cm cr PL world r accU line (SDl x l) x l None SI Hdec) as [a [b [sq' [Da [Db [Asq [Lv E]]]]]]].
      { left. auto. }
      destruct (sinv_refs ct cd cs cc cm cr world r accU [a; b] sq' (r_conc r) (r_rate r) SI Lv Asq (fun _ => eq_refl) (fun _ => eq_refl))
        as [S1 L1].
      eexists _, (FDom x a b). split; [exact E|]. split; [exact S1|]. split; [exact L1|]. split; [split; assumption | cbn; eauto].
    - apply andb_true_iff in Hf. destruct Hf as [Hf Hchk]. apply existsb_in in Hf. destruct Hf as [s0 [Hin Hf]].
      destruct s0 as [| x0 sq0 chk0 | | | | | |]; try discriminate.
      apply andb_true_iff in Hf. destruct Hf as [H1 H2]. apply str_eqb_iff in H1, H2. subst x0 sq0.
      destruct (found_dom ct cd cs cc cm cr PL world r accU line (SSl x sq chk) x (Z.of_nat (length sq)) (Some sq) SI Hdec)
        as [a [b [sq' [Da [Db [Asq [Lv E]]]]]]].
      { right. exists sq, chk, chk0. repeat (split; [reflexivity|]). split; [exact Hin|]. destruct chk; [exact Hchk | exact Logic.I]. }
      destruct (sinv_refs ct cd cs cc cm cr world r accU [a; b] sq' (r_conc r) (r_rate r) SI Lv Asq (fun _ => eq_refl) (fun _ => eq_refl))
        as [S1 L1].
      eexists _, (FDom x a b). split; [exact E|]. split; [exact S1|]. split; [exact L1|]. split; [split; assumption | cbn; eauto].
    - apply existsb_in in Hf. destruct Hf as [[n0 ds0] [Hin Hf]]. cbn [fst snd] in Hf.
      apply andb_true_iff in Hf. destruct Hf as [H1 H2]. apply str_eqb_iff in H1. apply (list_eqb_iff _ str_eqb_iff) in H2. subst n0 ds0.
      apply decl_strands_in in Hin.
      destruct (found_strand ct cd cs cc cm cr CO PL world r accU line n ds SI Hdec Hin) as [i [D1 [Li E]]].
      destruct (sinv_refs ct cd cs cc cm cr world r accU [i] (r_seq r) (r_conc r) (r_rate r) SI
                  (fun y Hy => match Hy with or_introl e => eq_ind _ (fun z => is_live _ z = true) Li _ e | or_intror f => match f with end end)
                  (fun _ => eq_refl) (fun _ => eq_refl) (fun _ => eq_refl)) as [S1 L1].
      eexists _, (FKind KindS n i). split; [exact E|]. split; [exact S1|]. split; [exact L1|].
      split; [split; [discriminate | exact D1] | cbn; eauto].
    - apply andb_true_iff in Hf. destruct Hf as [Hss Hf].
      destruct (ssc_names world ss) as [names|] eqn:En; [|discriminate].
      apply andb_true_iff in Hf. destruct Hf as [Hl Hf]. apply Nat.eqb_eq in Hl.
      apply existsb_in in Hf. destruct Hf as [e0 [Hin Hf]]. apply entry_eqb_eq in Hf. subst e0.
      assert (Hss' : Forall (fun s => In s (map fst (decl_strands world))) ss).
      { eapply forallb_Forall; [|exact Hss]. intros y. apply mem_str_iff. }
      destruct (found_ssc ct cd cs cc cm cr CO PL world r accU line n ss sst names SI Hdec Hss' En Hl Hin) as [i [D1 [Li E]]].
      destruct (sinv_refs ct cd cs cc cm cr world r accU [i] (r_seq r) (r_conc r) (r_rate r) SI
                  (fun y Hy => match Hy with or_introl e => eq_ind _ (fun z => is_live _ z = true) Li _ e | or_intror f => match f with end end)
                  (fun _ => eq_refl) (fun _ => eq_refl) (fun _ => eq_refl)) as [S1 L1].
      eexists _, (FKind KindC n i). split; [exact E|]. split; [exact S1|]. split; [exact L1|].
      split; [split; [discriminate | exact D1] | cbn; eauto].
    - destruct (expand_ker world names sst) as [[names' sst']|] eqn:Ee; [|discriminate].
      apply andb_true_iff in Hf. destruct Hf as [Hf Hconc].
      apply existsb_in in Hf. destruct Hf as [e0 [Hin Hf]]. apply entry_eqb_eq in Hf. subst e0.
      assert (Hc : conc = None \/ exists names0 sst0, In (SKer n names0 sst0 conc) world).
      { destruct conc as [c|]; [|left; reflexivity]. right. apply existsb_in in Hconc. destruct Hconc as [s0 [Hs0 Hx]].
        destruct s0 as [| | | | n0 names0 sst0 [c0|] | | |]; try discriminate.
        apply andb_true_iff in Hx. destruct Hx as [H1 H2]. apply str_eqb_iff in H1. apply conc_eqb_eq in H2. subst n0 c0.
        exists names0, sst0. exact Hs0. }
      destruct (found_kernel ct cd cs cc cm cr CO PL world r accU line n names sst conc names' sst' SI Hdec Ee Hin Hc)
        as [i [cn' [D1 [Li [Acn E]]]]].
      destruct (sinv_refs ct cd cs cc cm cr world r accU [i] (r_seq r) cn' (r_rate r) SI
                  (fun y Hy => match Hy with or_introl e => eq_ind _ (fun z => is_live _ z = true) Li _ e | or_intror f => match f with end end)
                  (fun _ => eq_refl) Acn (fun _ => eq_refl)) as [S1 L1].
      eexists _, (FKind KindC n i). split; [exact E|]. split; [exact S1|]. split; [exact L1|].
      split; [split; [discriminate | exact D1] | cbn; eauto].
    - apply andb_true_iff in Hf. destruct Hf as [Hn Hf]. apply mem_str_iff in Hn.
      apply existsb_in in Hf. destruct Hf as [[n0 xs0] [Hin Hf]]. cbn [fst snd] in Hf.
      apply andb_true_iff in Hf. destruct Hf as [H1 H2]. apply str_eqb_iff in H1. apply (list_eqb_iff _ str_eqb_iff) in H2. subst n0 xs0.
      apply decl_macs_in in Hin.
      destruct (found_macro ct cd cs cc cm cr CO PL world r accU line n xs SI Hdec Hin Hn) as [i [D1 [Li E]]].
      destruct (sinv_refs ct cd cs cc cm cr world r accU [i] (r_seq r) (r_conc r) (r_rate r) SI
                  (fun y Hy => match Hy with or_introl e => eq_ind _ (fun z => is_live _ z = true) Li _ e | or_intror f => match f with end end)
                  (fun _ => eq_refl) (fun _ => eq_refl) (fun _ => eq_refl)) as [S1 L1].
      eexists _, (FKind KindM n i). split; [exact E|]. split; [exact S1|]. split; [exact L1|].
      split; [split; [discriminate | exact D1] | cbn; eauto].
    - repeat (apply andb_true_iff in Hf; destruct Hf as [Hf ?]).
      destruct (ri_rate ri) as [k|] eqn:Ek; [|discriminate].
      assert (Hne : ri_reactants ri <> []) by (destruct (ri_reactants ri); [discriminate | congruence]).
      match goal with Hx : existsb _ (decl_rxns world) = true |- _ => apply existsb_in in Hx; destruct Hx as [ri0 [Hin Hex]] end.
      apply andb_true_iff in Hex. destruct Hex as [Hex Hu]. apply andb_true_iff in Hex. destruct Hex as [Hs Hr].
      apply sig2_eqb_eq in Hs. destruct Hs as [Hs _]. apply opt_fl_eqb_eq in Hr. apply opt_str_eqb_eq in Hu.
      apply decl_rxns_in in Hin.
      assert (HR : Forall (fun x => In x (mdecl (is_cond (ri_type ri)) world)) (ri_reactants ri))
        by (eapply forallb_Forall; [|eassumption]; intros y; apply mem_str_iff).
      assert (HP : Forall (fun x => In x (mdecl (is_cond (ri_type ri)) world)) (ri_products ri))
        by (eapply forallb_Forall; [|eassumption]; intros y; apply mem_str_iff).
      rewrite <- Ek in Hr.
      destruct (found_rxn ct cd cs cc cm cr CO PL world r accU line ri ri0 k SI Hdec Ek Hne HR HP Hin Hs Hr Hu)
        as [j [rt' [Hj [Lj [_ [Art E]]]]]].
      destruct (sinv_refs ct cd cs cc cm cr world r accU [j] (r_seq r) (r_conc r) rt' SI
                  (fun y Hy => match Hy with or_introl e => eq_ind _ (fun z => is_live _ z = true) Lj _ e | or_intror f => match f with end end)
                  (fun _ => eq_refl) (fun _ => eq_refl) Art) as [S1 L1].
      eexists _, (FRxn (is_cond (ri_type ri)) (r_st r) j). split; [exact E|]. split; [exact S1|]. split; [exact L1|].
      split; [exact Hj | cbn; eauto].
    - discriminate.
  Qed.

  (* what stays of a session whatever is read in it: the heap is extended, every name keeps its object *)
  Definition Later0 (r : rstate) (acc : pilout) (r' : rstate) (acc' : pilout) : Prop :=
    (exists top, heap (r_st r') = top ++ heap (r_st r)) /\
    (forall k n i, dlookup n (dict_of k acc) = Some i -> dlookup n (dict_of k acc') = Some i).
  Lemma later_later0 r acc r' acc' : Later r acc r' acc' -> Later0 r acc r' acc'.
  Proof. intros L. split; [apply (lt_heap _ _ _ _ L) | apply (lt_dict _ _ _ _ L)]. Qed.
  Lemma later0_refl r acc : Later0 r acc r acc.
  Proof. split; [exists []; reflexivity | auto]. Qed.
  Lemma later0_trans r1 a1 r2 a2 r3 a3 : Later0 r1 a1 r2 a2 -> Later0 r2 a2 r3 a3 -> Later0 r1 a1 r3 a3.
  Proof.
    intros [[t1 E1] D1] [[t2 E2] D2]. split; [exists (t2 ++ t1); rewrite E2, E1; apply app_assoc | auto].
  Qed.

  (* a kernel statement that re-declares a live complex with another concentration *)
  Theorem refound_stmt world r accU line s w :
    SInv world r accU -> decode line = Ok s -> refound world s = Some w ->
    exists r' d, (forall accR, read_one ct G None (TList line) accR r = (r', Ok (apply_delta d accR))) /\
      SInv w r' accU /\ Later0 r accU r' accU /\ InSession accU d /\ ShapeOf s d /\
      exists n names sst c i, s = SKer n names sst (Some c) /\ d = FKind KindC n i /\ attr_get i (r_conc r') = Some c.
  Proof.
    intros SI Hdec Hr. destruct s as [| | | |n names sst [c|]| | |]; cbn [refound] in Hr; try discriminate.
    destruct (expand_ker world names sst) as [[names' sst']|] eqn:Ee; [|discriminate].
    match type of Hr with (if ?b then _ else _) = _ => destruct b eqn:Eb end; [|discriminate]. injection Hr as <-.
    apply andb_true_iff in Eb. destruct Eb as [Hin Hno]. apply existsb_in in Hin. destruct Hin as [e0 [Hin He]].
    apply entry_eqb_eq in He. subst e0. apply negb_true_iff in Hno.
    assert (Hnossc : forall ss0 sst0, ~ In (SSC n ss0 sst0) world).
    { intros ss0 sst0 Hx. assert (E : existsb (fun s0 => match s0 with SSC n0 _ _ => str_eqb n0 n | _ => false end) world = true); [|congruence].
      apply existsb_exists. exists (SSC n ss0 sst0). split; [exact Hx | apply str_eqb_iff; reflexivity]. }
    destruct (found_kernel_any ct cd cs cc cm cr CO PL world r accU line n names sst (Some c) names' sst' SI Hdec Ee Hin) as [i [D1 [Li E]]].
    pose proof (sinv_set_conc ct cd cs cc cm cr CO world r accU n i c SI D1 Li Hnossc) as S1. cbv zeta in S1.
    eexists _, (FKind KindC n i). split; [exact E|]. split; [exact S1|].
    split; [split; [exists []; reflexivity | auto]|]. split; [split; [discriminate | exact D1]|]. split; [cbn; eauto|].
    exists n, names, sst, c, i. split; [reflexivity|]. split; [reflexivity|]. cbn [r_conc]. rewrite attr_get_set, Nat.eqb_refl. reflexivity.
  Qed.

  (* the names of the result are the names the processed statements declare *)
  Definition KeysOK (done : list stmt) (a : pilout) : Prop :=
    forall k, k <> KindR -> forall n, In n (map fst (dict_of k a)) <-> In n (declared k done).

  Lemma add_other_dict k a l : dict_of k (add_other a l) = dict_of k a.
  Proof. destruct k; reflexivity. Qed.

  (* the document loop *)
  Theorem session_lines lines ss :
    Forall2 (fun l s => decode l = Ok s) lines ss ->
    forall world r accU accR done world',
    SInv world r accU -> Sub accR accU -> KeysOK done accR -> session_from world ss = Some world' ->
    exists r' accU' accR', read_lines ct G None (map TList lines) accR r = (r', Ok accR') /\
      SInv world' r' accU' /\ Later0 r accU r' accU' /\ Sub accR' accU' /\ KeysOK (done ++ ss) accR' /\
      po_other accR' = po_other accR ++ other_lines lines ss.
  Proof.
    induction 1 as [|line s lines ss Hd F IH]; intros world r accU accR done world' SI Sb Ks Hs.
    - cbn in Hs. injection Hs as <-. exists r, accU, accR. cbn. rewrite !app_nil_r. split; [reflexivity|].
      split; [exact SI|]. split; [apply later0_refl|]. auto.
    - cbn [map read_lines].
      assert (Hstep : forall r1 d accU1 world1,
                (forall a, read_one ct G None (TList line) a r = (r1, Ok (apply_delta d a))) ->
                SInv world1 r1 accU1 -> Later0 r accU r1 accU1 -> Sub (apply_delta d accR) accU1 -> ShapeOf s d ->
                session_from world1 ss = Some world' ->
                exists r' accU' accR', (dm acc' <- read_one ct G None (TList line) accR; read_lines ct G None (map TList lines) acc') r = (r', Ok accR') /\
                  SInv world' r' accU' /\ Later0 r accU r' accU' /\ Sub accR' accU' /\ KeysOK (done ++ s :: ss) accR' /\
                  po_other accR' = po_other accR ++ other_lines (line :: lines) (s :: ss)).
      { intros r1 d accU1 world1 E S1 L1 Sb1 Sh Hs1.
        assert (Ks1 : KeysOK (done ++ [s]) (apply_delta d accR)).
        { intros k Hk n. rewrite (keys_apply d accR k n Hk), (Ks k Hk n), (shape_names s d k n Sh Hk), declared_app. tauto. }
        destruct (IH world1 r1 accU1 (apply_delta d accR) (done ++ [s]) world' S1 Sb1 Ks1 Hs1)
          as [r' [accU' [accR' [E2 [S2 [L2 [Sb2 [Ks2 O2]]]]]]]].
        exists r', accU', accR'. rewrite (bind_ok _ _ _ _ _ (E accR)). split; [exact E2|]. split; [exact S2|].
        split; [eapply later0_trans; eauto|]. split; [exact Sb2|]. rewrite <- app_assoc in Ks2. split; [exact Ks2|].
        rewrite O2, other_apply_delta. destruct s; try reflexivity. destruct Sh. }
      destruct s as [x l|x sq chk|n ds|n ss0 sst|n names sst conc|n xs|ri|];
        try (cbn [session_from] in Hs;
             match type of Hs with context [foundb world ?s0] =>
               destruct (foundb world s0) eqn:Ef;
               [ destruct (found_stmt world r accU line s0 SI Hd Ef) as [r1 [d [E [S1 [L1 [Hin Sh]]]]]];
                 apply (Hstep r1 d accU world E S1 (later_later0 _ _ _ _ L1) (sub_found d accR accU Sb Hin) Sh Hs)
               | destruct (refound world s0) as [w|] eqn:Er;
                 [ destruct (refound_stmt world r accU line s0 w SI Hd Er) as [r1 [d [E [S1 [L1 [Hin [Sh _]]]]]]];
                   apply (Hstep r1 d accU w E S1 L1 (sub_found d accR accU Sb Hin) Sh Hs) | ];
                 destruct (admb world s0) eqn:Ea; [|discriminate];
                 destruct (step_stmt_gen ct cd cs cc cm cr CO PL world r accU line s0 SI Hd (admb_sound world s0 Ea))
                   as [r1 [d2 [E [S1 [Hdl [L1 _]]]]]] ]
             end).
      + destruct Hdl as [i [j ->]]. cbn [apply2] in *.
        apply (Hstep r1 (FDom x i j) _ _ E S1 (later_later0 _ _ _ _ (L1 _ eq_refl)) (sub_new (FDom x i j) accR accU Sb Logic.I) ltac:(cbn; eauto) Hs).
      + destruct Hdl as [i [j ->]]. cbn [apply2] in *.
        apply (Hstep r1 (FDom x i j) _ _ E S1 (later_later0 _ _ _ _ (L1 _ eq_refl)) (sub_new (FDom x i j) accR accU Sb Logic.I) ltac:(cbn; eauto) Hs).
      + destruct Hdl as [i ->]. cbn [apply2] in *.
        apply (Hstep r1 (FKind KindS n i) _ _ E S1 (later_later0 _ _ _ _ (L1 _ eq_refl)) (sub_new (FKind KindS n i) accR accU Sb Logic.I) ltac:(cbn; eauto) Hs).
      + destruct Hdl as [i ->]. cbn [apply2] in *.
        apply (Hstep r1 (FKind KindC n i) _ _ E S1 (later_later0 _ _ _ _ (L1 _ eq_refl)) (sub_new (FKind KindC n i) accR accU Sb Logic.I) ltac:(cbn; eauto) Hs).
      + destruct Hdl as [i ->]. cbn [apply2] in *.
        apply (Hstep r1 (FKind KindC n i) _ _ E S1 (later_later0 _ _ _ _ (L1 _ eq_refl)) (sub_new (FKind KindC n i) accR accU Sb Logic.I) ltac:(cbn; eauto) Hs).
      + destruct Hdl as [i ->]. cbn [apply2] in *.
        apply (Hstep r1 (FKind KindM n i) _ _ E S1 (later_later0 _ _ _ _ (L1 _ eq_refl)) (sub_new (FKind KindM n i) accR accU Sb Logic.I) ltac:(cbn; eauto) Hs).
      + destruct Hdl as [st [i [-> Esa]]]. cbn [apply2] in *.
        apply (Hstep r1 (FRxn (is_cond (ri_type ri)) st i) _ _ E S1 (later_later0 _ _ _ _ (L1 _ eq_refl))
                 (sub_new (FRxn (is_cond (ri_type ri)) st i) accR accU Sb Esa) ltac:(cbn; eauto) Hs).
      + (* a line that is returned as it is *)
        cbn [session_from] in Hs.
        destruct (step_other ct cd cs cc cm cr world r accU line SI Hd) as [E _].
        assert (Sb1 : Sub (add_other accR line) accU).
        { destruct Sb as [A1 A2]. split; [intros k n i; rewrite add_other_dict; apply A1 | exact A2]. }
        assert (Ks1 : KeysOK (done ++ [SOther]) (add_other accR line)).
        { intros k Hk n. rewrite add_other_dict, (Ks k Hk n), declared_app. destruct k; cbn; tauto. }
        destruct (IH world r accU (add_other accR line) (done ++ [SOther]) world' SI Sb1 Ks1 Hs)
          as [r' [accU' [accR' [E2 [S2 [L2 [Sb2 [Ks2 O2]]]]]]]].
        exists r', accU', accR'. rewrite (bind_ok _ _ _ _ _ (E accR)). split; [exact E2|]. split; [exact S2|].
        split; [exact L2|]. split; [exact Sb2|]. rewrite <- app_assoc in Ks2. split; [exact Ks2|].
        rewrite O2. cbn [add_other po_other other_lines]. rewrite <- app_assoc. reflexivity.
  Qed.
End Session.
