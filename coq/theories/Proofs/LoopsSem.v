(* C08: what the loop decomposition `loops_of d` says, position by position,
   in terms that do not mention the numbering scheme:
     - the table has the shape of the pair table;
     - the opening brackets carry 1, 2, 3, ... in text order;
     - both partners of a pair carry the same number;
     - an unpaired position carries the number of the innermost pair that
       encloses it (the enclosing pair that opens last), or 0 if there is none. *)
From Coq Require Import List Arith Lia Bool NArith.
From DSD Require Import Base.Str Base.Errors Model.ComplexUtils Dyck.Dyck
  Proofs.Mpt Proofs.Db Proofs.Assoc Proofs.Loops Proofs.LoopsConn Proofs.LoopsObj Proofs.SplitCut.
Import ListNotations.

(* ------------------------------------------------------------------ *)
(* labels as an association list, through the entry machinery of Assoc.v *)

(* a label n is carried as the entry EP (Some (n, 0)) *)
Definition enc (e : lentry) : entry := match e with LB => EB | LP n => EP (Some (n, 0)) end.
Definition decv (v : option loc) : nat := match v with Some x => fst x | None => 0 end.

Definition alabs (d : dyck) (p : loc) (cl nl : nat) : list (loc * nat) :=
  map (fun kv => (fst kv, decv (snd kv))) (assoc (map enc (lents d cl nl)) p).

Lemma decv_row (r : list nat) : map decv (map (fun n => Some (n, 0)) r) = r.
Proof. rewrite map_map. rewrite <- (map_id r) at 2. apply map_ext. reflexivity. Qed.
Lemma decv_tab (t : list (list nat)) : map (map decv) (map (map (fun n => Some (n, 0))) t) = t.
Proof. rewrite map_map. rewrite <- (map_id t) at 2. apply map_ext. intros r. apply decv_row. Qed.

Lemma appL_enc les : forall pc,
  let pe := appE (map (map (fun n => Some (n, 0))) (fst pc), map (fun n => Some (n, 0)) (snd pc)) (map enc les) in
  fst (appL pc les) = map (map decv) (fst pe) /\ snd (appL pc les) = map decv (snd pe).
Proof.
  induction les as [|[|n] r IH]; intros pc; cbn [map enc appE appL fst snd].
  - rewrite decv_tab, decv_row. split; reflexivity.
  - specialize (IH (fst pc ++ [snd pc], [])). cbn [fst snd map] in IH.
    rewrite map_app in IH. cbn [map] in IH. exact IH.
  - specialize (IH (fst pc, snd pc ++ [n])). cbn [fst snd] in IH.
    rewrite map_app in IH. cbn [map] in IH. exact IH.
Qed.

Lemma getl_loops_of d a :
  getl (loops_of d) a = option_map decv (alookup a (assoc (map enc (lents d 0 0)) (0, 0))).
Proof.
  unfold loops_of. cbn zeta.
  destruct (appL_enc (lents d 0 0) ([], [])) as [H1 H2]. cbn [fst snd map] in H1, H2.
  pose proof (getPC_appE (map enc (lents d 0 0)) ([], []) a) as G.
  rewrite getPC_empty in G. unfold getPC, get in G.
  rewrite H1, H2. unfold getl.
  set (pe := appE _ _). change (appE _ _) with pe in G.
  replace (map (map decv) (fst pe) ++ [map decv (snd pe)]) with (map (map decv) (fst pe ++ [snd pe]))
    by (rewrite map_app; reflexivity).
  rewrite nth_error_map.
  change (posOf ([], [])) with (0, 0) in G.
  match goal with |- context [@nth_error ?T ?t (fst a)] =>
    assert (G' : match @nth_error T t (fst a) with Some r => nth_error r (snd a) | None => None end
                 = alookup a (assoc (map enc (lents d 0 0)) (0, 0))) by exact G;
    destruct (@nth_error T t (fst a)) as [r|] end; cbn [option_map].
  - rewrite nth_error_map, G'. reflexivity.
  - rewrite <- G'. reflexivity.
Qed.

Lemma eadv_enc d : forall p cl nl, eadv (map enc (lents d cl nl)) p = adv d p.
Proof.
  induction d as [|r IH|r IH|i IHi r IHr]; intros p cl nl; cbn [lents map enc eadv adv].
  - reflexivity.
  - apply IH.
  - apply IH.
  - rewrite map_app, eadv_app. cbn [map enc eadv]. rewrite IHi. apply IHr.
Qed.

Lemma alabs_DU r p cl nl : alabs (DU r) p cl nl = (p, cl) :: alabs r (fst p, S (snd p)) cl nl.
Proof. reflexivity. Qed.
Lemma alabs_DB r p cl nl : alabs (DB r) p cl nl = alabs r (S (fst p), 0) cl nl.
Proof. reflexivity. Qed.
Lemma alabs_DP i r p cl nl :
  alabs (DP i r) p cl nl =
  let q := adv i (fst p, S (snd p)) in
  (p, S nl) :: alabs i (fst p, S (snd p)) (S nl) (S nl) ++
  (q, S nl) :: alabs r (fst q, S (snd q)) cl (S nl + npairs i).
Proof.
  unfold alabs. cbn [lents map enc assoc fst snd decv]. f_equal.
  rewrite map_app, assoc_app, map_app. f_equal. rewrite eadv_enc. reflexivity.
Qed.

Lemma alabs_keys d : forall p cl nl, map fst (alabs d p cl nl) = map fst (aents d p).
Proof.
  induction d as [|r IH|r IH|i IHi r IHr]; intros p cl nl.
  - reflexivity.
  - rewrite alabs_DU. unfold aents. cbn [ents assoc map fst]. f_equal. apply IH.
  - rewrite alabs_DB. unfold aents. cbn [ents assoc]. apply IH.
  - rewrite alabs_DP, aents_DP. cbn zeta. cbn [map fst]. f_equal.
    rewrite !map_app. cbn [map fst]. rewrite IHi, IHr. reflexivity.
Qed.

(* the label read from the table is the label of the association list *)
Lemma getl_alabs d a n : getl (loops_of d) a = Some n <-> In (a, n) (alabs d (0, 0) 0 0).
Proof.
  rewrite getl_loops_of. unfold alabs. split.
  - destruct (alookup a _) as [v|] eqn:E; [|discriminate]. intros H; injection H as <-.
    apply alookup_In in E. apply in_map_iff. exists (a, v). split; [reflexivity|exact E].
  - intros H. apply in_map_iff in H. destruct H as ([k v] & E & H). cbn [fst snd] in E.
    injection E as -> <-. rewrite (In_alookup _ _ _ _ H). reflexivity.
Qed.

(* same positions as the pair table *)
Theorem loops_shape d a : (exists n, getl (loops_of d) a = Some n) <-> (exists v, get (tab_of d) a = Some v).
Proof.
  split.
  - intros [n H]. apply getl_alabs in H.
    assert (Hk : In a (map fst (alabs d (0, 0) 0 0))) by (apply in_map_iff; exists (a, n); auto).
    rewrite alabs_keys in Hk. apply in_map_iff in Hk. destruct Hk as ([k v] & E & Hin). cbn in E. subst k.
    exists v. apply get_tab_of_In. exact Hin.
  - intros [v H]. apply get_tab_of_In in H.
    assert (Hk : In a (map fst (aents d (0, 0)))) by (apply in_map_iff; exists (a, v); auto).
    rewrite <- (alabs_keys d (0, 0) 0 0) in Hk. apply in_map_iff in Hk. destruct Hk as ([k n] & E & Hin).
    cbn in E. subst k. exists n. apply getl_alabs. exact Hin.
Qed.

(* ------------------------------------------------------------------ *)
(* partners share their label                                           *)

Lemma alabs_partner d : forall p cl nl a b,
  In (a, Some b) (aents d p) ->
  exists n, In (a, n) (alabs d p cl nl) /\ In (b, n) (alabs d p cl nl).
Proof.
  induction d as [|r IH|r IH|i IHi r IHr]; intros p cl nl a b H.
  - contradiction.
  - unfold aents in H. cbn [ents assoc] in H. destruct H as [H|H]; [discriminate|].
    destruct (IH (fst p, S (snd p)) cl nl a b H) as (n & H1 & H2).
    exists n. rewrite alabs_DU. split; right; assumption.
  - unfold aents in H. cbn [ents assoc] in H. rewrite alabs_DB. apply IH, H.
  - rewrite aents_DP in H. cbn zeta in H. rewrite alabs_DP. cbn zeta.
    set (q := adv i (fst p, S (snd p))) in *.
    destruct H as [H|H].
    + injection H as <- <-. exists (S nl). split; [left; reflexivity|].
      right. apply in_or_app. right. left. reflexivity.
    + apply in_app_or in H. destruct H as [H|[H|H]].
      * destruct (IHi _ (S nl) (S nl) a b H) as (n & H1 & H2). exists n.
        split; right; apply in_or_app; left; assumption.
      * injection H as <- <-. exists (S nl). split; [|left; reflexivity].
        right. apply in_or_app. right. left. reflexivity.
      * destruct (IHr _ cl (S nl + npairs i) a b H) as (n & H1 & H2). exists n.
        split; right; apply in_or_app; right; right; assumption.
Qed.

Theorem loops_partners d a b :
  get (tab_of d) a = Some (Some b) ->
  exists n, getl (loops_of d) a = Some n /\ getl (loops_of d) b = Some n.
Proof.
  intros H. apply get_tab_of_In in H.
  destruct (alabs_partner d (0, 0) 0 0 a b H) as (n & H1 & H2).
  exists n. split; apply getl_alabs; assumption.
Qed.

(* ------------------------------------------------------------------ *)
(* opening brackets are numbered in text order                          *)

(* the opening positions of d, in text order *)
Fixpoint opens (d : dyck) (p : loc) : list loc :=
  match d with
  | DNil => []
  | DU r => opens r (fst p, S (snd p))
  | DB r => opens r (S (fst p), 0)
  | DP i r => let q := adv i (fst p, S (snd p)) in
              p :: opens i (fst p, S (snd p)) ++ opens r (fst q, S (snd q))
  end.

(* independent reading of `opens`: the keys of the pair table whose partner comes later *)
Lemma opens_spec d : forall p,
  opens d p = map fst (filter (fun kv => match snd kv with Some b => loc_ltb (fst kv) b | None => false end)
                              (aents d p)).
Proof.
  induction d as [|r IH|r IH|i IHi r IHr]; intros p; cbn [opens].
  - reflexivity.
  - unfold aents. cbn [ents assoc filter snd]. apply (IH (_, _)).
  - unfold aents. cbn [ents assoc]. apply (IH (_, _)).
  - rewrite aents_DP. cbn zeta. set (q := adv i (fst p, S (snd p))).
    assert (Hpq : lt_loc p q) by apply lt_loc_adv_S.
    cbn [filter fst snd]. rewrite (ltb_loc_true _ _ Hpq). cbn [map fst]. f_equal.
    rewrite filter_app, map_app. cbn [filter fst snd]. rewrite (ltb_loc_false _ _ Hpq).
    rewrite <- IHi, <- IHr. reflexivity.
Qed.

Lemma opens_length d : forall p, length (opens d p) = npairs d.
Proof.
  induction d as [|r IH|r IH|i IHi r IHr]; intros p; cbn [opens npairs length]; auto.
  rewrite app_length, IHi, IHr. reflexivity.
Qed.

Lemma alabs_opens d : forall p cl nl k o,
  nth_error (opens d p) k = Some o -> In (o, S (nl + k)) (alabs d p cl nl).
Proof.
  induction d as [|r IH|r IH|i IHi r IHr]; intros p cl nl k o H; cbn [opens] in H.
  - destruct k; discriminate.
  - rewrite alabs_DU. right. apply IH, H.
  - rewrite alabs_DB. apply IH, H.
  - rewrite alabs_DP. cbn zeta. destruct k as [|k]; cbn [nth_error] in H.
    + injection H as <-. left. rewrite Nat.add_0_r. reflexivity.
    + right. apply in_or_app.
      destruct (Nat.lt_ge_cases k (npairs i)) as [Hk|Hk].
      * left. rewrite nth_error_app1 in H by (rewrite opens_length; exact Hk).
        apply (IHi _ (S nl) (S nl)) in H. replace (S (nl + S k)) with (S (S nl + k)) by lia. exact H.
      * right. right. rewrite nth_error_app2 in H by (rewrite opens_length; exact Hk).
        rewrite opens_length in H. apply (IHr _ cl (S nl + npairs i)) in H.
        replace (S (nl + S k)) with (S (S nl + npairs i + (k - npairs i))) by lia. exact H.
Qed.

(* the k-th opening bracket (k = 0, 1, ...) carries the number k + 1 *)
Theorem loops_opening d k o :
  nth_error (opens d (0, 0)) k = Some o -> getl (loops_of d) o = Some (S k).
Proof. intros H. apply getl_alabs. apply (alabs_opens d (0, 0) 0 0 k o H). Qed.

(* ------------------------------------------------------------------ *)
(* unpaired positions carry the number of the innermost enclosing pair  *)

(* o opens a pair of L that encloses a *)
Definition encloses (L : list (loc * option loc)) (o a : loc) : Prop :=
  exists c, In (o, Some c) L /\ lt_loc o a /\ lt_loc a c.

Lemma alabs_In_key d p cl nl a n : In (a, n) (alabs d p cl nl) -> le_loc p a /\ lt_loc a (adv d p).
Proof.
  intros H. assert (Hk : In a (map fst (alabs d p cl nl))) by (apply in_map_iff; exists (a, n); auto).
  rewrite alabs_keys in Hk. apply in_map_iff in Hk. destruct Hk as ([k v] & E & Hin). cbn in E. subst k.
  eapply aents_range, Hin.
Qed.

Lemma alabs_unpaired d : forall p cl nl a,
  In (a, None) (aents d p) ->
  (In (a, cl) (alabs d p cl nl) /\ forall o, ~ encloses (aents d p) o a) \/
  (exists o n, encloses (aents d p) o a /\ In (o, n) (alabs d p cl nl) /\ In (a, n) (alabs d p cl nl) /\
               forall o', encloses (aents d p) o' a -> le_loc o' o).
Proof.
  induction d as [|r IH|r IH|i IHi r IHr]; intros p cl nl a H.
  - contradiction.
  - (* DU *)
    unfold aents in H. cbn [ents assoc] in H. rewrite alabs_DU.
    assert (Enc : forall o, encloses (aents (DU r) p) o a <-> encloses (aents r (fst p, S (snd p))) o a).
    { intros o. unfold encloses, aents. cbn [ents assoc]. split; intros (c & Hc & R); exists c; (split; [|exact R]).
      - destruct Hc as [Hc|Hc]; [discriminate|exact Hc].
      - right. exact Hc. }
    destruct H as [H|H].
    + injection H as <-. left. split; [left; reflexivity|].
      intros o Ho. apply Enc in Ho. destruct Ho as (c & Hc & Hlt & _).
      apply aents_range in Hc. unfold le_loc, lt_loc in *. cbn [fst snd] in *. lia.
    + destruct (IH _ cl nl a H) as [[H1 H2]|(o & n & H1 & H2 & H3 & H4)].
      * left. split; [right; exact H1|]. intros o Ho. apply (H2 o), Enc, Ho.
      * right. exists o, n. split; [apply Enc, H1|]. split; [right; exact H2|]. split; [right; exact H3|].
        intros o' Ho'. apply H4, Enc, Ho'.
  - (* DB *)
    unfold aents in H. cbn [ents assoc] in H. rewrite alabs_DB.
    destruct (IH _ cl nl a H) as [[H1 H2]|(o & n & H1 & H2 & H3 & H4)].
    + left. split; [exact H1|exact H2].
    + right. exists o, n. auto.
  - (* DP *)
    rewrite aents_DP in H. cbn zeta in H. rewrite alabs_DP. cbn zeta.
    set (p1 := (fst p, S (snd p))) in *. set (q := adv i p1) in *. set (q1 := (fst q, S (snd q))) in *.
    assert (Hpq : lt_loc p q) by apply lt_loc_adv_S.
    assert (HL : aents (DP i r) p = (p, Some q) :: aents i p1 ++ (q, Some p) :: aents r q1)
      by (rewrite aents_DP; reflexivity).
    (* enclosing pairs of the whole in terms of the parts *)
    assert (EncI : forall o, encloses (aents i p1) o a -> encloses (aents (DP i r) p) o a).
    { intros o (c & Hc & R). exists c. split; [|exact R]. rewrite HL. right. apply in_or_app. left. exact Hc. }
    assert (EncR : forall o, encloses (aents r q1) o a -> encloses (aents (DP i r) p) o a).
    { intros o (c & Hc & R). exists c. split; [|exact R]. rewrite HL. right. apply in_or_app. right. right. exact Hc. }
    destruct H as [H|H]; [discriminate|].
    apply in_app_or in H. destruct H as [H|[H|H]]; [| discriminate |].
    + (* a inside the pair *)
      pose proof (aents_range i p1 a None H) as Ra. fold q in Ra.
      assert (Hpa : lt_loc p a) by (unfold p1, le_loc, lt_loc in *; cbn [fst snd] in *; lia).
      assert (EncP : encloses (aents (DP i r) p) p a).
      { exists q. split; [rewrite HL; left; reflexivity|]. split; [exact Hpa|tauto]. }
      assert (Split : forall o, encloses (aents (DP i r) p) o a -> o = p \/ encloses (aents i p1) o a).
      { intros o (c & Hc & R1 & R2). rewrite HL in Hc. destruct Hc as [Hc|Hc]; [injection Hc as <- <-; left; reflexivity|].
        apply in_app_or in Hc. destruct Hc as [Hc|[Hc|Hc]].
        - right. exists c. auto.
        - injection Hc as <- <-. exfalso. unfold le_loc, lt_loc in *. cbn [fst snd] in *. lia.
        - exfalso. apply aents_range in Hc. unfold q1, le_loc, lt_loc in *. cbn [fst snd] in *. lia. }
      right.
      destruct (IHi p1 (S nl) (S nl) a H) as [[H1 H2]|(o & n & H1 & H2 & H3 & H4)].
      * exists p, (S nl). split; [exact EncP|]. split; [left; reflexivity|].
        split; [right; apply in_or_app; left; exact H1|].
        intros o' Ho'. destruct (Split o' Ho') as [->|He]; [right; lia|]. exfalso. apply (H2 o' He).
      * exists o, n. split; [apply EncI, H1|]. split; [right; apply in_or_app; left; exact H2|].
        split; [right; apply in_or_app; left; exact H3|].
        intros o' Ho'. destruct (Split o' Ho') as [->|He]; [|apply H4, He].
        destruct H1 as (c & Hc & _). apply aents_range in Hc.
        unfold p1, le_loc, lt_loc in *. cbn [fst snd] in *. lia.
    + (* a after the pair *)
      pose proof (aents_range r q1 a None H) as Ra.
      assert (Split : forall o, encloses (aents (DP i r) p) o a -> encloses (aents r q1) o a).
      { intros o (c & Hc & R1 & R2). rewrite HL in Hc.
        destruct Hc as [Hc|Hc]; [injection Hc as <- <-; exfalso; unfold q1, le_loc, lt_loc in *; cbn [fst snd] in *; lia|].
        apply in_app_or in Hc. destruct Hc as [Hc|[Hc|Hc]].
        - exfalso. apply aents_sym in Hc. apply aents_range in Hc. fold q in Hc.
          unfold q1, le_loc, lt_loc in *. cbn [fst snd] in *. lia.
        - injection Hc as <- <-. exfalso. unfold q1, le_loc, lt_loc in *. cbn [fst snd] in *. lia.
        - exists c. auto. }
      destruct (IHr q1 cl (S nl + npairs i) a H) as [[H1 H2]|(o & n & H1 & H2 & H3 & H4)].
      * left. split; [right; apply in_or_app; right; right; exact H1|].
        intros o Ho. apply (H2 o), Split, Ho.
      * right. exists o, n. split; [apply EncR, H1|].
        split; [right; apply in_or_app; right; right; exact H2|].
        split; [right; apply in_or_app; right; right; exact H3|].
        intros o' Ho'. apply H4, Split, Ho'.
Qed.

(* o opens a pair of the structure that encloses position a *)
Definition enclosing (d : dyck) (o a : loc) : Prop :=
  exists c, get (tab_of d) o = Some (Some c) /\ lt_loc o a /\ lt_loc a c.

Theorem loops_unpaired d a :
  get (tab_of d) a = Some None ->
  (getl (loops_of d) a = Some 0 /\ forall o, ~ enclosing d o a) \/
  (exists o n, enclosing d o a /\ getl (loops_of d) o = Some n /\ getl (loops_of d) a = Some n /\
               forall o', enclosing d o' a -> le_loc o' o).
Proof.
  intros H. apply get_tab_of_In in H.
  assert (E : forall o, enclosing d o a <-> encloses (aents d (0, 0)) o a).
  { intros o. unfold enclosing, encloses. split; intros (c & Hc & R); exists c; (split; [|exact R]).
    - apply get_tab_of_In, Hc.
    - apply get_tab_of_In, Hc. }
  destruct (alabs_unpaired d (0, 0) 0 0 a H) as [[H1 H2]|(o & n & H1 & H2 & H3 & H4)].
  - left. split; [apply getl_alabs, H1|]. intros o Ho. apply (H2 o), E, Ho.
  - right. exists o, n. split; [apply E, H1|]. split; [apply getl_alabs, H2|]. split; [apply getl_alabs, H3|].
    intros o' Ho'. apply H4, E, Ho'.
Qed.

(* non-vacuity: "(.(.)+.)" *)
Example ex_sem :
  let d := DP (DU (DP (DU DNil) (DB (DU DNil)))) DNil in
  loops_of d = [[1; 1; 2; 2; 2]; [1; 1]] /\ opens d (0, 0) = [(0, 0); (0, 2)] /\
  get (tab_of d) (0, 3) = Some None /\ enclosing d (0, 2) (0, 3) /\ enclosing d (0, 0) (0, 3).
Proof.
  cbn zeta. split; [reflexivity|]. split; [reflexivity|]. split; [reflexivity|].
  split; [exists (0, 4)|exists (1, 1)]; (split; [reflexivity|]); unfold lt_loc; cbn; lia.
Qed.

(* ------------------------------------------------------------------ *)
(* the loop of a strand break: the innermost pair that spans it         *)

(* o opens a pair of L that starts in a strand <= K and ends in a strand > K,
   i.e. the break between strands K and K + 1 lies inside it *)
Definition spansL (L : list (loc * option loc)) (o : loc) (K : nat) : Prop :=
  exists c, In (o, Some c) L /\ fst o <= K /\ K < fst c.

Lemma bl_spans d : forall p cl nl k l,
  nth_error (bl d cl nl) k = Some l ->
  (l = cl /\ forall o, ~ spansL (aents d p) o (fst p + k)) \/
  (exists o, spansL (aents d p) o (fst p + k) /\ In (o, l) (alabs d p cl nl) /\
             forall o', spansL (aents d p) o' (fst p + k) -> le_loc o' o).
Proof.
  induction d as [|r IH|r IH|i IHi r IHr]; intros p cl nl k l H; cbn [bl] in H.
  - destruct k; discriminate.
  - (* DU *)
    assert (Sp : forall o K, spansL (aents (DU r) p) o K <-> spansL (aents r (fst p, S (snd p))) o K).
    { intros o K. unfold spansL, aents. cbn [ents assoc]. split; intros (c & Hc & R); exists c; (split; [|exact R]).
      - destruct Hc as [Hc|Hc]; [discriminate|exact Hc].
      - right. exact Hc. }
    destruct (IH (fst p, S (snd p)) cl nl k l H) as [[H1 H2]|(o & H1 & H2 & H3)]; cbn [fst] in *.
    + left. split; [exact H1|]. intros o Ho. apply (H2 o), Sp, Ho.
    + right. exists o. split; [apply Sp, H1|]. split; [rewrite alabs_DU; right; exact H2|].
      intros o' Ho'. apply H3, Sp, Ho'.
  - (* DB *)
    destruct k as [|k]; cbn [nth_error] in H.
    + injection H as <-. left. split; [reflexivity|]. intros o (c & Hc & R1 & R2).
      unfold aents in Hc. cbn [ents assoc] in Hc. apply (aents_strands r (S (fst p), 0)) in Hc. cbn [fst] in Hc. lia.
    + destruct (IH (S (fst p), 0) cl nl k l H) as [[H1 H2]|(o & H1 & H2 & H3)]; cbn [fst] in *;
        replace (S (fst p) + k) with (fst p + S k) in * by lia.
      * left. split; [exact H1|exact H2].
      * right. exists o. split; [exact H1|]. split; [rewrite alabs_DB; exact H2|exact H3].
  - (* DP *)
    set (p1 := (fst p, S (snd p))) in *. set (q := adv i p1) in *. set (q1 := (fst q, S (snd q))) in *.
    assert (Hq : fst q = fst p + nbreaks i) by (unfold q; rewrite adv_fst; reflexivity).
    assert (HL : aents (DP i r) p = (p, Some q) :: aents i p1 ++ (q, Some p) :: aents r q1)
      by (rewrite aents_DP; reflexivity).
    rewrite alabs_DP. cbn zeta. fold p1. fold q. fold q1.
    destruct (Nat.lt_ge_cases k (nbreaks i)) as [Hk|Hk].
    + (* the break lies inside the pair *)
      rewrite nth_error_app1 in H by (rewrite bl_length; exact Hk).
      assert (SpP : spansL (aents (DP i r) p) p (fst p + k)).
      { exists q. split; [rewrite HL; left; reflexivity|]. lia. }
      assert (Split : forall o, spansL (aents (DP i r) p) o (fst p + k) -> o = p \/ spansL (aents i p1) o (fst p + k)).
      { intros o (c & Hc & R1 & R2). rewrite HL in Hc. destruct Hc as [Hc|Hc]; [injection Hc as <- <-; left; reflexivity|].
        apply in_app_or in Hc. destruct Hc as [Hc|[Hc|Hc]].
        - right. exists c. auto.
        - injection Hc as <- <-. lia.
        - exfalso. apply (aents_strands r q1) in Hc. unfold q1 in Hc. cbn [fst] in Hc. lia. }
      right.
      destruct (IHi p1 (S nl) (S nl) k l H) as [[H1 H2]|(o & H1 & H2 & H3)]; cbn [fst] in *.
      * exists p. split; [exact SpP|]. split; [left; rewrite H1; reflexivity|].
        intros o' Ho'. destruct (Split o' Ho') as [->|He]; [right; lia|]. exfalso. apply (H2 o' He).
      * exists o. split.
        { destruct H1 as (c & Hc & R). exists c. split; [rewrite HL; right; apply in_or_app; left; exact Hc|exact R]. }
        split; [right; apply in_or_app; left; exact H2|].
        intros o' Ho'. destruct (Split o' Ho') as [->|He]; [|apply H3, He].
        destruct H1 as (c & Hc & _). apply aents_range in Hc.
        unfold p1, le_loc, lt_loc in *. cbn [fst snd] in *. lia.
    + (* the break lies after the pair *)
      rewrite nth_error_app2 in H by (rewrite bl_length; exact Hk). rewrite bl_length in H.
      assert (HK : fst q1 + (k - nbreaks i) = fst p + k) by (unfold q1; cbn [fst]; lia).
      assert (Split : forall o, spansL (aents (DP i r) p) o (fst p + k) -> spansL (aents r q1) o (fst p + k)).
      { intros o (c & Hc & R1 & R2). rewrite HL in Hc. destruct Hc as [Hc|Hc]; [injection Hc as <- <-; lia|].
        apply in_app_or in Hc. destruct Hc as [Hc|[Hc|Hc]].
        - exfalso. apply (aents_strands i p1) in Hc. unfold p1 in Hc. cbn [fst] in Hc. lia.
        - injection Hc as <- <-. lia.
        - exists c. auto. }
      destruct (IHr q1 cl (S nl + npairs i) (k - nbreaks i) l H) as [[H1 H2]|(o & H1 & H2 & H3)]; rewrite HK in *.
      * left. split; [exact H1|]. intros o Ho. apply (H2 o), Split, Ho.
      * right. exists o. split.
        { destruct H1 as (c & Hc & R). exists c. split; [rewrite HL; right; apply in_or_app; right; right; exact Hc|exact R]. }
        split; [right; apply in_or_app; right; right; exact H2|].
        intros o' Ho'. apply H3, Split, Ho'.
Qed.

(* o opens a pair of the structure inside which the break after strand k lies *)
Definition spanning (d : dyck) (o : loc) (k : nat) : Prop :=
  exists c, get (tab_of d) o = Some (Some c) /\ fst o <= k /\ k < fst c.

(* the loop that directly contains the break after strand k (the k-th entry of
   bl d 0 0, i.e. of the exterior list ends d) is loop 0 if no pair spans the
   break, otherwise the loop of the innermost pair that spans it *)
Theorem break_loop_spec d k l :
  nth_error (bl d 0 0) k = Some l ->
  (l = 0 /\ forall o, ~ spanning d o k) \/
  (exists o, spanning d o k /\ getl (loops_of d) o = Some l /\
             forall o', spanning d o' k -> le_loc o' o).
Proof.
  intros H.
  assert (E : forall o, spanning d o k <-> spansL (aents d (0, 0)) o k).
  { intros o. unfold spanning, spansL. split; intros (c & Hc & R); exists c; (split; [|exact R]).
    - apply get_tab_of_In, Hc.
    - apply get_tab_of_In, Hc. }
  destruct (bl_spans d (0, 0) 0 0 k l H) as [[H1 H2]|(o & H1 & H2 & H3)]; cbn [fst Nat.add] in *.
  - left. split; [exact H1|]. intros o Ho. apply (H2 o), E, Ho.
  - right. exists o. split; [apply E, H1|]. split; [apply getl_alabs, H2|].
    intros o' Ho'. apply H3, E, Ho'.
Qed.

(* one break per strand boundary *)
Theorem break_count d : length (bl d 0 0) = length (tab_of d) - 1.
Proof. rewrite bl_length, tab_of_length. lia. Qed.
